(* Property C03 - what a nil verdict of the polygon validation guarantees (local OGC rules), and
   the start-vertex independence of the nested-ring probe after fixes/F3.patch.
   Main results: polygon_validate_sound_partial_lemma, nested_probe_start_invariant_lemma. *)
From Coq Require Import QArith Qreduction List Bool ZArith Lia Lqa Arith Setoid Morphisms.
From SF Require Import Base.QKernel Model.Validate Model.ValidateSpec Proofs.Validate_kernel Proofs.Validate_proofs Proofs.Validate_graph.
Import ListNotations.
Open Scope Q_scope.


(* ------------------------------------------------------------------ the nested-ring probe after the fix *)
(* [first_off_boundary vs other] is the side of the first vertex of vs that is not on [other] *)
Lemma first_off_boundary_spec vs other :
  match first_off_boundary vs other with
  | SBoundary => forall p, In p vs -> relate_lines p other false = SBoundary
  | s => exists l1 p l2, vs = l1 ++ p :: l2 /\ relate_lines p other false = s
                         /\ forall q, In q l1 -> relate_lines q other false = SBoundary
  end.
Proof.
  induction vs as [|a r IH]; simpl; [intros p []|].
  destruct (relate_lines a other false) eqn:E.
  - exists [], a, r. simpl. split; [reflexivity|]. split; [exact E|]. intros q [].
  - destruct (first_off_boundary r other) eqn:F.
    + destruct IH as [l1 [p [l2 [E1 [E2 E3]]]]]. exists (a :: l1), p, l2. subst r. simpl. split; auto. split; auto.
      intros q [<-|Hq]; auto.
    + intros p [<-|Hp]; auto.
    + destruct IH as [l1 [p [l2 [E1 [E2 E3]]]]]. exists (a :: l1), p, l2. subst r. simpl. split; auto. split; auto.
      intros q [<-|Hq]; auto.
  - exists [], a, r. simpl. split; [reflexivity|]. split; [exact E|]. intros q [].
Qed.

(* all vertices of vs that are not on [other] lie on the same side s of it (what holds when the
   two rings do not cross) *)
Definition uniform_side (vs : list pt) (other : list seg) (s : side) : Prop :=
  forall p, In p vs -> relate_lines p other false = SBoundary \/ relate_lines p other false = s.

Lemma first_off_boundary_uniform vs other s :
  s <> SBoundary -> uniform_side vs other s ->
  (exists p, In p vs /\ relate_lines p other false = s) ->
  first_off_boundary vs other = s.
Proof.
  intros Hs Hu [p [Hp Ep]]. pose proof (first_off_boundary_spec vs other) as K.
  destruct (first_off_boundary vs other) eqn:F.
  - destruct K as [l1 [q [l2 [E1 [E2 _]]]]].
    destruct (Hu q) as [H|H]; [subst vs; apply in_or_app; right; left; reflexivity | congruence | congruence].
  - rewrite (K p Hp) in Ep. congruence.
  - destruct K as [l1 [q [l2 [E1 [E2 _]]]]].
    destruct (Hu q) as [H|H]; [subst vs; apply in_or_app; right; left; reflexivity | congruence | congruence].
Qed.

(* Start-vertex independence of the fixed probe: when the vertices of a ring that are off the other
   ring all lie on one side of it, the probe returns that side for every list with the same
   vertices - in particular for the ring started at any other vertex or reversed. *)
Theorem nested_probe_start_invariant_lemma vs vs' other s :
  s <> SBoundary -> uniform_side vs other s ->
  (forall p, In p vs' <-> In p vs) ->
  (exists p, In p vs /\ relate_lines p other false = s) ->
  first_off_boundary vs' other = first_off_boundary vs other.
Proof.
  intros Hs Hu Hperm Hex.
  rewrite (first_off_boundary_uniform vs other s Hs Hu Hex).
  apply first_off_boundary_uniform; [exact Hs| |].
  - intros p Hp. apply Hu. apply Hperm. exact Hp.
  - destruct Hex as [p [Hp Ep]]. exists p. split; [apply Hperm; exact Hp | exact Ep].
Qed.


(* ------------------------------------------------------------------ line set against line set *)
Definition nondeg (s : seg) : Prop := ~ pt_eq (fst s) (snd s).

(* what a summary says about a set S of processed segment pairs *)
Definition Cov (r : isum) (S : seg -> seg -> Prop) : Prop :=
  match r with
  | IMulti => True
  | INone => forall la lb, S la lb -> forall p, ~ common la lb p
  | ISingle x => forall la lb, S la lb -> forall p, common la lb p -> pt_eq p x
  end.

Lemma isum_step_cov acc la lb S : nondeg la -> nondeg lb -> Cov acc S ->
  Cov (isum_step acc la lb) (fun a b => S a b \/ (a = la /\ b = lb)).
Proof.
  intros Na Nb Hc. unfold isum_step.
  destruct la as [a b], lb as [c d]. pose proof (intersect_line_spec a b c d Na Nb) as Sp.
  destruct acc as [|q|]; [| |exact I].
  - destruct (intersect_line (a, b) (c, d)) as [|pa pb]; simpl in Sp.
    + simpl. intros la lb [H|[-> ->]]; [apply Hc; exact H | exact Sp].
    + destruct Sp as [Ca [Cb U]]. destruct (pt_eqb pa pb) eqn:E; simpl; [|exact I].
      apply pt_eqb_iff in E. intros la lb [H|[-> ->]] p Hp; [exfalso; exact (Hc la lb H p Hp) | exact (U E p Hp)].
  - destruct (intersect_line (a, b) (c, d)) as [|pa pb]; simpl in Sp.
    + simpl. intros la lb [H|[-> ->]] p Hp; [exact (Hc la lb H p Hp) | exfalso; exact (Sp p Hp)].
    + destruct Sp as [Ca [Cb U]]. destruct (pt_eqb pa pb) eqn:E; simpl; [|exact I].
      apply pt_eqb_iff in E. destruct (pt_eqb q pa) eqn:E2; [|exact I].
      apply pt_eqb_iff in E2. simpl. intros la lb [H|[-> ->]] p Hp; [exact (Hc la lb H p Hp)|].
      rewrite E2. exact (U E p Hp).
Qed.

Lemma Cov_ext r (S S' : seg -> seg -> Prop) : (forall a b, S' a b -> S a b) -> Cov r S -> Cov r S'.
Proof. intros H. destruct r; simpl; auto; intros K la lb Hs; apply K; apply H; exact Hs. Qed.

Lemma inter_summary_cov l1 l2 : Forall nondeg l1 -> Forall nondeg l2 ->
  Cov (inter_summary l1 l2) (fun la lb => In la l2 /\ In lb l1).
Proof.
  intros N1 N2. unfold inter_summary.
  assert (Hin : forall la, nondeg la -> forall l1' acc S, Forall nondeg l1' -> Cov acc S ->
            Cov (fold_left (fun acc' lb => isum_step acc' la lb) l1' acc) (fun a b => S a b \/ (a = la /\ In b l1'))).
  { intros la Na. induction l1' as [|s r IH]; intros acc S Hn Hc; simpl.
    - eapply Cov_ext; [|exact Hc]. intros a b [H|[_ []]]. exact H.
    - inversion Hn; subst. eapply Cov_ext; [|apply IH; [assumption | apply isum_step_cov; eassumption]].
      simpl. intros a b [H|[-> [<-|H]]]; auto. }
  assert (Hout : forall l2' acc S, Forall nondeg l2' -> Cov acc S ->
            Cov (fold_left (fun acc0 la => fold_left (fun acc' lb => isum_step acc' la lb) l1 acc0) l2' acc)
                (fun a b => S a b \/ (In a l2' /\ In b l1))).
  { induction l2' as [|s r IH]; intros acc S Hn Hc; simpl.
    - eapply Cov_ext; [|exact Hc]. intros a b [H|[[] _]]. exact H.
    - inversion Hn; subst. eapply Cov_ext; [|apply IH; [assumption | apply Hin; eassumption]].
      simpl. intros a b [H|[[<-|H] H']]; auto. }
  eapply Cov_ext; [|apply (Hout l2 INone (fun _ _ => False) N2)].
  - simpl. intros a b H. right. exact H.
  - simpl. intros la lb [].
Qed.

Lemma as_lines_all_nondeg ps : Forall nondeg (as_lines ps).
Proof. apply Forall_forall. intros s Hs. exact (as_lines_nondegenerate ps s Hs). Qed.

(* a point of the curve through the vertices ps (on one of its valid lines) *)
Definition on_curve (ps : list pt) (p : pt) : Prop := exists s, In s (as_lines ps) /\ on_seg s p = true.

(* the summary of two rings that is not "multiple": they share at most one point *)
Lemma inter_summary_at_most_one ri rj :
  inter_summary (as_lines ri) (as_lines rj) <> IMulti ->
  forall p q, on_curve ri p -> on_curve rj p -> on_curve ri q -> on_curve rj q -> pt_eq p q.
Proof.
  intros H p q [s1 [I1 O1]] [t1 [J1 P1]] [s2 [I2 O2]] [t2 [J2 P2]].
  pose proof (inter_summary_cov _ _ (as_lines_all_nondeg ri) (as_lines_all_nondeg rj)) as C.
  destruct (inter_summary (as_lines ri) (as_lines rj)) as [|x|]; simpl in C; [| |congruence].
  - exfalso. apply (C t1 s1 (conj J1 I1) p). split; assumption.
  - rewrite (C t1 s1 (conj J1 I1) p), (C t2 s2 (conj J2 I2) q); [reflexivity | split; assumption | split; assumption].
Qed.


(* ------------------------------------------------------------------ the pair loop of Polygon.Validate *)
Fixpoint indexed {A} (i : nat) (l : list A) : list (nat * A) :=
  match l with [] => [] | x :: r => (i, x) :: indexed (S i) r end.
Lemma indexed_in {A} (l : list A) : forall i j x, In (j, x) (indexed i l) <-> (i <= j)%nat /\ nth_error l (j - i) = Some x.
Proof.
  induction l as [|a r IH]; intros i j x; simpl.
  - split; [tauto|]. intros [_ H]. destruct (j - i)%nat; discriminate.
  - rewrite IH. split.
    + intros [H|[H1 H2]].
      * inversion H; subst. rewrite Nat.sub_diag. simpl. auto.
      * split; [lia|]. replace (j - i)%nat with (S (j - S i)) by lia. exact H2.
    + intros [H1 H2]. destruct (Nat.eq_dec i j) as [->|Hne].
      * rewrite Nat.sub_diag in H2. simpl in H2. inversion H2. left; reflexivity.
      * right. split; [lia|]. replace (j - i)%nat with (S (j - S i)) in H2 by lia. exact H2.
Qed.
Lemma indexed_app {A} (l1 l2 : list A) i : indexed i (l1 ++ l2) = indexed i l1 ++ indexed (i + length l1) l2.
Proof.
  revert i. induction l1 as [|a r IH]; intros i; simpl; [rewrite Nat.add_0_r; reflexivity|].
  rewrite IH. replace (S i + length r)%nat with (i + S (length r))%nat by lia. reflexivity.
Qed.

Lemma nth_error_firstn_lt {A} (l : list A) : forall k j, (j < k)%nat -> nth_error (firstn k l) j = nth_error l j.
Proof.
  induction l as [|a r IH]; intros k j H; [destruct k, j; reflexivity|].
  destruct k as [|k]; [lia|]. destruct j as [|j]; [reflexivity|]. simpl. apply IH. lia.
Qed.

Section Loops.
  Variable nested : list pt -> list pt -> option bool.

  Definition PairOK (i j : nat) (ri rj : list pt) : Prop :=
    ((0 < i)%nat -> (0 < j)%nat -> nested ri rj = Some false)
    /\ inter_summary (as_lines ri) (as_lines rj) <> IMulti.

  Lemma pair_step_ok i j ri rj st st' : pair_step nested i j ri rj st = inr st' -> PairOK i j ri rj.
  Proof.
    unfold pair_step, PairOK. intros H. split.
    - intros Hi Hj. apply Nat.ltb_lt in Hi, Hj. rewrite Hi, Hj in H. simpl in H.
      destruct (nested ri rj) as [[|]|]; try discriminate. reflexivity.
    - destruct (if (0 <? i)%nat && (0 <? j)%nat then nested ri rj else Some false) as [[|]|]; try discriminate.
      destruct (inter_summary (as_lines ri) (as_lines rj)); congruence.
  Qed.

  Lemma loop_j_ok i ri below : forall st st', loop_j nested i ri below st = inr st' ->
    forall j rj, In (j, rj) below -> PairOK i j ri rj.
  Proof.
    induction below as [|[j0 r0] t IH]; intros st st' H j rj Hin; [destruct Hin|].
    simpl in H. destruct (pair_step nested i j0 ri r0 st) as [e|st1] eqn:E; [discriminate|].
    destruct Hin as [Heq|Hin]; [inversion Heq; subst; eapply pair_step_ok; eauto | eapply IH; eauto].
  Qed.

  Lemma loop_i_ok rest : forall i below st st', loop_i nested i below rest st = inr st' ->
    forall k ri, nth_error rest k = Some ri ->
    forall j rj, In (j, rj) (below ++ indexed i (firstn k rest)) -> PairOK (i + k) j ri rj.
  Proof.
    induction rest as [|r0 t IH]; intros i below st st' H k ri Hk j rj Hin; [destruct k; discriminate|].
    simpl in H. destruct (loop_j nested i r0 below st) as [e|st1] eqn:E; [discriminate|].
    destruct k as [|k].
    - simpl in Hk. inversion Hk; subst. simpl in Hin. rewrite app_nil_r in Hin. rewrite Nat.add_0_r.
      eapply loop_j_ok; eauto.
    - simpl in Hk. replace (i + S k)%nat with (S i + k)%nat by lia.
      apply (IH (S i) (below ++ [(i, r0)]) st1 st' H k ri Hk j rj).
      simpl in Hin. rewrite <- app_assoc. exact Hin.
  Qed.

  (* the invariant of the touch-graph bookkeeping: intersection vertices are numbered from n,
     ring vertices are below n *)
  Definition GInv (n : nat) (st : pstate) : Prop :=
    (n <= ps_next st)%nat
    /\ (forall p k, In (p, k) (ps_ivs st) -> (n <= k < ps_next st)%nat)
    /\ (forall e, In e (ps_edges st) -> (snd e < n <= fst e)%nat).

  Lemma lookup_pt_in p d k : lookup_pt p d = Some k -> exists q, In (q, k) d.
  Proof.
    induction d as [|[q k0] r IH]; simpl; [discriminate|].
    destruct (pt_eqb q p); [intros H; inversion H; subst; eauto|].
    intros H. destruct (IH H) as [q' Hq]. eauto.
  Qed.

  Lemma pair_step_inv n i j ri rj st st' : (i < n)%nat -> (j < n)%nat -> GInv n st ->
    pair_step nested i j ri rj st = inr st' -> GInv n st'.
  Proof.
    intros Hi Hj [G1 [G2 G3]] H. unfold pair_step in H.
    destruct (if (0 <? i)%nat && (0 <? j)%nat then nested ri rj else Some false) as [[|]|]; try discriminate.
    destruct (inter_summary (as_lines ri) (as_lines rj)) as [|p|]; try discriminate.
    - inversion H; subst. split; auto.
    - destruct (lookup_pt p (ps_ivs st)) as [k|] eqn:L; inversion H; subst; clear H.
      + destruct (lookup_pt_in _ _ _ L) as [q Hq]. pose proof (G2 q k Hq) as Hk.
        split; [exact G1|]. split; [exact G2|]. simpl. intros e [<-|[<-|He]]; simpl; [lia | lia | exact (G3 e He)].
      + split; [simpl; lia|]. split.
        * simpl. intros q k [Heq|Hin]; [inversion Heq; subst; lia | pose proof (G2 q k Hin); lia].
        * simpl. intros e [<-|[<-|He]]; simpl; [lia | lia | exact (G3 e He)].
  Qed.
  Lemma loop_j_inv n i ri below : (i < n)%nat -> (forall j rj, In (j, rj) below -> (j < n)%nat) ->
    forall st st', GInv n st -> loop_j nested i ri below st = inr st' -> GInv n st'.
  Proof.
    intros Hi. induction below as [|[j0 r0] t IH]; intros Hb st st' G H; [simpl in H; inversion H; subst; exact G|].
    simpl in H. destruct (pair_step nested i j0 ri r0 st) as [e|st1] eqn:E; [discriminate|].
    apply (IH (fun j rj Hin => Hb j rj (or_intror Hin)) st1 st'); [|exact H].
    eapply pair_step_inv; [exact Hi | apply (Hb j0 r0); left; reflexivity | exact G | exact E].
  Qed.
  Lemma loop_i_inv n rest : forall i below st st', (i + length rest <= n)%nat ->
    (forall j rj, In (j, rj) below -> (j < n)%nat) -> GInv n st ->
    loop_i nested i below rest st = inr st' -> GInv n st'.
  Proof.
    induction rest as [|r0 t IH]; intros i below st st' Hlen Hb G H; [simpl in H; inversion H; subst; exact G|].
    simpl in H, Hlen. destruct (loop_j nested i r0 below st) as [e|st1] eqn:E; [discriminate|].
    apply (IH (S i) (below ++ [(i, r0)]) st1 st'); [lia| | |exact H].
    - intros j rj Hin. apply in_app_or in Hin. destruct Hin as [Hin|[Heq|[]]]; [eapply Hb; eauto | inversion Heq; subst; lia].
    - eapply loop_j_inv; [|exact Hb|exact G|exact E]. lia.
  Qed.
End Loops.

Lemma hole_in_shell_first_off shell vs :
  hole_in_shell shell vs = negb (side_eqb (first_off_boundary vs shell) SExterior).
Proof.
  induction vs as [|a r IH]; [reflexivity|]. simpl. destruct (relate_lines a shell false); auto.
Qed.

(* ------------------------------------------------------------------ soundness for the local rules *)
(* What a nil verdict of the (fixed) polygon validation guarantees about finite rings, rule by rule.
   FULL STATEMENT NOT PROVED: poly_geom_validate nested_v1 rings = None (with valid rings) <->
   poly_def rings = true (ValidateSpec), i.e. equivalence with the OGC definition including
   "holes lie inside the shell at EVERY point" and "the interior is connected".  Those two clauses
   need the Jordan curve theorem for polygons (a non-crossing ring lies on one side of another;
   acyclic touch graph <-> connected interior); here they are covered by the correspondence run
   (model verdict = ogc_valid on every generated case). *)
Theorem polygon_validate_sound_partial_lemma (rings : list (list pt)) :
  Forall (fun r => ring_geom_validate r = None) rings ->
  poly_geom_validate nested_v1 rings = None ->
  (* 1. every ring has two distinct points, is closed and is simple by the definition *)
  Forall (fun r => has_2_distinct r = true /\ is_closed r = true /\ Simple r) rings
  (* 2. two rings share at most one point *)
  /\ (forall i j ri rj, (j < i)%nat -> nth_error rings i = Some ri -> nth_error rings j = Some rj ->
        forall p q, on_curve ri p -> on_curve rj p -> on_curve ri q -> on_curve rj q -> pt_eq p q)
  (* 3. no hole is seen nested in another hole by the probe (first vertex off the other ring) *)
  /\ (forall i j ri rj, (0 < j < i)%nat -> nth_error rings i = Some ri -> nth_error rings j = Some rj ->
        first_off_boundary ri (as_lines rj) <> SInterior /\ first_off_boundary rj (as_lines ri) <> SInterior)
  (* 4. the first vertex of every hole that is off the shell is inside the shell *)
  /\ (forall shell holes, rings = shell :: holes ->
        Forall (fun h => first_off_boundary h (as_lines shell) <> SExterior) holes)
  (* 5. the touch graph (rings and touch points as vertices) has no simple cycle *)
  /\ (exists st, loop_i nested_v1 0 [] rings (MkPS (length rings) [] []) = inr st
                 /\ no_self_loops (ps_edges st) /\ ~ exists c, Cycle (ps_edges st) c).
Proof.
  intros Hr Hv.
  assert (R1 : Forall (fun r => has_2_distinct r = true /\ is_closed r = true /\ Simple r) rings).
  { eapply Forall_impl; [|exact Hr]. intros r H. unfold ring_geom_validate in H.
    destruct (has_2_distinct r); [|discriminate]. destruct (is_closed r); [|discriminate].
    destruct (is_simple r) eqn:E; [|discriminate]. split; [reflexivity|]. split; [reflexivity|].
    apply ring_simple_spec_lemma. exact E. }
  split; [exact R1|].
  (* the loop ran to completion *)
  assert (HL : exists st, loop_i nested_v1 0 [] rings (MkPS (length rings) [] []) = inr st
                /\ (forall shell holes, rings = shell :: holes -> forallb (hole_in_shell (as_lines shell)) holes = true)
                /\ has_cycle (ps_edges st) = false).
  { unfold poly_geom_validate in Hv. destruct rings as [|shell holes].
    - exists (MkPS 0 [] []). split; [reflexivity|]. split; [intros s h E; discriminate | reflexivity].
    - destruct (loop_i nested_v1 0 [] (shell :: holes) (MkPS (length (shell :: holes)) [] [])) as [e|st]; [discriminate|].
      exists st. split; [reflexivity|].
      destruct (forallb (hole_in_shell (as_lines shell)) holes) eqn:F; [|discriminate].
      destruct (has_cycle (ps_edges st)) eqn:C; [discriminate|].
      split; [|reflexivity]. intros s h E. inversion E; subst. exact F. }
  destruct HL as [st [HLoop [HHoles HCyc]]].
  assert (HPairs : forall i j ri rj, (j < i)%nat -> nth_error rings i = Some ri -> nth_error rings j = Some rj ->
                   PairOK nested_v1 i j ri rj).
  { intros i j ri rj Hji Hi Hj.
    apply (loop_i_ok nested_v1 rings 0 [] (MkPS (length rings) [] []) st HLoop i ri Hi j rj). simpl.
    apply indexed_in. split; [lia|]. rewrite Nat.sub_0_r.
    rewrite nth_error_firstn_lt by exact Hji. exact Hj. }
  split.
  { intros i j ri rj Hji Hi Hj. destruct (HPairs i j ri rj Hji Hi Hj) as [_ H]. apply inter_summary_at_most_one. exact H. }
  split.
  { intros i j ri rj [H0j Hji] Hi Hj. destruct (HPairs i j ri rj Hji Hi Hj) as [H _].
    assert (H0i : (0 < i)%nat) by lia. specialize (H H0i H0j). unfold nested_v1 in H.
    destruct ri as [|a ra]; [discriminate|]. destruct rj as [|b rb]; [discriminate|].
    assert (K : side_eqb (first_off_boundary (a :: ra) (as_lines (b :: rb))) SInterior
                || side_eqb (first_off_boundary (b :: rb) (as_lines (a :: ra))) SInterior = false) by congruence.
    apply orb_false_iff in K. destruct K as [K1 K2].
    split; intros E; [rewrite E in K1 | rewrite E in K2]; discriminate. }
  split.
  { intros shell holes E. specialize (HHoles shell holes E). rewrite forallb_forall in HHoles.
    apply Forall_forall. intros h Hh. specialize (HHoles h Hh). rewrite hole_in_shell_first_off in HHoles.
    intros K. rewrite K in HHoles. discriminate. }
  exists st. split; [exact HLoop|].
  assert (G : GInv (length rings) st).
  { apply (loop_i_inv nested_v1 (length rings) rings 0 [] (MkPS (length rings) [] []) st); [simpl; lia | intros j rj [] | | exact HLoop].
    split; [simpl; lia|]. split; [intros p k []|intros e []]. }
  assert (Hns : no_self_loops (ps_edges st)).
  { intros e He. destruct G as [_ [_ G3]]. specialize (G3 e He). lia. }
  split; [exact Hns|]. intros Hc. apply (has_cycle_spec_lemma _ Hns) in Hc. congruence.
Qed.


(* ------------------------------------------------------------------ MultiPolygon: boundaries *)
Definition no_overlap (la lb : seg) : Prop :=
  match intersect_line la lb with ILEmpty => True | ILSome pa pb => pt_eqb pa pb = true end.

Lemma boundary_inter_no_overlap b1 b2 : snd (boundary_inter b1 b2) = false ->
  forall la lb, In la b1 -> In lb b2 -> no_overlap la lb.
Proof.
  unfold boundary_inter.
  set (step := fun la (acc' : bool * bool) lb =>
         match intersect_line la lb with
         | ILEmpty => acc'
         | ILSome pa pb => if pt_eqb pa pb then (true, snd acc') else (fst acc', true)
         end).
  assert (Hin : forall la l acc, snd (fold_left (step la) l acc) = false ->
            snd acc = false /\ forall lb, In lb l -> no_overlap la lb).
  { intros la. induction l as [|x r IH]; intros acc H; [split; [exact H | intros lb []]|].
    simpl in H. destruct (IH _ H) as [H1 H2]. unfold step in H1 at 1. unfold no_overlap.
    destruct (intersect_line la x) as [|pa pb] eqn:E.
    - split; [exact H1|]. intros lb [<-|Hl]; [rewrite E; exact I | exact (H2 lb Hl)].
    - destruct (pt_eqb pa pb) eqn:E2; simpl in H1; [|discriminate].
      split; [exact H1|]. intros lb [<-|Hl]; [rewrite E; exact E2 | exact (H2 lb Hl)]. }
  assert (Hout : forall l acc, snd (fold_left (fun acc0 la => fold_left (step la) b2 acc0) l acc) = false ->
            snd acc = false /\ forall la lb, In la l -> In lb b2 -> no_overlap la lb).
  { induction l as [|x r IH]; intros acc H; [split; [exact H | intros la lb []]|].
    simpl in H. destruct (IH _ H) as [H1 H2]. destruct (Hin x b2 acc H1) as [H3 H4].
    split; [exact H3|]. intros la lb [<-|Hl] Hb; [exact (H4 lb Hb) | exact (H2 la lb Hl Hb)]. }
  intros H la lb Ha Hb. exact (proj2 (Hout b1 (false, false) H) la lb Ha Hb).
Qed.

Lemma no_overlap_at_most_one la lb : nondeg la -> nondeg lb -> no_overlap la lb ->
  forall p q, common la lb p -> common la lb q -> pt_eq p q.
Proof.
  intros Na Nb H p q Hp Hq. destruct la as [a b], lb as [c d]. unfold no_overlap in H.
  pose proof (intersect_line_spec a b c d Na Nb) as Sp.
  destruct (intersect_line (a, b) (c, d)) as [|pa pb]; simpl in Sp; [exfalso; exact (Sp p Hp)|].
  destruct Sp as [_ [_ U]]. apply pt_eqb_iff in H. rewrite (U H p Hp), (U H q Hq). reflexivity.
Qed.

Lemma poly_lines_nondeg rings : Forall nondeg (poly_lines rings).
Proof.
  unfold poly_lines. apply Forall_forall. intros s Hs. apply in_flat_map in Hs. destruct Hs as [r [_ Hr]].
  exact (as_lines_nondegenerate r s Hr).
Qed.

Lemma mpoly_pair_boundaries pi pj : mpoly_pair pi pj = None ->
  forall s t, In s (poly_lines pi) -> In t (poly_lines pj) ->
  forall p q, common s t p -> common s t q -> pt_eq p q.
Proof.
  unfold mpoly_pair. intros H s t Hs Ht.
  destruct (boundary_inter (poly_lines pi) (poly_lines pj)) as [hp hl] eqn:E.
  destruct hl; [discriminate|].
  assert (K : snd (boundary_inter (poly_lines pi) (poly_lines pj)) = false) by (rewrite E; reflexivity).
  pose proof (boundary_inter_no_overlap _ _ K s t Hs Ht) as No.
  apply no_overlap_at_most_one; [| |exact No].
  - exact (proj1 (Forall_forall _ _) (poly_lines_nondeg pi) s Hs).
  - exact (proj1 (Forall_forall _ _) (poly_lines_nondeg pj) t Ht).
Qed.

Lemma mpoly_against_ok pi below : mpoly_against pi below = None ->
  forall pj, In pj below -> pj <> [] -> mpoly_pair pi pj = None.
Proof.
  induction below as [|x r IH]; intros H pj Hin Hne; [destruct Hin|].
  simpl in H. destruct x as [|r0 rt].
  - destruct Hin as [<-|Hin]; [congruence | exact (IH H pj Hin Hne)].
  - destruct (mpoly_pair pi (r0 :: rt)) eqn:E; [discriminate|].
    destruct Hin as [<-|Hin]; [exact E | exact (IH H pj Hin Hne)].
Qed.

Lemma mpoly_constraints_ok rest : forall below, mpoly_constraints below rest = None ->
  forall k pi, nth_error rest k = Some pi -> pi <> [] ->
  forall pj, In pj (below ++ firstn k rest) -> pj <> [] -> mpoly_pair pi pj = None.
Proof.
  induction rest as [|x r IH]; intros below H k pi Hk Hne pj Hin Hnj; [destruct k; discriminate|].
  simpl in H.
  destruct (match x with [] => None | _ :: _ => mpoly_against x below end) eqn:E; [discriminate|].
  destruct k as [|k].
  - simpl in Hk. inversion Hk; subst x. simpl in Hin. rewrite app_nil_r in Hin.
    destruct pi as [|r0 rt]; [congruence|]. exact (mpoly_against_ok _ _ E pj Hin Hnj).
  - simpl in Hk. apply (IH (below ++ [x]) H k pi Hk Hne pj); [|exact Hnj].
    simpl in Hin. rewrite <- app_assoc. exact Hin.
Qed.

(* A nil verdict of the MultiPolygon constraints implies: the boundaries of two non-empty members
   never share a piece of positive length (every pair of boundary segments has at most one common
   point).  NOT PROVED: the interiors are disjoint (needs the Jordan curve theorem; covered by the
   correspondence with ogc_valid's arrangement test). *)
Theorem multipolygon_validate_sound_partial_lemma (polys : list (list (list pt))) :
  mpoly_constraints [] polys = None ->
  forall i j pi pj, (j < i)%nat -> nth_error polys i = Some pi -> nth_error polys j = Some pj ->
  forall s t, In s (poly_lines pi) -> In t (poly_lines pj) ->
  forall p q, common s t p -> common s t q -> pt_eq p q.
Proof.
  intros H i j pi pj Hji Hi Hj s t Hs Ht.
  assert (Ni : pi <> []) by (intros E; subst pi; destruct Hs).
  assert (Nj : pj <> []) by (intros E; subst pj; destruct Ht).
  apply (mpoly_pair_boundaries pi pj); [|exact Hs|exact Ht].
  apply (mpoly_constraints_ok polys [] H i pi Hi Ni pj); [|exact Nj].
  simpl. apply (nth_error_In _ j). rewrite nth_error_firstn_lt by exact Hji. exact Hj.
Qed.
