(* Property C03 - soundness of Polygon.Validate against the verified reference, for ALL points:
   a nil verdict implies every clause of ogc_valid's poly_def except the connectivity clause
   (polygon_validate_sound_ogc_lemma, validate_polygon_sound_lemma), for rings without repeated
   consecutive vertices.  Route: rings that meet in at most one point lie on one side of each
   other (Validate_jordan), extended from vertices to every point of every edge by the
   avoiding-segment lemma (curve_one_side); the model's side is the location w.r.t. the ring's
   polygon (rel_locate); Simple gives ring_def.  Also the easy half of completeness for the
   probes (ogc_accepts_probes_lemma). *)
From Coq Require Import QArith Qreduction List Bool ZArith Lia Lqa Arith Setoid Morphisms.
From SF Require Import Base.GeomAST Base.QKernel Base.Planar Base.Planar_C03 Model.Validate Model.ValidateSpec
  Proofs.Planar_proofs Proofs.Planar_slab_base Proofs.Validate_kernel Proofs.Validate_proofs Proofs.Validate_graph
  Proofs.Validate_sound Proofs.Validate_jordan Proofs.Validate_ogc Proofs.Validate_repr.
Import ListNotations.
Open Scope Q_scope.


Lemma vertex_on_ring_edges (A : list pt) v : (2 <= length A)%nat -> In v A -> on_edges (ring_edges A) v = true.
Proof.
  induction A as [|a r IH]; [intros _ []|]. destruct r as [|b r']; [simpl; lia|]. intros _ Hv.
  rewrite ring_edges_cons2. unfold on_edges. cbn [existsb]. destruct Hv as [<-|Hv].
  - rewrite on_seg_left. reflexivity.
  - destruct r' as [|c r''].
    + destruct Hv as [<-|[]]. rewrite on_seg_right. reflexivity.
    + apply orb_true_iff. right. apply IH; [simpl; lia | exact Hv].
Qed.

Lemma ring_edges_in_vertices (A : list pt) e : In e (ring_edges A) -> In (fst e) A /\ In (snd e) A.
Proof.
  induction A as [|a r IH]; [intros []|]. destruct r as [|b r']; [intros []|].
  rewrite ring_edges_cons2. intros [<-|H]; [simpl; auto|]. destruct (IH H). split; right; assumption.
Qed.

(* a point of a sub-segment is a point of the segment *)
Lemma subsegment (u v z w x : pt) : ~ pt_eq u v ->
  on_seg (u, v) z = true -> on_seg (u, v) w = true -> on_seg (z, w) x = true -> on_seg (u, v) x = true.
Proof.
  intros Huv Hz Hw Hx.
  assert (Lu : OnL u v u) by apply cross_self_l. assert (Lv : OnL u v v) by apply cross_self_r.
  assert (Lz : OnL u v z) by (apply on_seg_cross; exact Hz). assert (Lw : OnL u v w) by (apply on_seg_cross; exact Hw).
  assert (Lx : OnL u v x).
  { apply on_seg_iff in Hx. destruct Hx as [t [_ [X1 X2]]]. unfold OnL. rewrite (cross_along u v z w x t X1 X2).
    unfold OnL in Lz, Lw. rewrite Lz, Lw. ring. }
  apply (lkey_on_seg u v Huv u v z Lu Lv Lz) in Hz. apply (lkey_on_seg u v Huv u v w Lu Lv Lw) in Hw.
  apply (lkey_on_seg u v Huv z w x Lz Lw Lx) in Hx. apply (lkey_on_seg u v Huv u v x Lu Lv Lx). lra.
Qed.

Lemma has2_len (A : list pt) : has_2_distinct A = true -> (2 <= length A)%nat.
Proof. destruct A as [|a [|b r]]; simpl; intros K; try discriminate; lia. Qed.

Section OneSide.
  Variables A B : list pt.
  Hypothesis HndA : as_lines A = ring_edges A.
  Hypothesis HndB : as_lines B = segs_of_pts B.
  Hypothesis HcA : is_closed A = true.
  Hypothesis HsA : Simple A.
  Hypothesis HcB : pts_closed B = true.
  Hypothesis Hone : forall p q, on_edges (ring_edges A) p = true -> on_edges (segs_of_pts B) p = true ->
                                on_edges (ring_edges A) q = true -> on_edges (segs_of_pts B) q = true -> pt_eq p q.
  Hypothesis H2 : has_2_distinct A = true.

  Let esB := segs_of_pts B.

  Lemma lenA : (2 <= length A)%nat.
  Proof. apply has2_len. exact H2. Qed.

  (* some vertex of A is off B *)
  Lemma off_vertex_exists : exists v, In v A /\ on_edges esB v = false.
  Proof.
    pose proof H2 as K2. apply has_2_distinct_iff in K2. destruct K2 as [p [q [Hp [Hq N]]]].
    destruct (on_edges esB p) eqn:Ep; [|eauto]. destruct (on_edges esB q) eqn:Eq; [|eauto].
    exfalso. apply N. apply Hone; auto; apply vertex_on_ring_edges; auto; apply lenA.
  Qed.

  (* every point of the curve A that is off B is on the side of the off-B vertices *)
  Theorem curve_one_side : exists s, s <> SBoundary /\
    first_off_boundary A (as_lines B) = s /\
    forall z, on_edges (ring_edges A) z = true -> rel B z = SBoundary \/ rel B z = s.
  Proof.
    destruct off_vertex_exists as [v0 [Hv0 Ov0]].
    set (s := rel B v0).
    assert (Ns : s <> SBoundary).
    { intros K. apply (rel_boundary B HndB) in K. fold esB in K. congruence. }
    assert (Hv : forall v, In v A -> rel B v = SBoundary \/ rel B v = s).
    { intros v Hv. destruct (rel B v) eqn:R; auto; right; rewrite <- R;
        apply (vertices_same_side A B HndA HndB HcA HsA HcB Hone v v0 Hv Hv0); try congruence; exact Ns. }
    exists s. split; [exact Ns|]. split.
    { pose proof (first_off_boundary_spec A (as_lines B)) as S.
      destruct (first_off_boundary A (as_lines B)) eqn:F.
      - destruct S as [l1 [p [l2 [E1 [E2 _]]]]]. assert (Hp : In p A) by (rewrite E1; apply in_or_app; right; left; reflexivity).
        destruct (Hv p Hp) as [K|K]; unfold rel in K; congruence.
      - exfalso. specialize (S v0 Hv0). apply Ns. exact S.
      - destruct S as [l1 [p [l2 [E1 [E2 _]]]]]. assert (Hp : In p A) by (rewrite E1; apply in_or_app; right; left; reflexivity).
        destruct (Hv p Hp) as [K|K]; unfold rel in K; congruence. }
    intros z Hz. destruct (on_edges esB z) eqn:Oz; [left; apply (rel_boundary B HndB); exact Oz|]. right.
    apply existsb_exists in Hz. destruct Hz as [[u v] [He Hz]].
    assert (Nuv : ~ pt_eq u v).
    { rewrite <- HndA in He. exact (as_lines_nondegenerate A (u, v) He). }
    destruct (ring_edges_in_vertices A (u, v) He) as [Hu Hvv]. cbn [fst snd] in Hu, Hvv.
    assert (Hfin : exists w, In w A /\ on_edges esB w = false /\ good B (z, w)).
    { destruct (good_dec B (u, v)) as [G|[T [T1 T2]]].
      - exists u. split; [exact Hu|]. split; [apply G; apply on_seg_left|].
        intros x Hx. apply G. apply (subsegment u v z u x Nuv Hz (on_seg_left u v)). exact Hx.
      - (* the touch point T lies on this edge: leave z on the side away from T *)
        assert (Lu : OnL u v u) by apply cross_self_l. assert (Lv : OnL u v v) by apply cross_self_r.
        assert (Lz : OnL u v z) by (apply on_seg_cross; exact Hz). assert (LT : OnL u v T) by (apply on_seg_cross; exact T1).
        assert (NzT : ~ lkey u v z == lkey u v T).
        { intros K. apply (lkey_eq u v Nuv z T Lz LT) in K. rewrite (on_edges_eq esB z T K) in Oz. fold esB in T2. congruence. }
        pose proof (proj1 (lkey_on_seg u v Nuv u v z Lu Lv Lz) Hz) as Kz.
        pose proof (proj1 (lkey_on_seg u v Nuv u v T Lu Lv LT) T1) as KT.
        assert (Hbad : forall x, on_seg (u, v) x = true -> on_edges esB x = true -> pt_eq x T).
        { intros x X1 X2. apply Hone; try assumption; apply existsb_exists; exists (u, v); auto. }
        assert (Hside : forall w, (w = u \/ w = v) -> on_seg (z, w) T = false ->
                  on_edges esB w = false /\ good B (z, w)).
        { intros w Hw HT.
          assert (Hwuv : on_seg (u, v) w = true) by (destruct Hw as [->| ->]; [apply on_seg_left | apply on_seg_right]).
          assert (G : good B (z, w)).
          { intros x Hx. assert (Hxuv : on_seg (u, v) x = true) by (apply (subsegment u v z w x Nuv Hz Hwuv Hx)).
            destruct (on_edges (segs_of_pts B) x) eqn:Ox; [|reflexivity]. exfalso.
            pose proof (Hbad x Hxuv Ox) as E. rewrite (on_seg_eq (z, w) x T E) in Hx. congruence. }
          split; [apply G; apply on_seg_right | exact G]. }
        destruct (on_seg (z, u) T) eqn:E1.
        + (* T between z and u: go towards v *)
          exists v. split; [exact Hvv|]. apply Hside; [right; reflexivity|].
          apply not_true_iff_false. intros E2.
          apply (lkey_on_seg u v Nuv z u T Lz Lu LT) in E1. apply (lkey_on_seg u v Nuv z v T Lz Lv LT) in E2. lra.
        + exists u. split; [exact Hu|]. apply Hside; [left; reflexivity | exact E1]. }
    destruct Hfin as [w [Hw [Ow G]]].
    rewrite (good_rel B HcB z w G). destruct (Hv w Hw) as [K|K]; [|exact K].
    apply (rel_boundary B HndB) in K. fold esB in K. congruence.
  Qed.
End OneSide.


Lemma segs_segs_of_pts ps : segs ps = segs_of_pts ps.
Proof. unfold segs, line_segs. rewrite line_pts_ring_line. reflexivity. Qed.

Lemma is_closed_pts_closed ps : is_closed ps = true -> pts_closed ps = true.
Proof.
  destruct ps as [|a r]; [discriminate|]. unfold is_closed, pts_closed.
  destruct r as [|b r']; [auto|]. rewrite last_cons2. auto.
Qed.

Lemma nodup_segs ps : (2 <= length ps)%nat -> as_lines ps = ring_edges ps -> as_lines ps = segs_of_pts ps.
Proof. intros H E. rewrite E. destruct ps as [|a [|b r]]; simpl in H; try lia; reflexivity. Qed.

(* the model's side of a point w.r.t. a closed ring is its location w.r.t. the polygon of that ring *)
Lemma rel_locate B z : pts_closed B = true -> as_lines B = segs_of_pts B ->
  locate (g_poly [B]) z = match rel B z with SInterior => Interior | SBoundary => Boundary | SExterior => Exterior end.
Proof.
  intros Hc Hnd. rewrite locate_poly. cbn [map]. unfold rings_interior, rings_boundary. cbn [forallb existsb].
  rewrite andb_true_r, orb_false_r, segs_segs_of_pts. unfold ring_strict_in.
  destruct (on_edges (segs_of_pts B) z) eqn:O.
  - cbn [negb andb]. assert (K : rel B z = SBoundary) by (apply (rel_boundary B Hnd); exact O). rewrite K. reflexivity.
  - cbn [negb andb]. unfold rel. rewrite (relate_lines_closed_off B z Hc O).
    destruct (edges_parity (segs_of_pts B) z); reflexivity.
Qed.

Lemma on_curve_on_edges ps p : on_curve ps p <-> on_edges (as_lines ps) p = true.
Proof. unfold on_curve, on_edges. rewrite existsb_exists. tauto. Qed.

Lemma ordpairs_of_index {T} (P : T -> T -> Prop) (l : list T) :
  (forall i j a b, (j < i)%nat -> nth_error l i = Some a -> nth_error l j = Some b -> P b a) -> ForallOrdPairs P l.
Proof.
  induction l as [|x r IH]; intros H; [constructor|]. constructor.
  - apply Forall_forall. intros y Hy. destruct (In_nth_error r y Hy) as [k Hk]. apply (H (S k) 0%nat y x); [lia | exact Hk | reflexivity].
  - apply IH. intros i j a b Hij Ha Hb. apply (H (S i) (S j) a b); [lia | exact Ha | exact Hb].
Qed.

(* ------------------------------------------------------------------ soundness of Polygon.Validate, all points *)
(* What a nil verdict of the (fixed) polygon validation guarantees, now for ALL points of Q^2:
   the first four clauses of poly_def (ogc_polygon_clauses_verified), for rings without repeated
   consecutive vertices.  NOT PROVED: the connectivity clause (acyclic touch graph -> the face
   graph of the interior is connected), and rings with repeated consecutive vertices. *)
Theorem polygon_validate_sound_everywhere_lemma (shell : list pt) (holes : list (list pt)) :
  Forall (fun r => as_lines r = ring_edges r) (shell :: holes) ->
  Forall (fun r => ring_geom_validate r = None) (shell :: holes) ->
  poly_geom_validate nested_v1 (shell :: holes) = None ->
  Forall (fun r => has_2_distinct r = true /\ is_closed r = true /\ Simple r) (shell :: holes)
  /\ ForallOrdPairs (fun a b => forall p q, on_edges (segs a) p = true -> on_edges (segs b) p = true ->
                                 on_edges (segs a) q = true -> on_edges (segs b) q = true -> pt_eq p q) (shell :: holes)
  /\ Forall (fun h => forall p, on_edges (segs h) p = true -> locate (g_poly [shell]) p <> Exterior) holes
  /\ ForallOrdPairs (fun h k => forall p, (on_edges (segs h) p = true -> locate (g_poly [k]) p <> Interior)
                                       /\ (on_edges (segs k) p = true -> locate (g_poly [h]) p <> Interior)) holes.
Proof.
  intros Hnd Hr Hv.
  destruct (polygon_validate_sound_partial_lemma (shell :: holes) Hr Hv) as [R1 [R2 [R3 [R4 _]]]].
  set (rings := shell :: holes) in *.
  (* facts about every ring *)
  assert (Hring : forall r, In r rings -> has_2_distinct r = true /\ is_closed r = true /\ Simple r
                    /\ as_lines r = ring_edges r /\ as_lines r = segs_of_pts r /\ pts_closed r = true).
  { intros r Hr'. destruct (proj1 (Forall_forall _ _) R1 r Hr') as [A1 [A2 A3]].
    pose proof (proj1 (Forall_forall _ _) Hnd r Hr') as A4.
    repeat split; auto; [apply nodup_segs; [apply has2_len; exact A1 | exact A4] | apply is_closed_pts_closed; exact A2]. }
  (* at most one common point, in the form used by the one-side theorem *)
  assert (Hone : forall i j ri rj, (j < i)%nat -> nth_error rings i = Some ri -> nth_error rings j = Some rj ->
            forall p q, on_edges (segs_of_pts ri) p = true -> on_edges (segs_of_pts rj) p = true ->
                        on_edges (segs_of_pts ri) q = true -> on_edges (segs_of_pts rj) q = true -> pt_eq p q).
  { intros i j ri rj Hji Hi Hj p q P1 P2 Q1 Q2.
    destruct (Hring ri (nth_error_In _ _ Hi)) as [_ [_ [_ [_ [Ei _]]]]]. destruct (Hring rj (nth_error_In _ _ Hj)) as [_ [_ [_ [_ [Ej _]]]]].
    apply (R2 i j ri rj Hji Hi Hj p q); apply on_curve_on_edges; rewrite ?Ei, ?Ej; assumption. }
  (* one ring against another: all of A on one side of B *)
  assert (Hside : forall A B, In A rings -> In B rings ->
            (forall p q, on_edges (segs_of_pts A) p = true -> on_edges (segs_of_pts B) p = true ->
                         on_edges (segs_of_pts A) q = true -> on_edges (segs_of_pts B) q = true -> pt_eq p q) ->
            forall z, on_edges (segs A) z = true ->
              rel B z = SBoundary \/ rel B z = first_off_boundary A (as_lines B)).
  { intros A B HA HB H1 z Hz.
    destruct (Hring A HA) as [A1 [A2 [A3 [A4 [A5 A6]]]]]. destruct (Hring B HB) as [B1 [B2 [B3 [B4 [B5 B6]]]]].
    assert (H1' : forall p q, on_edges (ring_edges A) p = true -> on_edges (segs_of_pts B) p = true ->
                              on_edges (ring_edges A) q = true -> on_edges (segs_of_pts B) q = true -> pt_eq p q).
    { rewrite <- A4, A5. exact H1. }
    destruct (curve_one_side A B A4 B5 A2 A3 B6 H1' A1) as [s [Ns [Fs Hs]]].
    rewrite Fs. apply Hs. rewrite <- A4, A5, <- segs_segs_of_pts. exact Hz. }
  split; [exact R1|]. split.
  { apply ordpairs_of_index. intros i j a b Hji Ha Hb p q P1 P2 Q1 Q2. rewrite !segs_segs_of_pts in *.
    symmetry. apply (Hone i j a b Hji Ha Hb q p); assumption. }
  split.
  { apply Forall_forall. intros h Hh p Hp.
    destruct (In_nth_error holes h Hh) as [k Hk].
    assert (Hin : In h rings) by (right; exact Hh).
    destruct (Hring shell (or_introl eq_refl)) as [_ [_ [_ [_ [S5 S6]]]]].
    pose proof (proj1 (Forall_forall _ _) (R4 shell holes eq_refl) h Hh) as Np.
    destruct (Hside h shell Hin (or_introl eq_refl) (Hone (S k) 0%nat h shell ltac:(lia) Hk eq_refl) p Hp) as [K|K];
      rewrite (rel_locate shell p S6 S5), K; [discriminate|].
    destruct (first_off_boundary h (as_lines shell)) eqn:F; [discriminate | discriminate | exfalso; apply Np; first [reflexivity | exact F]]. }
  apply ordpairs_of_index. intros i j k h Hji Hk Hh p.
  (* h = holes[j] comes before k = holes[i] *)
  assert (Ik : In k rings) by (right; eapply nth_error_In; exact Hk).
  assert (Ih : In h rings) by (right; eapply nth_error_In; exact Hh).
  destruct (Hring k Ik) as [_ [_ [_ [_ [K5 K6]]]]]. destruct (Hring h Ih) as [_ [_ [_ [_ [H5 H6]]]]].
  destruct (R3 (S i) (S j) k h ltac:(lia) Hk Hh) as [N1 N2].
  pose proof (Hone (S i) (S j) k h ltac:(lia) Hk Hh) as O1.
  assert (O2 : forall p q, on_edges (segs_of_pts h) p = true -> on_edges (segs_of_pts k) p = true ->
                           on_edges (segs_of_pts h) q = true -> on_edges (segs_of_pts k) q = true -> pt_eq p q).
  { intros x y X1 X2 Y1 Y2. apply (O1 x y); assumption. }
  split; intros Hp.
  - destruct (Hside h k Ih Ik O2 p Hp) as [K|K]; rewrite (rel_locate k p K6 K5), K; [discriminate|].
    destruct (first_off_boundary h (as_lines k)) eqn:F; [exfalso; apply N2; first [reflexivity | exact F] | discriminate | discriminate].
  - destruct (Hside k h Ik Ih O1 p Hp) as [K|K]; rewrite (rel_locate h p H6 H5), K; [discriminate|].
    destruct (first_off_boundary k (as_lines h)) eqn:F; [exfalso; apply N1; first [reflexivity | exact F] | discriminate | discriminate].
Qed.


(* ------------------------------------------------------------------ Simple (the model's notion) gives ring_def *)
Lemma as_lines_length_le ps : (length (as_lines ps) <= length (ring_edges ps))%nat.
Proof.
  induction ps as [|a r IH]; [simpl; lia|]. destruct r as [|b r']; [simpl; lia|].
  rewrite as_lines_cons2, ring_edges_cons2. destruct (pt_eqb a b); simpl length in *; lia.
Qed.
Lemma nodup_dedup ps : as_lines ps = ring_edges ps -> dedup_consec ps = ps.
Proof.
  induction ps as [|a r IH]; [reflexivity|]. destruct r as [|b r']; [reflexivity|].
  rewrite as_lines_cons2, ring_edges_cons2. intros H.
  change (dedup_consec (a :: b :: r')) with (if pt_eqb a b then dedup_consec (b :: r') else a :: dedup_consec (b :: r')).
  destruct (pt_eqb a b).
  - exfalso. pose proof (as_lines_length_le (b :: r')) as L. rewrite H in L. simpl length in L. lia.
  - inversion H as [H']. rewrite (IH H'). reflexivity.
Qed.

Lemma Simple_at_most_one ps k l sk sl : Simple ps -> (k < l)%nat ->
  nth_error (as_lines ps) k = Some sk -> nth_error (as_lines ps) l = Some sl ->
  forall p q, common sk sl p -> common sk sl q -> pt_eq p q.
Proof.
  intros HS Hkl Hk Hl p q Hp Hq.
  destruct (pt_eqb p q) eqn:E; [apply pt_eqb_iff; exact E|]. apply pt_eqb_false_iff in E. exfalso.
  assert (Cm : common sk sl (midpoint p q)) by (destruct Hp, Hq; split; apply on_seg_mid; assumption).
  destruct (midpoint_ne p q E) as [M1 M2].
  assert (Hall : forall x, common sk sl x -> pt_eq x (snd sk) \/ pt_eq x (fst sk)).
  { intros x Hx. destruct (HS k l sk sl Hkl Hk Hl x Hx) as [[_ K]|[_ [_ [_ K]]]]; auto. }
  destruct (Hall p Hp) as [A|A]; destruct (Hall q Hq) as [B|B]; destruct (Hall _ Cm) as [C|C];
    first [ apply E; etransitivity; [exact A | symmetry; exact B]
          | apply M1; etransitivity; [exact C | symmetry; exact A]
          | apply M2; etransitivity; [exact C | symmetry; exact B] ].
Qed.

Lemma pairs_ok_from_iff closed m k L :
  pairs_ok_from closed m k L = true <->
  forall i j si sj, (i < j)%nat -> nth_error L i = Some si -> nth_error L j = Some sj ->
                    seg_pair_ok closed m (k + i) (k + j) si sj = true.
Proof.
  revert k. induction L as [|s r IH]; intros k; simpl.
  - split; auto. intros _ i j si sj _ H. destruct i; discriminate.
  - rewrite andb_true_iff, forallb_forall, IH. split.
    + intros [H1 H2] i j si sj Hij Hi Hj. destruct i as [|i].
      * simpl in Hi. inversion Hi; subst. destruct j as [|j]; [lia|]. simpl in Hj. rewrite Nat.add_0_r.
        specialize (H1 (S k + j, sj)%nat). cbn [fst snd] in H1. replace (k + S j)%nat with (S k + j)%nat by lia. apply H1.
        clear - Hj. revert j Hj. generalize (S k). induction r as [|x r IH]; intros n j Hj; [destruct j; discriminate|].
        destruct j as [|j]; simpl in *; [inversion Hj; subst; left; f_equal; lia|].
        right. replace (n + S j)%nat with (S n + j)%nat by lia. apply IH. exact Hj.
      * destruct j as [|j]; [lia|]. simpl in Hi, Hj.
        replace (k + S i)%nat with (S k + i)%nat by lia. replace (k + S j)%nat with (S k + j)%nat by lia.
        apply (H2 i j); auto. lia.
    + intros H. split.
      * intros [j' sj] Hin. cbn [fst snd].
        assert (K : exists j, j' = (S k + j)%nat /\ nth_error r j = Some sj).
        { clear - Hin. revert Hin. generalize (S k). induction r as [|x r IH]; intros n Hin; [destruct Hin|].
          simpl in Hin. destruct Hin as [E|Hin]; [inversion E; subst; exists 0%nat; split; [lia | reflexivity]|].
          destruct (IH (S n) Hin) as [j [E1 E2]]. exists (S j). split; [lia | exact E2]. }
        destruct K as [j [-> Hj]]. specialize (H 0%nat (S j) s sj). rewrite Nat.add_0_r in H.
        replace (S k + j)%nat with (k + S j)%nat by lia. apply H; auto. lia.
      * intros i j si sj Hij Hi Hj. specialize (H (S i) (S j) si sj).
        replace (S k + i)%nat with (k + S i)%nat by lia. replace (S k + j)%nat with (k + S j)%nat by lia. apply H; auto. lia.
Qed.

Lemma ring_def_of_model ps :
  as_lines ps = ring_edges ps -> has_2_distinct ps = true -> is_closed ps = true -> Simple ps -> ring_def ps = true.
Proof.
  intros Hnd H2 Hc HS. unfold ring_def. rewrite !andb_true_iff. split; [split|].
  - apply has_2_distinct_iff in H2. destruct H2 as [p [q [Hp [Hq N]]]]. unfold distinct_2.
    apply existsb_exists. exists p. split; [exact Hp|]. apply existsb_exists. exists q. split; [exact Hq|].
    apply negb_true_iff. apply pt_eqb_false_iff. exact N.
  - exact Hc.
  - unfold simple_def. rewrite (nodup_dedup ps Hnd), <- Hnd. apply pairs_ok_from_iff.
    intros i j si sj Hij Hi Hj. cbn [Nat.add]. unfold seg_pair_ok.
    destruct (seg_seg si sj) as [|x|x y] eqn:E; [reflexivity| |].
    + assert (Cx : common si sj x) by (apply seg_seg_sound; rewrite E; left; reflexivity).
      unfold Simple in HS. cbv zeta in HS.
      destruct (HS i j si sj Hij Hi Hj x Cx) as [[E1 E2]|[E1 [E2 [E3 E4]]]].
      * subst j. rewrite Nat.eqb_refl. apply pt_eqb_iff in E2. rewrite E2. reflexivity.
      * subst i. apply orb_true_iff. right. change (closed_def ps) with (is_closed ps). rewrite E1, E3, !Nat.eqb_refl.
        apply pt_eqb_iff in E4. rewrite E4. reflexivity.
    + exfalso. apply (seg_seg_overlap_distinct si sj x y E).
      assert (S2 : forall z, In z [x; y] -> common si sj z) by (intros z Hz; apply seg_seg_sound; rewrite E; exact Hz).
      apply (Simple_at_most_one ps i j si sj HS Hij Hi Hj); apply S2; simpl; auto.
Qed.

(* ------------------------------------------------------------------ validate = nil -> poly_def, but for connectivity *)
Definition poly_def_but_connectivity (rings : list (list pt)) : bool :=
  match rings with
  | [] => true
  | shell :: holes =>
      forallb ring_def rings
      && all_pairs (fun a b => rings_touch_ok (segs a) (segs b)) rings
      && forallb (hole_inside shell) holes
      && all_pairs not_nested holes
  end.
Lemma poly_def_split rings : poly_def rings = poly_def_but_connectivity rings && interior_connected (map segs rings).
Proof. destruct rings; reflexivity. Qed.

Theorem polygon_validate_sound_ogc_lemma (rings : list (list pt)) :
  Forall (fun r => as_lines r = ring_edges r) rings ->
  Forall (fun r => ring_geom_validate r = None) rings ->
  poly_geom_validate nested_v1 rings = None ->
  poly_def_but_connectivity rings = true.
Proof.
  destruct rings as [|shell holes]; [reflexivity|]. intros Hnd Hr Hv.
  destruct (polygon_validate_sound_everywhere_lemma shell holes Hnd Hr Hv) as [C1 [C2 [C3 C4]]].
  assert (Hrd : Forall (fun r => ring_def r = true) (shell :: holes)).
  { apply Forall_forall. intros r Hin. destruct (proj1 (Forall_forall _ _) C1 r Hin) as [A1 [A2 A3]].
    apply ring_def_of_model; auto. exact (proj1 (Forall_forall _ _) Hnd r Hin). }
  assert (Hc : forall r, In r (shell :: holes) -> pts_closed r = true).
  { intros r Hin. apply ring_def_closed. exact (proj1 (Forall_forall _ _) Hrd r Hin). }
  unfold poly_def_but_connectivity. rewrite !andb_true_iff, forallb_forall, <- Forall_forall, !all_pairs_iff.
  split; [split; [split; [exact Hrd|]|]|].
  - eapply ForallOrdPairs_iff; [|exact C2]. intros a b _ _. apply rings_touch_ok_spec.
  - apply forallb_forall. intros h Hh. apply hole_inside_spec; [apply Hc; left; reflexivity|].
    exact (proj1 (Forall_forall _ _) C3 h Hh).
  - eapply ForallOrdPairs_iff; [|exact C4]. intros h k Hh Hk. apply not_nested_spec; apply Hc; right; assumption.
Qed.


(* ------------------------------------------------------------------ from raw ordinates *)
Lemma ring_check_inr r ps : ring_check r = inr ps -> fin_pts r = Some ps /\ ring_geom_validate ps = None.
Proof.
  unfold ring_check. destruct r as [|a t]; [discriminate|].
  destruct (fin_pts (a :: t)) as [qs|]; [|discriminate].
  destruct (ring_geom_validate qs) eqn:E; [discriminate|]. intros H. inversion H; subst. auto.
Qed.
Lemma rings_check_inr rs rings : rings_check rs = inr rings ->
  all_fin fin_pts rs = Some rings /\ Forall (fun r => ring_geom_validate r = None) rings.
Proof.
  revert rings. induction rs as [|r t IH]; intros rings H.
  - simpl in H. inversion H. split; [reflexivity | constructor].
  - simpl in H. destruct (ring_check r) as [e|ps] eqn:E; [discriminate|].
    destruct (rings_check t) as [e|pss] eqn:E2; [discriminate|]. inversion H; subst.
    destruct (ring_check_inr r ps E) as [F1 F2]. destruct (IH pss eq_refl) as [G1 G2].
    split; [simpl; rewrite F1, G1; reflexivity | constructor; assumption].
Qed.

(* Validate = nil on a polygon with finite ordinates -> every clause of ogc_valid's poly_def except
   connectivity, for rings without repeated consecutive vertices *)
Theorem validate_polygon_sound_lemma (rs : list (list oxy)) :
  validate (VPoly rs) = None ->
  exists rings, all_fin fin_pts rs = Some rings /\
    (Forall (fun r => as_lines r = ring_edges r) rings -> poly_def_but_connectivity rings = true).
Proof.
  simpl. unfold poly_validate_with. destruct rs as [|r t]; [intros _; exists []; split; [reflexivity | reflexivity]|].
  destruct (rings_check (r :: t)) as [e|rings] eqn:E; [discriminate|]. intros Hv.
  destruct (rings_check_inr _ _ E) as [F1 F2]. exists rings. split; [exact F1|].
  intros Hnd. apply polygon_validate_sound_ogc_lemma; assumption.
Qed.

(* ------------------------------------------------------------------ the easy half of completeness *)
(* the probes of the model cannot reject what ogc_valid's everywhere-clauses accept *)
Lemma first_off_in vs other s : first_off_boundary vs other = s -> s <> SBoundary ->
  exists p, In p vs /\ relate_lines p other false = s.
Proof.
  intros F N. pose proof (first_off_boundary_spec vs other) as S. rewrite F in S.
  destruct s; [|congruence|]; destruct S as [l1 [p [l2 [E1 [E2 _]]]]]; exists p; (split; [rewrite E1; apply in_or_app; right; left; reflexivity | exact E2]).
Qed.

Theorem ogc_accepts_probes_lemma (A B : list pt) :
  (2 <= length A)%nat -> as_lines B = segs_of_pts B -> pts_closed B = true ->
  (hole_inside B A = true -> first_off_boundary A (as_lines B) <> SExterior)
  /\ (not_nested A B = true -> pts_closed A = true -> first_off_boundary A (as_lines B) <> SInterior).
Proof.
  intros HlA HndB HcB. split.
  - intros H K. destruct (first_off_in A (as_lines B) SExterior K ltac:(discriminate)) as [p [Hp Rp]].
    apply (proj1 (hole_inside_spec B A HcB) H p).
    + rewrite segs_segs_of_pts. apply segs_ring_edges_on. apply vertex_on_ring_edges; assumption.
    + rewrite (rel_locate B p HcB HndB). unfold rel. rewrite Rp. reflexivity.
  - intros H HcA K. destruct (first_off_in A (as_lines B) SInterior K ltac:(discriminate)) as [p [Hp Rp]].
    destruct (proj1 (not_nested_spec A B HcA HcB) H p) as [N _]. apply N.
    + rewrite segs_segs_of_pts. apply segs_ring_edges_on. apply vertex_on_ring_edges; assumption.
    + rewrite (rel_locate B p HcB HndB). unfold rel. rewrite Rp. reflexivity.
Qed.


(* ------------------------------------------------------------------ a "multiple" summary has two witnesses *)
Definition Wit (r : isum) (S : seg -> seg -> Prop) : Prop :=
  match r with
  | INone => True
  | ISingle x => exists la lb, S la lb /\ common la lb x
  | IMulti => exists la lb p la' lb' q, S la lb /\ common la lb p /\ S la' lb' /\ common la' lb' q /\ ~ pt_eq p q
  end.
Lemma Wit_ext r (S S' : seg -> seg -> Prop) : (forall a b, S a b -> S' a b) -> Wit r S -> Wit r S'.
Proof.
  intros H. destruct r; simpl; auto.
  - intros [la [lb [K1 K2]]]. exists la, lb. auto.
  - intros [la [lb [p [la' [lb' [q [K1 [K2 [K3 [K4 K5]]]]]]]]]]. exists la, lb, p, la', lb', q. auto 10.
Qed.
Lemma isum_step_wit acc la lb S : nondeg la -> nondeg lb -> Wit acc S ->
  Wit (isum_step acc la lb) (fun a b => S a b \/ (a = la /\ b = lb)).
Proof.
  intros Na Nb Hw. unfold isum_step. destruct la as [a b], lb as [c d].
  pose proof (intersect_line_spec a b c d Na Nb) as Sp.
  destruct acc as [|x|].
  - destruct (intersect_line (a, b) (c, d)) as [|pa pb]; simpl in Sp; [exact I|]. destruct Sp as [Ca [Cb _]].
    destruct (pt_eqb pa pb) eqn:E; simpl.
    + exists (a, b), (c, d). auto.
    + apply pt_eqb_false_iff in E. exists (a, b), (c, d), pa, (a, b), (c, d), pb. auto 10.
  - destruct Hw as [l1 [l2 [W1 W2]]].
    destruct (intersect_line (a, b) (c, d)) as [|pa pb]; simpl in Sp.
    + simpl. exists l1, l2. auto.
    + destruct Sp as [Ca [Cb _]]. destruct (pt_eqb pa pb) eqn:E; simpl.
      * destruct (pt_eqb x pa) eqn:E2; simpl; [exists l1, l2; auto|].
        apply pt_eqb_false_iff in E2. exists l1, l2, x, (a, b), (c, d), pa. auto 10.
      * apply pt_eqb_false_iff in E. exists (a, b), (c, d), pa, (a, b), (c, d), pb. auto 10.
  - eapply Wit_ext; [|exact Hw]. auto.
Qed.
Lemma inter_summary_wit l1 l2 : Forall nondeg l1 -> Forall nondeg l2 ->
  Wit (inter_summary l1 l2) (fun la lb => In la l2 /\ In lb l1).
Proof.
  intros N1 N2. unfold inter_summary.
  assert (Hin : forall la, nondeg la -> forall l1' acc (S : seg -> seg -> Prop), Forall nondeg l1' -> Wit acc S ->
            Wit (fold_left (fun acc' lb => isum_step acc' la lb) l1' acc) (fun a b => S a b \/ (a = la /\ In b l1'))).
  { intros la Na. induction l1' as [|s r IH]; intros acc S Hn Hc; simpl.
    - eapply Wit_ext; [|exact Hc]. auto.
    - inversion Hn; subst. eapply Wit_ext; [|apply IH; [assumption | apply isum_step_wit; eassumption]].
      simpl. intros a b [[H|[-> ->]]|[-> H]]; auto. }
  assert (Hout : forall l2' acc (S : seg -> seg -> Prop), Forall nondeg l2' -> Wit acc S ->
            Wit (fold_left (fun acc0 la => fold_left (fun acc' lb => isum_step acc' la lb) l1 acc0) l2' acc)
                (fun a b => S a b \/ (In a l2' /\ In b l1))).
  { induction l2' as [|s r IH]; intros acc S Hn Hc; simpl.
    - eapply Wit_ext; [|exact Hc]. auto.
    - inversion Hn; subst. eapply Wit_ext; [|apply IH; [assumption | apply Hin; eassumption]].
      simpl. intros a b [[H|[-> H]]|[H H']]; auto. }
  eapply Wit_ext; [|apply (Hout l2 INone (fun _ _ => False) N2 I)]. simpl. intros a b [[]|H]. exact H.
Qed.

(* two rings that share at most one point are not summarised as "multiple" *)
Lemma at_most_one_not_multi ri rj :
  (forall p q, on_curve ri p -> on_curve rj p -> on_curve ri q -> on_curve rj q -> pt_eq p q) ->
  inter_summary (as_lines ri) (as_lines rj) <> IMulti.
Proof.
  intros H E. pose proof (inter_summary_wit _ _ (as_lines_all_nondeg ri) (as_lines_all_nondeg rj)) as W.
  rewrite E in W. simpl in W. destruct W as [la [lb [p [la' [lb' [q [[I1 I2] [[C1 C2] [[I3 I4] [[C3 C4] N]]]]]]]]]].
  apply N. apply H; [exists lb | exists la | exists lb' | exists la']; auto.
Qed.

(* ------------------------------------------------------------------ ring_def gives the model's ring checks *)
Lemma ring_def_to_model ps : as_lines ps = ring_edges ps -> ring_def ps = true -> ring_geom_validate ps = None.
Proof.
  intros Hnd H. unfold ring_def in H. rewrite !andb_true_iff in H. destruct H as [[H1 H2] H3].
  unfold ring_geom_validate.
  assert (E1 : has_2_distinct ps = true).
  { apply has_2_distinct_iff. unfold distinct_2 in H1. apply existsb_exists in H1. destruct H1 as [p [Hp K]].
    apply existsb_exists in K. destruct K as [q [Hq K]]. exists p, q. repeat split; auto.
    apply negb_true_iff in K. apply pt_eqb_false_iff. exact K. }
  rewrite E1. change (closed_def ps) with (is_closed ps) in H2. rewrite H2. cbn [negb].
  assert (E3 : is_simple ps = true).
  { apply ring_simple_spec_lemma. unfold Simple. cbv zeta.
    unfold simple_def in H3. rewrite (nodup_dedup ps Hnd), <- Hnd in H3. rewrite pairs_ok_from_iff in H3.
    intros k l sk sl Hkl Hk Hl p Hp. specialize (H3 k l sk sl Hkl Hk Hl). cbn [Nat.add] in H3.
    unfold seg_pair_ok in H3. destruct (seg_seg sk sl) as [|x|x y] eqn:E; [|  |discriminate].
    - exfalso. destruct Hp. exact (seg_seg_complete sk sl p H H0 E).
    - pose proof (seg_seg_point_unique sk sl x E p Hp) as Ex.
      apply orb_true_iff in H3. destruct H3 as [K|K].
      + apply andb_true_iff in K. destruct K as [K1 K2]. apply Nat.eqb_eq in K1. apply pt_eqb_iff in K2.
        left. split; [exact K1 | rewrite Ex; exact K2].
      + rewrite !andb_true_iff in K. destruct K as [[[K1 K2] K3] K4].
        apply Nat.eqb_eq in K2, K3. apply pt_eqb_iff in K4. right.
        split; [exact K1|]. split; [exact K2|]. split; [exact K3 | rewrite Ex; exact K4]. }
  rewrite E3. reflexivity.
Qed.


Lemma ordpairs_index {T} (P : T -> T -> Prop) (l : list T) : ForallOrdPairs P l ->
  forall i j a b, (j < i)%nat -> nth_error l i = Some a -> nth_error l j = Some b -> P b a.
Proof.
  induction 1 as [|x r Hx Hr IH]; intros i j a b Hji Ha Hb; [destruct i; discriminate|].
  destruct i as [|i]; [lia|]. simpl in Ha. destruct j as [|j].
  - simpl in Hb. inversion Hb; subst. exact (proj1 (Forall_forall _ _) Hx a (nth_error_In _ _ Ha)).
  - simpl in Hb. apply (IH i j a b); [lia | exact Ha | exact Hb].
Qed.

Section LoopsComplete.
  Variable nested : list pt -> list pt -> option bool.

  Lemma pair_step_complete i j ri rj st : PairOK nested i j ri rj -> exists st', pair_step nested i j ri rj st = inr st'.
  Proof.
    intros [H1 H2]. unfold pair_step.
    assert (E : (if (0 <? i)%nat && (0 <? j)%nat then nested ri rj else Some false) = Some false).
    { destruct (0 <? i)%nat eqn:Ei; [|reflexivity]. destruct (0 <? j)%nat eqn:Ej; [|reflexivity].
      apply Nat.ltb_lt in Ei, Ej. simpl. exact (H1 Ei Ej). }
    rewrite E. destruct (inter_summary (as_lines ri) (as_lines rj)) as [|p|]; [eauto| |congruence].
    destruct (lookup_pt p (ps_ivs st)); eauto.
  Qed.
  Lemma loop_j_complete i ri below : (forall j rj, In (j, rj) below -> PairOK nested i j ri rj) ->
    forall st, exists st', loop_j nested i ri below st = inr st'.
  Proof.
    induction below as [|[j rj] t IH]; intros H st; [simpl; eauto|]. simpl.
    destruct (pair_step_complete i j ri rj st (H j rj (or_introl eq_refl))) as [st1 E]. rewrite E.
    apply IH. intros j' rj' Hin. apply H. right. exact Hin.
  Qed.
  Lemma loop_i_complete rest : forall i below,
    (forall k ri, nth_error rest k = Some ri -> forall j rj, In (j, rj) (below ++ indexed i (firstn k rest)) -> PairOK nested (i + k) j ri rj) ->
    forall st, exists st', loop_i nested i below rest st = inr st'.
  Proof.
    induction rest as [|r0 t IH]; intros i below H st; [simpl; eauto|]. simpl.
    destruct (loop_j_complete i r0 below) with (st := st) as [st1 E].
    { intros j rj Hin. specialize (H 0%nat r0 eq_refl j rj). rewrite Nat.add_0_r in H. apply H. simpl. rewrite app_nil_r. exact Hin. }
    rewrite E. apply IH. intros k ri Hk j rj Hin.
    replace (S i + k)%nat with (i + S k)%nat by lia. apply (H (S k) ri Hk j rj). simpl. rewrite <- app_assoc in Hin. exact Hin.
  Qed.
End LoopsComplete.

Lemma on_curve_segs r : (2 <= length r)%nat -> as_lines r = ring_edges r ->
  forall p, on_curve r p <-> on_edges (segs r) p = true.
Proof. intros H E p. rewrite on_curve_on_edges, segs_segs_of_pts, (nodup_segs r H E). tauto. Qed.

(* COMPLETENESS of the local checks: what ogc_valid accepts but for connectivity, the model can only
   reject for connectivity *)
Theorem ogc_local_complete_lemma (rings : list (list pt)) :
  Forall (fun r => as_lines r = ring_edges r) rings ->
  poly_def_but_connectivity rings = true ->
  Forall (fun r => ring_geom_validate r = None) rings
  /\ (poly_geom_validate nested_v1 rings = None \/ poly_geom_validate nested_v1 rings = Some RInteriorConnected).
Proof.
  intros Hnd H. destruct rings as [|shell holes]; [split; [constructor | left; reflexivity]|].
  unfold poly_def_but_connectivity in H. rewrite !andb_true_iff, forallb_forall, !all_pairs_iff in H.
  destruct H as [[[H1 H2] H3] H4]. set (rings := shell :: holes) in *.
  assert (Hring : forall r, In r rings -> ring_geom_validate r = None /\ (2 <= length r)%nat /\ as_lines r = ring_edges r
                                        /\ as_lines r = segs_of_pts r /\ pts_closed r = true).
  { intros r Hr. pose proof (proj1 (Forall_forall _ _) Hnd r Hr) as E.
    pose proof (ring_def_to_model r E (H1 r Hr)) as V. split; [exact V|].
    assert (L : (2 <= length r)%nat).
    { apply has2_len. unfold ring_geom_validate in V. destruct (has_2_distinct r); [reflexivity | discriminate]. }
    split; [exact L|]. split; [exact E|]. split; [apply nodup_segs; assumption | apply ring_def_closed; exact (H1 r Hr)]. }
  split; [apply Forall_forall; intros r Hr; apply Hring; exact Hr|].
  (* every pair passes the callback *)
  assert (Hpair : forall i j ri rj, (j < i)%nat -> nth_error rings i = Some ri -> nth_error rings j = Some rj ->
                  PairOK nested_v1 i j ri rj).
  { intros i j ri rj Hji Hi Hj.
    destruct (Hring ri (nth_error_In _ _ Hi)) as [_ [Li [Ei [Si Ci]]]]. destruct (Hring rj (nth_error_In _ _ Hj)) as [_ [Lj [Ej [Sj Cj]]]].
    split.
    - intros H0i H0j. destruct i as [|i]; [lia|]. destruct j as [|j]; [lia|]. simpl in Hi, Hj.
      pose proof (ordpairs_index _ holes H4 i j ri rj ltac:(lia) Hi Hj) as N.
      assert (N' : not_nested ri rj = true).
      { apply not_nested_spec; [exact Ci | exact Cj|]. intros p. destruct (proj1 (not_nested_spec rj ri Cj Ci) N p). split; assumption. }
      unfold nested_v1. destruct ri as [|a ra]; [simpl in Li; lia|]. destruct rj as [|b rb]; [simpl in Lj; lia|].
      destruct (ogc_accepts_probes_lemma (a :: ra) (b :: rb) Li Sj Cj) as [_ P1].
      destruct (ogc_accepts_probes_lemma (b :: rb) (a :: ra) Lj Si Ci) as [_ P2].
      specialize (P1 N' Ci). specialize (P2 N Cj). f_equal. apply orb_false_iff.
      split; [destruct (first_off_boundary (a :: ra) (as_lines (b :: rb))) | destruct (first_off_boundary (b :: rb) (as_lines (a :: ra)))]; try reflexivity; congruence.
    - apply at_most_one_not_multi. intros p q P1 P2 Q1 Q2.
      pose proof (ordpairs_index _ rings H2 i j ri rj Hji Hi Hj) as T.
      cbv beta in T. pose proof (proj1 (rings_touch_ok_spec _ _) T) as T'. clear T. rename T' into T. symmetry.
      apply (T q p); first [apply (on_curve_segs rj Lj Ej) | apply (on_curve_segs ri Li Ei)]; assumption. }
  destruct (loop_i_complete nested_v1 rings 0 []) with (st := MkPS (length rings) [] []) as [st E].
  { intros k ri Hk j rj Hin. simpl in Hin. apply indexed_in in Hin. destruct Hin as [_ Hin]. rewrite Nat.sub_0_r in Hin.
    assert (Hjk : (j < k)%nat).
    { destruct (lt_dec j k); [assumption|]. rewrite (proj2 (nth_error_None _ _)) in Hin; [discriminate|]. rewrite firstn_length. lia. }
    rewrite nth_error_firstn_lt in Hin by exact Hjk. exact (Hpair k j ri rj Hjk Hk Hin). }
  unfold poly_geom_validate. fold rings. rewrite E.
  assert (Hh : forallb (hole_in_shell (as_lines shell)) holes = true).
  { apply forallb_forall. intros h Hh. rewrite hole_in_shell_first_off. rewrite forallb_forall in H3.
    destruct (Hring shell (or_introl eq_refl)) as [_ [_ [_ [Ss Cs]]]]. destruct (Hring h (or_intror Hh)) as [_ [Lh _]].
    destruct (ogc_accepts_probes_lemma h shell Lh Ss Cs) as [P _]. specialize (P (H3 h Hh)).
    destruct (first_off_boundary h (as_lines shell)); try reflexivity. congruence. }
  unfold rings. rewrite Hh. cbn [negb]. destruct (has_cycle (ps_edges st)); auto.
Qed.
