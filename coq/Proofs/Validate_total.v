(* Property C03 - the model never reaches the explicit panic of validatePolyNotInsidePoly
   (geom/type_multi_polygon.go), because "two lines overlap" is symmetric in exact arithmetic.
   The Go code computes in float64, where this fails for huge ordinates: defect F33. *)
From Coq Require Import QArith Qreduction List Bool ZArith Lia Lqa Arith Setoid Morphisms.
From SF Require Import Base.QKernel Model.Validate Model.ValidateSpec Proofs.Validate_kernel Proofs.Validate_proofs Proofs.Validate_graph Proofs.Validate_sound.
Import ListNotations.
Open Scope Q_scope.


(* ------------------------------------------------------------------ the panic site of validatePolyNotInsidePoly *)
(* "the two lines overlap" does not depend on the order of the arguments of intersectLine - in exact
   arithmetic (intersect_line_spec).  The Go code relies on this between its two passes; in float64
   it fails when the cross products overflow (defect F33). *)
Lemma no_overlap_sym la lb : nondeg la -> nondeg lb -> no_overlap la lb -> no_overlap lb la.
Proof.
  intros Na Nb H. unfold no_overlap in *. destruct la as [a b], lb as [c d].
  pose proof (intersect_line_spec a b c d Na Nb) as S1. pose proof (intersect_line_spec c d a b Nb Na) as S2.
  destruct (intersect_line (c, d) (a, b)) as [|x y]; [exact I|]. simpl in S2. destruct S2 as [[X1 X2] [[Y1 Y2] _]].
  destruct (pt_eqb x y) eqn:E; [reflexivity|]. apply pt_eqb_false_iff in E. exfalso.
  destruct (intersect_line (a, b) (c, d)) as [|pa pb]; simpl in S1.
  - apply (S1 x). split; assumption.
  - destruct S1 as [_ [_ U]]. apply pt_eqb_iff in H. apply E.
    rewrite (U H x (conj X2 X1)), (U H y (conj Y2 Y1)). reflexivity.
Qed.

Lemma inter_pts_with_total p1 l2 : (forall l1, In l1 p1 -> no_overlap l1 l2) -> inter_pts_with p1 l2 <> None.
Proof.
  induction p1 as [|l1 r IH]; intros H; [discriminate|]. simpl.
  pose proof (H l1 (or_introl eq_refl)) as N. unfold no_overlap in N.
  assert (IH' : inter_pts_with r l2 <> None) by (apply IH; intros l Hl; apply H; right; exact Hl).
  destruct (intersect_line l1 l2) as [|pa pb]; [exact IH'|]. rewrite N.
  destruct (inter_pts_with r l2); [discriminate | congruence].
Qed.

Lemma poly_not_inside_poly_total p1 p2 :
  (forall l1 l2, In l1 p1 -> In l2 p2 -> no_overlap l1 l2) -> poly_not_inside_poly p1 p2 <> Some RPanic.
Proof.
  induction p2 as [|l2 r IH]; intros H; [discriminate|]. simpl.
  assert (T : inter_pts_with p1 l2 <> None) by (apply inter_pts_with_total; intros l1 Hl; apply H; [exact Hl | left; reflexivity]).
  assert (IH' : poly_not_inside_poly p1 r <> Some RPanic) by (apply IH; intros l1 l Hl1 Hl; apply H; [exact Hl1 | right; exact Hl]).
  destruct (inter_pts_with p1 l2) as [[|x t]|]; [exact IH' | | congruence].
  destruct (existsb _ _); [discriminate | exact IH'].
Qed.

(* The explicit panic of validatePolyNotInsidePoly ("already established that boundaries only
   intersect at points") is unreachable in the model: once the first pass (boundary_inter) has
   found no overlapping pair of boundary lines, neither direction of the second pass finds one.
   This holds because the model computes with exact rationals; the Go code computes the same
   predicates in float64, where it is false for huge ordinates (F33). *)
Theorem slow_case_panic_unreachable_lemma bi bj :
  Forall nondeg bi -> Forall nondeg bj -> snd (boundary_inter bi bj) = false ->
  poly_not_inside_poly bi bj <> Some RPanic /\ poly_not_inside_poly bj bi <> Some RPanic.
Proof.
  intros Ni Nj H. pose proof (boundary_inter_no_overlap bi bj H) as N. split.
  - apply poly_not_inside_poly_total. exact N.
  - apply poly_not_inside_poly_total. intros l1 l2 H1 H2. apply no_overlap_sym.
    + exact (proj1 (Forall_forall _ _) Ni l2 H2).
    + exact (proj1 (Forall_forall _ _) Nj l1 H1).
    + exact (N l2 l1 H2 H1).
Qed.
