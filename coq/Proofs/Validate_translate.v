(* Property C03 - the verdict of validation is invariant under integer translation.
   Every function of the model is shown to map inputs related by R_v (p' == p + v, pointwise, up to
   Qeq) to equal booleans / related points; the top level instantiates v with an integer vector and
   the raw ordinates of a geometry.  Main results: validate_with_tr, is_simple_R, is_ring_R. *)
From Coq Require Import QArith Qreduction List Bool ZArith Lia Lqa Arith Setoid Morphisms.
From SF Require Import Base.QKernel Model.Validate Model.ValidateSpec Proofs.Validate_kernel Proofs.Validate_proofs.
Import ListNotations.
Open Scope Q_scope.


(* ------------------------------------------------------------------ translation *)
Lemma Qle_bool_shift a b a' b' d : a' == a + d -> b' == b + d -> Qle_bool a' b' = Qle_bool a b.
Proof. intros H1 H2. apply eq_true_iff_eq. rewrite !Qle_bool_iff, H1, H2. split; lra. Qed.
Lemma Qeq_bool_shift a b a' b' d : a' == a + d -> b' == b + d -> Qeq_bool a' b' = Qeq_bool a b.
Proof. intros H1 H2. apply eq_true_iff_eq. rewrite !Qeq_bool_iff, H1, H2. split; lra. Qed.
Lemma qltb_shift a b a' b' d : a' == a + d -> b' == b + d -> qltb a' b' = qltb a b.
Proof. intros H1 H2. unfold qltb. rewrite (Qle_bool_shift b a b' a' d H2 H1). reflexivity. Qed.
Lemma qbetween_shift a b x a' b' x' d :
  a' == a + d -> b' == b + d -> x' == x + d -> qbetween a' b' x' = qbetween a b x.
Proof.
  intros H1 H2 H3. unfold qbetween.
  rewrite (Qle_bool_shift a x a' x' d), (Qle_bool_shift x b x' b' d), (Qle_bool_shift b x b' x' d), (Qle_bool_shift x a x' a' d); auto.
Qed.

Section Translate.
  Variable v : pt.
  (* p' is p translated by v (up to Qeq) *)
  Definition R (p p' : pt) : Prop := pt_eq p' (pt_add p v).
  Definition Rs (s s' : seg) : Prop := R (fst s) (fst s') /\ R (snd s) (snd s').

  Lemma R_fst p p' : R p p' -> fst p' == fst p + fst v.
  Proof. intros [H _]. exact H. Qed.
  Lemma R_snd p p' : R p p' -> snd p' == snd p + snd v.
  Proof. intros [_ H]. exact H. Qed.

  Lemma pt_eqb_R p q p' q' : R p p' -> R q q' -> pt_eqb p' q' = pt_eqb p q.
  Proof.
    intros Hp Hq. unfold pt_eqb.
    rewrite (Qeq_bool_shift _ _ _ _ _ (R_fst _ _ Hp) (R_fst _ _ Hq)), (Qeq_bool_shift _ _ _ _ _ (R_snd _ _ Hp) (R_snd _ _ Hq)).
    reflexivity.
  Qed.
  Lemma R_pt_eq p q p' q' : R p p' -> R q q' -> pt_eq p q -> pt_eq p' q'.
  Proof. intros Hp Hq E. apply pt_eqb_iff. rewrite (pt_eqb_R p q p' q' Hp Hq). apply pt_eqb_iff. exact E. Qed.
  Lemma R_eq_l p q p' : pt_eq p q -> R p p' -> R q p'.
  Proof. unfold R, pt_eq, pt_add. intros [E1 E2] [H1 H2]. cbn [fst snd] in *. split; lra. Qed.

  Lemma orientation_R p q s p' q' s' : R p p' -> R q q' -> R s s' -> orientation p' q' s' = orientation p q s.
  Proof.
    intros Hp Hq Hs. unfold orientation. apply qsgn_proper.
    rewrite (R_fst _ _ Hp), (R_snd _ _ Hp), (R_fst _ _ Hq), (R_snd _ _ Hq), (R_fst _ _ Hs), (R_snd _ _ Hs). ring.
  Qed.
  Lemma xy_less_R p q p' q' : R p p' -> R q q' -> xy_less p' q' = xy_less p q.
  Proof.
    intros Hp Hq. unfold xy_less.
    rewrite (Qeq_bool_shift _ _ _ _ _ (R_fst _ _ Hp) (R_fst _ _ Hq)),
            (qltb_shift _ _ _ _ _ (R_snd _ _ Hp) (R_snd _ _ Hq)), (qltb_shift _ _ _ _ _ (R_fst _ _ Hp) (R_fst _ _ Hq)).
    reflexivity.
  Qed.
  Lemma xy_gt_R p q p' q' : R p p' -> R q q' -> xy_gt p' q' = xy_gt p q.
  Proof.
    intros Hp Hq. unfold xy_gt.
    rewrite (Qeq_bool_shift _ _ _ _ _ (R_fst _ _ Hq) (R_fst _ _ Hp)),
            (qltb_shift _ _ _ _ _ (R_snd _ _ Hp) (R_snd _ _ Hq)), (qltb_shift _ _ _ _ _ (R_fst _ _ Hp) (R_fst _ _ Hq)).
    reflexivity.
  Qed.
  Lemma on_segment_bb_R p q r p' q' r' : R p p' -> R q q' -> R r r' -> on_segment_bb p' q' r' = on_segment_bb p q r.
  Proof.
    intros Hp Hq Hr. unfold on_segment_bb.
    rewrite (qbetween_shift _ _ _ _ _ _ _ (R_fst _ _ Hp) (R_fst _ _ Hq) (R_fst _ _ Hr)),
            (qbetween_shift _ _ _ _ _ _ _ (R_snd _ _ Hp) (R_snd _ _ Hq) (R_snd _ _ Hr)).
    reflexivity.
  Qed.

  (* lists *)
  Definition Rl := Forall2 R.
  Definition Rsl := Forall2 Rs.

  Lemma rth_from_R ps ps' : Rl ps ps' -> forall best best' bi i, R best best' ->
    rth_from best' bi i ps' = rth_from best bi i ps.
  Proof.
    induction 1 as [|p p' r r' Hp Hr IH]; intros best best' bi i Hb; [reflexivity|].
    simpl. rewrite (xy_gt_R _ _ _ _ Hb Hp). destruct (xy_gt best p); apply IH; assumption.
  Qed.
  Lemma ltl_from_R ps ps' : Rl ps ps' -> forall best best' bi i, R best best' ->
    ltl_from best' bi i ps' = ltl_from best bi i ps.
  Proof.
    induction 1 as [|p p' r r' Hp Hr IH]; intros best best' bi i Hb; [reflexivity|].
    simpl. rewrite (xy_less_R _ _ _ _ Hp Hb). destruct (xy_less p best); apply IH; assumption.
  Qed.
  Lemma rth_R ps ps' : Rl ps ps' -> rightmost_then_highest_index ps' = rightmost_then_highest_index ps.
  Proof. destruct 1; [reflexivity|]. simpl. apply rth_from_R; assumption. Qed.
  Lemma ltl_R ps ps' : Rl ps ps' -> leftmost_then_lowest_index ps' = leftmost_then_lowest_index ps.
  Proof. destruct 1; [reflexivity|]. simpl. apply ltl_from_R; assumption. Qed.
  Lemma remove_nth_R {A B} (Q : A -> B -> Prop) l l' : Forall2 Q l l' -> forall i, Forall2 Q (remove_nth i l) (remove_nth i l').
  Proof. induction 1; intros i; [destruct i; constructor|]. destruct i; simpl; [assumption|]. constructor; auto. Qed.

  Inductive Ril : il -> il -> Prop :=
  | Ril_empty : Ril ILEmpty ILEmpty
  | Ril_some a b a' b' : R a a' -> R b b' -> Ril (ILSome a b) (ILSome a' b').

  Lemma collinear_intersection_R a b c d a' b' c' d' :
    R a a' -> R b b' -> R c c' -> R d d' ->
    Ril (collinear_intersection a b c d) (collinear_intersection a' b' c' d').
  Proof.
    intros Ha Hb Hc Hd. unfold collinear_intersection.
    rewrite (on_segment_bb_R a b c a' b' c'), (on_segment_bb_R a b d a' b' d'),
            (on_segment_bb_R c d a c' d' a'), (on_segment_bb_R c d b c' d' b'); auto.
    destruct (negb (on_segment_bb a b c) && negb (on_segment_bb a b d) && negb (on_segment_bb c d a) && negb (on_segment_bb c d b));
      [constructor|].
    assert (L0 : Rl [a; b; c; d] [a'; b'; c'; d']) by (unfold Rl; repeat (apply Forall2_cons; [assumption|]); apply Forall2_nil).
    cbv zeta. rewrite (rth_R _ _ L0).
    pose proof (remove_nth_R R _ _ L0 (rightmost_then_highest_index [a; b; c; d])) as L1.
    rewrite (ltl_R _ _ L1).
    pose proof (remove_nth_R R _ _ L1 (leftmost_then_lowest_index (remove_nth (rightmost_then_highest_index [a; b; c; d]) [a; b; c; d]))) as L2.
    destruct L2 as [|x x' r r' Hx Hr]; [constructor|]. destruct Hr as [|y y' r2 r2' Hy Hr2]; constructor; assumption.
  Qed.

  Lemma intersect_line_R s t s' t' : Rs s s' -> Rs t t' -> Ril (intersect_line s t) (intersect_line s' t').
  Proof.
    destruct s as [a b], t as [c d], s' as [a' b'], t' as [c' d']. intros [Ha Hb] [Hc Hd]. cbn [fst snd] in *.
    unfold intersect_line.
    rewrite (orientation_R a b c a' b' c'), (orientation_R a b d a' b' d'), (orientation_R c d a c' d' a'), (orientation_R c d b c' d' b'); auto.
    destruct (negb (cmp_eqb (orientation a b c) (orientation a b d)) && negb (cmp_eqb (orientation c d a) (orientation c d b))).
    - destruct (is_eq (orientation a b c)); [constructor; assumption|].
      destruct (is_eq (orientation a b d)); [constructor; assumption|].
      destruct (is_eq (orientation c d a)); [constructor; assumption|].
      destruct (is_eq (orientation c d b)); [constructor; assumption|].
      cbv zeta.
      assert (Ee : (snd c' - snd d') * (fst a' - fst c') + (fst d' - fst c') * (snd a' - snd c')
                   == (snd c - snd d) * (fst a - fst c) + (fst d - fst c) * (snd a - snd c)).
      { rewrite (R_fst _ _ Ha), (R_snd _ _ Ha), (R_fst _ _ Hc), (R_snd _ _ Hc), (R_fst _ _ Hd), (R_snd _ _ Hd). ring. }
      assert (Ef : (fst d' - fst c') * (snd a' - snd b') - (fst a' - fst b') * (snd d' - snd c')
                   == (fst d - fst c) * (snd a - snd b) - (fst a - fst b) * (snd d - snd c)).
      { rewrite (R_fst _ _ Ha), (R_snd _ _ Ha), (R_fst _ _ Hb), (R_snd _ _ Hb), (R_fst _ _ Hc), (R_snd _ _ Hc), (R_fst _ _ Hd), (R_snd _ _ Hd). ring. }
      assert (Hx : R (Qred ((fst b - fst a) * (((snd c - snd d) * (fst a - fst c) + (fst d - fst c) * (snd a - snd c)) / ((fst d - fst c) * (snd a - snd b) - (fst a - fst b) * (snd d - snd c))) + fst a),
                      Qred ((snd b - snd a) * (((snd c - snd d) * (fst a - fst c) + (fst d - fst c) * (snd a - snd c)) / ((fst d - fst c) * (snd a - snd b) - (fst a - fst b) * (snd d - snd c))) + snd a))
                     (Qred ((fst b' - fst a') * (((snd c' - snd d') * (fst a' - fst c') + (fst d' - fst c') * (snd a' - snd c')) / ((fst d' - fst c') * (snd a' - snd b') - (fst a' - fst b') * (snd d' - snd c'))) + fst a'),
                      Qred ((snd b' - snd a') * (((snd c' - snd d') * (fst a' - fst c') + (fst d' - fst c') * (snd a' - snd c')) / ((fst d' - fst c') * (snd a' - snd b') - (fst a' - fst b') * (snd d' - snd c'))) + snd a'))).
      { unfold R, pt_eq, pt_add. cbn [fst snd]. rewrite !Qred_correct. rewrite Ee, Ef.
        rewrite (R_fst _ _ Ha), (R_snd _ _ Ha), (R_fst _ _ Hb), (R_snd _ _ Hb). split; ring. }
      constructor; exact Hx.
    - destruct (is_eq (orientation a b c) && is_eq (orientation a b d)); [|constructor].
      apply collinear_intersection_R; assumption.
  Qed.
End Translate.


Lemma Forall2_length {A B} {Q : A -> B -> Prop} {l l'} : Forall2 Q l l' -> length l = length l'.
Proof. induction 1; simpl; congruence. Qed.

Section Translate2.
  Variable v : pt.
  Notation R := (R v). Notation Rs := (Rs v). Notation Rl := (Rl v). Notation Rsl := (Rsl v). Notation Ril := (Ril v).

  Lemma as_lines_R ps ps' : Rl ps ps' -> Rsl (as_lines ps) (as_lines ps').
  Proof.
    induction 1 as [|a a' r r' Ha Hr IH]; [constructor|].
    destruct Hr as [|b b' r2 r2' Hb Hr2]; [constructor|].
    rewrite !as_lines_cons2. rewrite (pt_eqb_R v a b a' b' Ha Hb).
    destruct (pt_eqb a b); [exact IH|]. constructor; [split; assumption | exact IH].
  Qed.

  Lemma has_2_distinct_R ps ps' : Rl ps ps' -> has_2_distinct ps' = has_2_distinct ps.
  Proof.
    destruct 1 as [|a a' r r' Ha Hr]; [reflexivity|]. simpl.
    induction Hr as [|b b' r2 r2' Hb Hr2 IH]; [reflexivity|]. simpl.
    rewrite (pt_eqb_R v b a b' a' Hb Ha), IH. reflexivity.
  Qed.

  Lemma last_R ps ps' : Rl ps ps' -> forall d d', R d d' -> R (last ps d) (last ps' d').
  Proof.
    induction 1 as [|a a' r r' Ha Hr IH]; intros d d' Hd; [exact Hd|].
    destruct Hr as [|b b' r2 r2' Hb Hr2]; [exact Ha|]. rewrite !last_cons2. apply IH. exact Hd.
  Qed.
  Lemma is_closed_R ps ps' : Rl ps ps' -> is_closed ps' = is_closed ps.
  Proof.
    intros H. destruct H as [|a a' r r' Ha Hr]; [reflexivity|]. unfold is_closed.
    apply (pt_eqb_R v); [exact Ha|]. apply last_R; [constructor; assumption | exact Ha].
  Qed.

  Lemma pair_simple_R cl m k l sk sl sk' sl' : Rs sk sk' -> Rs sl sl' ->
    pair_simple cl m k l sk' sl' = pair_simple cl m k l sk sl.
  Proof.
    intros Hk Hl. unfold pair_simple. destruct (intersect_line_R v sk sl sk' sl' Hk Hl) as [|a b a' b' Ha Hb]; [reflexivity|].
    rewrite (pt_eqb_R v a b a' b' Ha Hb). reflexivity.
  Qed.
  Lemma simple_against_R cl m k sk sk' rest rest' : Rs sk sk' -> Rsl rest rest' -> forall l,
    simple_against cl m k l sk' rest' = simple_against cl m k l sk rest.
  Proof.
    intros Hk. induction 1 as [|s s' r r' Hs Hr IH]; intros l; [reflexivity|]. simpl.
    rewrite (pair_simple_R cl m k l sk s sk' s' Hk Hs), IH. reflexivity.
  Qed.
  Lemma simple_from_R cl m L L' : Rsl L L' -> forall k, simple_from cl m k L' = simple_from cl m k L.
  Proof.
    induction 1 as [|s s' r r' Hs Hr IH]; intros k; [reflexivity|]. simpl.
    rewrite (simple_against_R cl m k s s' r r' Hs Hr), IH. reflexivity.
  Qed.
  Lemma is_simple_R ps ps' : Rl ps ps' -> is_simple ps' = is_simple ps.
  Proof.
    intros H. unfold is_simple. pose proof (as_lines_R ps ps' H) as HL.
    rewrite (is_closed_R ps ps' H). rewrite <- (Forall2_length HL). apply simple_from_R. exact HL.
  Qed.
  Lemma is_ring_R ps ps' : Rl ps ps' -> is_ring ps' = is_ring ps.
  Proof. intros H. unfold is_ring. rewrite (is_closed_R _ _ H), (is_simple_R _ _ H). reflexivity. Qed.
  Lemma ring_geom_validate_R ps ps' : Rl ps ps' -> ring_geom_validate ps' = ring_geom_validate ps.
  Proof.
    intros H. unfold ring_geom_validate. rewrite (has_2_distinct_R _ _ H), (is_closed_R _ _ H), (is_simple_R _ _ H). reflexivity.
  Qed.

  Lemma has_crossing_R p p' s s' : R p p' -> Rs s s' -> has_crossing p' s' = has_crossing p s.
  Proof.
    destruct s as [a b], s' as [a' b']. intros Hp [Ha Hb]. cbn [fst snd] in *. unfold has_crossing.
    rewrite (qltb_shift _ _ _ _ _ (R_snd v _ _ Hb) (R_snd v _ _ Ha)).
    rewrite (on_segment_bb_R v a b p a' b' p' Ha Hb Hp).
    destruct (qltb (snd b) (snd a)).
    - rewrite (orientation_R v b a p b' a' p' Hb Ha Hp).
      rewrite (Qle_bool_shift _ _ _ _ _ (R_snd v _ _ Hb) (R_snd v _ _ Hp)), (qltb_shift _ _ _ _ _ (R_snd v _ _ Hp) (R_snd v _ _ Ha)).
      reflexivity.
    - rewrite (orientation_R v a b p a' b' p' Ha Hb Hp).
      rewrite (Qle_bool_shift _ _ _ _ _ (R_snd v _ _ Ha) (R_snd v _ _ Hp)), (qltb_shift _ _ _ _ _ (R_snd v _ _ Hp) (R_snd v _ _ Hb)).
      reflexivity.
  Qed.
  Lemma relate_lines_R p p' ls ls' : R p p' -> Rsl ls ls' -> forall odd, relate_lines p' ls' odd = relate_lines p ls odd.
  Proof.
    intros Hp. induction 1 as [|s s' r r' Hs Hr IH]; intros odd; [reflexivity|]. simpl.
    rewrite (has_crossing_R p p' s s' Hp Hs). destruct (has_crossing p s) as [cr on]. destruct on; [reflexivity|]. apply IH.
  Qed.
  Lemma relate_point_to_ring_R p p' r r' : R p p' -> Rl r r' -> relate_point_to_ring p' r' = relate_point_to_ring p r.
  Proof. intros Hp Hr. unfold relate_point_to_ring. apply relate_lines_R; [exact Hp | apply as_lines_R; exact Hr]. Qed.

  Inductive Risum : isum -> isum -> Prop :=
  | Risum_none : Risum INone INone
  | Risum_single p p' : R p p' -> Risum (ISingle p) (ISingle p')
  | Risum_multi : Risum IMulti IMulti.

  Lemma isum_step_R acc acc' la la' lb lb' : Risum acc acc' -> Rs la la' -> Rs lb lb' ->
    Risum (isum_step acc la lb) (isum_step acc' la' lb').
  Proof.
    intros Ha Hla Hlb. unfold isum_step.
    destruct (intersect_line_R v la lb la' lb' Hla Hlb) as [|a b a' b' Ha' Hb'].
    - destruct Ha; constructor; assumption.
    - rewrite (pt_eqb_R v a b a' b' Ha' Hb'). destruct Ha as [|q q' Hq|]; try constructor.
      + destruct (pt_eqb a b); constructor; assumption.
      + destruct (pt_eqb a b); simpl; [|constructor]. rewrite (pt_eqb_R v q a q' a' Hq Ha').
        destruct (pt_eqb q a); constructor; assumption.
  Qed.
  Lemma inter_summary_R l1 l1' l2 l2' : Rsl l1 l1' -> Rsl l2 l2' -> Risum (inter_summary l1 l2) (inter_summary l1' l2').
  Proof.
    intros H1 H2. unfold inter_summary.
    assert (Hin : forall la la', Rs la la' -> forall acc acc', Risum acc acc' ->
              Risum (fold_left (fun acc0 lb => isum_step acc0 la lb) l1 acc) (fold_left (fun acc0 lb => isum_step acc0 la' lb) l1' acc')).
    { intros la la' Hla. induction H1 as [|s s' r r' Hs Hr IH]; intros acc acc' Hacc; [exact Hacc|].
      simpl. apply IH. apply isum_step_R; assumption. }
    assert (Hout : forall acc acc', Risum acc acc' ->
              Risum (fold_left (fun acc0 la => fold_left (fun acc1 lb => isum_step acc1 la lb) l1 acc0) l2 acc)
                    (fold_left (fun acc0 la => fold_left (fun acc1 lb => isum_step acc1 la lb) l1' acc0) l2' acc')).
    { induction H2 as [|s s' r r' Hs Hr IH]; intros acc acc' Hacc; [exact Hacc|].
      simpl. apply IH. apply Hin; assumption. }
    apply Hout. constructor.
  Qed.

  (* polygon state *)
  Definition Rivs := Forall2 (fun (e e' : pt * nat) => R (fst e) (fst e') /\ snd e = snd e').
  Definition Rst (s s' : pstate) : Prop :=
    ps_next s = ps_next s' /\ ps_edges s = ps_edges s' /\ Rivs (ps_ivs s) (ps_ivs s').

  Lemma lookup_pt_R p p' d d' : R p p' -> Rivs d d' -> lookup_pt p' d' = lookup_pt p d.
  Proof.
    intros Hp. induction 1 as [|[q k] [q' k'] r r' [Hq Hk] Hr IH]; [reflexivity|]. simpl in *. subst k'.
    rewrite (pt_eqb_R v q p q' p' Hq Hp). destruct (pt_eqb q p); [reflexivity | exact IH].
  Qed.

  Inductive Rres {A} (Q : A -> A -> Prop) : rule + A -> rule + A -> Prop :=
  | Rres_l e : Rres Q (inl e) (inl e)
  | Rres_r x x' : Q x x' -> Rres Q (inr x) (inr x').

  Section Poly.
    Variable nested : list pt -> list pt -> option bool.
    Hypothesis nested_R : forall ri rj ri' rj', Rl ri ri' -> Rl rj rj' -> nested ri' rj' = nested ri rj.

    Lemma pair_step_R i j ri rj ri' rj' st st' : Rl ri ri' -> Rl rj rj' -> Rst st st' ->
      Rres Rst (pair_step nested i j ri rj st) (pair_step nested i j ri' rj' st').
    Proof.
      intros Hi Hj [Hn [He Hivs]]. unfold pair_step. rewrite (nested_R ri rj ri' rj' Hi Hj).
      destruct (if (0 <? i)%nat && (0 <? j)%nat then nested ri rj else Some false) as [[|]|]; try constructor.
      destruct (inter_summary_R _ _ _ _ (as_lines_R _ _ Hi) (as_lines_R _ _ Hj)) as [|p p' Hp|]; try constructor.
      - split; [exact Hn|]. split; assumption.
      - rewrite (lookup_pt_R p p' _ _ Hp Hivs). destruct (lookup_pt p (ps_ivs st)) as [k|].
        + constructor. split; [exact Hn|]. split; [simpl; rewrite He; reflexivity | exact Hivs].
        + constructor. split; [simpl; rewrite Hn; reflexivity|]. split; [simpl; rewrite He, Hn; reflexivity|].
          simpl. constructor; [split; [exact Hp | simpl; exact Hn] | exact Hivs].
    Qed.

    Definition Rbelow := Forall2 (fun (x x' : nat * list pt) => fst x = fst x' /\ Rl (snd x) (snd x')).

    Lemma loop_j_R i ri ri' below below' : Rl ri ri' -> Rbelow below below' -> forall st st', Rst st st' ->
      Rres Rst (loop_j nested i ri below st) (loop_j nested i ri' below' st').
    Proof.
      intros Hi. induction 1 as [|[j rj] [j' rj'] r r' [Hj Hrj] Hr IH]; intros st st' Hst; [constructor; exact Hst|].
      simpl in *. subst j'.
      destruct (pair_step_R i j ri rj ri' rj' st st' Hi Hrj Hst) as [e|x x' Hx]; [constructor|]. apply IH. exact Hx.
    Qed.

    Lemma loop_i_R rest rest' : Forall2 Rl rest rest' -> forall i below below' st st', Rbelow below below' -> Rst st st' ->
      Rres Rst (loop_i nested i below rest st) (loop_i nested i below' rest' st').
    Proof.
      induction 1 as [|ri ri' r r' Hi Hr IH]; intros i below below' st st' Hb Hst; [constructor; exact Hst|].
      simpl. destruct (loop_j_R i ri ri' below below' Hi Hb st st' Hst) as [e|x x' Hx]; [constructor|].
      apply IH; [|exact Hx]. apply Forall2_app; [exact Hb|]. constructor; [split; [reflexivity | exact Hi] | constructor].
    Qed.

    Lemma hole_in_shell_R shell shell' vs vs' : Rsl shell shell' -> Rl vs vs' -> hole_in_shell shell' vs' = hole_in_shell shell vs.
    Proof.
      intros Hs. induction 1 as [|p p' r r' Hp Hr IH]; [reflexivity|]. simpl.
      rewrite (relate_lines_R p p' shell shell' Hp Hs). destruct (relate_lines p shell false); auto.
    Qed.

    Lemma forallb_hole_R shell shell' holes holes' : Rsl shell shell' -> Forall2 Rl holes holes' ->
      forallb (hole_in_shell shell') holes' = forallb (hole_in_shell shell) holes.
    Proof.
      intros Hs. induction 1 as [|h h' r r' Hh1 Hr IH]; [reflexivity|]. simpl.
      rewrite (hole_in_shell_R _ _ _ _ Hs Hh1), IH. reflexivity.
    Qed.

    Lemma poly_geom_validate_R rings rings' : Forall2 Rl rings rings' ->
      poly_geom_validate nested rings' = poly_geom_validate nested rings.
    Proof.
      intros H. unfold poly_geom_validate. destruct H as [|shell shell' holes holes' Hs Hh] eqn:E; [reflexivity|].
      assert (Hall : Forall2 Rl (shell :: holes) (shell' :: holes')) by (constructor; assumption).
      rewrite <- (Forall2_length Hall).
      assert (Hst0 : Rst (MkPS (length (shell :: holes)) [] []) (MkPS (length (shell :: holes)) [] [])).
      { split; [reflexivity|]. split; [reflexivity | constructor]. }
      destruct (loop_i_R _ _ Hall 0%nat [] [] _ _ (Forall2_nil _) Hst0) as [e|st st' [Hn [He Hivs]]]; [reflexivity|].
      assert (Hf : forallb (hole_in_shell (as_lines shell')) holes' = forallb (hole_in_shell (as_lines shell)) holes).
      { apply forallb_hole_R; [apply as_lines_R; exact Hs | exact Hh]. }
      rewrite Hf, He. reflexivity.
    Qed.
  End Poly.

  Lemma nested_v0_R ri rj ri' rj' : Rl ri ri' -> Rl rj rj' -> nested_v0 ri' rj' = nested_v0 ri rj.
  Proof.
    intros Hi Hj. unfold nested_v0. destruct Hi as [|a a' r r' Ha Hr] eqn:Ei; [reflexivity|].
    destruct Hj as [|b b' s s' Hb Hs] eqn:Ej; [reflexivity|].
    rewrite (relate_point_to_ring_R a a' (b :: s) (b' :: s') Ha), (relate_point_to_ring_R b b' (a :: r) (a' :: r') Hb);
      [reflexivity | constructor; assumption | constructor; assumption].
  Qed.
  Lemma first_off_boundary_R vs vs' other other' : Rl vs vs' -> Rsl other other' ->
    first_off_boundary vs' other' = first_off_boundary vs other.
  Proof.
    intros H Ho. induction H as [|p p' r r' Hp Hr IH]; [reflexivity|]. simpl.
    rewrite (relate_lines_R p p' other other' Hp Ho). destruct (relate_lines p other false); auto.
  Qed.
  Lemma nested_v1_R ri rj ri' rj' : Rl ri ri' -> Rl rj rj' -> nested_v1 ri' rj' = nested_v1 ri rj.
  Proof.
    intros Hi Hj. unfold nested_v1.
    rewrite (first_off_boundary_R ri ri' _ _ Hi (as_lines_R _ _ Hj)), (first_off_boundary_R rj rj' _ _ Hj (as_lines_R _ _ Hi)).
    destruct Hi; [reflexivity|]. destruct Hj; reflexivity.
  Qed.
End Translate2.


Ltac f2 := repeat first [apply Forall2_nil | apply Forall2_cons; [assumption|]]; try assumption.

Section Translate3.
  Variable v : pt.
  Notation R := (R v). Notation Rs := (Rs v). Notation Rl := (Rl v). Notation Rsl := (Rsl v). Notation Ril := (Ril v).

  Lemma poly_lines_R rings rings' : Forall2 Rl rings rings' -> Rsl (poly_lines rings) (poly_lines rings').
  Proof.
    unfold poly_lines. induction 1 as [|r r' t t' Hr Ht IH]; [constructor|]. simpl.
    apply Forall2_app; [apply as_lines_R; exact Hr | exact IH].
  Qed.

  Lemma boundary_inter_R b1 b1' b2 b2' : Rsl b1 b1' -> Rsl b2 b2' -> boundary_inter b1' b2' = boundary_inter b1 b2.
  Proof.
    intros H1 H2. unfold boundary_inter.
    assert (Hin : forall la la', Rs la la' -> forall acc : bool * bool,
              fold_left (fun acc' lb => match intersect_line la' lb with
                                        | ILEmpty => acc'
                                        | ILSome pa pb => if pt_eqb pa pb then (true, snd acc') else (fst acc', true) end) b2' acc
            = fold_left (fun acc' lb => match intersect_line la lb with
                                        | ILEmpty => acc'
                                        | ILSome pa pb => if pt_eqb pa pb then (true, snd acc') else (fst acc', true) end) b2 acc).
    { intros la la' Hla. induction H2 as [|s s' r r' Hs Hr IH]; intros acc; [reflexivity|]. simpl.
      destruct (intersect_line_R v la s la' s' Hla Hs) as [|a b a' b' Ha Hb]; [apply IH|].
      rewrite (pt_eqb_R v a b a' b' Ha Hb). apply IH. }
    generalize (false, false). induction H1 as [|s s' r r' Hs Hr IH]; intros acc; [reflexivity|]. simpl.
    rewrite (Hin s s' Hs). apply IH.
  Qed.

  Lemma xy_insert_R p p' l l' : R p p' -> Rl l l' -> Rl (xy_insert p l) (xy_insert p' l').
  Proof.
    intros Hp. induction 1 as [|q q' r r' Hq Hr IH]; [f2|]. simpl.
    rewrite (xy_less_R v q p q' p' Hq Hp). destruct (xy_less q p); [apply Forall2_cons; [exact Hq | exact IH] | apply Forall2_cons; [exact Hp | apply Forall2_cons; [exact Hq | exact Hr]]].
  Qed.
  Lemma xy_uniq_R l l' : Rl l l' -> Rl (xy_uniq l) (xy_uniq l').
  Proof.
    induction 1 as [|a a' r r' Ha Hr IH]; [constructor|].
    destruct Hr as [|b b' r2 r2' Hb Hr2]; [f2|].
    change (xy_uniq (a :: b :: r2)) with (if pt_eqb a b then xy_uniq (b :: r2) else a :: xy_uniq (b :: r2)).
    change (xy_uniq (a' :: b' :: r2')) with (if pt_eqb a' b' then xy_uniq (b' :: r2') else a' :: xy_uniq (b' :: r2')).
    rewrite (pt_eqb_R v a b a' b' Ha Hb). destruct (pt_eqb a b); [exact IH | constructor; [exact Ha | exact IH]].
  Qed.
  Lemma sort_uniq_R l l' : Rl l l' -> Rl (sort_uniq_xys l) (sort_uniq_xys l').
  Proof.
    intros H. unfold sort_uniq_xys. apply xy_uniq_R. induction H as [|a a' r r' Ha Hr IH]; [constructor|]. simpl.
    apply xy_insert_R; assumption.
  Qed.
  Lemma midpoint_R a b a' b' : R a a' -> R b b' -> R (midpoint a b) (midpoint a' b').
  Proof.
    intros Ha Hb. unfold R, pt_eq, pt_add, midpoint. cbn [fst snd]. rewrite !Qred_correct.
    rewrite (R_fst v _ _ Ha), (R_snd v _ _ Ha), (R_fst v _ _ Hb), (R_snd v _ _ Hb). split; ring.
  Qed.
  Lemma midpoints_R l l' : Rl l l' -> Rl (midpoints l) (midpoints l').
  Proof.
    induction 1 as [|a a' r r' Ha Hr IH]; [constructor|].
    destruct Hr as [|b b' r2 r2' Hb Hr2]; [constructor|].
    change (midpoints (a :: b :: r2)) with (midpoint a b :: midpoints (b :: r2)).
    change (midpoints (a' :: b' :: r2')) with (midpoint a' b' :: midpoints (b' :: r2')).
    constructor; [apply midpoint_R; assumption | exact IH].
  Qed.

  Inductive Ropt {A} (Q : A -> A -> Prop) : option A -> option A -> Prop :=
  | Ropt_none : Ropt Q None None
  | Ropt_some x x' : Q x x' -> Ropt Q (Some x) (Some x').

  Lemma inter_pts_with_R p1 p1' l2 l2' : Rsl p1 p1' -> Rs l2 l2' -> Ropt Rl (inter_pts_with p1 l2) (inter_pts_with p1' l2').
  Proof.
    intros H Hl. induction H as [|s s' r r' Hs Hr IH]; [constructor; constructor|]. simpl.
    destruct (intersect_line_R v s l2 s' l2' Hs Hl) as [|a b a' b' Ha Hb]; [exact IH|].
    rewrite (pt_eqb_R v a b a' b' Ha Hb). destruct (pt_eqb a b); [|constructor].
    destruct IH as [|x x' Hx]; constructor. constructor; assumption.
  Qed.

  Lemma existsb_interior_R ms ms' p1 p1' : Rl ms ms' -> Rsl p1 p1' ->
    existsb (fun m => side_eqb (relate_lines m p1' false) SInterior) ms'
    = existsb (fun m => side_eqb (relate_lines m p1 false) SInterior) ms.
  Proof.
    intros H Hp. induction H as [|m m' r r' Hm Hr IH]; [reflexivity|]. simpl.
    rewrite (relate_lines_R v m m' p1 p1' Hm Hp), IH. reflexivity.
  Qed.

  Lemma poly_not_inside_poly_R p1 p1' p2 p2' : Rsl p1 p1' -> Rsl p2 p2' ->
    poly_not_inside_poly p1' p2' = poly_not_inside_poly p1 p2.
  Proof.
    intros H1 H2. induction H2 as [|l2 l2' r r' Hl Hr IH]; [reflexivity|]. simpl.
    destruct (inter_pts_with_R p1 p1' l2 l2' H1 Hl) as [|pts pts' Hpts]; [reflexivity|].
    destruct Hpts as [|x x' t t' Hx Ht]; [exact IH|].
    assert (Hall : Rl ((x :: t) ++ [fst l2; snd l2]) ((x' :: t') ++ [fst l2'; snd l2'])).
    { apply Forall2_app; [constructor; assumption|]. destruct Hl as [Hl1 Hl2]. f2. }
    rewrite (existsb_interior_R _ _ p1 p1' (midpoints_R _ _ (sort_uniq_R _ _ Hall)) H1).
    destruct (existsb _ _); [reflexivity | exact IH].
  Qed.

  Definition Rrings := Forall2 Rl.
  Definition Rpolys := Forall2 Rrings.

  Lemma mpoly_pair_R pi pj pi' pj' : Rrings pi pi' -> Rrings pj pj' -> mpoly_pair pi' pj' = mpoly_pair pi pj.
  Proof.
    intros Hi Hj. unfold mpoly_pair.
    pose proof (poly_lines_R _ _ Hi) as Li. pose proof (poly_lines_R _ _ Hj) as Lj.
    rewrite (boundary_inter_R _ _ _ _ Li Lj). destruct (boundary_inter (poly_lines pi) (poly_lines pj)) as [hp hl].
    destruct hl; [reflexivity|]. destruct hp; simpl.
    - rewrite (poly_not_inside_poly_R _ _ _ _ Li Lj), (poly_not_inside_poly_R _ _ _ _ Lj Li). reflexivity.
    - destruct Hi as [|ri ri' ti ti' Hri Hti]; [reflexivity|]. destruct Hri as [|a a' ra ra' Ha Hra]; [reflexivity|].
      destruct Hj as [|rj rj' tj tj' Hrj Htj]; [reflexivity|]. destruct Hrj as [|b b' rb rb' Hb Hrb]; [reflexivity|].
      assert (Li' : Rsl (poly_lines ((a :: ra) :: ti)) (poly_lines ((a' :: ra') :: ti'))) by (apply poly_lines_R; apply Forall2_cons; [f2 | assumption]).
      assert (Lj' : Rsl (poly_lines ((b :: rb) :: tj)) (poly_lines ((b' :: rb') :: tj'))) by (apply poly_lines_R; apply Forall2_cons; [f2 | assumption]).
      rewrite (relate_lines_R v a a' _ _ Ha Lj'), (relate_lines_R v b b' _ _ Hb Li'). reflexivity.
  Qed.
  Lemma mpoly_against_R pi pi' below below' : Rrings pi pi' -> Rpolys below below' -> mpoly_against pi' below' = mpoly_against pi below.
  Proof.
    intros Hi. induction 1 as [|pj pj' r r' Hj Hr IH]; [reflexivity|]. simpl.
    rewrite (mpoly_pair_R pi pj pi' pj' Hi Hj), IH. destruct Hj; reflexivity.
  Qed.
  Lemma mpoly_constraints_R rest rest' : Rpolys rest rest' -> forall below below', Rpolys below below' ->
    mpoly_constraints below' rest' = mpoly_constraints below rest.
  Proof.
    induction 1 as [|pi pi' r r' Hi Hr IH]; intros below below' Hb; [reflexivity|]. simpl.
    rewrite (mpoly_against_R pi pi' below below' Hi Hb).
    rewrite (IH (below ++ [pi]) (below' ++ [pi'])); [|apply Forall2_app; [exact Hb | f2]].
    destruct Hi; reflexivity.
  Qed.
End Translate3.


(* ------------------------------------------------------------------ integer translation of raw ordinates *)
Definition tr_ord (d : Z) (o : ord) : ord := match o with OFin z => OFin (z + d) | x => x end.
Definition tr_oxy (dx dy : Z) (p : oxy) : oxy := (tr_ord dx (fst p), tr_ord dy (snd p)).
Fixpoint tr_geom (dx dy : Z) (g : vgeom) : vgeom :=
  match g with
  | VPoint p => VPoint (option_map (tr_oxy dx dy) p)
  | VLine vs => VLine (map (tr_oxy dx dy) vs)
  | VPoly rs => VPoly (map (map (tr_oxy dx dy)) rs)
  | VMPoint ps => VMPoint (map (option_map (tr_oxy dx dy)) ps)
  | VMLine ls => VMLine (map (map (tr_oxy dx dy)) ls)
  | VMPoly ps => VMPoly (map (map (map (tr_oxy dx dy))) ps)
  | VColl gs => VColl (map (tr_geom dx dy) gs)
  end.

(* nested induction principle for vgeom *)
Section VInd.
  Variable P : vgeom -> Prop.
  Hypothesis Hpt : forall p, P (VPoint p).
  Hypothesis Hln : forall l, P (VLine l).
  Hypothesis Hpl : forall p, P (VPoly p).
  Hypothesis Hmp : forall ps, P (VMPoint ps).
  Hypothesis Hml : forall ls, P (VMLine ls).
  Hypothesis Hmy : forall ps, P (VMPoly ps).
  Hypothesis Hgc : forall gs, Forall P gs -> P (VColl gs).
  Fixpoint vgeom_ind' (g : vgeom) : P g :=
    match g with
    | VPoint p => Hpt p
    | VLine l => Hln l
    | VPoly p => Hpl p
    | VMPoint ps => Hmp ps
    | VMLine ls => Hml ls
    | VMPoly ps => Hmy ps
    | VColl gs =>
        Hgc gs ((fix go (l : list vgeom) : Forall P l :=
                   match l with
                   | [] => Forall_nil P
                   | x :: r => Forall_cons x (vgeom_ind' x) (go r)
                   end) gs)
    end.
End VInd.

Section TranslateOrd.
  Variables dx dy : Z.
  Let v : pt := (inject_Z dx, inject_Z dy).
  Notation tr := (tr_oxy dx dy).

  Lemma xy_validate_tr p : xy_validate (tr p) = xy_validate p.
  Proof. destruct p as [[x| | | ] [y| | | ]]; reflexivity. Qed.
  Lemma seq_validate_tr vs : seq_validate (map tr vs) = seq_validate vs.
  Proof. induction vs as [|a r IH]; [reflexivity|]. simpl. rewrite xy_validate_tr, IH. reflexivity. Qed.
  Lemma nonfinite_rule_tr vs : nonfinite_rule (map tr vs) = nonfinite_rule vs.
  Proof. unfold nonfinite_rule. rewrite seq_validate_tr. reflexivity. Qed.

  Lemma oxy_pt_tr p : Ropt (R v) (oxy_pt p) (oxy_pt (tr p)).
  Proof.
    destruct p as [[x| | | ] [y| | | ]]; try constructor.
    unfold R, pt_eq, pt_add, v; cbn [fst snd]. rewrite !inject_Z_plus. split; reflexivity.
  Qed.
  Lemma fin_pts_tr vs : Ropt (Rl v) (fin_pts vs) (fin_pts (map tr vs)).
  Proof.
    induction vs as [|a r IH]; [constructor; constructor|]. simpl.
    destruct (oxy_pt_tr a) as [|p p' Hp]; [constructor|].
    destruct IH as [|ps ps' Hps]; constructor. constructor; assumption.
  Qed.

  Lemma ls_validate_tr vs : ls_validate (map tr vs) = ls_validate vs.
  Proof.
    destruct vs as [|a r]; [reflexivity|]. unfold ls_validate.
    change (map tr (a :: r)) with (tr a :: map tr r).
    pose proof (fin_pts_tr (a :: r)) as H. change (map tr (a :: r)) with (tr a :: map tr r) in H.
    destruct H as [|ps ps' Hps].
    - rewrite <- (nonfinite_rule_tr (a :: r)). reflexivity.
    - rewrite (has_2_distinct_R v ps ps' Hps). reflexivity.
  Qed.

  Lemma ring_check_tr r : Rres (Rl v) (ring_check r) (ring_check (map tr r)).
  Proof.
    destruct r as [|a t]; [constructor|]. unfold ring_check.
    change (map tr (a :: t)) with (tr a :: map tr t).
    pose proof (fin_pts_tr (a :: t)) as H. change (map tr (a :: t)) with (tr a :: map tr t) in H.
    destruct H as [|ps ps' Hps].
    - rewrite <- (nonfinite_rule_tr (a :: t)). constructor.
    - rewrite (ring_geom_validate_R v ps ps' Hps). destruct (ring_geom_validate ps); constructor. exact Hps.
  Qed.
  Lemma rings_check_tr rs : Rres (Forall2 (Rl v)) (rings_check rs) (rings_check (map (map tr) rs)).
  Proof.
    induction rs as [|r t IH]; [constructor; constructor|]. simpl.
    destruct (ring_check_tr r) as [e|ps ps' Hps]; [constructor|].
    destruct IH as [e|pss pss' Hpss]; constructor. constructor; assumption.
  Qed.

  Section WithNested.
    Variable nested : list pt -> list pt -> option bool.
    Hypothesis nested_R : forall ri rj ri' rj', Rl v ri ri' -> Rl v rj rj' -> nested ri' rj' = nested ri rj.

    Lemma poly_validate_tr rs : poly_validate_with nested (map (map tr) rs) = poly_validate_with nested rs.
    Proof.
      destruct rs as [|r t]; [reflexivity|]. unfold poly_validate_with.
      change (map (map tr) (r :: t)) with (map tr r :: map (map tr) t).
      pose proof (rings_check_tr (r :: t)) as H. change (map (map tr) (r :: t)) with (map tr r :: map (map tr) t) in H.
      destruct H as [e|rings rings' Hr]; [reflexivity|].
      apply (poly_geom_validate_R v nested nested_R). exact Hr.
    Qed.

    Lemma polys_check_tr ps : Rres (Rpolys v) (polys_check nested ps) (polys_check nested (map (map (map tr)) ps)).
    Proof.
      induction ps as [|p t IH]; [constructor; constructor|].
      destruct p as [|r rt].
      - simpl. destruct IH as [e|l l' Hl]; constructor. constructor; [constructor | exact Hl].
      - change (map (map (map tr)) ((r :: rt) :: t)) with ((map tr r :: map (map tr) rt) :: map (map (map tr)) t).
        cbn [polys_check].
        pose proof (rings_check_tr (r :: rt)) as H. change (map (map tr) (r :: rt)) with (map tr r :: map (map tr) rt) in H.
        destruct H as [e|rings rings' Hr]; [constructor|].
        rewrite (poly_geom_validate_R v nested nested_R rings rings' Hr).
        destruct (poly_geom_validate nested rings); [constructor|].
        destruct IH as [e|l l' Hl]; constructor. constructor; assumption.
    Qed.

    Lemma mpoly_validate_tr ps : mpoly_validate_with nested (map (map (map tr)) ps) = mpoly_validate_with nested ps.
    Proof.
      unfold mpoly_validate_with. destruct (polys_check_tr ps) as [e|l l' Hl]; [reflexivity|].
      apply (mpoly_constraints_R v l l' Hl [] []). constructor.
    Qed.

    Lemma point_validate_tr p : point_validate (option_map tr p) = point_validate p.
    Proof. destruct p; [apply xy_validate_tr | reflexivity]. Qed.

    Lemma first_err_map {A} (f : A -> verdict) (h : A -> A) l : (forall x, f (h x) = f x) -> first_err f (map h l) = first_err f l.
    Proof. intros H. induction l as [|a r IH]; [reflexivity|]. simpl. rewrite H, IH. reflexivity. Qed.

    Lemma validate_with_tr g : validate_with nested (tr_geom dx dy g) = validate_with nested g.
    Proof.
      induction g as [p|vs|rs|ps|ls|ps|gs IH] using vgeom_ind'; simpl.
      - apply point_validate_tr.
      - apply ls_validate_tr.
      - apply poly_validate_tr.
      - apply first_err_map. apply point_validate_tr.
      - apply first_err_map. apply ls_validate_tr.
      - apply mpoly_validate_tr.
      - induction IH as [|x r Hx Hr IH2]; [reflexivity|]. simpl. rewrite Hx, IH2. reflexivity.
    Qed.
  End WithNested.
End TranslateOrd.

Theorem validate_translation_invariant_lemma dx dy g : validate (tr_geom dx dy g) = validate g.
Proof. apply validate_with_tr. intros; eapply nested_v1_R; eassumption. Qed.
Theorem validate_v0_translation_invariant_lemma dx dy g : validate_v0 (tr_geom dx dy g) = validate_v0 g.
Proof. apply validate_with_tr. intros; eapply nested_v0_R; eassumption. Qed.

Lemma Rl_translate v ps : Rl v ps (map (fun p => pt_add p v) ps).
Proof. induction ps as [|a r IH]; simpl; [apply Forall2_nil | apply Forall2_cons; [unfold R; reflexivity | exact IH]]. Qed.
Theorem ring_checks_translation_invariant_lemma v ps :
  let ps' := map (fun p => pt_add p v) ps in
  is_closed ps' = is_closed ps /\ is_simple ps' = is_simple ps /\ is_ring ps' = is_ring ps.
Proof.
  cbv zeta. pose proof (Rl_translate v ps) as H.
  split; [apply (is_closed_R v); exact H|]. split; [apply (is_simple_R v); exact H | apply (is_ring_R v); exact H].
Qed.
