(* The converse direction of the WKB codec (properties C04 and C08): everything the decoder of
   Model/WKB.v accepts - from ANY byte string, foreign byte orders and mixed member types
   included - is a well-formed value (wf_wkb: every node carries one coordinates type, unused Z/M
   are zero, ordinates are 64-bit patterns, counts fit a uint32, a full point has non-NaN X and Y),
   hence it re-encodes canonically and that encoding decodes to the same value.
   Technique: a postcondition predicate over parser computations ([sat Q m]: on success the result
   satisfies Q and the unread input still consists of bytes), closed under bind; the constructors
   new_polygon/new_multi*/new_collection force their members, and forcing always yields a
   consistent node and preserves the ranges. *)
From Coq Require Import NArith List Bool Lia ZArith.
From Coq Require Import ZifyN ZifyNat ZifyBool.
From SF Require Import Base.Outcome Base.Bytes Base.GeomAST Model.WKB Proofs.WKB_proofs.
Import ListNotations.
Local Open Scope N_scope.

Notation is0 := (N.eqb 0) (only parsing).

(* ------------------------------------------------------------------ list helpers *)
Lemma forallb_map_all {A B} (p : B -> bool) (h : A -> B) l :
  (forall x, p (h x) = true) -> forallb p (map h l) = true.
Proof. intros H. induction l; cbn [map forallb]; [reflexivity|]. rewrite H, IHl. reflexivity. Qed.

Lemma forallb_map_impl {A B} (p : A -> bool) (q : B -> bool) (h : A -> B) l :
  (forall x, p x = true -> q (h x) = true) -> forallb p l = true -> forallb q (map h l) = true.
Proof.
  intros H. induction l as [|x l IH]; cbn [map forallb]; [reflexivity|].
  intros E. apply andb_prop in E. destruct E as [E1 E2]. rewrite (H _ E1), (IH E2). reflexivity.
Qed.

Lemma count_ok_map {A B} (h : A -> B) (l : list A) : count_ok (map h l) = count_ok l.
Proof. unfold count_ok. rewrite map_length. reflexivity. Qed.

(* ------------------------------------------------------------------ forcing *)
(* ForceCoordinatesType always produces a node that is consistent at the new type ... *)
Lemma force_vtx_ok old new (v : vtx N) : vtx_ok is0 new (force_vtx 0 old new v) = true.
Proof. unfold vtx_ok, force_vtx. cbn [vz vm]. destruct (has_z new), (has_m new); reflexivity. Qed.

Lemma force_point_ok ct (p : pointT N) : point_ok is0 ct (force_point 0 ct p) = true.
Proof.
  destruct p as [c [v|]]; cbn [force_point point_ok]; rewrite ct_eqb_refl; [|reflexivity].
  apply force_vtx_ok.
Qed.

Lemma force_line_ok ct (l : lineT N) : line_ok is0 ct (force_line 0 ct l) = true.
Proof.
  destruct l as [c vs]; cbn [force_line line_ok]. rewrite ct_eqb_refl. cbn [andb].
  apply forallb_map_all. intros v. apply force_vtx_ok.
Qed.

Lemma force_poly_ok ct (p : polyT N) : poly_ok is0 ct (force_poly 0 ct p) = true.
Proof.
  destruct p as [c rs]; cbn [force_poly poly_ok]. rewrite ct_eqb_refl. cbn [andb].
  apply forallb_map_all. intros l. apply force_line_ok.
Qed.

Lemma force_geom_ok ct (g : geom) : geom_ok is0 ct (force_geom 0 ct g) = true.
Proof.
  induction g as [p|l|p|c ps|c ls|c ps|c gs IH] using geomT_ind'; cbn [force_geom geom_ok].
  - apply force_point_ok.
  - apply force_line_ok.
  - apply force_poly_ok.
  - rewrite ct_eqb_refl. apply forallb_map_all. intros; apply force_point_ok.
  - rewrite ct_eqb_refl. apply forallb_map_all. intros; apply force_line_ok.
  - rewrite ct_eqb_refl. apply forallb_map_all. intros; apply force_poly_ok.
  - rewrite ct_eqb_refl. cbn [andb]. induction IH as [|x r Hx Hr IHr]; cbn [map forallb]; [reflexivity|].
    rewrite Hx, IHr. reflexivity.
Qed.

(* ... and keeps ordinates, counts and the NaN rule *)
Lemma force_vtx_bits old new (v : vtx N) : vtx_bits_ok v = true -> vtx_bits_ok (force_vtx 0 old new v) = true.
Proof.
  unfold vtx_bits_ok, force_vtx. cbn [vx vy vz vm]. intros H.
  apply andb_prop in H; destruct H as [H Hm]. apply andb_prop in H; destruct H as [H Hz].
  rewrite H. cbn [andb].
  destruct (has_z new), (has_z old), (has_m new), (has_m old); rewrite ?Hz, ?Hm; reflexivity.
Qed.

Lemma force_point_wf ct (p : pointT N) : point_wf p = true -> point_wf (force_point 0 ct p) = true.
Proof.
  destruct p as [c [v|]]; cbn [force_point]; unfold point_wf; cbn [point_c]; [|reflexivity].
  intros H. apply andb_prop in H; destruct H as [H Hy]. apply andb_prop in H; destruct H as [Hb Hx].
  rewrite (force_vtx_bits _ _ _ Hb). unfold force_vtx; cbn [vx vy]. rewrite Hx, Hy. reflexivity.
Qed.

Lemma force_line_wf ct (l : lineT N) : line_wf l = true -> line_wf (force_line 0 ct l) = true.
Proof.
  destruct l as [c vs]; unfold line_wf; cbn [force_line line_vs]. intros H.
  apply andb_prop in H; destruct H as [Hc Hv]. rewrite count_ok_map, Hc. cbn [andb].
  eapply forallb_map_impl; [|exact Hv]. intros v. apply force_vtx_bits.
Qed.

Lemma force_poly_wf ct (p : polyT N) : poly_wf p = true -> poly_wf (force_poly 0 ct p) = true.
Proof.
  destruct p as [c rs]; unfold poly_wf; cbn [force_poly poly_rings]. intros H.
  apply andb_prop in H; destruct H as [Hc Hv]. rewrite count_ok_map, Hc. cbn [andb].
  eapply forallb_map_impl; [|exact Hv]. intros l. apply force_line_wf.
Qed.

Lemma force_geom_wf ct (g : geom) : geom_wf g = true -> geom_wf (force_geom 0 ct g) = true.
Proof.
  induction g as [p|l|p|c ps|c ls|c ps|c gs IH] using geomT_ind'; cbn [force_geom geom_wf]; intros H.
  - apply force_point_wf; exact H.
  - apply force_line_wf; exact H.
  - apply force_poly_wf; exact H.
  - apply andb_prop in H; destruct H as [Hc Hv]. rewrite count_ok_map, Hc.
    eapply forallb_map_impl; [|exact Hv]. intros; apply force_point_wf; assumption.
  - apply andb_prop in H; destruct H as [Hc Hv]. rewrite count_ok_map, Hc.
    eapply forallb_map_impl; [|exact Hv]. intros; apply force_line_wf; assumption.
  - apply andb_prop in H; destruct H as [Hc Hv]. rewrite count_ok_map, Hc.
    eapply forallb_map_impl; [|exact Hv]. intros; apply force_poly_wf; assumption.
  - apply andb_prop in H; destruct H as [Hc Hv]. rewrite count_ok_map, Hc. cbn [andb].
    clear Hc. induction IH as [|x r Hx Hr IHr]; cbn [map forallb] in *; [reflexivity|].
    apply andb_prop in Hv; destruct Hv as [H1 H2]. rewrite (Hx H1), (IHr H2). reflexivity.
Qed.

(* ------------------------------------------------------------------ the constructors *)
Lemma new_polygon_wf (rs : list (lineT N)) :
  count_ok rs = true -> forallb line_wf rs = true ->
  poly_wf (new_polygon 0 rs) = true /\ poly_ok is0 (poly_ct (new_polygon 0 rs)) (new_polygon 0 rs) = true.
Proof.
  intros Hc Hv. unfold new_polygon. set (ct := match rs with [] => XY | _ => and_all line_ct rs end).
  cbn [poly_ct]. split.
  - unfold poly_wf; cbn [poly_rings]. rewrite count_ok_map, Hc. cbn [andb].
    eapply forallb_map_impl; [|exact Hv]. intros; apply force_line_wf; assumption.
  - cbn [poly_ok]. rewrite ct_eqb_refl. apply forallb_map_all. intros; apply force_line_ok.
Qed.

Definition wfg (g : geom) : Prop := geom_wf g = true /\ consistent is0 g = true.

Lemma new_multipoint_wf ps :
  count_ok ps = true -> forallb point_wf ps = true -> wfg (new_multipoint 0 ps).
Proof.
  intros Hc Hv. unfold new_multipoint. destruct ps as [|p r]; [split; reflexivity|].
  set (l := p :: r) in *. set (ct := and_all point_ct l). split.
  - cbn [geom_wf]. rewrite count_ok_map, Hc.
    eapply forallb_map_impl; [|exact Hv]. intros; apply force_point_wf; assumption.
  - unfold consistent. cbn [geom_ct geom_ok]. rewrite ct_eqb_refl.
    apply forallb_map_all. intros; apply force_point_ok.
Qed.

Lemma new_multiline_wf ls :
  count_ok ls = true -> forallb line_wf ls = true -> wfg (new_multiline 0 ls).
Proof.
  intros Hc Hv. unfold new_multiline. destruct ls as [|p r]; [split; reflexivity|].
  set (l := p :: r) in *. set (ct := and_all line_ct l). split.
  - cbn [geom_wf]. rewrite count_ok_map, Hc.
    eapply forallb_map_impl; [|exact Hv]. intros; apply force_line_wf; assumption.
  - unfold consistent. cbn [geom_ct geom_ok]. rewrite ct_eqb_refl.
    apply forallb_map_all. intros; apply force_line_ok.
Qed.

Lemma new_multipoly_wf ps :
  count_ok ps = true -> forallb poly_wf ps = true -> wfg (new_multipoly 0 ps).
Proof.
  intros Hc Hv. unfold new_multipoly. destruct ps as [|p r]; [split; reflexivity|].
  set (l := p :: r) in *. set (ct := and_all poly_ct l). split.
  - cbn [geom_wf]. rewrite count_ok_map, Hc.
    eapply forallb_map_impl; [|exact Hv]. intros; apply force_poly_wf; assumption.
  - unfold consistent. cbn [geom_ct geom_ok]. rewrite ct_eqb_refl.
    apply forallb_map_all. intros; apply force_poly_ok.
Qed.

Lemma new_collection_wf gs :
  count_ok gs = true -> forallb geom_wf gs = true -> wfg (new_collection 0 gs).
Proof.
  intros Hc Hv. unfold new_collection. destruct gs as [|p r]; [split; reflexivity|].
  set (l := p :: r) in *. set (ct := and_all geom_ct l). split.
  - cbn [geom_wf]. rewrite count_ok_map, Hc.
    eapply forallb_map_impl; [|exact Hv]. intros; apply force_geom_wf; assumption.
  - unfold consistent. cbn [geom_ct geom_ok]. rewrite ct_eqb_refl.
    apply forallb_map_all. intros; apply force_geom_ok.
Qed.

(* ------------------------------------------------------------------ postconditions *)
(* from a state whose unread input consists of bytes: on success the result satisfies Q and the
   unread input still consists of bytes *)
Definition sat {A} (Q : A -> Prop) (m : P A) : Prop := forall s,
  bytes_ok (fst s) -> match m s with POk a s' => Q a /\ bytes_ok (fst s') | _ => True end.

Lemma sat_ret {A} (Q : A -> Prop) a : Q a -> sat Q (pret a).
Proof. intros H s Hs. unfold pret. auto. Qed.
Lemma sat_fail {A} (Q : A -> Prop) e : sat Q (pfail e).
Proof. intros s Hs. exact I. Qed.
Lemma sat_bind {A B} (Q1 : A -> Prop) (Q2 : B -> Prop) (m : P A) (f : A -> P B) :
  sat Q1 m -> (forall a, Q1 a -> sat Q2 (f a)) -> sat Q2 (pbind m f).
Proof.
  intros H1 H2 s Hs. unfold pbind. specialize (H1 s Hs). destruct (m s) as [a s'|e al|p al]; auto.
  destruct H1 as [Ha Hs']. apply (H2 a Ha s' Hs').
Qed.
Lemma sat_weaken {A} (Q1 Q2 : A -> Prop) (m : P A) : (forall a, Q1 a -> Q2 a) -> sat Q1 m -> sat Q2 m.
Proof.
  intros H H1 s Hs. specialize (H1 s Hs). destruct (m s); auto. destruct H1; auto.
Qed.

Lemma get_bound e h : bytes_ok h -> get e h < 256 ^ N.of_nat (length h).
Proof.
  intros H. destruct e; unfold get, rd_be.
  - rewrite <- rev_length. apply rd_le_bound. apply Forall_rev. exact H.
  - apply rd_le_bound. exact H.
Qed.

Lemma sat_rd_u k e : sat (fun n => n < 256 ^ N.of_nat k) (rd_u k e).
Proof.
  intros s Hs. unfold rd_u. destruct (take k (fst s)) as [[h t]|] eqn:E; auto.
  apply take_spec in E. destruct E as [E L]. cbn [fst]. unfold bytes_ok in *.
  rewrite E in Hs. apply Forall_app in Hs. destruct Hs as [Hh Ht]. split; [|exact Ht].
  rewrite <- L. apply get_bound. exact Hh.
Qed.

Lemma sat_rd_byte : sat (fun _ => True) rd_byte.
Proof.
  intros s Hs. unfold rd_byte. destruct (fst s) as [|b r] eqn:E; auto. cbn [fst].
  split; auto. inversion Hs; assumption.
Qed.

Lemma sat_rd_header : sat (fun _ => True) rd_header.
Proof.
  unfold rd_header.
  eapply sat_bind; [apply sat_rd_byte|intros b _].
  eapply sat_bind with (Q1 := fun _ => True).
  { destruct (b =? 0); [apply sat_ret; exact I|]. destruct (b =? 1); [apply sat_ret; exact I|apply sat_fail]. }
  intros e _. eapply sat_bind; [apply (sat_rd_u 4 e)|intros code _].
  eapply sat_bind with (Q1 := fun _ => True).
  { generalize (code mod 1000). intros c. destruct c as [|p]; [apply sat_fail|].
    do 3 (try (destruct p as [p|p|])); first [apply sat_ret; exact I | apply sat_fail]. }
  intros t _. eapply sat_bind with (Q1 := fun _ => True).
  { destruct (ct_of_code (code / 1000)); [apply sat_ret; exact I|apply sat_fail]. }
  intros ct _. apply sat_ret. exact I.
Qed.

Definition vtx_good (ct : ctype) (v : vtx N) : Prop :=
  vtx_bits_ok v = true /\ vtx_ok is0 ct v = true.

Lemma two64_eq : 256 ^ N.of_nat 8 = two64. Proof. reflexivity. Qed.
Lemma two32_eq : 256 ^ N.of_nat 4 = two32. Proof. reflexivity. Qed.

Lemma sat_rd_vtx e ct : sat (vtx_good ct) (rd_vtx e ct).
Proof.
  unfold rd_vtx.
  eapply sat_bind; [apply (sat_rd_u 8 e)|intros x Hx].
  eapply sat_bind; [apply (sat_rd_u 8 e)|intros y Hy].
  eapply sat_bind with (Q1 := fun z => z < two64 /\ (has_z ct = false -> z = 0)).
  { destruct (has_z ct).
    - eapply sat_weaken; [|apply (sat_rd_u 8 e)]. intros z Hz. rewrite two64_eq in Hz. split; [exact Hz|discriminate].
    - apply sat_ret. split; [reflexivity|reflexivity]. }
  intros z [Hz Hz0].
  eapply sat_bind with (Q1 := fun m => m < two64 /\ (has_m ct = false -> m = 0)).
  { destruct (has_m ct).
    - eapply sat_weaken; [|apply (sat_rd_u 8 e)]. intros m Hm. rewrite two64_eq in Hm. split; [exact Hm|discriminate].
    - apply sat_ret. split; [reflexivity|reflexivity]. }
  intros m [Hm Hm0]. apply sat_ret. rewrite two64_eq in Hx, Hy. split.
  - unfold vtx_bits_ok. cbn [vx vy vz vm].
    apply N.ltb_lt in Hx, Hy, Hz, Hm. rewrite Hx, Hy, Hz, Hm. reflexivity.
  - unfold vtx_ok. cbn [vz vm].
    destruct (has_z ct); [|rewrite (Hz0 eq_refl)]; (destruct (has_m ct); [|rewrite (Hm0 eq_refl)]); reflexivity.
Qed.

Lemma sat_rd_point e ct :
  sat (fun p => point_wf p = true /\ point_ok is0 ct p = true) (rd_point e ct).
Proof.
  unfold rd_point. eapply sat_bind; [apply sat_rd_vtx|intros v [Hb Hok]].
  destruct (is_nan (vx v)) eqn:Nx, (is_nan (vy v)) eqn:Ny; cbn [andb orb].
  - apply sat_ret. split; [reflexivity|]. cbn [point_ok]. rewrite ct_eqb_refl. reflexivity.
  - apply sat_fail.
  - apply sat_fail.
  - apply sat_ret. split.
    + unfold point_wf; cbn [point_c]. rewrite Hb, Nx, Ny. reflexivity.
    + cbn [point_ok]. rewrite ct_eqb_refl, Hok. reflexivity.
Qed.

Lemma sat_rd_vtxs e ct : forall n,
  sat (fun vs => length vs = n /\ forallb vtx_bits_ok vs = true /\ forallb (vtx_ok is0 ct) vs = true)
      (rd_vtxs n e ct).
Proof.
  induction n as [|n IH]; cbn [rd_vtxs].
  - apply sat_ret. auto.
  - eapply sat_bind; [apply sat_rd_vtx|intros v [Hb Hok]].
    eapply sat_bind; [exact IH|intros vs (L & Hbs & Hoks)].
    apply sat_ret. cbn [length forallb]. rewrite L, Hb, Hok, Hbs, Hoks. auto.
Qed.

Definition line_good (ct : ctype) (l : lineT N) : Prop :=
  line_wf l = true /\ line_ok is0 ct l = true.

Lemma sat_rd_seq e ct : sat (line_good ct) (rd_seq e ct).
Proof.
  unfold rd_seq. eapply sat_bind; [apply (sat_rd_u 4 e)|intros n Hn]. rewrite two32_eq in Hn.
  intros s Hs. unfold pbind at 1. unfold remaining at 1.
  destruct (_ <? _); [exact I|].
  revert s Hs. change (sat (line_good ct)
    (doP _ <- palloc (8 * (n * N.of_nat (dim ct)) + match e with BE => 8 * (n * N.of_nat (dim ct)) | LE => 0 end);
     doP vs <- rd_vtxs (N.to_nat n) e ct; pret (MkLine ct vs))).
  eapply sat_bind with (Q1 := fun _ => True).
  { intros s Hs. unfold palloc. cbn [fst]. auto. }
  intros _ _. eapply sat_bind; [apply sat_rd_vtxs|intros vs (L & Hb & Hok)].
  apply sat_ret. split.
  - unfold line_wf, count_ok; cbn [line_vs]. rewrite L, N2Nat.id.
    apply N.ltb_lt in Hn. rewrite Hn, Hb. reflexivity.
  - cbn [line_ok]. rewrite ct_eqb_refl, Hok. reflexivity.
Qed.

(* count-controlled loops: n successful iterations, every element satisfies the step's Q *)
Lemma sat_loopN {A} (Q : A -> Prop) (step : P A) : sat Q step ->
  forall fuel n acc, Forall Q acc ->
  sat (fun l => Forall Q l /\ N.of_nat (length l) = n + N.of_nat (length acc)) (loopN fuel n step acc).
Proof.
  intros Hstep. induction fuel as [|f IH]; intros n acc Hacc; cbn [loopN].
  - destruct (N.eqb_spec n 0) as [->|Hn]; [|apply sat_fail].
    apply sat_ret. split; [apply Forall_rev; exact Hacc|rewrite rev_length; lia].
  - destruct (N.eqb_spec n 0) as [->|Hn].
    + apply sat_ret. split; [apply Forall_rev; exact Hacc|rewrite rev_length; lia].
    + eapply sat_bind; [exact Hstep|intros a Ha].
      eapply sat_weaken; [|apply (IH (n - 1) (a :: acc)); constructor; assumption].
      intros l [Hl Hlen]. split; [exact Hl|]. cbn [length] in Hlen. lia.
Qed.

Lemma sat_loop {A} (Q : A -> Prop) (step : P A) n : sat Q step ->
  sat (fun l => Forall Q l /\ N.of_nat (length l) = n) (loop n step).
Proof.
  intros Hstep s Hs. unfold loop, pbind, remaining.
  pose proof (sat_loopN Q step Hstep (S (length (fst s))) n [] (Forall_nil _) s Hs) as H.
  destruct (loopN _ _ _ _ s); auto. destruct H as [[Hl Hlen] Hb]. cbn [length] in Hlen.
  split; [split; [exact Hl|lia]|exact Hb].
Qed.

Lemma Forall_forallb {A} (f : A -> bool) l : Forall (fun x => f x = true) l -> forallb f l = true.
Proof. apply forallb_Forall. Qed.

Lemma sat_rd_poly e ct :
  sat (fun p => poly_wf p = true /\ poly_ok is0 (poly_ct p) p = true) (rd_poly e ct).
Proof.
  unfold rd_poly. eapply sat_bind; [apply (sat_rd_u 4 e)|intros n Hn]. rewrite two32_eq in Hn.
  destruct (n =? 0).
  { apply sat_ret. split; [reflexivity|]. cbn [poly_ct poly_ok]. rewrite ct_eqb_refl. reflexivity. }
  eapply sat_bind; [apply (sat_loop (line_good ct)); apply sat_rd_seq|intros rs [Hrs Hlen]].
  apply sat_ret. apply new_polygon_wf.
  - unfold count_ok. rewrite Hlen. apply N.ltb_lt. exact Hn.
  - apply Forall_forallb. eapply Forall_impl; [|exact Hrs]. intros l [H _]. exact H.
Qed.

(* ------------------------------------------------------------------ the recursion *)
Lemma sat_member_point (inner : P geom) :
  sat wfg inner -> sat (fun p => point_wf p = true) (member inner as_point).
Proof.
  intros Hi. unfold member. eapply sat_bind; [exact Hi|intros g [Hwf _]].
  intros s Hs. destruct g; cbn [as_point plift geom_wf] in *; auto.
Qed.
Lemma sat_member_line (inner : P geom) :
  sat wfg inner -> sat (fun l => line_wf l = true) (member inner as_line).
Proof.
  intros Hi. unfold member. eapply sat_bind; [exact Hi|intros g [Hwf _]].
  intros s Hs. destruct g; cbn [as_line plift geom_wf] in *; auto.
Qed.
Lemma sat_member_poly (inner : P geom) :
  sat wfg inner -> sat (fun p => poly_wf p = true) (member inner as_poly).
Proof.
  intros Hi. unfold member. eapply sat_bind; [exact Hi|intros g [Hwf _]].
  intros s Hs. destruct g; cbn [as_poly plift geom_wf] in *; auto.
Qed.

Lemma sat_rd_geom : forall fuel, sat wfg (rd_geom fuel).
Proof.
  induction fuel as [|f IH]; cbn [rd_geom]; [apply sat_fail|].
  eapply sat_bind; [apply sat_rd_header|intros [[e t] ct] _].
  destruct t.
  - (* collection *)
    eapply sat_bind; [apply (sat_rd_u 4 e)|intros n Hn]. rewrite two32_eq in Hn.
    destruct (n =? 0).
    { apply sat_ret. split; [reflexivity|]. unfold consistent. cbn [geom_ct geom_ok].
      rewrite ct_eqb_refl. reflexivity. }
    eapply sat_bind.
    { apply (sat_loop wfg).
      eapply sat_bind; [exact IH|intros g Hg].
      destruct (ct_eqb (geom_ct g) ct); [apply sat_ret; exact Hg|apply sat_fail]. }
    intros gs [Hgs Hlen]. apply sat_ret. apply new_collection_wf.
    + unfold count_ok. rewrite Hlen. apply N.ltb_lt. exact Hn.
    + apply Forall_forallb. eapply Forall_impl; [|exact Hgs]. intros g [H _]. exact H.
  - eapply sat_bind; [apply sat_rd_point|intros p [Hwf Hok]]. apply sat_ret. split; [exact Hwf|].
    unfold consistent. cbn [geom_ct geom_ok]. destruct (force_point_id ct p Hok) as [_ ->]. exact Hok.
  - eapply sat_bind; [apply sat_rd_seq|intros l [Hwf Hok]]. apply sat_ret. split; [exact Hwf|].
    unfold consistent. cbn [geom_ct geom_ok]. destruct (force_line_id ct l Hok) as [_ ->]. exact Hok.
  - eapply sat_bind; [apply sat_rd_poly|intros p [Hwf Hok]]. apply sat_ret. split; [exact Hwf|exact Hok].
  - eapply sat_bind; [apply (sat_rd_u 4 e)|intros n Hn]. rewrite two32_eq in Hn.
    destruct (n =? 0).
    { apply sat_ret. split; [reflexivity|]. unfold consistent. cbn [geom_ct geom_ok].
      rewrite ct_eqb_refl. reflexivity. }
    eapply sat_bind; [apply (sat_loop (fun p => point_wf p = true)); apply sat_member_point; exact IH|].
    intros ps [Hps Hlen]. apply sat_ret. apply new_multipoint_wf.
    + unfold count_ok. rewrite Hlen. apply N.ltb_lt. exact Hn.
    + apply Forall_forallb. exact Hps.
  - eapply sat_bind; [apply (sat_rd_u 4 e)|intros n Hn]. rewrite two32_eq in Hn.
    destruct (n =? 0).
    { apply sat_ret. split; [reflexivity|]. unfold consistent. cbn [geom_ct geom_ok].
      rewrite ct_eqb_refl. reflexivity. }
    eapply sat_bind; [apply (sat_loop (fun l => line_wf l = true)); apply sat_member_line; exact IH|].
    intros ls [Hls Hlen]. apply sat_ret. apply new_multiline_wf.
    + unfold count_ok. rewrite Hlen. apply N.ltb_lt. exact Hn.
    + apply Forall_forallb. exact Hls.
  - eapply sat_bind; [apply (sat_rd_u 4 e)|intros n Hn]. rewrite two32_eq in Hn.
    destruct (n =? 0).
    { apply sat_ret. split; [reflexivity|]. unfold consistent. cbn [geom_ct geom_ok].
      rewrite ct_eqb_refl. reflexivity. }
    eapply sat_bind; [apply (sat_loop (fun p => poly_wf p = true)); apply sat_member_poly; exact IH|].
    intros ps [Hps Hlen]. apply sat_ret. apply new_multipoly_wf.
    + unfold count_ok. rewrite Hlen. apply N.ltb_lt. exact Hn.
    + apply Forall_forallb. exact Hps.
Qed.

(* ------------------------------------------------------------------ the statements *)
(* everything the decoder accepts is a well-formed value; the unread rest still consists of bytes *)
Lemma wkb_dec_wf_lemma : forall bs g r,
  bytes_ok bs -> dec bs = Ok (g, r) -> wf_wkb g = true /\ bytes_ok r.
Proof.
  intros bs g r Hbs E. unfold dec, dec_full in E.
  pose proof (sat_rd_geom (S (length bs)) (bs, 0) Hbs) as H.
  destruct (rd_geom (S (length bs)) (bs, 0)) as [g' s'|e a|p a]; try discriminate.
  inversion E; subst. destruct H as [[Hwf Hc] Hr]. split; [|exact Hr].
  unfold wf_wkb. rewrite Hc, Hwf. reflexivity.
Qed.

(* decode . encode . decode = decode: the canonical (little-endian) re-encoding of any accepted
   document - foreign byte orders and mixed member coordinate types included - decodes to the
   same value, whatever follows it; and so does every other byte-order choice *)
Lemma wkb_dec_enc_dec_lemma : forall bs g r,
  bytes_ok bs -> dec bs = Ok (g, r) ->
  forall bo r', dec (enc_bo bo g ++ r') = Ok (g, r').
Proof.
  intros bs g r Hbs E bo r'. apply wkb_roundtrip_lemma.
  exact (proj1 (wkb_dec_wf_lemma bs g r Hbs E)).
Qed.

(* decoded values are determined by their canonical encodings *)
Lemma wkb_canonical_lemma : forall bs bs' g g' r r',
  bytes_ok bs -> bytes_ok bs' -> dec bs = Ok (g, r) -> dec bs' = Ok (g', r') ->
  (enc g = enc g' <-> g = g').
Proof.
  intros bs bs' g g' r r' Hb Hb' E E'. split; [|intros ->; reflexivity]. intros Henc.
  pose proof (proj1 (wkb_dec_wf_lemma _ _ _ Hb E)) as Hg.
  pose proof (proj1 (wkb_dec_wf_lemma _ _ _ Hb' E')) as Hg'.
  destruct (wkb_injective_lemma (fun _ => LE) (fun _ => LE) g g' [] [] Hg Hg') as [H _]; [|exact H].
  unfold enc in Henc. rewrite Henc. reflexivity.
Qed.

(* re-encoding is idempotent on accepted documents: enc (dec (enc (dec bs))) = enc (dec bs) *)
Lemma wkb_reencode_fixpoint_lemma : forall bs g r,
  bytes_ok bs -> dec bs = Ok (g, r) -> dec (enc g) = Ok (g, []).
Proof.
  intros bs g r Hbs E. rewrite <- (app_nil_r (enc g)).
  exact (wkb_dec_enc_dec_lemma bs g r Hbs E (fun _ => LE) []).
Qed.
