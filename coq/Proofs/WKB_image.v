(* The WKB decoder accepts nothing but encodings: whenever [dec bs] succeeds on a string of bytes,
   the consumed prefix of bs is EXACTLY [enc_bo bo g'] for some per-element byte-order choice bo
   and some raw document tree g' (the nodes as written: declared coordinate types, members of any
   coordinate type, NaN/NaN points spelled with whatever payload), and the value returned is the
   normalisation of g' by the constructors (NaN/NaN point -> empty point, NewPolygon,
   NewMultiPoint, ... AND the member types and force the members).
   Technique: a postcondition over parser computations that also describes the consumed bytes
   ([satU R m]), closed under bind; per-member byte-order oracles are joined into one oracle on
   paths ([join]), and [enc_at] only looks at the oracle below the current path ([enc_at_ext]). *)
From Coq Require Import NArith List Bool Lia ZArith.
From Coq Require Import ZifyN ZifyNat ZifyBool.
From SF Require Import Base.Outcome Base.Bytes Base.GeomAST Model.WKB Proofs.WKB_proofs Proofs.WKB_converse.
Import ListNotations.
Local Open Scope N_scope.

(* ------------------------------------------------------------------ normalisation *)
Definition norm_point (p : pointT N) : pointT N :=
  match p with
  | MkPoint ct (Some v) => if is_nan (vx v) && is_nan (vy v) then MkPoint ct None else p
  | _ => p
  end.
Definition norm_poly (p : polyT N) : polyT N :=
  let 'MkPoly ct rs := p in match rs with [] => MkPoly ct [] | _ :: _ => new_polygon 0 rs end.
(* what wkbParser makes of a document tree *)
Fixpoint normalise (g : geom) : geom :=
  match g with
  | GPoint p => GPoint (norm_point p)
  | GLine l => GLine l
  | GPoly p => GPoly (norm_poly p)
  | GMPoint ct ps => match ps with [] => GMPoint ct [] | _ :: _ => new_multipoint 0 (map norm_point ps) end
  | GMLine ct ls => match ls with [] => GMLine ct [] | _ :: _ => new_multiline 0 ls end
  | GMPoly ct ps => match ps with [] => GMPoly ct [] | _ :: _ => new_multipoly 0 (map norm_poly ps) end
  | GColl ct gs => match gs with [] => GColl ct [] | _ :: _ => new_collection 0 (map normalise gs) end
  end.

Lemma normalise_type g : geom_type (normalise g) = geom_type g.
Proof.
  destruct g as [p|l|p|ct ps|ct ls|ct ps|ct gs]; cbn [normalise geom_type]; try reflexivity;
    match goal with |- context [match ?l with [] => _ | _ :: _ => _ end] => destruct l end; reflexivity.
Qed.

Lemma normalise_point_inv g p : normalise g = GPoint p -> exists p', g = GPoint p' /\ p = norm_point p'.
Proof.
  intros E. pose proof (normalise_type g) as T. rewrite E in T.
  destruct g; cbn [geom_type] in T; try discriminate. cbn [normalise] in E. inversion E. eauto.
Qed.
Lemma normalise_line_inv g l : normalise g = GLine l -> g = GLine l.
Proof.
  intros E. pose proof (normalise_type g) as T. rewrite E in T.
  destruct g; cbn [geom_type] in T; try discriminate. cbn [normalise] in E. exact E.
Qed.
Lemma normalise_poly_inv g p : normalise g = GPoly p -> exists p', g = GPoly p' /\ p = norm_poly p'.
Proof.
  intros E. pose proof (normalise_type g) as T. rewrite E in T.
  destruct g; cbn [geom_type] in T; try discriminate. cbn [normalise] in E. inversion E. eauto.
Qed.

(* ------------------------------------------------------------------ byte-order oracles *)
Definition oracle := list nat -> endian.
Definition odflt : oracle := fun _ => LE.
(* the oracle of a node from its own byte order and the oracles of its members *)
Definition join (e : endian) (bos : list oracle) : oracle :=
  fun p => match rev p with [] => e | i :: a => nth i bos odflt (rev a) end.

Lemma join_nil e bos : join e bos [] = e.
Proof. reflexivity. Qed.
Lemma join_member e bos i q : join e bos (q ++ [i]) = nth i bos odflt q.
Proof. unfold join. rewrite rev_app_distr. cbn [rev app]. rewrite rev_involutive. reflexivity. Qed.

Lemma enc_members_ext {A} (f : endian -> A -> list N) bo1 bo2 p1 p2 :
  (forall i, bo1 (i :: p1) = bo2 (i :: p2)) ->
  forall l i, enc_members bo1 f p1 i l = enc_members bo2 f p2 i l.
Proof.
  intros H. induction l as [|x r IH]; intros i; cbn [enc_members]; [reflexivity|].
  rewrite H, IH. reflexivity.
Qed.

(* enc_at looks at the oracle only at and below the current path *)
Lemma enc_at_ext : forall g bo1 bo2 p1 p2,
  (forall q, bo1 (q ++ p1) = bo2 (q ++ p2)) -> enc_at bo1 p1 g = enc_at bo2 p2 g.
Proof.
  induction g as [p|l|p|ct ps|ct ls|ct ps|ct gs IH] using geomT_ind'; intros bo1 bo2 p1 p2 H;
    cbn [enc_at]; pose proof (H []) as H0; cbn [app] in H0; rewrite H0; try reflexivity.
  - f_equal. f_equal. apply enc_members_ext. intros i. apply (H [i]).
  - f_equal. f_equal. apply enc_members_ext. intros i. apply (H [i]).
  - f_equal. f_equal. apply enc_members_ext. intros i. apply (H [i]).
  - f_equal. f_equal. generalize 0%nat.
    induction IH as [|x r Hx Hr IHr]; intros i; [reflexivity|].
    rewrite IHr. f_equal. apply Hx. intros q.
    replace (q ++ i :: p1) with ((q ++ [i]) ++ p1) by (rewrite <- app_assoc; reflexivity).
    replace (q ++ i :: p2) with ((q ++ [i]) ++ p2) by (rewrite <- app_assoc; reflexivity).
    apply H.
Qed.

(* members written under a joined oracle: member k uses the k-th oracle *)
Lemma enc_members_join {A} (f : endian -> A -> list N) e : forall (items : list (oracle * A)) pre,
  enc_members (join e (pre ++ map fst items)) f [] (length pre) (map snd items) =
  concat (map (fun it => f (fst it []) (snd it)) items).
Proof.
  induction items as [|[b x] r IH]; intros pre; cbn [map enc_members concat fst snd]; [reflexivity|].
  f_equal.
  - change [length pre] with ([] ++ [length pre]). rewrite join_member.
    rewrite app_nth2 by lia. rewrite Nat.sub_diag. reflexivity.
  - specialize (IH (pre ++ [b])). rewrite <- app_assoc in IH. cbn [app] in IH.
    rewrite app_length in IH. cbn [length] in IH. rewrite Nat.add_1_r in IH. exact IH.
Qed.

Lemma enc_coll_join e : forall (items : list (oracle * geom)) pre,
  (fix go (i : nat) (l : list geom) {struct l} : list N :=
     match l with
     | [] => []
     | x :: r => enc_at (join e (pre ++ map fst items)) [i] x ++ go (S i) r
     end) (length pre) (map snd items) =
  concat (map (fun it => enc_at (fst it) [] (snd it)) items).
Proof.
  induction items as [|[b x] r IH]; intros pre; cbn [map concat fst snd]; [reflexivity|].
  f_equal.
  - apply enc_at_ext. intros q. rewrite join_member, app_nil_r.
    rewrite app_nth2 by lia. rewrite Nat.sub_diag. reflexivity.
  - specialize (IH (pre ++ [b])). rewrite <- app_assoc in IH. cbn [app] in IH.
    rewrite app_length in IH. cbn [length] in IH. rewrite Nat.add_1_r in IH. exact IH.
Qed.

(* ------------------------------------------------------------------ postconditions with bytes *)
Definition satU {A} (R : A -> list N -> Prop) (m : P A) : Prop := forall s,
  bytes_ok (fst s) ->
  match m s with
  | POk a s' => exists used, fst s = used ++ fst s' /\ R a used /\ bytes_ok (fst s')
  | _ => True
  end.

Lemma satU_ret {A} (R : A -> list N -> Prop) a : R a [] -> satU R (pret a).
Proof. intros H s Hs. unfold pret. exists []. auto. Qed.
Lemma satU_fail {A} (R : A -> list N -> Prop) e : satU R (pfail e).
Proof. intros s Hs. exact I. Qed.
Lemma satU_bind {A B} (R1 : A -> list N -> Prop) (R2 : B -> list N -> Prop) (m : P A) (f : A -> P B) :
  satU R1 m -> (forall a u1, R1 a u1 -> satU (fun b u2 => R2 b (u1 ++ u2)) (f a)) -> satU R2 (pbind m f).
Proof.
  intros H1 H2 s Hs. unfold pbind. specialize (H1 s Hs). destruct (m s) as [a s'|e al|p al]; auto.
  destruct H1 as [u1 (E1 & Ha & Hs')]. specialize (H2 a u1 Ha s' Hs').
  destruct (f a s') as [b s''|e al|p al]; auto.
  destruct H2 as [u2 (E2 & Hb & Hs'')]. exists (u1 ++ u2). rewrite E1, E2, app_assoc. auto.
Qed.
Lemma satU_weaken {A} (R1 R2 : A -> list N -> Prop) (m : P A) :
  (forall a u, R1 a u -> R2 a u) -> satU R1 m -> satU R2 m.
Proof.
  intros H H1 s Hs. specialize (H1 s Hs). destruct (m s); auto.
  destruct H1 as [u (E & Ha & Hs')]. exists u. auto.
Qed.
Lemma satU_remaining {A} (R : A -> list N -> Prop) (f : nat -> P A) :
  (forall len, satU R (f len)) -> satU R (pbind remaining f).
Proof. intros H s Hs. unfold pbind, remaining. apply (H _ s Hs). Qed.
Lemma satU_palloc k : satU (fun _ u => u = []) (palloc k).
Proof. intros s Hs. unfold palloc. exists []. cbn [fst]. auto. Qed.

Lemma satU_rd_u k e : satU (fun n u => u = put e k n) (rd_u k e).
Proof.
  intros s Hs. unfold rd_u. destruct (take k (fst s)) as [[h t]|] eqn:E; auto.
  apply take_spec in E. destruct E as [E L]. cbn [fst]. unfold bytes_ok in *.
  rewrite E in Hs. apply Forall_app in Hs. destruct Hs as [Hh Ht].
  exists h. split; [exact E|]. split; [|exact Ht]. rewrite <- L. symmetry. apply put_get. exact Hh.
Qed.

Lemma satU_rd_byte : satU (fun b u => u = [b]) rd_byte.
Proof.
  intros s Hs. unfold rd_byte. destruct (fst s) as [|b r] eqn:E; auto. cbn [fst].
  exists [b]. split; [reflexivity|]. split; [reflexivity|]. inversion Hs; assumption.
Qed.

Lemma satU_rd_header : satU (fun h u => let '(e, t, ct) := h in u = header e t ct) rd_header.
Proof.
  unfold rd_header.
  eapply satU_bind; [apply satU_rd_byte|intros b u0 ->].
  eapply satU_bind with (R1 := fun e u => u = [] /\ b = bo_byte e).
  { destruct (N.eqb_spec b 0) as [->|]; [apply satU_ret; split; reflexivity|].
    destruct (N.eqb_spec b 1) as [->|]; [apply satU_ret; split; reflexivity|apply satU_fail]. }
  intros e u1 [-> Hb].
  eapply satU_bind; [apply (satU_rd_u 4 e)|intros code u2 ->].
  eapply satU_bind with (R1 := fun t u => u = [] /\ code mod 1000 = gcode t).
  { generalize (code mod 1000). intros c. destruct c as [|p]; [apply satU_fail|].
    do 3 (try (destruct p as [p|p|])); first [apply satU_fail | apply satU_ret; split; reflexivity]. }
  intros t u3 [-> Ht].
  eapply satU_bind with (R1 := fun ct u => u = [] /\ code / 1000 = ct_code ct).
  { generalize (code / 1000). intros c. destruct c as [|p]; [apply satU_ret; split; reflexivity|].
    do 2 (try (destruct p as [p|p|])); first [apply satU_fail | apply satU_ret; split; reflexivity]. }
  intros ct u4 [-> Hct]. apply satU_ret.
  rewrite !app_nil_r. unfold header. cbn [app]. rewrite Hb. f_equal. f_equal.
  rewrite <- Hct, <- Ht. lia.
Qed.

Lemma satU_rd_vtx e ct : satU (fun v u => u = enc_floats e (vtx_floats ct v)) (rd_vtx e ct).
Proof.
  unfold rd_vtx.
  eapply satU_bind; [apply (satU_rd_u 8 e)|intros x u1 ->].
  eapply satU_bind; [apply (satU_rd_u 8 e)|intros y u2 ->].
  eapply satU_bind with (R1 := fun z u => u = if has_z ct then put e 8 z else []).
  { destruct (has_z ct); [apply satU_rd_u|apply satU_ret; reflexivity]. }
  intros z u3 ->.
  eapply satU_bind with (R1 := fun m u => u = if has_m ct then put e 8 m else []).
  { destruct (has_m ct); [apply satU_rd_u|apply satU_ret; reflexivity]. }
  intros m u4 ->. apply satU_ret.
  unfold enc_floats, vtx_floats. cbn [vx vy vz vm].
  destruct ct; cbn [has_z has_m flat_map app]; rewrite ?app_nil_r; reflexivity.
Qed.

Lemma satU_rd_point e ct :
  satU (fun p u => exists v, u = enc_floats e (vtx_floats ct v) /\ p = norm_point (MkPoint ct (Some v)))
       (rd_point e ct).
Proof.
  unfold rd_point. eapply satU_bind; [apply satU_rd_vtx|intros v u1 ->].
  destruct (is_nan (vx v)) eqn:Nx, (is_nan (vy v)) eqn:Ny; cbn [andb orb];
    try apply satU_fail; apply satU_ret; exists v; rewrite app_nil_r; (split; [reflexivity|]);
    cbn [norm_point]; rewrite Nx, Ny; reflexivity.
Qed.

Lemma satU_rd_vtxs e ct : forall n,
  satU (fun vs u => u = enc_floats e (flat_map (vtx_floats ct) vs) /\ length vs = n) (rd_vtxs n e ct).
Proof.
  induction n as [|n IH]; cbn [rd_vtxs].
  - apply satU_ret. split; reflexivity.
  - eapply satU_bind; [apply satU_rd_vtx|intros v u1 ->].
    eapply satU_bind; [exact IH|intros vs u2 [-> L]].
    apply satU_ret. cbn [flat_map length]. rewrite enc_floats_app, app_nil_r, L. split; reflexivity.
Qed.

Definition seq_rel (e : endian) (ct : ctype) (l : lineT N) (u : list N) : Prop :=
  line_ct l = ct /\ u = enc_seq e l.

Lemma satU_rd_seq e ct : satU (seq_rel e ct) (rd_seq e ct).
Proof.
  unfold rd_seq. eapply satU_bind; [apply (satU_rd_u 4 e)|intros n u1 ->].
  apply satU_remaining. intros len. destruct (_ <? _); [apply satU_fail|].
  eapply satU_bind; [apply satU_palloc|intros _ u2 ->].
  eapply satU_bind; [apply satU_rd_vtxs|intros vs u3 [-> L]].
  apply satU_ret. split; [reflexivity|]. cbn [enc_seq]. rewrite L, N2Nat.id, !app_nil_r. reflexivity.
Qed.

(* loops: the members in order, each with the bytes it consumed *)
Lemma satU_loopN {A} (Rm : A -> list N -> Prop) (step : P A) : satU Rm step ->
  forall fuel n acc,
  satU (fun l u => exists new us, l = rev acc ++ new /\ Forall2 Rm new us /\ u = concat us /\
                                  N.of_nat (length new) = n)
       (loopN fuel n step acc).
Proof.
  intros Hstep. induction fuel as [|f IH]; intros n acc; cbn [loopN].
  - destruct (N.eqb_spec n 0) as [->|Hn]; [|apply satU_fail].
    apply satU_ret. exists [], []. rewrite app_nil_r. repeat split; constructor.
  - destruct (N.eqb_spec n 0) as [->|Hn].
    + apply satU_ret. exists [], []. rewrite app_nil_r. repeat split; constructor.
    + eapply satU_bind; [exact Hstep|intros a u1 Ha].
      eapply satU_weaken; [|apply (IH (n - 1) (a :: acc))].
      intros l u (new & us & El & HF & Eu & Hlen). exists (a :: new), (u1 :: us).
      cbn [rev] in El. rewrite <- app_assoc in El. cbn [app] in El.
      split; [exact El|]. split; [constructor; assumption|].
      split; [cbn [concat]; rewrite Eu; reflexivity|]. cbn [length]. lia.
Qed.

Lemma satU_loop {A} (Rm : A -> list N -> Prop) (step : P A) n : satU Rm step ->
  satU (fun l u => exists us, Forall2 Rm l us /\ u = concat us /\ N.of_nat (length l) = n) (loop n step).
Proof.
  intros Hstep. unfold loop. apply satU_remaining. intros len.
  eapply satU_weaken; [|apply (satU_loopN Rm step Hstep (S len) n [])].
  intros l u (new & us & El & HF & Eu & Hlen). cbn [rev app] in El. subst l. exists us. auto.
Qed.

(* a list of members, each described by an oracle and a raw member *)
Lemma Forall2_items {A X} (F : oracle -> X -> list N) (G : X -> A) (l : list A) (us : list (list N)) :
  Forall2 (fun a u => exists b x, u = F b x /\ a = G x) l us ->
  exists items : list (oracle * X),
    l = map (fun it => G (snd it)) items /\ us = map (fun it => F (fst it) (snd it)) items.
Proof.
  induction 1 as [|a u l us (b & x & Eu & Ea) HF (items & El & Eus)].
  - exists []. split; reflexivity.
  - exists ((b, x) :: items). cbn [map fst snd]. subst. split; reflexivity.
Qed.

Lemma concat_seq e ct (rs : list (lineT N)) us :
  Forall2 (seq_rel e ct) rs us -> concat us = flat_map (enc_seq e) rs /\ Forall (fun l => line_ct l = ct) rs.
Proof.
  induction 1 as [|l u rs us [Hc Hu] HF [IH1 IH2]]; [split; [reflexivity|constructor]|].
  cbn [concat flat_map]. rewrite IH1, Hu. split; [reflexivity|constructor; assumption].
Qed.

Definition poly_rel (e : endian) (ct : ctype) (p : polyT N) (u : list N) : Prop :=
  exists p', poly_ct p' = ct /\
             u = put e 4 (N.of_nat (length (poly_rings p'))) ++ flat_map (enc_seq e) (poly_rings p') /\
             p = norm_poly p'.

Lemma satU_rd_poly e ct : satU (poly_rel e ct) (rd_poly e ct).
Proof.
  unfold rd_poly. eapply satU_bind; [apply (satU_rd_u 4 e)|intros n u1 ->].
  destruct (N.eqb_spec n 0) as [->|Hn].
  { apply satU_ret. exists (MkPoly ct []). cbn [poly_ct poly_rings length flat_map norm_poly].
    rewrite !app_nil_r. repeat split. }
  eapply satU_bind; [apply (satU_loop (seq_rel e ct)); apply satU_rd_seq|].
  intros rs u2 (us & HF & -> & Hlen). apply satU_ret.
  destruct (concat_seq e ct rs us HF) as [Ec _].
  exists (MkPoly ct rs). cbn [poly_ct poly_rings]. rewrite app_nil_r, Hlen, Ec.
  split; [reflexivity|]. split; [reflexivity|].
  cbn [norm_poly]. destruct rs; [cbn [length] in Hlen; lia|reflexivity].
Qed.

(* ------------------------------------------------------------------ the recursion *)
Definition geom_rel (g : geom) (u : list N) : Prop :=
  exists (bo : oracle) (g' : geom), u = enc_at bo [] g' /\ g = normalise g'.

Lemma satU_member_point (inner : P geom) :
  satU geom_rel inner ->
  satU (fun p u => exists (b : oracle) x, u = enc_point (b []) x /\ p = norm_point x) (member inner as_point).
Proof.
  intros Hi. unfold member. eapply satU_bind; [exact Hi|intros g u1 (bo & g' & -> & Eg)].
  destruct g as [p|l|p|c ps|c ls|c ps|c gs]; cbn [as_point plift];
    try (intros s Hs; exact I).
  symmetry in Eg. apply normalise_point_inv in Eg. destruct Eg as (p' & -> & ->).
  intros s Hs. exists []. rewrite app_nil_r. split; [reflexivity|]. split; [|exact Hs].
  exists bo, p'. split; reflexivity.
Qed.
Lemma satU_member_line (inner : P geom) :
  satU geom_rel inner ->
  satU (fun l u => exists (b : oracle) x, u = enc_line (b []) x /\ l = x) (member inner as_line).
Proof.
  intros Hi. unfold member. eapply satU_bind; [exact Hi|intros g u1 (bo & g' & -> & Eg)].
  destruct g as [p|l|p|c ps|c ls|c ps|c gs]; cbn [as_line plift];
    try (intros s Hs; exact I).
  symmetry in Eg. apply normalise_line_inv in Eg. subst g'.
  intros s Hs. exists []. rewrite app_nil_r. split; [reflexivity|]. split; [|exact Hs].
  exists bo, l. split; reflexivity.
Qed.
Lemma satU_member_poly (inner : P geom) :
  satU geom_rel inner ->
  satU (fun p u => exists (b : oracle) x, u = enc_poly (b []) x /\ p = norm_poly x) (member inner as_poly).
Proof.
  intros Hi. unfold member. eapply satU_bind; [exact Hi|intros g u1 (bo & g' & -> & Eg)].
  destruct g as [p|l|p|c ps|c ls|c ps|c gs]; cbn [as_poly plift];
    try (intros s Hs; exact I).
  symmetry in Eg. apply normalise_poly_inv in Eg. destruct Eg as (p' & -> & ->).
  intros s Hs. exists []. rewrite app_nil_r. split; [reflexivity|]. split; [|exact Hs].
  exists bo, p'. split; reflexivity.
Qed.

Lemma items_nonempty {X} (items : list (oracle * X)) n :
  N.of_nat (length items) = n -> n <> 0 -> exists it r, items = it :: r.
Proof. destruct items as [|it r]; cbn [length]; intros H Hn; [lia|eauto]. Qed.

Lemma satU_rd_geom : forall fuel, satU geom_rel (rd_geom fuel).
Proof.
  induction fuel as [|f IH]; cbn [rd_geom]; [apply satU_fail|].
  eapply satU_bind; [apply satU_rd_header|intros [[e t] ct] u0 ->].
  destruct t.
  - (* collection *)
    eapply satU_bind; [apply (satU_rd_u 4 e)|intros n u1 ->].
    destruct (N.eqb_spec n 0) as [->|Hn].
    { apply satU_ret. exists (fun _ => e), (GColl ct []). split; [cbn [enc_at length N.of_nat enc_members]; rewrite ?app_nil_r; reflexivity|reflexivity]. }
    eapply satU_bind.
    { apply (satU_loop (fun g u => exists b x, u = enc_at b [] x /\ g = normalise x)).
      eapply satU_bind; [exact IH|intros g u2 Hg].
      destruct (ct_eqb (geom_ct g) ct); [|apply satU_fail].
      apply satU_ret. rewrite app_nil_r. exact Hg. }
    intros gs u2 (us & HF & -> & Hlen). apply satU_ret. rewrite app_nil_r.
    destruct (Forall2_items (fun b x => enc_at b [] x) normalise gs us HF) as (items & -> & ->).
    rewrite map_length in Hlen.
    exists (join e (map fst items)), (GColl ct (map snd items)). split.
    + cbn [enc_at]. rewrite join_nil, map_length, Hlen. f_equal. f_equal.
      exact (eq_sym (enc_coll_join e items [])).
    + cbn [normalise]. rewrite map_map.
      destruct (items_nonempty items n Hlen Hn) as (it & r & ->). reflexivity.
  - (* point *)
    eapply satU_bind; [apply satU_rd_point|intros p u1 (v & -> & ->)]. apply satU_ret.
    exists (fun _ => e), (GPoint (MkPoint ct (Some v))). rewrite app_nil_r. split; reflexivity.
  - (* line string *)
    eapply satU_bind; [apply satU_rd_seq|intros l u1 [Hc ->]]. apply satU_ret.
    exists (fun _ => e), (GLine l). rewrite app_nil_r. cbn [enc_at]. unfold enc_line. rewrite Hc.
    split; reflexivity.
  - (* polygon *)
    eapply satU_bind; [apply satU_rd_poly|intros p u1 (p' & Hc & -> & ->)]. apply satU_ret.
    exists (fun _ => e), (GPoly p'). rewrite app_nil_r. cbn [enc_at normalise].
    destruct p' as [c rs]. cbn [poly_ct poly_rings] in *. subst c. split; reflexivity.
  - (* multipoint *)
    eapply satU_bind; [apply (satU_rd_u 4 e)|intros n u1 ->].
    destruct (N.eqb_spec n 0) as [->|Hn].
    { apply satU_ret. exists (fun _ => e), (GMPoint ct []). split; [cbn [enc_at length N.of_nat enc_members]; rewrite ?app_nil_r; reflexivity|reflexivity]. }
    eapply satU_bind; [apply satU_loop; apply satU_member_point; exact IH|].
    intros ps u2 (us & HF & -> & Hlen). apply satU_ret. rewrite app_nil_r.
    destruct (Forall2_items (fun b x => enc_point (b []) x) norm_point ps us HF) as (items & -> & ->).
    rewrite map_length in Hlen.
    exists (join e (map fst items)), (GMPoint ct (map snd items)). split.
    + cbn [enc_at]. rewrite join_nil, map_length, Hlen. f_equal. f_equal.
      exact (eq_sym (enc_members_join enc_point e items [])).
    + cbn [normalise]. rewrite map_map.
      destruct (items_nonempty items n Hlen Hn) as (it & r & ->). reflexivity.
  - (* multilinestring *)
    eapply satU_bind; [apply (satU_rd_u 4 e)|intros n u1 ->].
    destruct (N.eqb_spec n 0) as [->|Hn].
    { apply satU_ret. exists (fun _ => e), (GMLine ct []). split; [cbn [enc_at length N.of_nat enc_members]; rewrite ?app_nil_r; reflexivity|reflexivity]. }
    eapply satU_bind; [apply satU_loop; apply satU_member_line; exact IH|].
    intros ls u2 (us & HF & -> & Hlen). apply satU_ret. rewrite app_nil_r.
    destruct (Forall2_items (fun b x => enc_line (b []) x) (fun x => x) ls us HF) as (items & -> & ->).
    rewrite map_length in Hlen.
    exists (join e (map fst items)), (GMLine ct (map snd items)). split.
    + cbn [enc_at]. rewrite join_nil, map_length, Hlen. f_equal. f_equal.
      exact (eq_sym (enc_members_join enc_line e items [])).
    + cbn [normalise].
      destruct (items_nonempty items n Hlen Hn) as (it & r & ->). reflexivity.
  - (* multipolygon *)
    eapply satU_bind; [apply (satU_rd_u 4 e)|intros n u1 ->].
    destruct (N.eqb_spec n 0) as [->|Hn].
    { apply satU_ret. exists (fun _ => e), (GMPoly ct []). split; [cbn [enc_at length N.of_nat enc_members]; rewrite ?app_nil_r; reflexivity|reflexivity]. }
    eapply satU_bind; [apply satU_loop; apply satU_member_poly; exact IH|].
    intros ps u2 (us & HF & -> & Hlen). apply satU_ret. rewrite app_nil_r.
    destruct (Forall2_items (fun b x => enc_poly (b []) x) norm_poly ps us HF) as (items & -> & ->).
    rewrite map_length in Hlen.
    exists (join e (map fst items)), (GMPoly ct (map snd items)). split.
    + cbn [enc_at]. rewrite join_nil, map_length, Hlen. f_equal. f_equal.
      exact (eq_sym (enc_members_join enc_poly e items [])).
    + cbn [normalise]. rewrite map_map.
      destruct (items_nonempty items n Hlen Hn) as (it & r & ->). reflexivity.
Qed.

(* ------------------------------------------------------------------ the statement *)
Lemma wkb_dec_is_some_encoding_lemma : forall bs g r,
  bytes_ok bs -> dec bs = Ok (g, r) ->
  exists (bo : list nat -> endian) (g' : geom), bs = enc_bo bo g' ++ r /\ g = normalise g'.
Proof.
  intros bs g r Hbs E. unfold dec, dec_full in E.
  pose proof (satU_rd_geom (S (length bs)) (bs, 0) Hbs) as H.
  destruct (rd_geom (S (length bs)) (bs, 0)) as [g0 s'|e a|p a]; try discriminate.
  inversion E; subst. destruct H as [u (Eu & (bo & g' & -> & Eg) & _)].
  exists bo, g'. cbn [fst] in Eu. split; [exact Eu|exact Eg].
Qed.
