(* Proofs about the WKB model: decode (encode g ++ rest) = (g, rest) for every per-element
   byte-order choice, re-encoding, and the linear bound on count-sized allocation. *)
From Coq Require Import NArith List Bool Lia ZArith.
From Coq Require Import ZifyN ZifyNat ZifyBool.
From SF Require Import Base.Outcome Base.Bytes Base.GeomAST Model.WKB.
Import ListNotations.
Local Open Scope N_scope.

Ltac Zify.zify_post_hook ::= Z.div_mod_to_equations.

(* [parses p bs x]: on any input that starts with bs the parser returns x, consumes exactly bs,
   and only increases the allocation counter. *)
Definition parses {A} (p : P A) (bs : list N) (x : A) : Prop :=
  forall r a, exists a', p (bs ++ r, a) = POk x (r, a').

Lemma parses_ret {A} (x : A) : parses (pret x) [] x.
Proof. intros r a. exists a. reflexivity. Qed.

Lemma parses_bind {A B} (p : P A) (f : A -> P B) b1 b2 x y :
  parses p b1 x -> parses (f x) b2 y -> parses (pbind p f) (b1 ++ b2) y.
Proof.
  intros H1 H2 r a. unfold pbind. rewrite <- app_assoc.
  destruct (H1 (b2 ++ r) a) as [a1 E1]. rewrite E1.
  destruct (H2 r a1) as [a2 E2]. exists a2. exact E2.
Qed.

Lemma parses_bind_nil {A B} (p : P A) (f : A -> P B) b x y :
  parses p [] x -> parses (f x) b y -> parses (pbind p f) b y.
Proof. intros H1 H2. change b with ([] ++ b). eapply parses_bind; eauto. Qed.

Lemma parses_rd_u k e n : n < 256 ^ N.of_nat k -> parses (rd_u k e) (put e k n) n.
Proof.
  intros H r a. exists a. unfold rd_u. cbn [fst snd].
  rewrite take_app by apply put_length. rewrite get_put by exact H. reflexivity.
Qed.

Lemma pow256_4 : 256 ^ N.of_nat 4 = 4294967296. Proof. reflexivity. Qed.
Lemma pow256_8 : 256 ^ N.of_nat 8 = 18446744073709551616. Proof. reflexivity. Qed.

Lemma parses_u32 e n : n < two32 -> parses (rd_u 4 e) (put e 4 n) n.
Proof. intros H. apply parses_rd_u. rewrite pow256_4. exact H. Qed.
Lemma parses_u64 e n : n < two64 -> parses (rd_u 8 e) (put e 8 n) n.
Proof. intros H. apply parses_rd_u. rewrite pow256_8. exact H. Qed.

Lemma parses_header e t ct : parses rd_header (header e t ct) (e, t, ct).
Proof.
  intros r a. exists a. destruct e, t, ct; reflexivity.
Qed.

(* ---- vertices ---- *)
Lemma vtx_ok_eta ct (v : vtx N) :
  vtx_ok (N.eqb 0) ct v = true ->
  Build_vtx (vx v) (vy v) (if has_z ct then vz v else 0) (if has_m ct then vm v else 0) = v.
Proof.
  unfold vtx_ok. destruct v as [x y z m]; cbn [vx vy vz vm].
  destruct (has_z ct), (has_m ct); cbn [orb andb]; intros H; f_equal; lia.
Qed.

Ltac pstep :=
  first
    [ eapply parses_bind; [apply parses_u64; assumption|]
    | eapply parses_bind_nil; [apply parses_ret|]
    | apply parses_ret ].

Lemma parses_vtx e ct v :
  vtx_bits_ok v = true -> vtx_ok (N.eqb 0) ct v = true ->
  parses (rd_vtx e ct) (enc_floats e (vtx_floats ct v)) v.
Proof.
  intros Hb Hok. unfold vtx_bits_ok in Hb.
  apply andb_prop in Hb; destruct Hb as [Hb Hm]. apply andb_prop in Hb; destruct Hb as [Hb Hz].
  apply andb_prop in Hb; destruct Hb as [Hx Hy].
  apply N.ltb_lt in Hx, Hy, Hz, Hm.
  rewrite <- (vtx_ok_eta ct v Hok). clear Hok.
  destruct v as [x y z m]; cbn [vx vy vz vm] in *.
  unfold rd_vtx, enc_floats, vtx_floats; cbn [vx vy vz vm].
  destruct ct; cbn [has_z has_m flat_map app]; repeat pstep.
Qed.

(* ---- generic facts ---- *)
Lemma enc_floats_app e a b : enc_floats e (a ++ b) = enc_floats e a ++ enc_floats e b.
Proof. unfold enc_floats. apply flat_map_app. Qed.

Lemma enc_floats_length e fs : length (enc_floats e fs) = (8 * length fs)%nat.
Proof.
  induction fs as [|f fs IH]; [reflexivity|].
  unfold enc_floats in *. cbn [flat_map]. rewrite app_length, put_length, IH. cbn [length]. lia.
Qed.

Lemma vtx_floats_length ct (v : vtx N) : length (vtx_floats ct v) = dim ct.
Proof. destruct ct; reflexivity. Qed.

Lemma flat_vtx_length ct (vs : list (vtx N)) :
  length (flat_map (vtx_floats ct) vs) = (dim ct * length vs)%nat.
Proof.
  induction vs as [|v vs IH]; cbn [flat_map length]; [lia|].
  rewrite app_length, vtx_floats_length, IH. lia.
Qed.

Lemma forallb_Forall {A} (f : A -> bool) l : forallb f l = true <-> Forall (fun x => f x = true) l.
Proof. rewrite forallb_forall, Forall_forall. reflexivity. Qed.

(* ---- points ---- *)
Lemma is_nan_go_nan : is_nan go_nan = true. Proof. reflexivity. Qed.
Lemma go_nan_lt : go_nan < two64. Proof. reflexivity. Qed.

Lemma parses_point e p :
  point_wf p = true -> point_ok (N.eqb 0) (point_ct p) p = true ->
  forall f, parses (rd_geom (S f)) (enc_point e p) (GPoint p).
Proof.
  intros Hwf Hok f; revert Hwf Hok. cbn [rd_geom].
  destruct p as [ct [v|]]; unfold point_wf, point_ok; cbn [point_c point_ct]; intros Hwf Hok.
  - apply andb_prop in Hwf; destruct Hwf as [Hwf Hny]. apply andb_prop in Hwf; destruct Hwf as [Hb Hnx].
    rewrite ct_eqb_refl in Hok. cbn [andb] in Hok.
    unfold enc_point.
    eapply parses_bind; [apply parses_header|]. cbn beta iota.
    rewrite <- (app_nil_r (enc_floats _ _)).
    eapply parses_bind; [|apply parses_ret].
    unfold rd_point. rewrite <- (app_nil_r (enc_floats _ _)).
    eapply parses_bind; [apply parses_vtx; assumption|].
    apply negb_true_iff in Hnx, Hny. rewrite Hnx, Hny. cbn [andb orb]. apply parses_ret.
  - unfold enc_point.
    eapply parses_bind; [apply parses_header|]. cbn beta iota.
    rewrite <- (app_nil_r (enc_floats _ _)).
    eapply parses_bind; [|apply parses_ret].
    unfold rd_point. rewrite <- (app_nil_r (enc_floats _ _)).
    assert (Hv : parses (rd_vtx e ct) (enc_floats e (repeat go_nan (dim ct)))
                   (Build_vtx go_nan go_nan (if has_z ct then go_nan else 0) (if has_m ct then go_nan else 0))).
    { pose proof go_nan_lt. unfold rd_vtx, enc_floats.
      destruct ct; cbn [has_z has_m dim repeat flat_map app]; repeat pstep. }
    eapply parses_bind; [exact Hv|]. cbn [vx vy]. rewrite is_nan_go_nan. cbn [andb]. apply parses_ret.
Qed.

(* ---- sequences ---- *)
Lemma parses_vtxs e ct vs :
  forallb vtx_bits_ok vs = true -> forallb (vtx_ok (N.eqb 0) ct) vs = true ->
  parses (rd_vtxs (length vs) e ct) (enc_floats e (flat_map (vtx_floats ct) vs)) vs.
Proof.
  induction vs as [|v vs IH]; cbn [forallb length rd_vtxs flat_map]; intros Hb Hok.
  - apply parses_ret.
  - apply andb_prop in Hb; destruct Hb as [Hb1 Hb2]. apply andb_prop in Hok; destruct Hok as [Ho1 Ho2].
    rewrite enc_floats_app.
    eapply parses_bind; [apply parses_vtx; assumption|].
    rewrite <- (app_nil_r (enc_floats e (flat_map _ vs))).
    eapply parses_bind; [apply IH; assumption|]. apply parses_ret.
Qed.

Lemma parses_seq e l :
  line_wf l = true -> line_ok (N.eqb 0) (line_ct l) l = true ->
  parses (rd_seq e (line_ct l)) (enc_seq e l) l.
Proof.
  destruct l as [ct vs]. unfold line_wf, line_ok; cbn [line_vs line_ct]. intros Hwf Hok.
  apply andb_prop in Hwf; destruct Hwf as [Hc Hb]. rewrite ct_eqb_refl in Hok; cbn [andb] in Hok.
  unfold count_ok in Hc. apply N.ltb_lt in Hc.
  intros r a. unfold rd_seq, enc_seq, pbind.
  rewrite <- app_assoc.
  destruct (parses_u32 e _ Hc (enc_floats e (flat_map (vtx_floats ct) vs) ++ r) a) as [a1 E1].
  rewrite E1. unfold remaining. cbn [fst snd].
  rewrite app_length, enc_floats_length, flat_vtx_length.
  match goal with |- context [N.ltb ?x ?y] => destruct (N.ltb_spec x y) as [Hlt|Hge] end.
  { exfalso. lia. }
  unfold palloc. cbn [fst snd]. rewrite Nat2N.id.
  destruct (parses_vtxs e ct vs Hb Hok r
              (a1 + (8 * (N.of_nat (length vs) * N.of_nat (dim ct)) +
                     match e with BE => 8 * (N.of_nat (length vs) * N.of_nat (dim ct)) | LE => 0 end)))
    as [a2 E2].
  rewrite E2. exists a2. reflexivity.
Qed.

(* ---- loops ---- *)
Lemma loopN_parses {A} (step : P A) (bss : list (list N)) (xs : list A) :
  Forall2 (parses step) bss xs ->
  forall fuel acc, (length xs <= fuel)%nat ->
  parses (loopN fuel (N.of_nat (length xs)) step acc) (concat bss) (rev acc ++ xs).
Proof.
  induction 1 as [|b x bss xs Hbx HF IH]; intros fuel acc Hfuel.
  - cbn [length concat]. destruct fuel; cbn [loopN N.of_nat N.eqb]; rewrite app_nil_r; apply parses_ret.
  - cbn [length] in *. destruct fuel as [|f]; [lia|].
    cbn [loopN concat].
    destruct (N.eqb_spec (N.of_nat (S (length xs))) 0) as [E|_]; [lia|].
    eapply parses_bind; [exact Hbx|].
    replace (N.of_nat (S (length xs)) - 1) with (N.of_nat (length xs)) by lia.
    replace (rev acc ++ x :: xs) with (rev (x :: acc) ++ xs) by (cbn [rev]; rewrite <- app_assoc; reflexivity).
    apply IH. lia.
Qed.

Lemma concat_length_ge (bss : list (list N)) :
  Forall (fun b => (1 <= length b)%nat) bss -> (length bss <= length (concat bss))%nat.
Proof.
  induction 1 as [|b bss Hb HF IH]; cbn [concat length]; [lia|]. rewrite app_length. lia.
Qed.

Lemma Forall2_len {A B} (R : A -> B -> Prop) l1 l2 : Forall2 R l1 l2 -> length l1 = length l2.
Proof. induction 1; cbn [length]; congruence. Qed.

Lemma loop_parses {A} (step : P A) (bss : list (list N)) (xs : list A) :
  Forall2 (parses step) bss xs ->
  Forall (fun b => (1 <= length b)%nat) bss ->
  parses (loop (N.of_nat (length xs)) step) (concat bss) xs.
Proof.
  intros HF Hne r a. unfold loop, pbind, remaining. cbn [fst].
  apply (loopN_parses step bss xs HF (S (length (concat bss ++ r))) []).
  rewrite app_length. pose proof (concat_length_ge bss Hne).
  rewrite <- (Forall2_len _ _ _ HF). lia.
Qed.

(* ---- constructors are the identity on consistent members ---- *)
Lemma fold_and_const {A} (f : A -> ctype) (l : list A) ct :
  Forall (fun x => f x = ct) l ->
  forall acc, fold_left (fun acc a => ct_and acc (f a)) l acc =
              match l with [] => acc | _ => ct_and acc ct end.
Proof.
  induction 1 as [|x l Hx HF IH]; intros acc; [reflexivity|].
  cbn [fold_left]. rewrite Hx, IH. destruct l; [reflexivity|].
  rewrite <- ct_and_assoc, ct_and_idem. reflexivity.
Qed.

Lemma and_all_const {A} (f : A -> ctype) (l : list A) ct :
  l <> [] -> Forall (fun x => f x = ct) l -> and_all f l = ct.
Proof.
  intros Hne HF. unfold and_all. rewrite (fold_and_const f l ct HF).
  destruct l; [congruence|]. apply ct_and_xyzm_l.
Qed.

Lemma force_vtx_id ct (v : vtx N) : vtx_ok (N.eqb 0) ct v = true -> force_vtx 0 ct ct v = v.
Proof.
  unfold vtx_ok, force_vtx. destruct v as [x y z m]; cbn [vx vy vz vm].
  destruct (has_z ct), (has_m ct); cbn [orb andb]; intros H; f_equal; lia.
Qed.

Lemma map_id_on {A} (f : A -> A) l : Forall (fun x => f x = x) l -> map f l = l.
Proof. induction 1 as [|x l Hx HF IH]; cbn [map]; congruence. Qed.

Lemma force_point_id ct p : point_ok (N.eqb 0) ct p = true -> force_point 0 ct p = p /\ point_ct p = ct.
Proof.
  destruct p as [c [v|]]; unfold point_ok; intros H; apply andb_prop in H; destruct H as [Hc Hv];
    apply ct_eqb_eq in Hc; subst c; cbn [force_point point_ct]; split; try reflexivity.
  rewrite force_vtx_id by exact Hv. reflexivity.
Qed.

Lemma force_line_id ct l : line_ok (N.eqb 0) ct l = true -> force_line 0 ct l = l /\ line_ct l = ct.
Proof.
  destruct l as [c vs]; unfold line_ok; intros H; apply andb_prop in H; destruct H as [Hc Hv].
  apply ct_eqb_eq in Hc; subst c. cbn [force_line line_ct]. split; [|reflexivity].
  f_equal. apply map_id_on. apply forallb_Forall in Hv.
  eapply Forall_impl; [|exact Hv]. intros v. apply force_vtx_id.
Qed.

Lemma force_lines_id ct ls :
  forallb (line_ok (N.eqb 0) ct) ls = true ->
  map (force_line 0 ct) ls = ls /\ Forall (fun l => line_ct l = ct) ls.
Proof.
  intros H. apply forallb_Forall in H. split.
  - apply map_id_on. eapply Forall_impl; [|exact H]. intros l Hl. apply (force_line_id ct l Hl).
  - eapply Forall_impl; [|exact H]. intros l Hl. apply (force_line_id ct l Hl).
Qed.

Lemma force_poly_id ct p : poly_ok (N.eqb 0) ct p = true -> force_poly 0 ct p = p /\ poly_ct p = ct.
Proof.
  destruct p as [c rs]; unfold poly_ok; intros H; apply andb_prop in H; destruct H as [Hc Hv].
  apply ct_eqb_eq in Hc; subst c. cbn [force_poly poly_ct]. split; [|reflexivity].
  f_equal. apply (force_lines_id ct rs Hv).
Qed.

Lemma new_polygon_id ct rs :
  rs <> [] -> forallb (line_ok (N.eqb 0) ct) rs = true -> new_polygon 0 rs = MkPoly ct rs.
Proof.
  intros Hne H. destruct (force_lines_id ct rs H) as [Hm Hc]. unfold new_polygon.
  destruct rs as [|r rs']; [congruence|].
  rewrite (and_all_const line_ct (r :: rs') ct Hne Hc). rewrite Hm. reflexivity.
Qed.

Lemma new_multipoint_id ct ps :
  ps <> [] -> forallb (point_ok (N.eqb 0) ct) ps = true -> new_multipoint 0 ps = GMPoint ct ps.
Proof.
  intros Hne H. apply forallb_Forall in H. unfold new_multipoint.
  destruct ps as [|p ps']; [congruence|].
  rewrite (and_all_const point_ct (p :: ps') ct Hne).
  - f_equal. apply map_id_on. eapply Forall_impl; [|exact H]. intros q Hq. apply (force_point_id ct q Hq).
  - eapply Forall_impl; [|exact H]. intros q Hq. apply (force_point_id ct q Hq).
Qed.

Lemma new_multiline_id ct ls :
  ls <> [] -> forallb (line_ok (N.eqb 0) ct) ls = true -> new_multiline 0 ls = GMLine ct ls.
Proof.
  intros Hne H. destruct (force_lines_id ct ls H) as [Hm Hc]. unfold new_multiline.
  destruct ls as [|l ls']; [congruence|].
  rewrite (and_all_const line_ct (l :: ls') ct Hne Hc). rewrite Hm. reflexivity.
Qed.

Lemma new_multipoly_id ct ps :
  ps <> [] -> forallb (poly_ok (N.eqb 0) ct) ps = true -> new_multipoly 0 ps = GMPoly ct ps.
Proof.
  intros Hne H. apply forallb_Forall in H. unfold new_multipoly.
  destruct ps as [|p ps']; [congruence|].
  rewrite (and_all_const poly_ct (p :: ps') ct Hne).
  - f_equal. apply map_id_on. eapply Forall_impl; [|exact H]. intros q Hq. apply (force_poly_id ct q Hq).
  - eapply Forall_impl; [|exact H]. intros q Hq. apply (force_poly_id ct q Hq).
Qed.

Lemma force_geom_id ct g : geom_ok (N.eqb 0) ct g = true -> force_geom 0 ct g = g /\ geom_ct g = ct.
Proof.
  induction g as [p|l|p|c ps|c ls|c ps|c gs IH] using geomT_ind'; cbn [geom_ok force_geom geom_ct]; intros H.
  - destruct (force_point_id ct p H) as [-> ->]. auto.
  - destruct (force_line_id ct l H) as [-> ->]. auto.
  - destruct (force_poly_id ct p H) as [-> ->]. auto.
  - apply andb_prop in H; destruct H as [Hc H]. apply ct_eqb_eq in Hc; subst c. split; [|reflexivity].
    f_equal. apply map_id_on. apply forallb_Forall in H. eapply Forall_impl; [|exact H].
    intros q Hq. apply (force_point_id ct q Hq).
  - apply andb_prop in H; destruct H as [Hc H]. apply ct_eqb_eq in Hc; subst c. split; [|reflexivity].
    f_equal. apply (force_lines_id ct ls H).
  - apply andb_prop in H; destruct H as [Hc H]. apply ct_eqb_eq in Hc; subst c. split; [|reflexivity].
    f_equal. apply map_id_on. apply forallb_Forall in H. eapply Forall_impl; [|exact H].
    intros q Hq. apply (force_poly_id ct q Hq).
  - apply andb_prop in H; destruct H as [Hc H]. apply ct_eqb_eq in Hc; subst c. split; [|reflexivity].
    f_equal. apply map_id_on. apply forallb_Forall in H.
    rewrite Forall_forall in *. intros x Hx. apply (IH x Hx). apply H. exact Hx.
Qed.

Lemma new_collection_id ct gs :
  gs <> [] -> forallb (geom_ok (N.eqb 0) ct) gs = true -> new_collection 0 gs = GColl ct gs.
Proof.
  intros Hne H. apply forallb_Forall in H. unfold new_collection.
  destruct gs as [|g gs']; [congruence|].
  rewrite (and_all_const geom_ct (g :: gs') ct Hne).
  - f_equal. apply map_id_on. eapply Forall_impl; [|exact H]. intros q Hq. apply (force_geom_id ct q Hq).
  - eapply Forall_impl; [|exact H]. intros q Hq. apply (force_geom_id ct q Hq).
Qed.

(* ---- lines and polygons as geometries ---- *)
Lemma parses_line e l :
  line_wf l = true -> line_ok (N.eqb 0) (line_ct l) l = true ->
  forall f, parses (rd_geom (S f)) (enc_line e l) (GLine l).
Proof.
  intros Hwf Hok f. cbn [rd_geom]. unfold enc_line.
  eapply parses_bind; [apply parses_header|]. cbn beta iota.
  rewrite <- (app_nil_r (enc_seq e l)).
  eapply parses_bind; [apply parses_seq; assumption|]. apply parses_ret.
Qed.

Lemma enc_seq_nonempty e l : (1 <= length (enc_seq e l))%nat.
Proof. destruct l as [ct vs]. unfold enc_seq. rewrite app_length, put_length. lia. Qed.

Lemma Forall2_map_l {A B} (R : B -> A -> Prop) (f : A -> B) l :
  Forall (fun x => R (f x) x) l -> Forall2 R (map f l) l.
Proof. induction 1; cbn [map]; constructor; auto. Qed.

Lemma parses_poly_body e ct rs :
  poly_wf (MkPoly ct rs) = true -> forallb (line_ok (N.eqb 0) ct) rs = true ->
  parses (rd_poly e ct) (put e 4 (N.of_nat (length rs)) ++ flat_map (enc_seq e) rs) (MkPoly ct rs).
Proof.
  unfold poly_wf; cbn [poly_rings]. intros Hwf Hok.
  apply andb_prop in Hwf; destruct Hwf as [Hc Hw]. unfold count_ok in Hc; apply N.ltb_lt in Hc.
  unfold rd_poly.
  eapply parses_bind; [apply parses_u32; exact Hc|].
  destruct rs as [|r rs'].
  - cbn [length N.of_nat N.eqb flat_map]. apply parses_ret.
  - destruct (N.eqb_spec (N.of_nat (length (r :: rs'))) 0) as [E|_]; [cbn [length] in E; lia|].
    rewrite flat_map_concat_map. rewrite <- (app_nil_r (concat _)).
    eapply parses_bind.
    + apply loop_parses.
      * apply Forall2_map_l. apply forallb_Forall in Hw, Hok.
        rewrite Forall_forall in *. intros x Hx.
        specialize (Hw x Hx). specialize (Hok x Hx).
        destruct (force_line_id ct x Hok) as [_ Hct]. rewrite <- Hct. apply parses_seq; [exact Hw|].
        rewrite Hct. exact Hok.
      * apply Forall_forall. intros b Hb. apply in_map_iff in Hb. destruct Hb as [x [<- _]].
        apply enc_seq_nonempty.
    + rewrite (new_polygon_id ct (r :: rs')) by (congruence || assumption). apply parses_ret.
Qed.

Lemma parses_poly e p :
  poly_wf p = true -> poly_ok (N.eqb 0) (poly_ct p) p = true ->
  forall f, parses (rd_geom (S f)) (enc_poly e p) (GPoly p).
Proof.
  destruct p as [ct rs]. cbn [poly_ct]. unfold poly_ok. rewrite ct_eqb_refl. cbn [andb].
  intros Hwf Hok f. cbn [rd_geom]. unfold enc_poly.
  eapply parses_bind; [apply parses_header|]. cbn beta iota.
  rewrite <- (app_nil_r (_ ++ flat_map _ _)).
  eapply parses_bind; [apply parses_poly_body; assumption|]. apply parses_ret.
Qed.

(* ---- members written with index-dependent byte order ---- *)
Lemma enc_members_concat {A} bo (f : endian -> A -> list N) (step : P A) path l :
  (forall e x, In x l -> parses step (f e x) x /\ (1 <= length (f e x))%nat) ->
  forall i, exists bss, enc_members bo f path i l = concat bss /\ Forall2 (parses step) bss l
                        /\ Forall (fun b => (1 <= length b)%nat) bss.
Proof.
  induction l as [|x l IH]; intros H i.
  - exists []. cbn. auto.
  - destruct (IH (fun e y Hy => H e y (or_intror Hy)) (S i)) as [bss [E [F2 Fn]]].
    exists (f (bo (i :: path)) x :: bss). cbn [enc_members concat]. rewrite E.
    destruct (H (bo (i :: path)) x (or_introl eq_refl)) as [Hp Hl].
    split; [reflexivity|]. split; constructor; assumption.
Qed.

Lemma member_parses {A} (inner : P geom) (cast : geom -> outcome A) bs g a :
  parses inner bs g -> cast g = Ok a -> parses (member inner cast) bs a.
Proof.
  intros Hp Hc. unfold member. rewrite <- (app_nil_r bs).
  eapply parses_bind; [exact Hp|]. rewrite Hc. intros r al. exists al. reflexivity.
Qed.

Lemma header_length e t ct : length (header e t ct) = 5%nat.
Proof. unfold header. cbn [length]. rewrite put_length. reflexivity. Qed.

Lemma enc_point_nonempty e p : (1 <= length (enc_point e p))%nat.
Proof. destruct p as [ct c]. unfold enc_point. rewrite app_length, header_length. lia. Qed.
Lemma enc_line_nonempty e l : (1 <= length (enc_line e l))%nat.
Proof. unfold enc_line. rewrite app_length, header_length. lia. Qed.
Lemma enc_poly_nonempty e p : (1 <= length (enc_poly e p))%nat.
Proof. destruct p as [ct rs]. unfold enc_poly. rewrite app_length, header_length. lia. Qed.
Lemma enc_at_nonempty bo path g : (1 <= length (enc_at bo path g))%nat.
Proof.
  destruct g as [p|l|p|c ps|c ls|c ps|c gs]; cbn [enc_at];
    [apply enc_point_nonempty|apply enc_line_nonempty|apply enc_poly_nonempty| | | |];
    rewrite app_length, header_length; apply le_n_S, Nat.le_0_l.
Qed.

(* the shared shape of the three Multi* cases *)
Lemma parses_multi {A} bo path e (f : endian -> A -> list N) (cast : geom -> outcome A)
      (wrap : A -> geom) (g0 : geom) (mk : list A -> geom) (xs : list A) fuel :
  count_ok xs = true ->
  (forall e x, In x xs -> parses (rd_geom fuel) (f e x) (wrap x) /\ cast (wrap x) = Ok x
                          /\ (1 <= length (f e x))%nat) ->
  parses (doP n <- rd_u 4 e;
          if n =? 0 then pret g0
          else doP ps <- loop n (member (rd_geom fuel) cast); pret (mk ps))
         (put e 4 (N.of_nat (length xs)) ++ enc_members bo f path 0 xs)
         (match xs with [] => g0 | _ => mk xs end).
Proof.
  intros Hc H. unfold count_ok in Hc; apply N.ltb_lt in Hc.
  eapply parses_bind; [apply parses_u32; exact Hc|].
  destruct xs as [|x xs'].
  - cbn [length N.of_nat N.eqb enc_members]. apply parses_ret.
  - destruct (N.eqb_spec (N.of_nat (length (x :: xs'))) 0) as [E|_]; [cbn [length] in E; lia|].
    destruct (enc_members_concat bo f (member (rd_geom fuel) cast) path (x :: xs')) with (i := 0%nat)
      as [bss [E [F2 Fn]]].
    { intros e' y Hy. destruct (H e' y Hy) as [Hp [Hcast Hl]]. split; [|exact Hl].
      eapply member_parses; eassumption. }
    rewrite E. rewrite <- (app_nil_r (concat bss)).
    eapply parses_bind; [apply loop_parses; assumption|]. apply parses_ret.
Qed.

Lemma depth_in (g : geom) gs :
  In g gs -> (depth g <= fold_right (fun x acc => Nat.max (depth x) acc) 0 gs)%nat.
Proof.
  induction gs as [|x gs IH]; cbn [In fold_right]; [intros []|]. intros [->|H]; [lia|]. specialize (IH H). lia.
Qed.

(* ---- the round trip ---- *)
Lemma parses_geom bo : forall g ct,
  geom_ok (N.eqb 0) ct g = true -> geom_wf g = true ->
  forall fuel path, (depth g <= fuel)%nat -> parses (rd_geom fuel) (enc_at bo path g) g.
Proof.
  induction g as [p|l|p|c ps|c ls|c ps|c gs IH] using geomT_ind';
    intros ct Hok Hwf fuel path Hd; cbn [geom_ok geom_wf depth] in *;
    (destruct fuel as [|f]; [lia|]).
  - cbn [enc_at]. apply parses_point; [exact Hwf|].
    destruct (force_point_id ct p Hok) as [_ ->]. exact Hok.
  - cbn [enc_at]. apply parses_line; [exact Hwf|].
    destruct (force_line_id ct l Hok) as [_ ->]. exact Hok.
  - cbn [enc_at]. apply parses_poly; [exact Hwf|].
    destruct (force_poly_id ct p Hok) as [_ ->]. exact Hok.
  - apply andb_prop in Hok; destruct Hok as [Hc Hok]. apply ct_eqb_eq in Hc; subst c.
    apply andb_prop in Hwf; destruct Hwf as [Hcnt Hwf].
    cbn [enc_at rd_geom]. eapply parses_bind; [apply parses_header|]. cbn beta iota.
    destruct f as [|f']; [lia|].
    destruct ps as [|p0 ps'].
    + apply (parses_multi bo path (bo path) enc_point as_point GPoint (GMPoint ct []) (new_multipoint 0) [] (S f') Hcnt).
      intros e x [].
    + rewrite <- (new_multipoint_id ct (p0 :: ps')) by (congruence || assumption).
      apply (parses_multi bo path (bo path) enc_point as_point GPoint (GMPoint ct []) (new_multipoint 0) (p0 :: ps') (S f') Hcnt).
      intros e x Hx. apply forallb_Forall in Hok, Hwf. rewrite Forall_forall in Hok, Hwf.
      split; [|split; [reflexivity|apply enc_point_nonempty]].
      apply parses_point; [apply Hwf; exact Hx|].
      destruct (force_point_id ct x (Hok x Hx)) as [_ ->]. apply Hok; exact Hx.
  - apply andb_prop in Hok; destruct Hok as [Hc Hok]. apply ct_eqb_eq in Hc; subst c.
    apply andb_prop in Hwf; destruct Hwf as [Hcnt Hwf].
    cbn [enc_at rd_geom]. eapply parses_bind; [apply parses_header|]. cbn beta iota.
    destruct f as [|f']; [lia|].
    destruct ls as [|l0 ls'].
    + apply (parses_multi bo path (bo path) enc_line as_line GLine (GMLine ct []) (new_multiline 0) [] (S f') Hcnt).
      intros e x [].
    + rewrite <- (new_multiline_id ct (l0 :: ls')) by (congruence || assumption).
      apply (parses_multi bo path (bo path) enc_line as_line GLine (GMLine ct []) (new_multiline 0) (l0 :: ls') (S f') Hcnt).
      intros e x Hx. apply forallb_Forall in Hok, Hwf. rewrite Forall_forall in Hok, Hwf.
      split; [|split; [reflexivity|apply enc_line_nonempty]].
      apply parses_line; [apply Hwf; exact Hx|].
      destruct (force_line_id ct x (Hok x Hx)) as [_ ->]. apply Hok; exact Hx.
  - apply andb_prop in Hok; destruct Hok as [Hc Hok]. apply ct_eqb_eq in Hc; subst c.
    apply andb_prop in Hwf; destruct Hwf as [Hcnt Hwf].
    cbn [enc_at rd_geom]. eapply parses_bind; [apply parses_header|]. cbn beta iota.
    destruct f as [|f']; [lia|].
    destruct ps as [|p0 ps'].
    + apply (parses_multi bo path (bo path) enc_poly as_poly GPoly (GMPoly ct []) (new_multipoly 0) [] (S f') Hcnt).
      intros e x [].
    + rewrite <- (new_multipoly_id ct (p0 :: ps')) by (congruence || assumption).
      apply (parses_multi bo path (bo path) enc_poly as_poly GPoly (GMPoly ct []) (new_multipoly 0) (p0 :: ps') (S f') Hcnt).
      intros e x Hx. apply forallb_Forall in Hok, Hwf. rewrite Forall_forall in Hok, Hwf.
      split; [|split; [reflexivity|apply enc_poly_nonempty]].
      apply parses_poly; [apply Hwf; exact Hx|].
      destruct (force_poly_id ct x (Hok x Hx)) as [_ ->]. apply Hok; exact Hx.
  - apply andb_prop in Hok; destruct Hok as [Hc Hok]. apply ct_eqb_eq in Hc; subst c.
    apply andb_prop in Hwf; destruct Hwf as [Hcnt Hwf].
    cbn [enc_at rd_geom]. eapply parses_bind; [apply parses_header|]. cbn beta iota.
    unfold count_ok in Hcnt; apply N.ltb_lt in Hcnt.
    eapply parses_bind; [apply parses_u32; exact Hcnt|].
    destruct gs as [|g0 gs'].
    + cbn [length N.of_nat N.eqb]. apply parses_ret.
    + destruct (N.eqb_spec (N.of_nat (length (g0 :: gs'))) 0) as [E|_]; [cbn [length] in E; lia|].
      set (step := (doP g <- rd_geom f; if ct_eqb (geom_ct g) ct then pret g else pfail ECollDims) : P geom).
      apply forallb_Forall in Hok, Hwf.
      assert (Hstep : forall x, In x (g0 :: gs') -> forall pth, parses step (enc_at bo pth x) x).
      { intros x Hx pth. unfold step. rewrite <- (app_nil_r (enc_at bo pth x)).
        rewrite Forall_forall in IH, Hok, Hwf.
        eapply parses_bind.
        - apply (IH x Hx ct (Hok x Hx) (Hwf x Hx)). pose proof (depth_in x _ Hx). lia.
        - destruct (force_geom_id ct x (Hok x Hx)) as [_ ->]. rewrite ct_eqb_refl. apply parses_ret. }
      assert (Hcat : forall l i, (forall x, In x l -> In x (g0 :: gs')) ->
                exists bss,
                  (fix go (i : nat) (l : list geom) {struct l} : list N :=
                     match l with [] => [] | x :: r => enc_at bo (i :: path) x ++ go (S i) r end) i l
                  = concat bss /\ Forall2 (parses step) bss l /\ Forall (fun b => (1 <= length b)%nat) bss).
      { induction l as [|x l IHl]; intros i Hin.
        - exists []. cbn. auto.
        - destruct (IHl (S i) (fun y Hy => Hin y (or_intror Hy))) as [bss [E [F2 Fn]]].
          exists (enc_at bo (i :: path) x :: bss). rewrite E. split; [reflexivity|].
          split; constructor; try assumption.
          + apply Hstep. apply Hin. left; reflexivity.
          + apply enc_at_nonempty. }
      destruct (Hcat (g0 :: gs') 0%nat (fun x Hx => Hx)) as [bss [E [F2 Fn]]].
      rewrite E. rewrite <- (app_nil_r (concat bss)).
      eapply parses_bind; [apply loop_parses; assumption|].
      rewrite (new_collection_id ct (g0 :: gs')); [apply parses_ret|congruence|].
      apply forallb_Forall. exact Hok.
Qed.

(* ---- fuel: the decoder is started with more fuel than the nesting depth of any encoding ---- *)
Lemma enc_coll_members_depth bo path (gs : list geom) :
  (forall g, In g gs -> forall pth, (depth g <= length (enc_at bo pth g))%nat) ->
  forall i,
  (fold_right (fun x acc => Nat.max (depth x) acc) 0 gs <=
   length ((fix go (i : nat) (l : list geom) {struct l} : list N :=
              match l with [] => [] | x :: r => enc_at bo (i :: path) x ++ go (S i) r end) i gs))%nat.
Proof.
  induction gs as [|x gs IH]; intros H i; cbn [fold_right]; [lia|].
  rewrite app_length.
  pose proof (H x (or_introl eq_refl) (i :: path)).
  specialize (IH (fun g Hg => H g (or_intror Hg)) (S i)). lia.
Qed.

Lemma depth_le_enc bo : forall (g : geom) path, (depth g <= length (enc_at bo path g))%nat.
Proof.
  induction g as [p|l|p|c ps|c ls|c ps|c gs IH] using geomT_ind'; intros path; cbn [depth].
  - apply enc_at_nonempty.
  - apply enc_at_nonempty.
  - apply enc_at_nonempty.
  - cbn [enc_at]. rewrite !app_length, header_length, put_length. lia.
  - cbn [enc_at]. rewrite !app_length, header_length, put_length. lia.
  - cbn [enc_at]. rewrite !app_length, header_length, put_length. lia.
  - cbn [enc_at]. rewrite !app_length, header_length, put_length.
    rewrite Forall_forall in IH.
    pose proof (enc_coll_members_depth bo path gs (fun g Hg pth => IH g Hg pth) 0%nat). lia.
Qed.

Lemma wf_split (g : geom) : wf_wkb g = true -> geom_ok (N.eqb 0) (geom_ct g) g = true /\ geom_wf g = true.
Proof. unfold wf_wkb, consistent. intros H. apply andb_prop in H. exact H. Qed.

(* decode (encode g ++ rest) = (g, rest), for every per-element byte-order choice *)
Lemma wkb_roundtrip_lemma bo (g : geom) rest :
  wf_wkb g = true -> dec (enc_bo bo g ++ rest) = Ok (g, rest).
Proof.
  intros H. destruct (wf_split g H) as [Hok Hwf].
  unfold dec, dec_full, enc_bo.
  assert (Hd : (depth g <= S (length (enc_at bo [] g ++ rest)))%nat).
  { pose proof (depth_le_enc bo g []). rewrite app_length. lia. }
  destruct (parses_geom bo g (geom_ct g) Hok Hwf _ [] Hd rest 0) as [a' E].
  rewrite E. reflexivity.
Qed.

Lemma wkb_endian_independent_lemma bo (g : geom) rest :
  wf_wkb g = true -> dec (enc_bo bo g ++ rest) = dec (enc g ++ rest).
Proof. intros H. unfold enc. rewrite !wkb_roundtrip_lemma by exact H. reflexivity. Qed.

Lemma wkb_reencode_lemma (g g' : geom) r :
  wf_wkb g = true -> dec (enc g) = Ok (g', r) -> enc g' = enc g /\ r = [].
Proof.
  intros H E. rewrite <- (app_nil_r (enc g)) in E. unfold enc in E.
  rewrite wkb_roundtrip_lemma in E by exact H. inversion E; subst. split; reflexivity.
Qed.

(* two well-formed values with the same encoding (under any byte orders) are equal;
   more generally no encoding is a proper prefix of a different value's encoding *)
Lemma wkb_injective_lemma bo1 bo2 (g h : geom) r1 r2 :
  wf_wkb g = true -> wf_wkb h = true -> enc_bo bo1 g ++ r1 = enc_bo bo2 h ++ r2 -> g = h /\ r1 = r2.
Proof.
  intros Hg Hh E. pose proof (wkb_roundtrip_lemma bo1 g r1 Hg) as E1.
  rewrite E in E1. rewrite (wkb_roundtrip_lemma bo2 h r2 Hh) in E1. inversion E1; subst. auto.
Qed.

Lemma gtype_eqb_eq a b : gtype_eqb a b = true <-> a = b.
Proof. destruct a, b; simpl; split; intros; try reflexivity; discriminate. Qed.

Lemma scan_value_lemma t (g : geom) :
  wf_wkb g = true ->
  scan t (enc g) = if gtype_eqb (geom_type g) t then Ok g else Err EMemberType.
Proof.
  intros H. unfold scan. rewrite <- (app_nil_r (enc g)). unfold enc.
  rewrite wkb_roundtrip_lemma by exact H. reflexivity.
Qed.
