(* Property C08, WKB part: the decoder model of Model/WKB.v is total on arbitrary input.
   For EVERY list of numbers offered as bytes (no well-formedness hypothesis, values above 255
   included): no panic outcome, the fuel error is unreachable, the input is never read past its
   end, and the bytes requested by count-sized `make` calls are at most twice the number of
   bytes consumed.  Technique: one invariant [okS k m s] over parser computations, closed under
   bind, proved for every reader bottom-up; the count-controlled loops and the recursion are
   handled by "fuel exceeds the unread length and every iteration consumes a byte". *)
From Coq Require Import NArith List Bool Lia ZArith.
From Coq Require Import ZifyN ZifyNat ZifyBool.
From SF Require Import Base.Outcome Base.Bytes Base.GeomAST Model.WKB.
Import ListNotations.
Local Open Scope N_scope.

(* ------------------------------------------------------------------ the invariant *)
(* Running m from state s: never a panic; an error is never EFuel and has requested at most
   2 bytes per unread byte; success consumed a prefix [used] of at least k bytes and requested at
   most 2 bytes per consumed byte. *)
Definition okS {A} (k : nat) (m : P A) (s : st) : Prop :=
  match m s with
  | POk _ s' => exists used, fst s = used ++ fst s' /\ (k <= length used)%nat /\
                             snd s' <= snd s + 2 * N.of_nat (length used)
  | PErr e a => e <> EFuel /\ a <= snd s + 2 * N.of_nat (length (fst s))
  | PPanic _ _ => False
  end.

Lemma okS_weaken {A} k k' (m : P A) s : (k' <= k)%nat -> okS k m s -> okS k' m s.
Proof.
  unfold okS. destruct (m s); auto. intros H [u (E & L & B)]. exists u. repeat split; auto. lia.
Qed.

Lemma okS_ret {A} (a : A) s : okS 0 (pret a) s.
Proof. unfold okS, pret. exists []. cbn [app length]. repeat split; auto. lia. Qed.

Lemma okS_fail {A} e s : e <> EFuel -> okS (A:=A) 0 (pfail e) s.
Proof. unfold okS, pfail. intros H. split; auto. lia. Qed.

Lemma okS_bind {A B} k1 k2 (m : P A) (f : A -> P B) s :
  okS k1 m s ->
  (forall a s', m s = POk a s' -> (length (fst s') + k1 <= length (fst s))%nat -> okS k2 (f a) s') ->
  okS (k1 + k2) (pbind m f) s.
Proof.
  unfold okS at 1 3, pbind. destruct (m s) as [a s'|e al|p al] eqn:E; auto.
  intros [u (Eu & Lu & Bu)] Hf.
  assert (Hlen : (length (fst s') + k1 <= length (fst s))%nat).
  { rewrite Eu, app_length. lia. }
  specialize (Hf a s' eq_refl Hlen). unfold okS in Hf.
  destruct (f a s') as [b s''|e al|p al]; auto.
  - destruct Hf as [u2 (Eu2 & Lu2 & Bu2)]. exists (u ++ u2).
    rewrite Eu, Eu2, app_assoc, app_length. repeat split; auto; lia.
  - destruct Hf as [Hne Hb]. split; auto. rewrite Eu, app_length. lia.
Qed.

(* bind when the continuation needs nothing from the equation *)
Lemma okS_bind' {A B} k1 k2 (m : P A) (f : A -> P B) s :
  okS k1 m s -> (forall a s', okS k2 (f a) s') -> okS (k1 + k2) (pbind m f) s.
Proof. intros H1 H2. apply okS_bind; auto. Qed.

Lemma okS_plift {A} (o : outcome A) s :
  (forall p, o <> Panic p) -> o <> Err EFuel -> okS 0 (plift o) s.
Proof.
  intros Hp He. unfold okS, plift. destruct o as [a|e|p].
  - exists []. cbn [app length]. repeat split; auto. lia.
  - split; [congruence|lia].
  - eapply Hp; reflexivity.
Qed.

(* ------------------------------------------------------------------ fixed-width readers *)
(* [reads k m]: m consumes exactly k bytes, requests nothing, and can only fail with EEOF *)
Definition reads {A} (k : nat) (m : P A) : Prop := forall s,
  match m s with
  | POk _ s' => exists used, fst s = used ++ fst s' /\ length used = k /\ snd s' = snd s
  | PErr e a => e = EEOF /\ a = snd s
  | PPanic _ _ => False
  end.

Lemma reads_okS {A} k (m : P A) s : reads k m -> okS k m s.
Proof.
  intros H. specialize (H s). unfold okS. destruct (m s); auto.
  - destruct H as [u (E & L & Al)]. exists u. repeat split; auto; lia.
  - destruct H as [-> ->]. split; [discriminate|lia].
Qed.

Lemma reads_ret {A} (a : A) : reads 0 (pret a).
Proof. intros s. unfold pret. exists []. auto. Qed.

Lemma reads_bind {A B} k1 k2 (m : P A) (f : A -> P B) :
  reads k1 m -> (forall a, reads k2 (f a)) -> reads (k1 + k2) (pbind m f).
Proof.
  intros H1 H2 s. unfold pbind. specialize (H1 s). destruct (m s) as [a s'|e al|p al]; auto.
  destruct H1 as [u (E & L & Al)]. specialize (H2 a s').
  destruct (f a s') as [b s''|e al|p al]; auto.
  - destruct H2 as [u2 (E2 & L2 & Al2)]. exists (u ++ u2).
    rewrite E, E2, app_assoc, app_length. repeat split; auto; congruence.
  - destruct H2 as [-> ->]. auto.
Qed.

Lemma reads_rd_u k e : reads k (rd_u k e).
Proof.
  intros s. unfold rd_u. destruct (take k (fst s)) as [[h t]|] eqn:E; auto.
  apply take_spec in E. destruct E as [E L]. exists h. auto.
Qed.

Lemma reads_rd_byte : reads 1 rd_byte.
Proof.
  intros s. unfold rd_byte. destruct (fst s) as [|b r]; auto. exists [b]. auto.
Qed.

Lemma reads_if {A} (c : bool) k1 k2 (m1 m2 : P A) :
  reads k1 m1 -> reads k2 m2 -> reads (if c then k1 else k2) (if c then m1 else m2).
Proof. destruct c; auto. Qed.

Lemma reads_rd_vtx e ct : reads (8 * dim ct) (rd_vtx e ct).
Proof.
  unfold rd_vtx.
  replace (8 * dim ct)%nat
    with (8 + (8 + ((if has_z ct then 8 else 0) + ((if has_m ct then 8 else 0) + 0))))%nat
    by (destruct ct; reflexivity).
  apply reads_bind; [apply reads_rd_u|intros x].
  apply reads_bind; [apply reads_rd_u|intros y].
  apply reads_bind; [apply reads_if; [apply reads_rd_u|apply reads_ret]|intros z].
  apply reads_bind; [apply reads_if; [apply reads_rd_u|apply reads_ret]|intros m].
  apply reads_ret.
Qed.

Lemma reads_rd_vtxs n e ct : reads (n * (8 * dim ct)) (rd_vtxs n e ct).
Proof.
  induction n as [|n IH]; cbn [rd_vtxs].
  - apply reads_ret.
  - replace (S n * (8 * dim ct))%nat with (8 * dim ct + (n * (8 * dim ct) + 0))%nat by lia.
    apply reads_bind; [apply reads_rd_vtx|intros v].
    apply reads_bind; [exact IH|intros vs]. apply reads_ret.
Qed.

(* ------------------------------------------------------------------ header, point, sequence *)
Lemma okS_rd_header s : okS 5 rd_header s.
Proof.
  unfold rd_header.
  change 5%nat with (1 + (0 + (4 + (0 + (0 + 0)))))%nat.
  apply okS_bind'; [apply reads_okS, reads_rd_byte|intros b s1].
  apply okS_bind'.
  { destruct (b =? 0); [apply okS_ret|]. destruct (b =? 1); [apply okS_ret|].
    apply okS_fail; discriminate. }
  intros e s2.
  apply okS_bind'; [apply reads_okS, reads_rd_u|intros code s3].
  apply okS_bind'.
  { generalize (code mod 1000). intros c.
    destruct c as [|p]; [apply okS_fail; discriminate|].
    do 3 (try (destruct p as [p|p|]));
      first [apply okS_ret | apply okS_fail; discriminate]. }
  intros t s4.
  apply okS_bind'.
  { destruct (ct_of_code (code / 1000)); [apply okS_ret|apply okS_fail; discriminate]. }
  intros ct s5. apply okS_ret.
Qed.

Lemma okS_rd_point e ct s : okS 0 (rd_point e ct) s.
Proof.
  unfold rd_point. change 0%nat with (0 + 0)%nat.
  apply okS_bind'.
  { eapply okS_weaken; [|apply reads_okS, reads_rd_vtx]. lia. }
  intros v s1.
  destruct (is_nan (vx v) && is_nan (vy v)); [apply okS_ret|].
  destruct (is_nan (vx v) || is_nan (vy v)); [apply okS_fail; discriminate|apply okS_ret].
Qed.

(* wkbParser.parseLineString: the allocation is covered by the bytes that the length check has
   just shown to be present, and that are then consumed *)
Lemma okS_rd_seq e ct s : okS 4 (rd_seq e ct) s.
Proof.
  unfold okS, rd_seq, pbind.
  pose proof (reads_rd_u 4 e s) as H4. destruct (rd_u 4 e s) as [n s1|er al|p al].
  2:{ destruct H4 as [-> ->]. split; [discriminate|lia]. }
  2:{ exact H4. }
  destruct H4 as [u (Eu & Lu & Al1)].
  unfold remaining. cbn [fst snd].
  set (need := 8 * (n * N.of_nat (dim ct))).
  destruct (N.ltb_spec (N.of_nat (length (fst s1))) need) as [Hlt|Hge].
  { unfold pfail. split; [discriminate|]. rewrite Al1. lia. }
  unfold palloc. cbn [fst snd].
  pose proof (reads_rd_vtxs (N.to_nat n) e ct
                (fst s1, snd s1 + (need + match e with BE => need | LE => 0 end))) as Hv.
  destruct (rd_vtxs (N.to_nat n) e ct _) as [vs s2|er al|p al].
  - unfold pret. destruct Hv as [u2 (Eu2 & Lu2 & Al2)]. cbn [fst snd] in *.
    exists (u ++ u2). rewrite Eu, Eu2, app_assoc, app_length. repeat split; auto; [lia|].
    rewrite Al2, Al1.
    assert (N.of_nat (length u2) = need).
    { rewrite Lu2. unfold need. destruct ct; cbn [dim]; lia. }
    destruct e; lia.
  - destruct Hv as [-> ->]. cbn [fst snd]. split; [discriminate|].
    rewrite Al1, Eu, app_length. destruct e; lia.
  - exact Hv.
Qed.

(* ------------------------------------------------------------------ loops *)
(* a step that is fine on every state no longer than the current one, and consumes a byte *)
Definition step_ok {A} (step : P A) (bound : nat) : Prop :=
  forall s', (length (fst s') <= bound)%nat -> okS 1 step s'.

Lemma okS_loopN {A} (step : P A) : forall fuel n acc s,
  (length (fst s) < fuel)%nat -> step_ok step (length (fst s)) ->
  okS 0 (loopN fuel n step acc) s.
Proof.
  induction fuel as [|f IH]; intros n acc s Hf Hstep; [lia|].
  cbn [loopN]. destruct (n =? 0); [apply okS_ret|].
  eapply okS_weaken with (k := (1 + 0)%nat); [lia|].
  apply okS_bind; [apply Hstep; lia|].
  intros a s' _ Hlen. apply IH; [lia|].
  intros s'' Hs''. apply Hstep. lia.
Qed.

Lemma okS_loop {A} (step : P A) n s :
  step_ok step (length (fst s)) -> okS 0 (loop n step) s.
Proof.
  intros Hstep. unfold loop. unfold pbind at 1. unfold remaining at 1.
  apply okS_loopN; [lia|exact Hstep].
Qed.

Lemma okS_rd_poly e ct s : okS 4 (rd_poly e ct) s.
Proof.
  unfold rd_poly. change 4%nat with (4 + 0)%nat.
  apply okS_bind'; [apply reads_okS, reads_rd_u|intros n s1].
  destruct (n =? 0); [apply okS_ret|].
  change 0%nat with (0 + 0)%nat. apply okS_bind'; [|intros; apply okS_ret].
  apply okS_loop. intros s' _. eapply okS_weaken; [|apply okS_rd_seq]. lia.
Qed.

(* ------------------------------------------------------------------ the recursion *)
Lemma as_point_plift g s : okS 0 (plift (as_point g)) s.
Proof. apply okS_plift; destruct g; cbn; intros; discriminate. Qed.
Lemma as_line_plift g s : okS 0 (plift (as_line g)) s.
Proof. apply okS_plift; destruct g; cbn; intros; discriminate. Qed.
Lemma as_poly_plift g s : okS 0 (plift (as_poly g)) s.
Proof. apply okS_plift; destruct g; cbn; intros; discriminate. Qed.

Lemma okS_member {A} (inner : P geom) (cast : geom -> outcome A) bound :
  (forall g s, okS 0 (plift (cast g)) s) ->
  step_ok inner bound -> step_ok (member inner cast) bound.
Proof.
  intros Hc Hi s' Hs'. unfold member. change 1%nat with (1 + 0)%nat.
  apply okS_bind'; [apply Hi; exact Hs'|intros g s2; apply Hc].
Qed.

(* Multi* body: count, then a loop over members read by the recursive call *)
Lemma okS_multi {A} (inner : P geom) (cast : geom -> outcome A) (e : endian)
      (emp : geom) (mk : list A -> geom) s :
  (forall g s, okS 0 (plift (cast g)) s) ->
  step_ok inner (length (fst s)) ->
  okS 0 (doP n <- rd_u 4 e;
         if n =? 0 then pret emp
         else doP ps <- loop n (member inner cast); pret (mk ps)) s.
Proof.
  intros Hc Hi. change 0%nat with (0 + 0)%nat.
  apply okS_bind.
  { eapply okS_weaken; [|apply reads_okS, (reads_rd_u 4 e)]. lia. }
  intros n s1 _ Hlen. destruct (n =? 0); [apply okS_ret|].
  change 0%nat with (0 + 0)%nat. apply okS_bind'; [|intros; apply okS_ret].
  apply okS_loop. apply okS_member; [exact Hc|].
  intros s' Hs'. apply Hi. lia.
Qed.

Lemma okS_rd_geom : forall fuel s, (length (fst s) < fuel)%nat -> okS 5 (rd_geom fuel) s.
Proof.
  induction fuel as [|f IH]; intros s Hf; [lia|].
  cbn [rd_geom]. change 5%nat with (5 + 0)%nat.
  apply okS_bind; [apply okS_rd_header|].
  intros [[e t] ct] s1 _ Hlen.
  assert (Hrec : step_ok (rd_geom f) (length (fst s1))).
  { intros s' Hs'. eapply okS_weaken; [|apply IH; lia]. lia. }
  destruct t.
  - (* collection *)
    change 0%nat with (0 + 0)%nat. apply okS_bind.
    { eapply okS_weaken; [|apply reads_okS, (reads_rd_u 4 e)]. lia. }
    intros n s2 _ Hlen2. destruct (n =? 0); [apply okS_ret|].
    change 0%nat with (0 + 0)%nat. apply okS_bind'; [|intros; apply okS_ret].
    apply okS_loop. intros s' Hs'. change 1%nat with (1 + 0)%nat.
    apply okS_bind'; [apply Hrec; lia|].
    intros g s3. destruct (ct_eqb (geom_ct g) ct); [apply okS_ret|apply okS_fail; discriminate].
  - change 0%nat with (0 + 0)%nat.
    apply okS_bind'; [apply okS_rd_point|intros; apply okS_ret].
  - change 0%nat with (0 + 0)%nat. apply okS_bind'; [|intros; apply okS_ret].
    eapply okS_weaken; [|apply okS_rd_seq]. lia.
  - change 0%nat with (0 + 0)%nat. apply okS_bind'; [|intros; apply okS_ret].
    eapply okS_weaken; [|apply okS_rd_poly]. lia.
  - apply (okS_multi (rd_geom f) as_point e); [apply as_point_plift|exact Hrec].
  - apply (okS_multi (rd_geom f) as_line e); [apply as_line_plift|exact Hrec].
  - apply (okS_multi (rd_geom f) as_poly e); [apply as_poly_plift|exact Hrec].
Qed.

Lemma dec_full_ok bs : okS 5 (rd_geom (S (length bs))) (bs, 0).
Proof. apply okS_rd_geom. cbn [fst]. lia. Qed.

(* ------------------------------------------------------------------ the C08 statements *)
Lemma wkb_dec_no_panic_lemma : forall bs, is_panic (dec bs) = false.
Proof.
  intros bs. pose proof (dec_full_ok bs) as H. unfold okS in H. unfold dec, dec_full.
  destruct (rd_geom (S (length bs)) (bs, 0)); auto. contradiction.
Qed.

Lemma wkb_dec_alloc_linear_lemma : forall bs, dec_alloc bs <= 2 * N.of_nat (length bs).
Proof.
  intros bs. pose proof (dec_full_ok bs) as H. unfold okS in H. unfold dec_alloc, dec_full.
  destruct (rd_geom (S (length bs)) (bs, 0)) as [g s'|e a|p a]; cbn [fst snd] in *.
  - destruct H as [u (E & _ & B)]. rewrite E, app_length. lia.
  - destruct H as [_ B]. lia.
  - contradiction.
Qed.

(* sharper on success: at most two requested bytes per CONSUMED byte *)
Lemma wkb_dec_alloc_consumed_lemma : forall bs g r a,
  dec_full bs = POk g (r, a) -> exists used, bs = used ++ r /\ a <= 2 * N.of_nat (length used).
Proof.
  intros bs g r a E. pose proof (dec_full_ok bs) as H. unfold okS in H. unfold dec_full in E.
  rewrite E in H. cbn [fst snd] in H. destruct H as [u (Eu & _ & B)]. exists u. split; auto.
Qed.

Lemma wkb_dec_consumes_lemma : forall bs g r,
  dec bs = Ok (g, r) -> exists used, bs = used ++ r /\ (5 <= length used)%nat.
Proof.
  intros bs g r E. pose proof (dec_full_ok bs) as H. unfold okS in H. unfold dec, dec_full in E.
  destruct (rd_geom (S (length bs)) (bs, 0)) as [g' s'|e a|p a]; try discriminate.
  inversion E; subst. cbn [fst] in H. destruct H as [u (Eu & L & _)]. exists u. auto.
Qed.

Lemma wkb_dec_fuel_enough_lemma : forall bs, dec bs <> Err EFuel.
Proof.
  intros bs. pose proof (dec_full_ok bs) as H. unfold okS in H. unfold dec, dec_full.
  destruct (rd_geom (S (length bs)) (bs, 0)) as [g' s'|e a|p a]; try discriminate.
  destruct H as [Hne _]. congruence.
Qed.

(* database adapters (Scan into a concrete type): same totality *)
Lemma wkb_scan_no_panic_lemma : forall t bs, is_panic (scan t bs) = false /\ scan t bs <> Err EFuel.
Proof.
  intros t bs. unfold scan. pose proof (wkb_dec_no_panic_lemma bs) as Hp.
  pose proof (wkb_dec_fuel_enough_lemma bs) as Hf.
  destruct (dec bs) as [[g r]|e|p]; cbn [bind] in *.
  - destruct (gtype_eqb (geom_type g) t); split; auto; discriminate.
  - split; [reflexivity|congruence].
  - cbn in Hp. discriminate.
Qed.

(* ------------------------------------------------------------------ the validation gate *)
Section Gate.
  (* Geometry.Validate as an arbitrary function: the statement is about the gating in
     UnmarshalWKB (geom/wkb_parser.go:UnmarshalWKB), property C03 is about the validator *)
  Variable validate : geom -> bool.

  (* UnmarshalWKB(b) without NoValidate: trailing bytes are deliberately ignored *)
  Definition unmarshal (bs : list N) : outcome geom :=
    do (g, _) <- dec bs;
    if validate g then Ok g else Err EValidate.

  (* UnmarshalWKB(b, NoValidate{}) *)
  Definition unmarshal_nv (bs : list N) : outcome geom := do (g, _) <- dec bs; Ok g.

  Lemma decoded_validated_lemma : forall bs g, unmarshal bs = Ok g -> validate g = true.
  Proof.
    intros bs g. unfold unmarshal. destruct (dec bs) as [[g' r]|e|p]; cbn [bind]; try discriminate.
    destruct (validate g') eqn:V; intros E; [congruence|discriminate].
  Qed.

  (* the gate rejects nothing else: it returns exactly the decoded value when that validates *)
  Lemma gate_exact_lemma : forall bs g,
    unmarshal bs = Ok g <-> (unmarshal_nv bs = Ok g /\ validate g = true).
  Proof.
    intros bs g. unfold unmarshal, unmarshal_nv.
    destruct (dec bs) as [[g' r]|e|p]; cbn [bind].
    - destruct (validate g') eqn:V; split.
      + intros E. inversion E; subst. auto.
      + intros [E _]. exact E.
      + discriminate.
      + intros [E V']. inversion E; subst. congruence.
    - split; [discriminate|intros [E _]; discriminate].
    - split; [discriminate|intros [E _]; discriminate].
  Qed.

  Lemma unmarshal_no_panic_lemma : forall bs, is_panic (unmarshal bs) = false.
  Proof.
    intros bs. unfold unmarshal. pose proof (wkb_dec_no_panic_lemma bs) as H.
    destruct (dec bs) as [[g' r]|e|p]; cbn [bind]; auto. destruct (validate g'); auto.
  Qed.
End Gate.

(* ------------------------------------------------------------------ before the fix (F2) *)
(* geom/wkb_parser.go:parseLineString as it was before commit 9d18c2c: make([]float64, n*dim)
   first, length check second.  Only the LineString root is needed for the witness. *)
Definition rd_seq_unfixed (e : endian) (ct : ctype) : P (lineT N) :=
  doP n <- rd_u 4 e;
  let need := 8 * (n * N.of_nat (dim ct)) in
  doP _ <- palloc need;
  doP len <- remaining;
  if N.of_nat len <? need then pfail EEOF
  else
    doP _ <- palloc (match e with LE => 0 | BE => need end);
    doP vs <- rd_vtxs (N.to_nat n) e ct;
    pret (MkLine ct vs).

Definition dec_unfixed_alloc (bs : list N) : N :=
  let m : P geom :=
    doP hdr <- rd_header;
    let '(e, t, ct) := hdr in
    match t with
    | TLine => doP l <- rd_seq_unfixed e ct; pret (GLine l)
    | _ => rd_geom (length bs) (* other roots: unchanged code, not needed for the witness *)
    end in
  match m (bs, 0) with POk _ s => snd s | PErr _ a => a | PPanic _ a => a end.

Definition f2_witness : list N := [1; 2; 0; 0; 0; 255; 255; 255; 255].

Lemma wkb_alloc_unbounded_before_fix_lemma :
  length f2_witness = 9%nat /\ Forall byte_ok f2_witness /\
  dec_unfixed_alloc f2_witness = 68719476720 /\ dec_alloc f2_witness = 0.
Proof.
  split; [reflexivity|]. split.
  { unfold f2_witness, byte_ok. repeat constructor. }
  split; vm_compute; reflexivity.
Qed.
