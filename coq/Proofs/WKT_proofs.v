(* Lemmas for property C05 (WKT).  Part 1: the writer as a pure text function and the prefix law. *)
From Coq Require Import NArith List Bool Ascii String Lia.
From SF Require Import Base.Outcome Base.GeomAST Model.WKT.
From SF Require Proofs.WKB_proofs Model.WKB.
Import ListNotations.
Local Open Scope N_scope.
Local Notation length := List.length.

(* ================================================================== Part 1: writer *)
(* What the look-behind of appendWKTEmpty sees: true = no blank is inserted *)
Definition nosp_of (dst : buf) : bool :=
  match dst with
  | [] => true
  | C c :: _ => Ascii.eqb c "(" || Ascii.eqb c "," || Ascii.eqb c " "
  | Num _ :: _ => false
  | Bad :: _ => false
  end.

Definition text_empty (nosp : bool) : list ch :=
  if nosp then str (L "EMPTY") else C " "%char :: str (L "EMPTY").
Definition text_coords (ct : ctype) (v : vtx N) (parens : bool) : list ch :=
  (if parens then [C "("%char] else []) ++
  [Num (vx v); C " "%char; Num (vy v)] ++
  (if has_z ct then [C " "%char; Num (vz v)] else []) ++
  (if has_m ct then [C " "%char; Num (vm v)] else []) ++
  (if parens then [C ")"%char] else []).

Section TextJoin.
  Context {A : Type} (tf : bool -> A -> list ch).
  Definition text_rest (xs : list A) : list ch := flat_map (fun x => C ","%char :: tf true x) xs.
  Definition text_join (nosp : bool) (xs : list A) : list ch :=
    match xs with [] => [] | x :: r => tf nosp x ++ text_rest r end.
  Definition text_members (nosp : bool) (xs : list A) : list ch :=
    match xs with
    | [] => text_empty nosp
    | _ :: _ => C "("%char :: text_join true xs ++ [C ")"%char]
    end.
End TextJoin.

Definition text_point_body (nosp : bool) (p : pointT N) : list ch :=
  match p with
  | MkPoint _ None => text_empty nosp
  | MkPoint ct (Some v) => text_coords ct v true
  end.
Definition text_line_body (nosp : bool) (l : lineT N) : list ch :=
  let 'MkLine ct vs := l in text_members (fun _ v => text_coords ct v false) nosp vs.
Definition text_poly_body (nosp : bool) (p : polyT N) : list ch :=
  text_members text_line_body nosp (poly_rings p).
Definition tag_nosp (ct : ctype) : bool := match ct with XY => false | _ => true end.
Definition text_header (t : gtype) (ct : ctype) : list ch := str (kw_name t) ++ str (ct_tag ct).

Fixpoint text_geom (g : geomT N) : list ch :=
  match g with
  | GPoint p => text_header TPoint (point_ct p) ++ text_point_body (tag_nosp (point_ct p)) p
  | GLine l => text_header TLine (line_ct l) ++ text_line_body (tag_nosp (line_ct l)) l
  | GPoly p => text_header TPoly (poly_ct p) ++ text_poly_body (tag_nosp (poly_ct p)) p
  | GMPoint ct ps => text_header TMPoint ct ++ text_members text_point_body (tag_nosp ct) ps
  | GMLine ct ls => text_header TMLine ct ++ text_members text_line_body (tag_nosp ct) ls
  | GMPoly ct ps => text_header TMPoly ct ++ text_members text_poly_body (tag_nosp ct) ps
  | GColl ct gs => text_header TColl ct ++ text_members (fun _ x => text_geom x) (tag_nosp ct) gs
  end.

(* a writer f "writes" tf when its output is the old buffer followed by a text that depends on the
   old buffer only through the look-behind flag *)
Definition writes {A} (f : buf -> A -> buf) (tf : bool -> A -> list ch) (x : A) : Prop :=
  forall dst, f dst x = rev (tf (nosp_of dst) x) ++ dst.

Lemma rev_snoc_app {X} (l : list X) (a : X) r : rev (l ++ [a]) ++ r = a :: rev l ++ r.
Proof. rewrite rev_app_distr. reflexivity. Qed.

Lemma app_str_spec dst x : app_str dst x = rev (str x) ++ dst.
Proof. unfold app_str. apply rev_append_rev. Qed.

Lemma w_empty_spec dst : w_empty dst = rev (text_empty (nosp_of dst)) ++ dst.
Proof.
  unfold w_empty, text_empty. destruct dst as [|[c|b|] r]; cbn [nosp_of].
  - reflexivity.
  - destruct (Ascii.eqb c "(" || Ascii.eqb c "," || Ascii.eqb c " "); reflexivity.
  - reflexivity.
  - reflexivity.
Qed.

Lemma w_coords_spec dst ct v parens :
  w_coords dst ct v parens = rev (text_coords ct v parens) ++ dst.
Proof.
  unfold w_coords, text_coords, app_ch, app_float.
  destruct parens, (has_z ct), (has_m ct); reflexivity.
Qed.

Lemma w_header_spec dst t ct : w_header dst t ct = rev (text_header t ct) ++ dst.
Proof. destruct t, ct; reflexivity. Qed.

Lemma nosp_header dst t ct : nosp_of (rev (text_header t ct) ++ dst) = tag_nosp ct.
Proof. destruct t, ct; reflexivity. Qed.

Lemma w_join_false {A} (f : buf -> A -> buf) tf xs :
  Forall (writes f tf) xs ->
  forall dst, w_join f false dst xs = rev (text_rest tf xs) ++ dst.
Proof.
  induction 1 as [|x r Hx HF IH]; intros dst; [reflexivity|].
  cbn [w_join]. rewrite IH, (Hx (app_ch dst ",")). cbn [nosp_of app_ch].
  unfold text_rest. cbn [flat_map]. change (Ascii.eqb "," "(" || Ascii.eqb "," "," || Ascii.eqb "," " ") with true.
  rewrite rev_app_distr. cbn [rev]. rewrite <- !app_assoc. reflexivity.
Qed.

Lemma w_join_true {A} (f : buf -> A -> buf) tf xs :
  Forall (writes f tf) xs ->
  forall dst, w_join f true dst xs = rev (text_join tf (nosp_of dst) xs) ++ dst.
Proof.
  intros HF dst. destruct xs as [|x r]; [reflexivity|].
  inversion HF as [|? ? Hx Hr]; subst. cbn [w_join text_join].
  rewrite (w_join_false f tf r Hr), (Hx dst), rev_app_distr, <- app_assoc. reflexivity.
Qed.

Lemma w_join_after_eq {A} (f : buf -> A -> buf) xs dst :
  w_join_after f dst xs = w_join f true dst xs.
Proof.
  destruct xs as [|x r]; [reflexivity|]. cbn [w_join_after w_join].
  generalize (f dst x) as d. induction r as [|y r IH]; intros d; [reflexivity|].
  cbn [w_join_after w_join]. destruct r as [|z r']; [reflexivity|]. apply IH.
Qed.

Lemma w_members_spec {A} (f : buf -> A -> buf) tf xs :
  Forall (writes f tf) xs -> writes (w_members f) (text_members tf) xs.
Proof.
  intros HF dst. unfold w_members, text_members. destruct xs as [|x r]; [apply w_empty_spec|].
  rewrite (w_join_true f tf (x :: r) HF). unfold app_ch. cbn [nosp_of].
  change (Ascii.eqb "(" "(" || Ascii.eqb "(" "," || Ascii.eqb "(" " ") with true.
  cbn [rev]. rewrite rev_app_distr. cbn [rev app]. rewrite <- !app_assoc. reflexivity.
Qed.

Lemma writes_point_body p : writes w_point_body text_point_body p.
Proof.
  intros dst. destruct p as [ct [v|]]; cbn [w_point_body text_point_body].
  - apply w_coords_spec.
  - apply w_empty_spec.
Qed.

Lemma writes_line_body l : writes w_line_body text_line_body l.
Proof.
  intros dst. destruct l as [ct vs]. cbn [text_line_body].
  assert (HF : Forall (writes (fun d v => w_coords d ct v false) (fun _ v => text_coords ct v false)) vs).
  { apply Forall_forall. intros v _ d. apply w_coords_spec. }
  pose proof (w_members_spec _ _ vs HF dst) as H.
  destruct vs as [|v r]; [exact H|]. exact H.
Qed.

Lemma writes_poly_body p : writes w_poly_body text_poly_body p.
Proof.
  intros dst. destruct p as [ct rs]. unfold text_poly_body. cbn [poly_rings].
  assert (HF : Forall (writes w_line_body text_line_body) rs).
  { apply Forall_forall. intros l _. apply writes_line_body. }
  pose proof (w_members_spec _ _ rs HF dst) as H.
  destruct rs as [|r rs']; [exact H|].
  cbn [w_poly_body]. rewrite w_join_after_eq. exact H.
Qed.

Lemma w_geom_text : forall (g : geomT N) dst, w_geom dst g = rev (text_geom g) ++ dst.
Proof.
  assert (Hd : forall {A} (f : buf -> A -> buf) tf (x : A) t ct dst,
             writes f tf x ->
             f (w_header dst t ct) x = rev (text_header t ct ++ tf (tag_nosp ct) x) ++ dst).
  { intros A f tf x t ct dst H. rewrite w_header_spec, H, nosp_header, rev_app_distr, app_assoc.
    reflexivity. }
  induction g as [p|l|p|ct ps|ct ls|ct ps|ct gs IH] using geomT_ind'; intros dst; cbn [w_geom text_geom].
  - apply Hd, writes_point_body.
  - apply Hd, writes_line_body.
  - apply Hd, writes_poly_body.
  - apply (Hd _ (w_members w_point_body) (text_members text_point_body)), w_members_spec.
    apply Forall_forall. intros x _. apply writes_point_body.
  - apply (Hd _ (w_members w_line_body) (text_members text_line_body)), w_members_spec.
    apply Forall_forall. intros x _. apply writes_line_body.
  - apply (Hd _ (w_members w_poly_body) (text_members text_poly_body)), w_members_spec.
    apply Forall_forall. intros x _. apply writes_poly_body.
  - apply (Hd _ (w_members (fun d x => w_geom d x)) (text_members (fun _ x => text_geom x))), w_members_spec.
    eapply Forall_impl; [|exact IH]. intros x Hx d. apply Hx.
Qed.

Lemma as_text_text g : as_text g = text_geom g.
Proof. unfold as_text, append_wkt. cbn [rev]. rewrite w_geom_text, app_nil_r. apply rev_involutive. Qed.

(* AppendWKT(prefix) = prefix ++ AsText, for every prefix: the look-behind never reaches the
   caller's bytes because every AppendWKT starts with a non-empty header *)
Lemma wkt_append_prefix_lemma (prefix : list ch) (g : geomT N) :
  append_wkt prefix g = prefix ++ as_text g.
Proof.
  rewrite as_text_text. unfold append_wkt. rewrite w_geom_text, rev_app_distr, !rev_involutive.
  reflexivity.
Qed.

Lemma wkt_append_prefix_any_lemma (prefix : list ch) (a : anygeom) :
  append_wkt_any prefix a = Ok (prefix ++ as_text_any a).
Proof. unfold append_wkt_any, as_text_any. rewrite wkt_append_prefix_lemma. reflexivity. Qed.

(* the body writers DO read the caller's bytes: the law is false for appendWKTBody at top level *)
Lemma body_reads_prefix :
  rev (w_point_body (rev [C "x"%char]) (MkPoint XY None)) <>
  [C "x"%char] ++ rev (w_point_body [] (MkPoint XY None)).
Proof. vm_compute. discriminate. Qed.

Lemma wkt_zero_unfixed_refuted_lemma :
  exists prefix, append_wkt_any_unfixed prefix ZeroGeometry <> Ok (prefix ++ as_text_any ZeroGeometry).
Proof. exists []. discriminate. Qed.

(* ================================================================== Part 2: lexing the text *)
(* delim (Model/WKT.v): a character that ends an identifier or number and is a token (or blank) by itself *)
Definition sep_tok (c : ascii) : list tok := if is_ws c then [] else [T [c]].
(* the rest of the text does not continue a word or number *)
Definition sd (r : list ch) : Prop :=
  match r with [] => True | C c :: _ => delim c = true | Num _ :: _ => False | Bad :: _ => True end.
Definition sdl (b : list ch) : Prop :=
  match b with C c :: _ => delim c = true | _ => False end.

Lemma sd_app b r : sdl b -> sd (b ++ r).
Proof. destruct b as [|[c|n|] b']; cbn; tauto. Qed.

Lemma lex_delim cur c r :
  delim c = true ->
  lex_go cur (C c :: r) = (do ts <- lex_go [] r; Ok (flush cur ++ sep_tok c ++ ts)).
Proof.
  unfold delim. intros H. cbn [lex_go].
  destruct (is_letter c); [discriminate|]. destruct (is_digit c); [discriminate|].
  destruct (code c =? 0); [discriminate|]. destruct (128 <=? code c); [discriminate|].
  destruct (Ascii.eqb c "."); [discriminate|]. reflexivity.
Qed.

Lemma lex_flush cur r :
  sd r -> lex_go cur r = (do ts <- lex_go [] r; Ok (flush cur ++ ts)).
Proof.
  destruct r as [|[c|n|] r']; cbn [sd]; intros H; [|
    |contradiction|].
  - cbn. rewrite app_nil_r. reflexivity.
  - rewrite !lex_delim by exact H. destruct (lex_go [] r'); reflexivity.
  - reflexivity.
Qed.

Lemma lex_letters w : forallb is_letter w = true ->
  forall cur r, lex_go cur (map C w ++ r) = lex_go (rev w ++ cur) r.
Proof.
  induction w as [|a w IH]; intros H cur r; [reflexivity|].
  cbn [forallb] in H. apply andb_prop in H. destruct H as [Ha Hw].
  cbn [map app lex_go]. rewrite Ha, (IH Hw). cbn [rev]. rewrite <- app_assoc. reflexivity.
Qed.

(* "ends open" (a word or number: the continuation must not glue) / "ends closed" *)
Definition lexes (s : list ch) (ts : list tok) : Prop :=
  forall r tr, sd r -> lex_go [] r = Ok tr -> lex_go [] (s ++ r) = Ok (ts ++ tr).
Definition lexesD (s : list ch) (ts : list tok) : Prop :=
  forall r tr, lex_go [] r = Ok tr -> lex_go [] (s ++ r) = Ok (ts ++ tr).

Lemma lexesD_lexes s ts : lexesD s ts -> lexes s ts.
Proof. intros H r tr _. apply H. Qed.

Lemma lexes_word w : forallb is_letter w = true -> w <> [] -> lexes (str w) [T w].
Proof.
  intros Hw Hne r tr Hsd Hr. unfold str. rewrite (lex_letters w Hw), app_nil_r, (lex_flush _ r Hsd), Hr.
  cbn [bind]. unfold flush. destruct (rev w) eqn:E.
  - apply (f_equal (@rev ascii)) in E. rewrite rev_involutive in E. cbn in E. congruence.
  - rewrite <- E, rev_involutive. reflexivity.
Qed.

Lemma lexesD_char c : delim c = true -> lexesD [C c] (sep_tok c).
Proof. intros H r tr Hr. cbn [app]. rewrite (lex_delim [] c r H), Hr. reflexivity. Qed.

Lemma lexes_num b : lexes [Num b] (toks_num b).
Proof.
  intros r tr Hsd Hr. cbn [app lex_go].
  assert (Hg : glue_after r = false).
  { destruct r as [|[c|n|] r']; cbn [sd glue_after] in *; [reflexivity| |contradiction|reflexivity].
    unfold delim in Hsd. destruct (is_letter c); [discriminate|]. destruct (is_digit c); [discriminate|].
    destruct (Ascii.eqb c "."); [rewrite !andb_false_r in Hsd; discriminate|]. reflexivity. }
  rewrite Hg, Hr. unfold toks_num. destruct (b <? wk_two63); reflexivity.
Qed.

Lemma lexesD_app a b ta tb : lexesD a ta -> lexesD b tb -> lexesD (a ++ b) (ta ++ tb).
Proof. intros Ha Hb r tr Hr. rewrite <- !app_assoc. apply Ha, Hb, Hr. Qed.
Lemma lexesD_lexes_app a b ta tb : lexesD a ta -> lexes b tb -> lexes (a ++ b) (ta ++ tb).
Proof. intros Ha Hb r tr Hsd Hr. rewrite <- !app_assoc. apply Ha, Hb; assumption. Qed.
Lemma lexes_sdl_app a b ta tb : lexes a ta -> sdl b -> lexes b tb -> lexes (a ++ b) (ta ++ tb).
Proof.
  intros Ha Hs Hb r tr Hsd Hr. rewrite <- !app_assoc. apply Ha; [apply sd_app, Hs|]. apply Hb; assumption.
Qed.
Lemma lexes_sdl_appD a b ta tb : lexes a ta -> sdl b -> lexesD b tb -> lexesD (a ++ b) (ta ++ tb).
Proof.
  intros Ha Hs Hb r tr Hr. rewrite <- !app_assoc. apply Ha; [apply sd_app, Hs|]. apply Hb; assumption.
Qed.

Lemma lexesD_sp : lexesD [C " "%char] []. Proof. apply (lexesD_char " "). reflexivity. Qed.
Lemma lexesD_lp : lexesD [C "("%char] [ts_ (L "(")]. Proof. apply (lexesD_char "("). reflexivity. Qed.
Lemma lexesD_rp : lexesD [C ")"%char] [ts_ (L ")")]. Proof. apply (lexesD_char ")"). reflexivity. Qed.
Lemma lexesD_comma : lexesD [C ","%char] [ts_ (L ",")]. Proof. apply (lexesD_char ","). reflexivity. Qed.

Lemma lexes_empty nosp : lexes (text_empty nosp) [ts_ (L "EMPTY")].
Proof.
  destruct nosp; cbn [text_empty].
  - apply lexes_word; [reflexivity|discriminate].
  - apply (lexesD_lexes_app [C " "%char] _ [] _ lexesD_sp). apply lexes_word; [reflexivity|discriminate].
Qed.
Lemma sdl_empty : sdl (text_empty false). Proof. reflexivity. Qed.

(* X Y [Z] [M] without parentheses: ends open *)
Lemma lexes_num_cons b s ts : lexes s ts -> lexes (Num b :: C " "%char :: s) (toks_num b ++ ts).
Proof.
  intros Hs. change (Num b :: C " "%char :: s) with ([Num b] ++ [C " "%char] ++ s).
  apply lexes_sdl_app; [apply lexes_num|reflexivity|].
  apply (lexesD_lexes_app [C " "%char] s [] ts lexesD_sp Hs).
Qed.

Lemma lexes_coords_bare ct v : lexes (text_coords ct v false) (toks_vtx ct v).
Proof.
  unfold text_coords, toks_vtx.
  destruct (has_z ct), (has_m ct); cbn [app]; rewrite ?app_nil_r;
    repeat apply lexes_num_cons; apply lexes_num.
Qed.

Lemma text_coords_parens ct v :
  text_coords ct v true = [C "("%char] ++ text_coords ct v false ++ [C ")"%char].
Proof. unfold text_coords. cbn [app]. rewrite !app_nil_r, <- !app_assoc. reflexivity. Qed.

Lemma lexesD_coords_parens ct v :
  lexesD (text_coords ct v true) (ts_ (L "(") :: toks_vtx ct v ++ [ts_ (L ")")]).
Proof.
  rewrite text_coords_parens.
  apply (lexesD_app [C "("%char] _ [ts_ (L "(")] _ lexesD_lp).
  apply lexes_sdl_appD; [apply lexes_coords_bare|reflexivity|apply lexesD_rp].
Qed.

(* x1 , x2 , ... , xn ) *)
Lemma lexesD_join {A} (tf : bool -> A -> list ch) xs tks :
  Forall2 (fun x tk => lexes (tf true x) tk) xs tks -> xs <> [] ->
  lexesD (text_join tf true xs ++ [C ")"%char]) (sep_close tks).
Proof.
  induction 1 as [|x tk xs tks Hx HF IH]; intros Hne; [congruence|].
  destruct HF as [|y tk' ys tks' Hy HF'].
  - cbn [text_join text_rest flat_map sep_close]. rewrite app_nil_r.
    apply lexes_sdl_appD; [exact Hx|reflexivity|apply lexesD_rp].
  - specialize (IH ltac:(discriminate)).
    change (text_join tf true (x :: y :: ys)) with (tf true x ++ [C ","%char] ++ text_join tf true (y :: ys)).
    change (sep_close (tk :: tk' :: tks')) with (tk ++ [ts_ (L ",")] ++ sep_close (tk' :: tks')).
    rewrite <- !app_assoc.
    apply lexes_sdl_appD; [exact Hx|reflexivity|].
    apply (lexesD_app [C ","%char] _ [ts_ (L ",")] _ lexesD_comma). exact IH.
Qed.

(* EMPTY | ( x1 , ... , xn ) *)
Lemma lexes_members {A} (tf : bool -> A -> list ch) xs tks nosp :
  Forall2 (fun x tk => lexes (tf true x) tk) xs tks ->
  lexes (text_members tf nosp xs) (toks_list tks) /\ sdl (text_members tf false xs).
Proof.
  intros HF. destruct HF as [|x tk xs tks Hx HF].
  - split; [apply lexes_empty|reflexivity].
  - split; [|reflexivity]. cbn [text_members toks_list]. apply lexesD_lexes.
    apply (lexesD_app [C "("%char] _ [ts_ (L "(")] _ lexesD_lp).
    apply lexesD_join; [constructor; assumption|discriminate].
Qed.

Lemma Forall2_map_r {A B} (R : A -> B -> Prop) (f : A -> B) l :
  Forall (fun x => R x (f x)) l -> Forall2 R l (map f l).
Proof. induction 1; cbn; constructor; assumption. Qed.

Lemma lexes_point_body nosp p :
  lexes (text_point_body nosp p) (toks_point_body false p) /\ sdl (text_point_body false p).
Proof.
  destruct p as [ct [v|]]; cbn [text_point_body toks_point_body].
  - split; [apply lexesD_lexes, lexesD_coords_parens|reflexivity].
  - split; [apply lexes_empty|reflexivity].
Qed.

Lemma lexes_line_body nosp l :
  lexes (text_line_body nosp l) (toks_line_body l) /\ sdl (text_line_body false l).
Proof.
  destruct l as [ct vs]. cbn [text_line_body toks_line_body].
  apply lexes_members. apply Forall2_map_r, Forall_forall. intros v _. apply lexes_coords_bare.
Qed.

Lemma lexes_poly_body nosp p :
  lexes (text_poly_body nosp p) (toks_poly_body p) /\ sdl (text_poly_body false p).
Proof.
  unfold text_poly_body, toks_poly_body.
  apply lexes_members. apply Forall2_map_r, Forall_forall. intros l _. apply lexes_line_body.
Qed.

(* header followed by a body *)
Lemma lexes_tagged t ct body tb :
  (forall nosp, lexes (body nosp) tb) -> sdl (body false) ->
  lexes (text_header t ct ++ body (tag_nosp ct)) (T (kw_name t) :: toks_tag ct ++ tb).
Proof.
  intros Hb Hs. unfold text_header.
  assert (Hk : lexes (str (kw_name t)) [T (kw_name t)]).
  { apply lexes_word; destruct t; try reflexivity; discriminate. }
  assert (Hsp : forall w, forallb is_letter w = true -> w <> [] ->
                          lexesD ((C " "%char :: str w) ++ [C " "%char]) [T w]).
  { intros w Hw Hne. change (C " "%char :: str w) with ([C " "%char] ++ str w). rewrite <- app_assoc.
    apply (lexesD_app [C " "%char] _ [] [T w] lexesD_sp).
    rewrite <- (app_nil_r [T w]). apply lexes_sdl_appD; [apply lexes_word; assumption|reflexivity|apply lexesD_sp]. }
  rewrite <- app_assoc.
  destruct ct; cbn [ct_tag tag_nosp toks_tag].
  - apply (lexes_sdl_app _ (str [] ++ body false) [T (kw_name t)] tb Hk Hs (Hb false)).
  - apply (lexes_sdl_app _ (str (L " Z ") ++ body true) [T (kw_name t)] ([T (L "Z")] ++ tb) Hk); [reflexivity|].
    apply lexesD_lexes_app; [|apply Hb]. apply (Hsp (L "Z")); [reflexivity|discriminate].
  - apply (lexes_sdl_app _ (str (L " M ") ++ body true) [T (kw_name t)] ([T (L "M")] ++ tb) Hk); [reflexivity|].
    apply lexesD_lexes_app; [|apply Hb]. apply (Hsp (L "M")); [reflexivity|discriminate].
  - apply (lexes_sdl_app _ (str (L " ZM ") ++ body true) [T (kw_name t)] ([T (L "ZM")] ++ tb) Hk); [reflexivity|].
    apply lexesD_lexes_app; [|apply Hb]. apply (Hsp (L "ZM")); [reflexivity|discriminate].
Qed.

Lemma mapi_from_const {A B} (f : A -> B) l i : mapi_from i (fun _ x => f x) l = map f l.
Proof. revert i. induction l as [|x r IH]; intros i; cbn; [reflexivity|]. rewrite IH. reflexivity. Qed.

Lemma lexes_geom : forall (g : geomT N) path, lexes (text_geom g) (toks_at sp_default path g).
Proof.
  induction g as [p|l|p|ct ps|ct ls|ct ps|ct gs IH] using geomT_ind'; intros path;
    cbn [text_geom toks_at geom_type geom_ct sp_default sp_kw sp_bare].
  - apply (lexes_tagged TPoint (point_ct p) (fun n => text_point_body n p)).
    + intros n. apply lexes_point_body.
    + apply (lexes_point_body true p).
  - apply (lexes_tagged TLine (line_ct l) (fun n => text_line_body n l)).
    + intros n. apply lexes_line_body.
    + apply (lexes_line_body true l).
  - apply (lexes_tagged TPoly (poly_ct p) (fun n => text_poly_body n p)).
    + intros n. apply lexes_poly_body.
    + apply (lexes_poly_body true p).
  - rewrite mapi_from_const.
    assert (HF : Forall2 (fun x tk => lexes (text_point_body true x) tk) ps (map (toks_point_body false) ps)).
    { apply Forall2_map_r, Forall_forall. intros x _. apply lexes_point_body. }
    apply (lexes_tagged TMPoint ct (fun n => text_members text_point_body n ps)).
    + intros n. apply (lexes_members text_point_body ps _ n HF).
    + apply (lexes_members text_point_body ps _ true HF).
  - assert (HF : Forall2 (fun x tk => lexes (text_line_body true x) tk) ls (map toks_line_body ls)).
    { apply Forall2_map_r, Forall_forall. intros x _. apply lexes_line_body. }
    apply (lexes_tagged TMLine ct (fun n => text_members text_line_body n ls)).
    + intros n. apply (lexes_members text_line_body ls _ n HF).
    + apply (lexes_members text_line_body ls _ true HF).
  - assert (HF : Forall2 (fun x tk => lexes (text_poly_body true x) tk) ps (map toks_poly_body ps)).
    { apply Forall2_map_r, Forall_forall. intros x _. apply lexes_poly_body. }
    apply (lexes_tagged TMPoly ct (fun n => text_members text_poly_body n ps)).
    + intros n. apply (lexes_members text_poly_body ps _ n HF).
    + apply (lexes_members text_poly_body ps _ true HF).
  - set (tks := (fix go (i : nat) (l : list (geomT N)) : list (list tok) :=
                   match l with [] => [] | x :: r => toks_at sp_default (i :: path) x :: go (S i) r end) 0%nat gs).
    assert (HF : Forall2 (fun x tk => lexes ((fun _ y => text_geom y) true x) tk) gs tks).
    { subst tks. generalize 0%nat. induction IH as [|x r Hx Hr IHr]; intros i; constructor; [apply Hx|apply IHr]. }
    apply (lexes_tagged TColl ct (fun n => text_members (fun _ y => text_geom y) n gs)).
    + intros n. apply (lexes_members (fun _ y => text_geom y) gs _ n HF).
    + apply (lexes_members (fun _ y => text_geom y) gs _ true HF).
Qed.

(* lexing the produced text gives the OGC token sequence in its default spelling *)
Lemma lex_as_text (g : geomT N) : lex (as_text g) = Ok (toks sp_default g).
Proof.
  rewrite as_text_text. pose proof (lexes_geom g [] [] [] I eq_refl) as H.
  rewrite !app_nil_r in H. exact H.
Qed.

(* ================================================================== Part 3: parsing the tokens *)
Definition tparses {A} (p : TM A) (ts : list tok) (a : A) : Prop :=
  forall rest, p (ts ++ rest) = Ok (a, rest).

Lemma tparses_ret {A} (a : A) : tparses (tret a) [] a.
Proof. intros rest. reflexivity. Qed.

Lemma tparses_bind {A B} (p : TM A) (f : A -> TM B) t1 t2 x y :
  tparses p t1 x -> tparses (f x) t2 y -> tparses (tbind p f) (t1 ++ t2) y.
Proof. intros Hp Hf rest. unfold tbind. rewrite <- app_assoc, Hp. apply Hf. Qed.

Lemma tparses_bind_nil {A B} (p : TM A) (f : A -> TM B) t x y :
  tparses p t x -> tparses (f x) [] y -> tparses (tbind p f) t y.
Proof. intros Hp Hf. rewrite <- (app_nil_r t). eapply tparses_bind; eassumption. Qed.

Lemma fin_cases b : f_finite b = true ->
  (b <? wk_two63 = true /\ f_is_nan b = false /\ f_is_inf b = false) \/
  (b <? wk_two63 = false /\ (b - wk_two63 <? wk_two63) = true /\
   f_is_nan (b - wk_two63) = false /\ f_is_inf (b - wk_two63) = false /\ f_neg (b - wk_two63) = b).
Proof.
  unfold f_finite, f_is_nan, f_is_inf, f_neg, f_abs. intros H. apply andb_prop in H. destruct H as [H1 H2].
  apply N.ltb_lt in H1. destruct (b <? wk_two63) eqn:E.
  - left. apply N.ltb_lt in H2. repeat split.
    + apply N.ltb_ge. lia.
    + apply N.eqb_neq. lia.
  - right. apply N.ltb_ge in E. apply N.ltb_lt in H2.
    assert (E2 : b - wk_two63 <? wk_two63 = true) by (apply N.ltb_lt; unfold wk_two63, wk_two64 in *; lia).
    rewrite E2. repeat split.
    + apply N.ltb_ge. lia.
    + apply N.eqb_neq. lia.
    + unfold wk_two63 in *. lia.
Qed.

Lemma tparses_signed b : f_finite b = true -> tparses next_signed (toks_num b) b.
Proof.
  intros H rest. destruct (fin_cases b H) as [(E & Hn & Hi)|(E & E2 & Hn & Hi & Hneg)];
    unfold toks_num, next_signed; rewrite E; cbn [app]; unfold tbind, t_next, tret; cbn [tok_is ts_ leqb Ascii.eqb Bool.eqb andb strconv_parse].
  - rewrite Hn, Hi. reflexivity.
  - rewrite Hn, Hi. cbn [orb]. rewrite Hneg. reflexivity.
Qed.

Lemma vtx_eta (v : vtx N) : Build_vtx (vx v) (vy v) (vz v) (vm v) = v.
Proof. destruct v; reflexivity. Qed.

Lemma tparses_point ct v :
  vtx_fin ct v = true -> vtx_ok (N.eqb 0) ct v = true -> tparses (next_point ct) (toks_vtx ct v) v.
Proof.
  unfold vtx_fin, vtx_ok, next_point, toks_vtx. intros Hf Hk.
  apply andb_prop in Hf. destruct Hf as [Hf Hm]. apply andb_prop in Hf. destruct Hf as [Hf Hz].
  apply andb_prop in Hf. destruct Hf as [Hx Hy]. apply andb_prop in Hk. destruct Hk as [Kz Km].
  eapply tparses_bind; [apply tparses_signed, Hx|].
  eapply tparses_bind; [apply tparses_signed, Hy|].
  assert (Hopt : forall (h : bool) b, (negb h || f_finite b = true) -> (h || (0 =? b) = true) ->
            tparses (if h then next_signed else tret 0) (if h then toks_num b else []) b).
  { intros h b H1 H2. destruct h; cbn [negb orb] in *.
    - apply tparses_signed, H1.
    - apply N.eqb_eq in H2. subst b. apply tparses_ret. }
  eapply tparses_bind; [apply (Hopt (has_z ct) (vz v) Hz Kz)|].
  eapply tparses_bind_nil; [apply (Hopt (has_m ct) (vm v) Hm Km)|].
  rewrite vtx_eta. apply tparses_ret.
Qed.

Lemma tparses_rparen : tparses next_rparen [ts_ (L ")")] tt.
Proof. intros rest. reflexivity. Qed.
Lemma tparses_lparen : tparses next_empty_or_lparen [ts_ (L "(")] true.
Proof. intros rest. reflexivity. Qed.
Lemma tparses_emptyk : tparses next_empty_or_lparen [ts_ (L "EMPTY")] false.
Proof. intros rest. reflexivity. Qed.

Lemma sep_close_length tks : (length tks <= length (sep_close tks))%nat.
Proof.
  induction tks as [|tk r IH]; [cbn; lia|].
  destruct r as [|tk' r']; cbn [sep_close length] in *; rewrite ?app_length; cbn [length] in *; lia.
Qed.
Lemma sep_close_member_length tks tk : In tk tks -> (length tk < length (sep_close tks))%nat.
Proof.
  induction tks as [|t r IH]; [intros []|]. intros Hin.
  destruct r as [|t' r'].
  - destruct Hin as [->|[]]. cbn [sep_close]. rewrite app_length. cbn. lia.
  - change (sep_close (t :: t' :: r')) with (t ++ ts_ (L ",") :: sep_close (t' :: r')).
    rewrite app_length. cbn [length]. destruct Hin as [->|Hin]; [lia|]. specialize (IH Hin). lia.
Qed.

(* the list loop: x1 , x2 , ... , xn ) *)
Lemma tparses_sep_loop {A} (item : TM A) tks xs :
  Forall2 (tparses item) tks xs -> xs <> [] ->
  forall fuel, (length xs <= fuel)%nat -> tparses (sep_loop fuel item) (sep_close tks) xs.
Proof.
  induction 1 as [|tk x tks xs Hx HF IH]; intros Hne fuel Hfuel; [congruence|].
  destruct fuel as [|f]; [cbn in Hfuel; lia|]. cbn [length] in Hfuel.
  destruct HF as [|tk' y tks' ys Hy HF'].
  - cbn [sep_close sep_loop]. eapply tparses_bind; [exact Hx|].
    intros rest. reflexivity.
  - change (sep_close (tk :: tk' :: tks')) with (tk ++ [ts_ (L ",")] ++ sep_close (tk' :: tks')).
    cbn [sep_loop]. eapply tparses_bind; [exact Hx|].
    eapply (tparses_bind next_comma_or_rparen _ [ts_ (L ",")] _ true); [intros rest; reflexivity|].
    cbn beta iota. eapply tparses_bind_nil; [apply IH; [discriminate|cbn [length] in *; lia]|].
    apply tparses_ret.
Qed.

Lemma tparses_point_text ct c :
  point_fin (MkPoint ct c) = true -> point_ok (N.eqb 0) ct (MkPoint ct c) = true ->
  tparses (next_point_text ct) (toks_point_body false (MkPoint ct c)) (MkPoint ct c).
Proof.
  unfold point_ok. rewrite ct_eqb_refl. cbn [andb point_fin toks_point_body].
  destruct c as [v|]; intros Hf Hk; unfold next_point_text.
  - change (ts_ (L "(") :: toks_vtx ct v ++ [ts_ (L ")")]) with ([ts_ (L "(")] ++ toks_vtx ct v ++ [ts_ (L ")")]).
    eapply tparses_bind; [apply tparses_lparen|]. cbn beta iota.
    eapply tparses_bind; [apply tparses_point; assumption|].
    eapply tparses_bind_nil; [apply tparses_rparen|]. apply tparses_ret.
  - eapply tparses_bind_nil; [apply tparses_emptyk|]. apply tparses_ret.
Qed.

Lemma toks_num_head b : exists t r, toks_num b = t :: r /\ tok_is (L "(") t = false /\ tok_is (L "EMPTY") t = false /\
  (forall x, t_peek (t :: x) = Ok (t, t :: x)).
Proof. unfold toks_num. destruct (b <? wk_two63); eexists; eexists; repeat split. Qed.

Lemma tparses_mp_point ct c bare :
  point_fin (MkPoint ct c) = true -> point_ok (N.eqb 0) ct (MkPoint ct c) = true ->
  tparses (next_mp_point ct) (toks_point_body bare (MkPoint ct c)) (MkPoint ct c).
Proof.
  unfold point_ok. rewrite ct_eqb_refl. cbn [andb point_fin toks_point_body].
  destruct c as [v|]; intros Hf Hk.
  - destruct bare.
    + intros rest. unfold next_mp_point. unfold tbind at 1.
      destruct (toks_num_head (vx v)) as (t & r & E & E1 & E2 & Epk).
      assert (Ev : exists r', toks_vtx ct v = t :: r').
      { unfold toks_vtx. rewrite E. eexists. reflexivity. }
      destruct Ev as [r' Ev].
      assert (Hpk : t_peek (toks_vtx ct v ++ rest) = Ok (t, toks_vtx ct v ++ rest)) by (rewrite Ev; apply Epk).
      rewrite Hpk, E1, E2.
      pose proof (tparses_point ct v Hf Hk) as Hp.
      apply (tparses_bind_nil (next_point ct) _ _ v _ Hp). apply tparses_ret.
    + intros rest. unfold next_mp_point.
      change ((ts_ (L "(") :: toks_vtx ct v ++ [ts_ (L ")")]) ++ rest)
        with (ts_ (L "(") :: (toks_vtx ct v ++ [ts_ (L ")")]) ++ rest).
      unfold tbind at 1. cbn [t_peek]. change (tok_is (L "(") (ts_ (L "("))) with true. cbn iota.
      unfold tbind at 1. cbn [t_next].
      assert (Hp : tparses (doT v0 <- next_point ct; doT _ <- next_rparen; tret (MkPoint ct (Some v0)))
                           (toks_vtx ct v ++ [ts_ (L ")")]) (MkPoint ct (Some v))).
      { eapply tparses_bind; [apply tparses_point; assumption|].
        eapply tparses_bind_nil; [apply tparses_rparen|]. apply tparses_ret. }
      apply Hp.
  - intros rest. reflexivity.
Qed.

Lemma tparses_line_text fuel l :
  line_fin l = true -> line_ok (N.eqb 0) (line_ct l) l = true -> (length (toks_line_body l) <= fuel)%nat ->
  tparses (next_line_text fuel (line_ct l)) (toks_line_body l) l.
Proof.
  destruct l as [ct vs]. cbn [line_ct line_fin toks_line_body]. unfold line_ok. rewrite ct_eqb_refl. cbn [andb].
  intros Hf Hk Hfuel. unfold next_line_text. destruct vs as [|v vs'].
  - cbn [map toks_list]. eapply tparses_bind_nil; [apply tparses_emptyk|]. apply tparses_ret.
  - set (vs := v :: vs') in *. assert (Hne : vs <> []) by (subst vs; discriminate).
    replace (toks_list (map (toks_vtx ct) vs)) with ([ts_ (L "(")] ++ sep_close (map (toks_vtx ct) vs))
      in * by (subst vs; reflexivity).
    eapply tparses_bind; [apply tparses_lparen|]. cbn beta iota.
    eapply tparses_bind_nil; [|apply tparses_ret].
    apply tparses_sep_loop; [|exact Hne|].
    + apply WKB_proofs.forallb_Forall in Hf. apply WKB_proofs.forallb_Forall in Hk.
      clear Hfuel Hne. induction vs as [|a r IH]; cbn [map]; constructor.
      * apply tparses_point; [inversion Hf|inversion Hk]; assumption.
      * apply IH; [inversion Hf|inversion Hk]; assumption.
    + rewrite app_length in Hfuel. pose proof (sep_close_length (map (toks_vtx ct) vs)) as Hl.
      rewrite map_length in Hl. cbn [length] in Hfuel. lia.
Qed.

Lemma Forall2_map_l' {A B} (R : B -> A -> Prop) (f : A -> B) l :
  Forall (fun x => R (f x) x) l -> Forall2 R (map f l) l.
Proof. induction 1; cbn; constructor; assumption. Qed.

Lemma toks_list_cons {A} (f : A -> list tok) x r :
  toks_list (map f (x :: r)) = [ts_ (L "(")] ++ sep_close (map f (x :: r)).
Proof. reflexivity. Qed.

Lemma tparses_lines_text fuel ct ls :
  forallb line_fin ls = true -> forallb (line_ok (N.eqb 0) ct) ls = true ->
  (length (toks_list (map toks_line_body ls)) <= fuel)%nat ->
  tparses (next_lines_text fuel ct) (toks_list (map toks_line_body ls)) ls.
Proof.
  intros Hf Hk Hfuel. unfold next_lines_text. destruct ls as [|l ls'].
  - eapply tparses_bind_nil; [apply tparses_emptyk|]. apply tparses_ret.
  - rewrite toks_list_cons in *. set (ls := l :: ls') in *.
    eapply tparses_bind; [apply tparses_lparen|]. cbn beta iota.
    rewrite app_length in Hfuel. cbn [length] in Hfuel.
    apply tparses_sep_loop; [|subst ls; discriminate|].
    + apply Forall2_map_l'. apply Forall_forall. intros x Hx.
      apply WKB_proofs.forallb_Forall in Hf. apply WKB_proofs.forallb_Forall in Hk.
      rewrite Forall_forall in Hf, Hk.
      destruct (WKB_proofs.force_line_id ct x (Hk x Hx)) as [_ Hct].
      rewrite <- Hct. apply tparses_line_text; [apply Hf, Hx|rewrite Hct; apply Hk, Hx|].
      pose proof (sep_close_member_length (map toks_line_body ls) (toks_line_body x) (in_map _ _ _ Hx)). lia.
    + pose proof (sep_close_length (map toks_line_body ls)) as Hl. rewrite map_length in Hl. lia.
Qed.

Lemma tparses_poly_text fuel p :
  poly_fin p = true -> poly_ok (N.eqb 0) (poly_ct p) p = true ->
  (length (toks_poly_body p) <= fuel)%nat ->
  tparses (next_poly_text fuel (poly_ct p)) (toks_poly_body p) p.
Proof.
  destruct p as [ct rs]. unfold poly_fin, toks_poly_body, poly_ok. cbn [poly_ct poly_rings].
  rewrite ct_eqb_refl. cbn [andb]. intros Hf Hk Hfuel. unfold next_poly_text.
  eapply tparses_bind_nil; [apply tparses_lines_text; eassumption|].
  destruct rs as [|r rs']; [apply tparses_ret|].
  rewrite (WKB_proofs.new_polygon_id ct (r :: rs')); [apply tparses_ret|discriminate|exact Hk].
Qed.

(* ---- the tagged production ---- *)
Definition geom_body (f : nat) (t : gtype) (ct : ctype) : TM (geomT N) :=
  match t with
  | TPoint => doT p <- next_point_text ct; tret (GPoint p)
  | TLine => doT l <- next_line_text f ct; tret (GLine l)
  | TPoly => doT p <- next_poly_text f ct; tret (GPoly p)
  | TMPoint =>
      doT lp <- next_empty_or_lparen;
      if lp then doT ps <- sep_loop f (next_mp_point ct); tret (new_multipoint 0 ps)
      else tret (GMPoint ct [])
  | TMLine =>
      doT ls <- next_lines_text f ct;
      match ls with [] => tret (GMLine ct []) | _ :: _ => tret (new_multiline 0 ls) end
  | TMPoly =>
      doT lp <- next_empty_or_lparen;
      if lp then doT ps <- sep_loop f (next_poly_text f ct); tret (new_multipoly 0 ps)
      else tret (GMPoly ct [])
  | TColl =>
      doT lp <- next_empty_or_lparen;
      doT gs <- (if lp then sep_loop f (parse_geom f) else tret []);
      if coll_cts_ok ct gs then
        match gs with [] => tret (GColl ct []) | _ :: _ => tret (new_collection 0 gs) end
      else tfail ECollDims
  end.

Lemma parse_geom_S f ts :
  parse_geom (S f) ts =
  match next_geom_tag ts with
  | Ok ((name, ct), r) =>
      match gtype_of_name name with None => Err ESyntax | Some t => geom_body f t ct r end
  | Err e => Err e
  | Panic p => Panic p
  end.
Proof.
  cbn [parse_geom]. unfold tbind at 1. destruct (next_geom_tag ts) as [[[name ct] r]|e|p]; try reflexivity.
  destruct (gtype_of_name name) as [[]|]; reflexivity.
Qed.

(* first token of a body: "(" or "EMPTY", never a Z/M/ZM tag *)
Definition body_start (ts : list tok) : Prop :=
  exists b bs, ts = b :: bs /\ (b = ts_ (L "(") \/ b = ts_ (L "EMPTY")).

Lemma body_start_list tks : body_start (toks_list tks).
Proof. destruct tks; eexists; eexists; split; try reflexivity; auto. Qed.
Lemma body_start_point p : body_start (toks_point_body false p).
Proof. destruct p as [ct [v|]]; eexists; eexists; split; try reflexivity; auto. Qed.

Lemma gtype_of_kw t : gtype_of_name (kw_name t) = Some t.
Proof. destruct t; reflexivity. Qed.

Lemma geom_tag_spec kw t ct body rest :
  map to_upper kw = kw_name t -> body_start body ->
  next_geom_tag ((T kw :: toks_tag ct ++ body) ++ rest) = Ok ((kw_name t, ct), body ++ rest).
Proof.
  intros Hkw (b & bs & -> & Hb). unfold next_geom_tag, tbind, t_next. cbn [app]. rewrite Hkw.
  destruct ct; cbn [toks_tag app t_peek]; try reflexivity.
  destruct Hb as [->| ->]; reflexivity.
Qed.

Lemma tparses_tagged f kw t ct body (g : geomT N) :
  map to_upper kw = kw_name t -> body_start body ->
  tparses (geom_body f t ct) body g ->
  tparses (parse_geom (S f)) (T kw :: toks_tag ct ++ body) g.
Proof.
  intros Hkw Hbs Hb rest. rewrite parse_geom_S, (geom_tag_spec kw t ct body rest Hkw Hbs), gtype_of_kw.
  apply Hb.
Qed.

Lemma body_len_le f (kw : list ascii) ct (body : list tok) :
  (length (T kw :: toks_tag ct ++ body) <= S f)%nat -> (length body <= f)%nat.
Proof. cbn [length]. rewrite app_length. lia. Qed.

Lemma list_body_len {X} (tks : list (list tok)) (xs : list X) f :
  length tks = length xs -> xs <> [] -> (length (toks_list tks) <= f)%nat ->
  (length xs <= f)%nat /\ (forall tk, In tk tks -> (length tk <= f)%nat).
Proof.
  intros Hl Hne Hf. destruct tks as [|t r]; [destruct xs; [congruence|discriminate]|].
  change (toks_list (t :: r)) with (ts_ (L "(") :: sep_close (t :: r)) in Hf. cbn [length] in Hf.
  pose proof (sep_close_length (t :: r)) as H1. split; [rewrite <- Hl; lia|].
  intros tk Hin. pose proof (sep_close_member_length (t :: r) tk Hin). lia.
Qed.

Lemma mapi_from_length {A B} (f : nat -> A -> B) l i : length (mapi_from i f l) = length l.
Proof. revert i. induction l; intros i; cbn; [reflexivity|]. rewrite IHl. reflexivity. Qed.

Lemma mp_members_parse (bare : nat -> bool) ct ps : 
  Forall (fun p => point_fin p = true) ps -> Forall (fun p => point_ok (N.eqb 0) ct p = true) ps ->
  forall i, Forall2 (tparses (next_mp_point ct)) (mapi_from i (fun i p => toks_point_body (bare i) p) ps) ps.
Proof.
  induction ps as [|q r IHr]; intros Hf Hk i; cbn [mapi_from]; constructor.
  - inversion Hf; inversion Hk; subst. destruct q as [c o].
    assert (c = ct) by (unfold point_ok in *; apply ct_eqb_eq; match goal with H : _ && _ = true |- _ => apply andb_prop in H; apply H end).
    subst c. apply tparses_mp_point; assumption.
  - apply IHr; [inversion Hf|inversion Hk]; assumption.
Qed.

Definition coll_toks (sp : spelling) (path : list nat) :=
  fix go (i : nat) (l : list (geomT N)) : list (list tok) :=
    match l with [] => [] | x :: r => toks_at sp (i :: path) x :: go (S i) r end.

Lemma coll_toks_length sp path gs i : length (coll_toks sp path i gs) = length gs.
Proof. revert i. induction gs as [|a r IHr]; intros i; cbn [coll_toks length]; [reflexivity|]. rewrite IHr. reflexivity. Qed.

Lemma toks_list_ne tks : tks <> [] -> toks_list tks = [ts_ (L "(")] ++ sep_close tks.
Proof. destruct tks; [congruence|reflexivity]. Qed.

Lemma coll_members_parse sp path f ct gs :
  Forall (fun g => forall path f ct, geom_fin g = true -> geom_ok (N.eqb 0) ct g = true ->
                   (length (toks_at sp path g) <= f)%nat -> tparses (parse_geom f) (toks_at sp path g) g) gs ->
  Forall (fun g => geom_fin g = true) gs -> Forall (fun g => geom_ok (N.eqb 0) ct g = true) gs ->
  forall i, (forall tk, In tk (coll_toks sp path i gs) -> (length tk <= f)%nat) ->
  Forall2 (tparses (parse_geom f)) (coll_toks sp path i gs) gs.
Proof.
  induction 1 as [|a r Ha Hr IHr]; intros Hf Hk i Hm; cbn [coll_toks]; constructor.
  - inversion Hf; inversion Hk; subst. apply (Ha (i :: path) f ct); try assumption.
    apply Hm. left. reflexivity.
  - inversion Hf; inversion Hk; subst. apply IHr; try assumption.
    intros tk Hin. apply Hm. right. exact Hin.
Qed.

Lemma tparses_geom sp : spelling_ok sp ->
  forall (g : geomT N) path f ct,
    geom_fin g = true -> geom_ok (N.eqb 0) ct g = true ->
    (length (toks_at sp path g) <= f)%nat ->
    tparses (parse_geom f) (toks_at sp path g) g.
Proof.
  intros Hsp.
  induction g as [p|l|p|c ps|c ls|c ps|c gs IH] using geomT_ind'; intros path f ct Hfin Hok Hlen;
    (destruct f as [|f]; [cbn in Hlen; lia|]); cbn [toks_at geom_type geom_ct] in *;
    apply body_len_le in Hlen.
  - (* Point *)
    destruct p as [c o]. cbn [point_ct] in *. cbn [geom_fin geom_ok] in *.
    assert (Hc : c = ct) by (unfold point_ok in Hok; apply andb_prop in Hok; apply ct_eqb_eq, Hok). subst c.
    apply (tparses_tagged f _ TPoint ct); [apply Hsp|apply body_start_point|].
    cbn [geom_body]. eapply tparses_bind_nil; [apply tparses_point_text; assumption|apply tparses_ret].
  - (* LineString *)
    cbn [geom_fin geom_ok] in *. destruct (WKB_proofs.force_line_id ct l Hok) as [_ Hc].
    apply (tparses_tagged f _ TLine (line_ct l)); [apply Hsp|destruct l; apply body_start_list|].
    cbn [geom_body]. eapply tparses_bind_nil; [apply tparses_line_text; try assumption; rewrite Hc; assumption|apply tparses_ret].
  - (* Polygon *)
    cbn [geom_fin geom_ok] in *. destruct (WKB_proofs.force_poly_id ct p Hok) as [_ Hc].
    apply (tparses_tagged f _ TPoly (poly_ct p)); [apply Hsp|apply body_start_list|].
    cbn [geom_body]. eapply tparses_bind_nil; [apply tparses_poly_text; try assumption; rewrite Hc; assumption|apply tparses_ret].
  - (* MultiPoint *)
    cbn [geom_fin geom_ok] in *. apply andb_prop in Hok. destruct Hok as [Hc Hok]. apply ct_eqb_eq in Hc. subst c.
    apply (tparses_tagged f _ TMPoint ct); [apply Hsp|apply body_start_list|]. cbn [geom_body].
    destruct ps as [|p0 ps'].
    { eapply tparses_bind_nil; [apply tparses_emptyk|apply tparses_ret]. }
    set (ps := p0 :: ps') in *. set (tks := mapi_from 0 _ ps) in *.
    assert (Hne : ps <> []) by (subst ps; discriminate).
    assert (Hl : length tks = length ps) by (subst tks; apply mapi_from_length).
    destruct (list_body_len tks ps f Hl Hne Hlen) as [Hn _].
    replace (toks_list tks) with ([ts_ (L "(")] ++ sep_close tks) by (subst tks ps; reflexivity).
    eapply tparses_bind; [apply tparses_lparen|]. cbn beta iota.
    eapply tparses_bind_nil; [apply tparses_sep_loop; [|exact Hne|exact Hn]|].
    + subst tks. apply (mp_members_parse (fun i => sp_bare sp (i :: path))); apply WKB_proofs.forallb_Forall; assumption.
    + rewrite (WKB_proofs.new_multipoint_id ct ps Hne Hok). apply tparses_ret.
  - (* MultiLineString *)
    cbn [geom_fin geom_ok] in *. apply andb_prop in Hok. destruct Hok as [Hc Hok]. apply ct_eqb_eq in Hc. subst c.
    apply (tparses_tagged f _ TMLine ct); [apply Hsp|apply body_start_list|]. cbn [geom_body].
    eapply tparses_bind_nil; [apply tparses_lines_text; eassumption|].
    destruct ls as [|l0 ls']; [apply tparses_ret|].
    rewrite (WKB_proofs.new_multiline_id ct (l0 :: ls')); [apply tparses_ret|discriminate|exact Hok].
  - (* MultiPolygon *)
    cbn [geom_fin geom_ok] in *. apply andb_prop in Hok. destruct Hok as [Hc Hok]. apply ct_eqb_eq in Hc. subst c.
    apply (tparses_tagged f _ TMPoly ct); [apply Hsp|apply body_start_list|]. cbn [geom_body].
    destruct ps as [|p0 ps'].
    { eapply tparses_bind_nil; [apply tparses_emptyk|apply tparses_ret]. }
    set (ps := p0 :: ps') in *. set (tks := map toks_poly_body ps) in *.
    assert (Hne : ps <> []) by (subst ps; discriminate).
    assert (Hl : length tks = length ps) by (subst tks; apply map_length).
    destruct (list_body_len tks ps f Hl Hne Hlen) as [Hn Hm].
    replace (toks_list tks) with ([ts_ (L "(")] ++ sep_close tks) by (subst tks ps; reflexivity).
    eapply tparses_bind; [apply tparses_lparen|]. cbn beta iota.
    eapply tparses_bind_nil; [apply tparses_sep_loop; [|exact Hne|exact Hn]|].
    + subst tks. apply Forall2_map_l'. apply Forall_forall. intros x Hx.
      apply WKB_proofs.forallb_Forall in Hfin. apply WKB_proofs.forallb_Forall in Hok.
      rewrite Forall_forall in Hfin, Hok.
      destruct (WKB_proofs.force_poly_id ct x (Hok x Hx)) as [_ Hct]. rewrite <- Hct.
      apply tparses_poly_text; [apply Hfin, Hx|rewrite Hct; apply Hok, Hx|apply Hm, in_map, Hx].
    + rewrite (WKB_proofs.new_multipoly_id ct ps Hne Hok). apply tparses_ret.
  - (* GeometryCollection *)
    cbn [geom_fin geom_ok] in *. apply andb_prop in Hok. destruct Hok as [Hc Hok]. apply ct_eqb_eq in Hc. subst c.
    apply (tparses_tagged f _ TColl ct); [apply Hsp|apply body_start_list|]. cbn [geom_body].
    change (toks_list _) with (toks_list (coll_toks sp path 0 gs)) in *.
    assert (Hcase : gs = [] \/ gs <> []) by (destruct gs; [left|right]; congruence).
    destruct Hcase as [->|Hne].
    { eapply tparses_bind_nil; [apply tparses_emptyk|]. cbn beta iota.
      eapply tparses_bind_nil; [apply tparses_ret|]. destruct ct; apply tparses_ret. }
    set (tks := coll_toks sp path 0 gs) in *.
    assert (Htl : length tks = length gs) by apply coll_toks_length.
    destruct (list_body_len tks gs f Htl Hne Hlen) as [Hn Hm].
    rewrite (toks_list_ne tks) by (intros E; rewrite E in Htl; destruct gs; [congruence|discriminate]).
    apply WKB_proofs.forallb_Forall in Hfin. pose proof Hok as Hok'. apply WKB_proofs.forallb_Forall in Hok.
    eapply tparses_bind; [apply tparses_lparen|]. cbn beta iota.
    eapply tparses_bind_nil; [apply tparses_sep_loop; [|exact Hne|exact Hn]|].
    + subst tks. apply coll_members_parse with (ct := ct); assumption.
    + assert (Hcts : coll_cts_ok ct gs = true).
      { assert (Hall : Forall (fun x => geom_ct x = ct) gs).
        { eapply Forall_impl; [|exact Hok]. intros x Hx. apply (WKB_proofs.force_geom_id ct x Hx). }
        unfold coll_cts_ok. apply andb_true_intro. split.
        - destruct ct; try reflexivity; apply WKB_proofs.forallb_Forall;
            (eapply Forall_impl; [|exact Hall]); intros x Hx; rewrite Hx; reflexivity.
        - destruct gs as [|g0 gs']; [reflexivity|]. pose proof (Forall_inv Hall) as Hg0. pose proof (Forall_inv_tail Hall) as Hrest. cbn beta in Hg0.
          apply WKB_proofs.forallb_Forall.
          eapply Forall_impl; [|exact Hrest]. intros x Hx. cbn beta. rewrite Hx, Hg0. apply ct_eqb_refl. }
      rewrite Hcts. rewrite (WKB_proofs.new_collection_id ct gs Hne Hok'). destruct gs; [congruence|apply tparses_ret].
Qed.

(* ================================================================== Part 4: whitespace spellings *)
Lemma ws_delim c : is_ws c = true -> delim c = true.
Proof.
  unfold is_ws, delim, is_letter, is_upper, is_lower, is_digit. intros H.
  assert (Hc : code c = 9 \/ code c = 10 \/ code c = 13 \/ code c = 32).
  { repeat (apply orb_prop in H; destruct H as [H|H]); apply N.eqb_eq in H; auto. }
  assert (Hd : Ascii.eqb c "." = false).
  { apply Ascii.eqb_neq. intros ->. cbn in Hc. lia. }
  rewrite Hd. destruct Hc as [E|[E|[E|E]]]; rewrite E; reflexivity.
Qed.

Lemma lex_ws w R : forallb is_ws w = true -> lex_go [] (map C w ++ R) = lex_go [] R.
Proof.
  induction w as [|a w IH]; intros H; [reflexivity|]. cbn [forallb] in H. apply andb_prop in H. destruct H as [Ha Hw].
  cbn [map app]. rewrite (lex_delim [] a _ (ws_delim a Ha)), (IH Hw). unfold sep_tok. rewrite Ha.
  destruct (lex_go [] R); reflexivity.
Qed.

Lemma lex_ident l : forallb (fun x => is_letter x || is_digit x) l = true ->
  forall cur R, cur <> [] -> lex_go cur (map C l ++ R) = lex_go (rev l ++ cur) R.
Proof.
  induction l as [|a l IH]; intros H cur R Hne; [reflexivity|].
  cbn [forallb] in H. apply andb_prop in H. destruct H as [Ha Hl].
  cbn [map app lex_go rev]. rewrite <- app_assoc. cbn [app].
  destruct (is_letter a).
  - apply IH; [exact Hl|discriminate].
  - cbn [orb] in Ha. rewrite Ha. destruct cur; [congruence|]. apply IH; [exact Hl|discriminate].
Qed.

Lemma sd_glue R : sd R -> glue_after R = false /\ (match R with Num _ :: _ => true | _ => false end) = false.
Proof.
  destruct R as [|[c|n|] R']; cbn [sd glue_after]; intros H; [auto| |contradiction|auto]. split; [|reflexivity].
  unfold delim in H. destruct (is_letter c); [discriminate|]. destruct (is_digit c); [discriminate|].
  destruct (Ascii.eqb c "."); [rewrite !andb_false_r in H; discriminate|]. reflexivity.
Qed.

Lemma spell_cons t w r :
  spell [] ((t, w) :: r) = tok_text t ++ map C w ++ spell [] r.
Proof. unfold spell. cbn [map app flat_map fst snd]. rewrite <- app_assoc. reflexivity. Qed.

(* a well-formed token that does not start a word or number and is not "." is one delimiter *)
Lemma punct_shape t :
  tok_wf t = true -> tok_alnum_start t = false -> tok_dot t = false ->
  exists c, t = T [c] /\ delim c = true /\ is_ws c = false.
Proof.
  destruct t as [[|c l]|b|]; cbn [tok_wf tok_alnum_start tok_dot]; try discriminate.
  intros Hwf Hs Hd. rewrite Hs in Hwf. destruct l; [|discriminate].
  exists c. split; [reflexivity|]. unfold delim. rewrite Hs, Hd.
  apply andb_prop in Hwf. destruct Hwf as [Hwf H128]. apply andb_prop in Hwf. destruct Hwf as [Hwf H0].
  apply andb_prop in Hwf. destruct Hwf as [Hdg Hws].
  apply negb_true_iff in Hdg, Hws, H0. rewrite Hdg, H0. cbn [negb andb]. split; [|exact Hws].
  apply N.ltb_lt in H128. destruct (128 <=? code c) eqn:E; [apply N.leb_le in E; lia|reflexivity].
Qed.

Lemma spell_sd t w r :
  spell_ok ((t, w) :: r) = true -> (tok_alnum_end t || tok_dot t) = true -> sd (map C w ++ spell [] r).
Proof.
  cbn [spell_ok]. intros H Ht. apply andb_prop in H. destruct H as [H Hr].
  apply andb_prop in H. destruct H as [H Hnext]. apply andb_prop in H. destruct H as [Hwf Hws].
  destruct w as [|a w'].
  - cbn [map app]. destruct r as [|[t' w'] r']; [exact I|].
    rewrite Ht in Hnext. cbn [andb] in Hnext. apply negb_true_iff in Hnext. apply orb_false_elim in Hnext.
    destruct Hnext as [Hs Hd]. cbn [spell_ok] in Hr. apply andb_prop in Hr. destruct Hr as [Hr _].
    apply andb_prop in Hr. destruct Hr as [Hr _]. apply andb_prop in Hr. destruct Hr as [Hwf' _].
    destruct (punct_shape t' Hwf' Hs Hd) as (c & -> & Hc & _). rewrite spell_cons. exact Hc.
  - cbn [forallb] in Hws. apply andb_prop in Hws. cbn [map app sd]. apply ws_delim, Hws.
Qed.

Lemma lex_spell_items items :
  spell_ok items = true -> lex_go [] (spell [] items) = Ok (map fst items).
Proof.
  induction items as [|[t w] r IH]; intros Hok; [reflexivity|].
  pose proof Hok as Hok0. cbn [spell_ok] in Hok. apply andb_prop in Hok. destruct Hok as [H Hr].
  apply andb_prop in H. destruct H as [H Hnext]. apply andb_prop in H. destruct H as [Hwf Hws].
  specialize (IH Hr). rewrite spell_cons. cbn [map fst].
  assert (HR : lex_go [] (map C w ++ spell [] r) = Ok (map fst r)) by (rewrite (lex_ws w _ Hws); exact IH).
  destruct t as [[|c l]|b|]; cbn [tok_wf] in Hwf; [discriminate| | |discriminate].
  - destruct (is_letter c) eqn:Ec.
    + (* identifier *)
      cbn [tok_text map app lex_go]. rewrite Ec.
      rewrite (lex_ident l Hwf [c] _ ltac:(discriminate)).
      rewrite (lex_flush _ _ (spell_sd _ w r Hok0 ltac:(cbn [tok_alnum_end]; rewrite Ec; reflexivity))), HR.
      cbn [bind]. unfold flush. destruct (rev l ++ [c]) eqn:E; [destruct (rev l); discriminate|].
      rewrite <- E, rev_app_distr, rev_involutive. reflexivity.
    + (* one punctuation character *)
      destruct l; [|discriminate].
      apply andb_prop in Hwf. destruct Hwf as [Hwf H128]. apply andb_prop in Hwf. destruct Hwf as [Hwf H0].
      apply andb_prop in Hwf. destruct Hwf as [Hdg Hwsc].
      apply negb_true_iff in Hdg, Hwsc, H0. apply N.ltb_lt in H128.
      assert (E128 : (128 <=? code c) = false) by (destruct (128 <=? code c) eqn:E; [apply N.leb_le in E; lia|reflexivity]).
      cbn [tok_text map app lex_go]. rewrite Ec, Hdg, H0, E128.
      destruct (Ascii.eqb c ".") eqn:Edot.
      * assert (Hsd : sd (map C w ++ spell [] r)).
        { apply (spell_sd (T [c]) w r Hok0). cbn [tok_alnum_end tok_dot]. rewrite Edot. apply orb_true_r. }
        destruct (sd_glue _ Hsd) as [_ Hn]. rewrite Hn. cbn [andb]. rewrite HR, Hwsc. reflexivity.
      * cbn [andb]. rewrite HR, Hwsc. reflexivity.
  - (* number *)
    assert (Hsd : sd (map C w ++ spell [] r)) by (apply (spell_sd (TNum b) w r Hok0); reflexivity).
    destruct (sd_glue _ Hsd) as [Hg _].
    cbn [tok_text app lex_go]. rewrite Hg, Hwf, HR. reflexivity.
Qed.

(* every whitespace spelling of a token sequence lexes back to exactly that sequence *)
Lemma lex_spell pre items :
  forallb is_ws pre = true -> spell_ok items = true -> lex (spell pre items) = Ok (map fst items).
Proof.
  intros Hp Hi. unfold lex. change (spell pre items) with (map C pre ++ spell [] items).
  rewrite (lex_ws pre _ Hp). apply lex_spell_items, Hi.
Qed.

(* ================================================================== Part 5: the theorems *)
Lemma spelling_ok_default : spelling_ok sp_default.
Proof. intros p t. destruct t; reflexivity. Qed.

Lemma wkt_dom_split (g : geomT N) :
  wkt_dom g = true -> geom_fin g = true /\ geom_ok (N.eqb 0) (geom_ct g) g = true.
Proof. unfold wkt_dom, consistent. intros H. apply andb_prop in H. exact H. Qed.

Lemma parse_toks_rest sp (g : geomT N) rest :
  spelling_ok sp -> wkt_dom g = true ->
  parse_geom (S (length (toks sp g ++ rest))) (toks sp g ++ rest) = Ok (g, rest).
Proof.
  intros Hsp Hd. destruct (wkt_dom_split g Hd) as [Hf Hk].
  apply (tparses_geom sp Hsp g [] _ (geom_ct g) Hf Hk). rewrite app_length. unfold toks. lia.
Qed.

(* every keyword-case / MultiPoint-parenthesis variant of the token sequence parses to g *)
Lemma wkt_parse_toks_lemma sp (g : geomT N) :
  spelling_ok sp -> wkt_dom g = true -> parse (toks sp g) = Ok g.
Proof.
  intros Hsp Hd. unfold parse. pose proof (parse_toks_rest sp g [] Hsp Hd) as H.
  rewrite app_nil_r in H. rewrite H. reflexivity.
Qed.

Lemma wkt_roundtrip_lemma (g : geomT N) : wkt_dom g = true -> unmarshal_wkt (as_text g) = Ok g.
Proof.
  intros Hd. unfold unmarshal_wkt. rewrite lex_as_text. cbn [bind].
  apply wkt_parse_toks_lemma; [apply spelling_ok_default|exact Hd].
Qed.

(* any blank-spelling of any keyword-case / parenthesis variant of the produced text parses to g *)
Lemma wkt_respell_lemma sp (g : geomT N) pre items :
  spelling_ok sp -> wkt_dom g = true ->
  forallb is_ws pre = true -> spell_ok items = true -> map fst items = toks sp g ->
  unmarshal_wkt (spell pre items) = Ok g.
Proof.
  intros Hsp Hd Hp Hi Hm. unfold unmarshal_wkt. rewrite (lex_spell pre items Hp Hi), Hm. cbn [bind].
  apply wkt_parse_toks_lemma; assumption.
Qed.

(* two blank-spellings of the same token sequence have the same parse result, whatever it is *)
Lemma wkt_ws_insensitive_lemma pre1 items1 pre2 items2 :
  forallb is_ws pre1 = true -> spell_ok items1 = true ->
  forallb is_ws pre2 = true -> spell_ok items2 = true ->
  map fst items1 = map fst items2 ->
  unmarshal_wkt (spell pre1 items1) = unmarshal_wkt (spell pre2 items2).
Proof.
  intros H1 H2 H3 H4 Hm. unfold unmarshal_wkt. rewrite (lex_spell _ _ H1 H2), (lex_spell _ _ H3 H4), Hm.
  reflexivity.
Qed.

Lemma wkt_trailing_rejected_lemma sp (g : geomT N) t ts :
  spelling_ok sp -> wkt_dom g = true -> parse (toks sp g ++ t :: ts) = Err ESyntax.
Proof.
  intros Hsp Hd. unfold parse. rewrite (parse_toks_rest sp g (t :: ts) Hsp Hd). destruct t; reflexivity.
Qed.

(* the geometry obtained from the text equals the one obtained from the same geometry's WKB *)
Lemma wkt_equals_wkb_lemma (g : geomT N) :
  wkt_dom g = true -> WKB.wf_wkb g = true ->
  unmarshal_wkt (as_text g) = omap fst (WKB.dec (WKB.enc g)).
Proof.
  intros Hd Hw. rewrite (wkt_roundtrip_lemma g Hd).
  pose proof (WKB_proofs.wkb_roundtrip_lemma (fun _ => Bytes.LE) g [] Hw) as H.
  rewrite app_nil_r in H. unfold WKB.enc. rewrite H. reflexivity.
Qed.

(* ================================================================== Part 6: keyword case, every token sequence *)
(* Two tokens are case variants when they are equal, or both are words (letters only) with the same
   upper-casing and neither is one of the case-sensitive words Z M ZM EMPTY. *)
Definition reserved (l : list ascii) : bool :=
  leqb l (L "Z") || leqb l (L "M") || leqb l (L "ZM") || leqb l (L "EMPTY").
Inductive teq : tok -> tok -> Prop :=
| teq_refl t : teq t t
| teq_case l l' :
    forallb is_letter l = true -> forallb is_letter l' = true ->
    map to_upper l = map to_upper l' -> reserved l = false -> reserved l' = false ->
    teq (T l) (T l').
Definition teqs := Forall2 teq.

Lemma teqs_refl ts : teqs ts ts.
Proof. induction ts; constructor; [apply teq_refl|assumption]. Qed.

Lemma leqb_eq a b : leqb a b = true -> a = b.
Proof.
  revert b. induction a as [|x a IH]; intros [|y b]; cbn; try discriminate; [reflexivity|].
  intros H. apply andb_prop in H. destruct H as [H1 H2]. apply Ascii.eqb_eq in H1. f_equal; auto.
Qed.

(* results of two runs on case-variant inputs *)
Definition rel_out {A B} (Q : A -> B -> Prop) (x : outcome (A * list tok)) (y : outcome (B * list tok)) : Prop :=
  match x, y with
  | Ok (a, r), Ok (b, r') => Q a b /\ teqs r r'
  | Err e, Err e' => e = e'
  | Panic p, Panic p' => p = p'
  | _, _ => False
  end.
Definition resp {A B} (Q : A -> B -> Prop) (p : TM A) (p' : TM B) : Prop :=
  forall ts ts', teqs ts ts' -> rel_out Q (p ts) (p' ts').

Lemma resp_ret {A B} (Q : A -> B -> Prop) a b : Q a b -> resp Q (tret a) (tret b).
Proof. intros H ts ts' Hts. cbn. auto. Qed.
Lemma resp_fail {A B} (Q : A -> B -> Prop) e : resp Q (tfail e) (tfail e).
Proof. intros ts ts' Hts. reflexivity. Qed.
Lemma resp_bind {A B A' B'} (Q : A -> B -> Prop) (Q' : A' -> B' -> Prop) p p' f f' :
  resp Q p p' -> (forall a b, Q a b -> resp Q' (f a) (f' b)) -> resp Q' (tbind p f) (tbind p' f').
Proof.
  intros Hp Hf ts ts' Hts. specialize (Hp ts ts' Hts). unfold tbind, rel_out in *.
  destruct (p ts) as [[a r]|e|x], (p' ts') as [[b r']|e'|x']; try contradiction; try assumption.
  destruct Hp as [Hq Hr]. apply (Hf a b Hq r r' Hr).
Qed.

Lemma resp_next : resp teq t_next t_next.
Proof.
  intros ts ts' H. destruct H as [|x y l l' Hxy Hl]; cbn; auto.
  destruct Hxy as [[]|]; cbn; auto using teq_refl, teq_case.
Qed.
Lemma resp_peek : resp teq t_peek t_peek.
Proof.
  intros ts ts' H. destruct H as [|x y l l' Hxy Hl]; cbn; auto.
  destruct Hxy as [[]|]; cbn; auto; (split; [auto using teq_refl, teq_case|constructor; auto using teq_refl, teq_case]).
Qed.

Lemma teq_tok_is x t t' :
  (reserved x = true \/ exists c, x = [c] /\ is_letter c = false) -> teq t t' -> tok_is x t = tok_is x t'.
Proof.
  intros Hx H. destruct H as [t|l l' Hl Hl' Hu Hr Hr']; [reflexivity|]. cbn [tok_is].
  assert (Hno : forall m, forallb is_letter m = true -> reserved m = false -> leqb m x = false).
  { intros m Hm Hrm. destruct (leqb m x) eqn:E; [|reflexivity]. apply leqb_eq in E. subst m.
    destruct Hx as [Hx|(c & -> & Hc)]; [congruence|]. cbn in Hm. rewrite Hc in Hm. discriminate. }
  rewrite (Hno l Hl Hr), (Hno l' Hl' Hr'). reflexivity.
Qed.
Lemma tok_is_Z t t' : teq t t' -> tok_is (L "Z") t = tok_is (L "Z") t'.
Proof. apply teq_tok_is. left. reflexivity. Qed.
Lemma tok_is_M t t' : teq t t' -> tok_is (L "M") t = tok_is (L "M") t'.
Proof. apply teq_tok_is. left. reflexivity. Qed.
Lemma tok_is_ZM t t' : teq t t' -> tok_is (L "ZM") t = tok_is (L "ZM") t'.
Proof. apply teq_tok_is. left. reflexivity. Qed.
Lemma tok_is_EMPTY t t' : teq t t' -> tok_is (L "EMPTY") t = tok_is (L "EMPTY") t'.
Proof. apply teq_tok_is. left. reflexivity. Qed.
Lemma tok_is_punct c t t' : is_letter c = false -> teq t t' -> tok_is [c] t = tok_is [c] t'.
Proof. intros Hc. apply teq_tok_is. right. eauto. Qed.

Lemma resp_geom_tag : resp eq next_geom_tag next_geom_tag.
Proof.
  unfold next_geom_tag. eapply resp_bind; [apply resp_next|]. intros t t' Ht.
  eapply resp_bind; [apply resp_peek|]. intros p p' Hp.
  rewrite (tok_is_Z _ _ Hp), (tok_is_M _ _ Hp), (tok_is_ZM _ _ Hp).
  assert (Hn : match t with T l => map to_upper l | TNum _ => [] | TBad => [] end =
               match t' with T l => map to_upper l | TNum _ => [] | TBad => [] end).
  { destruct Ht; [reflexivity|assumption]. }
  rewrite Hn.
  eapply (resp_bind teq); [|intros; apply resp_ret; reflexivity].
  destruct (if tok_is (L "Z") p' then XYZ else if tok_is (L "M") p' then XYM else if tok_is (L "ZM") p' then XYZM else XY);
    try apply resp_next; apply resp_ret; assumption.
Qed.

Lemma resp_empty_or_lparen : resp eq next_empty_or_lparen next_empty_or_lparen.
Proof.
  unfold next_empty_or_lparen. eapply resp_bind; [apply resp_next|]. intros t t' Ht.
  rewrite (tok_is_EMPTY _ _ Ht), (tok_is_punct "("%char _ _ eq_refl Ht).
  destruct (tok_is _ t'); [apply resp_ret; reflexivity|]. destruct (tok_is _ t'); [apply resp_ret; reflexivity|apply resp_fail].
Qed.
Lemma resp_rparen : resp eq next_rparen next_rparen.
Proof.
  unfold next_rparen. eapply resp_bind; [apply resp_next|]. intros t t' Ht.
  rewrite (tok_is_punct ")"%char _ _ eq_refl Ht). destruct (tok_is _ t'); [apply resp_ret; reflexivity|apply resp_fail].
Qed.
Lemma resp_comma_or_rparen : resp eq next_comma_or_rparen next_comma_or_rparen.
Proof.
  unfold next_comma_or_rparen. eapply resp_bind; [apply resp_next|]. intros t t' Ht.
  rewrite (tok_is_punct ")"%char _ _ eq_refl Ht), (tok_is_punct ","%char _ _ eq_refl Ht).
  destruct (tok_is _ t'); [apply resp_ret; reflexivity|]. destruct (tok_is _ t'); [apply resp_ret; reflexivity|apply resp_fail].
Qed.

(* a word at a number position is always a syntax error (NaN/Inf words included) *)
Definition signed_tail (negative : bool) (t : tok) : TM N :=
  match strconv_parse t with
  | Ok f => if f_is_nan f || f_is_inf f then tfail ESyntax else tret (if negative then f_neg f else f)
  | Err e => tfail e
  | Panic p => fun _ => Panic p
  end.
Lemma signed_tail_word negative l ts : signed_tail negative (T l) ts = Err ESyntax.
Proof.
  unfold signed_tail, strconv_parse.
  destruct (leqb (map to_lower l) (L "nan")); [reflexivity|].
  destruct (leqb (map to_lower l) (L "inf") || leqb (map to_lower l) (L "infinity")); reflexivity.
Qed.
Lemma resp_signed_tail negative t t' : teq t t' -> resp eq (signed_tail negative t) (signed_tail negative t').
Proof.
  intros Ht. destruct Ht as [t|l l' _ _ _ _ _].
  - intros ts ts' Hts. unfold signed_tail. destruct (strconv_parse t) as [f|e|p]; [|reflexivity|reflexivity].
    destruct (f_is_nan f || f_is_inf f); cbn; auto.
  - intros ts ts' _. rewrite !signed_tail_word. reflexivity.
Qed.
Lemma resp_signed : resp eq next_signed next_signed.
Proof.
  unfold next_signed. eapply resp_bind; [apply resp_next|]. intros t t' Ht.
  rewrite (tok_is_punct "-"%char _ _ eq_refl Ht).
  eapply (resp_bind teq).
  - destruct (tok_is _ t'); [apply resp_next|apply resp_ret, Ht].
  - intros u u' Hu. apply (resp_signed_tail _ u u' Hu).
Qed.

Lemma resp_point ct : resp eq (next_point ct) (next_point ct).
Proof.
  unfold next_point. eapply resp_bind; [apply resp_signed|]. intros x ? <-.
  eapply resp_bind; [apply resp_signed|]. intros y ? <-.
  eapply (resp_bind eq); [destruct (has_z ct); [apply resp_signed|apply resp_ret; reflexivity]|]. intros z ? <-.
  eapply (resp_bind eq); [destruct (has_m ct); [apply resp_signed|apply resp_ret; reflexivity]|]. intros m ? <-.
  apply resp_ret. reflexivity.
Qed.

Lemma resp_sep_loop {A} fuel (item : TM A) : resp eq item item -> resp eq (sep_loop fuel item) (sep_loop fuel item).
Proof.
  intros Hi. induction fuel as [|f IH]; [apply resp_fail|]. cbn [sep_loop].
  eapply resp_bind; [exact Hi|]. intros x ? <-.
  eapply resp_bind; [apply resp_comma_or_rparen|]. intros b ? <-.
  destruct b; [|apply resp_ret; reflexivity].
  eapply resp_bind; [exact IH|]. intros xs ? <-. apply resp_ret. reflexivity.
Qed.

Lemma resp_point_text ct : resp eq (next_point_text ct) (next_point_text ct).
Proof.
  unfold next_point_text. eapply resp_bind; [apply resp_empty_or_lparen|]. intros b ? <-.
  destruct b; [|apply resp_ret; reflexivity].
  eapply resp_bind; [apply resp_point|]. intros v ? <-.
  eapply resp_bind; [apply resp_rparen|]. intros. apply resp_ret. reflexivity.
Qed.
Lemma resp_line_text fuel ct : resp eq (next_line_text fuel ct) (next_line_text fuel ct).
Proof.
  unfold next_line_text. eapply resp_bind; [apply resp_empty_or_lparen|]. intros b ? <-.
  destruct b; [|apply resp_ret; reflexivity].
  eapply resp_bind; [apply resp_sep_loop, resp_point|]. intros v ? <-. apply resp_ret. reflexivity.
Qed.
Lemma resp_lines_text fuel ct : resp eq (next_lines_text fuel ct) (next_lines_text fuel ct).
Proof.
  unfold next_lines_text. eapply resp_bind; [apply resp_empty_or_lparen|]. intros b ? <-.
  destruct b; [|apply resp_ret; reflexivity]. apply resp_sep_loop, resp_line_text.
Qed.
Lemma resp_poly_text fuel ct : resp eq (next_poly_text fuel ct) (next_poly_text fuel ct).
Proof.
  unfold next_poly_text. eapply resp_bind; [apply resp_lines_text|]. intros rs ? <-.
  destruct rs; apply resp_ret; reflexivity.
Qed.
Lemma resp_mp_point ct : resp eq (next_mp_point ct) (next_mp_point ct).
Proof.
  unfold next_mp_point. eapply resp_bind; [apply resp_peek|]. intros t t' Ht.
  rewrite (tok_is_EMPTY _ _ Ht), (tok_is_punct "("%char _ _ eq_refl Ht).
  destruct (tok_is _ t').
  - eapply resp_bind; [apply resp_next|]. intros _ _ _.
    eapply resp_bind; [apply resp_point|]. intros v ? <-.
    eapply resp_bind; [apply resp_rparen|]. intros. apply resp_ret. reflexivity.
  - destruct (tok_is _ t').
    + eapply resp_bind; [apply resp_next|]. intros. apply resp_ret. reflexivity.
    + eapply resp_bind; [apply resp_point|]. intros v ? <-. apply resp_ret. reflexivity.
Qed.

Lemma resp_geom_body f t ct :
  resp eq (parse_geom f) (parse_geom f) -> resp eq (geom_body f t ct) (geom_body f t ct).
Proof.
  intros IH. destruct t; cbn [geom_body].
  - eapply resp_bind; [apply resp_empty_or_lparen|]. intros b ? <-.
    eapply (resp_bind eq); [destruct b; [apply resp_sep_loop, IH|apply resp_ret; reflexivity]|]. intros gs ? <-.
    destruct (coll_cts_ok ct gs); [|apply resp_fail]. destruct gs; apply resp_ret; reflexivity.
  - eapply resp_bind; [apply resp_point_text|]. intros p ? <-. apply resp_ret. reflexivity.
  - eapply resp_bind; [apply resp_line_text|]. intros p ? <-. apply resp_ret. reflexivity.
  - eapply resp_bind; [apply resp_poly_text|]. intros p ? <-. apply resp_ret. reflexivity.
  - eapply resp_bind; [apply resp_empty_or_lparen|]. intros b ? <-.
    destruct b; [|apply resp_ret; reflexivity].
    eapply resp_bind; [apply resp_sep_loop, resp_mp_point|]. intros ps ? <-. apply resp_ret. reflexivity.
  - eapply resp_bind; [apply resp_lines_text|]. intros ls ? <-. destruct ls; apply resp_ret; reflexivity.
  - eapply resp_bind; [apply resp_empty_or_lparen|]. intros b ? <-.
    destruct b; [|apply resp_ret; reflexivity].
    eapply resp_bind; [apply resp_sep_loop, resp_poly_text|]. intros ps ? <-. apply resp_ret. reflexivity.
Qed.

Lemma resp_parse_geom f : resp eq (parse_geom f) (parse_geom f).
Proof.
  induction f as [|f IH]; [apply resp_fail|].
  intros ts ts' Hts. rewrite !parse_geom_S.
  pose proof (resp_geom_tag ts ts' Hts) as Ht. unfold rel_out in Ht.
  destruct (next_geom_tag ts) as [[[name ct] r]|e|x], (next_geom_tag ts') as [[[name' ct'] r']|e'|x'];
    try contradiction; try exact Ht.
  destruct Ht as [Hq Hr]. inversion Hq; subst.
  destruct (gtype_of_name name') as [t|]; [|reflexivity].
  apply (resp_geom_body f t ct' IH r r' Hr).
Qed.

(* changing the case of words other than Z, M, ZM, EMPTY never changes the result of the parser,
   on valid and on invalid token sequences alike *)
Lemma parse_case_insensitive ts ts' : teqs ts ts' -> parse ts = parse ts'.
Proof.
  intros H. unfold parse. assert (Hl : length ts = length ts') by (induction H; cbn; congruence).
  rewrite <- Hl. pose proof (resp_parse_geom (S (length ts)) ts ts' H) as Hp. unfold rel_out in Hp.
  destruct (parse_geom (S (length ts)) ts) as [[g r]|e|x], (parse_geom (S (length ts)) ts') as [[g' r']|e'|x'];
    try contradiction; try congruence.
  destruct Hp as [-> Hr]. destruct Hr as [|x y l l' Hxy Hll]; [reflexivity|].
  destruct Hxy as [[]|]; reflexivity.
Qed.
