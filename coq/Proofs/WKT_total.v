(* Property C08, WKT part: the token-level parser of Model/WKT.v (the transcription of
   geom/wkt_parser.go written for C05) is total on EVERY token list: never a panic outcome, the
   fuel error is unreachable, the tokens left over are a suffix of the input, and the consumed
   tokens never include the lexical-error mark TBad (the parser cannot step over it).  Same technique
   as Proofs/WKB_total.v: one invariant over parser computations closed under bind; the
   separator loops terminate because every iteration consumes its "," token. *)
From Coq Require Import NArith List Bool Ascii Lia.
From SF Require Import Base.Outcome Base.GeomAST Model.WKT.
Import ListNotations.

Definition okT {A} (k : nat) (m : TM A) (ts : list tok) : Prop :=
  match m ts with
  | Ok (_, r) => exists used, ts = used ++ r /\ (k <= length used)%nat /\ ~ In TBad used
  | Err e => e <> EFuel
  | Panic _ => False
  end.

Lemma okT_weaken {A} k k' (m : TM A) ts : (k' <= k)%nat -> okT k m ts -> okT k' m ts.
Proof.
  unfold okT. destruct (m ts) as [[a r]|e|p]; auto. intros H [u [E [L B]]]. exists u. split; auto. split; [lia|exact B].
Qed.

Lemma okT_ret {A} (a : A) ts : okT 0 (tret a) ts.
Proof. unfold okT, tret. exists []. split; [reflexivity|]. split; [apply le_n|intros []]. Qed.

Lemma okT_fail {A} e ts : e <> EFuel -> okT (A:=A) 0 (tfail e) ts.
Proof. unfold okT, tfail. auto. Qed.

Lemma okT_bind {A B} k1 k2 (m : TM A) (f : A -> TM B) ts :
  okT k1 m ts ->
  (forall a r, m ts = Ok (a, r) -> (length r + k1 <= length ts)%nat -> okT k2 (f a) r) ->
  okT (k1 + k2) (tbind m f) ts.
Proof.
  unfold okT at 1 3, tbind. destruct (m ts) as [[a r]|e|p] eqn:E; auto.
  intros [u [Eu [Lu Bu]]] Hf.
  assert (Hlen : (length r + k1 <= length ts)%nat) by (rewrite Eu, app_length; lia).
  specialize (Hf a r eq_refl Hlen). unfold okT in Hf.
  destruct (f a r) as [[b r']|e|p]; auto.
  destruct Hf as [u2 [Eu2 [Lu2 Bu2]]]. exists (u ++ u2).
  rewrite Eu, Eu2, app_assoc, app_length. split; auto. split; [lia|].
  intros Hin. apply in_app_or in Hin. tauto.
Qed.

Lemma okT_bind' {A B} k1 k2 (m : TM A) (f : A -> TM B) ts :
  okT k1 m ts -> (forall a r, okT k2 (f a) r) -> okT (k1 + k2) (tbind m f) ts.
Proof. intros H1 H2. apply okT_bind; auto. Qed.

Lemma okT_next ts : okT 1 t_next ts.
Proof.
  unfold okT, t_next. destruct ts as [|t r]; [discriminate|].
  destruct t; try discriminate; eexists [_]; (split; [reflexivity|split; [apply le_n|]]);
    intros [H|[]]; discriminate.
Qed.

Lemma okT_peek ts : okT 0 t_peek ts.
Proof.
  unfold okT, t_peek. destruct ts as [|t r]; [discriminate|].
  destruct t; try discriminate; exists []; (split; [reflexivity|split; [apply le_n|intros []]]).
Qed.

Lemma okT_geom_tag ts : okT 1 next_geom_tag ts.
Proof.
  unfold next_geom_tag. change 1%nat with (1 + (0 + (0 + 0)))%nat.
  apply okT_bind'; [apply okT_next|intros t r].
  apply okT_bind'; [apply okT_peek|intros p r1].
  apply okT_bind'; [|intros; apply okT_ret].
  destruct (tok_is _ p); [eapply okT_weaken; [|apply okT_next]; lia|].
  destruct (tok_is _ p); [eapply okT_weaken; [|apply okT_next]; lia|].
  destruct (tok_is _ p); [eapply okT_weaken; [|apply okT_next]; lia|apply okT_ret].
Qed.

Lemma okT_empty_or_lparen ts : okT 1 next_empty_or_lparen ts.
Proof.
  unfold next_empty_or_lparen. change 1%nat with (1 + 0)%nat.
  apply okT_bind'; [apply okT_next|intros t r].
  destruct (tok_is _ t); [apply okT_ret|]. destruct (tok_is _ t); [apply okT_ret|].
  apply okT_fail; discriminate.
Qed.

Lemma okT_rparen ts : okT 1 next_rparen ts.
Proof.
  unfold next_rparen. change 1%nat with (1 + 0)%nat.
  apply okT_bind'; [apply okT_next|intros t r].
  destruct (tok_is _ t); [apply okT_ret|apply okT_fail; discriminate].
Qed.

Lemma okT_comma_or_rparen ts : okT 1 next_comma_or_rparen ts.
Proof.
  unfold next_comma_or_rparen. change 1%nat with (1 + 0)%nat.
  apply okT_bind'; [apply okT_next|intros t r].
  destruct (tok_is _ t); [apply okT_ret|]. destruct (tok_is _ t); [apply okT_ret|].
  apply okT_fail; discriminate.
Qed.

(* strconv.ParseFloat never panics; its failure is a syntax error *)
Lemma strconv_parse_total t :
  (exists f, strconv_parse t = Ok f) \/ strconv_parse t = Err ESyntax.
Proof.
  destruct t as [l|b|]; cbn [strconv_parse]; [|left; eauto|right; reflexivity].
  destruct (leqb _ _); [left; eauto|]. destruct (_ || _); [left; eauto|right; reflexivity].
Qed.

Lemma okT_signed ts : okT 1 next_signed ts.
Proof.
  unfold next_signed. change 1%nat with (1 + (0 + 0))%nat.
  apply okT_bind'; [apply okT_next|intros t r].
  apply okT_bind'.
  { destruct (tok_is _ t); [eapply okT_weaken; [|apply okT_next]; lia|apply okT_ret]. }
  intros t2 r2. destruct (strconv_parse_total t2) as [[f ->]| ->].
  - destruct (f_is_nan f || f_is_inf f); [apply okT_fail; discriminate|apply okT_ret].
  - apply okT_fail; discriminate.
Qed.

Lemma okT_point ct ts : okT 2 (next_point ct) ts.
Proof.
  unfold next_point. change 2%nat with (1 + (1 + (0 + (0 + 0))))%nat.
  apply okT_bind'; [apply okT_signed|intros x r].
  apply okT_bind'; [apply okT_signed|intros y r1].
  apply okT_bind'.
  { destruct (has_z ct); [eapply okT_weaken; [|apply okT_signed]; lia|apply okT_ret]. }
  intros z r2. apply okT_bind'; [|intros; apply okT_ret].
  destruct (has_m ct); [eapply okT_weaken; [|apply okT_signed]; lia|apply okT_ret].
Qed.

(* an item parser that is fine on every state no longer than [bound] *)
Definition item_ok {A} (item : TM A) (bound : nat) : Prop :=
  forall ts', (length ts' <= bound)%nat -> okT 0 item ts'.

Lemma okT_sep_loop {A} (item : TM A) : forall fuel ts,
  (length ts < fuel)%nat -> item_ok item (length ts) -> okT 1 (sep_loop fuel item) ts.
Proof.
  induction fuel as [|f IH]; intros ts Hf Hitem; [lia|].
  cbn [sep_loop]. change 1%nat with (0 + (1 + 0))%nat.
  apply okT_bind; [apply Hitem; lia|]. intros x r _ Hr.
  apply okT_bind; [apply okT_comma_or_rparen|]. intros more r2 _ Hr2.
  destruct more; [|apply okT_ret].
  change 0%nat with (0 + 0)%nat. apply okT_bind'; [|intros; apply okT_ret].
  eapply okT_weaken; [|apply IH]; [lia|lia|].
  intros ts' Hts'. apply Hitem. lia.
Qed.

Lemma okT_point_text ct ts : okT 1 (next_point_text ct) ts.
Proof.
  unfold next_point_text. change 1%nat with (1 + 0)%nat.
  apply okT_bind'; [apply okT_empty_or_lparen|intros lp r].
  destruct lp; [|apply okT_ret].
  change 0%nat with (0 + (0 + 0))%nat.
  apply okT_bind'; [eapply okT_weaken; [|apply okT_point]; lia|intros v r1].
  apply okT_bind'; [eapply okT_weaken; [|apply okT_rparen]; lia|intros; apply okT_ret].
Qed.

Lemma okT_line_text fuel ct ts : (length ts <= fuel)%nat -> okT 1 (next_line_text fuel ct) ts.
Proof.
  intros Hf. unfold next_line_text. change 1%nat with (1 + 0)%nat.
  apply okT_bind; [apply okT_empty_or_lparen|]. intros lp r _ Hr.
  destruct lp; [|apply okT_ret].
  change 0%nat with (0 + 0)%nat. apply okT_bind'; [|intros; apply okT_ret].
  eapply okT_weaken; [|apply okT_sep_loop]; [lia|lia|].
  intros ts' _. eapply okT_weaken; [|apply okT_point]. lia.
Qed.

Lemma okT_lines_text fuel ct ts : (length ts <= fuel)%nat -> okT 1 (next_lines_text fuel ct) ts.
Proof.
  intros Hf. unfold next_lines_text. change 1%nat with (1 + 0)%nat.
  apply okT_bind; [apply okT_empty_or_lparen|]. intros lp r _ Hr.
  destruct lp; [|apply okT_ret].
  eapply okT_weaken; [|apply okT_sep_loop]; [lia|lia|].
  intros ts' Hts'. eapply okT_weaken; [|apply okT_line_text]; lia.
Qed.

Lemma okT_poly_text fuel ct ts : (length ts <= fuel)%nat -> okT 1 (next_poly_text fuel ct) ts.
Proof.
  intros Hf. unfold next_poly_text. change 1%nat with (1 + 0)%nat.
  apply okT_bind'; [apply okT_lines_text; exact Hf|].
  intros rs r. destruct rs; apply okT_ret.
Qed.

Lemma okT_mp_point ct ts : okT 0 (next_mp_point ct) ts.
Proof.
  unfold next_mp_point. change 0%nat with (0 + 0)%nat.
  apply okT_bind'; [apply okT_peek|intros t r].
  destruct (tok_is _ t).
  { change 0%nat with (0 + (0 + (0 + 0)))%nat.
    apply okT_bind'; [eapply okT_weaken; [|apply okT_next]; lia|intros ? r1].
    apply okT_bind'; [eapply okT_weaken; [|apply okT_point]; lia|intros v r2].
    apply okT_bind'; [eapply okT_weaken; [|apply okT_rparen]; lia|intros; apply okT_ret]. }
  destruct (tok_is _ t).
  { change 0%nat with (0 + 0)%nat.
    apply okT_bind'; [eapply okT_weaken; [|apply okT_next]; lia|intros; apply okT_ret]. }
  change 0%nat with (0 + 0)%nat.
  apply okT_bind'; [eapply okT_weaken; [|apply okT_point]; lia|intros; apply okT_ret].
Qed.

Lemma okT_parse_geom : forall fuel ts, (length ts < fuel)%nat -> okT 1 (parse_geom fuel) ts.
Proof.
  induction fuel as [|f IH]; intros ts Hf; [lia|].
  cbn [parse_geom]. change 1%nat with (1 + 0)%nat.
  apply okT_bind; [apply okT_geom_tag|]. intros [name ct] r _ Hr.
  destruct (gtype_of_name name) as [t|]; [|apply okT_fail; discriminate].
  destruct t.
  - (* collection *)
    change 0%nat with (0 + (0 + 0))%nat.
    apply okT_bind; [eapply okT_weaken; [|apply okT_empty_or_lparen]; lia|]. intros lp r1 _ Hr1.
    apply okT_bind.
    { destruct lp; [|apply okT_ret].
      eapply okT_weaken; [|apply okT_sep_loop]; [lia|lia|].
      intros ts' Hts'. eapply okT_weaken; [|apply IH]; lia. }
    intros gs r2 _ _. destruct (coll_cts_ok ct gs); [|apply okT_fail; discriminate].
    destruct gs; apply okT_ret.
  - change 0%nat with (0 + 0)%nat.
    apply okT_bind'; [eapply okT_weaken; [|apply okT_point_text]; lia|intros; apply okT_ret].
  - change 0%nat with (0 + 0)%nat.
    apply okT_bind'; [eapply okT_weaken; [|apply okT_line_text]; lia|intros; apply okT_ret].
  - change 0%nat with (0 + 0)%nat.
    apply okT_bind'; [eapply okT_weaken; [|apply okT_poly_text]; lia|intros; apply okT_ret].
  - change 0%nat with (0 + 0)%nat.
    apply okT_bind; [eapply okT_weaken; [|apply okT_empty_or_lparen]; lia|]. intros lp r1 _ Hr1.
    destruct lp; [|apply okT_ret].
    change 0%nat with (0 + 0)%nat. apply okT_bind'; [|intros; apply okT_ret].
    eapply okT_weaken; [|apply okT_sep_loop]; [lia|lia|].
    intros ts' _. apply okT_mp_point.
  - change 0%nat with (0 + 0)%nat.
    apply okT_bind'; [eapply okT_weaken; [|apply okT_lines_text]; lia|].
    intros ls r1. destruct ls; apply okT_ret.
  - change 0%nat with (0 + 0)%nat.
    apply okT_bind; [eapply okT_weaken; [|apply okT_empty_or_lparen]; lia|]. intros lp r1 _ Hr1.
    destruct lp; [|apply okT_ret].
    change 0%nat with (0 + 0)%nat. apply okT_bind'; [|intros; apply okT_ret].
    eapply okT_weaken; [|apply okT_sep_loop]; [lia|lia|].
    intros ts' Hts'. eapply okT_weaken; [|apply okT_poly_text]; lia.
Qed.

(* ------------------------------------------------------------------ the C08 statements *)
Lemma wkt_parse_no_panic_lemma : forall ts, is_panic (parse ts) = false.
Proof.
  intros ts. pose proof (okT_parse_geom (S (length ts)) ts (le_n _)) as H.
  unfold okT in H. unfold parse.
  destruct (parse_geom (S (length ts)) ts) as [[g [|[] r]]|e|p]; auto. contradiction.
Qed.

Lemma wkt_parse_fuel_enough_lemma : forall ts, parse ts <> Err EFuel.
Proof.
  intros ts. pose proof (okT_parse_geom (S (length ts)) ts (le_n _)) as H.
  unfold okT in H. unfold parse.
  destruct (parse_geom (S (length ts)) ts) as [[g [|[] r]]|e|p]; try discriminate. congruence.
Qed.

(* the parser proper never looks past the tokens it is given, and reads at least the tag *)
Lemma wkt_parse_geom_consumes_lemma : forall ts g r,
  parse_geom (S (length ts)) ts = Ok (g, r) -> exists used, ts = used ++ r /\ (1 <= length used)%nat.
Proof.
  intros ts g r E. pose proof (okT_parse_geom (S (length ts)) ts (le_n _)) as H.
  unfold okT in H. rewrite E in H. destruct H as [u [Eu [Lu _]]]. exists u. auto.
Qed.

(* ... and never steps over a lexical error: the consumed tokens are free of the mark TBad *)
Lemma wkt_parse_geom_no_bad_lemma : forall ts g r,
  parse_geom (S (length ts)) ts = Ok (g, r) -> exists used, ts = used ++ r /\ ~ In TBad used.
Proof.
  intros ts g r E. pose proof (okT_parse_geom (S (length ts)) ts (le_n _)) as H.
  unfold okT in H. rewrite E in H. destruct H as [u [Eu [_ Bu]]]. exists u. auto.
Qed.

(* A token stream with a lexical error in it is never accepted: the parser fails before the mark,
   or at it, or the end-of-input check finds it (or a token) behind the geometry. *)
Lemma wkt_parse_bad_rejected_lemma : forall ts g, In TBad ts -> parse ts <> Ok g.
Proof.
  intros ts g Hin. unfold parse.
  destruct (parse_geom (S (length ts)) ts) as [[g' r]|e|p] eqn:E; try discriminate.
  destruct (wkt_parse_geom_no_bad_lemma ts g' r E) as [u [Eu Bu]].
  destruct r as [|[] r']; try discriminate.
  rewrite app_nil_r in Eu. subst u. contradiction.
Qed.

(* ------------------------------------------------------------------ lexer + parser *)
Lemma lex_go_total : forall s cur, is_panic (lex_go cur s) = false /\ lex_go cur s <> Err EFuel.
Proof.
  induction s as [|c r IH]; intros cur; cbn [lex_go].
  - split; [reflexivity|discriminate].
  - destruct c as [a|b|]; [| |split; [reflexivity|discriminate]].
    + destruct (is_letter a); [apply IH|].
      destruct (is_digit a).
      { destruct cur; [split; [reflexivity|discriminate]|apply IH]. }
      destruct (code a =? 0)%N; [split; [reflexivity|discriminate]|].
      destruct (128 <=? code a)%N; [split; [reflexivity|discriminate]|].
      destruct (_ && _); [split; [reflexivity|discriminate]|].
      destruct (IH []) as [Hp Hf]. destruct (lex_go [] r); cbn [bind] in *;
        split; try reflexivity; try discriminate; auto.
    + destruct (glue_after r); [split; [reflexivity|discriminate]|].
      destruct (IH []) as [Hp Hf].
      destruct (b <? wk_two63)%N.
      * destruct cur; [|split; [reflexivity|discriminate]].
        destruct (lex_go [] r); cbn [bind] in *; split; try reflexivity; try discriminate; auto.
      * destruct (lex_go [] r); cbn [bind] in *; split; try reflexivity; try discriminate; auto.
Qed.

(* UnmarshalWKT(s, NoValidate{}) on the model's text alphabet: lexer, parser, EOF check *)
Lemma unmarshal_wkt_no_panic_lemma : forall s,
  is_panic (unmarshal_wkt s) = false /\ unmarshal_wkt s <> Err EFuel.
Proof.
  intros s. unfold unmarshal_wkt, lex. destruct (lex_go_total s []) as [Hp Hf].
  destruct (lex_go [] s) as [ts|e|p]; cbn [bind] in *.
  - split; [apply wkt_parse_no_panic_lemma|apply wkt_parse_fuel_enough_lemma].
  - split; [reflexivity|]. intros E. apply Hf. inversion E. reflexivity.
  - discriminate.
Qed.
