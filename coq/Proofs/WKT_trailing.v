(* Lemmas for property C05 (WKT), clause "rejects trailing tokens", at the level of TEXT:
   a parse consumes the whole input.  Whatever follows a complete document - lexable or not -
   makes UnmarshalWKT fail:
     Part A  a text with a lexical error anywhere (NUL, a malformed literal, invalid UTF-8: the
             symbols the lexer answers with its error) is never accepted;
     Part B  every blank-spelling of a token sequence followed by arbitrary further text lexes to
             the sequence followed by the tokens of that text (lex_spell generalised to a suffix);
     Part C  a spelled document of a geometry followed by text holding at least one token or one
             lexical error is rejected. *)
From Coq Require Import NArith List Bool Ascii String Lia.
From SF Require Import Base.Outcome Base.GeomAST Model.WKT Proofs.WKT_proofs Proofs.WKT_total.
Import ListNotations.
Local Open Scope N_scope.
Local Notation length := List.length.

(* ================================================================== Part A: lexical errors *)
Lemma letter_not_nul c : is_letter c = true -> (code c =? 0) = false.
Proof.
  unfold is_letter, is_upper, is_lower. intros H. destruct (code c =? 0) eqn:E; [|reflexivity].
  apply N.eqb_eq in E. rewrite E in H. discriminate.
Qed.
Lemma digit_not_nul c : is_digit c = true -> (code c =? 0) = false.
Proof.
  unfold is_digit. intros H. destruct (code c =? 0) eqn:E; [|reflexivity].
  apply N.eqb_eq in E. rewrite E in H. discriminate.
Qed.

(* the lexer's output for a text with a lexical error in it carries the mark *)
Lemma lex_go_marks : forall s cur ts,
  lex_go cur s = Ok ts -> existsb lex_error_ch s = true -> In TBad ts.
Proof.
  induction s as [|c r IH]; intros cur ts Hl He; [discriminate|].
  cbn [existsb] in He. cbn [lex_go] in Hl. destruct c as [a|b|].
  - cbn [lex_error_ch] in He.
    destruct (is_letter a) eqn:El.
    { rewrite (letter_not_nul a El) in He. apply (IH _ _ Hl He). }
    destruct (is_digit a) eqn:Ed.
    { rewrite (digit_not_nul a Ed) in He. destruct cur; [discriminate|]. apply (IH _ _ Hl He). }
    destruct (code a =? 0).
    { inversion Hl. apply in_or_app. right. left. reflexivity. }
    cbn [orb] in He.
    destruct (128 <=? code a); [discriminate|]. destruct (_ && _); [discriminate|].
    destruct (lex_go [] r) as [ts'|e|p] eqn:E; cbn [bind] in Hl; try discriminate.
    inversion Hl. apply in_or_app. right. apply in_or_app. right. apply (IH [] ts' E He).
  - cbn [lex_error_ch orb] in He.
    destruct (glue_after r); [discriminate|].
    destruct (b <? wk_two63).
    + destruct cur; [|discriminate].
      destruct (lex_go [] r) as [ts'|e|p] eqn:E; cbn [bind] in Hl; try discriminate.
      inversion Hl. right. apply (IH [] ts' E He).
    + destruct (lex_go [] r) as [ts'|e|p] eqn:E; cbn [bind] in Hl; try discriminate.
      inversion Hl. apply in_or_app. right. right. right. apply (IH [] ts' E He).
  - inversion Hl. apply in_or_app. right. left. reflexivity.
Qed.

Lemma wkt_lexical_error_rejected_lemma : forall (s : list ch) (g : geomT N),
  existsb lex_error_ch s = true -> unmarshal_wkt s <> Ok g.
Proof.
  intros s g He. unfold unmarshal_wkt, lex.
  destruct (lex_go [] s) as [ts|e|p] eqn:E; cbn [bind]; try discriminate.
  apply wkt_parse_bad_rejected_lemma. apply (lex_go_marks s [] ts E He).
Qed.

(* ================================================================== Part B: spelling ++ suffix *)
Lemma starts_delim_sd R : starts_delim R = true -> sd R.
Proof. destruct R as [|[c|n|] R']; cbn; auto. discriminate. Qed.

Lemma ends_open_cons it it' r : ends_open (it :: it' :: r) = ends_open (it' :: r).
Proof. destruct it. reflexivity. Qed.

Lemma sd_app_ne X R : X <> [] -> sd X -> sd (X ++ R).
Proof. destruct X as [|[c|n|] X']; cbn; auto. congruence. Qed.

Lemma tok_text_ne t : tok_wf t = true -> tok_text t <> [].
Proof. destruct t as [[|c l]|b|]; cbn; intros H; try discriminate; congruence. Qed.

Lemma spell_ok_head t w r : spell_ok ((t, w) :: r) = true ->
  tok_wf t = true /\ forallb is_ws w = true /\ spell_ok r = true.
Proof.
  cbn [spell_ok]. intros H. apply andb_prop in H. destruct H as [H Hr].
  apply andb_prop in H. destruct H as [H _]. apply andb_prop in H. tauto.
Qed.

(* what follows token t (blanks w, the remaining items, the suffix R) does not glue onto it *)
Lemma spell_sd_app t w r R :
  spell_ok ((t, w) :: r) = true -> (tok_alnum_end t || tok_dot t) = true ->
  implb (ends_open ((t, w) :: r)) (starts_delim R) = true ->
  sd (map C w ++ spell [] r ++ R).
Proof.
  intros Hok Ht HR. pose proof (spell_sd t w r Hok Ht) as H. rewrite app_assoc.
  remember (map C w ++ spell [] r) as X eqn:EX. destruct X as [|x X'].
  - cbn [app]. symmetry in EX. apply app_eq_nil in EX. destruct EX as [Ew Er].
    destruct w; [|discriminate]. destruct r as [|[t' w2] r'].
    + cbn [ends_open] in HR. rewrite Ht in HR. apply starts_delim_sd, HR.
    + exfalso. rewrite spell_cons in Er. apply app_eq_nil in Er. destruct Er as [Et _].
      destruct (spell_ok_head _ _ _ Hok) as (_ & _ & Hr). destruct (spell_ok_head _ _ _ Hr) as (Hwf & _).
      apply (tok_text_ne t' Hwf Et).
  - apply sd_app_ne; [discriminate|exact H].
Qed.

Lemma implb_ends_open_tail it r R :
  implb (ends_open (it :: r)) (starts_delim R) = true -> implb (ends_open r) (starts_delim R) = true.
Proof. destruct r as [|it' r']; [reflexivity|]. rewrite ends_open_cons. auto. Qed.

(* lex_spell_items (Proofs/WKT_proofs.v) with further text behind the spelling *)
Lemma lex_spell_items_app items R tr :
  spell_ok items = true -> implb (ends_open items) (starts_delim R) = true ->
  lex_go [] R = Ok tr ->
  lex_go [] (spell [] items ++ R) = Ok (map fst items ++ tr).
Proof.
  intros Hok HE HRl. revert Hok HE. induction items as [|[t w] r IH]; intros Hok HE; [exact HRl|].
  pose proof Hok as Hok0. destruct (spell_ok_head _ _ _ Hok) as (Hwf & Hws & Hr).
  specialize (IH Hr (implb_ends_open_tail _ _ _ HE)).
  rewrite spell_cons, <- !app_assoc. cbn [map fst app].
  assert (HR : lex_go [] (map C w ++ spell [] r ++ R) = Ok (map fst r ++ tr))
    by (rewrite (lex_ws w _ Hws); exact IH).
  destruct t as [[|c l]|b|]; cbn [tok_wf] in Hwf; [discriminate| | |discriminate].
  - destruct (is_letter c) eqn:Ec.
    + (* identifier *)
      cbn [tok_text map app lex_go]. rewrite Ec.
      rewrite (lex_ident l Hwf [c] _ ltac:(discriminate)).
      rewrite (lex_flush _ _ (spell_sd_app _ w r R Hok0 ltac:(cbn [tok_alnum_end]; rewrite Ec; reflexivity) HE)), HR.
      cbn [bind]. unfold flush. destruct (rev l ++ [c]) eqn:E; [destruct (rev l); discriminate|].
      rewrite <- E, rev_app_distr, rev_involutive. reflexivity.
    + (* one punctuation character *)
      destruct l; [|discriminate].
      apply andb_prop in Hwf. destruct Hwf as [Hwf H128]. apply andb_prop in Hwf. destruct Hwf as [Hwf H0].
      apply andb_prop in Hwf. destruct Hwf as [Hdg Hwsc].
      apply negb_true_iff in Hdg, Hwsc, H0. apply N.ltb_lt in H128.
      assert (E128 : (128 <=? code c) = false) by (destruct (128 <=? code c) eqn:E; [apply N.leb_le in E; lia|reflexivity]).
      cbn [tok_text map app lex_go]. rewrite Ec, Hdg, H0, E128.
      destruct (Ascii.eqb c ".") eqn:Edot.
      * assert (Hsd : sd (map C w ++ spell [] r ++ R)).
        { apply (spell_sd_app (T [c]) w r R Hok0); [|exact HE]. cbn [tok_alnum_end tok_dot]. rewrite Edot. apply orb_true_r. }
        destruct (sd_glue _ Hsd) as [_ Hn]. rewrite Hn. cbn [andb]. rewrite HR, Hwsc. reflexivity.
      * cbn [andb]. rewrite HR, Hwsc. reflexivity.
  - (* number *)
    assert (Hsd : sd (map C w ++ spell [] r ++ R)) by (apply (spell_sd_app (TNum b) w r R Hok0); [reflexivity|exact HE]).
    destruct (sd_glue _ Hsd) as [Hg _].
    cbn [tok_text app lex_go]. rewrite Hg, Hwf, HR. reflexivity.
Qed.

Lemma lex_spell_app pre items R tr :
  forallb is_ws pre = true -> spell_ok items = true ->
  implb (ends_open items) (starts_delim R) = true -> lex R = Ok tr ->
  lex (spell pre items ++ R) = Ok (map fst items ++ tr).
Proof.
  intros Hp Hi HE HR. unfold lex in *. change (spell pre items) with (map C pre ++ spell [] items).
  rewrite <- app_assoc, (lex_ws pre _ Hp). apply lex_spell_items_app; assumption.
Qed.

(* ================================================================== Part C: the theorems *)
(* any blank-spelling of any keyword-case / parenthesis variant of a geometry's text, followed by
   text R that does not glue onto the last word and holds at least one token or lexical error *)
Lemma wkt_trailing_text_rejected_lemma sp (g : geomT N) pre items R t tr :
  spelling_ok sp -> wkt_dom g = true ->
  forallb is_ws pre = true -> spell_ok items = true -> map fst items = toks sp g ->
  implb (ends_open items) (starts_delim R) = true -> lex R = Ok (t :: tr) ->
  unmarshal_wkt (spell pre items ++ R) = Err ESyntax.
Proof.
  intros Hsp Hd Hp Hi Hm HE HR. unfold unmarshal_wkt.
  rewrite (lex_spell_app pre items R (t :: tr) Hp Hi HE HR), Hm. cbn [bind].
  apply wkt_trailing_rejected_lemma; assumption.
Qed.

(* the produced text itself followed by such an R *)
Lemma wkt_trailing_after_text_lemma (g : geomT N) R t tr :
  wkt_dom g = true -> starts_delim R = true -> lex R = Ok (t :: tr) ->
  unmarshal_wkt (as_text g ++ R) = Err ESyntax.
Proof.
  intros Hd Hs HR. unfold unmarshal_wkt, lex in *. rewrite as_text_text.
  rewrite (lexes_geom g [] R (t :: tr) (starts_delim_sd R Hs) HR). cbn [bind].
  apply (wkt_trailing_rejected_lemma sp_default g t tr spelling_ok_default Hd).
Qed.
