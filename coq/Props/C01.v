(* Property C01 - overlay set operations return exactly the set-theoretic result.
   Statements only; proofs are in Proofs/SetOpSpec_proofs.v, SetOpSpec_arr_proofs.v,
   SetOpSpec_suff_proofs.v and OverlayComplex_proofs.v.

   What is proved, for all inputs:
   (a) the glue of geom/alg_set_op.go (empty-operand dispatch) and of the final switch of
       geom/dcel_extract_geometry.go, for every engine;
   (b) the exact judgement of a result is a VERIFIED DECISION PROCEDURE, on geometries with closed rings
       (checked executably: rings_closed_b; true of every valid polygon): with the slab-witness
       sufficiency theorems of Proofs/Planar_slab*.v, a passing judgement means
         - union, intersection, UnaryUnion, UnionMany: inG r p = Boolean combination of the operands'
           memberships at EVERY point p of Q^2 (judge_everywhere, judge_many_everywhere);
         - difference, symmetric difference: r contains the Boolean combination at every point
           (judge_contains); r equals it at every point that lies on no segment of the arrangement and
           whose abscissa is not an event abscissa - an open dense subset (judge_off_skeleton); at the
           remaining points (on segments / event lines) membership in r is membership of the point or of
           one of the cells named incident to its cell (judge_closure_everywhere).  NOT proved: that
           the incidence annotation computed by witnesses_nb is geometric incidence (i.e. that this last
           clause IS the topological closure); proved about it: every named cell is a witness of the same
           arrangement (wnb_are_witnesses), the annotated list is Planar.witnesses (witnesses_nb_strip);
         - the exact area functional of r equals that of the Boolean combination (judge_area), it is
           non-negative, monotone and satisfies inclusion-exclusion;
   (c) on every abstract labelled half-edge complex satisfying dcel_ok: what the selection rules of
       dcel_extract_geometry.go extract (select_closure_*, select_remainders_uncovered,
       select_monotone_*, select_face_ops, select_comm, face_cycle_complete).
   Outside the model: the overlay engine itself (float re-noding with snapping, ghosts, radial sort,
   face flood fill, ring walking).  It is tied to the property only by the correspondence run: its
   results are judged by (b), its real DCEL is judged by dcel_ok and by the selection model (c). *)
From Coq Require Import QArith List Bool ZArith.
From SF Require Import Base.GeomAST Base.Outcome Base.QKernel Base.Planar Model.SetOpSpec Proofs.SetOpSpec_proofs
  Proofs.SetOpSpec_arr_proofs Model.OverlayComplex Proofs.OverlayComplex_proofs
  Proofs.Planar_slab_base Proofs.Planar_slab_dim Proofs.SetOpSpec_suff_proofs
  Model.OverlayRings Proofs.OverlayRings_proofs.
Import ListNotations.
Open Scope Q_scope.

(* ================================================================ glue: geom/alg_set_op.go ==== *)
(* the empty-operand dispatch of Union / Intersection / Difference / SymmetricDifference as one
   table: which call is made for each emptiness pattern, for every engine
   (Union a EMPTY = UnaryUnion a, Intersection a EMPTY = Geometry{}, Difference EMPTY b = Geometry{},
   Difference a EMPTY = UnaryUnion a, ...) *)
Theorem dispatch_empty_spec : forall engine o a b,
  run engine o a b =
  match dispatch o (g_empty a) (g_empty b) with
  | DEmpty => Ok empty_geom
  | DUnaryA => unary_union engine a
  | DUnaryB => unary_union engine b
  | DEngine => engine a o b
  end.
Proof. exact dispatch_spec_lemma. Qed.
Print Assumptions dispatch_empty_spec.

(* an empty geometry (IsEmpty) has no points, whatever its type and nesting *)
Theorem empty_no_points : forall (g : geom) p, is_empty g = true -> inG g p = false.
Proof. exact empty_no_points_lemma. Qed.
Print Assumptions empty_no_points.

(* for every engine whose union overlay is pointwise correct, every operation with an empty
   operand returns the plain Boolean combination of the memberships (the dispatch is right) *)
Theorem dispatch_pointwise : forall engine,
  engine_union_ok engine ->
  forall o a b r, g_empty a || g_empty b = true -> run engine o a b = Ok r ->
  forall p, inG r p = op_bool o (inG a p) (inG b p).
Proof. exact dispatch_pointwise_lemma. Qed.
Print Assumptions dispatch_pointwise.

(* UnionMany = union over the list (NewGeometryCollection keeps every member's X and Y) *)
Theorem union_many_pointwise : forall engine,
  engine_union_ok engine -> forall gs r, union_many engine gs = Ok r ->
  forall p, inG r p = existsb (fun g => inG g p) gs.
Proof. exact union_many_pointwise_lemma. Qed.
Print Assumptions union_many_pointwise.

(* ================================================================ glue: extractGeometry ======= *)
(* GeometryCollection iff the number of dimensions present differs from one *)
Theorem assemble_shape_collection : forall A L P,
  geom_type (assemble A L P) = TColl <-> dims_present A L P <> 1%nat.
Proof. exact assemble_collection_iff_lemma. Qed.
Print Assumptions assemble_shape_collection.

(* one dimension present: the single type for one member, the Multi type iff more than one *)
Theorem assemble_shape_multi : forall A L P,
  dims_present A L P = 1%nat ->
  geom_type (assemble A L P) =
    match A, L, P with
    | [_], _, _ => TPoly | _ :: _ :: _, _, _ => TMPoly
    | [], [_], _ => TLine | [], _ :: _ :: _, _ => TMLine
    | [], [], [_] => TPoint | [], [], _ => TMPoint
    end.
Proof. exact assemble_single_multi_lemma. Qed.
Print Assumptions assemble_shape_multi.

(* mixed result: areals, then lineals, then points *)
Theorem assemble_shape_order : forall A L P,
  dims_present A L P <> 1%nat ->
  map geom_type (members (assemble A L P)) =
  repeat TPoly (length A) ++ repeat TLine (length L) ++ repeat TPoint (length P).
Proof. exact assemble_order_lemma. Qed.
Print Assumptions assemble_shape_order.

(* the assembled value has exactly the points of the extracted members *)
Theorem assemble_pointset : forall A L P p,
  inG (assemble A L P) p =
  existsb (fun y => in_poly y p) A || existsb (fun l => on_line l p) L || existsb (fun q => in_point q p) P.
Proof. exact assemble_pointset_lemma. Qed.
Print Assumptions assemble_pointset.

(* the executable canonical-shape predicate evaluated on the implementation's outputs holds of
   everything the switch can produce from non-empty members *)
Theorem assemble_shape_ok : forall A L P, all_nonempty A L P = true -> shape_ok (assemble A L P) = true.
Proof. exact assemble_shape_ok_lemma. Qed.
Print Assumptions assemble_shape_ok.

(* ================================================================ Boolean algebra of the spec == *)
Theorem expected_comm : forall o a b w, o <> OpDiff -> expected o a b w = expected o b a w.
Proof. exact expected_comm_lemma. Qed.
Print Assumptions expected_comm.

Theorem expected_idem : forall a w,
  expected OpUnion a a w = inG a (wpt w) /\ expected OpInter a a w = inG a (wpt w) /\
  expected OpDiff a a w = false /\ expected OpSym a a w = false.
Proof. exact expected_idem_lemma. Qed.
Print Assumptions expected_idem.

(* a = (a \ b) u (a n b) with disjoint parts, at every point *)
Theorem expected_partition : forall a b p,
  inG a p = raw OpDiff a b p || raw OpInter a b p /\ raw OpDiff a b p && raw OpInter a b p = false.
Proof. exact expected_partition_lemma. Qed.
Print Assumptions expected_partition.

(* ... and on closures, at every witness: cl(a) = cl(a \ b) u cl(a n b) *)
Theorem expected_partition_closure : forall a b w,
  in_closure (inG a) w = expected OpDiff a b w || in_closure (raw OpInter a b) w.
Proof. exact expected_partition_closure_lemma. Qed.
Print Assumptions expected_partition_closure.

Theorem expected_symdiff : forall a b w,
  (forall p, raw OpSym a b p = raw OpDiff a b p || raw OpDiff b a p) /\
  expected OpSym a b w = expected OpDiff a b w || expected OpDiff b a w.
Proof. exact expected_symdiff_lemma. Qed.
Print Assumptions expected_symdiff.

Theorem expected_de_morgan : forall a b p,
  negb (raw OpUnion a b p) = negb (inG a p) && negb (inG b p) /\
  negb (raw OpInter a b p) = negb (inG a p) || negb (inG b p) /\
  raw OpDiff a b p = inG a p && negb (raw OpInter a b p) /\
  raw OpUnion a b p = raw OpSym a b p || raw OpInter a b p /\
  raw OpSym a b p = raw OpUnion a b p && negb (raw OpInter a b p).
Proof. exact expected_de_morgan_lemma. Qed.
Print Assumptions expected_de_morgan.

(* closure operator used for difference / symmetric difference: extensive, monotone, distributes
   over union, empty for the empty set *)
Theorem in_closure_laws : forall X Y w,
  (X (wpt w) = true -> in_closure X w = true) /\
  ((forall p, X p = true -> Y p = true) -> in_closure X w = true -> in_closure Y w = true) /\
  in_closure (fun p => X p || Y p) w = in_closure X w || in_closure Y w /\
  in_closure (fun _ => false) w = false.
Proof.
  intros X Y w. repeat split.
  - apply in_closure_extensive. - apply in_closure_mono. - apply in_closure_union. - apply in_closure_empty.
Qed.
Print Assumptions in_closure_laws.

(* inclusion-exclusion on the membership functions and on the exact area functional, for every
   arrangement (L, P) *)
Theorem inclusion_exclusion_pointwise : forall a b p,
  ind (raw OpUnion a b p) + ind (raw OpInter a b p) == ind (inG a p) + ind (inG b p).
Proof. exact inclusion_exclusion_pointwise_lemma. Qed.
Print Assumptions inclusion_exclusion_pointwise.

Theorem area_inclusion_exclusion : forall L P a b,
  area_of L P (raw OpUnion a b) + area_of L P (raw OpInter a b) == area_of L P (inG a) + area_of L P (inG b).
Proof. exact area_inclusion_exclusion_lemma. Qed.
Print Assumptions area_inclusion_exclusion.

Theorem area_partition : forall L P a b,
  area_of L P (inG a) == area_of L P (raw OpDiff a b) + area_of L P (raw OpInter a b).
Proof. exact area_partition_lemma. Qed.
Print Assumptions area_partition.

Theorem area_symdiff : forall L P a b,
  area_of L P (raw OpSym a b) == area_of L P (raw OpDiff a b) + area_of L P (raw OpDiff b a) /\
  area_of L P (raw OpSym a b) + area_of L P (raw OpInter a b) == area_of L P (raw OpUnion a b).
Proof. exact area_symdiff_lemma. Qed.
Print Assumptions area_symdiff.

(* the exact area functional is non-negative and monotone (events and slab heights are strictly
   increasing, so every trapezoid has a non-negative area) *)
Theorem area_monotone : forall L P f g,
  (forall p, f p = true -> g p = true) -> 0 <= area_of L P f /\ area_of L P f <= area_of L P g.
Proof. exact area_monotone_lemma. Qed.
Print Assumptions area_monotone.

(* ================================================================ the oracle ================== *)
(* the incidence-annotated witnesses are exactly Planar's witnesses (points, tags, order) *)
Theorem witnesses_nb_strip : forall L P, map strip (witnesses_nb L P) = witnesses L P.
Proof. exact witnesses_nb_strip_lemma. Qed.
Print Assumptions witnesses_nb_strip.

(* every cell named as incident to a witness is a witness of the same arrangement: the closure test
   only ever consults cells of the arrangement *)
Theorem wnb_are_witnesses : forall L P w q,
  In w (witnesses_nb L P) -> In q (wnb w) -> exists d, In (q, d) (witnesses L P).
Proof. exact wnb_are_witnesses_lemma. Qed.
Print Assumptions wnb_are_witnesses.

(* kernel (Planar_proofs.vertex_set_spec, QKernel.seg_seg_sound): a dimension-0 witness is a segment
   end, an isolated point, or lies on both segments that define it *)
Theorem witness_vertex : forall L P w,
  In w (witnesses_nb L P) -> wdim w = D0 ->
  exists v, pt_eq v (wpt w) /\
    ((exists s, In s L /\ (v = fst s \/ v = snd s)) \/
     (exists s t, In s L /\ In t L /\ on_seg s v = true /\ on_seg t v = true) \/ In v P).
Proof. exact witness_vertex_lemma. Qed.
Print Assumptions witness_vertex.

(* meaning of a passing membership judgement, at the witnesses (lifted to all points below) *)
Theorem judge_sound : forall o a b r,
  v_agree (judge o a b r) = true ->
  forall w, In w (ctx_witnesses [a; b; r]) -> inG r (wpt w) = expected o a b w.
Proof. exact judge_sound_lemma. Qed.
Print Assumptions judge_sound.

Theorem judge_many_sound : forall gs r,
  v_agree (judge_many gs r) = true ->
  forall w, In w (ctx_witnesses (r :: gs)) -> inG r (wpt w) = existsb (fun g => inG g (wpt w)) gs.
Proof. exact judge_many_sound_lemma. Qed.
Print Assumptions judge_many_sound.

(* ---------------------------------------------------------------- from the witnesses to ALL points *)
(* union / intersection: a passing judgement is equality of the point sets at every point of Q^2 *)
Theorem judge_everywhere : forall o a b r,
  (o = OpUnion \/ o = OpInter) -> forallb rings_closed_b [a; b; r] = true ->
  v_agree (judge o a b r) = true ->
  forall p, inG r p = op_bool o (inG a p) (inG b p).
Proof. intros o a b r Ho Hc. apply judge_everywhere_lemma; [exact Ho|apply closed_all_b; exact Hc]. Qed.
Print Assumptions judge_everywhere.

(* UnaryUnion / UnionMany *)
Theorem judge_many_everywhere : forall gs r,
  forallb rings_closed_b (r :: gs) = true -> v_agree (judge_many gs r) = true ->
  forall p, inG r p = existsb (fun g => inG g p) gs.
Proof. intros gs r Hc. apply judge_many_everywhere_lemma. apply closed_all_b. exact Hc. Qed.
Print Assumptions judge_many_everywhere.

(* all four operations: the result contains the Boolean combination at every point *)
Theorem judge_contains : forall o a b r,
  forallb rings_closed_b [a; b; r] = true -> v_agree (judge o a b r) = true ->
  forall p, raw o a b p = true -> inG r p = true.
Proof. intros o a b r Hc. apply judge_contains_lemma. apply closed_all_b. exact Hc. Qed.
Print Assumptions judge_contains.

(* difference / symmetric difference: exact equality on an open dense set - every point on no
   segment of the arrangement whose abscissa is no event abscissa *)
Theorem judge_off_skeleton : forall o a b r,
  forallb rings_closed_b [a; b; r] = true -> v_agree (judge o a b r) = true ->
  forall p,
    on_some_seg (ctx_segs [a; b; r]) p = false ->
    (forall x, In x (events (vertex_set (ctx_segs [a; b; r]) (ctx_pts [a; b; r]))) -> ~ fst p == x) ->
    inG r p = raw o a b p.
Proof. intros o a b r Hc. apply judge_off_skeleton_lemma. apply closed_all_b. exact Hc. Qed.
Print Assumptions judge_off_skeleton.

(* ... and at every point whatsoever: membership of the point, or of a cell named incident to its cell *)
Theorem judge_closure_everywhere : forall o a b r,
  forallb rings_closed_b [a; b; r] = true -> v_agree (judge o a b r) = true ->
  forall p, exists wn, In wn (ctx_witnesses [a; b; r]) /\
    same_cell (ctx_segs [a; b; r]) (vertex_set (ctx_segs [a; b; r]) (ctx_pts [a; b; r])) p (wpt wn) /\
    inG r p = match o with
              | OpUnion | OpInter => raw o a b p
              | OpDiff | OpSym => raw o a b p || existsb (raw o a b) (wnb wn)
              end.
Proof. intros o a b r Hc. apply judge_closure_everywhere_lemma. apply closed_all_b. exact Hc. Qed.
Print Assumptions judge_closure_everywhere.

(* membership in any geometry of the arrangement is constant on the cell of a witness: in particular on
   the open trapezoid represented by each term of the area functional *)
Theorem cell_constant : forall gs g p w,
  In g gs -> rings_closed_b g = true ->
  same_cell (ctx_segs gs) (vertex_set (ctx_segs gs) (ctx_pts gs)) p w -> inG g p = inG g w.
Proof. intros gs g p w Hg Hc. apply transfer; [exact Hg|apply rings_closed_b_sound; exact Hc]. Qed.
Print Assumptions cell_constant.

(* the exact area functional of the result equals that of the Boolean combination *)
Theorem judge_area : forall o a b r,
  v_agree (judge o a b r) = true ->
  area_of (ctx_segs [a; b; r]) (ctx_pts [a; b; r]) (inG r) ==
  area_of (ctx_segs [a; b; r]) (ctx_pts [a; b; r]) (raw o a b).
Proof. exact judge_area_lemma. Qed.
Print Assumptions judge_area.

(* the comparison of two outputs used for the laws is symmetric (and reflexive) *)
Theorem same_set_sym : forall g h, same_set g h = same_set h g.
Proof. exact same_set_sym_lemma. Qed.
Print Assumptions same_set_sym.

(* ================================================================ the labelled cell complex ==== *)
(* Model/OverlayComplex.v: the overlay's half-edge structure with its labels, abstractly; [dcel_ok] is
   evaluated by the driver on the REAL structure of every overlay (hook VerifOverlay), and the
   selection model below is compared with the geometry the implementation extracted from it. *)

(* on every complex satisfying the invariants, the boundary cycle recorded for a face visits every
   half edge incident to that face exactly once (so the extracted marks of extractPolygons, which walk
   the cycle, are exactly "own face selected") *)
Theorem face_cycle_complete : forall c j f s,
  dcel_ok c = true -> get_f c j = Some f -> f_cycle f = Some s ->
  exists l, orbit c s s (nE c) = Some l /\ NoDup l /\
            forall i, In i l <-> exists e, get_e c i = Some e /\ e_face e = j.
Proof. exact face_cycle_complete_lemma. Qed.
Print Assumptions face_cycle_complete.

(* shouldExtractLine: the [extracted] mark left by extractPolygons is implied by the two face tests *)
Theorem sel_line_simpl : forall o c e, sel_line o c e = inc o (e_in e) && negb (adj_sel o c e).
Proof. exact sel_line_simpl_lemma. Qed.
Print Assumptions sel_line_simpl.

(* select_closure, edges: on every complex satisfying the structural invariants, an edge belongs to
   the result iff the label of one of its half edges is selected or a face on one of its sides is
   selected (closure of the selected cells) *)
Theorem select_closure_edge : forall o c i e,
  dcel_ok c = true -> get_e c i = Some e -> res_edge o c e = edge_inc o c e || adj_sel o c e.
Proof. exact select_edge_closure_lemma. Qed.
Print Assumptions select_closure_edge.

(* select_closure, vertices: on every complex satisfying the structural invariants, a vertex belongs
   to the result iff its own label is selected or an edge of the result starts at it *)
Theorem select_closure_vertex : forall o c i v,
  dcel_ok c = true ->
  res_vertex o c (i, v) =
  inc o (v_in v) || existsb (fun e => Nat.eqb (e_origin e) i && res_edge o c e) (c_edges c).
Proof. exact select_vertex_closure_lemma. Qed.
Print Assumptions select_closure_vertex.

(* lower-dimensional remainders only where not already covered by a higher-dimensional part *)
Theorem select_remainders_uncovered : forall o c,
  dcel_ok c = true ->
  (forall i e, get_e c i = Some e -> line_extracted o c e = true -> adj_sel o c e = false) /\
  (forall iv, sel_point o c iv = true -> v_covered o c (fst iv) = false).
Proof. exact remainders_uncovered_lemma. Qed.
Print Assumptions select_remainders_uncovered.

(* the label bounds that dcel_ok checks contain label closure: face <= boundary edge <= end vertices *)
Theorem dcel_label_closure : forall c, dcel_ok c = true -> label_closed c.
Proof. exact labels_closed_lemma. Qed.
Print Assumptions dcel_label_closure.

(* for union and intersection the result at every edge and vertex is the plain Boolean combination
   of that cell's own two labels (the sets are closed; no closure is involved) *)
Theorem select_monotone_edge : forall o c i e,
  (o = OpUnion \/ o = OpInter) -> dcel_ok c = true -> get_e c i = Some e -> res_edge o c e = edge_inc o c e.
Proof. exact select_monotone_edge_lemma. Qed.
Print Assumptions select_monotone_edge.
Theorem select_monotone_vertex : forall o c i v,
  (o = OpUnion \/ o = OpInter) -> dcel_ok c = true -> get_v c i = Some v ->
  res_vertex o c (i, v) = inc o (v_in v).
Proof. exact select_monotone_vertex_lemma. Qed.
Print Assumptions select_monotone_vertex.

(* face selection of the four operations = Boolean combinations of the two label families *)
Theorem select_face_ops : forall c f,
  let a := fst (face_in c f) in let b := snd (face_in c f) in
  sel_face OpUnion c f = a || b /\ sel_face OpInter c f = a && b /\
  sel_face OpDiff c f = a && negb b /\ sel_face OpSym c f = xorb a b /\
  sel_face OpSym c f = sel_face OpDiff c f || sel_face OpDiff (swap_c c) f /\
  sel_face OpUnion c f = sel_face OpSym c f || sel_face OpInter c f /\
  a = sel_face OpDiff c f || sel_face OpInter c f.
Proof. exact sel_face_ops_lemma. Qed.
Print Assumptions select_face_ops.

(* commutativity on the complex: swapping the operands selects the same faces, boundary edges,
   lines and points for union, intersection and symmetric difference *)
Theorem select_comm : forall o c,
  o <> OpDiff ->
  faces_selected o (swap_c c) = faces_selected o c /\
  boundary_edges o (swap_c c) = boundary_edges o c /\
  lines_selected o (swap_c c) = lines_selected o c /\
  points_selected o (swap_c c) = points_selected o c.
Proof. exact select_comm_lemma. Qed.
Print Assumptions select_comm.

(* ================================================================ extractPolygons on the complex *)
(* Model/OverlayRings.v: grouping of the selected faces (findFacesMakingPolygon), the ring walk
   (extractPolygonRing with the seen bookkeeping), the exterior / hole decision (orderPolygonRings, by
   the signed area carried as an abstract weight per half edge).  Iterations are fuelled; the theorems
   speak about extractions that returned a value - which the driver observes on every real structure,
   where the model's rings are compared ring by ring with the polygons the implementation extracted.
   The remaining ordering steps (rotation of a ring to its least sequence, sorting of holes and of
   polygons) only permute: they are modelled and proved order-independent for C10 (Model/Canon.v,
   Canon_proofs.canon_ring_rotn / canon_poly_invariant_lemma); rings are compared here as cyclic
   sequences and polygons as sets, i.e. modulo exactly those steps. *)

(* rings: each ring is a closed cycle of the successor of extractPolygonRing; all half edges of all
   rings of a group are distinct (rings simple and pairwise edge-disjoint); the half edges on the rings
   are exactly the boundary half edges of the group (each lies on exactly one ring) *)
Theorem extract_rings_spec : forall o c grp rings,
  dcel_ok c = true -> group_ok o c grp = true -> group_rings o c grp = Some rings ->
  (forall ring, In ring rings -> exists s, chain (ring_succ c grp) s s ring) /\
  NoDup (concat rings) /\
  Permutation.Permutation (concat rings) (group_boundary o c grp) /\
  (forall z, In z (concat rings) -> gb c grp z).
Proof. exact group_rings_spec_lemma. Qed.
Print Assumptions extract_rings_spec.

(* one step of the ring walk stays on the boundary of the group *)
Theorem ring_succ_boundary : forall c grp i j,
  dcel_ok c = true -> gb c grp i -> ring_succ c grp i = Some j -> gb c grp j.
Proof. exact ring_succ_gb. Qed.
Print Assumptions ring_succ_boundary.

(* groups: pairwise disjoint, covering the selected faces, each closed under adjacency, made of
   selected faces and connected - the connected components of the selected faces across edges *)
Theorem extract_groups_spec : forall o c gs,
  dcel_ok c = true -> polygon_groups o c = Some gs ->
  (forall g, In g gs -> group_ok o c g = true /\ exists f, In f g /\ forall x, In x g -> conn o c f x) /\
  (forall f, (f < nF c)%nat -> sel_face o c f = true -> exists g, In g gs /\ In f g) /\
  ForallOrdPairs (fun g1 g2 => forall x, In x g1 -> ~ In x g2) gs.
Proof. exact polygon_groups_spec_lemma. Qed.
Print Assumptions extract_groups_spec.

(* number of polygons = number of connected groups; the exterior ring and the holes of a polygon are
   the rings of its group *)
Theorem extract_polygons_groups : forall o c w ps,
  extract_polygons o c w = Some ps ->
  exists gs, polygon_groups o c = Some gs /\ map p_group ps = gs /\ length ps = length gs /\
    forall p, In p ps -> exists rings, group_rings o c (p_group p) = Some rings /\
                                       Permutation.Permutation (p_exterior p :: p_holes p) rings.
Proof. exact extract_polygons_groups_lemma. Qed.
Print Assumptions extract_polygons_groups.

(* ================================================================ examples (non-vacuity) ====== *)
Definition vz (x y : Z) : vtx Q := Build_vtx (inject_Z x) (inject_Z y) 0 0.
Definition ringz (l : list (Z * Z)) : lineT Q := MkLine XY (map (fun p => vz (fst p) (snd p)) l).
Definition sqz (x0 y0 x1 y1 : Z) : polyT Q := MkPoly XY [ringz [(x0, y0); (x1, y0); (x1, y1); (x0, y1); (x0, y0)]].
Definition exA : geom := GPoly (sqz 0 0 4 4).
Definition exB : geom := GPoly (sqz 2 2 6 6).
(* the four results for two overlapping squares (areas 28 / 4 / 12 / 24, DESIGN.md section 0) *)
Definition exU : geom := GPoly (MkPoly XY [ringz [(0,0);(4,0);(4,2);(6,2);(6,6);(2,6);(2,4);(0,4);(0,0)]%Z]).
Definition exI : geom := GPoly (sqz 2 2 4 4).
Definition exD : geom := GPoly (MkPoly XY [ringz [(0,0);(4,0);(4,2);(2,2);(2,4);(0,4);(0,0)]%Z]).
Definition exS : geom :=
  GMPoly XY [MkPoly XY [ringz [(0,0);(4,0);(4,2);(2,2);(2,4);(0,4);(0,0)]%Z];
             MkPoly XY [ringz [(2,4);(4,4);(4,2);(6,2);(6,6);(2,6);(2,4)]%Z]].
Example judge_overlapping_squares :
  verdict_ok (judge OpUnion exA exB exU) && verdict_ok (judge OpInter exA exB exI) &&
  verdict_ok (judge OpDiff exA exB exD) && verdict_ok (judge OpSym exA exB exS) = true.
Proof. vm_compute. reflexivity. Qed.
(* the judgement is not vacuous: a wrong result is rejected, and so is an open-set answer where the
   closure is required (LINESTRING minus an interior point is the whole line) *)
Example judge_everywhere_example :
  forallb rings_closed_b [exA; exB; exU] = true /\ v_agree (judge OpUnion exA exB exU) = true /\
  forallb rings_closed_b [exA; exB; exD] = true /\ v_agree (judge OpDiff exA exB exD) = true.
Proof. vm_compute. repeat split; reflexivity. Qed.
Example judge_rejects_wrong :
  verdict_ok (judge OpDiff exA exB exU) = false /\ verdict_ok (judge OpUnion exA exB exD) = false.
Proof. vm_compute. split; reflexivity. Qed.
Definition exL : geom := GLine (ringz [(0,0);(4,0)]%Z).
Definition exPt : geom := GPoint (MkPoint XY (Some (vz 2 0))).
Example judge_closure_form :
  verdict_ok (judge OpDiff exL exPt (GMLine XY [ringz [(0,0);(2,0)]%Z; ringz [(2,0);(4,0)]%Z])) = true /\
  v_agree (judge OpDiff exL exPt (GMLine XY [ringz [(0,0);(1,0)]%Z; ringz [(3,0);(4,0)]%Z])) = false.
Proof. vm_compute. split; reflexivity. Qed.
(* exact areas of the example: 28 + 4 = 16 + 16 *)
Example area_example :
  ctx_area [exA; exB] (raw OpUnion exA exB) == 28 /\ ctx_area [exA; exB] (raw OpInter exA exB) == 4 /\
  ctx_area [exA; exB] (raw OpDiff exA exB) == 12 /\ ctx_area [exA; exB] (raw OpSym exA exB) == 24.
Proof. vm_compute. repeat split; reflexivity. Qed.
(* the hypotheses of the glue theorems are satisfiable: an engine that is pointwise correct for union
   on its domain (here: the trivial engine returning the collection of both operands) *)
Definition ex_engine (a : geom) (o : setop) (b : geom) : outcome geom :=
  match o with OpUnion => Ok (GColl XY [a; b]) | _ => Err EOther end.
Example ex_engine_ok : engine_union_ok ex_engine.
Proof. intros a b r H p. injection H as <-. simpl. rewrite orb_false_r. reflexivity. Qed.
Example dispatch_example :
  run ex_engine OpDiff exA (GMPoint XY [MkPoint XY None]) = unary_union ex_engine exA /\
  run ex_engine OpInter exA (GColl XY [GColl XY []]) = Ok empty_geom /\
  dims_present [sqz 0 0 1 1] [ringz [(0,0);(1,1)]%Z] [] = 2%nat /\
  all_nonempty [sqz 0 0 1 1] [ringz [(0,0);(1,1)]%Z] [] = true.
Proof. repeat split; reflexivity. Qed.
(* F20: the class predicate and the symptom location on the minimal input; the faithful statement
   "UnaryUnion(GC(P1,P2)) = P1 with its hole" is rejected by the judgement exactly in the covered hole *)
Definition exP1 : polyT Q :=
  MkPoly XY [ringz [(0,0);(6,0);(6,6);(0,6);(0,0)]%Z; ringz [(2,2);(2,4);(4,4);(4,2);(2,2)]%Z].
Definition exGC : geom := GColl XY [GPoly exP1; GPoly (sqz 1 1 5 5)].
Example f20_class_and_symptom :
  same_operand_hole_meets_sibling_interior exGC = true /\
  same_operand_hole_meets_sibling_interior (GPoly exP1) = false /\
  (let v := judge_many [exGC] (GPoly exP1) in
   v_agree v = false /\ forallb (fun w => in_covered_hole exGC (wpt w)) (v_bad v) = true) /\
  verdict_ok (judge_many [exGC] (GPoly (sqz 0 0 6 6))) = true.
Proof. vm_compute. repeat split; reflexivity. Qed.

(* a triangle of operand A: 3 vertices, 6 half edges (0,1,2 around the inner face; 3,4,5 their twins
   around the outer face), 2 faces; it satisfies the invariants, and the selection model extracts the
   inner face with its three boundary edges for union, nothing for intersection *)
Definition exTri : complex :=
  let a : lab := (true, false) in let n : lab := (false, false) in
  MkC [MkV a a; MkV a a; MkV a a]
      [MkE 0 3 1 2 0 a a a; MkE 1 4 2 0 0 a a a; MkE 2 5 0 1 0 a a a;
       MkE 1 0 5 4 1 a n a; MkE 2 1 3 5 1 a n a; MkE 0 2 4 3 1 a n a]
      [MkF (Some 0%nat) a; MkF (Some 3%nat) n].
Example complex_example :
  dcel_ok exTri = true /\
  faces_selected OpUnion exTri = [0%nat] /\ boundary_edges OpUnion exTri = [0; 1; 2]%nat /\
  lines_selected OpUnion exTri = [] /\ points_selected OpUnion exTri = [] /\
  faces_selected OpInter exTri = [] /\ boundary_edges OpDiff exTri = [0; 1; 2]%nat /\
  boundary_edges OpDiff (swap_c exTri) = [].
Proof. vm_compute. repeat split; reflexivity. Qed.
(* the invariants are not vacuous: a wrong twin pointer, an open face cycle, a face label that does
   not reach its edge are all rejected *)
Example complex_rejects :
  dcel_ok (MkC (c_verts exTri) (MkE 0 4 1 2 0 (true,false) (true,false) (true,false) :: tl (c_edges exTri)) (c_faces exTri)) = false /\
  dcel_ok (MkC (c_verts exTri) (MkE 0 3 2 2 0 (true,false) (true,false) (true,false) :: tl (c_edges exTri)) (c_faces exTri)) = false /\
  dcel_ok (MkC (c_verts exTri) (c_edges exTri) [MkF (Some 0%nat) (true, true); MkF (Some 3%nat) (false, false)]) = false.
Proof. vm_compute. repeat split; reflexivity. Qed.

(* the triangle again: one group, one ring (the three inner half edges in walk order), counter-clockwise
   for a positive weight; with the operands swapped the difference selects nothing *)
Example rings_example :
  polygon_groups OpUnion exTri = Some [[0%nat]] /\
  group_rings OpUnion exTri [0%nat] = Some [[0; 1; 2]%nat] /\
  (match extract_polygons OpUnion exTri (fun i => if Nat.ltb i 3 then 1%Q else (-1)%Q) with
   | Some [p] => p_exterior p = [0; 1; 2]%nat /\ p_holes p = [] /\ p_one_ccw p = true
   | _ => False end) /\
  extract_polygons OpDiff (swap_c exTri) (fun _ => 1%Q) = Some [].
Proof. vm_compute. repeat split; reflexivity. Qed.
