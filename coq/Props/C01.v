(* Property C01 - overlay set operations return exactly the set-theoretic result.
   Statements only; proofs are in Proofs/SetOpSpec_proofs.v.  Label: PARTIAL by design - the overlay
   engine (re-noding, ghosts, half-edge structure, labelling, ring extraction) is an abstract function
   [engine] here.  Proved, for all inputs: the glue around it (empty-operand dispatch of
   geom/alg_set_op.go, final assembly switch of geom/dcel_extract_geometry.go) and the facts about the
   exact reference semantics (Model/SetOpSpec.v) that the correspondence run evaluates on the
   implementation's outputs.  NOT proved: that agreement at every witness of the arrangement implies
   agreement at every point of Q^2 (DESIGN.md 4.1), and nothing about the float re-noding. *)
From Coq Require Import QArith List Bool ZArith.
From SF Require Import Base.GeomAST Base.Outcome Base.QKernel Base.Planar Model.SetOpSpec Proofs.SetOpSpec_proofs
  Proofs.SetOpSpec_arr_proofs.
Import ListNotations.
Open Scope Q_scope.

(* ================================================================ glue: geom/alg_set_op.go ==== *)
(* the empty-operand dispatch of Union / Intersection / Difference / SymmetricDifference as one
   table: which call is made for each emptiness pattern, for every engine
   (Union a EMPTY = UnaryUnion a, Intersection a EMPTY = Geometry{}, Difference EMPTY b = Geometry{},
   Difference a EMPTY = UnaryUnion a, ...) *)
Theorem dispatch_empty_spec : forall engine o a b,
  run engine o a b =
  match dispatch o (g_empty a) (g_empty b) with
  | DEmpty => Ok empty_geom
  | DUnaryA => unary_union engine a
  | DUnaryB => unary_union engine b
  | DEngine => engine a o b
  end.
Proof. exact dispatch_spec_lemma. Qed.
Print Assumptions dispatch_empty_spec.

(* an empty geometry (IsEmpty) has no points, whatever its type and nesting *)
Theorem empty_no_points : forall (g : geom) p, is_empty g = true -> inG g p = false.
Proof. exact empty_no_points_lemma. Qed.
Print Assumptions empty_no_points.

(* for every engine whose union overlay is pointwise correct, every operation with an empty
   operand returns the plain Boolean combination of the memberships (the dispatch is right) *)
Theorem dispatch_pointwise : forall engine,
  engine_union_ok engine ->
  forall o a b r, g_empty a || g_empty b = true -> run engine o a b = Ok r ->
  forall p, inG r p = op_bool o (inG a p) (inG b p).
Proof. exact dispatch_pointwise_lemma. Qed.
Print Assumptions dispatch_pointwise.

(* UnionMany = union over the list (NewGeometryCollection keeps every member's X and Y) *)
Theorem union_many_pointwise : forall engine,
  engine_union_ok engine -> forall gs r, union_many engine gs = Ok r ->
  forall p, inG r p = existsb (fun g => inG g p) gs.
Proof. exact union_many_pointwise_lemma. Qed.
Print Assumptions union_many_pointwise.

(* ================================================================ glue: extractGeometry ======= *)
(* GeometryCollection iff the number of dimensions present differs from one *)
Theorem assemble_shape_collection : forall A L P,
  geom_type (assemble A L P) = TColl <-> dims_present A L P <> 1%nat.
Proof. exact assemble_collection_iff_lemma. Qed.
Print Assumptions assemble_shape_collection.

(* one dimension present: the single type for one member, the Multi type iff more than one *)
Theorem assemble_shape_multi : forall A L P,
  dims_present A L P = 1%nat ->
  geom_type (assemble A L P) =
    match A, L, P with
    | [_], _, _ => TPoly | _ :: _ :: _, _, _ => TMPoly
    | [], [_], _ => TLine | [], _ :: _ :: _, _ => TMLine
    | [], [], [_] => TPoint | [], [], _ => TMPoint
    end.
Proof. exact assemble_single_multi_lemma. Qed.
Print Assumptions assemble_shape_multi.

(* mixed result: areals, then lineals, then points *)
Theorem assemble_shape_order : forall A L P,
  dims_present A L P <> 1%nat ->
  map geom_type (members (assemble A L P)) =
  repeat TPoly (length A) ++ repeat TLine (length L) ++ repeat TPoint (length P).
Proof. exact assemble_order_lemma. Qed.
Print Assumptions assemble_shape_order.

(* the assembled value has exactly the points of the extracted members *)
Theorem assemble_pointset : forall A L P p,
  inG (assemble A L P) p =
  existsb (fun y => in_poly y p) A || existsb (fun l => on_line l p) L || existsb (fun q => in_point q p) P.
Proof. exact assemble_pointset_lemma. Qed.
Print Assumptions assemble_pointset.

(* the executable canonical-shape predicate evaluated on the implementation's outputs holds of
   everything the switch can produce from non-empty members *)
Theorem assemble_shape_ok : forall A L P, all_nonempty A L P = true -> shape_ok (assemble A L P) = true.
Proof. exact assemble_shape_ok_lemma. Qed.
Print Assumptions assemble_shape_ok.

(* ================================================================ Boolean algebra of the spec == *)
Theorem expected_comm : forall o a b w, o <> OpDiff -> expected o a b w = expected o b a w.
Proof. exact expected_comm_lemma. Qed.
Print Assumptions expected_comm.

Theorem expected_idem : forall a w,
  expected OpUnion a a w = inG a (wpt w) /\ expected OpInter a a w = inG a (wpt w) /\
  expected OpDiff a a w = false /\ expected OpSym a a w = false.
Proof. exact expected_idem_lemma. Qed.
Print Assumptions expected_idem.

(* a = (a \ b) u (a n b) with disjoint parts, at every point *)
Theorem expected_partition : forall a b p,
  inG a p = raw OpDiff a b p || raw OpInter a b p /\ raw OpDiff a b p && raw OpInter a b p = false.
Proof. exact expected_partition_lemma. Qed.
Print Assumptions expected_partition.

(* ... and on closures, at every witness: cl(a) = cl(a \ b) u cl(a n b) *)
Theorem expected_partition_closure : forall a b w,
  in_closure (inG a) w = expected OpDiff a b w || in_closure (raw OpInter a b) w.
Proof. exact expected_partition_closure_lemma. Qed.
Print Assumptions expected_partition_closure.

Theorem expected_symdiff : forall a b w,
  (forall p, raw OpSym a b p = raw OpDiff a b p || raw OpDiff b a p) /\
  expected OpSym a b w = expected OpDiff a b w || expected OpDiff b a w.
Proof. exact expected_symdiff_lemma. Qed.
Print Assumptions expected_symdiff.

Theorem expected_de_morgan : forall a b p,
  negb (raw OpUnion a b p) = negb (inG a p) && negb (inG b p) /\
  negb (raw OpInter a b p) = negb (inG a p) || negb (inG b p) /\
  raw OpDiff a b p = inG a p && negb (raw OpInter a b p) /\
  raw OpUnion a b p = raw OpSym a b p || raw OpInter a b p /\
  raw OpSym a b p = raw OpUnion a b p && negb (raw OpInter a b p).
Proof. exact expected_de_morgan_lemma. Qed.
Print Assumptions expected_de_morgan.

(* closure operator used for difference / symmetric difference: extensive, monotone, distributes
   over union, empty for the empty set *)
Theorem in_closure_laws : forall X Y w,
  (X (wpt w) = true -> in_closure X w = true) /\
  ((forall p, X p = true -> Y p = true) -> in_closure X w = true -> in_closure Y w = true) /\
  in_closure (fun p => X p || Y p) w = in_closure X w || in_closure Y w /\
  in_closure (fun _ => false) w = false.
Proof.
  intros X Y w. repeat split.
  - apply in_closure_extensive. - apply in_closure_mono. - apply in_closure_union. - apply in_closure_empty.
Qed.
Print Assumptions in_closure_laws.

(* inclusion-exclusion on the membership functions and on the exact area functional, for every
   arrangement (L, P) *)
Theorem inclusion_exclusion_pointwise : forall a b p,
  ind (raw OpUnion a b p) + ind (raw OpInter a b p) == ind (inG a p) + ind (inG b p).
Proof. exact inclusion_exclusion_pointwise_lemma. Qed.
Print Assumptions inclusion_exclusion_pointwise.

Theorem area_inclusion_exclusion : forall L P a b,
  area_of L P (raw OpUnion a b) + area_of L P (raw OpInter a b) == area_of L P (inG a) + area_of L P (inG b).
Proof. exact area_inclusion_exclusion_lemma. Qed.
Print Assumptions area_inclusion_exclusion.

Theorem area_partition : forall L P a b,
  area_of L P (inG a) == area_of L P (raw OpDiff a b) + area_of L P (raw OpInter a b).
Proof. exact area_partition_lemma. Qed.
Print Assumptions area_partition.

Theorem area_symdiff : forall L P a b,
  area_of L P (raw OpSym a b) == area_of L P (raw OpDiff a b) + area_of L P (raw OpDiff b a) /\
  area_of L P (raw OpSym a b) + area_of L P (raw OpInter a b) == area_of L P (raw OpUnion a b).
Proof. exact area_symdiff_lemma. Qed.
Print Assumptions area_symdiff.

(* the exact area functional is non-negative and monotone (events and slab heights are strictly
   increasing, so every trapezoid has a non-negative area) *)
Theorem area_monotone : forall L P f g,
  (forall p, f p = true -> g p = true) -> 0 <= area_of L P f /\ area_of L P f <= area_of L P g.
Proof. exact area_monotone_lemma. Qed.
Print Assumptions area_monotone.

(* ================================================================ the oracle ================== *)
(* the incidence-annotated witnesses are exactly Planar's witnesses (points, tags, order) *)
Theorem witnesses_nb_strip : forall L P, map strip (witnesses_nb L P) = witnesses L P.
Proof. exact witnesses_nb_strip_lemma. Qed.
Print Assumptions witnesses_nb_strip.

(* every cell named as incident to a witness is a witness of the same arrangement: the closure test
   only ever consults cells of the arrangement *)
Theorem wnb_are_witnesses : forall L P w q,
  In w (witnesses_nb L P) -> In q (wnb w) -> exists d, In (q, d) (witnesses L P).
Proof. exact wnb_are_witnesses_lemma. Qed.
Print Assumptions wnb_are_witnesses.

(* kernel (Planar_proofs.vertex_set_spec, QKernel.seg_seg_sound): a dimension-0 witness is a segment
   end, an isolated point, or lies on both segments that define it *)
Theorem witness_vertex : forall L P w,
  In w (witnesses_nb L P) -> wdim w = D0 ->
  exists v, pt_eq v (wpt w) /\
    ((exists s, In s L /\ (v = fst s \/ v = snd s)) \/
     (exists s t, In s L /\ In t L /\ on_seg s v = true /\ on_seg t v = true) \/ In v P).
Proof. exact witness_vertex_lemma. Qed.
Print Assumptions witness_vertex.

(* meaning of a passing membership judgement *)
Theorem judge_sound : forall o a b r,
  v_agree (judge o a b r) = true ->
  forall w, In w (ctx_witnesses [a; b; r]) -> inG r (wpt w) = expected o a b w.
Proof. exact judge_sound_lemma. Qed.
Print Assumptions judge_sound.

Theorem judge_many_sound : forall gs r,
  v_agree (judge_many gs r) = true ->
  forall w, In w (ctx_witnesses (r :: gs)) -> inG r (wpt w) = existsb (fun g => inG g (wpt w)) gs.
Proof. exact judge_many_sound_lemma. Qed.
Print Assumptions judge_many_sound.

(* the comparison of two outputs used for the laws is symmetric (and reflexive) *)
Theorem same_set_sym : forall g h, same_set g h = same_set h g.
Proof. exact same_set_sym_lemma. Qed.
Print Assumptions same_set_sym.

(* ================================================================ examples (non-vacuity) ====== *)
Definition vz (x y : Z) : vtx Q := Build_vtx (inject_Z x) (inject_Z y) 0 0.
Definition ringz (l : list (Z * Z)) : lineT Q := MkLine XY (map (fun p => vz (fst p) (snd p)) l).
Definition sqz (x0 y0 x1 y1 : Z) : polyT Q := MkPoly XY [ringz [(x0, y0); (x1, y0); (x1, y1); (x0, y1); (x0, y0)]].
Definition exA : geom := GPoly (sqz 0 0 4 4).
Definition exB : geom := GPoly (sqz 2 2 6 6).
(* the four results for two overlapping squares (areas 28 / 4 / 12 / 24, DESIGN.md section 0) *)
Definition exU : geom := GPoly (MkPoly XY [ringz [(0,0);(4,0);(4,2);(6,2);(6,6);(2,6);(2,4);(0,4);(0,0)]%Z]).
Definition exI : geom := GPoly (sqz 2 2 4 4).
Definition exD : geom := GPoly (MkPoly XY [ringz [(0,0);(4,0);(4,2);(2,2);(2,4);(0,4);(0,0)]%Z]).
Definition exS : geom :=
  GMPoly XY [MkPoly XY [ringz [(0,0);(4,0);(4,2);(2,2);(2,4);(0,4);(0,0)]%Z];
             MkPoly XY [ringz [(2,4);(4,4);(4,2);(6,2);(6,6);(2,6);(2,4)]%Z]].
Example judge_overlapping_squares :
  verdict_ok (judge OpUnion exA exB exU) && verdict_ok (judge OpInter exA exB exI) &&
  verdict_ok (judge OpDiff exA exB exD) && verdict_ok (judge OpSym exA exB exS) = true.
Proof. vm_compute. reflexivity. Qed.
(* the judgement is not vacuous: a wrong result is rejected, and so is an open-set answer where the
   closure is required (LINESTRING minus an interior point is the whole line) *)
Example judge_rejects_wrong :
  verdict_ok (judge OpDiff exA exB exU) = false /\ verdict_ok (judge OpUnion exA exB exD) = false.
Proof. vm_compute. split; reflexivity. Qed.
Definition exL : geom := GLine (ringz [(0,0);(4,0)]%Z).
Definition exPt : geom := GPoint (MkPoint XY (Some (vz 2 0))).
Example judge_closure_form :
  verdict_ok (judge OpDiff exL exPt (GMLine XY [ringz [(0,0);(2,0)]%Z; ringz [(2,0);(4,0)]%Z])) = true /\
  v_agree (judge OpDiff exL exPt (GMLine XY [ringz [(0,0);(1,0)]%Z; ringz [(3,0);(4,0)]%Z])) = false.
Proof. vm_compute. split; reflexivity. Qed.
(* exact areas of the example: 28 + 4 = 16 + 16 *)
Example area_example :
  ctx_area [exA; exB] (raw OpUnion exA exB) == 28 /\ ctx_area [exA; exB] (raw OpInter exA exB) == 4 /\
  ctx_area [exA; exB] (raw OpDiff exA exB) == 12 /\ ctx_area [exA; exB] (raw OpSym exA exB) == 24.
Proof. vm_compute. repeat split; reflexivity. Qed.
(* the hypotheses of the glue theorems are satisfiable: an engine that is pointwise correct for union
   on its domain (here: the trivial engine returning the collection of both operands) *)
Definition ex_engine (a : geom) (o : setop) (b : geom) : outcome geom :=
  match o with OpUnion => Ok (GColl XY [a; b]) | _ => Err EOther end.
Example ex_engine_ok : engine_union_ok ex_engine.
Proof. intros a b r H p. injection H as <-. simpl. rewrite orb_false_r. reflexivity. Qed.
Example dispatch_example :
  run ex_engine OpDiff exA (GMPoint XY [MkPoint XY None]) = unary_union ex_engine exA /\
  run ex_engine OpInter exA (GColl XY [GColl XY []]) = Ok empty_geom /\
  dims_present [sqz 0 0 1 1] [ringz [(0,0);(1,1)]%Z] [] = 2%nat /\
  all_nonempty [sqz 0 0 1 1] [ringz [(0,0);(1,1)]%Z] [] = true.
Proof. repeat split; reflexivity. Qed.
(* F20: the class predicate and the symptom location on the minimal input; the faithful statement
   "UnaryUnion(GC(P1,P2)) = P1 with its hole" is rejected by the judgement exactly in the covered hole *)
Definition exP1 : polyT Q :=
  MkPoly XY [ringz [(0,0);(6,0);(6,6);(0,6);(0,0)]%Z; ringz [(2,2);(2,4);(4,4);(4,2);(2,2)]%Z].
Definition exGC : geom := GColl XY [GPoly exP1; GPoly (sqz 1 1 5 5)].
Example f20_class_and_symptom :
  same_operand_hole_meets_sibling_interior exGC = true /\
  same_operand_hole_meets_sibling_interior (GPoly exP1) = false /\
  (let v := judge_many [exGC] (GPoly exP1) in
   v_agree v = false /\ forallb (fun w => in_covered_hole exGC (wpt w)) (v_bad v) = true) /\
  verdict_ok (judge_many [exGC] (GPoly (sqz 0 0 6 6))) = true.
Proof. vm_compute. repeat split; reflexivity. Qed.
