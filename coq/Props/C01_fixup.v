(* Property C01, statements about geom/dcel_fixup.go in the model (Model/OverlayFixup.v); proofs are in
   Proofs/OverlayFixup_proofs.v.  The model is a line-by-line transcription over exact rationals of
   radialLess / fixVertex / fixVertices / assignFaces (cycle search, face records, flood fill) /
   populateInSetLabels, run on a PRE-COMPLEX: vertices with coordinates, half edges with origin, twin,
   second point (outgoing direction), srcEdge / srcFace labels - no next / prev / face yet.

   (a) radialLess is a strict total order on non-zero vectors (irreflexive for all vectors; transitive and
       asymmetric on non-zero vectors; any two different non-zero vectors are comparable - vectors of the
       same direction are ordered by length), and it is the order "sector, then counter-clockwise, then
       length" (radialLess_char).  Hence the sorted list of the half edges around a vertex is unique:
       whatever algorithm sort.Slice uses (sort_deterministic).
   (b) after fixVertices on a well-formed pre-complex: next and prev map half edges to half edges and are
       inverse to each other; origin (next e) = origin (twin e); next e is the outgoing half edge that is
       radially adjacent to twin e on its CLOCKWISE side - no outgoing half edge of that vertex lies strictly
       inside the counter-clockwise sweep from next e to twin e (fix_next_radially_adjacent).  A face
       cycle e, next e, ... therefore turns at every vertex to the first edge clockwise from the edge it came
       along: the face is kept on the LEFT of its half edges.
   (c) assignFaces: the cycle search terminates (fuel sufficient); every half edge gets exactly one face,
       which is a face of the list and on whose cycle it lies; two half edges have the same face iff one is
       reached from the other by iterating next; every face has a half edge (its cycle field) - faces are in
       bijection with the next-cycles.
   (d) the flood fill of one operand: a half edge with srcFace puts its face into the operand; a labelled
       face passes its label across every half edge of its cycle that has no srcFace flag of the operand;
       across an edge neither of whose half edges has the flag the two faces agree; and the labelled faces
       are the LEAST such set (reach).  What this does NOT determine is the label of the face on the other
       side of a half edge that has the flag: it is labelled only when reached some other way (this is the
       place of the known finding F20).
   populate_labels_spec: edge and vertex labels, independent of the iteration order.
   fixup_establishes_dcel_ok_partial: every conjunct of dcel_ok (Model/OverlayComplex.v) except Euler's formula
   for the complex assembled by the model; NOT proved: euler_ok (it needs connectedness / planarity of the
   input, which is a property of re-noding and the ghost edges). *)
From Coq Require Import QArith List Bool Arith Permutation Sorted.
From SF Require Import Base.QKernel Model.SetOpSpec Model.OverlayComplex Model.OverlayRings
  Model.OverlayFixup Proofs.OverlayFixup_proofs.
Import ListNotations.

(* ================================================================ (a) radialLess ================ *)
Theorem radialLess_irrefl : forall a, radialLess a a = false.
Proof. exact radialLess_irrefl_lemma. Qed.
Print Assumptions radialLess_irrefl.

Theorem radialLess_trans : forall a b c,
  pt_nonzero a = true -> pt_nonzero b = true -> pt_nonzero c = true ->
  radialLess a b = true -> radialLess b c = true -> radialLess a c = true.
Proof. exact radialLess_trans_lemma. Qed.
Print Assumptions radialLess_trans.

Theorem radialLess_asym : forall a b,
  pt_nonzero a = true -> pt_nonzero b = true -> radialLess a b = true -> radialLess b a = false.
Proof. exact radialLess_asym_lemma. Qed.
Print Assumptions radialLess_asym.

(* total: two non-zero vectors that are not the same vector are comparable *)
Theorem radialLess_total : forall a b,
  pt_nonzero a = true -> pt_nonzero b = true -> pt_eqb a b = false ->
  radialLess a b = true \/ radialLess b a = true.
Proof. exact radialLess_total_lemma. Qed.
Print Assumptions radialLess_total.

(* the order: sector 0 = downward ray, 1 = open right half plane, 2 = upward ray, 3 = open left half
   plane; inside a sector by positive cross product (counter-clockwise), then by length *)
Theorem radialLess_char : forall a b,
  pt_nonzero a = true -> pt_nonzero b = true -> radialLess a b = radial_spec a b.
Proof. exact radialLess_char_lemma. Qed.
Print Assumptions radialLess_char.

(* determinism of the sort: any list that is a permutation of v.incidents and increasing for radialLess
   is the list the model computes *)
Theorem sort_deterministic : forall pc, pre_dirs_ok pc = true -> forall v l,
  Permutation l (incidents pc v) -> StronglySorted (fun i j => edge_less pc i j = true) l ->
  l = isort (edge_less pc) (incidents pc v).
Proof. exact sort_deterministic_lemma. Qed.
Print Assumptions sort_deterministic.

(* the loop of fixVertex visits the pairs (incidents[i], incidents[(i+1) mod n]) *)
Theorem cyc_pairs_index : forall l i, (i < length l)%nat ->
  nth i (cyc_pairs l) (0, 0)%nat = (nth i l 0%nat, nth ((i + 1) mod length l) l 0%nat).
Proof. exact cyc_pairs_nth. Qed.
Print Assumptions cyc_pairs_index.

(* ================================================================ (b) fixVertices =============== *)
Theorem fix_next_prev_inverse : forall pc, pre_wf pc = true ->
  let s := fixVertices pc in
  forall e, (e < pnE pc)%nat ->
    (l_next s e < pnE pc)%nat /\ (l_prev s e < pnE pc)%nat /\
    l_next s (l_prev s e) = e /\ l_prev s (l_next s e) = e.
Proof. exact fix_next_prev_inverse_lemma. Qed.
Print Assumptions fix_next_prev_inverse.

Theorem fix_next_starts_at_end : forall pc, pre_wf pc = true ->
  forall e, (e < pnE pc)%nat -> p_origin pc (l_next (fixVertices pc) e) = p_origin pc (p_twin pc e).
Proof. exact fix_next_origin. Qed.
Print Assumptions fix_next_starts_at_end.

(* next e is the clockwise neighbour of twin e around the end vertex of e *)
Theorem fix_next_radially_adjacent : forall pc, pre_wf pc = true -> pre_dirs_ok pc = true ->
  forall e z, (e < pnE pc)%nat -> (z < pnE pc)%nat -> p_origin pc z = p_origin pc (p_twin pc e) ->
    z <> l_next (fixVertices pc) e -> z <> p_twin pc e ->
    ccw_between (edge_less pc) (l_next (fixVertices pc) e) z (p_twin pc e) = false.
Proof. exact fix_next_radial_lemma. Qed.
Print Assumptions fix_next_radially_adjacent.

(* ... and it is twin e itself exactly at a vertex of degree one *)
Theorem fix_next_is_twin_iff_degree_one : forall pc, pre_wf pc = true ->
  forall e, (e < pnE pc)%nat ->
    (l_next (fixVertices pc) e = p_twin pc e <->
     forall z, (z < pnE pc)%nat -> p_origin pc z = p_origin pc (p_twin pc e) -> z = p_twin pc e).
Proof. exact fix_next_twin_degree1. Qed.
Print Assumptions fix_next_is_twin_iff_degree_one.

(* ================================================================ (c) assignFaces =============== *)
Theorem assignFaces_terminates : forall pc, pre_wf pc = true ->
  exists fo, assignFaces pc (l_next (fixVertices pc)) = Some fo.
Proof. exact assignFaces_total. Qed.
Print Assumptions assignFaces_terminates.

Theorem faces_are_the_next_cycles : forall pc fo, pre_wf pc = true ->
  assignFaces pc (l_next (fixVertices pc)) = Some fo ->
  let nx := l_next (fixVertices pc) in
  (* every half edge has a face of the list, and lies on that face's cycle *)
  (forall e, (e < pnE pc)%nat ->
     (fo_incident fo e < length (fo_cycles fo))%nat /\
     exists ring, nth_error (fo_cycles fo) (fo_incident fo e) = Some ring /\ In e ring) /\
  (* same face iff same next-cycle *)
  (forall e e', (e < pnE pc)%nat -> (e' < pnE pc)%nat ->
     (fo_incident fo e = fo_incident fo e' <-> exists k, Nat.iter k nx e = e')) /\
  (* every face has a half edge: the first one of its cycle (the cycle field of the face record) *)
  (forall j, (j < length (fo_cycles fo))%nat ->
     exists ring, nth_error (fo_cycles fo) j = Some ring /\ (hd 0%nat ring < pnE pc)%nat /\
                  fo_incident fo (hd 0%nat ring) = j) /\
  (* the recorded cycles are duplicate-free and closed under next; next stays on the face *)
  (forall j ring, nth_error (fo_cycles fo) j = Some ring ->
     NoDup ring /\ forall z, In z ring -> (z < pnE pc)%nat /\ In (nx z) ring) /\
  (forall e, (e < pnE pc)%nat -> fo_incident fo (nx e) = fo_incident fo e).
Proof. exact faces_are_the_next_cycles_lemma. Qed.
Print Assumptions faces_are_the_next_cycles.

(* ================================================================ (d) the flood fill ============ *)
Theorem flood_fill_faces : forall pc fo op, pre_wf pc = true ->
  assignFaces pc (l_next (fixVertices pc)) = Some fo ->
  let inc := fo_incident fo in
  let lbl f := lab_get (fo_in fo f) op in
  (* a half edge that borders a face of the operand puts its face into the operand *)
  (forall e, (e < pnE pc)%nat -> lab_get (p_srcFace pc e) op = true -> lbl (inc e) = true) /\
  (* the label crosses every half edge without the flag *)
  (forall e, (e < pnE pc)%nat -> lab_get (p_srcFace pc e) op = false -> lbl (inc e) = true ->
             lbl (inc (p_twin pc e)) = true) /\
  (* and nothing else is labelled: least fixed point *)
  (forall f, lbl f = true <->
             reach (op_succs pc (fo_cycles fo) inc op) (op_seed pc (fo_cycles fo) op) f).
Proof. exact (fun pc fo op Hwf Hfo => flood_faces_lemma pc Hwf fo Hfo op). Qed.
Print Assumptions flood_fill_faces.

Theorem flood_fill_agrees_across_free_edges : forall pc fo op, pre_wf pc = true ->
  assignFaces pc (l_next (fixVertices pc)) = Some fo ->
  forall e, (e < pnE pc)%nat ->
    lab_get (p_srcFace pc e) op = false -> lab_get (p_srcFace pc (p_twin pc e)) op = false ->
    lab_get (fo_in fo (fo_incident fo e)) op = lab_get (fo_in fo (fo_incident fo (p_twin pc e))) op.
Proof. exact (fun pc fo op Hwf Hfo => flood_agree_lemma pc Hwf fo Hfo op). Qed.
Print Assumptions flood_fill_agrees_across_free_edges.

(* ================================================================ populateInSetLabels =========== *)
(* edge labels are srcEdge || own face || twin's face; a vertex is labelled iff it is a source vertex or a
   half edge leaving it is labelled.  The model iterates the half edges in id order and reads e.prev.inSet
   "as assigned so far", like the Go loop (whose order is a map's); the characterisation does not mention
   the order: with twin-symmetric srcEdge flags the label of e.prev is the label of its twin, which leaves
   the same vertex *)
Theorem populate_labels_spec : forall pc inc fin, pre_wf pc = true -> pre_src_sym pc = true ->
  let st := populateInSetLabels pc (l_prev (fixVertices pc)) inc fin in
  (forall e, (e < pnE pc)%nat -> fst st e = elab pc inc fin e) /\
  (forall v op, lab_get (snd st v) op = true <->
     lab_get (p_vsrc pc v) op = true \/
     exists e, (e < pnE pc)%nat /\ p_origin pc e = v /\ lab_get (elab pc inc fin e) op = true).
Proof. exact populate_spec_lemma. Qed.
Print Assumptions populate_labels_spec.

(* ================================================================ dcel_ok, partially ============ *)
(* FULL statement wanted: fixup pc = Some c /\ dcel_ok c = true.  Proved: every conjunct of dcel_ok
   (Model/OverlayComplex.v) except euler_ok - ids in range, twin, next/prev inverse and face-preserving, one
   closed cycle per face containing exactly the half edges of the face, all label bounds - so that dcel_ok c
   reduces to Euler's formula V - E + F = 2, which is a statement about the INPUT of the fix-up (the edge set
   is a connected plane graph: re-noding and ghost edges), not about dcel_fixup.go.  Hypotheses (executable,
   evaluated by the driver on every dumped structure): pre_wf, pre_src_sym, pre_srcface_le. *)
Theorem fixup_establishes_dcel_ok_partial : forall pc,
  pre_wf pc = true -> pre_src_sym pc = true -> pre_srcface_le pc = true ->
  exists c, fixup pc = Some c /\
            ranges_ok c = true /\ twin_ok c = true /\ next_prev_ok c = true /\ faces_ok c = true /\ labels_ok c = true /\
            dcel_ok c = euler_ok c.
Proof. exact fixup_establishes_lemma. Qed.
Print Assumptions fixup_establishes_dcel_ok_partial.

(* ================================================================ examples ====================== *)
(* Two overlapping squares: A = [0,2]^2 (counter-clockwise), B = [1,3]^2; they cross at (2,1) and (1,2).
   10 vertices (sorted by x, y), 12 edges = 24 half edges (half edge 2k runs along its ring and carries
   srcFace, 2k+1 is its twin), two vertices of degree 4.  The hypotheses of the theorems hold; the model
   builds a complex with 4 faces (A only, outside, A and B, B only) that satisfies dcel_ok. *)
Definition exXY : list pt :=
  map (fun p : Z * Z => (inject_Z (fst p), inject_Z (snd p)))
      [(0,0); (0,2); (1,1); (1,2); (1,3); (2,0); (2,1); (2,2); (3,1); (3,3)]%Z.
Definition ex_xy (v : nat) : pt := nth v exXY (0%Q, 0%Q).
Definition exLabA : lab := (true, false).
Definition exLabB : lab := (false, true).
Definition ex_edge (ke : nat * (nat * nat * lab)) : list phedge :=
  let k := fst ke in let '(u, v, l) := snd ke in
  [MkPE u (2 * k + 1) (ex_xy v) (ex_xy v) l l; MkPE v (2 * k) (ex_xy u) (ex_xy u) l (false, false)].
Definition exSquares : precomplex :=
  MkPC (map (fun iv => MkPV (snd iv) (negb (existsb (Nat.eqb (fst iv)) [2; 4; 8; 9]), negb (existsb (Nat.eqb (fst iv)) [0; 1; 5; 7])))
            (indexed_from 0 exXY))
       (flat_map ex_edge (indexed_from 0
          [(0, 5, exLabA); (5, 6, exLabA); (6, 7, exLabA); (7, 3, exLabA); (3, 1, exLabA); (1, 0, exLabA);
           (2, 6, exLabB); (6, 8, exLabB); (8, 9, exLabB); (9, 4, exLabB); (4, 3, exLabB); (3, 2, exLabB)]%nat)).

Example squares_hypotheses :
  pre_wf exSquares = true /\ pre_dirs_ok exSquares = true /\ pre_src_sym exSquares = true /\
  pre_srcface_le exSquares = true /\
  pnV exSquares = 10%nat /\ pnE exSquares = 24%nat /\
  (* the vertex (2,1) has four outgoing half edges; sorted: down (to (2,0)), right, up, left *)
  incidents exSquares 6 = [3; 4; 13; 14]%nat /\ sorted_incidents exSquares 6 = [3; 14; 4; 13]%nat.
Proof. vm_compute. repeat split; reflexivity. Qed.

Example squares_fixup :
  match fixup exSquares with
  | Some c =>
      dcel_ok c = true /\ length (c_faces c) = 4%nat /\
      map f_in (c_faces c) = [(true, false); (false, false); (true, true); (false, true)] /\
      (* the cycle of the face "A and B": (1,1) -> (2,1) -> (2,2) -> (1,2) *)
      nth_error (match assignFaces exSquares (l_next (fixVertices exSquares)) with Some fo => fo_cycles fo | None => [] end) 2
        = Some [4; 6; 22; 12]%nat
  | None => False
  end.
Proof. vm_compute. repeat split; reflexivity. Qed.

(* radialLess on the eight lattice directions, counter-clockwise from "down": each is less than all later ones *)
Example radial_example :
  let ds : list pt := map (fun p : Z * Z => (inject_Z (fst p), inject_Z (snd p)))
                          [(0,-1); (1,-1); (1,0); (1,1); (0,1); (-1,1); (-1,0); (-1,-1)]%Z in
  forallb (fun ia => forallb (fun jb => Bool.eqb (radialLess (snd ia) (snd jb)) (Nat.ltb (fst ia) (fst jb)))
                             (indexed_from 0 ds)) (indexed_from 0 ds) = true /\
  radialLess (1%Q, 1%Q) (2%Q, 2%Q) = true /\ radialLess (2%Q, 2%Q) (1%Q, 1%Q) = false /\ forallb pt_nonzero ds = true.
Proof. vm_compute. repeat split; reflexivity. Qed.
