(* Property C01 - THE COMPOSED OVERLAY ENGINE in the model (Model/OverlayPipeline.v):

       overlay_dcel_full a b  =  createGhosts -> reNodeGeometries -> findInteractionPoints
                                 -> forEachNonInteractingSegment / addGhosts / addGeometry (half-edge table, labels)
                                 -> fixVertices -> assignFaces -> populateInSetLabels
       overlay_result op a b  =  extractGeometry(op) on it (selection, ring walk, ordering, assembly)

   all in exact arithmetic over Q (what is abstracted from the float code is listed in the headers of
   Model/OverlayRenode.v, Model/OverlayFixup.v and Model/OverlayPipeline.v).  Statements only; proofs in
   Proofs/OverlayPipeline_proofs.v.

   (a) pipeline_precomplex_wf      for ALL operands the composed model is total up to the labelled complex (no
                                   error / panic outcome of addOrGetEdge, addPoint, forEachNonInteractingSegment or
                                   the cycle search), and the pre-complex it hands to the fix-up satisfies the
                                   hypotheses of the theorems of Props/C01_fixup.v (pre_wf, pre_dirs_ok, pre_src_sym,
                                   pre_srcface_le); hence every conjunct of dcel_ok except Euler's formula holds of
                                   the complex.  pipeline_fixup_applies: the fix-up theorems, without hypotheses.
       pipeline_chains_wf          the reason: the half-edge table (keyed by the first two points of a chain) never
                                   confuses two different chains - chains_wf, for all inputs.
       composed_precomplex_partial the same from the EXECUTABLE hypothesis chains_wf alone (for chain lists that do
                                   not come from re-noding; the driver evaluates chains_wf on every run).
   (b) chains_meet_only_at_ends    T4 of Props/C01_renode.v IN FULL: a point that lies on a piece of one chain and on a
                                   piece of another chain is a common END of the two chains - or the two chains are the
                                   same point sequence up to reversal (then addOrGetEdge maps them to one edge).
       chains_same_key_same_sequence   two chains with the same first two points are the same sequence.
   (c) pipeline_empty_operand      UnaryUnion(g) = setOp(g, or, Geometry{}): when the second operand has no component,
                                   no cell of the complex carries its label, Intersection extracts the empty
                                   collection, and or / andNot / xor extract the same geometry - for all first operands.
       extract_label_symmetric_partial   what exchanging the operands does to the LABELS (the two bits of every cell
                                   swapped) does not change what union / intersection / symmetric difference extract.
       COMMUTATIVITY of Union / Intersection / SymmetricDifference in the operands is NOT proved in full for the
       composed model: overlay (b, a) is the label-swapped overlay (a, b) only up to a renumbering of half edges and
       faces (insertion order) and ordinates are compared up to Qeq - that isomorphism is not proved; it is EVALUATED
       by the driver on every compared overlay (SPEC pipeline_commutes: the model's results on
       (a,b) and (b,a), value equality, else equality of point sets by the verified judge) and shown in the examples.
   (d) labels and geometry.  FULL STATEMENT WANTED (not proved - it is the correctness theorem of the overlay engine):
       for every face f of the composed complex with witness point w = face_witness ov f,
             f_in f = (inG a w, inG b w)
       whenever neither operand has areal members with intersecting interiors (class of the known findings F20 /
       F20b).  The driver EVALUATES it on every face of every composed complex (SPEC pipeline_face_label).  PROVED:
       pipeline_face_label_seed_partial   a half edge with the srcFace flag of an operand lies on a face labelled
                                          with that operand (composed model, all inputs);
       face_witness_partial               the witness lies strictly to the LEFT of the first piece of the face's cycle
                                          edge and the segment from the middle of that piece to it meets the pieces of
                                          the overlay only at that middle (with fix_next_radially_adjacent - the face
                                          is kept on the left of its half edges - this places it in the face, a step
                                          that is not formalised). *)
From Coq Require Import QArith List Bool ZArith Arith.
From SF Require Import Base.GeomAST Base.QKernel Base.Planar Model.SetOpSpec Model.OverlayComplex Model.OverlayRings
  Model.OverlayRenode Model.OverlayFixup Model.OverlayPipeline
  Proofs.OverlayRenode_proofs Proofs.OverlayRenode_ip_proofs Proofs.OverlayFixup_proofs Proofs.OverlayPipeline_proofs.
Import ListNotations.
Open Scope Q_scope.

(* ================================================================ (a) *)
Theorem pipeline_precomplex_wf : forall a b : geom,
  exists ov, overlay_dcel_full a b = Some ov /\
             pre_wf (ov_pre ov) = true /\ pre_dirs_ok (ov_pre ov) = true /\ pre_src_sym (ov_pre ov) = true /\
             pre_srcface_le (ov_pre ov) = true /\
             fixup (ov_pre ov) = Some (ov_cx ov) /\
             ranges_ok (ov_cx ov) = true /\ twin_ok (ov_cx ov) = true /\ next_prev_ok (ov_cx ov) = true /\
             faces_ok (ov_cx ov) = true /\ labels_ok (ov_cx ov) = true /\ dcel_ok (ov_cx ov) = euler_ok (ov_cx ov).
Proof. exact pipeline_precomplex_wf_lemma. Qed.
Print Assumptions pipeline_precomplex_wf.

Theorem pipeline_chains_wf : forall a b : geom,
  exists cs, pipeline_chains a b = Some cs /\
             chains_wf (ov_vertices (sk_vertices (overlay_skeleton_of a b))) cs = true.
Proof. exact pipeline_chains_wf_lemma. Qed.
Print Assumptions pipeline_chains_wf.

(* from the executable hypothesis alone *)
Theorem composed_precomplex_partial : forall (a b : geom) cs,
  pipeline_chains a b = Some cs ->
  chains_wf (ov_vertices (sk_vertices (overlay_skeleton_of a b))) cs = true ->
  exists ov, overlay_dcel_full a b = Some ov /\
             pre_wf (ov_pre ov) = true /\ pre_dirs_ok (ov_pre ov) = true /\ pre_src_sym (ov_pre ov) = true /\
             pre_srcface_le (ov_pre ov) = true /\
             fixup (ov_pre ov) = Some (ov_cx ov) /\
             ranges_ok (ov_cx ov) = true /\ twin_ok (ov_cx ov) = true /\ next_prev_ok (ov_cx ov) = true /\
             faces_ok (ov_cx ov) = true /\ labels_ok (ov_cx ov) = true /\ dcel_ok (ov_cx ov) = euler_ok (ov_cx ov).
Proof. exact composed_precomplex_lemma. Qed.
Print Assumptions composed_precomplex_partial.

(* the theorems of Props/C01_fixup.v on the composed model, with no hypothesis left *)
Theorem pipeline_fixup_applies : forall a b : geom,
  exists ov, overlay_dcel_full a b = Some ov /\
    let pc := ov_pre ov in
    let s := fixVertices pc in
    (forall e, (e < pnE pc)%nat ->
       (l_next s e < pnE pc)%nat /\ (l_prev s e < pnE pc)%nat /\ l_next s (l_prev s e) = e /\ l_prev s (l_next s e) = e /\
       p_origin pc (l_next s e) = p_origin pc (p_twin pc e)) /\
    (forall e z, (e < pnE pc)%nat -> (z < pnE pc)%nat -> p_origin pc z = p_origin pc (p_twin pc e) ->
       z <> l_next s e -> z <> p_twin pc e -> ccw_between (edge_less pc) (l_next s e) z (p_twin pc e) = false) /\
    exists fo, assignFaces pc (l_next s) = Some fo /\
      forall op,
        (forall e, (e < pnE pc)%nat -> lab_get (p_srcFace pc e) op = true -> lab_get (fo_in fo (fo_incident fo e)) op = true) /\
        (forall e, (e < pnE pc)%nat -> lab_get (p_srcFace pc e) op = false -> lab_get (fo_in fo (fo_incident fo e)) op = true ->
                   lab_get (fo_in fo (fo_incident fo (p_twin pc e))) op = true) /\
        (forall f, lab_get (fo_in fo f) op = true <->
                   reach (op_succs pc (fo_cycles fo) (fo_incident fo) op) (op_seed pc (fo_cycles fo) op) f).
Proof. exact pipeline_fixup_applies_lemma. Qed.
Print Assumptions pipeline_fixup_applies.

(* ================================================================ (b) T4 in full *)
(* r: the re-noded input (any nodes, any elements); I: its interaction points; c1, c2: chains of
   forEachNonInteractingSegment on two of its elements (possibly the same).  seqs_eq: the same points in the same
   order (ordinates compared by Qeq); chain_end c x: x is the first or the last point of c. *)
Theorem chains_meet_only_at_ends : forall (nodes : list pt) (ea eb gh : list (list pt)) (pa pb : list pt),
  let r := renode_elems nodes ea eb gh in
  let I := find_interaction_points (rn_a r) pa (rn_b r) pb (rn_ghosts r) in
  forall e1 e2 cs1 cs2 c1 c2 P1 P2 x,
    In e1 (rn_all r) -> In e2 (rn_all r) -> chains_of I e1 = Some cs1 -> chains_of I e2 = Some cs2 ->
    In c1 cs1 -> In c2 cs2 -> In P1 (ring_edges c1) -> In P2 (ring_edges c2) ->
    on_seg P1 x = true -> on_seg P2 x = true ->
    (chain_end c1 x /\ chain_end c2 x) \/ seqs_eq c1 c2 \/ seqs_eq c1 (rev c2).
Proof. exact T4_full_lemma. Qed.
Print Assumptions chains_meet_only_at_ends.

(* the combinatorial core, for any set of elements closed under reversal whose interaction points contain the
   reversal points and the points with two different neighbour pairs: chains with a common piece, walked in the
   same direction, are the same sequence *)
Theorem chains_same_key_same_sequence : forall (I : list pt) (E : list (list pt)),
  (forall e a c b, In e E -> consecutive3 e a c b -> pt_eq a b -> is_interaction I c = true) ->
  (forall e1 a1 c1 b1 e2 a2 c2 b2, In e1 E -> consecutive3 e1 a1 c1 b1 -> In e2 E -> consecutive3 e2 a2 c2 b2 ->
     pt_eq c1 c2 -> pair_eqb (adj_pair a1 b1) (adj_pair a2 b2) = false -> is_interaction I c1 = true) ->
  (forall e, In e E -> In (rev e) E) ->
  forall c1 c2, Chain I E c1 -> Chain I E c2 -> he_key_eqb c1 c2 = true -> seqs_eq c1 c2.
Proof. exact chains_same_key. Qed.
Print Assumptions chains_same_key_same_sequence.

(* ================================================================ (c) an operand without components *)
Theorem pipeline_empty_operand : forall a b : geom,
  g_elems b = [] -> g_shapes b = [] -> g_points b = [] ->
  overlay_result OpInter a b = Some (GColl XY []) /\
  overlay_result OpDiff a b = overlay_result OpUnion a b /\
  overlay_result OpSym a b = overlay_result OpUnion a b.
Proof. exact pipeline_empty_operand_lemma. Qed.
Print Assumptions pipeline_empty_operand.

(* exchanging the operands, as far as the labels go: swap_ov swaps the two bits of every label of the complex *)
Theorem extract_label_symmetric_partial : forall (o : setop) (ov : overlay),
  o <> OpDiff -> extract_geometry o (swap_ov ov) = extract_geometry o ov.
Proof. exact extract_label_symmetric_lemma. Qed.
Print Assumptions extract_label_symmetric_partial.

(* ================================================================ (d) labels and geometry, partial *)
Theorem pipeline_face_label_seed_partial : forall a b : geom,
  exists ov, overlay_dcel_full a b = Some ov /\
             forall e, In e (c_edges (ov_cx ov)) -> lab_le (e_srcFace e) (face_in (ov_cx ov) (e_face e)) = true.
Proof. exact pipeline_face_label_seed_lemma. Qed.
Print Assumptions pipeline_face_label_seed_partial.

Theorem face_witness_partial : forall (ov : overlay) (e : nat) (w : pt),
  (forall u, In u (all_pieces ov) -> ~ pt_eq (fst u) (snd u)) ->
  face_witness_at ov e = Some w ->
  exists p q rest, seq_of ov e = p :: q :: rest /\ ~ pt_eq p q /\ 0 < cross p q w /\
    forall u y, In u (all_pieces ov) -> on_seg (seg_mid (p, q), w) y = true -> on_seg u y = true -> pt_eq y (seg_mid (p, q)).
Proof. exact face_witness_lemma. Qed.
Print Assumptions face_witness_partial.

(* ================================================================ examples: the theorems are not vacuous *)
Definition pv (x y : Z) : vtx Q := Build_vtx (inject_Z x) (inject_Z y) 0 0.
Definition psq (x0 y0 x1 y1 : Z) : lineT Q := MkLine XY [pv x0 y0; pv x1 y0; pv x1 y1; pv x0 y1; pv x0 y0].
(* two crossing squares *)
Definition exA : geom := GPoly (MkPoly XY [psq 0 0 4 4]).
Definition exB : geom := GPoly (MkPoly XY [psq 2 2 6 6]).
(* a polygon and a line through it *)
Definition exL : geom := GLine (MkLine XY [pv (-2) 2; pv 8 2]).
(* an operand with a hole that contains the other operand; the exterior ring is given CLOCKWISE (ForceCCW reverses it) *)
Definition exH : geom := GPoly (MkPoly XY [MkLine XY [pv 0 0; pv 0 10; pv 10 10; pv 10 0; pv 0 0]; psq 2 2 8 8]).
Definition exI : geom := GPoly (MkPoly XY [psq 4 4 6 6]).

Definition summary (a b : geom) :=
  option_map (fun ov => (length (ov_verts ov), length (ov_seqs ov), map f_in (c_faces (ov_cx ov)),
                         dcel_ok (ov_cx ov), face_labels_bad a b ov)) (overlay_dcel_full a b).

Example ex_squares_dcel :
  summary exA exB = Some (4%nat, 14%nat, [(true, false); (true, false); (false, false); (true, true); (false, true)], true, []).
Proof. vm_compute. reflexivity. Qed.
Example ex_squares_chains_wf :
  option_map (chains_wf (ov_vertices (sk_vertices (overlay_skeleton_of exA exB)))) (pipeline_chains exA exB) = Some true
  /\ option_map (@length _) (pipeline_chains exA exB) = Some 7%nat.
Proof. vm_compute. split; reflexivity. Qed.
Example ex_squares_intersection :
  overlay_result OpInter exA exB = Some (GPoly (MkPoly XY [psq 2 2 4 4])).
Proof. vm_compute. reflexivity. Qed.
Example ex_squares_union :
  overlay_result OpUnion exA exB =
  Some (GPoly (MkPoly XY [MkLine XY [pv 0 0; pv 4 0; pv 4 2; pv 6 2; pv 6 6; pv 2 6; pv 2 4; pv 0 4; pv 0 0]])).
Proof. vm_compute. reflexivity. Qed.
Example ex_squares_symdiff_is_two_polygons :
  option_map (fun g => length (g_polys g)) (overlay_result OpSym exA exB) = Some 2%nat.
Proof. vm_compute. reflexivity. Qed.
(* the model's results pass the verified judgement of Props/C01.v *)
Example ex_squares_judged :
  forallb (fun o => match overlay_result o exA exB with Some r => verdict_ok (judge o exA exB r) | None => false end)
          [OpUnion; OpInter; OpDiff; OpSym] = true.
Proof. vm_compute. reflexivity. Qed.

Example ex_line_dcel :
  option_map (fun s => snd s) (summary exA exL) = Some [] /\
  overlay_result OpInter exA exL = Some (GLine (MkLine XY [pv 0 2; pv 4 2])).
Proof. vm_compute. split; reflexivity. Qed.
Example ex_line_difference_is_the_polygon_with_two_new_vertices :
  overlay_result OpDiff exA exL =
  Some (GPoly (MkPoly XY [MkLine XY [pv 0 0; pv 4 0; pv 4 2; pv 4 4; pv 0 4; pv 0 2; pv 0 0]])).
Proof. vm_compute. reflexivity. Qed.
Example ex_line_judged :
  forallb (fun o => match overlay_result o exA exL with Some r => verdict_ok (judge o exA exL r) | None => false end)
          [OpUnion; OpInter; OpDiff; OpSym] = true.
Proof. vm_compute. reflexivity. Qed.

Example ex_hole_dcel :
  summary exH exI = Some (3%nat, 10%nat, [(true, false); (false, false); (false, false); (false, true)], true, []).
Proof. vm_compute. reflexivity. Qed.
Example ex_hole_results :
  overlay_result OpInter exH exI = Some (GColl XY []) /\
  option_map (fun g => map (fun y => length (poly_rings y)) (g_polys g)) (overlay_result OpUnion exH exI) = Some [2%nat; 1%nat] /\
  forallb (fun o => match overlay_result o exH exI with Some r => verdict_ok (judge o exH exI r) | None => false end)
          [OpUnion; OpInter; OpDiff; OpSym] = true.
Proof. vm_compute. repeat split; reflexivity. Qed.
(* the clockwise exterior ring was reversed before its edges were labelled: srcFace is on the inner side *)
Example ex_hole_force_ccw :
  force_ccw (map line_pts (poly_rings (MkPoly XY [MkLine XY [pv 0 0; pv 0 10; pv 10 10; pv 10 0; pv 0 0]; psq 2 2 8 8])))
  = [map vpt [pv 0 0; pv 10 0; pv 10 10; pv 0 10; pv 0 0]; map vpt [pv 2 2; pv 2 8; pv 8 8; pv 8 2; pv 2 2]].
Proof. vm_compute. reflexivity. Qed.

(* T4: the chains of the crossing squares meet only at vertices; two of them share the vertex (4,2) *)
Example ex_T4_chains :
  pipeline_chains exA exB =
  Some [[(0, 0); (2, 2)];
        [(0, 0); (4, 0); (4, 2)]; [(4, 2); (4, 4); (2, 4)]; [(2, 4); (0, 4); (0, 0)];
        [(2, 2); (4, 2)]; [(4, 2); (6, 2); (6, 6); (2, 6); (2, 4)]; [(2, 4); (2, 2)]]%Q.
Proof. vm_compute. reflexivity. Qed.
(* an input for which chains_wf is NOT true of an arbitrary chain list (the hypothesis is not trivially true):
   two different chains with the same first two points *)
Example ex_chains_wf_can_fail :
  chains_wf [(0, 0); (1, 0); (2, 0)]%Q [[(0, 0); (1, 0)]; [(0, 0); (1, 0); (2, 0)]]%Q = false.
Proof. vm_compute. reflexivity. Qed.

(* (c): UnaryUnion of the crossing-squares collection: the engine is called with Geometry{} as second operand *)
Definition exAB : geom := GColl XY [exA; exB].
Example ex_unary_union :
  g_elems empty_geom = [] /\ g_shapes empty_geom = [] /\ g_points empty_geom = [] /\
  overlay_result OpUnion exAB empty_geom = overlay_result OpUnion exA exB /\
  overlay_result OpInter exAB empty_geom = Some (GColl XY []) /\
  overlay_result OpSym exAB empty_geom = overlay_result OpUnion exAB empty_geom.
Proof. vm_compute. repeat split; reflexivity. Qed.
(* commutativity on the examples (evaluated, not a theorem): the results are equal values *)
Example ex_commutes :
  forallb (fun ab => forallb (fun o =>
     match overlay_result o (fst ab) (snd ab), overlay_result o (snd ab) (fst ab) with
     | Some r1, Some r2 => same_set r1 r2 | _, _ => false end) [OpUnion; OpInter; OpSym])
     [(exA, exB); (exA, exL); (exH, exI)] = true.
Proof. vm_compute. reflexivity. Qed.
(* (d): the witnesses of the five faces of the crossing squares, and the label of each face is the membership of
   its witness in the two operands *)
Example ex_face_witnesses :
  option_map (fun ov => map (face_witness ov) (seq 0 (nF (ov_cx ov)))) (overlay_dcel_full exA exB)
  = Some [Some (1 # 2, 3 # 2); Some (3 # 2, 1 # 2); Some (5, 1); Some (3, 3); Some (3, 5)]%Q
  /\ option_map (fun ov => forallb (face_label_ok exA exB ov) (seq 0 (nF (ov_cx ov)))) (overlay_dcel_full exA exB) = Some true.
Proof. vm_compute. split; reflexivity. Qed.
(* the non-degeneracy hypothesis of face_witness_partial holds on the example *)
Example ex_pieces_nondegenerate :
  option_map (fun ov => forallb (fun u => negb (pt_eqb (fst u) (snd u))) (all_pieces ov)) (overlay_dcel_full exA exB) = Some true.
Proof. vm_compute. reflexivity. Qed.
(* extract_label_symmetric_partial is not vacuous: the swapped complex is a different complex, and Difference
   (excluded by the hypothesis) does change *)
Example ex_label_swap :
  option_map (fun ov => (map f_in (c_faces (ov_cx (swap_ov ov))),
                         match extract_geometry OpDiff (swap_ov ov), extract_geometry OpDiff ov with
                         | Some g, Some h => same_set g h | _, _ => true end)) (overlay_dcel_full exA exB)
  = Some ([(false, true); (false, true); (false, false); (true, true); (true, false)], false).
Proof. vm_compute. reflexivity. Qed.
