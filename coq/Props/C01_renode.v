(* Property C01 (and C02: Relate uses the same overlay) - the FIRST PHASES OF THE OVERLAY ENGINE in exact
   arithmetic: geom/dcel.go:newDCELFromGeometries up to (excluding) fixVertices, i.e.
   createGhosts/spanningTree, reNodeGeometries (point x line pass, line x line pass, reNodeLineString),
   findInteractionPoints, forEachNonInteractingSegment.  Model: Model/OverlayRenode.v (over Q; the float
   node snapping of dcel_node_set.go is abstracted to EQUALITY of points, the tolerance of the point x
   line pass to distance 0, R-tree searches to scans, the disjoint set to its partition, the
   PrioritySearch order to a parameter).  Statements only; proofs in Proofs/OverlayRenode_proofs.v and
   Proofs/OverlayRenode_tree_proofs.v.

   T1  re-noding preserves the point set of every line and of every linear element, and the vertices
       of a cut line are strictly ordered along it;
   T2  the output of reNodeGeometries is FULLY NODED, for ALL inputs over Q (no general-position or
       validity hypothesis): two pieces are disjoint, or share only end points, or are the same
       segment (collinear overlaps are cut at both ends); every control point of the input
       (in particular every Point) is an end of every piece it lies on;
   T3  the ghost spanning tree has n-1 edges on the n distinct component points and connects them, for
       every enumeration order of PrioritySearch that offers every record;
   T4  here PARTIAL: which control points are certainly interaction points (order-independent), and what the
       chains of forEachNonInteractingSegment are; the global statement is proved in Props/C01_pipeline.v. *)
From Coq Require Import QArith List Bool ZArith Sorted Relations.
From SF Require Import Base.GeomAST Base.QKernel Base.Planar Model.OverlayRenode
  Proofs.OverlayRenode_proofs Proofs.OverlayRenode_tree_proofs Proofs.OverlayRenode_ip_proofs.
Import ListNotations.
Open Scope Q_scope.

(* ================================================================ T1 *)
(* one line, ANY admissible cut function (cuts on the line, not its ends): the pieces between the
   consecutive vertices  a :: sort+uniquify(cuts) ++ [b]  cover exactly the line *)
Theorem renode_line_point_set : forall (cutf : seg -> list pt) (a b : pt),
  ~ pt_eq a b -> cuts_ok cutf (a, b) ->
  forall x, (exists s, In s (line_pieces cutf (a, b)) /\ on_seg s x = true) <-> on_seg (a, b) x = true.
Proof. exact (fun cutf a b H1 H2 => line_pieces_cover a b H1 cutf H2). Qed.
Print Assumptions renode_line_point_set.

(* the vertex order produced by reNodeLineString's comparator (squared distance from ln.a, ties by
   XY.Less) followed by uniquifyGroupedXYs is STRICTLY monotone in the parameter along the line
   (tpar a b p = ((p-a).(b-a))/|b-a|^2), from a (parameter 0) to b (parameter 1): no repeated vertex,
   no back-tracking *)
Theorem renode_line_monotone : forall (cutf : seg -> list pt) (a b : pt),
  ~ pt_eq a b -> cuts_ok cutf (a, b) ->
  StronglySorted (fun p q => tpar a b p < tpar a b q) (line_verts cutf (a, b)) /\
  Forall (fun p => on_seg (a, b) p = true) (line_verts cutf (a, b)).
Proof.
  exact (fun cutf a b H1 H2 => conj (line_verts_strict a b H1 cutf H2) (line_verts_on a b cutf H2)).
Qed.
Print Assumptions renode_line_monotone.

(* both passes use admissible cut functions *)
Theorem renode_cuts_admissible :
  (forall nodes ln, cuts_ok (cuts_point_x_line nodes) ln) /\
  (forall lines ln, (forall s, In s lines -> ~ pt_eq (fst s) (snd s)) -> ~ pt_eq (fst ln) (snd ln) ->
                    cuts_ok (cuts_line_x_line lines) ln).
Proof. exact (conj cuts_ok_point_x_line cuts_ok_line_x_line). Qed.
Print Assumptions renode_cuts_admissible.

(* a whole linear element (line string or ring) under reNodeLineString *)
Theorem renode_line_string_point_set : forall cutf ps,
  (forall ln, In ln (lines_of ps) -> cuts_ok cutf ln) ->
  forall x, on_edges (ring_edges (renode_ls cutf ps)) x = true <-> on_edges (lines_of ps) x = true.
Proof. exact renode_ls_point_set. Qed.
Print Assumptions renode_line_string_point_set.

(* reNodeGeometries, both passes: element by element (operand A, operand B, ghosts) the point set is
   unchanged.  No hypothesis. *)
Theorem renode_preserves_point_sets : forall nodes ea eb gh,
  Forall2 (fun e e' => forall x, on_edges (ring_edges e') x = true <-> on_edges (lines_of e) x = true)
          (ea ++ eb ++ gh) (rn_all (renode_elems nodes ea eb gh)).
Proof. exact renode_point_sets_all. Qed.
Print Assumptions renode_preserves_point_sets.

(* ================================================================ T2 *)
(* Noded L: for any two pieces P Q of L and any common point x: x is an end of both, or P and Q are
   the same segment.  For ALL inputs. *)
Theorem renode_fully_noded : forall nodes ea eb gh, Noded (rn_pieces (renode_elems nodes ea eb gh)).
Proof. exact renode_noded_lemma. Qed.
Print Assumptions renode_fully_noded.

Theorem renode_geometries_fully_noded : forall (a b : geom) ghosts,
  Noded (rn_pieces (renode_geometries a b ghosts)).
Proof. exact (fun a b g => renode_noded_lemma (all_nodes a b g) (g_elems a) (g_elems b) g). Qed.
Print Assumptions renode_geometries_fully_noded.

(* the core of it, for any set of non-degenerate lines: after cutting every line at the points
   symmetricLineIntersection reports against every line, the pieces are fully noded *)
Theorem line_x_line_pass_noded : forall S : list seg,
  (forall s, In s S -> ~ pt_eq (fst s) (snd s)) ->
  Noded (flat_map (line_pieces (cuts_line_x_line S)) S).
Proof. exact pass2_noded. Qed.
Print Assumptions line_x_line_pass_noded.

(* points: every node (control point of an operand or ghost; every Point / MultiPoint member) that lies
   on a piece is an end of that piece - this is what the point x line pass is for *)
Theorem renode_nodes_are_piece_ends : forall nodes ea eb gh p P,
  In p nodes -> In P (rn_pieces (renode_elems nodes ea eb gh)) -> on_seg P p = true -> is_end_p P p.
Proof. exact renode_nodes_noded_lemma. Qed.
Print Assumptions renode_nodes_are_piece_ends.

(* the executable form evaluated by the driver on the REAL chains of the implementation's DCEL *)
Theorem noded_b_is_noded : forall L,
  (forall s, In s L -> ~ pt_eq (fst s) (snd s)) -> noded_b L = true -> Noded L.
Proof. exact noded_b_sound. Qed.
Print Assumptions noded_b_is_noded.

(* what symmetricLineIntersection is in exact arithmetic (for non-degenerate lines, in any argument
   order): sound; the unique common point of non-collinear lines; for collinear lines every end of one
   lying on the other is reported, and only ends are reported *)
Theorem symmetric_line_intersection_spec : forall s t,
  ~ pt_eq (fst s) (snd s) -> ~ pt_eq (fst t) (snd t) -> isect_ok s t (sym_isect s t).
Proof. exact sym_isect_ok. Qed.
Print Assumptions symmetric_line_intersection_spec.

(* ================================================================ T3 *)
(* for every enumeration order [prio] that offers every record (and only records): n-1 edges *)
Theorem spanning_tree_edge_count : forall (prio : nat -> list nat) (n : nat),
  (forall i j, (i < n)%nat -> (j < n)%nat -> In j (prio i)) -> (forall i j, In j (prio i) -> (j < n)%nat) ->
  length (st_edges prio n) = (n - 1)%nat.
Proof. exact st_edges_count. Qed.
Print Assumptions spanning_tree_edge_count.

(* ... that connect all n items, each edge joining two different items in range *)
Theorem spanning_tree_connected : forall (prio : nat -> list nat) (n : nat),
  (forall i j, (i < n)%nat -> (j < n)%nat -> In j (prio i)) -> (forall i j, In j (prio i) -> (j < n)%nat) ->
  (forall i j, (i < n)%nat -> (j < n)%nat -> st_conn (st_edges prio n) i j) /\
  (forall i j, In (i, j) (st_edges prio n) -> (i < n)%nat /\ (j < n)%nat /\ i <> j).
Proof. exact (fun prio n H1 H2 => conj (st_edges_connected prio n H1 H2) (st_edges_ok prio n H1 H2)). Qed.
Print Assumptions spanning_tree_connected.

(* createGhosts: any two component points of the two operands are joined by a path of ghost lines, so
   the overlay graph is connected - which is what assignFaces' single flood fill relies on *)
Theorem create_ghosts_connects : forall (a b : geom) p q,
  (2 <= length (component_pts a ++ component_pts b))%nat ->
  In p (component_pts a ++ component_pts b) -> In q (component_pts a ++ component_pts b) ->
  exists p' q', pt_eq p' p /\ pt_eq q' q /\ ghost_conn (create_ghosts a b) p' q'.
Proof. exact create_ghosts_connects_lemma. Qed.
Print Assumptions create_ghosts_connects.

Theorem create_ghosts_count : forall (a b : geom),
  length (create_ghosts a b) =
  if Nat.leb (length (component_pts a ++ component_pts b)) 1 then 0%nat
  else (length (sort_uniq_xys (component_pts a ++ component_pts b)) - 1)%nat.
Proof. exact create_ghosts_count_lemma. Qed.
Print Assumptions create_ghosts_count.

(* ================================================================ T4 (partial) *)
(* THE FULL STATEMENT IS NOW PROVED in Props/C01_pipeline.v (chains_meet_only_at_ends, chains_same_key_same_sequence;
   the induction described below is Proofs/OverlayPipeline_proofs.v: walk_fwd / share_piece).  It reads: let r be the re-noded input, I its interaction points and cs the chains
   of all elements; for any two chains c1 c2 of cs and any point x lying on a piece of c1 and on a piece
   of c2: x is (equal to) the first or last point of c1 and of c2 - or c1 and c2 are the same point
   sequence up to reversal (then addOrGetEdge maps them to the same pair of half edges).
   PROVED: the four ways a control point certainly becomes an interaction point, whatever the order in
   which operands, elements and points are visited (T4a-d); the chains start and end at interaction
   points and contain none in between, and cut the element exactly at those points (T4e).  With T2
   (two pieces meet only at common ends or coincide) this gives the local form: a control point at
   which two elements meet WITHOUT being the common interior continuation of both (same two
   neighbours) is an interaction point, hence an end of every chain through it.
   MISSING for the full statement: the induction along two chains that share an interior control
   point with equal neighbour pairs (they then share the next control point as well, and so on up to
   their ends). *)
Theorem interaction_points_ends_partial : forall ea pa eb pb gh p0 r,
  In (p0 :: r) (ea ++ eb ++ gh) ->
  In p0 (find_interaction_points ea pa eb pb gh) /\ In (last r p0) (find_interaction_points ea pa eb pb gh).
Proof. exact ip_endpoints_lemma. Qed.
Print Assumptions interaction_points_ends_partial.

Theorem interaction_points_points_partial : forall ea pa eb pb gh p,
  In p (pa ++ pb) -> In p (find_interaction_points ea pa eb pb gh).
Proof. exact ip_points_lemma. Qed.
Print Assumptions interaction_points_points_partial.

(* a line string that turns back on itself: the reversal point *)
Theorem interaction_points_reversal_partial : forall ea pa eb pb gh e a c b,
  In e (ea ++ eb ++ gh) -> consecutive3 e a c b -> pt_eq a b -> In c (find_interaction_points ea pa eb pb gh).
Proof. exact ip_spike_lemma. Qed.
Print Assumptions interaction_points_reversal_partial.

(* two occurrences (in the same or in different elements, of either operand or the ghosts) of a control
   point as a middle point whose canonicalised neighbour pairs differ *)
Theorem interaction_points_conflict_partial : forall ea pa eb pb gh e1 a1 c1 b1 e2 a2 c2 b2,
  In e1 (ea ++ eb ++ gh) -> consecutive3 e1 a1 c1 b1 -> In e2 (ea ++ eb ++ gh) -> consecutive3 e2 a2 c2 b2 ->
  pt_eq c1 c2 -> pair_eqb (adj_pair a1 b1) (adj_pair a2 b2) = false ->
  is_interaction (find_interaction_points ea pa eb pb gh) c1 = true.
Proof. exact ip_conflict_lemma. Qed.
Print Assumptions interaction_points_conflict_partial.

(* forEachNonInteractingSegment: the pieces of the chains are the pieces of the element, in order; every
   chain has at least two points, begins and ends at an interaction point and has none in between *)
Theorem chains_spec_partial : forall I ps cs,
  chains_of I ps = Some cs ->
  match ps with [] => True | p :: _ => is_interaction I p = true end ->
  flat_map (@ring_edges) cs = ring_edges ps /\ forallb (chain_ok_b (is_interaction I)) cs = true.
Proof. exact chains_of_spec_lemma. Qed.
Print Assumptions chains_spec_partial.

(* ================================================================ examples *)
(* two crossing squares, a line through vertices of both (collinear with nothing, through (2,2) and
   (4,0), (0,4)), and a point on an edge *)
Definition rv (x y : Z) : vtx Q := Build_vtx (inject_Z x) (inject_Z y) 0 0.
Definition rsq (x0 y0 x1 y1 : Z) : polyT Q :=
  MkPoly XY [MkLine XY [rv x0 y0; rv x1 y0; rv x1 y1; rv x0 y1; rv x0 y0]].
Definition exRA : geom := GPoly (rsq 0 0 4 4).
Definition exRB : geom :=
  GColl XY [GPoly (rsq 2 2 6 6); GLine (MkLine XY [rv (-2) 6; rv 6 (-2)]); GPoint (MkPoint XY (Some (rv 1 0)))].
Definition exSk := overlay_skeleton_of exRA exRB.

Example ex_ghosts : sk_ghost_lines exSk = [[(-2, 6); (2, 2)]; [(0, 0); (1, 0)]; [(1, 0); (2, 2)]]%Q.
Proof. vm_compute. reflexivity. Qed.
(* the square A is cut at the point (1,0), at the crossings (4,2), (2,4) with B's square and at the
   vertices (4,0), (0,4) the line passes through; the first ghost is cut at (0,4) *)
Example ex_renoded_a : rn_a (sk_renoded exSk) = [[(0, 0); (1, 0); (4, 0); (4, 2); (4, 4); (2, 4); (0, 4); (0, 0)]]%Q.
Proof. vm_compute. reflexivity. Qed.
Example ex_renoded_ghosts : rn_ghosts (sk_renoded exSk) = [[(-2, 6); (0, 4); (2, 2)]; [(0, 0); (1, 0)]; [(1, 0); (2, 2)]]%Q.
Proof. vm_compute. reflexivity. Qed.
Example ex_noded : noded_b (rn_pieces (sk_renoded exSk)) = true.
Proof. vm_compute. reflexivity. Qed.
Example ex_points_noded : points_noded_b [(1, 0)]%Q (rn_pieces (sk_renoded exSk)) = true.
Proof. vm_compute. reflexivity. Qed.
(* the un-noded input is NOT noded: the hypothesis-free theorem is not vacuous *)
Example ex_input_not_noded :
  noded_b (flat_map lines_of (g_elems exRA ++ g_elems exRB)) = false.
Proof. vm_compute. reflexivity. Qed.
Example ex_chain_ends :
  option_map (forallb (chain_ok_b (is_interaction (sk_vertices exSk)))) (sk_chains exSk) = Some true.
Proof. vm_compute. reflexivity. Qed.
Example ex_chains : option_map (@length _) (sk_chains exSk) = Some 17%nat.
Proof. vm_compute. reflexivity. Qed.
(* collinear overlap: both ends are cut *)
Example ex_overlap :
  rn_pieces (renode_elems [] [[(0, 0); (4, 0)]] [[(1, 0); (6, 0)]] [])%Q =
  [((0, 0), (1, 0)); ((1, 0), (4, 0)); ((1, 0), (4, 0)); ((4, 0), (6, 0))]%Q.
Proof. vm_compute. reflexivity. Qed.
(* the exact kernel agrees with the transcription of intersectLine's float case analysis here *)
Example ex_intersect_line_agrees :
  forallb (fun l => forallb (isect_agree_b l) (flat_map lines_of (g_elems exRA ++ g_elems exRB)))
          (flat_map lines_of (g_elems exRA ++ g_elems exRB)) = true.
Proof. vm_compute. reflexivity. Qed.
