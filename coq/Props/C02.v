(* Property C02 - Relate returns the true DE-9IM matrix and the named predicates follow from it.
   Statements only; proofs in Proofs/RelateMatch_proofs.v, Proofs/Relate_proofs.v,
   Proofs/Planar_proofs.v.  Model: Model/Relate.v (+ Model/RelatePatterns.v) over Base/Planar.v.

   Three layers (DESIGN.md "C02"):
   (a) the pattern matcher and the nine predicates as functions of Relate's string: full proofs;
       the facts about the predicates hold for ALL 4^9 = 262144 matrices - established by complete
       enumeration (all_matrices_complete) and one kernel evaluation, the bound is in the statement
       (m ranges over the finite type matrix = dimv^9);
   (b) empty operands: closed form, transposition, transparency of empty collection members (F8:
       refuted for the pinned code, proved for the repaired code): full proofs;
   (c) two non-empty operands: the model IS the reference semantics de9im_ref (exact arrangement +
       definitional locate).  SUFFICIENCY of the witnesses is now proved (Proofs/Planar_slab*.v):
       every point of Q^2 has a witness with the same location w.r.t. every geometry of the
       arrangement (hypothesis: polygon rings are closed vertex lists), hence every entry of the
       model's matrix is characterised in terms of ALL points of the plane (section (c'), below).
       The older ..._partial theorems are kept.  What remains unformalised is only the passage from
       the combinatorial characterisation (only vertices / a non-vertex point / a point off every
       segment) to topological dimension, and the construction and labelling of the overlay by the
       Go code: section (c'') models the extraction of the matrix from the labelled overlay and
       proves it right for sound labels; the labels of every real overlay are judged by the driver. *)
From Coq Require Import QArith List Bool ZArith NArith.
From SF Require Import Model.SetOpSpec Model.OverlayComplex.
From SF Require Import Base.GeomAST Base.QKernel Base.Planar Proofs.Planar_proofs
  Model.RelatePatterns Model.Relate Proofs.RelateMatch_proofs Proofs.Relate_proofs
  Proofs.Planar_slab_base Proofs.Planar_slab Proofs.Planar_slab_dim Proofs.Relate_slab_proofs
  Model.RelateComplex Proofs.RelateComplex_proofs.
Import ListNotations.
Local Close Scope Q_scope.
Local Open Scope nat_scope.
Local Open Scope list_scope.

(* ------------------------------------------------------------------ (a) RelateMatches *)
(* for ALL byte strings: error iff a length is not 9 or the first position that does not match is an
   invalid character (pattern character examined before the matrix character); false iff both
   lengths are 9 and the first non-matching position is a plain mismatch; true iff everything matches *)
Theorem relate_matches_spec : forall mat pat : bytes,
  (relate_matches mat pat = RMErr <->
     List.length mat <> 9 \/ List.length pat <> 9 \/ first_bad mat pat (Some CellErr)) /\
  (relate_matches mat pat = RM false <->
     List.length mat = 9 /\ List.length pat = 9 /\ first_bad mat pat (Some CellMismatch)) /\
  (relate_matches mat pat = RM true <->
     List.length mat = 9 /\ List.length pat = 9 /\ first_bad mat pat None).
Proof. exact relate_matches_spec_lemma. Qed.
Print Assumptions relate_matches_spec.

(* on well-formed input the matcher is the cell-wise rule F~{F,*}, d~{d,T,*} *)
Theorem relate_matches_typed : forall (m : matrix) (pats : list bytes) (tps : list (list pchar)),
  typed_pats pats = Some tps -> match_any (enc_matrix m) pats = RM (pmatch_any m tps).
Proof. exact match_any_typed. Qed.
Print Assumptions relate_matches_typed.

(* the enumeration used below is complete: every matrix is in the list of 4^9 *)
Theorem all_matrices_enumerated : (forall m : matrix, In m all_matrices) /\
  N.of_nat (List.length all_matrices) = 262144%N.
Proof. exact (conj all_matrices_complete all_matrices_length). Qed.
Print Assumptions all_matrices_enumerated.

(* ---- the predicates, for every one of the 262144 matrices m *)
Theorem contains_within_dual : forall m : matrix,
  go_contains (enc_matrix m) = go_within (enc_matrix (transpose m)) /\
  go_within (enc_matrix m) = go_contains (enc_matrix (transpose m)).
Proof. exact (fun m => conj (contains_within_dual_lemma m) (within_contains_dual_lemma m)). Qed.
Print Assumptions contains_within_dual.

Theorem covers_coveredby_dual : forall m : matrix,
  go_covers (enc_matrix m) = go_coveredby (enc_matrix (transpose m)) /\
  go_coveredby (enc_matrix m) = go_covers (enc_matrix (transpose m)).
Proof. exact (fun m => conj (covers_coveredby_dual_lemma m) (coveredby_covers_dual_lemma m)). Qed.
Print Assumptions covers_coveredby_dual.

(* Disjoint is the negation of "the two sets share a point" (some entry of II, IB, BI, BB is set) *)
Theorem disjoint_iff_not_intersects : forall m : matrix,
  go_disjoint (enc_matrix m) = RM (negb (m_intersects m)).
Proof. exact disjoint_iff_not_intersects_lemma. Qed.
Print Assumptions disjoint_iff_not_intersects.

Theorem equals_sym : forall (m : matrix) (ea eb : bool),
  go_equals (enc_matrix m) ea eb = go_equals (enc_matrix (transpose m)) eb ea.
Proof. exact equals_sym_lemma. Qed.
Print Assumptions equals_sym.
Theorem touches_sym : forall m : matrix, go_touches (enc_matrix m) = go_touches (enc_matrix (transpose m)).
Proof. exact touches_sym_lemma. Qed.
Print Assumptions touches_sym.
Theorem disjoint_sym : forall m : matrix, go_disjoint (enc_matrix m) = go_disjoint (enc_matrix (transpose m)).
Proof. exact disjoint_sym_lemma. Qed.
Print Assumptions disjoint_sym.
(* for all dimensions da, db (any natural numbers) *)
Theorem overlaps_sym : forall (m : matrix) (da db : nat),
  go_overlaps (enc_matrix m) da db = go_overlaps (enc_matrix (transpose m)) db da.
Proof. exact overlaps_sym_lemma. Qed.
Print Assumptions overlaps_sym.
Theorem crosses_sym : forall (m : matrix) (da db : nat),
  go_crosses (enc_matrix m) da db = go_crosses (enc_matrix (transpose m)) db da.
Proof. exact crosses_sym_lemma. Qed.
Print Assumptions crosses_sym.

Theorem within_implies_coveredby : forall m : matrix,
  (go_within (enc_matrix m) = RM true -> go_coveredby (enc_matrix m) = RM true) /\
  (go_contains (enc_matrix m) = RM true -> go_covers (enc_matrix m) = RM true) /\
  (go_equals (enc_matrix m) false false = RM true ->
   go_within (enc_matrix m) = RM true /\ go_contains (enc_matrix m) = RM true).
Proof.
  exact (fun m => conj (within_implies_coveredby_lemma m)
                   (conj (contains_implies_covers_lemma m) (equals_implies_within_contains_lemma m))).
Qed.
Print Assumptions within_implies_coveredby.

(* dimension rules: for ALL strings and all dimensions *)
Theorem crosses_dim_rule : forall (mat : bytes) (da db : nat),
  (da = db -> da <> 1 -> go_crosses mat da db = RM false) /\
  (da <> db -> go_overlaps mat da db = RM false).
Proof. exact (fun mat da db => conj (crosses_dim_rule_lemma mat da db) (overlaps_dim_rule_lemma mat da db)). Qed.
Print Assumptions crosses_dim_rule.

(* no predicate can fail on a matrix Relate produces *)
Theorem preds_no_error : forall (m : matrix) (da db : nat) (ea eb : bool),
  ~ In RMErr (go_preds (enc_matrix m) da db ea eb).
Proof. exact preds_no_error_lemma. Qed.
Print Assumptions preds_no_error.

(* the transcribed pattern lists mean what the documentation (OGC 06-103r4, JTS) says, entry by entry *)
Theorem predicates_match_ogc_patterns : forall m : matrix,
  go_equals (enc_matrix m) false false = RM (isT (mII m) && isF (mIE m) && isF (mBE m) && isF (mEI m) && isF (mEB m)) /\
  go_disjoint (enc_matrix m) = RM (isF (mII m) && isF (mIB m) && isF (mBI m) && isF (mBB m)) /\
  go_touches (enc_matrix m) = RM (isF (mII m) && (isT (mIB m) || isT (mBI m) || isT (mBB m))) /\
  go_contains (enc_matrix m) = RM (isT (mII m) && isF (mEI m) && isF (mEB m)) /\
  go_covers (enc_matrix m) = RM (m_intersects m && isF (mEI m) && isF (mEB m)) /\
  go_within (enc_matrix m) = RM (isT (mII m) && isF (mIE m) && isF (mBE m)) /\
  go_coveredby (enc_matrix m) = RM (m_intersects m && isF (mIE m) && isF (mBE m)) /\
  (forall da db, da < db -> go_crosses (enc_matrix m) da db = RM (isT (mII m) && isT (mIE m))) /\
  (forall da db, db < da -> go_crosses (enc_matrix m) da db = RM (isT (mII m) && isT (mEI m))) /\
  go_crosses (enc_matrix m) 1 1 = RM (match mII m with D0 => true | _ => false end) /\
  go_overlaps (enc_matrix m) 0 0 = RM (isT (mII m) && isT (mIE m) && isT (mEI m)) /\
  go_overlaps (enc_matrix m) 2 2 = RM (isT (mII m) && isT (mIE m) && isT (mEI m)) /\
  go_overlaps (enc_matrix m) 1 1 = RM ((match mII m with D1 => true | _ => false end) && isT (mIE m) && isT (mEI m)).
Proof. exact predicates_match_ogc_lemma. Qed.
Print Assumptions predicates_match_ogc_patterns.

(* the byte patterns used by the model are the string literals of Model/RelatePatterns.v *)
Theorem patterns_are_the_transcribed_ones :
  bp_equals = map str_bytes pats_equals /\ bp_disjoint = map str_bytes pats_disjoint /\
  bp_touches = map str_bytes pats_touches /\ bp_contains = map str_bytes pats_contains /\
  bp_covers = map str_bytes pats_covers /\ bp_within = map str_bytes pats_within /\
  bp_coveredby = map str_bytes pats_coveredby /\ bp_crosses_lt = map str_bytes pats_crosses_lt /\
  bp_crosses_gt = map str_bytes pats_crosses_gt /\ bp_crosses_11 = map str_bytes pats_crosses_11 /\
  bp_overlaps_00_22 = map str_bytes pats_overlaps_00_22 /\ bp_overlaps_11 = map str_bytes pats_overlaps_11.
Proof. exact bp_spec. Qed.
Print Assumptions patterns_are_the_transcribed_ones.

(* ------------------------------------------------------------------ (b) and whole-model facts *)
(* Relate(b,a) is the transpose of Relate(a,b): for ALL pairs of geometries of the model (empty or
   not, any nesting), for the pinned and for the repaired dimension function *)
Theorem relate_transpose : forall (a b : geom),
  relate b a = transpose (relate a b) /\ relate_unfixed b a = transpose (relate_unfixed a b).
Proof. exact (fun a b => conj (relate_with_transpose dimension_ie a b) (relate_with_transpose dimension a b)). Qed.
Print Assumptions relate_transpose.

(* consequently the dualities hold for geometries: Contains(a,b) = Within(b,a), Covers(a,b) =
   CoveredBy(b,a), through the strings Relate returns *)
Theorem contains_within_dual_geom : forall a b : geom,
  go_contains (enc_matrix (relate a b)) = go_within (enc_matrix (relate b a)) /\
  go_covers (enc_matrix (relate a b)) = go_coveredby (enc_matrix (relate b a)).
Proof.
  exact (fun a b =>
    conj (eq_trans (contains_within_dual_lemma (relate a b))
                   (f_equal (fun m => go_within (enc_matrix m)) (eq_sym (relate_with_transpose dimension_ie a b))))
         (eq_trans (covers_coveredby_dual_lemma (relate a b))
                   (f_equal (fun m => go_coveredby (enc_matrix m)) (eq_sym (relate_with_transpose dimension_ie a b))))).
Qed.
Print Assumptions contains_within_dual_geom.

(* empty operands: both empty -> FFFFFFFF2; nothing meets the interior/boundary of an empty operand
   (in the code's closed form AND in the definitional matrix); the exteriors meet in an area *)
Theorem relate_empty_spec : forall (a b : geom),
  (is_empty a = true -> is_empty b = true -> relate a b = MkM DF DF DF DF DF DF DF DF D2) /\
  (is_empty b = true -> forall l,
     mget (relate a b) l Interior = DF /\ mget (relate a b) l Boundary = DF /\
     mget (de9im_ref a b) l Interior = DF /\ mget (de9im_ref a b) l Boundary = DF) /\
  (is_empty a || is_empty b = true -> mEE (relate a b) = D2).
Proof.
  exact (fun a b =>
    conj (relate_both_empty dimension_ie a b)
   (conj (fun E l => conj (proj1 (relate_empty_right dimension_ie a b E l))
                    (conj (proj2 (relate_empty_right dimension_ie a b E l))
                          (de9im_ref_empty_right a b l E)))
         (relate_empty_EE dimension_ie a b))).
Qed.
Print Assumptions relate_empty_spec.
(* NOT proved (rests on the correspondence run, check relate_is_de9im): that the remaining entries
   EI/EB (IE/BE) of the closed form - dimension of the non-empty operand and of its boundary - equal
   those of the definitional matrix; it needs the existence of interior witnesses (sufficiency). *)

(* F8. The pinned code: an empty member of a collection changes Relate and the predicates *)
Theorem relate_empty_member_refuted :
  (exists ct gs1 e gs2 h, is_empty e = true /\
     relate_unfixed (GColl ct (gs1 ++ e :: gs2)) h <> relate_unfixed (GColl ct (gs1 ++ gs2)) h) /\
  (exists ct gs1 e gs2 h, is_empty e = true /\
     preds_unfixed (GColl ct (gs1 ++ e :: gs2)) h <> preds_unfixed (GColl ct (gs1 ++ gs2)) h).
Proof. exact (conj relate_empty_member_refuted_lemma preds_empty_member_refuted_lemma). Qed.
Print Assumptions relate_empty_member_refuted.

(* F8 repaired: empty members are transparent, wherever they are inserted, on either side, for
   Relate and for all nine predicates; and a one-member collection is its member *)
Theorem relate_empty_member_transparent : forall ct (gs1 : list geom) (e : geom) (gs2 : list geom) (h : geom),
  is_empty e = true ->
  relate (GColl ct (gs1 ++ e :: gs2)) h = relate (GColl ct (gs1 ++ gs2)) h /\
  relate h (GColl ct (gs1 ++ e :: gs2)) = relate h (GColl ct (gs1 ++ gs2)) /\
  preds (GColl ct (gs1 ++ e :: gs2)) h = preds (GColl ct (gs1 ++ gs2)) h.
Proof. exact relate_empty_member_transparent_lemma. Qed.
Print Assumptions relate_empty_member_transparent.
Theorem relate_singleton_collection : forall ct (g h : geom),
  relate (GColl ct [g]) h = relate g h /\ preds (GColl ct [g]) h = preds g h.
Proof. exact relate_singleton_collection_lemma. Qed.
Print Assumptions relate_singleton_collection.

(* ------------------------------------------------------------------ (c) non-empty operands *)
(* FULL STATEMENT (not proved): for valid a, b in the property's domain and every entry (la,lb),
     mget (relate a b) la lb = the dimension of { p in Q^2 | locate a p = la /\ locate b p = lb }.
   Proved instead: the entries are exactly the maxima over the witnesses of the exact arrangement
   (each set entry is attained at a concrete rational point with those two definitional locations
   and that cell dimension; no witness exceeds its entry); dimension-0 witnesses are arrangement
   vertices; membership and location agree. Unproved gap: every point of a cell has the location
   pair of the cell's witness (slab argument, DESIGN.md section 4.1). *)
Theorem relate_nonempty_witnessed_partial : forall (a b : geom) (la lb : loc),
  is_empty a = false -> is_empty b = false ->
  (mget (relate a b) la lb <> DF ->
     exists w, In (w, mget (relate a b) la lb) (pair_witnesses a b) /\ locate a w = la /\ locate b w = lb) /\
  (forall w d, In (w, d) (pair_witnesses a b) -> locate a w = la -> locate b w = lb ->
     dim_rank d <= dim_rank (mget (relate a b) la lb)).
Proof.
  intros a b la lb Ea Eb. unfold relate, relate_with. rewrite Ea, Eb. simpl. split.
  - exact (de9im_ref_entry_witnessed a b la lb).
  - intros w d H <- <-. exact (de9im_ref_entry_ge a b w d H).
Qed.
Print Assumptions relate_nonempty_witnessed_partial.

Theorem witness_vertices_partial : forall (L : list seg) (P : list pt) (w : pt),
  In (w, D0) (witnesses L P) ->
  exists v, pt_eq v w /\
    ((exists s, In s L /\ (v = fst s \/ v = snd s)) \/
     (exists s t, In s L /\ In t L /\ In v (ssr_points (seg_seg s t)) /\ on_seg s v = true /\ on_seg t v = true) \/
     In v P).
Proof.
  intros L P w H. destruct (witness_dim0_is_vertex L P w H) as [v [Hv E]].
  exists v. split; [exact E | exact (vertex_set_spec L P v Hv)].
Qed.
Print Assumptions witness_vertices_partial.

(* locate is a total function into three exclusive classes, and agrees with membership *)
Theorem locate_total_exclusive : forall (g : geom) (p : pt),
  (locate g p = Interior \/ locate g p = Boundary \/ locate g p = Exterior) /\
  (inG g p = true <-> locate g p <> Exterior).
Proof. exact (fun g p => conj (locate_total g p) (inG_locate g p)). Qed.
Print Assumptions locate_total_exclusive.

(* the kernel under the arrangement: reported intersection points lie on both segments, and two
   segments with a common point are never classified as disjoint *)
Theorem seg_seg_correct : forall (s t : seg),
  (forall p, In p (ssr_points (seg_seg s t)) -> on_seg s p = true /\ on_seg t p = true) /\
  (forall p, on_seg s p = true -> on_seg t p = true -> seg_seg s t <> SSEmpty).
Proof. exact (fun s t => conj (seg_seg_sound s t) (seg_seg_complete s t)). Qed.
Print Assumptions seg_seg_correct.

(* ------------------------------------------------------------------ examples (non-vacuity) *)
Definition sq (x0 y0 x1 y1 : Z) : geom :=
  GPoly (MkPoly XY [MkLine XY [vq x0 y0; vq x1 y0; vq x1 y1; vq x0 y1; vq x0 y0]]).
(* two overlapping squares: 212101212, and the transposed call *)
Example ex_overlapping_squares :
  enc_matrix (relate (sq 0 0 2 2) (sq 1 1 3 3)) = map N.of_nat [50; 49; 50; 49; 48; 49; 50; 49; 50] /\
  preds (sq 0 0 2 2) (sq 1 1 3 3) = [RM false; RM false; RM false; RM false; RM false; RM false; RM false; RM false; RM true].
Proof. vm_compute. split; reflexivity. Qed.
(* a square containing a smaller one: Contains/Covers true; the transposed pair: Within/CoveredBy true *)
Example ex_contains :
  preds (sq 0 0 4 4) (sq 1 1 2 2) = [RM false; RM false; RM false; RM true; RM true; RM false; RM false; RM false; RM false] /\
  preds (sq 1 1 2 2) (sq 0 0 4 4) = [RM false; RM false; RM false; RM false; RM false; RM true; RM true; RM false; RM false].
Proof. vm_compute. split; reflexivity. Qed.
(* the F8 witness on the repaired model: the empty member no longer matters *)
Example ex_f8_repaired :
  relate (GColl XY [f8_g; f8_e]) f8_h = relate f8_g f8_h /\
  preds (GColl XY [f8_l1; f8_e]) f8_l2 = preds f8_l1 f8_l2 /\
  nth 8 (preds f8_l1 f8_l2) RMErr = RM true.
Proof. vm_compute. repeat split; reflexivity. Qed.
(* the matcher's three outcomes are all reachable *)
Example ex_matcher :
  relate_matches (map N.of_nat [50;49;50;49;48;49;50;49;50]) (map N.of_nat [84;42;84;42;42;42;84;42;42]) = RM true /\
  relate_matches (map N.of_nat [70;49;50;49;48;49;50;49;50]) (map N.of_nat [84;42;84;42;42;42;84;42;42]) = RM false /\
  relate_matches (map N.of_nat [70;49;50;49;48;49;50;49;50]) (map N.of_nat [84;42;84;42;42;42;84;42;120]) = RM false /\
  relate_matches (map N.of_nat [50;49;50;49;48;49;50;49;50]) (map N.of_nat [84;42;84;42;42;42;84;42;120]) = RMErr /\
  relate_matches (map N.of_nat [50;49;50]) (map N.of_nat [84;42;84;42;42;42;84;42;42]) = RMErr.
Proof. vm_compute. repeat split; reflexivity. Qed.

(* ------------------------------------------------------------------ (c') sufficiency of the witnesses *)
(* S3, uniform: for ANY finite set of segments L and isolated points P, every point p of Q^2 has a
   witness w (of the list the oracle enumerates) such that locate g p = locate g w for EVERY geometry g
   whose segments are in L and points in P and whose polygon rings are closed.  No other validity is
   assumed: rings may self-intersect, members may overlap. *)
Theorem slab_witnesses_sufficient : forall (L : list seg) (P : list pt) (p : pt),
  exists w d, In (w, d) (witnesses L P) /\
    forall g, covers_geom L P g -> rings_closed g -> locate g p = locate g w.
Proof. exact witnesses_sufficient. Qed.
Print Assumptions slab_witnesses_sufficient.

(* S1 (cell constancy), in the two forms the construction uses: two points of the same open slab that
   compare alike with every spanning segment, or two points of the same vertical line that compare alike
   with every ordinate of the line, cannot be told apart by any segment or vertex of the arrangement ... *)
Theorem cell_constancy : forall (L : list seg) (P : list pt),
  (forall x0 x1 p w, In (x0, x1) (consec (events (vertex_set L P))) ->
     (x0 < fst p < x1)%Q -> (x0 < fst w < x1)%Q ->
     (forall e, In e L -> spans x0 x1 e -> (snd p ?= y_at e (fst p))%Q = (snd w ?= y_at e (fst w))%Q) ->
     same_cell L (vertex_set L P) p w) /\
  (forall x p w, (fst p == x)%Q -> (fst w == x)%Q ->
     (forall y, In y (line_ordinates L (vertex_set L P) x) -> (snd p ?= y)%Q = (snd w ?= y)%Q) ->
     same_cell L (vertex_set L P) p w) /\
  (* ... and then have the same location w.r.t. every geometry of the arrangement *)
  (forall g p w, covers_geom L P g -> rings_closed g -> same_cell L (vertex_set L P) p w ->
     locate g p = locate g w).
Proof.
  exact (fun L P => conj (fun x0 x1 p w H => slab_same_cell L P x0 x1 H p w)
                   (conj (event_same_cell L P) (fun g p w => locate_same_cell L P g p w))).
Qed.
Print Assumptions cell_constancy.

(* the parity fact underneath: for a closed ring and a point not on it, the crossing parity of the
   horizontal ray (used by locate) equals that of the vertical ray (constant on slab cells) *)
Theorem closed_ring_parity_hv : forall (ps : list pt) (p : pt),
  pts_closed ps = true -> on_edges (segs_of_pts ps) p = false ->
  edges_parity (segs_of_pts ps) p = vparity (segs_of_pts ps) p.
Proof. exact closed_ring_parity. Qed.
Print Assumptions closed_ring_parity_hv.

(* S2 (coverage): every point of the plane is in the same cell as some enumerated witness *)
Theorem witness_coverage : forall (L : list seg) (P : list pt) (p : pt),
  exists w d, In (w, d) (witnesses L P) /\ same_cell L (vertex_set L P) p w.
Proof. exact witness_cover. Qed.
Print Assumptions witness_coverage.

(* the reference matrix: an entry is set iff SOME POINT OF THE PLANE has that pair of locations *)
Theorem de9im_ref_sufficient : forall (a b : geom) (la lb : loc),
  rings_closed a -> rings_closed b ->
  (mget (de9im_ref a b) la lb <> DF <-> exists p, locate a p = la /\ locate b p = lb).
Proof. exact Planar_slab.de9im_ref_sufficient. Qed.
Print Assumptions de9im_ref_sufficient.

(* and its value is pinned down by all points of the plane: with S = { p | locate a p = la, locate b p = lb }
   and the arrangement of both operands' segments and points,
     0  iff S is non-empty and consists of arrangement vertices only (finitely many points);
    >=1 iff S contains a point that is not a vertex;
     2  iff S contains a point that lies on no segment of either operand and is no vertex *)
Theorem relate_entries_characterised : forall (a b : geom) (la lb : loc),
  is_empty a = false -> is_empty b = false -> rings_closed a -> rings_closed b ->
  let L := canon_segs (arr_segments a ++ arr_segments b) in
  let V := vertex_set L (canon_pts (arr_points a ++ arr_points b)) in
  (mget (relate a b) la lb <> DF <-> exists p, locate a p = la /\ locate b p = lb) /\
  (mget (relate a b) la lb = D0 <->
     (exists p, locate a p = la /\ locate b p = lb) /\
     (forall p, locate a p = la -> locate b p = lb -> is_vertex V p = true)) /\
  (mget (relate a b) la lb = D1 \/ mget (relate a b) la lb = D2 <->
     exists p, locate a p = la /\ locate b p = lb /\ is_vertex V p = false) /\
  (mget (relate a b) la lb = D2 <->
     exists p, locate a p = la /\ locate b p = lb /\ on_some_seg L p = false /\ is_vertex V p = false).
Proof.
  intros a b la lb Ea Eb Ra Rb. cbv zeta. rewrite (relate_nonempty a b Ea Eb).
  exact (conj (Planar_slab.de9im_ref_sufficient a b la lb Ra Rb)
        (conj (entry_D0_iff a b Ra Rb la lb) (conj (entry_ge_D1_iff a b Ra Rb la lb) (entry_D2_iff a b Ra Rb la lb)))).
Qed.
Print Assumptions relate_entries_characterised.

(* Disjoint of the model is true iff the two point sets share no point of Q^2 (all pairs, empties included) *)
Theorem disjoint_iff_no_common_point : forall (a b : geom), rings_closed a -> rings_closed b ->
  (go_disjoint (enc_matrix (relate a b)) = RM true <-> forall p, ~ (inG a p = true /\ inG b p = true)).
Proof. exact disjoint_iff_no_common_point_lemma. Qed.
Print Assumptions disjoint_iff_no_common_point.

(* for users of the oracle (C01, C03, C09, C15): agreement at the witnesses is agreement everywhere *)
Theorem witnesses_decide_everywhere : forall (L : list seg) (P : list pt),
  (forall g1 g2, covers_geom L P g1 -> covers_geom L P g2 -> rings_closed g1 -> rings_closed g2 ->
     (forall w d, In (w, d) (witnesses L P) -> inG g1 w = inG g2 w) -> forall p, inG g1 p = inG g2 p) /\
  (forall g1 g2, covers_geom L P g1 -> covers_geom L P g2 -> rings_closed g1 -> rings_closed g2 ->
     (forall w d, In (w, d) (witnesses L P) -> locate g1 w = locate g2 w) -> forall p, locate g1 p = locate g2 p) /\
  (forall (gs : list geom) (F : list bool -> bool),
     (forall g, In g gs -> covers_geom L P g /\ rings_closed g) ->
     (forall w d, In (w, d) (witnesses L P) -> F (map (fun g => inG g w) gs) = true) ->
     forall p, F (map (fun g => inG g p) gs) = true).
Proof.
  exact (fun L P => conj (inG_agree_everywhere L P) (conj (locate_agree_everywhere L P) (pointwise_everywhere L P))).
Qed.
Print Assumptions witnesses_decide_everywhere.

(* non-vacuity: the hypothesis rings_closed holds of the example squares, and an entry of each kind occurs *)
Example ex_rings_closed : forall y, In y (g_polys (sq 0 0 2 2)) -> forall r, In r (poly_rings y) -> pts_closed (line_pts r) = true.
Proof. intros y [<-|[]] r [<-|[]]. vm_compute. reflexivity. Qed.

(* ------------------------------------------------------------------ (c'') Go's extraction from the labelled overlay *)
(* Model/RelateComplex.v transcribes geom/dcel_extract_intersection_matrix.go on the overlay complex
   (C01's Model/OverlayComplex.v + the per-vertex location flags).  The labelling itself (re-noding, radial
   sort, flood fill, mod-2 flags) stays outside the model: it is checked on every real overlay, cell by
   cell, by the driver (SPEC dcel_labels_sound).  Given sound labels, the extraction is proved right. *)

(* the matrix depends only on the SETS of location pairs: no dependence on Go's map iteration order *)
Theorem extraction_order_free : forall vs vs' es es' fs fs' : list (loc * loc),
  Permutation.Permutation vs vs' -> Permutation.Permutation es es' -> Permutation.Permutation fs fs' ->
  matrix_of_cells vs es fs = matrix_of_cells vs' es' fs'.
Proof. exact matrix_of_cells_order_free. Qed.
Print Assumptions extraction_order_free.

(* the three overwriting loops compute the max-by-dimension matrix *)
Theorem extraction_is_max : forall vs es fs : list (loc * loc),
  matrix_of_cells vs es fs = de9im_of (tagged vs es fs) /\
  forall la lb, mget (matrix_of_cells vs es fs) la lb =
    if memb la lb fs then D2 else if memb la lb es then D1 else if memb la lb vs then D0 else DF.
Proof. exact (fun vs es fs => conj (matrix_of_cells_is_max vs es fs) (mget_matrix_of_cells vs es fs)). Qed.
Print Assumptions extraction_is_max.

(* exchanging the operands on the same overlay transposes the matrix (None = the panic of a vertex without incident edge) *)
Theorem extraction_transpose : forall x : xcomplex,
  matrix_of_complex (swap_x x) = option_map transpose (matrix_of_complex x).
Proof. exact matrix_of_complex_swap. Qed.
Print Assumptions extraction_transpose.

(* vertexRecord.location takes the location of an ARBITRARY incident half edge: any choice gives the
   same answer when the incident half edges agree (checked on every real overlay: SPEC dcel_incidents_agree) *)
Theorem extraction_pick_free : forall (x : xcomplex) (i : nat) (l : vloc * vloc) (op : bool) (e : hedgeR),
  incidents_agree x = true -> nth_error (x_locs x) i = Some l ->
  vl_boundary (op_loc l op) = false -> vl_interior (op_loc l op) = false ->
  In e (incidents (x_c x) i) -> vertex_loc (x_c x) i l op = Some (edge_loc (x_c x) e op).
Proof. exact pick_any_incident. Qed.
Print Assumptions extraction_pick_free.

(* MAIN: if the cells of the overlay (vertices, half edges, faces; with any assignment of a witness point
   and a point set to each) cover the plane, the operands do not change location inside a cell, the
   dimensions are honest (0-cells are arrangement vertices, 1-cells lie on segments, witnesses of 1-cells
   are no vertices, witnesses of 2-cells lie on no segment) and the LABELS ARE SOUND - the pair of
   locations Go computed for the cell equals the definitional locate of the two operands at the cell's
   witness - then the matrix Go extracts is the reference matrix de9im_ref a b, whose entries are
   characterised by all points of the plane (relate_entries_characterised).  Closed rings are the only
   hypothesis on the operands. *)
Theorem relate_engine_right_if_labels_sound :
  forall (a b : geom) (x : xcomplex) (m : matrix) (vs : list (loc * loc))
         (wit : ccell -> pt) (inC : ccell -> pt -> Prop),
  rings_closed a -> rings_closed b ->
  let L := canon_segs (arr_segments a ++ arr_segments b) in
  let V := vertex_set L (canon_pts (arr_points a ++ arr_points b)) in
  let cells := cells_of (List.length vs) (List.length (edge_cells x)) (List.length (face_cells x)) in
  let lab := ccell_lab vs (edge_cells x) (face_cells x) in
  vertex_cells x = Some vs ->
  matrix_of_complex x = Some m ->
  (forall p, exists c, In c cells /\ inC c p) ->
  (forall c p, In c cells -> inC c p -> locate a p = locate a (wit c) /\ locate b p = locate b (wit c)) ->
  (forall c p, In c cells -> ccell_dim c = D0 -> inC c p -> is_vertex V p = true) ->
  (forall c p, In c cells -> ccell_dim c = D1 -> inC c p -> on_some_seg L p = true \/ is_vertex V p = true) ->
  (forall c, In c cells -> ccell_dim c = D1 -> is_vertex V (wit c) = false) ->
  (forall c, In c cells -> ccell_dim c = D2 -> on_some_seg L (wit c) = false /\ is_vertex V (wit c) = false) ->
  (forall c, In c cells -> lab c = (locate a (wit c), locate b (wit c))) ->
  m = de9im_ref a b.
Proof. exact relate_of_sound_overlay. Qed.
Print Assumptions relate_engine_right_if_labels_sound.
