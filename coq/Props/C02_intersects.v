(* C02, clause "Disjoint is the negation of Intersects" - statements only.
   geom.Disjoint is read off the DE-9IM matrix of the overlay (alg_relate.go; Model/Relate.v);
   geom.Intersects is a separate pairwise algorithm (alg_intersects.go; Model/Intersects.v, the model
   C09 proves exact).  The correspondence run of C02 observes BOTH functions of the implementation on
   every generated pair (checks intersects_is_not_disjoint, intersects_is_common_point). *)
From Coq Require Import QArith List Bool ZArith.
From SF Require Import Base.GeomAST Base.QKernel Base.Planar Model.Relate Model.Intersects
  Proofs.RelateMatch_proofs Proofs.Intersects_areal Proofs.Intersects_polypoly Proofs.Relate_intersects.
Import ListNotations.

(* for every pair of operands satisfying the validity hypotheses of C09's intersects_exact (closed rings,
   lines with two distinct points, rings with an interior, holes nested in shells): the Disjoint of the
   model is exactly the negation of the Intersects of the model - never an error *)
Theorem disjoint_is_not_intersects : forall a b : geom, operand_ok a -> operand_ok b ->
  go_disjoint (enc_matrix (relate a b)) = RM (negb (intersects a b)).
Proof. exact disjoint_is_not_intersects_lemma. Qed.
Print Assumptions disjoint_is_not_intersects.

(* the same with executable hypotheses (what the drivers evaluate) *)
Theorem disjoint_is_not_intersects_exec : forall a b : geom, operand_okb a = true -> operand_okb b = true ->
  go_disjoint (enc_matrix (relate a b)) = RM (negb (intersects a b)).
Proof. exact disjoint_is_not_intersects_exec. Qed.
Print Assumptions disjoint_is_not_intersects_exec.

(* the II/IB/BI/BB entries of Relate's matrix decide Intersects *)
Theorem relate_matrix_decides_intersects : forall a b : geom, operand_ok a -> operand_ok b ->
  m_intersects (relate a b) = intersects a b.
Proof. exact m_intersects_relate_is_intersects. Qed.
Print Assumptions relate_matrix_decides_intersects.

(* Disjoint is symmetric in its operands - here a corollary of the symmetry of the Intersects algorithm *)
Theorem disjoint_symmetric_via_intersects : forall a b : geom, operand_ok a -> operand_ok b ->
  go_disjoint (enc_matrix (relate a b)) = go_disjoint (enc_matrix (relate b a)).
Proof. exact disjoint_sym_via_intersects. Qed.
Print Assumptions disjoint_symmetric_via_intersects.

(* non-vacuity: a square with a hole against a square inside the hole (disjoint, boundaries apart) and
   against a square inside the shell's body (intersecting, boundaries apart) *)
Definition vq (x y : Z) : vtx Q := Build_vtx (inject_Z x) (inject_Z y) (inject_Z 0) (inject_Z 0).
Definition ringz (x0 y0 x1 y1 : Z) := MkLine XY [vq x0 y0; vq x1 y0; vq x1 y1; vq x0 y1; vq x0 y0].
Definition holed : geom := GPoly (MkPoly XY [ringz 0 0 10 10; ringz 2 2 8 8]).
Definition two (x0 y0 : Z) : geom :=
  GMPoly XY [MkPoly XY [ringz 40 40 50 50]; MkPoly XY [ringz x0 y0 (x0 + 1) (y0 + 1)]].
Example ex_hyps : operand_okb holed = true /\ operand_okb (two 4 4) = true /\ operand_okb (two 0 0) = true.
Proof. vm_compute. repeat split; reflexivity. Qed.
Example ex_in_hole : intersects holed (two 4 4) = false /\ go_disjoint (enc_matrix (relate holed (two 4 4))) = RM true.
Proof. vm_compute. split; reflexivity. Qed.
Example ex_in_body : intersects holed (two 0 0) = true /\ go_disjoint (enc_matrix (relate holed (two 0 0))) = RM false.
Proof. vm_compute. split; reflexivity. Qed.
