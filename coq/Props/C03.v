(* Property C03 - Validation accepts exactly the geometries that satisfy the OGC validity rules.
   Statements only; proofs are in Proofs/Validate_kernel.v (segment kernel), Validate_graph.v
   (touch graph), Validate_proofs.v (line strings, rings), Validate_translate.v, Validate_repr.v,
   Validate_sound.v, Validate_mperm.v (MultiPolygon: order of the members).
   Model: Model/Validate.v (transcription of the Go validation code over exact arithmetic; the
   fixed nested-ring probe is [validate], the probe of the pinned tree is [validate_v0]);
   reference statement: Model/ValidateSpec.v (ogc_valid). *)
From Coq Require Import QArith List Bool ZArith Permutation.
From SF Require Import Base.QKernel Model.Validate Model.ValidateSpec
  Proofs.Validate_kernel Proofs.Validate_graph Proofs.Validate_proofs Proofs.Validate_translate
  Proofs.Validate_repr Proofs.Validate_sound
  Base.GeomAST Base.Planar Base.Planar_C03 Proofs.Planar_slab_base Proofs.Validate_ogc Proofs.Validate_jordan Proofs.Validate_sound_all Proofs.Validate_total Proofs.Validate_idx Proofs.Validate_mpoly Proofs.Validate_mperm.
Import ListNotations.
Open Scope Q_scope.

(* ---------------------------------------------------------------- kernel *)
(* geom/line.go:intersectLine computes the intersection of two closed non-degenerate segments as
   a point set: empty iff no common point; every reported point is a common point; when the two
   reported points coincide that point is the ONLY common point. *)
Theorem intersect_line_is_intersection : forall a b c d : pt,
  ~ pt_eq a b -> ~ pt_eq c d ->
  match intersect_line (a, b) (c, d) with
  | ILEmpty => forall p, ~ (on_seg (a, b) p = true /\ on_seg (c, d) p = true)
  | ILSome x y =>
      (on_seg (a, b) x = true /\ on_seg (c, d) x = true)
      /\ (on_seg (a, b) y = true /\ on_seg (c, d) y = true)
      /\ (pt_eq x y -> forall p, on_seg (a, b) p = true /\ on_seg (c, d) p = true -> pt_eq p x)
  end.
Proof. exact intersect_line_spec. Qed.
Print Assumptions intersect_line_is_intersection.
Example intersect_line_nonvacuous :
  intersect_line ((0, 0), (4, 4)) ((0, 4), (4, 0)) = ILSome (2, 2) (2, 2)
  /\ intersect_line ((0, 0), (4, 0)) ((2, 0), (6, 0)) = ILSome (4, 0) (2, 0)
  /\ intersect_line ((0, 0), (1, 0)) ((2, 0), (3, 0)) = ILEmpty.
Proof. vm_compute. auto. Qed.

(* ---------------------------------------------------------------- LineString *)
(* LineString.Validate returns nil exactly for the empty line and for lines whose ordinates are all
   finite and which have two distinct points *)
Theorem ls_validate_spec : forall vs : list oxy,
  ls_validate vs = None <->
  (vs = [] \/ (Forall Finite vs /\ exists p q, In p vs /\ In q vs /\ p <> q)).
Proof. exact ls_validate_spec_lemma. Qed.
Print Assumptions ls_validate_spec.
Example ls_validate_spec_nonvacuous :
  ls_validate [P 1 1; P 1 1; P 2 3] = None /\ ls_validate [P 1 1; P 1 1] = Some RTwoPoints
  /\ ls_validate [P 1 1; (OFin 2, ONaN)] = Some RNaN.
Proof. vm_compute. auto. Qed.

(* IsSimple decides simplicity as defined on the point sets of the segments: two valid lines of
   the curve share a point only if they are consecutive (the point is their common end) or they
   are the first and last line of a closed curve (the point is the closing vertex).
   [Simple] is Proofs.Validate_proofs.Simple; it mentions only on_seg, as_lines and is_closed. *)
Theorem ring_simple_spec : forall ps : list pt, is_simple ps = true <-> Simple ps.
Proof. exact ring_simple_spec_lemma. Qed.
Print Assumptions ring_simple_spec.
Example ring_simple_nonvacuous :
  is_simple [(0, 0); (4, 0); (4, 4); (0, 4); (0, 0)] = true
  /\ is_simple [(0, 0); (4, 4); (4, 0); (0, 4); (0, 0)] = false
  /\ is_simple [(0, 0); (4, 0); (2, 0); (2, 3)] = false.
Proof. vm_compute. auto. Qed.

(* ---------------------------------------------------------------- touch graph *)
(* graph.go:hasCycle reports a cycle iff the undirected simple graph has a simple cycle (at least
   three distinct vertices, consecutive ones adjacent, last adjacent to first); in particular the
   answer does not depend on the iteration order of the Go maps *)
Theorem has_cycle_spec : forall g : graph,
  no_self_loops g -> (has_cycle g = true <-> exists c, Cycle g c).
Proof. exact has_cycle_spec_lemma. Qed.
Print Assumptions has_cycle_spec.
Example has_cycle_nonvacuous :
  has_cycle [(5, 0); (5, 1); (6, 1); (6, 2); (7, 2); (7, 0)]%nat = true
  /\ has_cycle [(5, 0); (5, 1); (6, 1); (6, 2); (7, 2); (7, 3)]%nat = false.
Proof. vm_compute. auto. Qed.

(* ---------------------------------------------------------------- representation independence *)
(* the verdict (with its rule class) is invariant under every integer translation of the raw
   ordinates, for all seven types and any nesting; also for the model of the pinned tree *)
Theorem validate_translation_invariant : forall (dx dy : Z) (g : vgeom),
  validate (tr_geom dx dy g) = validate g.
Proof. exact validate_translation_invariant_lemma. Qed.
Print Assumptions validate_translation_invariant.
Theorem validate_v0_translation_invariant : forall (dx dy : Z) (g : vgeom),
  validate_v0 (tr_geom dx dy g) = validate_v0 g.
Proof. exact validate_v0_translation_invariant_lemma. Qed.
Print Assumptions validate_v0_translation_invariant.
(* IsClosed / IsSimple / IsRing are invariant under every rational translation *)
Theorem ring_checks_translation_invariant : forall (v : pt) (ps : list pt),
  let ps' := map (fun p => pt_add p v) ps in
  is_closed ps' = is_closed ps /\ is_simple ps' = is_simple ps /\ is_ring ps' = is_ring ps.
Proof. exact ring_checks_translation_invariant_lemma. Qed.
Print Assumptions ring_checks_translation_invariant.
Example translation_nonvacuous :
  validate (tr_geom 7 (-3) (VPoly f3_rings)) = Some RRingNested
  /\ validate (tr_geom 7 (-3) (VPoly [f3_shell; f3_hole])) = None.
Proof. vm_compute. auto. Qed.

(* IsClosed / IsSimple / IsRing are invariant under the axis reflections x -> -x and y -> -y.
   validate_reflection_invariant for polygons is NOT proved: the crossing-parity probe
   (hasCrossing: ray towards -x, half-open in y) is not invariant predicate by predicate; that its
   parity is the same after a reflection is a Jordan-type fact about closed curves.  The
   correspondence run compares the verdicts of every geometry with its two reflections. *)
Theorem ring_checks_reflection_invariant : forall ps : list pt,
  (is_closed (map reflx ps) = is_closed ps /\ is_simple (map reflx ps) = is_simple ps /\ is_ring (map reflx ps) = is_ring ps)
  /\ (is_closed (map refly ps) = is_closed ps /\ is_simple (map refly ps) = is_simple ps /\ is_ring (map refly ps) = is_ring ps).
Proof. exact ring_checks_reflection_invariant_lemma. Qed.
Print Assumptions ring_checks_reflection_invariant.
(* ... under reversal of the vertex list *)
Theorem ring_checks_reversal_invariant : forall ps : list pt,
  is_closed (rev ps) = is_closed ps /\ is_simple (rev ps) = is_simple ps /\ is_ring (rev ps) = is_ring ps.
Proof. exact ring_checks_reversal_invariant_lemma. Qed.
Print Assumptions ring_checks_reversal_invariant.
(* ... and, for a closed vertex list, under the choice of the start vertex (rotate_ring k: the
   list started at its k-th vertex and closed again) *)
Theorem ring_checks_rotation_invariant : forall (k : nat) (ps : list pt),
  is_closed ps = true ->
  is_closed (rotate_ring k ps) = true /\ is_simple (rotate_ring k ps) = is_simple ps
  /\ is_ring (rotate_ring k ps) = is_ring ps.
Proof. exact ring_checks_rotation_invariant_lemma. Qed.
Print Assumptions ring_checks_rotation_invariant.
Example rotation_nonvacuous :
  let r := [(0, 0); (4, 0); (4, 4); (2, 1); (0, 4); (0, 0)] in
  is_closed r = true /\ rotate_ring 2 r = [(4, 4); (2, 1); (0, 4); (0, 0); (4, 0); (4, 4)] /\ is_ring (rotate_ring 2 r) = true
  /\ is_ring (rev r) = true /\ is_ring (map reflx r) = true.
Proof. vm_compute. auto. Qed.

(* ---------------------------------------------------------------- F3 *)
(* F3: on the model of the pinned tree the verdict of Polygon.Validate depends on the vertex a
   ring starts at (the statement "forall rings i k, is_valid_v0 (VPoly (restart_ring i k rings)) =
   is_valid_v0 (VPoly rings)" is false), and the accepted representation is not OGC-valid *)
Theorem polygon_validate_start_refuted :
  exists (rings : list (list oxy)) (i k : nat),
    is_valid_v0 (VPoly rings) = true
    /\ is_valid_v0 (VPoly (restart_ring i k rings)) = false
    /\ ogc_valid (VPoly rings) = false.
Proof. exists f3_rings, 2%nat, 1%nat. vm_compute. auto. Qed.
Print Assumptions polygon_validate_start_refuted.

(* After fixes/F3.patch the probe is the side of the first vertex that is off the other ring.
   General lemma: if the vertices of a ring that are off the other ring all lie on one side s of
   it, the probe returns s for every vertex list with the same vertices.  The hypothesis
   uniform_side is DISCHARGED below (touching_rings_one_side) for closed rings that meet in at
   most one point; nested_probe_start_invariant is the resulting full statement. *)
Theorem nested_probe_start_invariant_partial : forall (vs vs' : list pt) (other : list seg) (s : side),
  s <> SBoundary -> uniform_side vs other s ->
  (forall p, In p vs' <-> In p vs) ->
  (exists p, In p vs /\ relate_lines p other false = s) ->
  first_off_boundary vs' other = first_off_boundary vs other.
Proof. exact nested_probe_start_invariant_lemma. Qed.
Print Assumptions nested_probe_start_invariant_partial.
(* the witness of F3 is rejected by the fixed model for every start vertex of both hole rings
   (complete enumeration of the 4 x 3 starts) *)
Theorem f3_witness_rejected_for_all_starts :
  forallb (fun j => forallb (fun k =>
     negb (is_valid (VPoly (restart_ring 1 j (restart_ring 2 k f3_rings))))) (seq 0 3)) (seq 0 4) = true.
Proof. vm_compute. reflexivity. Qed.
Print Assumptions f3_witness_rejected_for_all_starts.

(* ---------------------------------------------------------------- soundness, rule by rule *)
(* A nil verdict of the (fixed) polygon validation on finite rings implies the LOCAL rules of
   ogc_valid: rings closed and simple by definition, two rings share at most one point, no hole
   probed inside another hole, every hole probed inside the shell, touch graph acyclic.
   The equivalence with ogc_valid (holes inside the shell at every point, interior connected) is
   not proved; see the comment at polygon_validate_sound_partial_lemma. *)
Theorem validate_sound_partial : forall rings : list (list pt),
  Forall (fun r => ring_geom_validate r = None) rings ->
  poly_geom_validate nested_v1 rings = None ->
  Forall (fun r => has_2_distinct r = true /\ is_closed r = true /\ Simple r) rings
  /\ (forall i j ri rj, (j < i)%nat -> nth_error rings i = Some ri -> nth_error rings j = Some rj ->
        forall p q, on_curve ri p -> on_curve rj p -> on_curve ri q -> on_curve rj q -> pt_eq p q)
  /\ (forall i j ri rj, (0 < j < i)%nat -> nth_error rings i = Some ri -> nth_error rings j = Some rj ->
        first_off_boundary ri (as_lines rj) <> SInterior /\ first_off_boundary rj (as_lines ri) <> SInterior)
  /\ (forall shell holes, rings = shell :: holes ->
        Forall (fun h => first_off_boundary h (as_lines shell) <> SExterior) holes)
  /\ (exists st, loop_i nested_v1 0 [] rings (MkPS (length rings) [] []) = inr st
                 /\ no_self_loops (ps_edges st) /\ ~ exists c, Cycle (ps_edges st) c).
Proof. exact polygon_validate_sound_partial_lemma. Qed.
Print Assumptions validate_sound_partial.
Example validate_sound_nonvacuous :
  let rings := [[(0, 0); (6, 0); (6, 6); (0, 6); (0, 0)]; [(0, 0); (3, 1); (1, 3); (0, 0)]; [(3, 1); (5, 1); (5, 3); (3, 1)]] in
  forallb (fun r => match ring_geom_validate r with None => true | _ => false end) rings = true
  /\ poly_geom_validate nested_v1 rings = None.
Proof. vm_compute. auto. Qed.

(* A nil verdict of the MultiPolygon constraints implies that the boundaries of two members never
   share a piece of positive length (every pair of boundary segments has at most one common point).
   That the interiors are disjoint is not proved (Jordan-type; correspondence with ogc_valid). *)
Theorem multipolygon_validate_sound_partial : forall polys : list (list (list pt)),
  mpoly_constraints [] polys = None ->
  forall i j pi pj, (j < i)%nat -> nth_error polys i = Some pi -> nth_error polys j = Some pj ->
  forall s t, In s (poly_lines pi) -> In t (poly_lines pj) ->
  forall p q, common s t p -> common s t q -> pt_eq p q.
Proof. exact multipolygon_validate_sound_partial_lemma. Qed.
Print Assumptions multipolygon_validate_sound_partial.
Example multipolygon_sound_nonvacuous :
  mpoly_constraints [] [[[(0, 0); (4, 0); (4, 4); (0, 4); (0, 0)]]; [[(4, 4); (6, 4); (6, 6); (4, 4)]]] = None
  /\ mpoly_constraints [] [[[(0, 0); (4, 0); (4, 4); (0, 4); (0, 0)]]; [[(4, 1); (6, 1); (4, 3); (4, 1)]]] = Some RPolysMultiTouch.
Proof. vm_compute. auto. Qed.

(* ---------------------------------------------------------------- ogc_valid is a verified reference *)
(* A clause evaluated at the witnesses of the exact arrangement decides the statement for ALL
   points of Q^2 (slab sufficiency, Proofs/Planar_slab.v; hypothesis: polygon rings are closed
   vertex lists - nothing else, rings may self-intersect). *)
Theorem ogc_everywhere_is_everywhere : forall (gs : list geom) (F : list bool -> bool),
  (forall g, In g gs -> rings_closed g) ->
  (everywhere gs F = true <-> forall p, F (map (fun g => inG g p) gs) = true).
Proof. exact everywhere_spec. Qed.
Print Assumptions ogc_everywhere_is_everywhere.

(* poly_def, clause by clause, over all points: rings closed/simple by definition; two rings share
   at most one point; EVERY point of a hole is inside or on the shell; NO point of a hole is
   interior to another hole; interior connected.  The last clause (connectivity of the
   face-adjacency graph of the slab decomposition, Base/Planar_C03.interior_connected) is kept as
   defined: its reading as topological connectedness of the open interior is not proved. *)
Theorem ogc_polygon_clauses_verified : forall (shell : list pt) (holes : list (list pt)),
  poly_def (shell :: holes) = true <->
  ( Forall (fun r => ring_def r = true) (shell :: holes)
    /\ ForallOrdPairs (fun a b => forall p q, on_edges (segs a) p = true -> on_edges (segs b) p = true ->
                                   on_edges (segs a) q = true -> on_edges (segs b) q = true -> pt_eq p q) (shell :: holes)
    /\ Forall (fun h => forall p, on_edges (segs h) p = true -> locate (g_poly [shell]) p <> Exterior) holes
    /\ ForallOrdPairs (fun h k => forall p, (on_edges (segs h) p = true -> locate (g_poly [k]) p <> Interior)
                                         /\ (on_edges (segs k) p = true -> locate (g_poly [h]) p <> Interior)) holes
    /\ interior_connected (map segs (shell :: holes)) = true ).
Proof. exact poly_def_meaning. Qed.
Print Assumptions ogc_polygon_clauses_verified.

(* the MultiPolygon pair clause over all points: boundaries share no piece of positive length
   (no two boundary segments have two distinct common points) and NO point of Q^2 is interior to
   both members *)
Theorem ogc_multipolygon_clauses_verified : forall A B : list (list pt),
  A <> [] -> B <> [] ->
  Forall (fun r => pts_closed r = true) A -> Forall (fun r => pts_closed r = true) B ->
  (mpoly_pair_def A B = true <->
   (forall s t, In s (flat_map segs A) -> In t (flat_map segs B) -> forall p q, common s t p -> common s t q -> pt_eq p q)
   /\ (forall p, ~ (locate (g_poly A) p = Interior /\ locate (g_poly B) p = Interior))).
Proof. exact mpoly_pair_def_meaning. Qed.
Print Assumptions ogc_multipolygon_clauses_verified.

(* QKernel.seg_seg reports an overlap exactly when the segments share two distinct points *)
Theorem seg_seg_overlap_is_shared_piece : forall s t : seg,
  (exists p q, seg_seg s t = SSOverlap p q) <-> (exists p q, common s t p /\ common s t q /\ ~ pt_eq p q).
Proof. exact seg_seg_overlap_iff. Qed.
Print Assumptions seg_seg_overlap_is_shared_piece.
Example ogc_clauses_nonvacuous :
  let sq := [(0, 0); (6, 0); (6, 6); (0, 6); (0, 0)] in
  poly_def [sq; [(0, 0); (3, 1); (1, 3); (0, 0)]] = true
  /\ poly_def [sq; [(5, 5); (8, 5); (8, 8); (5, 5)]] = false
  /\ mpoly_pair_def [sq] [[(6, 6); (8, 6); (8, 8); (6, 6)]] = true
  /\ mpoly_pair_def [sq] [[(1, 1); (2, 1); (2, 2); (1, 1)]] = false.
Proof. vm_compute. auto. Qed.

(* ---------------------------------------------------------------- the nested-ring probe, fully *)
(* The end points of a segment that does not meet a closed ring are on the same side of the ring
   (as computed by relatePointToRing): crossing parity is constant along the segment.  No topology:
   shear invariance of cross products + closed_ring_parity + an edge-by-edge argument. *)
Theorem segment_avoiding_closed_ring_same_side : forall (ps : list pt) (u v : pt),
  pts_closed ps = true ->
  (forall z, on_seg (u, v) z = true -> on_edges (segs_of_pts ps) z = false) ->
  relate_lines u (as_lines ps) false = relate_lines v (as_lines ps) false.
Proof. exact relate_lines_avoiding_segment. Qed.
Print Assumptions segment_avoiding_closed_ring_same_side.

(* If a closed simple ring A and a closed ring B have at most one common point (the single-touch
   rule, which Polygon.Validate enforces), all vertices of A that are not on B lie on the same side
   of B.  Hypotheses as_lines _ = ring_edges _ / segs_of_pts _: no repeated consecutive vertices
   (repeated vertices are covered by the dup / dupstart variants of the correspondence run). *)
Theorem touching_rings_one_side : forall A B : list pt,
  as_lines A = ring_edges A -> as_lines B = segs_of_pts B ->
  is_closed A = true -> Simple A -> pts_closed B = true ->
  (forall p q, on_edges (ring_edges A) p = true -> on_edges (segs_of_pts B) p = true ->
               on_edges (ring_edges A) q = true -> on_edges (segs_of_pts B) q = true -> pt_eq p q) ->
  forall p q, In p A -> In q A ->
  relate_lines p (as_lines B) false <> SBoundary -> relate_lines q (as_lines B) false <> SBoundary ->
  relate_lines p (as_lines B) false = relate_lines q (as_lines B) false.
Proof. exact vertices_same_side. Qed.
Print Assumptions touching_rings_one_side.

(* polygon_validate_start_invariant for the nested-ring probe: under the same hypotheses the probe
   of fixes/F3.patch returns the same side for EVERY vertex list with the same vertices as A - the
   ring started at any other vertex, or reversed.  (False of the probe of the pinned tree:
   polygon_validate_start_refuted.)  Not covered: invariance of the whole verdict of
   Polygon.Validate (shell probe, touch graph) - checked by the correspondence run. *)
Theorem nested_probe_start_invariant : forall A B : list pt,
  as_lines A = ring_edges A -> as_lines B = segs_of_pts B ->
  is_closed A = true -> Simple A -> pts_closed B = true ->
  (forall p q, on_edges (ring_edges A) p = true -> on_edges (segs_of_pts B) p = true ->
               on_edges (ring_edges A) q = true -> on_edges (segs_of_pts B) q = true -> pt_eq p q) ->
  forall vs', (forall p, In p vs' <-> In p A) ->
  first_off_boundary vs' (as_lines B) = first_off_boundary A (as_lines B).
Proof. exact nested_probe_start_invariant_lemma_full. Qed.
Print Assumptions nested_probe_start_invariant.
Example nested_probe_invariant_nonvacuous :
  let A := [(2, 2); (4, 3); (3, 4); (2, 2)] in
  let B := [(2, 2); (8, 2); (8, 8); (2, 8); (2, 2)] in
  as_lines A = ring_edges A /\ as_lines B = segs_of_pts B /\ is_closed A = true /\ is_simple A = true
  /\ pts_closed B = true /\ inter_summary (as_lines A) (as_lines B) = ISingle (2, 2)
  /\ first_off_boundary A (as_lines B) = SInterior
  /\ first_off_boundary [(4, 3); (3, 4); (2, 2); (4, 3)] (as_lines B) = SInterior.
Proof. vm_compute. repeat split; reflexivity. Qed.

(* ---------------------------------------------------------------- model-valid => ogc clauses, all points *)
(* SOUNDNESS of Polygon.Validate against the verified reference.  For finite rings without
   repeated consecutive vertices, a nil verdict of the (fixed) validation implies EVERY clause of
   ogc_valid's poly_def except connectivity: every ring is a linear ring by the definition; two
   rings share at most one point; every point of every hole is inside or on the shell; no point of
   a hole is interior to another hole (poly_def = poly_def_but_connectivity && interior_connected).
   NOT PROVED: (i) the connectivity clause in either direction (acyclic touch graph <-> connected
   face graph) - by ogc_local_complete below this is the ONLY gap between the model and poly_def
   for polygons; (ii) rings with repeated consecutive vertices; (iii) for MultiPolygon only
   multipolygon_validate_sound_partial (boundaries): "no point interior to two members" from the
   midpoint probes of validatePolyNotInsidePoly (which skip intersection-free segments) needs a
   global argument and is not attempted.  (i)-(iii) are exercised on every case of the
   correspondence run (model verdict = ogc_valid). *)
Theorem polygon_validate_sound_everywhere : forall (shell : list pt) (holes : list (list pt)),
  Forall (fun r => as_lines r = ring_edges r) (shell :: holes) ->
  Forall (fun r => ring_geom_validate r = None) (shell :: holes) ->
  poly_geom_validate nested_v1 (shell :: holes) = None ->
  Forall (fun r => has_2_distinct r = true /\ is_closed r = true /\ Simple r) (shell :: holes)
  /\ ForallOrdPairs (fun a b => forall p q, on_edges (segs a) p = true -> on_edges (segs b) p = true ->
                                 on_edges (segs a) q = true -> on_edges (segs b) q = true -> pt_eq p q) (shell :: holes)
  /\ Forall (fun h => forall p, on_edges (segs h) p = true -> locate (g_poly [shell]) p <> Exterior) holes
  /\ ForallOrdPairs (fun h k => forall p, (on_edges (segs h) p = true -> locate (g_poly [k]) p <> Interior)
                                       /\ (on_edges (segs k) p = true -> locate (g_poly [h]) p <> Interior)) holes.
Proof. exact polygon_validate_sound_everywhere_lemma. Qed.
Print Assumptions polygon_validate_sound_everywhere.

Theorem validate_polygon_sound : forall rs : list (list oxy),
  validate (VPoly rs) = None ->
  exists rings, all_fin fin_pts rs = Some rings /\
    (Forall (fun r => as_lines r = ring_edges r) rings -> poly_def_but_connectivity rings = true).
Proof. exact validate_polygon_sound_lemma. Qed.
Print Assumptions validate_polygon_sound.
Example validate_polygon_sound_nonvacuous :
  let rs := [[P 0 0; P 6 0; P 6 6; P 0 6; P 0 0]; [P 0 0; P 3 1; P 1 3; P 0 0]; [P 3 1; P 5 1; P 5 3; P 3 1]] in
  validate (VPoly rs) = None
  /\ match all_fin fin_pts rs with
     | Some rings => forallb (fun r => Nat.eqb (length (as_lines r)) (length (ring_edges r))) rings
                     && poly_def_but_connectivity rings && poly_def rings
     | None => false
     end = true.
Proof. vm_compute. auto. Qed.

(* the easy half of completeness: what ogc_valid's everywhere-clauses accept, the probes accept *)
Theorem ogc_accepts_probes : forall A B : list pt,
  (2 <= length A)%nat -> as_lines B = segs_of_pts B -> pts_closed B = true ->
  (hole_inside B A = true -> first_off_boundary A (as_lines B) <> SExterior)
  /\ (not_nested A B = true -> pts_closed A = true -> first_off_boundary A (as_lines B) <> SInterior).
Proof. exact ogc_accepts_probes_lemma. Qed.
Print Assumptions ogc_accepts_probes.

(* COMPLETENESS of all local checks: a polygon (finite rings, no repeated consecutive vertices) that
   satisfies every clause of poly_def except connectivity passes every ring check, and the model
   can reject it for one reason only: a cycle in the touch graph.  Together with
   validate_polygon_sound the gap between the model and ogc_valid for polygons is exactly
   "touch graph acyclic <-> interior_connected" (not proved; correspondence run). *)
Theorem ogc_local_complete : forall rings : list (list pt),
  Forall (fun r => as_lines r = ring_edges r) rings ->
  poly_def_but_connectivity rings = true ->
  Forall (fun r => ring_geom_validate r = None) rings
  /\ (poly_geom_validate nested_v1 rings = None \/ poly_geom_validate nested_v1 rings = Some RInteriorConnected).
Proof. exact ogc_local_complete_lemma. Qed.
Print Assumptions ogc_local_complete.
Example ogc_local_complete_nonvacuous :
  let sq := [(0, 0); (4, 0); (4, 4); (0, 4); (0, 0)] in
  let rings := [sq; [(2, 0); (3, 1); (2, 2); (1, 1); (2, 0)]; [(2, 2); (3, 3); (2, 4); (1, 3); (2, 2)]] in
  poly_def_but_connectivity rings = true /\ poly_def rings = false
  /\ poly_geom_validate nested_v1 rings = Some RInteriorConnected.
Proof. vm_compute. auto. Qed.

(* ---------------------------------------------------------------- totality and the Go panic site (F33) *)
(* [validate] is a total Gallina function: every input has a verdict.  The places where the Go
   code would panic are the explicit outcome RPanic of the model.  For the explicit panic of
   validatePolyNotInsidePoly ("already established that boundaries only intersect at points") the
   model proves the branch unreachable: when the first pass over the boundary lines of two members
   finds no overlapping pair, neither direction of the second pass finds one - "the two lines
   overlap" does not depend on the order of the arguments of intersectLine.  This is a fact of
   EXACT arithmetic (intersect_line_spec).  In float64 it is false once the cross products
   overflow (Inf - Inf = NaN counts as collinear): MULTIPOLYGON(((-1e308 -2,1 -2,0 -1,-1e308 -2)),
   ((-2 3,-2 -1,0 -1,-2 3))) made Validate and every validating decoder panic (F33; repaired by
   fixes/F33.patch: the overlap is reported as the multi-touch rule violation).  The
   correspondence class huge_polys observes "error or nil, never a panic" on such inputs. *)
Theorem slow_case_panic_unreachable : forall bi bj : list seg,
  Forall nondeg bi -> Forall nondeg bj -> snd (boundary_inter bi bj) = false ->
  poly_not_inside_poly bi bj <> Some RPanic /\ poly_not_inside_poly bj bi <> Some RPanic.
Proof. exact slow_case_panic_unreachable_lemma. Qed.
Print Assumptions slow_case_panic_unreachable.
Example slow_case_nonvacuous :
  let bi := poly_lines [[(0, 0); (4, 0); (4, 4); (0, 4); (0, 0)]] in
  let bj := poly_lines [[(4, 4); (6, 4); (6, 6); (4, 4)]] in
  boundary_inter bi bj = (true, false) /\ poly_not_inside_poly bi bj = None /\ poly_not_inside_poly bj bi = None.
Proof. vm_compute. auto. Qed.

(* ---------------------------------------------------------------- the literal IsSimple *)
(* is_simple_idx is the line-by-line transcription of LineString.IsSimple with the index walks of
   geom/type_sequence.go (getLine, firstAndLastLines, previousLine, nextLine; the R-tree search
   replaced by the scan of all j).  It computes the same boolean as is_simple, so ring_simple_spec
   and the translation / reflection / reversal / rotation theorems hold of the literal form too. *)
Theorem is_simple_idx_is_is_simple : forall ps : list pt, is_simple_idx ps = is_simple ps.
Proof. exact is_simple_idx_eq_lemma. Qed.
Print Assumptions is_simple_idx_is_is_simple.
Example is_simple_idx_nonvacuous :
  is_simple_idx [(0, 0); (0, 0); (4, 0); (4, 0); (4, 4); (0, 4); (0, 0)] = true
  /\ is_simple_idx [(0, 0); (4, 4); (4, 4); (4, 0); (0, 4); (0, 0)] = false.
Proof. vm_compute. auto. Qed.

(* ---------------------------------------------------------------- MultiPolygon, a first all-points step *)
(* Soundness of the FAST case of checkMultiPolygonConstraints for two members without holes (no
   repeated consecutive vertices): when the boundaries have no common point and each start vertex
   is outside the other member, no point of Q^2 is interior to both.
   NOT PROVED (stated as the open part of "MultiPolygon soundness"): members with holes (needs
   "a shell is not inside its own hole" with touching rings), and the slow case, where boundaries
   meet at points and validatePolyNotInsidePoly probes only the pieces of segments that carry an
   intersection point.  Both are covered by the correspondence run (verdict = ogc_valid, whose
   interiors_disjoint clause is verified for all points). *)
Theorem multipolygon_fast_case_sound_partial : forall A B : list pt,
  as_lines A = ring_edges A -> as_lines B = ring_edges B ->
  has_2_distinct A = true -> has_2_distinct B = true -> pts_closed A = true -> pts_closed B = true ->
  boundary_inter (poly_lines [A]) (poly_lines [B]) = (false, false) ->
  mpoly_pair [A] [B] = None ->
  forall q, ~ (locate (g_poly [A]) q = Interior /\ locate (g_poly [B]) q = Interior).
Proof. exact multipolygon_fast_case_sound_lemma. Qed.
Print Assumptions multipolygon_fast_case_sound_partial.
Example multipolygon_fast_case_nonvacuous :
  let A := [(0, 0); (4, 0); (4, 4); (0, 4); (0, 0)] in
  let B := [(5, 0); (8, 0); (8, 3); (5, 0)] in
  boundary_inter (poly_lines [A]) (poly_lines [B]) = (false, false) /\ mpoly_pair [A] [B] = None
  /\ mpoly_pair [A] [[(1, 1); (2, 1); (2, 2); (1, 1)]] = Some RPolysMultiTouch.
Proof. vm_compute. auto. Qed.

(* ---------------------------------------------------------------- MultiPolygon: the order of the members *)
(* The verdict of MultiPolygon.Validate (nil / error; the rule reported may differ) is the same for
   every order in which the members are listed - for the fixed and for the pinned nested-ring probe.
   Proof: every member is validated on its own; checkMultiPolygonConstraints then runs ONE callback
   per unordered pair of non-empty members, and that callback is symmetric (mpoly_pair_symmetric):
   the kind of the boundary intersection (some point part / some line part) is a property of the
   point sets (intersect_line_is_intersection), the fast case probes one start vertex in each
   direction, the slow case runs validatePolyNotInsidePoly in BOTH directions.
   A callback that probes in one direction only, the direction chosen by list position or by a
   comparison that can tie ("the member with the smaller envelope area"), breaks
   mpoly_pair_symmetric: with members of identical envelopes, one inscribed in the other,
   MULTIPOLYGON(((2 0,4 2,2 4,0 2,2 0)),((0 0,4 0,4 4,0 4,0 0))) would be accepted and the opposite
   order rejected.  On the implementation the same statement is the SPEC check repr_invariant of the
   correspondence class inscribed (every member order of every configuration). *)
Theorem mpoly_pair_symmetric : forall pi pj : list (list pt),
  mpoly_pair pi pj = None <-> mpoly_pair pj pi = None.
Proof. exact mpoly_pair_sym. Qed.
Print Assumptions mpoly_pair_symmetric.
Theorem multipolygon_validate_perm_invariant : forall ps ps' : list (list (list oxy)),
  Permutation ps ps' ->
  is_valid (VMPoly ps) = is_valid (VMPoly ps') /\ is_valid_v0 (VMPoly ps) = is_valid_v0 (VMPoly ps').
Proof. exact multipolygon_validate_perm_invariant_lemma. Qed.
Print Assumptions multipolygon_validate_perm_invariant.
Example multipolygon_perm_nonvacuous :
  let diamond := [[P 2 0; P 4 2; P 2 4; P 0 2; P 2 0]] in
  let square := [[P 0 0; P 4 0; P 4 4; P 0 4; P 0 0]] in
  let beside := [[P 4 2; P 6 0; P 8 2; P 6 4; P 4 2]] in
  Permutation [diamond; square; []] [[]; square; diamond]
  /\ is_valid (VMPoly [diamond; square]) = false /\ is_valid (VMPoly [square; diamond]) = false
  /\ is_valid (VMPoly [[]; diamond; square]) = false
  /\ is_valid (VMPoly [diamond; beside]) = true /\ is_valid (VMPoly [beside; []; diamond]) = true
  /\ mpoly_pair [[(2, 0); (4, 2); (2, 4); (0, 2); (2, 0)]] [[(0, 0); (4, 0); (4, 4); (0, 4); (0, 0)]] = Some RPolysMultiTouch
  /\ mpoly_pair [[(0, 0); (4, 0); (4, 4); (0, 4); (0, 0)]] [[(2, 0); (4, 2); (2, 4); (0, 2); (2, 0)]] = Some RPolysMultiTouch.
Proof.
  split; [apply Permutation_rev with (l := [_; _; _])|]. vm_compute. repeat split; reflexivity.
Qed.
