(* Property C03 - Validation accepts exactly the geometries that satisfy the OGC validity rules.
   Statements only; proofs are in Proofs/Validate_proofs.v.  Model: Model/Validate.v (transcription
   of the Go validation code over exact arithmetic), reference statement: Model/ValidateSpec.v. *)
From Coq Require Import QArith List Bool ZArith.
From SF Require Import Base.QKernel Model.Validate Model.ValidateSpec Proofs.Validate_proofs.
Import ListNotations.

(* LineString.Validate returns nil exactly for the empty line and for lines whose ordinates are all
   finite and which have two distinct points *)
Theorem ls_validate_spec : forall vs : list oxy,
  ls_validate vs = None <->
  (vs = [] \/ (Forall Finite vs /\ exists p q, In p vs /\ In q vs /\ p <> q)).
Proof. exact ls_validate_spec_lemma. Qed.
Print Assumptions ls_validate_spec.
Example ls_validate_spec_nonvacuous :
  ls_validate [P 1 1; P 1 1; P 2 3] = None /\ ls_validate [P 1 1; P 1 1] = Some RTwoPoints
  /\ ls_validate [P 1 1; (OFin 2, ONaN)] = Some RNaN.
Proof. vm_compute. auto. Qed.

(* F3: on the model of the pinned tree the verdict of Polygon.Validate depends on the vertex a
   ring starts at (the statement "forall rings i k, is_valid_v0 (VPoly (restart_ring i k rings)) =
   is_valid_v0 (VPoly rings)" is false), and the accepted representation is not OGC-valid *)
Theorem polygon_validate_start_refuted :
  exists (rings : list (list oxy)) (i k : nat),
    is_valid_v0 (VPoly rings) = true
    /\ is_valid_v0 (VPoly (restart_ring i k rings)) = false
    /\ ogc_valid (VPoly rings) = false.
Proof. exists f3_rings, 2%nat, 1%nat. vm_compute. auto. Qed.
Print Assumptions polygon_validate_start_refuted.
