(* Property C04 - WKB encoding is lossless and decoding is its exact inverse.
   This file contains statements only; proofs are in Proofs/WKB_proofs.v. *)
From Coq Require Import NArith List Bool.
From SF Require Import Base.Outcome Base.Bytes Base.GeomAST Model.WKB Proofs.WKB_proofs Proofs.WKB_converse.
From SF Require Proofs.WKB_image.
Import ListNotations.

(* Round trip at full strength: for every well-formed value g (all 7 types, all 4 coordinate
   types, arbitrarily nested, empty members anywhere, every 64-bit ordinate pattern including
   NaN/Inf in Z and M), for every per-element byte-order choice bo and every trailing byte string,
   decoding the encoding returns exactly g and leaves exactly the trailing bytes unread. *)
Theorem wkb_roundtrip : forall (bo : list nat -> endian) (g : geom) (rest : list N),
  wf_wkb g = true -> dec (enc_bo bo g ++ rest) = Ok (g, rest).
Proof. exact wkb_roundtrip_lemma. Qed.
Print Assumptions wkb_roundtrip.

Theorem wkb_endian_independent : forall (bo : list nat -> endian) (g : geom) (rest : list N),
  wf_wkb g = true -> dec (enc_bo bo g ++ rest) = dec (enc g ++ rest).
Proof. exact wkb_endian_independent_lemma. Qed.
Print Assumptions wkb_endian_independent.

(* encoding a decoded value yields the same bytes again *)
Theorem wkb_reencode : forall (g g' : geom) (r : list N),
  wf_wkb g = true -> dec (enc g) = Ok (g', r) -> enc g' = enc g /\ r = [].
Proof. exact wkb_reencode_lemma. Qed.
Print Assumptions wkb_reencode.

(* no information is lost: distinct values have distinct encodings, and member streams are
   unambiguous (no encoding is a prefix of another value's encoding) *)
Theorem wkb_injective : forall bo1 bo2 (g h : geom) (r1 r2 : list N),
  wf_wkb g = true -> wf_wkb h = true -> enc_bo bo1 g ++ r1 = enc_bo bo2 h ++ r2 -> g = h /\ r1 = r2.
Proof. exact wkb_injective_lemma. Qed.
Print Assumptions wkb_injective.

(* database adapters: scanning Value(g) into type t succeeds with g iff g has type t *)
Theorem wkb_scan_value : forall (t : gtype) (g : geom),
  wf_wkb g = true ->
  scan t (enc g) = if gtype_eqb (geom_type g) t then Ok g else Err EMemberType.
Proof. exact scan_value_lemma. Qed.
Print Assumptions wkb_scan_value.

(* ---- the converse direction: "decoding is the exact inverse of encoding" on EVERY accepted document,
   also foreign ones (mixed byte orders, member types that the constructors normalise).
   bytes_ok bs: every list element is a byte (< 256); necessary (see Props/C08.v, bytes_ok_needed). ---- *)

(* everything the decoder accepts is a well-formed value (the domain of wkb_roundtrip) *)
Theorem wkb_decoded_is_wellformed : forall (bs : list N) (g : geom) (r : list N),
  bytes_ok bs -> dec bs = Ok (g, r) -> wf_wkb g = true /\ bytes_ok r.
Proof. exact wkb_dec_wf_lemma. Qed.
Print Assumptions wkb_decoded_is_wellformed.

(* decode . encode . decode = decode, for every byte-order choice of the re-encoding *)
Theorem wkb_dec_enc_dec : forall bs g r, bytes_ok bs -> dec bs = Ok (g, r) ->
  forall (bo : list nat -> endian) (r' : list N), dec (enc_bo bo g ++ r') = Ok (g, r').
Proof. exact wkb_dec_enc_dec_lemma. Qed.
Print Assumptions wkb_dec_enc_dec.

Theorem wkb_reencode_fixpoint : forall bs g r, bytes_ok bs -> dec bs = Ok (g, r) -> dec (enc g) = Ok (g, []).
Proof. exact wkb_reencode_fixpoint_lemma. Qed.
Print Assumptions wkb_reencode_fixpoint.

(* decoded values are determined by their canonical encodings *)
Theorem wkb_canonical : forall bs bs' g g' r r', bytes_ok bs -> bytes_ok bs' ->
  dec bs = Ok (g, r) -> dec bs' = Ok (g', r') -> (enc g = enc g' <-> g = g').
Proof. exact wkb_canonical_lemma. Qed.
Print Assumptions wkb_canonical.

(* every accepted prefix IS an encoding (under some per-element byte-order choice) of a document tree
   whose constructor normal form is the decoded value *)
Theorem wkb_dec_is_some_encoding : forall bs g r, bytes_ok bs -> dec bs = Ok (g, r) ->
  exists (bo : list nat -> endian) (g' : geom), bs = enc_bo bo g' ++ r /\ g = WKB_image.normalise g'.
Proof. exact WKB_image.wkb_dec_is_some_encoding_lemma. Qed.
Print Assumptions wkb_dec_is_some_encoding.

(* non-vacuity: a depth-3 XYZM collection with empty members at several positions, a NaN in M
   and an infinity in Z meets the hypothesis *)
Definition ex_vtx : vtx N := Build_vtx 4607182418800017408%N 4611686018427387904%N 9218868437227405312%N go_nan.
Definition ex_geom : geom :=
  GColl XYZM [ GPoint (MkPoint XYZM None);
               GPoint (MkPoint XYZM (Some ex_vtx));
               GMPoint XYZM [MkPoint XYZM None; MkPoint XYZM (Some ex_vtx)];
               GColl XYZM [ GLine (MkLine XYZM []); GPoly (MkPoly XYZM [MkLine XYZM [ex_vtx; ex_vtx]]);
                            GColl XYZM [] ];
               GMPoly XYZM [MkPoly XYZM []] ].
Example wf_example : wf_wkb ex_geom = true.
Proof. vm_compute. reflexivity. Qed.
(* the NaN hypothesis on X/Y of full points is tight: the format reserves NaN,NaN for EMPTY *)
Example nan_xy_is_empty :
  dec (enc (GPoint (MkPoint XY (Some (Build_vtx go_nan go_nan 0%N 0%N))))) = Ok (GPoint (MkPoint XY None), []).
Proof. vm_compute. reflexivity. Qed.
