(* Property C05 - WKT text is a faithful, re-parseable rendering of every geometry.
   Statements only; proofs are in Proofs/WKT_proofs.v; the model is Model/WKT.v
   (writer: w_geom/append_wkt/as_text; lexer: lex; parser: parse; UnmarshalWKT with NoValidate:
   unmarshal_wkt).  Numbers are opaque symbols carrying the double's bits: their spelling and
   reading is Go's strconv, validated by the correspondence run, not proved.  A stretch of text
   on which text/scanner reports a lexical error (malformed literal, invalid UTF-8) is the opaque
   symbol Bad; the lexer answers it (and NUL) with the error mark TBad, which the parser meets
   lazily, exactly where wkt_lexer.go:next returns the scanner's error. *)
From Coq Require Import NArith List Bool Ascii String.
From SF Require Import Base.Outcome Base.Bytes Base.GeomAST Model.WKT Proofs.WKT_proofs.
From SF Require Import Proofs.WKT_total Proofs.WKT_trailing.
From SF Require Model.WKB.
Import ListNotations.

(* wkt_dom g: every ordinate the coordinates type uses is finite, every node carries the same
   coordinates type and unused Z/M fields are zero (true of everything the constructors build). *)

(* 1. Round trip, all 7 types x 4 coordinate types, arbitrary nesting, empty members anywhere
      (empty points in MultiPoints, empty rings, empty members of collections, typed empties):
      UnmarshalWKT(g.AsText()) is g, ordinates bit for bit (-0 included). *)
Theorem wkt_roundtrip : forall g : geomT N,
  wkt_dom g = true -> unmarshal_wkt (as_text g) = Ok g.
Proof. exact wkt_roundtrip_lemma. Qed.
Print Assumptions wkt_roundtrip.

(* 2. The produced text lexes to the OGC token sequence (Z/M/ZM tags, EMPTY at every level,
      parenthesised MultiPoint members), for EVERY geometry (no hypothesis). *)
Theorem wkt_grammar : forall g : geomT N, lex (as_text g) = Ok (toks sp_default g).
Proof. exact lex_as_text. Qed.
Print Assumptions wkt_grammar.

(* 3. AppendWKT(prefix) = prefix + AsText() for every prefix and every geometry: the look-behind
      of appendWKTEmpty never reaches the caller's bytes. *)
Theorem wkt_append_prefix : forall (prefix : list ch) (g : geomT N),
  append_wkt prefix g = prefix ++ as_text g.
Proof. exact wkt_append_prefix_lemma. Qed.
Print Assumptions wkt_append_prefix.

(* ... including the zero Geometry (after repair F4) *)
Theorem wkt_zero_geometry : forall (prefix : list ch) (a : anygeom),
  append_wkt_any prefix a = Ok (prefix ++ as_text_any a).
Proof. exact wkt_append_prefix_any_lemma. Qed.
Print Assumptions wkt_zero_geometry.

(* the code before F4: the law fails on the zero Geometry (nil-pointer panic); replayed on the Go
   code by the harness case z0 *)
Theorem wkt_zero_geometry_unfixed_refuted :
  exists prefix, append_wkt_any_unfixed prefix ZeroGeometry <> Ok (prefix ++ as_text_any ZeroGeometry).
Proof. exact wkt_zero_unfixed_refuted_lemma. Qed.
Print Assumptions wkt_zero_geometry_unfixed_refuted.

(* 4. Whitespace: lexing is a left inverse of EVERY blank-spelling of EVERY token sequence
      (blanks, tabs, newlines, carriage returns before, between and after tokens; a blank is only
      required where two words/numbers would run together), valid document or not. *)
Theorem wkt_ws_lex : forall (pre : list ascii) (items : list (tok * list ascii)),
  forallb is_ws pre = true -> spell_ok items = true ->
  lex (spell pre items) = Ok (map fst items).
Proof. exact lex_spell. Qed.
Print Assumptions wkt_ws_lex.

Theorem wkt_ws_insensitive : forall pre1 items1 pre2 items2,
  forallb is_ws pre1 = true -> spell_ok items1 = true ->
  forallb is_ws pre2 = true -> spell_ok items2 = true ->
  map fst items1 = map fst items2 ->
  unmarshal_wkt (spell pre1 items1) = unmarshal_wkt (spell pre2 items2).
Proof. exact wkt_ws_insensitive_lemma. Qed.
Print Assumptions wkt_ws_insensitive.

(* 5. Keyword case and optional MultiPoint parentheses: for every spelling sp (an arbitrary case
      choice for each type keyword, an arbitrary bare/parenthesised choice for each non-empty
      MultiPoint member) the token sequence parses to g; and so does every blank-spelling of it.
      Z, M, ZM and EMPTY are case-sensitive in the code (see the Examples). *)
Theorem wkt_case_parens_insensitive : forall (sp : spelling) (g : geomT N),
  spelling_ok sp -> wkt_dom g = true -> parse (toks sp g) = Ok g.
Proof. exact wkt_parse_toks_lemma. Qed.
Print Assumptions wkt_case_parens_insensitive.

Theorem wkt_ws_case_insensitive : forall (sp : spelling) (g : geomT N) pre items,
  spelling_ok sp -> wkt_dom g = true ->
  forallb is_ws pre = true -> spell_ok items = true -> map fst items = toks sp g ->
  unmarshal_wkt (spell pre items) = Ok g.
Proof. exact wkt_respell_lemma. Qed.
Print Assumptions wkt_ws_case_insensitive.

(* ... and on EVERY token sequence, valid or not: replacing words by case variants (letters only,
   same upper-casing, none of them Z, M, ZM or EMPTY) never changes the parser's result, errors
   included.  teq/teqs are defined in Proofs/WKT_proofs.v (Part 6). *)
Theorem wkt_case_insensitive_all : forall ts ts' : list tok,
  teqs ts ts' -> parse ts = parse ts'.
Proof. exact parse_case_insensitive. Qed.
Print Assumptions wkt_case_insensitive_all.

(* 6. Trailing tokens are rejected: a parse consumes the whole input.  [t] ranges over tokens AND
      over the lexical-error mark TBad (the end-of-input check accepts nothing but end of input). *)
Theorem wkt_trailing_rejected : forall (sp : spelling) (g : geomT N) (t : tok) (ts : list tok),
  spelling_ok sp -> wkt_dom g = true -> parse (toks sp g ++ t :: ts) = Err ESyntax.
Proof. exact wkt_trailing_rejected_lemma. Qed.
Print Assumptions wkt_trailing_rejected.

(* 6b. The same at the level of TEXT: every blank-spelling of every keyword-case / parenthesis
      variant of a geometry's text, followed by any text R that holds at least one token or one
      lexical error (lex R = Ok (t :: tr): R is not blank) and does not continue the last word
      (needed only when the spelling ends in EMPTY without a blank behind it), is rejected. *)
Theorem wkt_trailing_text_rejected :
  forall (sp : spelling) (g : geomT N) pre items (R : list ch) (t : tok) (tr : list tok),
  spelling_ok sp -> wkt_dom g = true ->
  forallb is_ws pre = true -> spell_ok items = true -> map fst items = toks sp g ->
  implb (ends_open items) (starts_delim R) = true -> lex R = Ok (t :: tr) ->
  unmarshal_wkt (spell pre items ++ R) = Err ESyntax.
Proof. exact wkt_trailing_text_rejected_lemma. Qed.
Print Assumptions wkt_trailing_text_rejected.

Theorem wkt_trailing_after_text : forall (g : geomT N) (R : list ch) (t : tok) (tr : list tok),
  wkt_dom g = true -> starts_delim R = true -> lex R = Ok (t :: tr) ->
  unmarshal_wkt (as_text g ++ R) = Err ESyntax.
Proof. exact wkt_trailing_after_text_lemma. Qed.
Print Assumptions wkt_trailing_after_text.

(* 6c. Lexical errors are never swallowed: a token stream with the error mark anywhere in it, and a
      text with NUL / a malformed literal / invalid UTF-8 anywhere in it, is not accepted - whatever
      stands before or behind (no hypothesis on the rest of the input). *)
Theorem wkt_lexical_error_token_rejected : forall (ts : list tok) (g : geomT N),
  In TBad ts -> parse ts <> Ok g.
Proof. exact wkt_parse_bad_rejected_lemma. Qed.
Print Assumptions wkt_lexical_error_token_rejected.

Theorem wkt_lexical_error_rejected : forall (s : list ch) (g : geomT N),
  existsb lex_error_ch s = true -> unmarshal_wkt s <> Ok g.
Proof. exact wkt_lexical_error_rejected_lemma. Qed.
Print Assumptions wkt_lexical_error_rejected.

(* 7. The geometry obtained from WKT equals the one obtained from the same geometry's WKB
      (cites wkb_roundtrip of property C04). *)
Theorem wkt_equals_wkb : forall g : geomT N,
  wkt_dom g = true -> WKB.wf_wkb g = true ->
  unmarshal_wkt (as_text g) = omap fst (WKB.dec (WKB.enc g)).
Proof. exact wkt_equals_wkb_lemma. Qed.
Print Assumptions wkt_equals_wkb.

(* ---------------------------------------------------------------- Examples *)
Local Open Scope N_scope.
Definition one : N := 4607182418800017408.         (* 1.0 *)
Definition mtwo : N := 13835058055282163712.       (* -2.0 *)
Definition negzero : N := 9223372036854775808.     (* -0.0 *)
Definition sub1 : N := 1.                          (* smallest subnormal *)
Definition maxf : N := 9218868437227405311.        (* math.MaxFloat64 *)
Definition v4 : vtx N := Build_vtx one mtwo negzero maxf.
Definition v2 : vtx N := Build_vtx sub1 negzero 0 0.

(* non-vacuity: a depth-3 XYZM collection with empty members at every position meets the domain *)
Definition ex_geom : geomT N :=
  GColl XYZM [ GPoint (MkPoint XYZM None); GPoint (MkPoint XYZM (Some v4));
               GMPoint XYZM [MkPoint XYZM None; MkPoint XYZM (Some v4); MkPoint XYZM None];
               GLine (MkLine XYZM []);
               GPoly (MkPoly XYZM [MkLine XYZM [v4; v4]; MkLine XYZM []]);
               GMLine XYZM [MkLine XYZM []; MkLine XYZM [v4]];
               GMPoly XYZM [MkPoly XYZM []; MkPoly XYZM [MkLine XYZM [v4]]];
               GColl XYZM [GColl XYZM []; GMPoint XYZM []; GColl XYZM [GPoint (MkPoint XYZM None)]] ].
Example dom_example : wkt_dom ex_geom = true /\ WKB.wf_wkb ex_geom = true.
Proof. split; vm_compute; reflexivity. Qed.
Example roundtrip_example : unmarshal_wkt (as_text ex_geom) = Ok ex_geom.
Proof. vm_compute. reflexivity. Qed.

(* the finiteness hypothesis is tight: an infinite ordinate is printed (as a number symbol) but
   rejected by the parser *)
Example inf_rejected :
  unmarshal_wkt (as_text (GPoint (MkPoint XY (Some (Build_vtx wk_inf one 0 0))))) = Err ESyntax.
Proof. vm_compute. reflexivity. Qed.
(* the consistency hypothesis is tight: an XY point stored inside an XYZ MultiPoint comes back as
   something else (here: an error, the member has too few ordinates) *)
Example inconsistent_not_roundtrip :
  unmarshal_wkt (as_text (GMPoint XYZ [MkPoint XY (Some v2)])) <> Ok (GMPoint XYZ [MkPoint XY (Some v2)]).
Proof. vm_compute. discriminate. Qed.

(* a non-default spelling: lower/mixed-case keywords, bare MultiPoint members *)
Definition sp_lower : spelling :=
  {| sp_kw := fun _ t => map to_lower (kw_name t); sp_bare := fun _ => true |}.
Example sp_lower_ok : spelling_ok sp_lower.
Proof. intros p t. destruct t; reflexivity. Qed.
Example sp_lower_tokens :
  toks sp_lower (GMPoint XY [MkPoint XY (Some v2); MkPoint XY None]) =
  [T (L "multipoint"); T (L "("); TNum sub1; T (L "-"); TNum 0; T (L ","); T (L "EMPTY"); T (L ")")].
Proof. vm_compute. reflexivity. Qed.

(* Z/M/ZM and EMPTY are case-sensitive, NaN/Inf literals and a leading '+' are rejected, a blank
   between sign and digits is accepted, -0 survives *)
Example lower_z_rejected :
  parse [T (L "POINT"); T (L "z"); T (L "("); TNum one; TNum one; TNum one; T (L ")")] = Err ESyntax.
Proof. vm_compute. reflexivity. Qed.
Example lower_empty_rejected : parse [T (L "POINT"); T (L "empty")] = Err ESyntax.
Proof. vm_compute. reflexivity. Qed.
Example nan_rejected : parse [T (L "POINT"); T (L "("); T (L "NaN"); TNum one; T (L ")")] = Err ESyntax.
Proof. vm_compute. reflexivity. Qed.
Example plus_rejected : parse [T (L "POINT"); T (L "("); T (L "+"); TNum one; TNum one; T (L ")")] = Err ESyntax.
Proof. vm_compute. reflexivity. Qed.
Example negzero_survives :
  unmarshal_wkt (str (L "point") ++ [C "("%char; C "-"%char; C " "%char; Num 0; C " "%char; Num one; C ")"%char])
  = Ok (GPoint (MkPoint XY (Some (Build_vtx negzero one 0 0)))).
Proof. vm_compute. reflexivity. Qed.
(* a whitespace spelling with tabs and newlines *)
Example spell_example :
  spell_ok [(T (L "Point"), [" "%char]); (T (L "EMPTY"), ["010"%char; "009"%char])] = true /\
  unmarshal_wkt (spell ["013"%char] [(T (L "Point"), [" "%char]); (T (L "EMPTY"), ["010"%char; "009"%char])])
  = Ok (GPoint (MkPoint XY None)).
Proof. split; vm_compute; reflexivity. Qed.
(* collections: an untagged collection takes its members' type; a tagged one must match *)
Example coll_untagged_takes_member_type :
  parse [T (L "GEOMETRYCOLLECTION"); T (L "("); T (L "POINT"); T (L "Z"); T (L "EMPTY"); T (L ")")]
  = Ok (GColl XYZ [GPoint (MkPoint XYZ None)]).
Proof. vm_compute. reflexivity. Qed.
Example coll_tag_mismatch :
  parse [T (L "GEOMETRYCOLLECTION"); T (L "Z"); T (L "("); T (L "POINT"); T (L "EMPTY"); T (L ")")]
  = Err ECollDims.
Proof. vm_compute. reflexivity. Qed.

(* trailing material: POINT(1 -2) followed by a blank and a malformed literal (say 09) and a whole
   second geometry; by an invalid byte directly behind the parenthesis; EMPTY followed by NUL *)
Definition ex_pt : geomT N := GPoint (MkPoint XY (Some (Build_vtx one mtwo 0 0))).
Example trailing_bad_literal :
  lex (C " "%char :: Bad :: C " "%char :: as_text ex_pt) = Ok [TBad] /\
  starts_delim (C " "%char :: Bad :: C " "%char :: as_text ex_pt) = true /\
  unmarshal_wkt (as_text ex_pt ++ C " "%char :: Bad :: C " "%char :: as_text ex_pt) = Err ESyntax.
Proof. repeat split; vm_compute; reflexivity. Qed.
Example trailing_bad_glued :
  unmarshal_wkt (as_text ex_pt ++ [Bad]) = Err ESyntax /\
  unmarshal_wkt (as_text (GPoint (MkPoint XY None)) ++ [C "000"%char; C "x"%char]) = Err ESyntax.
Proof. split; vm_compute; reflexivity. Qed.
(* hypotheses of 6b met by a spelling that ends in EMPTY with no blank behind it *)
Example trailing_text_example :
  let items := [(T (L "point"), [" "%char]); (T (L "EMPTY"), [])] in
  let R := [C ")"%char; Bad] in
  spell_ok items = true /\ map fst items = toks sp_lower (GPoint (MkPoint XY None)) /\
  implb (ends_open items) (starts_delim R) = true /\ lex R = Ok [T (L ")"); TBad] /\
  unmarshal_wkt (spell [] items ++ R) = Err ESyntax.
Proof. repeat split; vm_compute; reflexivity. Qed.
(* the separation hypothesis of 6b is not idle: EMPTY continued by a letter is another word
   (still an error, but of the header, not of the end-of-input check) *)
Example trailing_glue_is_another_word :
  lex (str (L "POINT EMPTY") ++ [C "x"%char]) = Ok [T (L "POINT"); T (L "EMPTYx")].
Proof. vm_compute. reflexivity. Qed.
(* the end-of-input check must tell the end-of-input error from every other lexer error: the
   variant that takes any error of the lexer for the end of input accepts a text with garbage
   behind the geometry *)
Definition eof_check_any_error {A} (a : A) (r : list tok) : outcome A :=
  match t_next r with Ok _ => Err ESyntax | Err _ => Ok a | Panic p => Panic p end.
Example eof_check_distinguishes :
  eof_check ex_pt [TBad; T (L "LINESTRING")] = Err ESyntax /\
  eof_check_any_error ex_pt [TBad; T (L "LINESTRING")] = Ok ex_pt /\
  eof_check ex_pt [] = Ok ex_pt.
Proof. repeat split. Qed.

(* case variants in the sense of wkt_case_insensitive_all *)
Example teqs_example :
  teqs [T (L "PoLyGoN"); T (L "EMPTY")] [T (L "polygon"); T (L "EMPTY")].
Proof.
  constructor; [apply teq_case; reflexivity|]. constructor; [apply teq_refl|constructor].
Qed.
