(* Property C06 - GeoJSON output is valid RFC 7946 and round-trips up to the format's limits.
   This file contains statements only; proofs are in Proofs/GeoJSON_proofs.v.
   Model: Model/GeoJSON.v (carrier N = float64 bit patterns; JSON numbers are opaque bit patterns,
   their spelling by strconv / encoding/json is checked by the correspondence run). *)
From Coq Require Import Ascii String.
From Coq Require Import NArith List Bool.
From SF Require Import Base.Outcome Base.GeomAST Model.GeoJSON Proofs.GeoJSON_proofs.
Import ListNotations.

(* ---- the output is JSON with the RFC 7946 structure --------------------------------------- *)

(* The hand-written byte writers produce exactly the compact JSON spelling of the document tree
   to_json g, for every geometry (all 7 types, any nesting, any coordinates types): the text is
   syntactically valid JSON and carries the members and nesting of to_json by construction.
   (json_print spells strings without escapes, which is exact for the plain strings of to_json.) *)
Theorem gj_marshal_is_json : forall g : geom, gj_print g = json_print (to_json g).
Proof. exact gj_print_is_json_lemma. Qed.
Print Assumptions gj_marshal_is_json.

Theorem gj_strings_plain : forall g : geom, json_strings_plain (to_json g) = true.
Proof. exact to_json_plain. Qed.
Print Assumptions gj_strings_plain.

(* RFC 7946 3.1: exactly the members "type" and "coordinates"/"geometries", the type names of the
   RFC, coordinates nested to the depth of the type, positions of 2 or 3 numbers; recursively. *)
Theorem gj_rfc_members : forall g : geom, rfc_geometry (to_json g) = true.
Proof. exact rfc_geometry_lemma. Qed.
Print Assumptions gj_rfc_members.

(* every position array has 2 or 3 elements - for every value, consistent or not ... *)
Theorem gj_positions_2_or_3 : forall g : geom,
  Forall (fun n => n = 2 \/ n = 3) (pos_lens (to_json g)).
Proof. exact gj_positions_2_or_3_lemma. Qed.
Print Assumptions gj_positions_2_or_3.

(* ... and all positions of one document have the same length when every node carries the same
   coordinates type (3 iff that type has Z; M is never written) *)
Theorem gj_positions_uniform : forall g : geom,
  same_ct g = true ->
  positions_ok (to_json g) = true /\
  Forall (eq (if has_z (geom_ct g) then 3 else 2)) (pos_lens (to_json g)).
Proof. intros g H. split; [exact (positions_ok_lemma g H) | exact (pos_lens_same (geom_ct g) g H)]. Qed.
Print Assumptions gj_positions_uniform.

(* ---- round trip ---------------------------------------------------------------------------- *)

(* Decoding the output returns the input with exactly the losses of gj_lossy (a function, see
   Model/GeoJSON.v): M dropped everywhere; Z kept iff the value has Z and contains at least one
   position; empty Points removed from MultiPoints; everything else - X, Y, Z bit patterns, member
   order, empty members of every other kind, nesting - unchanged.  For every nesting depth. *)
Theorem gj_roundtrip : forall g : geom,
  same_ct g = true -> gj_unmarshal (to_json g) = Ok (gj_lossy g).
Proof. exact gj_roundtrip_lemma. Qed.
Print Assumptions gj_roundtrip.

Theorem gj_lossy_idem : forall g : geom, gj_lossy (gj_lossy g) = gj_lossy g.
Proof. exact gj_lossy_idem_lemma. Qed.
Print Assumptions gj_lossy_idem.

(* the decoded value is again in the domain, and is a consistent value (unused fields zero) *)
Theorem gj_lossy_consistent : forall g : geom,
  same_ct (gj_lossy g) = true /\ consistent (N.eqb 0) (gj_lossy g) = true.
Proof. exact gj_lossy_same_ct. Qed.
Print Assumptions gj_lossy_consistent.

(* ---- concrete types --------------------------------------------------------------------------- *)

(* UnmarshalJSON of a concrete type accepts a document iff the generic decoder accepts it and the
   document's "type" is that type; it then returns the same value. *)
Theorem gj_concrete_type : forall (t : gtype) (j : json) (g : geom),
  unmarshal_as t j = Ok g <-> gj_unmarshal j = Ok g /\ doc_type j = Some t.
Proof. exact gj_concrete_type_lemma. Qed.
Print Assumptions gj_concrete_type.

Theorem gj_concrete_own_output : forall (t : gtype) (g : geom),
  same_ct g = true ->
  unmarshal_as t (to_json g) = if gtype_eqb (geom_type g) t then Ok (gj_lossy g) else Err EMemberType.
Proof. exact gj_concrete_own_lemma. Qed.
Print Assumptions gj_concrete_own_output.

(* ---- arbitrary documents: dimension rule, extra ordinates, consistency ------------------------- *)

(* Statements about arbitrary input are made on the decoder's own intermediate form gjn (the
   geojsonPoint ... geojsonGeometryCollection values of geojson_unmarshal.go), which every document
   passes through: gj_unmarshal j = decode_node j >>= decode_geojson >>= unmarshal_gjn. *)

(* ordinates beyond the third are ignored: cutting every position to its first three elements
   changes nothing - not the result, not the errors.  (At the text level the extra elements still
   have to be numbers or null: encoding/json type-checks them before this stage.) *)
Theorem gj_extra_ordinates_ignored : forall t : gjn, unmarshal_gjn (trunc3 t) = unmarshal_gjn t.
Proof. exact gj_extra_ignored_lemma. Qed.
Print Assumptions gj_extra_ordinates_ignored.

(* the dimension decision is global: 3D iff no position has length 2 and some position has
   length >= 3 (lens = the position lengths of the whole document as detect collects them) *)
Theorem gj_dimension_rule : forall (t : gjn) (lens : list nat) (g : geom),
  detect t [] = Ok lens -> unmarshal_gjn t = Ok g ->
  geom_ct g = (if negb (existsb (Nat.eqb 2) lens) && existsb (Nat.leb 3) lens then XYZ else XY).
Proof. exact gj_dimension_rule_lemma. Qed.
Print Assumptions gj_dimension_rule.

(* one 2-element position anywhere (mixed 2D/3D input) makes every node of the result 2D *)
Theorem gj_mixed_is_2d : forall (t : gjn) (lens : list nat) (g : geom),
  detect t [] = Ok lens -> In 2 lens -> unmarshal_gjn t = Ok g -> geom_ok (N.eqb 0) XY g = true.
Proof. exact gj_mixed_is_2d_lemma. Qed.
Print Assumptions gj_mixed_is_2d.

(* whatever document is accepted, the value is consistent (one coordinates type at every node,
   unused fields zero) and has no M *)
Theorem gj_unmarshal_consistent : forall (j : json) (g : geom),
  gj_unmarshal j = Ok g -> consistent (N.eqb 0) g = true /\ has_m (geom_ct g) = false.
Proof. exact gj_unmarshal_consistent_lemma. Qed.
Print Assumptions gj_unmarshal_consistent.

(* The decoder is total: the index expressions fs[0], fs[1], fs[2], c[j] of the construction pass
   (kept as Panic PIndex branches in the model) are unreachable - for every JSON tree ... *)
Theorem gj_unmarshal_no_panic : forall j : json, is_panic (gj_unmarshal j) = false.
Proof. exact gj_unmarshal_no_panic_lemma. Qed.
Print Assumptions gj_unmarshal_no_panic.

(* ... and the only errors are those of the syntactic stages and of the length pass: once the
   length pass accepts, a value is always built *)
Theorem gj_construction_total : forall (t : gjn) (lens : list nat),
  detect t [] = Ok lens -> exists g, unmarshal_gjn t = Ok g.
Proof. exact unmarshal_gjn_total_lemma. Qed.
Print Assumptions gj_construction_total.

(* ---- Features ---------------------------------------------------------------------------------- *)

(* Go maps are modelled by their normal form (keys sorted, last duplicate wins, recursively):
   jnorm is what json.Marshal writes for a map and what decoding into interface{} builds. *)
Theorem jnorm_idem : forall j : json, jnorm (jnorm j) = jnorm j.
Proof. exact jnorm_idem_lemma. Qed.
Print Assumptions jnorm_idem.

Theorem jnorm_fixes_canonical : forall j : json, canon j = true -> jnorm j = j.
Proof. exact canon_jnorm. Qed.
Print Assumptions jnorm_fixes_canonical.

(* a Feature comes back with its geometry up to gj_lossy, its id, its properties (nil becomes the
   empty object) and its foreign members, each in normal form *)
Theorem feature_roundtrip : forall f : feature,
  feat_ok f = true -> feat_unmarshal (feat_to_json f) = Ok (feat_lossy f).
Proof. exact feature_roundtrip_lemma. Qed.
Print Assumptions feature_roundtrip.

(* ... i.e. verbatim for values that are already Go values in normal form *)
Theorem feature_verbatim : forall g id props fm,
  canon id = true -> canon (JObj (match props with Some p => p | None => [] end)) = true ->
  canon (JObj fm) = true ->
  feat_lossy (MkFeature g id props fm) =
  MkFeature (gj_lossy g) id (Some (match props with Some p => p | None => [] end)) fm.
Proof. exact feature_verbatim_lemma. Qed.
Print Assumptions feature_verbatim.

Theorem feature_collection_roundtrip : forall fs : list feature,
  forallb feat_ok fs = true -> fc_unmarshal (fc_to_json fs) = Ok (map feat_lossy fs).
Proof. exact fc_roundtrip_lemma. Qed.
Print Assumptions feature_collection_roundtrip.

(* the byte surgery that splices the foreign members into the struct's object yields the JSON
   spelling of the joined object *)
Theorem feature_splice_is_json : forall a b : list (str * json),
  a <> [] -> b <> [] ->
  splice (json_print (JObj a)) (json_print (JObj b)) = json_print (JObj (a ++ b)).
Proof. exact splice_lemma. Qed.
Print Assumptions feature_splice_is_json.

(* ---- non-vacuity and tightness ------------------------------------------------------------------ *)
Definition ex_v (x y z m : N) : vtx N := Build_vtx x y z m.
(* depth-3 XYZM collection with empty members of several kinds *)
Definition ex_geom : geom :=
  GColl XYZM [ GPoint (MkPoint XYZM None);
               GMPoint XYZM [MkPoint XYZM None; MkPoint XYZM (Some (ex_v 1 2 3 4)); MkPoint XYZM None];
               GColl XYZM [ GLine (MkLine XYZM []); GPoly (MkPoly XYZM [MkLine XYZM [ex_v 5 6 7 8; ex_v 9 10 11 12]]);
                            GColl XYZM [] ];
               GMPoly XYZM [MkPoly XYZM []] ].
Example ex_in_domain : same_ct ex_geom = true.
Proof. vm_compute. reflexivity. Qed.
Example ex_losses :
  gj_lossy ex_geom =
  GColl XYZ [ GPoint (MkPoint XYZ None);
              GMPoint XYZ [MkPoint XYZ (Some (ex_v 1 2 3 0))];
              GColl XYZ [ GLine (MkLine XYZ []); GPoly (MkPoly XYZ [MkLine XYZ [ex_v 5 6 7 0; ex_v 9 10 11 0]]);
                          GColl XYZ [] ];
              GMPoly XYZ [MkPoly XYZ []] ].
Proof. vm_compute. reflexivity. Qed.
(* Z is lost exactly when nothing carries it *)
Example ex_z_lost_when_empty :
  gj_lossy (GColl XYZ [GPoint (MkPoint XYZ None); GLine (MkLine XYZ [])]) =
  GColl XY [GPoint (MkPoint XY None); GLine (MkLine XY [])].
Proof. vm_compute. reflexivity. Qed.
(* a mixed document: one 2D position flattens the 3D one *)
Example ex_mixed :
  unmarshal_gjn (NLine [[1; 2; 3]; [4; 5]]%N) = Ok (GLine (MkLine XY [ex_v 1 2 0 0; ex_v 4 5 0 0])).
Proof. vm_compute. reflexivity. Qed.
(* the domain hypothesis of the round trip is needed: a value whose nodes disagree loses more *)
Example ex_inconsistent_loses_z :
  gj_unmarshal (to_json (GColl XYZ [GPoint (MkPoint XYZ (Some (ex_v 1 2 3 0))); GPoint (MkPoint XY (Some (ex_v 4 5 0 0)))]))
  = Ok (GColl XY [GPoint (MkPoint XY (Some (ex_v 1 2 0 0))); GPoint (MkPoint XY (Some (ex_v 4 5 0 0)))]).
Proof. vm_compute. reflexivity. Qed.
Definition ex_feature : feature :=
  MkFeature ex_geom (JNum 7) None [(bytes_of "bbox"%string, JArr [JNum 1; JNum 2]); (bytes_of "a"%string, JObj [(bytes_of "z"%string, JNull); (bytes_of "b"%string, JBool true)])].
Example ex_feature_ok : feat_ok ex_feature = true.
Proof. vm_compute. reflexivity. Qed.
