(* Property C07 - TWKB decode(encode(g,p)) is g rounded to p places; its headers tell the truth.
   Statements only; proofs are in Base/Varint.v and Proofs/TWKB_proofs.v. *)
From Coq Require Import NArith ZArith List Bool.
From SF Require Import Base.Outcome Base.Bytes Base.GeomAST Base.Varint Model.TWKB Proofs.TWKB_proofs.
Import ListNotations.

(* LEB128: every uint64 survives, whatever follows it *)
Theorem uvarint_roundtrip : forall (x : N) (rest : list N),
  (x < two64N)%N -> uv_dec (uv_enc x ++ rest) = VOk x rest.
Proof. exact uvarint_roundtrip_lemma. Qed.
Print Assumptions uvarint_roundtrip.

(* zig-zag: every int64 survives and its code fits a uint64 *)
Theorem zigzag_roundtrip : forall x : Z, in_i64 x -> zz_dec (zz_enc x) = x /\ (zz_enc x < two64N)%N.
Proof. exact zigzag_roundtrip_lemma. Qed.
Print Assumptions zigzag_roundtrip.

Theorem svarint_roundtrip : forall (x : Z) (rest : list N),
  in_i64 x -> sv_dec (sv_enc x ++ rest) = SOk x rest.
Proof. exact svarint_roundtrip_lemma. Qed.
Print Assumptions svarint_roundtrip.
