(* Property C07 - TWKB decode(encode(g,p)) is g rounded to p places; its headers tell the truth.
   Statements only; proofs are in Base/Varint.v, Proofs/TWKB_proofs.v, Proofs/TWKBQuant_proofs.v.
   The theorems are about the Gallina model Model/TWKB.v (integer layer: ordinates are the already
   quantised int64 values) of geom/twkb_write.go and geom/twkb_parser.go with the repairs
   fixes/F5 F6 F7 F15 F16 F17 F18 F31 F70 F71 F72 applied.  The float <-> integer step (Model/TWKBQuant.v) is
   tied to the implementation bit for bit by the correspondence run, not by a theorem. *)
From Coq Require Import NArith ZArith List Bool.
From SF Require Import Base.Outcome Base.Bytes Base.GeomAST Base.Varint Model.TWKB Model.TWKBQuant
                       Proofs.TWKB_proofs Proofs.TWKBQuant_proofs Proofs.TWKBQuant_grid.
From Coq Require Import QArith.
Import ListNotations.

(* ------------------------------------------------------------------ varints *)
(* LEB128: every uint64 survives, whatever follows it *)
Theorem uvarint_roundtrip : forall (x : N) (rest : list N),
  (x < two64N)%N -> uv_dec (uv_enc x ++ rest) = VOk x rest.
Proof. exact uvarint_roundtrip_lemma. Qed.
Print Assumptions uvarint_roundtrip.

(* zig-zag: every int64 survives and its code fits a uint64 *)
Theorem zigzag_roundtrip : forall x : Z, in_i64 x -> zz_dec (zz_enc x) = x /\ (zz_enc x < two64N)%N.
Proof. exact zigzag_roundtrip_lemma. Qed.
Print Assumptions zigzag_roundtrip.

Theorem svarint_roundtrip : forall (x : Z) (rest : list N),
  in_i64 x -> sv_dec (sv_enc x ++ rest) = SOk x rest.
Proof. exact svarint_roundtrip_lemma. Qed.
Print Assumptions svarint_roundtrip.

(* delta coding is exact in wrapping int64 arithmetic: ref + (v - ref) = v *)
Theorem delta_wrap_exact : forall v r : Z, in_i64 v -> wrap64 (r + wrap64 (v - r)) = v.
Proof. exact wrap64_delta. Qed.
Print Assumptions delta_wrap_exact.

(* ------------------------------------------------------------------ round trip *)
(* For every geometry of the domain wf_twkb (all 7 types, all 4 coordinate types, arbitrary
   nesting, empty members anywhere, every int64 ordinate) and every admissible option set
   (precXY -8..7, precZ/M 0..7, every subset of size/bbox/ids/closeRings), MarshalTWKB succeeds and
   UnmarshalTWKB of its output returns exactly the tolerated image of the input together with the
   header facts the property promises (kind, precisions, coordinate type, size = number of bytes,
   bounding box = envelope and Z/M ranges, ID list verbatim).  The proof is an induction over
   nested geometries; the running reference point, the bounding-box accumulator and the sub-writer /
   sub-parser per collection member are threaded through it.
   Visible hypotheses: wf_twkb (ring closure after rounding: finding F19; ordinates within int64:
   F18; no empty Point inside a non-empty MultiPoint: F5; counts below 2^63) and the document
   being shorter than 2^63 bytes (a Go slice always is). *)
Theorem twkb_roundtrip : forall (o : topts) (g : zgeom),
  wf_twkb o g = true ->
  exists b, tmarshal o g = Ok b /\
    ((Z.of_nat (length b) < two63)%Z ->
     tdec b = Ok (tolerated g, expected_info o g (length b))).
Proof. exact twkb_roundtrip_lemma. Qed.
Print Assumptions twkb_roundtrip.

(* the executable statement S that the driver evaluates on the IMPLEMENTATION's bytes (twkb_ok:
   decodes, to the tolerated image, with the expected header facts) is true of the model's bytes *)
Theorem twkb_ok_model : forall (o : topts) (g : zgeom) (b : list N),
  wf_twkb o g = true -> tmarshal o g = Ok b -> (Z.of_nat (length b) < two63)%Z -> twkb_ok o g b = true.
Proof. exact twkb_ok_model_lemma. Qed.
Print Assumptions twkb_ok_model.

(* ------------------------------------------------------------------ headers *)
(* size header: UnmarshalTWKBSize returns the number of bytes of the whole document *)
Theorem twkb_size_header : forall (o : topts) (g : zgeom) (b : list N),
  wf_twkb o g = true -> tmarshal o g = Ok b -> (Z.of_nat (length b) < two63)%Z ->
  o_size o = true -> is_empty g = false -> tread_size b = Ok (Some (Z.of_nat (length b))).
Proof. exact twkb_size_header_lemma. Qed.
Print Assumptions twkb_size_header.

(* bounding-box header: UnmarshalTWKBEnvelope returns, per dimension, the minimum and maximum
   over all vertices of g (also for collections: fix F6) *)
Theorem twkb_bbox_header : forall (o : topts) (g : zgeom) (b : list N),
  wf_twkb o g = true -> tmarshal o g = Ok b -> (Z.of_nat (length b) < two63)%Z ->
  o_bbox o = true -> is_empty g = false ->
  exists mm, env_of (geom_pts g) = Some mm /\ tread_env b = Ok (Some (geom_ct g, mm)).
Proof. exact twkb_bbox_header_lemma. Qed.
Print Assumptions twkb_bbox_header.

(* all three header-only readers on the writer's output: size, envelope, ID list verbatim *)
Theorem twkb_headers : forall (o : topts) (g : zgeom) (b : list N),
  wf_twkb o g = true -> tmarshal o g = Ok b -> (Z.of_nat (length b) < two63)%Z ->
  let i := expected_info o g (length b) in
  tread_size b = Ok (i_size i) /\ tread_env b = env_view i /\
  (is_empty g = false ->
   match g with GMPoint _ _ | GMLine _ _ | GMPoly _ _ | GColl _ _ => True | _ => False end ->
   tread_ids b = Ok (i_ids i)).
Proof. exact twkb_headers_lemma. Qed.
Print Assumptions twkb_headers.

(* for EVERY byte string that decodes: the header-only readers agree with the full decode *)
Theorem twkb_header_readers_agree : forall (b : list N) (g : zgeom) (i : tinfo),
  tdec b = Ok (g, i) ->
  tread_size b = Ok (i_size i) /\ tread_env b = env_view i /\
  (i_empty i = false -> (4 <= i_kind i)%N -> tread_ids b = Ok (i_ids i)).
Proof. exact twkb_header_readers_agree_lemma. Qed.
Print Assumptions twkb_header_readers_agree.

(* ------------------------------------------------------------------ rejection *)
(* out-of-range precisions, an ID list of the wrong length, and an ID list on a type that cannot
   carry one (fix F15) are refused *)
Theorem twkb_rejects : forall (o : topts) (g : zgeom),
  must_reject o g = true -> exists e, tmarshal o g = Err e.
Proof. exact twkb_rejects_lemma. Qed.
Print Assumptions twkb_rejects.

(* ------------------------------------------------------------------ used by C08 *)
(* The TWKB parser is total on arbitrary bytes: it never panics, never stops for lack of fuel
   (so the model's Err is a genuine error return of the code), and the bytes it requests through
   count-sized make() calls (parsePointArray's []float64, parseIDList's []int64; with fix F7) are
   bounded by 8 bytes per input byte.  Proved once for every ordinate carrier (dec_full_total)
   and instantiated for the integer layer (tdec) and for UnmarshalTWKB itself (unmarshal_f). *)
Theorem tdec_no_panic : forall (bs : list N) (p : panicc), tdec bs <> Panic p.
Proof. exact tdec_no_panic_lemma. Qed.
Print Assumptions tdec_no_panic.

Theorem tdec_fuel_enough : forall bs : list N, tdec bs <> Err EFuel.
Proof. exact tdec_fuel_enough_lemma. Qed.
Print Assumptions tdec_fuel_enough.

Theorem tdec_alloc_linear : forall bs : list N, (tdec_alloc bs <= 8 * N.of_nat (length bs))%N.
Proof. exact tdec_alloc_linear_lemma. Qed.
Print Assumptions tdec_alloc_linear.

Theorem unmarshal_f_no_panic : forall (bs : list N) (p : panicc), unmarshal_f bs <> Panic p.
Proof. exact unmarshal_f_no_panic_lemma. Qed.
Print Assumptions unmarshal_f_no_panic.

Theorem unmarshal_f_fuel_enough : forall bs : list N, unmarshal_f bs <> Err EFuel.
Proof. exact unmarshal_f_fuel_enough_lemma. Qed.
Print Assumptions unmarshal_f_fuel_enough.

Theorem unmarshal_f_alloc_linear : forall bs : list N,
  (match dec_full N 0%N N.eqb dequant bs with TOk _ s => s_alloc s | TErr _ a => a | TPanic _ a => a end
   <= 8 * N.of_nat (length bs))%N.
Proof. exact unmarshal_f_alloc_linear_lemma. Qed.
Print Assumptions unmarshal_f_alloc_linear.

(* ------------------------------------------------------------------ quantisation layer *)
(* Model/TWKBQuant.v mirrors the code: quant p x = int64(math.Round(fl(x * 10^p))) (fl(x / 10^-p) for
   p < 0, fix F71) and dequant p k = fl(float64(k) / 10^p) (fl(float64(k) * 10^-p) for p < 0), where fl
   is round-to-nearest-even to binary64 defined on integers (rne). dval m e = m * 2^e and
   scaleQ p = 10^p are rationals; eps53 = 2^-53. *)

(* one correctly rounded operation has relative error at most 2^-53 (results in the normal range) *)
Theorem rne_relative_error : forall (n d m e : Z),
  (0 < n)%Z -> (0 < d)%Z -> (d <= n * 2 ^ 1000)%Z -> rne n d = Some (m, e) ->
  (- (qfrac n d * eps53) <= dval m e - qfrac n d <= qfrac n d * eps53)%Q /\ (p52 <= m < p53)%Z.
Proof.
  intros n d m e Hn Hd Hnd H. rewrite rne_unfold in H. destruct (rne_core n d) as [m' e'] eqn:E.
  destruct (971 <? e')%Z; [discriminate|]. inversion H; subst.
  destruct (rne_core_Q n d m e Hn Hd Hnd E) as [H1 [H2 _]]. split; assumption.
Qed.
Print Assumptions rne_relative_error.

(* "rounded to p places": the integer the writer derives from a finite double x = (-1)^s m 2^e is
   within 1/2 of the ROUNDED product fl(|x| 10^p), which is within 2^-53 |x| 10^p of the exact
   product; so | |k| - |x| 10^p | <= 1/2 + 2^-53 |x| 10^p, and k has the sign of x. (e >= -970 only
   excludes |x| < 2^-900, where the product would be subnormal.) *)
Theorem quant_spec : forall (p : Z) (bits : N) (s : bool) (m e k : Z),
  fdec bits = Some (s, m, e) -> (-970 <= e)%Z -> (-8 <= p <= 8)%Z -> quant p bits = Ok k ->
  let t := (dval m e * scaleQ p)%Q in
  let sk := inject_Z (if s then - k else k) in
  (- (1 # 2) - t * eps53 <= sk - t <= (1 # 2) + t * eps53)%Q.
Proof. exact quant_spec_lemma. Qed.
Print Assumptions quant_spec.

(* the decoded double is k / 10^p up to ONE rounding: float64(k) is exact, the division is correctly
   rounded *)
Theorem dequant_spec : forall (p k : Z),
  (-8 <= p <= 7)%Z -> (0 < Z.abs k < 2 ^ 40)%Z ->
  exists m e, fdec (dequant p k) = Some ((k <? 0)%Z, m, e) /\
    let t := (inject_Z (Z.abs k) / scaleQ p)%Q in
    (- (t * eps53) <= dval m e - t <= t * eps53)%Q.
Proof. exact dequant_spec_lemma. Qed.
Print Assumptions dequant_spec.

(* "exactly g when g already lies on the grid": the grid points of precision p, as the parser
   produces them, are the doubles dequant p k; encoding such a double gives back exactly k, for
   every |k| < 2^40 and every admissible precision (so decode(encode(decode(b))) = decode(b)) *)
Theorem quant_dequant_grid : forall (p k : Z),
  (-8 <= p <= 7)%Z -> (Z.abs k < 2 ^ 40)%Z -> quant p (dequant p k) = Ok k.
Proof. exact quant_dequant_lemma. Qed.
Print Assumptions quant_dequant_grid.

(* ------------------------------------------------------------------ examples *)
Local Open Scope Z_scope.
Definition v4 x y z m : vtx Z := Build_vtx x y z m.
Definition sq (x y : Z) : lineT Z :=
  MkLine XYZM [v4 x y 1 (-2); v4 (x + 10) y 3 4; v4 (x + 10) (y + 10) 5 6; v4 x (y + 10) 7 8; v4 x y 1 (-2)].
(* a depth-3 XYZM collection: empty members of five types at several positions, a MultiPolygon
   with an empty member, a polygon with a hole, a huge and a negative ordinate *)
Definition ex_geom : zgeom :=
  GColl XYZM [ GPoint (MkPoint XYZM None);
               GPoint (MkPoint XYZM (Some (v4 9223372036854775807 (-9223372036854775808) 0 5)));
               GMPoint XYZM [MkPoint XYZM (Some (v4 1 2 3 4)); MkPoint XYZM (Some (v4 (-5) 6 7 8))];
               GColl XYZM [ GLine (MkLine XYZM []);
                            GPoly (MkPoly XYZM [sq 0 0; MkLine XYZM [v4 2 2 0 0; v4 3 2 0 0; v4 3 3 0 0; v4 2 2 0 0]]);
                            GColl XYZM []; GMLine XYZM [MkLine XYZM []; MkLine XYZM [v4 1 1 1 1; v4 2 2 2 2]] ];
               GMPoly XYZM [MkPoly XYZM []; MkPoly XYZM [sq 100 100]] ].
Definition ex_opts : topts :=
  {| o_pxy := -3; o_pz := Some 7; o_pm := Some 0; o_size := true; o_bbox := true; o_close := false;
     o_ids := [5; -6; 9223372036854775807; 0; -9223372036854775808] |}.
(* the hypotheses of twkb_roundtrip are satisfiable by a non-trivial value ... *)
Example wf_example : wf_twkb ex_opts ex_geom = true.
Proof. vm_compute. reflexivity. Qed.
(* ... and on it the executable statement holds by computation as well *)
Example roundtrip_example :
  match tmarshal ex_opts ex_geom with Ok b => twkb_ok ex_opts ex_geom b | _ => false end = true.
Proof. vm_compute. reflexivity. Qed.

Definition o0 : topts :=
  {| o_pxy := 0; o_pz := None; o_pm := None; o_size := false; o_bbox := false; o_close := false; o_ids := [] |}.
Definition v2 x y : vtx Z := Build_vtx x y 0 0.

(* F19: the ring hypothesis is tight.  POLYGON((0 0,10 0,10 10,0.4 0.4,0 0)) at precision 0 is the
   integer ring below; it is outside wf_twkb only because of ring_dom, and the decoded ring has
   lost a vertex *)
Definition f19_geom : zgeom := GPoly (MkPoly XY [MkLine XY [v2 0 0; v2 10 0; v2 10 10; v2 0 0; v2 0 0]]).
Example f19_outside_domain : wf_twkb o0 f19_geom = false /\ wf_twkb_noring o0 f19_geom = true.
Proof. vm_compute. split; reflexivity. Qed.
Example f19_ring_hypothesis_tight :
  match tmarshal o0 f19_geom with Ok b => twkb_ok o0 f19_geom b | _ => true end = false.
Proof. vm_compute. reflexivity. Qed.
(* with TWKBCloseRings the same ring is inside the domain and survives *)
Example f19_close_rings_ok :
  let o := {| o_pxy := 0; o_pz := None; o_pm := None; o_size := false; o_bbox := false;
              o_close := true; o_ids := [] |} in
  wf_twkb o f19_geom = true.
Proof. vm_compute. reflexivity. Qed.

(* F18: the int64 hypothesis is tight: 2^63 is refused (before the repair: silent garbage) *)
Example i64_hypothesis_tight :
  tmarshal o0 (GPoint (MkPoint XY (Some (v2 9223372036854775808 0)))) = Err EOther.
Proof. vm_compute. reflexivity. Qed.

(* F5: an empty Point inside a non-empty MultiPoint is outside the domain and is refused *)
Definition f5_geom : zgeom := GMPoint XY [MkPoint XY None; MkPoint XY (Some (v2 1 2))].
Example f5_refused : wf_twkb o0 f5_geom = false /\ tmarshal o0 f5_geom = Err EOther.
Proof. vm_compute. split; reflexivity. Qed.

(* F16/F17: Z survives an empty sibling (the round trip theorem covers it; here by computation) *)
Example f17_z_survives :
  let g := GColl XYZ [GPoint (MkPoint XYZ (Some (Build_vtx 1 2 3 0))); GLine (MkLine XYZ [])] in
  match tmarshal o0 g with Ok b => tdec b | _ => Err EOther end =
  Ok (g, expected_info o0 g 12).
Proof. vm_compute. reflexivity. Qed.

(* F7 witness: a LineString announcing 2^62 points is an error, not a panic, and allocates nothing *)
Example f7_witness :
  tdec [2; 0; 255; 255; 255; 255; 255; 255; 255; 255; 63]%N = Err EEOF /\
  tdec_alloc [2; 0; 255; 255; 255; 255; 255; 255; 255; 255; 63]%N = 0%N.
Proof. vm_compute. split; reflexivity. Qed.

(* rejection is not vacuous *)
Example rejects_example :
  must_reject {| o_pxy := 8; o_pz := None; o_pm := None; o_size := false; o_bbox := false;
                 o_close := false; o_ids := [] |} f5_geom = true /\
  must_reject {| o_pxy := 0; o_pz := None; o_pm := None; o_size := false; o_bbox := false;
                 o_close := false; o_ids := [7] |} (GPoint (MkPoint XY (Some (v2 1 2)))) = true.
Proof. vm_compute. split; reflexivity. Qed.

(* F72: an ID list whose length differs from the member count is refused also for an empty
   geometry (MULTIPOINT EMPTY with two IDs) *)
Example f72_empty_with_ids :
  let o := {| o_pxy := 0; o_pz := None; o_pm := None; o_size := false; o_bbox := false;
              o_close := false; o_ids := [1; 2] |} in
  must_reject o (GMPoint XY []) = true /\ tmarshal o (GMPoint XY []) = Err EOther.
Proof. vm_compute. split; reflexivity. Qed.

(* F73: a ring whose closing vertex differs from the first vertex in Z only (valid for Validate,
   which looks at X and Y) is outside wf_twkb, and the statement is false of it with and without
   TWKBCloseRings: the implicit closure cannot carry the closing vertex's own Z *)
Definition f73_geom : zgeom :=
  GPoly (MkPoly XYZ [MkLine XYZ [Build_vtx 0 0 1 0; Build_vtx 1 0 2 0; Build_vtx 1 1 3 0; Build_vtx 0 0 9 0]]).
Example f73_closing_z :
  wf_twkb o0 f73_geom = false /\ wf_twkb_noring o0 f73_geom = false /\ wf_twkb_xyring o0 f73_geom = true /\
  match tmarshal o0 f73_geom with Ok b => twkb_ok o0 f73_geom b | _ => true end = false.
Proof. vm_compute. repeat split; reflexivity. Qed.

(* quantisation layer: instances by computation, and a bound on |k| is necessary (a double cannot
   tell 2^62 + 1 from 2^62; the proved bound 2^40 is the property's, not the tight one) *)
Example grid_instances :
  quant 7 (dequant 7 1099511627775) = Ok 1099511627775 /\
  quant (-8) (dequant (-8) (-1099511627775)) = Ok (-1099511627775) /\
  quant 2 (dequant 2 314) = Ok 314.
Proof. vm_compute. repeat split; reflexivity. Qed.
Example grid_needs_a_bound :
  quant 0 (dequant 0 4611686018427387905) = Ok 4611686018427387904.
Proof. vm_compute. reflexivity. Qed.
(* 0.1 = 0x3FB999999999999A at precision 1 is the integer 1; 0.25 at precision 1 is a tie and goes
   away from zero *)
Example quant_examples :
  quant 1 4591870180066957722%N = Ok 1 /\ quant 1 4598175219545276416%N = Ok 3 /\
  quant 1 13821547256400052224%N = Ok (-3).
Proof. vm_compute. repeat split; reflexivity. Qed.

(* bounding box wider than 2^63: every ordinate fits int64, max - min does not. The stored delta
   wraps (it is negative on the wire), and the reader's min + delta wraps back: the header-only
   reader still returns the true envelope (an instance of twkb_bbox_header, by computation) *)
Example bbox_wrapped_delta :
  let o := {| o_pxy := 7; o_pz := None; o_pm := None; o_size := false; o_bbox := true;
              o_close := false; o_ids := [] |} in
  let g := GMPoint XY [MkPoint XY (Some (v2 (-4600000000000000000) 5)); MkPoint XY (Some (v2 4700000000000000000 6))] in
  wf_twkb o g = true /\
  match tmarshal o g with
  | Ok b => (match tdec b with
             | Ok (_, i) => i_bbox i = Some [-4600000000000000000; -9146744073709551616; 5; 1]
             | _ => False end) /\
            tread_env b = Ok (Some (XY, [(-4600000000000000000, 4700000000000000000); (5, 6)]))
  | _ => False
  end.
Proof. vm_compute. repeat split; reflexivity. Qed.
