(* C07 / C08 - the translator tie as statements (nothing else in this file): geom/twkb_parser.go:checkCount (the
   guard every element count of untrusted TWKB goes through) and geom/wkb_parser.go:readByte, re-read from the Go
   source on every run into Gen/FuncsInt.v, ARE the model functions (Model/TWKB.v:check_count, Model/WKB.v:rd_byte)
   the rejection, no-panic and linear-allocation theorems are about. *)
From Coq Require Import ZArith NArith List.
From SF Require Import Base.FOps Base.FInt Gen.FuncsInt Base.Varint Model.TWKB
  Proofs.Funcs_tie_Int_Varint Proofs.Funcs_tie_Int_TWKBGuard.
From SF Require Model.WKB.
Open Scope Z_scope.

Theorem go_checkCount_is_model : forall (F : Type) (p : geom_twkbParser F) (bs : list N) (s : pst) (cnt : N) (mb : nat),
  geom_twkbParser_twkb p = zbytes bs ->
  0 <= geom_twkbParser_pos p <= Z.of_nat (length bs) -> Z.of_nat (length bs) < two63 ->
  s_in s = skipn (Z.to_nat (geom_twkbParser_pos p)) bs ->
  (0 < mb)%nat -> Z.of_nat mb < two63 -> in_u64 (Z.of_N cnt) ->
  geom_twkbParser_checkCount p (Z.of_N cnt) (Z.of_nat mb) = accepted (check_count cnt mb s).
Proof. exact (@tie_checkCount). Qed.
Print Assumptions go_checkCount_is_model.

Theorem go_wkb_readByte_is_model : forall (F : Type) (bs : list N) (bo : Z) (no : bool) (alloc : N),
  geom_wkbParser_readByte (Mk_geom_wkbParser (F:=F) (zbytes bs) bo no)
  = match WKB.rd_byte (bs, alloc) with
    | WKB.POk b (r, _) => Known (Z.of_N b, true, Mk_geom_wkbParser (zbytes r) bo no)
    | _ => Known (0, false, Mk_geom_wkbParser (zbytes bs) bo no)
    end.
Proof. exact (@tie_wkb_readByte). Qed.
Print Assumptions go_wkb_readByte_is_model.
