(* Property C08 - decoders are total on untrusted input: error or valid geometry, never a crash.
   WKB part (model: Model/WKB.v, the transcription of geom/wkb_parser.go after the F2 fix).
   This file contains statements only; proofs are in Proofs/WKB_total.v.
   Every statement quantifies over ALL lists of numbers offered as bytes: no well-formedness
   hypothesis, no length bound, values above 255 included. *)
From Coq Require Import NArith List Bool.
From SF Require Import Base.Outcome Base.Bytes Base.GeomAST Model.WKB Proofs.WKB_total.
Import ListNotations.
Local Open Scope N_scope.

(* never a panic outcome: the only panic-producing primitive on this path is the lifting of the
   member casts, which return errors, never panics *)
Theorem wkb_dec_no_panic : forall bs : list N, is_panic (dec bs) = false.
Proof. exact wkb_dec_no_panic_lemma. Qed.
Print Assumptions wkb_dec_no_panic.

(* bytes requested by count-sized make calls (on every path, failures included) are at most
   twice the input length: an allocation happens only after the length check, and is covered by
   bytes that are then consumed (factor 2: a non-native byte order copies the payload once) *)
Theorem wkb_dec_alloc_linear : forall bs : list N, dec_alloc bs <= 2 * N.of_nat (length bs).
Proof. exact wkb_dec_alloc_linear_lemma. Qed.
Print Assumptions wkb_dec_alloc_linear.

(* sharper, on success: at most two requested bytes per consumed byte *)
Theorem wkb_dec_alloc_consumed : forall (bs : list N) (g : geom) (r : list N) (a : N),
  dec_full bs = POk g (r, a) -> exists used, bs = used ++ r /\ a <= 2 * N.of_nat (length used).
Proof. exact wkb_dec_alloc_consumed_lemma. Qed.
Print Assumptions wkb_dec_alloc_consumed.

(* never reads past the end: the unread rest is a suffix of the input (and a header was read) *)
Theorem wkb_dec_consumes : forall (bs : list N) (g : geom) (r : list N),
  dec bs = Ok (g, r) -> exists used, bs = used ++ r /\ (5 <= length used)%nat.
Proof. exact wkb_dec_consumes_lemma. Qed.
Print Assumptions wkb_dec_consumes.

(* the model's fuel error is unreachable: every loop iteration and every recursive call
   consumes at least one byte, and the fuel exceeds the unread length *)
Theorem wkb_dec_fuel_enough : forall bs : list N, dec bs <> Err EFuel.
Proof. exact wkb_dec_fuel_enough_lemma. Qed.
Print Assumptions wkb_dec_fuel_enough.

(* Scan into a concrete type: same totality *)
Theorem wkb_scan_no_panic : forall (t : gtype) (bs : list N),
  is_panic (scan t bs) = false /\ scan t bs <> Err EFuel.
Proof. exact wkb_scan_no_panic_lemma. Qed.
Print Assumptions wkb_scan_no_panic.

(* validation gate of UnmarshalWKB, for an arbitrary validator (a function, not an assumption
   about it): whatever is returned without NoValidate has passed it ... *)
Theorem decoded_validated : forall (validate : geom -> bool) (bs : list N) (g : geom),
  unmarshal validate bs = Ok g -> validate g = true.
Proof. exact decoded_validated_lemma. Qed.
Print Assumptions decoded_validated.

(* ... and the gate does nothing else: it returns exactly the NoValidate result when that validates *)
Theorem gate_exact : forall (validate : geom -> bool) (bs : list N) (g : geom),
  unmarshal validate bs = Ok g <-> (unmarshal_nv bs = Ok g /\ validate g = true).
Proof. exact gate_exact_lemma. Qed.
Print Assumptions gate_exact.

Theorem unmarshal_no_panic : forall (validate : geom -> bool) (bs : list N),
  is_panic (unmarshal validate bs) = false.
Proof. exact unmarshal_no_panic_lemma. Qed.
Print Assumptions unmarshal_no_panic.

(* What the fix (commit 9d18c2c, finding F2) bought: with the allocation before the length check
   (rd_seq_unfixed, the code as it was) the 9-byte input 01 02000000 ffffffff requests 64 GiB;
   the bound of wkb_dec_alloc_linear (18 bytes here) fails by nine orders of magnitude. The same
   input requests nothing in the fixed model. *)
Theorem wkb_alloc_unbounded_before_fix_refuted :
  exists bs : list N, length bs = 9%nat /\ Forall byte_ok bs /\
    dec_unfixed_alloc bs = 68719476720 /\ 2 * N.of_nat (length bs) < dec_unfixed_alloc bs /\
    dec_alloc bs = 0.
Proof.
  exists f2_witness. destruct wkb_alloc_unbounded_before_fix_lemma as (L & B & U & F).
  split; [exact L|]. split; [exact B|]. split; [exact U|]. split; [|exact F].
  rewrite U, L. reflexivity.
Qed.
Print Assumptions wkb_alloc_unbounded_before_fix_refuted.

(* ---- non-vacuity and tightness ---- *)
(* the successful branch is inhabited by a non-trivial value, with unread trailing bytes *)
Example consumes_example :
  dec [1; 1;0;0;0; 0;0;0;0;0;0;240;63; 0;0;0;0;0;0;0;64; 7; 7] =
  Ok (GPoint (MkPoint XY (Some (Build_vtx 4607182418800017408 4611686018427387904 0 0))), [7; 7]).
Proof. vm_compute. reflexivity. Qed.
(* the factor 2 is needed: a big-endian LineString of one XY vertex (25 bytes) requests 32 bytes *)
Example alloc_factor_needed :
  let bs := [0; 0;0;0;2; 0;0;0;1; 63;240;0;0;0;0;0;0; 64;0;0;0;0;0;0;0] in
  dec_alloc bs = 32 /\ N.of_nat (length bs) = 25 /\ is_ok (dec bs) = true.
Proof. vm_compute. auto. Qed.
(* errors are reached, with the allocation counter kept: second ring of a polygon cut short *)
Example error_keeps_alloc :
  let bs := [1; 3;0;0;0; 2;0;0;0; 1;0;0;0; 0;0;0;0;0;0;240;63; 0;0;0;0;0;0;0;64; 9;0;0;0] in
  dec bs = Err EEOF /\ dec_alloc bs = 16.
Proof. vm_compute. auto. Qed.
(* the former fuel artefact (input exhausted with a non-zero count) is an EOF error *)
Example exhausted_count_is_eof : dec [1; 3;0;0;0; 1;0;0;0] = Err EEOF.
Proof. vm_compute. reflexivity. Qed.
(* the gate with a validator that rejects: an error, the decoded value is not returned *)
Example gate_rejects :
  unmarshal (fun _ => false) [1; 1;0;0;0; 0;0;0;0;0;0;240;63; 0;0;0;0;0;0;0;64] = Err EValidate.
Proof. vm_compute. reflexivity. Qed.

(* ================================================================== WKT part
   Model: the lexer and recursive-descent parser of Model/WKT.v (written for C05 as the
   transcription of geom/wkt_lexer.go and geom/wkt_parser.go); proofs in Proofs/WKT_total.v.
   Quantified over ALL token lists / all texts of the model's alphabet (characters plus opaque
   number symbols; strconv and text/scanner's number scanning are oracles there). *)
From Coq Require Import String.
From SF Require Import Model.WKT Proofs.WKT_total.

(* nextGeometryTaggedText and everything below it never panics, whatever the tokens *)
Theorem wkt_parse_no_panic : forall ts : list tok, is_panic (WKT.parse ts) = false.
Proof. exact wkt_parse_no_panic_lemma. Qed.
Print Assumptions wkt_parse_no_panic.

(* every separator loop and every nested collection consumes a token per iteration: the fuel
   error is unreachable *)
Theorem wkt_parse_fuel_enough : forall ts : list tok, WKT.parse ts <> Err EFuel.
Proof. exact wkt_parse_fuel_enough_lemma. Qed.
Print Assumptions wkt_parse_fuel_enough.

(* the tokens left for the EOF check are a suffix of the input; at least the tag was read *)
Theorem wkt_parse_geom_consumes : forall (ts : list tok) (g : geomT N) (r : list tok),
  parse_geom (S (List.length ts)) ts = Ok (g, r) -> exists used, ts = used ++ r /\ (1 <= List.length used)%nat.
Proof. exact wkt_parse_geom_consumes_lemma. Qed.
Print Assumptions wkt_parse_geom_consumes.

(* lexer + parser + EOF check: UnmarshalWKT(s, NoValidate{}) on the model's alphabet *)
Theorem unmarshal_wkt_no_panic : forall s : list ch,
  is_panic (unmarshal_wkt s) = false /\ unmarshal_wkt s <> Err EFuel.
Proof. exact unmarshal_wkt_no_panic_lemma. Qed.
Print Assumptions unmarshal_wkt_no_panic.

(* non-vacuity: a collection is parsed; unbalanced nesting and a missing number are errors *)
Example wkt_ok_example :
  is_ok (WKT.parse [T (L "GEOMETRYCOLLECTION"%string); T (L "("%string); T (L "POINT"%string); T (L "("%string); TNum 1; TNum 2;
                    T (L ")"%string); T (L ","%string); T (L "MULTIPOINT"%string); T (L "("%string); T (L "EMPTY"%string); T (L ","%string); TNum 3; TNum 4;
                    T (L ")"%string); T (L ")"%string)]) = true.
Proof. vm_compute. reflexivity. Qed.
Example wkt_err_examples :
  WKT.parse (repeat (T (L "GEOMETRYCOLLECTION"%string)) 3 ++ repeat (T (L "("%string)) 40) = Err ESyntax /\
  WKT.parse [T (L "GEOMETRYCOLLECTION"%string); T (L "("%string); T (L "GEOMETRYCOLLECTION"%string); T (L "("%string)] = Err EEOF /\
  WKT.parse [T (L "POINT"%string); T (L "("%string); TNum 1; T (L ")"%string)] = Err ESyntax /\
  WKT.parse [T (L "POINT"%string); T (L "("%string); T (L "nan"%string); TNum 1; T (L ")"%string)] = Err ESyntax.
Proof. vm_compute. auto. Qed.

(* ================================================================== TWKB and GeoJSON parts
   Models: Model/TWKB.v + Model/TWKBQuant.v (C07: geom/twkb_parser.go, twkb_write.go with the
   repairs F7 and F31 of this property and C07's own) and Model/GeoJSON.v (C06:
   geom/geojson_unmarshal.go on parsed JSON trees; encoding/json is an oracle). The totality
   lemmas are the sibling properties' (Proofs/TWKB_proofs.v, TWKBQuant_proofs.v,
   GeoJSON_proofs.v); they are cited here so that this file covers all four decoders. Names are
   qualified because the models reuse identifiers. *)
From SF Require Model.TWKB Model.TWKBQuant Model.GeoJSON.
From SF Require Proofs.TWKB_proofs Proofs.TWKBQuant_proofs Proofs.GeoJSON_proofs Proofs.Total_all.

(* UnmarshalTWKB(bytes, NoValidate{}) on arbitrary bytes: no panic, fuel never runs out, and the
   count-sized make() calls request at most 8 bytes per input byte *)
Theorem twkb_unmarshal_no_panic : forall bs : list N, is_panic (TWKBQuant.unmarshal_f bs) = false.
Proof. exact Total_all.twkb_unmarshal_no_panic_lemma. Qed.
Print Assumptions twkb_unmarshal_no_panic.

Theorem twkb_unmarshal_fuel_enough : forall bs : list N, TWKBQuant.unmarshal_f bs <> Err EFuel.
Proof. exact TWKBQuant_proofs.unmarshal_f_fuel_enough_lemma. Qed.
Print Assumptions twkb_unmarshal_fuel_enough.

Theorem twkb_unmarshal_alloc_linear : forall bs : list N,
  match TWKB.dec_full N 0 N.eqb TWKBQuant.dequant bs with
  | TWKB.TOk _ s => TWKB.s_alloc s | TWKB.TErr _ a => a | TWKB.TPanic _ a => a
  end <= 8 * N.of_nat (List.length bs).
Proof. exact TWKBQuant_proofs.unmarshal_f_alloc_linear_lemma. Qed.
Print Assumptions twkb_unmarshal_alloc_linear.

(* the same for the integer layer (already quantised ordinates) *)
Theorem twkb_tdec_no_panic : forall bs : list N, is_panic (TWKB.tdec bs) = false.
Proof. exact Total_all.tdec_is_panic_lemma. Qed.
Print Assumptions twkb_tdec_no_panic.

Theorem twkb_tdec_alloc_linear : forall bs : list N,
  TWKB.tdec_alloc bs <= 8 * N.of_nat (List.length bs).
Proof. exact TWKB_proofs.tdec_alloc_linear_lemma. Qed.
Print Assumptions twkb_tdec_alloc_linear.

(* UnmarshalGeoJSON(doc, NoValidate{}) on every JSON tree: the index expressions fs[0], fs[1],
   fs[2], c[j] are guarded by detectCoordinatesLengths *)
Theorem geojson_unmarshal_no_panic : forall j : GeoJSON.json, is_panic (GeoJSON.gj_unmarshal j) = false.
Proof. exact GeoJSON_proofs.gj_unmarshal_no_panic_lemma. Qed.
Print Assumptions geojson_unmarshal_no_panic.

(* ================================================================== re-encoding
   Every value re-encodes in all four formats without a panic. WKB.enc, WKT.append_wkt and
   GeoJSON.gj_print are total functions; the content is MarshalTWKB, whose failure branches
   (coordinates-type mismatch, empty Point inside a MultiPoint, scaled ordinate outside int64 or
   not finite, precision out of range, ID list of the wrong length or on a simple type) are all
   error returns. Proved for EVERY option set and EVERY value, hence for everything a decoder
   returns; the four corollaries spell that out per decoder. *)
Theorem reencode_total : forall (o : TWKB.topts) (g : geomT N),
  is_panic (Total_all.reencode_all o g) = false.
Proof. exact Total_all.reencode_total_lemma. Qed.
Print Assumptions reencode_total.

Theorem twkb_marshal_no_panic : forall (o : TWKB.topts) (g : geomT N),
  is_panic (TWKBQuant.marshal_f o g) = false.
Proof. exact Total_all.marshal_f_np. Qed.
Print Assumptions twkb_marshal_no_panic.

Theorem twkb_tmarshal_no_panic : forall (o : TWKB.topts) (g : geomT Z),
  is_panic (TWKB.tmarshal o g) = false.
Proof. exact Total_all.tmarshal_np. Qed.
Print Assumptions twkb_tmarshal_no_panic.

Theorem reencode_after_wkb : forall (o : TWKB.topts) (bs : list N) (g : geomT N) (r : list N),
  WKB.dec bs = Ok (g, r) -> is_panic (Total_all.reencode_all o g) = false.
Proof. exact Total_all.reencode_after_wkb_lemma. Qed.
Print Assumptions reencode_after_wkb.

Theorem reencode_after_wkt : forall (o : TWKB.topts) (ts : list WKT.tok) (g : geomT N),
  WKT.parse ts = Ok g -> is_panic (Total_all.reencode_all o g) = false.
Proof. exact Total_all.reencode_after_wkt_lemma. Qed.
Print Assumptions reencode_after_wkt.

Theorem reencode_after_geojson : forall (o : TWKB.topts) (j : GeoJSON.json) (g : geomT N),
  GeoJSON.gj_unmarshal j = Ok g -> is_panic (Total_all.reencode_all o g) = false.
Proof. exact Total_all.reencode_after_geojson_lemma. Qed.
Print Assumptions reencode_after_geojson.

Theorem reencode_after_twkb : forall (o : TWKB.topts) (bs : list N) (g : geomT N) (i : TWKB.tinfo),
  TWKBQuant.unmarshal_f bs = Ok (g, i) -> is_panic (Total_all.reencode_all o g) = false.
Proof. exact Total_all.reencode_after_twkb_lemma. Qed.
Print Assumptions reencode_after_twkb.

(* ================================================================== validation gates
   UnmarshalWKT / UnmarshalGeoJSON / UnmarshalTWKB without NoValidate, for an arbitrary validator:
   what is returned is exactly the NoValidate result when it validates; never a panic. *)
Theorem wkt_gate_exact : forall (validate : geomT N -> bool) (s : list WKT.ch) (g : geomT N),
  Total_all.unmarshal_wkt_v validate s = Ok g <-> (WKT.unmarshal_wkt s = Ok g /\ validate g = true).
Proof. exact Total_all.wkt_gate_lemma. Qed.
Print Assumptions wkt_gate_exact.

Theorem geojson_gate_exact : forall (validate : geomT N -> bool) (j : GeoJSON.json) (g : geomT N),
  Total_all.unmarshal_geojson_v validate j = Ok g <->
  (GeoJSON.gj_unmarshal j = Ok g /\ validate g = true).
Proof. exact Total_all.geojson_gate_lemma. Qed.
Print Assumptions geojson_gate_exact.

Theorem twkb_gate_exact : forall (validate : geomT N -> bool) (bs : list N) (g : geomT N),
  Total_all.unmarshal_twkb_v validate bs = Ok g <->
  (omap fst (TWKBQuant.unmarshal_f bs) = Ok g /\ validate g = true).
Proof. exact Total_all.twkb_gate_lemma. Qed.
Print Assumptions twkb_gate_exact.

Theorem validating_decoders_no_panic : forall (validate : geomT N -> bool),
  (forall s, is_panic (Total_all.unmarshal_wkt_v validate s) = false) /\
  (forall j, is_panic (Total_all.unmarshal_geojson_v validate j) = false) /\
  (forall bs, is_panic (Total_all.unmarshal_twkb_v validate bs) = false).
Proof.
  intros v. split; [apply Total_all.wkt_v_no_panic_lemma|].
  split; [apply Total_all.geojson_v_no_panic_lemma|apply Total_all.twkb_v_no_panic_lemma].
Qed.
Print Assumptions validating_decoders_no_panic.

(* non-vacuity: the TWKB writer's error branches are reached (an infinity cannot be quantised; an
   empty Point in a MultiPoint cannot be written), and a plain value re-encodes in all formats *)
Example reencode_examples :
  is_err (TWKBQuant.marshal_f Total_all.o_default
            (GPoint (MkPoint XY (Some (Build_vtx 9218868437227405312 0 0 0))))) = true /\
  is_err (TWKBQuant.marshal_f Total_all.o_default
            (GMPoint XY [MkPoint XY None; MkPoint XY (Some (Build_vtx 4607182418800017408 0 0 0))])) = true /\
  is_ok (Total_all.reencode_all Total_all.o_default
            (GColl XY [GPoint (MkPoint XY (Some (Build_vtx 4607182418800017408 4611686018427387904 0 0)));
                       GLine (MkLine XY [])])) = true.
Proof. vm_compute. auto. Qed.

(* ================================================================== "error or VALID value"
   The converse of the round trip (proofs in Proofs/WKB_converse.v): whatever the WKB decoder
   accepts - from any string of bytes, foreign and mixed byte orders, members of other coordinate
   types included - is a well-formed value of the model (one coordinates type at every node,
   unused Z/M zero, 64-bit ordinates, counts below 2^32, no NaN in X/Y of a full point), so it is
   in the domain of the round-trip theorem of C04: its canonical re-encoding, and its encoding
   under any other byte-order choice, decodes to the same value. *)
From SF Require Import Proofs.WKB_converse.

Theorem wkb_decoded_is_wellformed : forall (bs : list N) (g : geomT N) (r : list N),
  bytes_ok bs -> WKB.dec bs = Ok (g, r) -> wf_wkb g = true /\ bytes_ok r.
Proof. exact wkb_dec_wf_lemma. Qed.
Print Assumptions wkb_decoded_is_wellformed.

Theorem wkb_dec_enc_dec : forall (bs : list N) (g : geomT N) (r : list N),
  bytes_ok bs -> WKB.dec bs = Ok (g, r) ->
  forall (bo : list nat -> endian) (r' : list N), WKB.dec (enc_bo bo g ++ r') = Ok (g, r').
Proof. exact wkb_dec_enc_dec_lemma. Qed.
Print Assumptions wkb_dec_enc_dec.

Theorem wkb_reencode_fixpoint : forall (bs : list N) (g : geomT N) (r : list N),
  bytes_ok bs -> WKB.dec bs = Ok (g, r) -> WKB.dec (enc g) = Ok (g, []).
Proof. exact wkb_reencode_fixpoint_lemma. Qed.
Print Assumptions wkb_reencode_fixpoint.

Theorem wkb_canonical : forall (bs bs' : list N) (g g' : geomT N) (r r' : list N),
  bytes_ok bs -> bytes_ok bs' -> WKB.dec bs = Ok (g, r) -> WKB.dec bs' = Ok (g', r') ->
  (enc g = enc g' <-> g = g').
Proof. exact wkb_canonical_lemma. Qed.
Print Assumptions wkb_canonical.

(* the hypothesis bytes_ok is needed (and is all that is needed): a list element of 256 in the top
   byte of X gives the "ordinate" 2^64, which is not a 64-bit pattern *)
Example bytes_ok_needed :
  exists g r, WKB.dec [1; 1;0;0;0; 0;0;0;0;0;0;0;256; 0;0;0;0;0;0;0;64] = Ok (g, r) /\ wf_wkb g = false.
Proof. eexists. eexists. split; [vm_compute; reflexivity|vm_compute; reflexivity]. Qed.
(* a foreign document: big-endian MultiPoint declared XY whose member is a little-endian Point Z.
   It is accepted, the value is normalised by the constructor (the members' type wins: the result
   is a MultiPoint Z), and its canonical encoding (little-endian, header Z) is a different
   document that decodes to the same value *)
Example foreign_document_normalised :
  let bs := [0; 0;0;0;4; 0;0;0;1;  1; 233;3;0;0; 0;0;0;0;0;0;240;63; 0;0;0;0;0;0;0;64; 0;0;0;0;0;0;8;64] in
  exists g, WKB.dec bs = Ok (g, []) /\ wf_wkb g = true /\ geom_ct g = XYZ /\
            enc g <> bs /\ WKB.dec (enc g) = Ok (g, []).
Proof.
  eexists. split; [vm_compute; reflexivity|]. split; [vm_compute; reflexivity|].
  split; [reflexivity|]. split; [vm_compute; discriminate|vm_compute; reflexivity].
Qed.

(* The decoder accepts nothing but encodings (proof in Proofs/WKB_image.v): the consumed prefix of
   every accepted byte string is exactly enc_bo bo g' for some per-element byte-order choice bo and
   some document tree g' (nodes as written: declared coordinate types, members of any coordinate
   type, NaN/NaN points with any payload), and the value returned is the constructors'
   normalisation of g' (WKB_image.normalise: NaN/NaN point -> empty point, NewPolygon,
   NewMultiPoint, ..., NewGeometryCollection applied bottom-up). *)
From SF Require Proofs.WKB_image.

Theorem wkb_dec_is_some_encoding : forall (bs : list N) (g : geomT N) (r : list N),
  bytes_ok bs -> WKB.dec bs = Ok (g, r) ->
  exists (bo : list nat -> endian) (g' : geomT N),
    bs = enc_bo bo g' ++ r /\ g = WKB_image.normalise g'.
Proof. exact WKB_image.wkb_dec_is_some_encoding_lemma. Qed.
Print Assumptions wkb_dec_is_some_encoding.

(* normalisation is not the identity: the raw tree of the foreign document above is a MultiPoint
   declared XY with a Point Z member; its normal form is a MultiPoint Z *)
Example normalise_example :
  WKB_image.normalise
    (GMPoint XY [MkPoint XYZ (Some (Build_vtx 4607182418800017408 4611686018427387904 4613937818241073152 0))])
  = GMPoint XYZ [MkPoint XYZ (Some (Build_vtx 4607182418800017408 4611686018427387904 4613937818241073152 0))]
  /\ WKB_image.normalise (GPoint (MkPoint XY (Some (Build_vtx go_nan 9221120237041090562 0 0))))
     = GPoint (MkPoint XY None).
Proof. vm_compute. auto. Qed.
