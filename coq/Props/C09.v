(* Property C09 - Intersects and Distance agree with exact geometry and with Relate.
   Statements only; proofs are in Proofs/Intersects_proofs.v and Proofs/Distance_proofs.v.
   Models: Model/Intersects.v, Model/Distance.v (transcriptions of geom/alg_intersects.go,
   alg_distance.go, line.go, alg_point_in_ring.go over Q); reference semantics: Base/Planar.v (inG). *)
From Coq Require Import QArith List Bool.
From SF Require Import Base.GeomAST Base.QKernel Base.Planar Model.Intersects Model.Distance
  Proofs.Intersects_proofs Proofs.Distance_proofs.
Import ListNotations.
Open Scope Q_scope.

(* ---- Intersects ---- *)

(* every `true` exit of Intersects has a witness: a point that belongs to both point sets (an
   intersection point of two segments, or a probe vertex inside a polygon). ALL type pairs,
   collections included; the only hypothesis is that polygon rings are closed (first = last) *)
Theorem intersects_sound : forall a b : geom,
  rings_closed a = true -> rings_closed b = true ->
  intersects a b = true -> exists p, inG a p = true /\ inG b p = true.
Proof. exact intersects_sound. Qed.
Print Assumptions intersects_sound.

(* `false` means no common point, for operands without areal parts (points, line strings, their
   multis and collections of them) whose line strings have two distinct vertices.
   For areal operands this direction is NOT proved (it needs: boundaries disjoint -> nested or
   disjoint; DESIGN 4.1) and is covered by the correspondence against the witness oracle:
     intersects_complete : rings_closed, valid a, valid b -> inG a p -> inG b p -> intersects a b = true *)
Theorem intersects_complete_lineal_partial : forall (a b : geom) (p : pt),
  no_polys a = true -> no_polys b = true -> lines_wf a = true -> lines_wf b = true ->
  inG a p = true -> inG b p = true -> intersects a b = true.
Proof. exact intersects_complete_lineal. Qed.
Print Assumptions intersects_complete_lineal_partial.

Theorem intersects_sym : forall a b : geom, intersects a b = intersects b a.
Proof. exact intersects_sym. Qed.
Print Assumptions intersects_sym.

Theorem intersects_empty : forall a b : geom,
  is_empty a = true \/ is_empty b = true -> intersects a b = false.
Proof. exact intersects_empty. Qed.
Print Assumptions intersects_empty.

(* ---- distance kernels ---- *)

(* distBetweenXYAndLine (squared): a lower bound for the distance to every point of the segment,
   attained at a point of the segment *)
Theorem pt_seg_d2_spec : forall (p a b : pt), ~ pt_eq a b ->
  (forall q, on_seg (a, b) q = true -> d2_xy_line p (a, b) <= d2_xy p q) /\
  (exists q, on_seg (a, b) q = true /\ d2_xy_line p (a, b) == d2_xy p q).
Proof.
  intros p a b H. split.
  - intros q Hq. apply d2_xy_line_le; assumption.
  - exists (closest_on_line p (a, b)). split; [apply closest_on_seg; exact H | reflexivity].
Qed.
Print Assumptions pt_seg_d2_spec.

(* ---- hypotheses are satisfiable by non-trivial values ---- *)
Definition qv (x y : Z) : vtx Q := Build_vtx (inject_Z x) (inject_Z y) 0 0.
Definition ex_square : geom :=
  GPoly (MkPoly XY [MkLine XY [qv 0 0; qv 4 0; qv 4 4; qv 0 4; qv 0 0];
                    MkLine XY [qv 1 1; qv 1 2; qv 2 2; qv 2 1; qv 1 1]]).
Definition ex_line : geom := GLine (MkLine XY [qv 3 3; qv 3 9]).
Example ex_sound_hyp : rings_closed ex_square = true /\ rings_closed ex_line = true /\
  intersects ex_square ex_line = true /\ intersects ex_line ex_square = true.
Proof. vm_compute. auto. Qed.
Example ex_lineal_hyp :
  let a := GMLine XY [MkLine XY [qv 0 0; qv 4 4]; MkLine XY []] in
  let b := GColl XY [GPoint (MkPoint XY (Some (qv 2 2))); GLine (MkLine XY [qv 0 4; qv 4 0])] in
  no_polys a = true /\ no_polys b = true /\ lines_wf a = true /\ lines_wf b = true /\
  inG a (2, 2) = true /\ inG b (2, 2) = true /\ intersects a b = true.
Proof. vm_compute. repeat split; reflexivity. Qed.
