(* Property C09 - Intersects and Distance agree with exact geometry and with Relate.
   Statements only; proofs are in Proofs/Intersects_proofs.v and Proofs/Distance_proofs.v.
   Models: Model/Intersects.v, Model/Distance.v (transcriptions of geom/alg_intersects.go,
   alg_distance.go, line.go, alg_point_in_ring.go over Q); reference semantics: Base/Planar.v (inG). *)
From Coq Require Import QArith List Bool.
From SF Require Import Base.GeomAST Base.QKernel Base.Planar Model.Intersects Model.Distance
  Proofs.Intersects_proofs Proofs.Distance_proofs Proofs.Distance_lower Proofs.Intersects_areal Proofs.Intersects_polypoly Proofs.Distance_full.
Import ListNotations.
Open Scope Q_scope.

(* ---- Intersects ---- *)

(* every `true` exit of Intersects has a witness: a point that belongs to both point sets (an
   intersection point of two segments, or a probe vertex inside a polygon). ALL type pairs,
   collections included; the only hypothesis is that polygon rings are closed (first = last) *)
Theorem intersects_sound : forall a b : geom,
  rings_closed a = true -> rings_closed b = true ->
  intersects a b = true -> exists p, inG a p = true /\ inG b p = true.
Proof. exact intersects_sound. Qed.
Print Assumptions intersects_sound.

(* `false` means no common point: EVERY pair of operands (points, line strings, polygons with holes,
   their multis, nested collections).  operand_ok asks what OGC validity gives: line strings with
   two distinct vertices, rings closed with two distinct vertices, rings properly nested (holes in
   the closed shell, shell and holes not entering a hole); it is decidable (operand_okb below).
   For two polygons whose boundaries do not meet the proof shows that a common point forces the
   start vertex of one shell into the other polygon - the two probes of the Go code - from:
   parity constancy along ring-avoiding segments, the leftmost hit of a horizontal segment with
   finitely many edges, and three facts about closed rings with disjoint boundaries (no mutual
   containment, containment is transitive, mutually exterior rings have disjoint interiors). *)
Theorem intersects_complete : forall (a b : geom) (p : pt),
  operand_ok a -> operand_ok b -> inG a p = true -> inG b p = true -> intersects a b = true.
Proof. exact intersects_complete. Qed.
Print Assumptions intersects_complete.

(* together with soundness: Intersects on the model is exactly "the point sets share a point", and
   it equals the verified witness oracle *)
Theorem intersects_exact : forall a b : geom,
  operand_ok a -> operand_ok b ->
  (intersects a b = true <-> exists p, inG a p = true /\ inG b p = true) /\
  intersects a b = share_witness a b.
Proof. exact intersects_exact. Qed.
Print Assumptions intersects_exact.

(* the hypotheses are decidable: the nesting conditions, which quantify over all points, need only
   be tested at the witnesses of the polygon's own arrangement (slab-witness sufficiency) *)
Theorem operand_ok_decidable : forall g : geom, operand_okb g = true -> operand_ok g.
Proof. exact operand_okb_sound. Qed.
Print Assumptions operand_ok_decidable.

Theorem intersects_sym : forall a b : geom, intersects a b = intersects b a.
Proof. exact intersects_sym. Qed.
Print Assumptions intersects_sym.

Theorem intersects_empty : forall a b : geom,
  is_empty a = true \/ is_empty b = true -> intersects a b = false.
Proof. exact intersects_empty. Qed.
Print Assumptions intersects_empty.

(* ---- the oracle of the correspondence is a verified decision procedure ---- *)

(* share_witness evaluates inG of both operands at the witnesses of their exact arrangement
   (Base/Planar.v).  By the sufficiency theorem of the slab decomposition (Proofs/Planar_slab.v,
   Props/C02.v:slab_witnesses_sufficient) it decides "the two point sets share a point". So the
   SPEC check `Go's Intersects = share_witness` compares against the exact answer. *)
Theorem oracle_intersects_exact : forall a b : geom,
  rings_closed a = true -> rings_closed b = true ->
  (share_witness a b = true <-> exists p, inG a p = true /\ inG b p = true).
Proof. exact share_witness_iff. Qed.
Print Assumptions oracle_intersects_exact.

(* the planar fact behind every containment probe: a segment that meets no edge of a closed ring
   has the same crossing parity at both ends (staircase of axis-parallel moves below the exact
   clearance of segment and ring; no continuity, no Jordan curve theorem) *)
Theorem ring_parity_constant_off_ring : forall (ring : list pt) (u v : pt),
  pts_closed ring = true ->
  (forall e, In e (segs_of_pts ring) -> forall w, ~ (on_seg e w = true /\ on_seg (u, v) w = true)) ->
  edges_parity (segs_of_pts ring) u = edges_parity (segs_of_pts ring) v.
Proof. exact path_parity. Qed.
Print Assumptions ring_parity_constant_off_ring.

(* ---- distance kernels ---- *)

(* distBetweenXYAndLine (squared; the code after fix F91: perpendicular distance by the cross
   product when the foot is inside the segment): a lower bound for the distance to every point
   of the segment, attained at a point of the segment *)
Theorem pt_seg_d2_spec : forall (p a b : pt), ~ pt_eq a b ->
  (forall q, on_seg (a, b) q = true -> d2_xy_line p (a, b) <= d2_xy p q) /\
  (exists q, on_seg (a, b) q = true /\ d2_xy_line p (a, b) == d2_xy p q).
Proof.
  intros p a b H. split.
  - intros q Hq. apply d2_xy_line_le; assumption.
  - exists (closest_on_line p (a, b)). split; [apply closest_on_seg; exact H | apply d2_xy_line_closest; exact H].
Qed.
Print Assumptions pt_seg_d2_spec.

(* distBetweenLineAndLine (squared), for non-degenerate segments: the value is attained by an end
   point of one segment and a point of the other, it is symmetric, it is zero only if the segments
   meet, and for segments WITHOUT a common point it is a lower bound of the distance between any
   two of their points (the constrained minimum of the convex quadratic is on the boundary of the
   unit square of the two segment coordinates).  Together: the exact squared distance of two disjoint segments. *)
Theorem seg_seg_d2_spec : forall s t : seg,
  ~ pt_eq (fst s) (snd s) -> ~ pt_eq (fst t) (snd t) ->
  (exists p q, on_seg s p = true /\ on_seg t q = true /\ d2_line_line s t == d2_xy p q) /\
  d2_line_line s t == d2_line_line t s /\
  (d2_line_line s t == 0 -> exists w, on_seg s w = true /\ on_seg t w = true) /\
  ((forall w, ~ (on_seg s w = true /\ on_seg t w = true)) ->
   forall p q, on_seg s p = true -> on_seg t q = true -> d2_line_line s t <= d2_xy p q).
Proof.
  intros s t Hs Ht. split; [apply d2_line_line_attained; assumption|].
  split; [apply d2_line_line_sym|]. split; [apply d2_line_line_zero; assumption|].
  destruct s as [a b], t as [c d]. intros Hdis p q Hp Hq. apply seg_seg_d2_lower; assumption.
Qed.
Print Assumptions seg_seg_d2_spec.

(* ---- the search ---- *)

(* searchBody: on a stream of records in priority order (sorted by the squared distance [key] of
   the record's box to the query box, which is a lower bound of the part distance [val]),
   stopping at the first record with key > best returns the minimum over the whole stream.
   This is what lets the model take the minimum over all pairs of parts (with C11: PrioritySearch
   enumerates all records in that order). *)
Theorem pruned_search_is_min : forall (R : Type) (key val : R -> Q) (recs : list R) (best : option Q),
  Sorted.StronglySorted (fun r s => key r <= key s) recs ->
  (forall r, In r recs -> key r <= val r) ->
  pruned_search key val recs best = full_search val recs best.
Proof. exact @pruned_search_is_min. Qed.
Print Assumptions pruned_search_is_min.

(* the lower bound used by the pruning: boxes of parts against the parts themselves (and, with
   the boxes of all control points, the envelope bound of the property): in the search branch
   Distance is never below the distance of the boxes *)
Theorem distance_ge_envelope_distance : forall (a b : geom) (ea eb : box) (d : Q),
  parts_box a = Some ea -> parts_box b = Some eb -> dist2 a b = Some d ->
  intersects a b = false \/ (no_polys a = true /\ no_polys b = true /\ lines_wf a = true /\ lines_wf b = true) ->
  box_d2 ea eb <= d.
Proof.
  intros a b ea eb d Ea Eb Hd [H|[Na [Nb [Wa Wb]]]].
  - exact (distance_ge_envelope_search a b ea eb d Ea Eb H Hd).
  - exact (distance_ge_envelope_lineal a b ea eb d Na Nb Wa Wb Ea Eb Hd).
Qed.
Print Assumptions distance_ge_envelope_distance.

(* ---- Distance ---- *)
Theorem distance_sym : forall a b : geom,
  match dist2 a b, dist2 b a with
  | Some x, Some y => x == y
  | None, None => True
  | _, _ => False
  end.
Proof. exact distance_sym. Qed.
Print Assumptions distance_sym.

(* undefined exactly when the search has nothing to compare, in particular for an empty operand *)
Theorem distance_undefined_iff : forall a b : geom,
  (dist2 a b = None <->
   intersects a b = false /\ ((part_xys a = [] /\ part_lines a = []) \/ (part_xys b = [] /\ part_lines b = []))) /\
  (is_empty a = true \/ is_empty b = true -> dist2 a b = None).
Proof. intros a b. split; [apply dist2_none_iff | apply distance_undefined_of_empty]. Qed.
Print Assumptions distance_undefined_iff.

(* zero exactly when intersecting: every pair of operands *)
Theorem distance_zero_iff_intersects : forall a b : geom,
  operand_ok a -> operand_ok b ->
  ((exists d, dist2 a b = Some d /\ d == 0) <-> intersects a b = true).
Proof. exact distance_zero_iff_intersects_all. Qed.
Print Assumptions distance_zero_iff_intersects.

Theorem distance_zero_witness : forall (a b : geom) (d : Q),
  (intersects a b = true -> dist2 a b = Some 0) /\
  (dist2 a b = Some d -> d == 0 ->
   intersects a b = true \/ exists p, inG a p = true /\ inG b p = true).
Proof.
  intros a b d. split.
  - intros H. unfold dist2. rewrite H. reflexivity.
  - apply distance_zero_witness.
Qed.
Print Assumptions distance_zero_witness.

(* "equals the minimum Euclidean distance between the two point sets", on the model (squared):
   attained by two points of the operands and a lower bound for every pair of points; every pair
   of operands, areal ones included (an interior point of a polygon is joined to the other operand
   by a segment that must reach a ring at a closer point, else the operands would intersect) *)
Theorem distance_is_min : forall (a b : geom) (d : Q),
  operand_ok a -> operand_ok b -> dist2 a b = Some d ->
  (exists p q, inG a p = true /\ inG b q = true /\ d == d2_xy p q) /\
  (forall p q, inG a p = true -> inG b q = true -> d <= d2_xy p q).
Proof. exact distance_is_min. Qed.
Print Assumptions distance_is_min.

(* the final panic of the Intersects switch is unreachable *)
Theorem intersects_never_panics : forall a b : geom, intersects_panics a b = false.
Proof. exact intersects_never_panics. Qed.
Print Assumptions intersects_never_panics.

(* ---- hypotheses are satisfiable by non-trivial values ---- *)
Definition qv (x y : Z) : vtx Q := Build_vtx (inject_Z x) (inject_Z y) 0 0.
Definition ex_square : geom :=
  GPoly (MkPoly XY [MkLine XY [qv 0 0; qv 4 0; qv 4 4; qv 0 4; qv 0 0];
                    MkLine XY [qv 1 1; qv 1 2; qv 2 2; qv 2 1; qv 1 1]]).
Definition ex_line : geom := GLine (MkLine XY [qv 3 3; qv 3 9]).
Example ex_sound_hyp : rings_closed ex_square = true /\ rings_closed ex_line = true /\
  intersects ex_square ex_line = true /\ intersects ex_line ex_square = true.
Proof. vm_compute. auto. Qed.
Example ex_lineal_hyp :
  let a := GMLine XY [MkLine XY [qv 0 0; qv 4 4]; MkLine XY []] in
  let b := GColl XY [GPoint (MkPoint XY (Some (qv 2 2))); GLine (MkLine XY [qv 0 4; qv 4 0])] in
  no_polys a = true /\ no_polys b = true /\ lines_wf a = true /\ lines_wf b = true /\
  inG a (2, 2) = true /\ inG b (2, 2) = true /\ intersects a b = true.
Proof. vm_compute. repeat split; reflexivity. Qed.

Example ex_dist :
  dist2 ex_square (GPoint (MkPoint XY (Some (qv 7 8)))) = Some 25
  /\ dist2 ex_line (GLine (MkLine XY [])) = None
  /\ match dist2 (GPoint (MkPoint XY (Some (qv 0 2)))) (GLine (MkLine XY [qv 1 0; qv 3 4])) with
     | Some d => d == 16 # 5 | None => False end.
Proof. vm_compute. auto. Qed.
(* the stream is sorted by key, every key is below its value; the search stops at key 3 > best 2 *)
Example ex_pruned :
  pruned_search (fun r => fst r) (fun r => snd r) [(0, 4); (1, 2); (3, 9); (5, 6)] None = Some 2
  /\ full_search (fun r : Q * Q => snd r) [(0, 4); (1, 2); (3, 9); (5, 6)] None = Some 2.
Proof. vm_compute. auto. Qed.

(* operand_ok holds of a polygon with a hole (decided by operand_okb); two polygons whose
   boundaries do not meet, one inside the other: the answer comes from a start-vertex probe; and a
   polygon inside the hole of the other: disjoint *)
Definition ex_small : geom := GPoly (MkPoly XY [MkLine XY [qv 3 3; qv 3 7 ; qv 35 10; qv 3 3]]).
Definition ex_big : geom :=
  GPoly (MkPoly XY [MkLine XY [qv 0 0; qv 40 0; qv 40 40; qv 0 40; qv 0 0];
                    MkLine XY [qv 10 20; qv 10 30; qv 20 30; qv 20 20; qv 10 20]]).
Definition ex_in_hole : geom := GPoly (MkPoly XY [MkLine XY [qv 12 22; qv 18 22; qv 15 28; qv 12 22]]).
Example ex_operand_ok : operand_okb ex_big = true /\ operand_okb ex_small = true /\ operand_okb ex_in_hole = true /\
  intersects ex_big ex_small = true /\ share_witness ex_big ex_small = true /\
  intersects ex_big ex_in_hole = false /\ share_witness ex_big ex_in_hole = false.
Proof. vm_compute. repeat split; reflexivity. Qed.
