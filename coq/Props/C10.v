(* Property C10 - geometries are immutable values: operations are pure, deterministic, race-free.
   Statements only; proofs are in Proofs/Canon_proofs.v, definitions in Model/Canon.v.

   What is proved here is the LOGIC part of the property:
   (a) the order-canonicalisation steps of the overlay result extraction return the same lists
       whatever order Go's randomised map iteration delivers faces, rings, ring starts, half edges
       and vertices in (sections 1-4);
   (b) the folds performed while ranging over maps are order-free (section 5);
   (c) the meaning of the check that the harness applies to observed call histories (section 6).
   Data races, aliasing of returned slices with operand storage, scheduler interleavings and order
   leaks in code outside the modelled steps are properties of the Go runtime execution: they are
   EXPLORED by the harness (race detector, before/after observation, repetition), not proved. *)
From Coq Require Import List Bool ZArith NArith Arith Permutation Sorted.
From SF Require Import Model.Canon Proofs.Canon_proofs.
Import ListNotations.

(* ---------------------------------------------------------------------------------------------
   1. sort.Slice with the code's comparisons *)

(* sort.Slice's contract determines its result: two sorted arrangements of the same members are
   the same list. Duplicates are allowed: for a strict total order "neither is less" means equal,
   so equal keys are equal values and their relative order cannot be observed. Hence neither the
   (unstable) algorithm nor the arrival order matters. *)
Theorem sort_perm_unique : forall (A : Type) (ltb : A -> A -> bool),
  (forall x y z, ltb x y = true -> ltb y z = true -> ltb x z = true) ->
  (forall x y, ltb x y = false -> ltb y x = false -> x = y) ->
  forall l l', Sorted (le A ltb) l -> Sorted (le A ltb) l' -> Permutation l l' -> l = l'.
Proof. exact sort_perm_unique_lemma. Qed.
Print Assumptions sort_perm_unique.

(* what the code's comparison guarantees: Sequence.less over XY.Less is a strict total order on
   XY sequences (irreflexive, transitive, and incomparable sequences are equal) - including its
   unusual rule that a longer sequence with an equal prefix is the smaller one *)
Theorem seq_less_strict_total :
  (forall s, sq_ltb s s = false) /\
  (forall a b c, sq_ltb a b = true -> sq_ltb b c = true -> sq_ltb a c = true) /\
  (forall a b, sq_ltb a b = false -> sq_ltb b a = false -> a = b).
Proof. exact (conj sq_ltb_irrefl (conj sq_ltb_trans sq_ltb_total)). Qed.
Print Assumptions seq_less_strict_total.

(* sorting members by a KEY (polygons by exterior ring only): if distinct members have distinct
   keys the result is determined ... *)
Theorem sort_by_perm_unique : forall (B K : Type) (ltb : K -> K -> bool) (key : B -> K),
  (forall x y z, ltb x y = true -> ltb y z = true -> ltb x z = true) ->
  (forall x y, ltb x y = false -> ltb y x = false -> x = y) ->
  forall l l',
  (forall x y, In x l -> In y l -> key x = key y -> x = y) ->
  Sorted (le B (fun x y => ltb (key x) (key y))) l -> Sorted (le B (fun x y => ltb (key x) (key y))) l' ->
  Permutation l l' -> l = l'.
Proof. exact sort_by_perm_unique_lemma. Qed.
Print Assumptions sort_by_perm_unique.

(* ... and without that hypothesis only up to the comparison's equivalence: the sequence of keys
   is determined, members with the same key may come in either order. *)
Theorem sort_by_keys_unique : forall (B K : Type) (ltb : K -> K -> bool) (key : B -> K),
  (forall x y z, ltb x y = true -> ltb y z = true -> ltb x z = true) ->
  (forall x y, ltb x y = false -> ltb y x = false -> x = y) ->
  forall l l',
  Sorted (le B (fun x y => ltb (key x) (key y))) l -> Sorted (le B (fun x y => ltb (key x) (key y))) l' ->
  Permutation l l' -> map key l = map key l'.
Proof. exact sort_by_keys_unique_lemma. Qed.
Print Assumptions sort_by_keys_unique.

(* the hypothesis is needed: for two polygons with the same exterior ring and different holes the
   result depends on the arrival order *)
Example sort_by_key_ties_depend_on_arrival_order :
  let p := [[(0,0);(1,0);(0,0)]; [(5,5)]]%Z in let q := [[(0,0);(1,0);(0,0)]; [(7,7)]]%Z in
  isort_by sq_ltb ext_ring [p; q] = [q; p] /\ isort_by sq_ltb ext_ring [q; p] = [p; q].
Proof. vm_compute. split; reflexivity. Qed.

(* ---------------------------------------------------------------------------------------------
   2. Ring start *)

(* Starting the ring walk at another edge of the same cycle does not change the ring that is
   built, when the edges of the cycle are pairwise different (then the least one is unique).
   In the code they are: two half edges of one cycle differ in their first two points, which is
   the key of the halfEdges map. *)
Theorem rotate_to_min_invariant : forall (A : Type) (ltb : A -> A -> bool),
  (forall x, ltb x x = false) ->
  (forall x y z, ltb x y = true -> ltb y z = true -> ltb x z = true) ->
  (forall x y, ltb x y = false -> ltb y x = false -> x = y) ->
  forall k l, NoDup l -> rotate_to_min ltb (rotn k l) = rotate_to_min ltb l.
Proof. exact rotate_to_min_invariant_lemma. Qed.
Print Assumptions rotate_to_min_invariant.

(* rotn k is "skip k, then the first k" (for k up to the length) *)
Theorem rotn_is_rotation : forall (A : Type) k (l : list A),
  k <= length l -> rotn k l = skipn k l ++ firstn k l.
Proof. exact rotn_skipn_firstn. Qed.
Print Assumptions rotn_is_rotation.

(* Without uniqueness of the least edge what remains true: the result is a rotation of the input
   (the same cyclic sequence) and starts with a least element - but WHICH occurrence depends on
   where the walk started. *)
Theorem rotate_to_min_when_not_unique : forall (A : Type) (ltb : A -> A -> bool),
  (forall x, ltb x x = false) ->
  (forall x y z, ltb x y = true -> ltb y z = true -> ltb x z = true) ->
  (forall x y, ltb x y = false -> ltb y x = false -> x = y) ->
  forall l, l <> [] ->
  (exists k, k <= length l /\ rotate_to_min ltb l = skipn k l ++ firstn k l) /\
  (exists x rest, rotate_to_min ltb l = x :: rest /\ forall y, In y l -> ltb y x = false).
Proof.
  intros A ltb Hi Ht Ho l Hne. split.
  - exact (rotate_to_min_is_rotation_lemma A ltb l).
  - exact (rotate_to_min_head_least_lemma A ltb Hi Ht Ho l Hne).
Qed.
Print Assumptions rotate_to_min_when_not_unique.
Example rotate_to_min_not_unique_leaks :
  rotate_to_min Z.ltb [1; 2; 1; 3]%Z = [1; 2; 1; 3]%Z /\
  rotate_to_min Z.ltb (rotn 2 [1; 2; 1; 3]%Z) = [1; 3; 1; 2]%Z.
Proof. vm_compute. split; reflexivity. Qed.

(* ---------------------------------------------------------------------------------------------
   3. Edge orientation and ring order *)

(* whichever twin the halfEdges map yields first, the same orientation is extracted *)
Theorem orient_edge_twin_invariant : forall e : seqT, orient_edge (rev e) = orient_edge e.
Proof. exact orient_edge_rev_lemma. Qed.
Print Assumptions orient_edge_twin_invariant.

(* outer ring first, then the holes in sorted order: independent of the discovery order of the
   rings. The model follows orderPolygonRings as repaired by fix F141 (the LEAST counter-clockwise
   ring goes first; the least ring if there is none): no hypothesis on the rings is needed. Before
   the fix the FIRST counter-clockwise ring found went first, and the statement needed "exactly one
   ring is counter-clockwise" - which invalid operands break (finding F141: the text of the error
   then reported by the set operation varied between identical calls). *)
Theorem order_rings_perm_invariant : forall (A : Type) (ltb : A -> A -> bool) (ccw : A -> bool),
  (forall x, ltb x x = false) ->
  (forall x y z, ltb x y = true -> ltb y z = true -> ltb x z = true) ->
  (forall x y, ltb x y = false -> ltb y x = false -> x = y) ->
  forall l l', Permutation l l' -> order_rings ltb ccw l = order_rings ltb ccw l'.
Proof. exact order_rings_perm_invariant_lemma. Qed.
Print Assumptions order_rings_perm_invariant.
(* what comes first: the least counter-clockwise ring when there is one; the result is a
   rearrangement of the rings *)
Theorem order_rings_head : forall (A : Type) (ltb : A -> A -> bool) (ccw : A -> bool),
  (forall x, ltb x x = false) ->
  (forall x y z, ltb x y = true -> ltb y z = true -> ltb x z = true) ->
  (forall x y, ltb x y = false -> ltb y x = false -> x = y) ->
  forall l o rest, order_rings ltb ccw l = Some (o :: rest) ->
  (filter ccw l <> [] -> ccw o = true /\ forall y, In y l -> ccw y = true -> le A ltb o y) /\
  Permutation (o :: rest) l.
Proof. exact order_rings_head_lemma. Qed.
Print Assumptions order_rings_head.
Example order_rings_examples :
  (* one counter-clockwise ring (the even number): first, the rest sorted *)
  order_rings Z.ltb Z.even [3; 1; 4; 5]%Z = Some [4; 1; 3; 5]%Z /\
  (* several: the least of them, whatever the arrival order *)
  order_rings Z.ltb Z.even [3; 8; 4; 5]%Z = Some [4; 3; 5; 8]%Z /\
  order_rings Z.ltb Z.even [5; 4; 3; 8]%Z = Some [4; 3; 5; 8]%Z /\
  (* none: the least ring *)
  order_rings Z.ltb (fun _ => false) [3; 1; 2]%Z = Some [1; 2; 3]%Z /\
  order_rings Z.ltb (fun _ => false) [2; 3; 1]%Z = Some [1; 2; 3]%Z.
Proof. vm_compute. repeat split; reflexivity. Qed.

(* ---------------------------------------------------------------------------------------------
   4. The extraction pipeline *)

(* cells = polygons as discovered (a list of ring cycles each, a cycle = edge sequences from an
   arbitrary start), es = linear edges (either twin), ps = isolated vertices. Equivalent inputs
   (cells permuted, rings of a cell permuted, every ring walk started anywhere, edges permuted and
   reversed, points permuted) give the identical extracted geometry. Hypotheses: the edges of a
   cycle are pairwise different ([cell_ok]); distinct polygons have distinct exterior rings. *)
Theorem canon_perm_invariant : forall (ccw : seqT -> bool) cells cells' es es' ps ps',
  Forall cell_ok cells ->
  (forall polys, canon_cells ccw cells = Some polys ->
     forall p q, In p polys -> In q polys -> ext_ring p = ext_ring q -> p = q) ->
  cells_equiv cells cells' -> edges_equiv es es' -> Permutation ps ps' ->
  canon ccw cells es ps = canon ccw cells' es' ps'.
Proof. exact canon_perm_invariant_lemma. Qed.
Print Assumptions canon_perm_invariant.

(* non-vacuity: a triangle and a square with a square hole, discovered in two different ways *)
Definition shoelace (r : seqT) : Z :=
  (fix go (l : seqT) : Z :=
     match l with
     | (x0, y0) :: (((x1, y1) :: _) as t) => (x1 + x0) * (y1 - y0) + go t
     | _ => 0
     end)%Z r.
Definition ccwZ (r : seqT) : bool := (0 <? shoelace r)%Z.
Definition t1 : seqT := [(10,0);(12,0)]%Z. Definition t2 : seqT := [(12,0);(10,2)]%Z.
Definition t3 : seqT := [(10,2);(10,0)]%Z.
Definition e1 : seqT := [(0,0);(2,0);(4,0)]%Z. Definition e2 : seqT := [(4,0);(4,4)]%Z.
Definition e3 : seqT := [(4,4);(0,4)]%Z. Definition e4 : seqT := [(0,4);(0,0)]%Z.
Definition h1 : seqT := [(1,1);(1,2)]%Z. Definition h2 : seqT := [(1,2);(2,2)]%Z.
Definition h3 : seqT := [(2,2);(2,1)]%Z. Definition h4 : seqT := [(2,1);(1,1)]%Z.
Definition ex_cells : list (list (list seqT)) := [ [[t1;t2;t3]]; [[e3;e4;e1;e2]; [h2;h3;h4;h1]] ].
Definition ex_cells' : list (list (list seqT)) := [ [[h4;h1;h2;h3]; [e1;e2;e3;e4]]; [[t2;t3;t1]] ].
Definition ex_edges : list seqT := [ [(5,5);(6,6)]; [(9,9);(8,7);(7,7)] ]%Z.
Definition ex_edges' : list seqT := [ [(7,7);(8,7);(9,9)]; [(6,6);(5,5)] ]%Z.
Example canon_example_value :
  canon ccwZ ex_cells ex_edges [(3,3);(1,9)]%Z =
  Some ([ [ [(0,0);(2,0);(4,0);(4,4);(0,4);(0,0)]; [(1,1);(1,2);(2,2);(2,1);(1,1)] ];
          [ [(10,0);(12,0);(10,2);(10,0)] ] ],
        [ [(5,5);(6,6)]; [(7,7);(8,7);(9,9)] ],
        [ (1,9); (3,3) ])%Z.
Proof. vm_compute. reflexivity. Qed.
Example canon_example_hypotheses :
  Forall cell_ok ex_cells /\ cells_equiv ex_cells ex_cells' /\ edges_equiv ex_edges ex_edges'.
Proof.
  split; [|split].
  - repeat constructor; simpl; intuition discriminate.
  - exists [ [[t2;t3;t1]]; [[h4;h1;h2;h3]; [e1;e2;e3;e4]] ]. split; [|apply perm_swap].
    constructor; [|constructor; [|constructor]].
    + exists [[t2;t3;t1]]. split; [|reflexivity]. constructor; [exists 1; reflexivity|constructor].
    + exists [[e1;e2;e3;e4]; [h4;h1;h2;h3]]. split; [|apply perm_swap].
      constructor; [exists 2; reflexivity|constructor; [exists 2; reflexivity|constructor]].
  - exists [ [(6,6);(5,5)]; [(7,7);(8,7);(9,9)] ]%Z. split; [|apply perm_swap].
    constructor; [right; reflexivity|constructor; [right; reflexivity|constructor]].
Qed.
Example canon_example_invariant :
  canon ccwZ ex_cells ex_edges [(3,3);(1,9)]%Z = canon ccwZ ex_cells' ex_edges' [(1,9);(3,3)]%Z.
Proof. vm_compute. reflexivity. Qed.

(* ---------------------------------------------------------------------------------------------
   5. Folds performed while ranging over maps *)

(* a fold with a commutative, associative operation (max of dimensions, boolean or) gives the same
   result for every order of the members *)
Theorem fold_max_order_free : forall (X : Type) (op : X -> X -> X),
  (forall a b, op a b = op b a) -> (forall a b c, op a (op b c) = op (op a b) c) ->
  forall l l', Permutation l l' -> forall s, fold_left op l s = fold_left op l' s.
Proof. exact @fold_op_order_free_lemma. Qed.
Print Assumptions fold_max_order_free.
Example fold_max_instance : forall l l' : list Z, Permutation l l' -> fold_left Z.max l (-1)%Z = fold_left Z.max l' (-1)%Z.
Proof. intros l l' P. apply fold_max_order_free; [apply Z.max_comm|apply Z.max_assoc|exact P]. Qed.

(* extractIntersectionMatrix: vertices, half edges and faces may be visited in any order ... *)
Theorem intersection_matrix_order_free : forall vs vs' es es' fs fs',
  Permutation vs vs' -> Permutation es es' -> Permutation fs fs' ->
  extract_im vs es fs = extract_im vs' es' fs'.
Proof. exact intersection_matrix_order_free_lemma. Qed.
Print Assumptions intersection_matrix_order_free.
(* ... because the three phases of plain assignments compute the maximum dimension per entry *)
Theorem intersection_matrix_is_max_dimension : forall vs es fs c,
  Forall loc_ok vs -> Forall loc_ok es -> Forall loc_ok fs -> loc_ok c ->
  nth (im_index c) (extract_im vs es fs) (-1)%Z = im_spec_entry vs es fs c.
Proof. exact extract_im_is_max_lemma. Qed.
Print Assumptions intersection_matrix_is_max_dimension.
Example intersection_matrix_example :
  extract_im [(0,2);(1,1)] [(0,2);(2,0)] [(2,2);(0,0)] = [2; -1; 1; -1; 0; -1; 1; -1; 2]%Z.
Proof. vm_compute. reflexivity. Qed.

(* populateInSetLabels reads e.prev.inSet, which is still unset when e.prev comes later in the
   iteration; the result is nevertheless independent of the order, because that term is subsumed
   by the label of e.prev's twin, an edge leaving the same vertex ([prev_subsumed]). *)
Theorem populate_labels_order_free : forall (origin prev : nat -> nat) (lbl : nat -> bool) src order order',
  prev_subsumed origin prev lbl order -> Permutation order order' ->
  forall v, populate_labels origin prev lbl src order v = populate_labels origin prev lbl src order' v.
Proof. exact populate_labels_order_free_lemma. Qed.
Print Assumptions populate_labels_order_free.
Theorem populate_labels_is_spec : forall (origin prev : nat -> nat) (lbl : nat -> bool) src order,
  prev_subsumed origin prev lbl order ->
  forall v, populate_labels origin prev lbl src order v = labels_spec origin lbl src order v.
Proof. exact populate_labels_spec_lemma. Qed.
Print Assumptions populate_labels_is_spec.
(* non-vacuity: one dangling edge 0 -> 1 (half edges 0 and 1, each the other's prev), only half
   edge 1 labelled: violates nothing, hypothesis holds because twins carry the same label here *)
Example populate_labels_example :
  let origin := fun e => e in let prev := fun e => 1 - e in let lbl := fun _ : nat => true in
  prev_subsumed origin prev lbl [0; 1] /\
  map (populate_labels origin prev lbl (fun _ => false) [0; 1]) [0; 1; 2] = [true; true; false] /\
  map (populate_labels origin prev lbl (fun _ => false) [1; 0]) [0; 1; 2] = [true; true; false].
Proof.
  split; [|split; reflexivity].
  intros e He _. exists e. repeat split. exact He.
Qed.
(* without the subsumption the stale read leaks: vertex 0 gets its label from edge 1 = prev 0 only
   when edge 1 was visited before edge 0 *)
Example populate_labels_stale_read_leaks :
  let origin := fun e : nat => e in let prev := fun e => 1 - e in let lbl := fun e => e =? 1 in
  populate_labels origin prev lbl (fun _ => false) [0; 1] 0 = false /\
  populate_labels origin prev lbl (fun _ => false) [1; 0] 0 = true.
Proof. split; reflexivity. Qed.

(* fixVertex sorts the incident edges of a vertex (collected in map order) with radialLess, which is
   a strict total order on direction vectors (integer carrier: exact on the lattice) ... *)
Theorem radial_less_strict_total :
  (forall a, radial_ltb a a = false) /\
  (forall a b c, radial_ltb a b = true -> radial_ltb b c = true -> radial_ltb a c = true) /\
  (forall a b, radial_ltb a b = false -> radial_ltb b a = false -> a = b).
Proof. exact (conj radial_ltb_irrefl (conj radial_ltb_trans radial_ltb_total)). Qed.
Print Assumptions radial_less_strict_total.
(* ... so the successor relation it installs around the vertex is the same for every order
   (incident edges with pairwise different directions; with <= 2 edges no sort is done and the
   cyclic order is unique anyway) *)
Theorem fix_vertex_order_free : forall inc inc' : list (nat * (Z * Z)),
  (forall x y, In x inc -> In y inc -> snd x = snd y -> x = y) ->
  Permutation inc inc' -> Permutation (fix_vertex inc) (fix_vertex inc').
Proof. exact fix_vertex_order_free_lemma. Qed.
Print Assumptions fix_vertex_order_free.
Example fix_vertex_example :
  fix_vertex [(7, (0, 1)%Z); (8, (1, 0)%Z); (9, (-1, 0)%Z); (5, (0, -2)%Z)] = [(5, 8); (8, 7); (7, 9); (9, 5)] /\
  fix_vertex [(9, (-1, 0)%Z); (5, (0, -2)%Z); (7, (0, 1)%Z); (8, (1, 0)%Z)] = [(5, 8); (8, 7); (7, 9); (9, 5)].
Proof. vm_compute. split; reflexivity. Qed.

(* vertexRecord.location returns the location of whichever incident edge the map yields first:
   harmless iff all incident edges agree (they do when the face labels around the vertex are
   consistent; not proved here - the overlay construction is not modelled; explored by the harness) *)
Theorem pick_location_order_free : forall l l' : list nat,
  (forall x y, In x l -> In y l -> x = y) -> Permutation l l' -> pick_location l = pick_location l'.
Proof. exact pick_location_order_free_lemma. Qed.
Print Assumptions pick_location_order_free.
Example pick_location_leaks_when_incidents_disagree : pick_location [0; 2] <> pick_location [2; 0].
Proof. discriminate. Qed.

(* ---------------------------------------------------------------------------------------------
   6. Histories. [run sem s cs] is the history of a pure-function model: the store is threaded
   through unchanged and every result is a function of (store, call). Both statements below are
   immediate for such a model - that is the point: they are exactly what the harness checks the
   IMPLEMENTATION against (operands re-observed after every call must be bit-identical to their
   initial observation; equal calls anywhere in a history must return bit-identical results). *)
Theorem history_operands_unchanged : forall (store call result : Type) (sem : store -> call -> result) s cs,
  Forall (fun ev => snd ev = s) (run sem s cs).
Proof. exact history_operands_unchanged_lemma. Qed.
Print Assumptions history_operands_unchanged.

Theorem history_equal_calls_equal_results :
  forall (store call result : Type) (sem : store -> call -> result) s cs i j c r st c' r' st',
  nth_error (run sem s cs) i = Some (c, r, st) -> nth_error (run sem s cs) j = Some (c', r', st') ->
  c = c' -> r = r'.
Proof. exact history_equal_calls_equal_results_lemma. Qed.
Print Assumptions history_equal_calls_equal_results.

(* The executable check the driver runs on every observed history is sound and complete for
   "explainable by a pure model": it accepts iff SOME function of (store, call) reproduces the
   observed history on the initial store. *)
Theorem history_ok_iff_explainable :
  forall (store call result : Type) (store_eqb : store -> store -> bool) (call_eqb : call -> call -> bool)
         (result_eqb : result -> result -> bool),
  (forall x y, store_eqb x y = true <-> x = y) -> (forall x y, call_eqb x y = true <-> x = y) ->
  (forall x y, result_eqb x y = true <-> x = y) ->
  forall (r0 : result) s0 evs,
  history_ok store_eqb call_eqb result_eqb s0 evs = true <->
  exists sem : store -> call -> result, evs = run sem s0 (map (fun ev => fst (fst ev)) evs).
Proof. exact history_ok_iff_explainable_lemma. Qed.
Print Assumptions history_ok_iff_explainable.
(* the instance the driver uses (interned byte strings) *)
Theorem history_ok_N_iff_explainable : forall s0 evs,
  history_ok_N s0 evs = true <-> exists sem : N -> N -> N, evs = run sem s0 (map (fun ev => fst (fst ev)) evs).
Proof. exact (history_ok_iff_explainable N N N N.eqb N.eqb N.eqb N.eqb_eq N.eqb_eq N.eqb_eq 0%N). Qed.
Print Assumptions history_ok_N_iff_explainable.
Example history_examples :
  history_ok_N 7 [(1, 10, 7); (2, 20, 7); (1, 10, 7)]%N = true /\      (* explainable *)
  history_ok_N 7 [(1, 10, 7); (2, 20, 7); (1, 11, 7)]%N = false /\     (* same call, other result *)
  history_ok_N 7 [(1, 10, 7); (2, 20, 8); (1, 10, 8)]%N = false.       (* an operand changed *)
Proof. vm_compute. repeat split; reflexivity. Qed.
