(* Property C11 - R-tree searches are exact, ordered, and stop when told to.
   Statements only; the model is Model/RTree.v (boxes over Z; RangeSearch after fix F1), proofs are
   in Proofs/RTree_proofs.v (boxes, RangeSearch), Proofs/RTree_bulk_proofs.v (bulk loading, Count,
   Extent), Proofs/RTree_qp_proofs.v (quickPartition's contract), Proofs/RTree_prio_proofs.v
   (PrioritySearch, Nearest over an abstract minimum queue), Proofs/RTree_heap_proofs.v (the real
   queue: Go's container/heap on entriesQueue, Model/RTreeHeap.v), Proofs/RTree_scale_proofs.v
   (rescaled populations, Model/RTreeScale.v). *)
From Coq Require Import ZArith List Bool Permutation.
From SF Require Import Base.Outcome Model.RTree Model.RTreeHeap Model.RTreeScale Proofs.RTree_proofs
     Proofs.RTree_bulk_proofs Proofs.RTree_qp_proofs Proofs.RTree_prio_proofs Proofs.RTree_heap_proofs
     Proofs.RTree_scale_proofs.
Import ListNotations.
Open Scope Z_scope.

(* ---------------------------------------------------------------- example values (non-vacuity) *)
(* unit boxes in a row; 5 of them are the smallest population with two levels, 11 exercise the
   4-way split *)
Definition ex_row (n : nat) : list item :=
  map (fun i => MkItem (MkBox (Z.of_nat i) 0 (Z.of_nat i + 1) 1) (Z.of_nat i)) (seq 0 n).
Definition ex_query : box := MkBox (-1) (-1) 100 100.
Definition ex_tree : rtree :=
  match bulk_load (ex_row 11) with Ok t => t | _ => MkTree None 0 end.
Example ex_tree_inv : tree_inv ex_tree = true /\ length (tree_leaves ex_tree) = 11%nat.
Proof. vm_compute. auto. Qed.

(* ---------------------------------------------------------------- what the executable specs say *)
Theorem range_ok_meaning : forall items q cb visits ret,
  range_ok items q cb visits ret = true <->
  exists rest,
    Permutation (visits ++ rest) (filter (fun it => overlap (ibox it) q) items) /\
    match first_stop cb O visits with
    | None => rest = [] /\ ret = RNil
    | Some (k, a) => length visits = S k /\ ret = surface (Some a)
    end.
Proof. exact range_ok_iff. Qed.
Print Assumptions range_ok_meaning.

Theorem prio_ok_meaning : forall items q cb visits ret,
  prio_ok items q cb visits ret = true <->
  exists rest,
    Permutation (visits ++ rest) items /\
    sorted_by (fun it => sqdist (ibox it) q) visits = true /\
    (forall x u, In x visits -> In u rest -> sqdist (ibox x) q <= sqdist (ibox u) q) /\
    match first_stop cb O visits with
    | None => rest = [] /\ ret = RNil
    | Some (k, a) => length visits = S k /\ ret = surface (Some a)
    end.
Proof. exact prio_ok_iff. Qed.
Print Assumptions prio_ok_meaning.

(* ---------------------------------------------------------------- boxes *)
Theorem overlap_iff_common_point : forall a b,
  box_wf a = true -> box_wf b = true ->
  (overlap a b = true <->
   exists x y, (minx a <= x <= maxx a /\ miny a <= y <= maxy a) /\
               (minx b <= x <= maxx b /\ miny b <= y <= maxy b)).
Proof. exact overlap_iff_common_point_lemma. Qed.
Print Assumptions overlap_iff_common_point.

Theorem sqdist_zero_iff_overlap : forall a b,
  box_wf a = true -> box_wf b = true -> (sqdist a b = 0 <-> overlap a b = true).
Proof. exact sqdist_zero_iff_overlap_lemma. Qed.
Print Assumptions sqdist_zero_iff_overlap.

(* key lemma of best-first search: the distance to a box is at most the distance to anything inside it *)
Theorem sqdist_inside_monotone : forall a b q, inside a b = true -> sqdist b q <= sqdist a q.
Proof. exact sqdist_inside_mono. Qed.
Print Assumptions sqdist_inside_monotone.
Example box_hyps_satisfiable :
  box_wf (MkBox 0 0 2 2) = true /\ box_wf (MkBox 2 2 2 5) = true /\
  overlap (MkBox 0 0 2 2) (MkBox 2 2 2 5) = true /\ inside (MkBox 1 1 2 2) (MkBox 0 0 2 2) = true.
Proof. vm_compute. auto. Qed.

(* ---------------------------------------------------------------- bulk loading *)
(* quickPartition (with its LCG and the 2-/3-element special cases) never indexes out of range,
   terminates within the fuel and only permutes the slice ... *)
Theorem quick_partition_perm : forall (l : list item) (k : nat) (horizontal : bool),
  (k < length l)%nat -> exists l', quick_partition l k horizontal = Ok l' /\ Permutation l' l.
Proof. exact quick_partition_total_lemma. Qed.
Print Assumptions quick_partition_perm.

(* ... and meets its documented contract: items 0..k-1 are <= item k <= items k+1..n-1 under the
   box-centre key of the chosen axis (this is about tree quality; search correctness above and
   below does not depend on it) *)
Theorem quick_partition_split : forall (l : list item) (k : nat) (horizontal : bool),
  (k < length l)%nat ->
  exists l', quick_partition l k horizontal = Ok l' /\ Permutation l' l /\
             qp_split_ok horizontal l' k = true.
Proof. intros l k h. exact (quick_partition_split_lemma h l k). Qed.
Print Assumptions quick_partition_split.
Example quick_partition_example :
  match quick_partition (rev (ex_row 9)) 4 true with
  | Ok l' => map iid l' = [0; 1; 2; 3; 4; 6; 7; 8; 5] \/ qp_split_ok true l' 4 = true
  | _ => False
  end.
Proof. vm_compute. auto. Qed.

(* BulkLoad of ANY item list returns a tree (no panic, fuel suffices) whose leaves are a
   permutation of the input ... *)
Theorem bulk_load_perm : forall items,
  exists t, bulk_load items = Ok t /\ Permutation (tree_leaves t) items.
Proof.
  intros items. destruct (bulk_load_ok_lemma items) as (t & H1 & _ & H3 & _). eauto.
Qed.
Print Assumptions bulk_load_perm.

(* ... and which satisfies the structural invariant: every node has 1..4 entries, leaf and branch
   entries are not mixed, every branch box is exactly calculateBound of its child, and Count is
   the number of leaves *)
Theorem bulk_load_inv : forall items,
  exists t, bulk_load items = Ok t /\ tree_inv t = true /\ count t = length items.
Proof.
  intros items. destruct (bulk_load_ok_lemma items) as (t & H1 & H2 & _ & H4). eauto.
Qed.
Print Assumptions bulk_load_inv.

(* ---------------------------------------------------------------- RangeSearch *)
(* Defect F1: the control flow of the pinned revision (Stop returns nil from the current node
   only) violates the statement - the callback is invoked again after it answered Stop. *)
Theorem range_stop_refuted :
  exists items q cb t,
    bulk_load items = Ok t /\ tree_inv t = true /\
    range_ok (tree_leaves t) q cb (fst (range_search_today q cb t)) (snd (range_search_today q cb t)) = false /\
    length (fst (range_search_today q cb t)) = 2%nat.
Proof.
  exists (ex_row 5), ex_query, (fun _ _ => Stop).
  eexists. split; [vm_compute; reflexivity|]. vm_compute. auto.
Qed.
Print Assumptions range_stop_refuted.

(* RangeSearch after the fix, for every tree satisfying the invariant, every query box and every
   callback behaviour: the callback sees each record whose box shares a point with q at most once
   and no other record; all of them when it always answers Continue; nothing after its first
   non-Continue answer; Stop and wrapped Stop surface as nil, any other error unchanged. *)
Theorem range_search_spec : forall (t : rtree) (q : box) (cb : callback),
  tree_inv t = true ->
  range_ok (tree_leaves t) q cb (fst (range_search q cb t)) (snd (range_search q cb t)) = true.
Proof. exact range_search_spec_lemma. Qed.
Print Assumptions range_search_spec.

(* the same, end to end from the loaded items (no hypothesis left) *)
Theorem bulk_range_search_spec : forall items q cb,
  exists t, bulk_load items = Ok t /\
            range_ok items q cb (fst (range_search q cb t)) (snd (range_search q cb t)) = true.
Proof. exact bulk_range_search_lemma. Qed.
Print Assumptions bulk_range_search_spec.

(* sharper: the visited records are a prefix of the overlapping leaves in tree order, so a leaf
   position is never visited twice *)
Theorem range_search_prefix_of_leaves : forall t q cb,
  tree_inv t = true ->
  exists rest, filter (fun it => overlap (ibox it) q) (tree_leaves t) = fst (range_search q cb t) ++ rest.
Proof. exact range_search_prefix. Qed.
Print Assumptions range_search_prefix_of_leaves.

Example range_search_example :
  map iid (fst (range_search (MkBox 3 0 6 0) (script 2 (Fail 7)) ex_tree)) = [2; 3; 4] /\
  snd (range_search (MkBox 3 0 6 0) (script 2 (Fail 7)) ex_tree) = RErr 7 /\
  map iid (fst (range_search (MkBox 3 0 6 0) (script 9 Stop) ex_tree)) = [2; 3; 4; 5; 6].
Proof. vm_compute. auto. Qed.

(* ---------------------------------------------------------------- PrioritySearch / Nearest *)
(* container/heap is abstracted: ANY pop that removes an entry of minimal squared distance *)
Theorem priority_search_spec : forall (pop : heap_pop) (t : rtree) (q : box) (cb : callback),
  heap_spec pop -> tree_inv t = true ->
  exists v ret, priority_search pop q cb t = Some (v, ret) /\
                prio_ok (tree_leaves t) q cb v ret = true.
Proof. exact priority_search_spec_lemma. Qed.
Print Assumptions priority_search_spec.

Theorem nearest_spec : forall (pop : heap_pop) (t : rtree) (q : box),
  heap_spec pop -> tree_inv t = true ->
  exists r, nearest pop t q = Some r /\ nearest_ok (tree_leaves t) q r = true.
Proof. exact nearest_spec_lemma. Qed.
Print Assumptions nearest_spec.

(* the hypothesis on the queue is satisfiable: the queue the model is executed with *)
Theorem pop_min_is_heap : heap_spec pop_min.
Proof. exact pop_min_heap_spec. Qed.
Print Assumptions pop_min_is_heap.

Example priority_search_example :
  match priority_search pop_min (MkBox 5 3 5 3) (script 3 WrappedStop) ex_tree with
  | Some (v, r) => map (fun it => sqdist (ibox it) (MkBox 5 3 5 3)) v = [4; 4; 5; 5] /\ r = RNil
  | None => False
  end.
Proof. vm_compute. auto. Qed.

(* ---------------------------------------------------------------- the REAL queue: container/heap *)
(* Model/RTreeHeap.v transcribes entriesQueue (Less/Swap/Push/Pop on a slice) and Go's
   container/heap (up, down, Push, Pop).  [is_heap o l]: every element of the slice l is <= its two
   children at 2i+1, 2i+2 in the squared distance to o.  (heap_spec above quantifies over ALL
   lists; a binary heap's Pop returns a minimum only of a heap-ordered slice, so the statement
   for the real queue carries the invariant, which Push and Pop maintain from the empty slice.) *)
Theorem real_heap_push_spec : forall (o : box) (l : list entry) (x : entry),
  is_heap o l ->
  exists l', heap_push o l x = Some l' /\ Permutation l' (x :: l) /\ is_heap o l'.
Proof. exact heap_push_ok. Qed.
Print Assumptions real_heap_push_spec.

Theorem real_heap_pop_spec : forall (o : box) (l : list entry),
  is_heap o l -> l <> [] ->
  exists e rest, heap_pop_go o l = Some (e, rest) /\ Permutation l (e :: rest) /\ is_heap o rest /\
                 forall e', In e' rest -> sqdist (ebox e) o <= sqdist (ebox e') o.
Proof. exact heap_pop_ok. Qed.
Print Assumptions real_heap_pop_spec.
Example real_heap_example :
  is_heap ex_query [] /\
  match enqueue (MkBox 5 3 5 3) [] (map (fun it => ELeaf (ibox it) (iid it)) (ex_row 7)) with
  | Some l => match heap_pop_go (MkBox 5 3 5 3) l with
              | Some (e, rest) => sqdist (ebox e) (MkBox 5 3 5 3) = 4 /\ length rest = 6%nat
              | None => False
              end
  | None => False
  end.
Proof. split; [apply is_heap_nil|vm_compute; auto]. Qed.

(* PrioritySearch and Nearest running on the real queue: no hypothesis about the queue is left;
   no index out of range, fuel suffices (the result is Some) *)
Theorem priority_search_heap_spec : forall (t : rtree) (q : box) (cb : callback),
  tree_inv t = true ->
  exists v ret, priority_search_heap q cb t = Some (v, ret) /\
                prio_ok (tree_leaves t) q cb v ret = true.
Proof. exact priority_search_heap_spec_lemma. Qed.
Print Assumptions priority_search_heap_spec.

Theorem nearest_heap_spec : forall (t : rtree) (q : box),
  tree_inv t = true ->
  exists r, nearest_heap t q = Some r /\ nearest_ok (tree_leaves t) q r = true.
Proof. exact nearest_heap_spec_lemma. Qed.
Print Assumptions nearest_heap_spec.

(* end to end from ANY loaded item list *)
Theorem bulk_priority_search_heap_spec : forall items q cb,
  exists t v ret, bulk_load items = Ok t /\ priority_search_heap q cb t = Some (v, ret) /\
                  prio_ok items q cb v ret = true.
Proof. exact bulk_priority_search_heap_lemma. Qed.
Print Assumptions bulk_priority_search_heap_spec.

Theorem bulk_nearest_heap_spec : forall items q,
  exists t r, bulk_load items = Ok t /\ nearest_heap t q = Some r /\ nearest_ok items q r = true.
Proof. exact bulk_nearest_heap_lemma. Qed.
Print Assumptions bulk_nearest_heap_spec.
Example priority_search_heap_example :
  match priority_search_heap (MkBox 5 3 5 3) (script 3 WrappedStop) ex_tree with
  | Some (v, r) => map iid v = [4; 5; 3; 6] /\ r = RNil
  | None => False
  end.
Proof. vm_compute. auto. Qed.

(* Re-entrancy and interleaving: a callback may itself search the same tree (other query, other
   script) and let its answers depend on the result.  Searches are functions of (tree, query,
   script) over an immutable tree, so inner and outer search both meet their specifications. *)
Theorem nested_searches_spec : forall (pop : heap_pop) (t : rtree) (q q2 : box) (cb2 : callback)
    (answer : option (list item * result) -> list item * result -> nat -> Z -> action),
  heap_spec pop -> tree_inv t = true ->
  let inner_p := priority_search pop q2 cb2 t in
  let inner_r := range_search q2 cb2 t in
  let cb := fun k id => answer inner_p inner_r k id in
  (exists v ret, inner_p = Some (v, ret) /\ prio_ok (tree_leaves t) q2 cb2 v ret = true) /\
  range_ok (tree_leaves t) q2 cb2 (fst inner_r) (snd inner_r) = true /\
  (exists v ret, priority_search pop q cb t = Some (v, ret) /\ prio_ok (tree_leaves t) q cb v ret = true) /\
  range_ok (tree_leaves t) q cb (fst (range_search q cb t)) (snd (range_search q cb t)) = true.
Proof. exact nested_searches_spec_lemma. Qed.
Print Assumptions nested_searches_spec.

(* ---------------------------------------------------------------- Count / Extent *)
Theorem count_extent_spec : forall items,
  exists t, bulk_load items = Ok t /\
            count_ok items (count t) = true /\ extent_ok items (extent t) = true.
Proof. exact count_extent_spec_lemma. Qed.
Print Assumptions count_extent_spec.
Example extent_example : extent ex_tree = Some (MkBox 0 0 11 1) /\ count ex_tree = 11%nat.
Proof. vm_compute. auto. Qed.

(* ---------------------------------------------------------------- rescaled populations *)
(* The correspondence run also multiplies an integer layout by an exact power of two 2^k
   (-1074 <= k <= 1000; every ordinate, and every comparison, sum and difference the implementation
   forms of them, stays exact) and judges the implementation's answers on the integer pre-image.
   This is justified by scale equivariance of the whole model: for every factor s > 0, bulk loading
   the scaled items gives the scaled tree (same shape, same ids), and every search on the scaled tree
   with the scaled query visits the same records in the same order and returns the same value. *)
Theorem bulk_load_scale : forall s, 0 < s -> forall items,
  bulk_load (map (scale_item s) items) = omap (scale_tree s) (bulk_load items).
Proof. exact bulk_load_scale_lemma. Qed.
Print Assumptions bulk_load_scale.

Theorem tree_inv_scale : forall s, 0 < s -> forall t, tree_inv (scale_tree s t) = tree_inv t.
Proof. exact tree_inv_scale_lemma. Qed.
Print Assumptions tree_inv_scale.

Theorem range_search_scale : forall s, 0 < s -> forall q cb t,
  range_search (scale_box s q) cb (scale_tree s t)
  = (map (scale_item s) (fst (range_search q cb t)), snd (range_search q cb t)).
Proof. exact range_search_scale_lemma. Qed.
Print Assumptions range_search_scale.

Theorem priority_search_heap_scale : forall s, 0 < s -> forall q cb t,
  priority_search_heap (scale_box s q) cb (scale_tree s t)
  = option_map (fun r => (map (scale_item s) (fst r), snd r)) (priority_search_heap q cb t).
Proof. exact priority_search_heap_scale_lemma. Qed.
Print Assumptions priority_search_heap_scale.

Theorem nearest_heap_scale : forall s, 0 < s -> forall q t,
  nearest_heap (scale_tree s t) (scale_box s q) = option_map (option_map (scale_item s)) (nearest_heap t q).
Proof. exact nearest_heap_scale_lemma. Qed.
Print Assumptions nearest_heap_scale.

Theorem count_extent_scale : forall s, 0 < s -> forall t,
  count (scale_tree s t) = count t /\ extent (scale_tree s t) = option_map (scale_box s) (extent t).
Proof. intros s Hs t. split; [apply count_scale_lemma|apply extent_scale_lemma; exact Hs]. Qed.
Print Assumptions count_extent_scale.

(* the box predicates the searches are built on: sharing a point is invariant, the squared distance
   scales by s*s (so its order and its ties are invariant) *)
Theorem box_predicates_scale : forall s, 0 < s -> forall a b,
  overlap (scale_box s a) (scale_box s b) = overlap a b /\
  sqdist (scale_box s a) (scale_box s b) = s * s * sqdist a b /\
  combine (scale_box s a) (scale_box s b) = scale_box s (combine a b).
Proof.
  intros s Hs a b. split; [apply overlap_scale; exact Hs|]. split; [apply sqdist_scale; exact Hs|apply combine_scale; exact Hs].
Qed.
Print Assumptions box_predicates_scale.

(* the executable statements give the same verdict on a scaled trace as on its pre-image *)
Theorem specs_scale : forall s, 0 < s -> forall items q cb v ret r e,
  range_ok (map (scale_item s) items) (scale_box s q) cb (map (scale_item s) v) ret = range_ok items q cb v ret /\
  prio_ok (map (scale_item s) items) (scale_box s q) cb (map (scale_item s) v) ret = prio_ok items q cb v ret /\
  nearest_ok (map (scale_item s) items) (scale_box s q) (option_map (scale_item s) r) = nearest_ok items q r /\
  extent_ok (map (scale_item s) items) (option_map (scale_box s) e) = extent_ok items e /\
  count_ok (map (scale_item s) items) = count_ok items.
Proof.
  intros s Hs items q cb v ret r e.
  split; [apply range_ok_scale_lemma; exact Hs|]. split; [apply prio_ok_scale_lemma; exact Hs|].
  split; [apply nearest_ok_scale_lemma; exact Hs|]. split; [apply extent_ok_scale_lemma; exact Hs|].
  unfold count_ok. rewrite map_length. reflexivity.
Qed.
Print Assumptions specs_scale.
Example scale_example :
  bulk_load (map (scale_item 1024) (ex_row 11)) = Ok (scale_tree 1024 ex_tree) /\
  map iid (fst (range_search (scale_box 1024 (MkBox 3 0 6 0)) (script 9 Stop) (scale_tree 1024 ex_tree)))
  = [2; 3; 4; 5; 6] /\
  match priority_search_heap (scale_box 1024 (MkBox 5 3 5 3)) (script 3 WrappedStop) (scale_tree 1024 ex_tree) with
  | Some (v, r) => map iid v = [4; 5; 3; 6] /\ r = RNil
  | None => False
  end.
Proof. vm_compute. auto. Qed.

(* Where the implementation's float64 squared distances are rounded (they underflow for ordinates
   below about 2^-538 and overflow above about 2^489) the run evaluates the order clause of the
   PrioritySearch / Nearest statement with the weaker order "x may come before y when the true
   distances say so or the rounded keys say so" (prio_ok_rel / nearest_ok_rel with le_or).  With the
   exact order these ARE prio_ok / nearest_ok, they are monotone in the order, hence the weaker
   statement is implied by the property's statement for any rounded comparison whatsoever: the run
   never demands more there than the property states. *)
Theorem prio_ok_rel_exact : forall q items cb visits ret,
  prio_ok_rel (le_dist q) items cb visits ret = prio_ok items q cb visits ret.
Proof. exact prio_ok_rel_exact_lemma. Qed.
Print Assumptions prio_ok_rel_exact.

Theorem nearest_ok_rel_exact : forall q items r,
  nearest_ok_rel (le_dist q) items r = nearest_ok items q r.
Proof. exact nearest_ok_rel_exact_lemma. Qed.
Print Assumptions nearest_ok_rel_exact.

Theorem ok_rel_monotone : forall (le le' : item -> item -> bool),
  (forall x y, le x y = true -> le' x y = true) ->
  (forall items cb visits ret,
     prio_ok_rel le items cb visits ret = true -> prio_ok_rel le' items cb visits ret = true) /\
  (forall items r, nearest_ok_rel le items r = true -> nearest_ok_rel le' items r = true).
Proof.
  intros le le' H. split.
  - exact (prio_ok_rel_weaken_lemma le le' H).
  - exact (nearest_ok_rel_weaken_lemma le le' H).
Qed.
Print Assumptions ok_rel_monotone.

Theorem rounded_statement_implied : forall q (other : item -> item -> bool) items cb visits ret r,
  (prio_ok items q cb visits ret = true -> prio_ok_rel (le_or q other) items cb visits ret = true) /\
  (nearest_ok items q r = true -> nearest_ok_rel (le_or q other) items r = true).
Proof.
  intros. split; [apply prio_ok_implies_rounded_lemma|apply nearest_ok_implies_rounded_lemma].
Qed.
Print Assumptions rounded_statement_implied.
Example ok_rel_example :
  (* a trace in the order of rounded keys that cannot tell the two records apart (every key 0) is
     accepted by the weaker statement and rejected by the exact one *)
  let a := MkItem (MkBox 3 0 4 1) 1 in let b := MkItem (MkBox 1 0 2 1) 2 in
  let q := MkBox 0 0 0 0 in
  prio_ok_rel (le_or q (fun _ _ => true)) [a; b] (script 5 Stop) [a; b] RNil = true /\
  prio_ok [a; b] q (script 5 Stop) [a; b] RNil = false /\
  prio_ok_rel (le_or q (fun _ _ => false)) [a; b] (script 5 Stop) [a; b] RNil = false.
Proof. vm_compute. auto. Qed.
