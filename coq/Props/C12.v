(* Property C12 - envelopes are the tightest boxes; envelope algebra matches interval arithmetic.
   Statements only; proofs are in Proofs/Envelope_proofs.v. The model (Model/Envelope.v) is a
   transcription of geom/type_envelope.go and of every type's Envelope() method, parametric in the
   ordinate carrier; the theorems are about its integer-lattice instance [ZO] and hold for ALL
   envelopes / geometries over Z (no bound on sizes or nesting).

   Reading guide:  zenv = option box (None = the empty envelope);
     inside b p        p lies in the closed rectangle b            (closed intervals on both axes)
     inside_env e p    the same for an envelope (no point is inside the empty envelope)
     wf_env e          min <= max on both axes - what every exported constructor produces
     Tight ps e        e is empty iff ps = []; otherwise all points of ps are inside e and each
                       of the four sides of e passes through a point of ps
     ctrl_xys g        XY of all control points of g (what DumpCoordinates returns)            *)
From Coq Require Import ZArith QArith List Bool Permutation Lia.
From SF Require Import Base.GeomAST Model.Envelope Proofs.Envelope_proofs.
Import ListNotations.
Open Scope Z_scope.

(* ================= 1. join = ExpandToIncludeEnvelope: commutative idempotent monoid ========== *)
Theorem join_comm : forall a b : zenv, join ZO a b = join ZO b a.
Proof. exact join_comm_lemma. Qed.
Print Assumptions join_comm.

Theorem join_assoc : forall a b c : zenv, join ZO (join ZO a b) c = join ZO a (join ZO b c).
Proof. exact join_assoc_lemma. Qed.
Print Assumptions join_assoc.

Theorem join_idem : forall a : zenv, join ZO a a = a.
Proof. exact join_idem_lemma. Qed.
Print Assumptions join_idem.

Theorem join_empty_identity : forall a : zenv, join ZO None a = a /\ join ZO a None = a.
Proof. exact join_empty_identity_lemma. Qed.
Print Assumptions join_empty_identity.

(* the join is the smallest envelope covering both: it contains both operands' points and is the
   tight box of the union of any two point lists the operands are tight for *)
Theorem join_is_least_cover : forall (l1 l2 : list (Z * Z)) (e1 e2 : zenv),
  Tight l1 e1 -> Tight l2 e2 -> Tight (l1 ++ l2) (join ZO e1 e2).
Proof. exact tight_join. Qed.
Print Assumptions join_is_least_cover.

(* ExpandToIncludeXY is the join with a point envelope; NewEnvelope is the tight box of its arguments *)
Theorem expand_xy_is_join : forall (e : zenv) p, expand_xy ZO e p = join ZO e (new_envelope ZO [p]).
Proof. exact expand_xy_join. Qed.
Print Assumptions expand_xy_is_join.

Theorem new_envelope_tight : forall ps, Tight ps (new_envelope ZO ps).
Proof. exact new_envelope_tight_lemma. Qed.
Print Assumptions new_envelope_tight.

(* a tight box is unique, and depends on the SET of points only *)
Theorem tight_unique : forall ps qs (e1 e2 : zenv),
  (forall p, In p ps <-> In p qs) -> Tight ps e1 -> Tight qs e2 -> e1 = e2.
Proof. exact tight_unique_set. Qed.
Print Assumptions tight_unique.

(* the executable statement evaluated on the implementation's outputs is exactly Tight *)
Theorem tight_spec_iff : forall ps (e : zenv), tight_spec ZO ps e = true <-> Tight ps e.
Proof. exact tight_spec_iff_lemma. Qed.
Print Assumptions tight_spec_iff.

(* ================= 2. predicates against the closed-interval point sets ===================== *)
Theorem contains_iff : forall (e : zenv) p, contains ZO e p = true <-> inside_env e p.
Proof. exact contains_iff_lemma. Qed.
Print Assumptions contains_iff.

Theorem intersects_iff_common_point : forall a b : zenv,
  wf_env a -> wf_env b ->
  (intersects ZO a b = true <-> exists p, inside_env a p /\ inside_env b p).
Proof. exact intersects_iff_lemma. Qed.
Print Assumptions intersects_iff_common_point.

(* Covers is set inclusion when the covered envelope is non-empty ... *)
Theorem covers_iff_subset : forall a b : zbox,
  wf_box b -> (covers ZO (Some a) (Some b) = true <-> forall p, inside b p -> inside a p).
Proof. exact covers_iff_lemma. Qed.
Print Assumptions covers_iff_subset.

(* ... and the empty envelope is absorbing for all three predicates, on either side. For Covers
   this is what type_envelope.go documents ("an envelope can only be covered if it is non-empty"),
   NOT the set-theoretic reading, under which everything would cover the empty envelope. *)
Theorem empty_absorbing : forall (a : zenv) p,
  contains ZO None p = false /\
  intersects ZO None a = false /\ intersects ZO a None = false /\
  covers ZO a None = false /\ covers ZO None a = false.
Proof. exact empty_absorbing_lemma. Qed.
Print Assumptions empty_absorbing.

Theorem intersects_sym : forall a b : zenv, intersects ZO a b = intersects ZO b a.
Proof. exact intersects_sym_lemma. Qed.
Print Assumptions intersects_sym.

Theorem covers_iff_join_absorbs : forall a b : zenv,
  b <> None -> wf_env a -> (covers ZO a b = true <-> join ZO a b = a).
Proof. exact covers_join_lemma. Qed.
Print Assumptions covers_iff_join_absorbs.

(* ================= 3. Distance (squared) ===================================================== *)
(* defined iff both operands are non-empty; a lower bound over all point pairs; attained *)
Theorem dist2_defined : forall a b : zenv, dist2 a b = None <-> (a = None \/ b = None).
Proof. exact dist2_defined_lemma. Qed.
Print Assumptions dist2_defined.

Theorem dist2_lower_bound : forall (a b : zbox) d p q,
  dist2 (Some a) (Some b) = Some d -> inside a p -> inside b q -> d <= sqd p q.
Proof. exact dist2_lower_bound_lemma. Qed.
Print Assumptions dist2_lower_bound.

Theorem dist2_attained : forall a b : zbox,
  wf_box a -> wf_box b ->
  exists d p q, dist2 (Some a) (Some b) = Some d /\ inside a p /\ inside b q /\ sqd p q = d.
Proof. exact dist2_attained_lemma. Qed.
Print Assumptions dist2_attained.

Theorem dist2_sym : forall a b : zenv, dist2 a b = dist2 b a.
Proof. exact dist2_sym_lemma. Qed.
Print Assumptions dist2_sym.

Theorem dist2_zero_iff_intersects : forall a b : zbox,
  wf_box a -> wf_box b -> (dist2 (Some a) (Some b) = Some 0 <-> intersects ZO (Some a) (Some b) = true).
Proof. exact dist2_zero_iff_intersects_lemma. Qed.
Print Assumptions dist2_zero_iff_intersects.

(* ================= 4. classification, measures, centre, accessors =========================== *)
(* exactly one of IsEmpty / IsPoint / IsLine / IsRectangle holds *)
Theorem classification_exclusive_exhaustive : forall e : zenv,
  (b2n (env_is_empty e) + b2n (env_is_point ZO e) + b2n (env_is_line ZO e)
   + b2n (env_is_rectangle ZO e) = 1)%nat.
Proof. exact classification_lemma. Qed.
Print Assumptions classification_exclusive_exhaustive.

Theorem classification_meaning : forall b : zbox, wf_box b ->
  (env_is_point ZO (Some b) = true <-> (minx b = maxx b /\ miny b = maxy b)) /\
  (env_is_line ZO (Some b) = true <-> (area (Some b) = 0 /\ 0 < width (Some b) + height (Some b))) /\
  (env_is_rectangle ZO (Some b) = true <-> 0 < area (Some b)).
Proof. exact classification_meaning_lemma. Qed.
Print Assumptions classification_meaning.

Theorem measures : forall e : zenv,
  area e = width e * height e /\ (wf_env e -> 0 <= width e /\ 0 <= height e /\ 0 <= area e) /\
  width None = 0 /\ height None = 0 /\ area None = 0.
Proof. exact measures_lemma. Qed.
Print Assumptions measures.

(* Center is the midpoint (equidistant from opposite sides) and lies inside; empty -> empty point *)
Theorem center_is_midpoint : forall (b : zbox) (cx cy : Q),
  wf_box b -> center (Some b) = Some (cx, cy) ->
  (cx - inject_Z (minx b) == inject_Z (maxx b) - cx /\ cy - inject_Z (miny b) == inject_Z (maxy b) - cy /\
   inject_Z (minx b) <= cx <= inject_Z (maxx b) /\ inject_Z (miny b) <= cy <= inject_Z (maxy b))%Q.
Proof. exact center_lemma. Qed.
Print Assumptions center_is_midpoint.

Theorem accessors : forall b : zbox,
  env_min ZO (Some b) = MkPoint XY (Some (Build_vtx (minx b) (miny b) 0 0)) /\
  env_max ZO (Some b) = MkPoint XY (Some (Build_vtx (maxx b) (maxy b) 0 0)) /\
  min_max_xys ZO (Some b) = ((minx b, miny b), (maxx b, maxy b), true) /\
  as_box ZO (Some b) = ((minx b, miny b, maxx b, maxy b), true) /\
  env_min ZO None = MkPoint XY None /\ env_max ZO None = MkPoint XY None /\
  snd (min_max_xys ZO None) = false /\ snd (as_box ZO None) = false.
Proof. exact min_max_lemma. Qed.
Print Assumptions accessors.

(* AsGeometry / BoundingDiagonal: the result has the envelope it came from, and AsGeometry's type
   follows the classification *)
Theorem as_geometry_env : forall e : zenv, wf_env e -> env_of ZO (as_geometry ZO e) = e.
Proof. exact as_geometry_env_lemma. Qed.
Print Assumptions as_geometry_env.

Theorem bounding_diagonal_env : forall e : zenv, wf_env e -> env_of ZO (bounding_diagonal ZO e) = e.
Proof. exact bounding_diagonal_env_lemma. Qed.
Print Assumptions bounding_diagonal_env.

Theorem as_geometry_shape : forall e : zenv,
  match as_geometry ZO e with
  | GColl XY [] => env_is_empty e = true
  | GPoint _ => env_is_point ZO e = true
  | GLine _ => env_is_line ZO e = true
  | GPoly _ => env_is_rectangle ZO e = true
  | _ => False
  end.
Proof. exact as_geometry_shape_lemma. Qed.
Print Assumptions as_geometry_shape.

(* TransformXY: the tight box of the images of the two stored corners (for any map fn) *)
Theorem transform_xy_tight : forall fn (b : zbox),
  Tight [fn (minx b, miny b); fn (maxx b, maxy b)] (transform_xy ZO fn (Some b)) /\
  transform_xy ZO fn None = None.
Proof. exact transform_xy_lemma. Qed.
Print Assumptions transform_xy_tight.

(* ================= 5. Envelope() of geometries =============================================== *)
(* every envelope the API hands out is well-formed *)
Theorem envelopes_wf : forall (g : geomT Z) (a b : zenv) ps,
  wf_env (env_of ZO g) /\ wf_env (new_envelope ZO ps) /\ (wf_env a -> wf_env b -> wf_env (join ZO a b)).
Proof. exact envelopes_wf_lemma. Qed.
Print Assumptions envelopes_wf.

(* TIGHTNESS. Envelope() is THE tight box of all control points: empty iff there is none,
   otherwise every control point lies inside and each of the four sides is attained. For polygons
   the code looks at the exterior ring only; the statement therefore carries the hypothesis the
   code relies on: every control point of a hole lies in the box of its exterior ring
   ([holes_in_shell_box], a consequence of validity; trivially true for non-areal geometries). *)
Theorem env_of_tight : forall g : geomT Z,
  holes_in_shell_box ZO g = true -> Tight (ctrl_xys g) (env_of ZO g).
Proof. exact env_of_tight_lemma. Qed.
Print Assumptions env_of_tight.

(* the two halves separately: containment needs the hypothesis, attainment does not *)
Theorem env_of_contains_ctrl : forall g : geomT Z,
  holes_in_shell_box ZO g = true ->
  forall v, In v (geom_vs g) -> inside_env (env_of ZO g) (vxy v).
Proof. exact env_of_contains_ctrl_lemma. Qed.
Print Assumptions env_of_contains_ctrl.

Theorem env_of_sides_attained : forall (g : geomT Z) b,
  env_of ZO g = Some b ->
  (exists p, In p (ctrl_xys g) /\ fst p = minx b) /\ (exists p, In p (ctrl_xys g) /\ snd p = miny b) /\
  (exists p, In p (ctrl_xys g) /\ fst p = maxx b) /\ (exists p, In p (ctrl_xys g) /\ snd p = maxy b).
Proof. exact env_of_sides_attained_lemma. Qed.
Print Assumptions env_of_sides_attained.

(* without hypothesis: Envelope() is the tight box of the positions it visits *)
Theorem env_of_is_new_envelope_of_visited : forall g : geomT Z,
  env_of ZO g = new_envelope ZO (visited_xys g) /\ incl (visited_xys g) (ctrl_xys g).
Proof. exact env_of_visited_incl_lemma. Qed.
Print Assumptions env_of_is_new_envelope_of_visited.

(* EMPTINESS. Envelope() is empty iff the geometry is empty, provided no polygon has an empty
   exterior ring (type_polygon.go:IsEmpty: "Rings are not allowed to be empty") *)
Theorem env_of_empty_iff : forall g : geomT Z,
  shells_nonempty g = true -> (env_of ZO g = None <-> is_empty g = true).
Proof. exact env_of_empty_iff_lemma. Qed.
Print Assumptions env_of_empty_iff.

(* CONVEXITY. The box contains every point of every segment between points it contains; hence
   every point of every edge of the geometry (rational points r = (1-t) u + t v, 0 <= t <= 1) *)
Theorem box_contains_segment : forall (b : zbox) p q r,
  inside b p -> inside b q -> on_segment p q r -> insideQ b r.
Proof. exact box_contains_segment_lemma. Qed.
Print Assumptions box_contains_segment.

Theorem env_of_contains_segment : forall (g : geomT Z) b u v r,
  holes_in_shell_box ZO g = true -> env_of ZO g = Some b ->
  In u (geom_vs g) -> In v (geom_vs g) -> on_segment (vxy u) (vxy v) r -> insideQ b r.
Proof. exact env_of_contains_segment_lemma. Qed.
Print Assumptions env_of_contains_segment.

(* INVARIANCE under representation changes *)
Theorem env_of_reverse : forall g : geomT Z, env_of ZO (reverse_geom g) = env_of ZO g.
Proof. exact env_of_reverse_lemma. Qed.
Print Assumptions env_of_reverse.

(* ForceCoordinatesType to any type (Force2D is the XY case) *)
Theorem env_of_force_coordinates_type : forall ct (g : geomT Z), env_of ZO (force_geom 0 ct g) = env_of ZO g.
Proof. exact env_of_force_lemma. Qed.
Print Assumptions env_of_force_coordinates_type.

(* ForceCW / ForceCCW: whichever rings the orientation test decides to reverse *)
Theorem env_of_force_orientation : forall (keep : bool -> lineT Z -> bool) (g : geomT Z),
  env_of ZO (orient_geom keep g) = env_of ZO g.
Proof. exact env_of_orient_lemma. Qed.
Print Assumptions env_of_force_orientation.

(* member reordering at any collection-like node *)
Theorem env_of_member_permutation : forall g h : geomT Z,
  match g, h with
  | GMPoint _ l, GMPoint _ l' => Permutation l l'
  | GMLine _ l, GMLine _ l' => Permutation l l'
  | GMPoly _ l, GMPoly _ l' => Permutation l l'
  | GColl _ l, GColl _ l' => Permutation l l'
  | _, _ => False
  end -> env_of ZO g = env_of ZO h.
Proof. exact env_of_perm_lemma. Qed.
Print Assumptions env_of_member_permutation.

(* a closed ring v0 .. v0 started at another vertex (drop the closing vertex, rotate by k, close
   again) has the same envelope; so has a polygon whose exterior ring is rotated (holes arbitrary) *)
Theorem env_of_ring_rotation : forall ct c k (v0 : vtx Z) mid hs hs',
  line_env ZO (MkLine c (rotate_closed k (v0 :: mid ++ [v0]))) = line_env ZO (MkLine c (v0 :: mid ++ [v0])) /\
  poly_env ZO (MkPoly ct (MkLine c (rotate_closed k (v0 :: mid ++ [v0])) :: hs')) =
  poly_env ZO (MkPoly ct (MkLine c (v0 :: mid ++ [v0]) :: hs)).
Proof. exact ring_rotation_lemma. Qed.
Print Assumptions env_of_ring_rotation.

(* more generally: the envelope depends only on the SET of visited positions *)
Theorem env_of_depends_on_point_set : forall g h : geomT Z,
  (forall p, In p (visited_xys g) <-> In p (visited_xys h)) -> env_of ZO g = env_of ZO h.
Proof. exact env_of_ext. Qed.
Print Assumptions env_of_depends_on_point_set.

(* COLLECTIONS: the envelope is the join of the members' envelopes *)
Theorem env_of_collection_join : forall ct (gs : list (geomT Z)) (ps : list (pointT Z))
                                        (ls : list (lineT Z)) (ys : list (polyT Z)),
  env_of ZO (GColl ct gs) = fold_right (join ZO) None (map (env_of ZO) gs) /\
  env_of ZO (GMPoint ct ps) = fold_right (join ZO) None (map (point_env ZO) ps) /\
  env_of ZO (GMLine ct ls) = fold_right (join ZO) None (map (line_env ZO) ls) /\
  env_of ZO (GMPoly ct ys) = fold_right (join ZO) None (map (poly_env ZO) ys).
Proof. exact collection_join_lemma. Qed.
Print Assumptions env_of_collection_join.

Theorem env_of_collection_concat : forall ct ct1 ct2 (gs1 gs2 : list (geomT Z)),
  env_of ZO (GColl ct (gs1 ++ gs2)) = join ZO (env_of ZO (GColl ct1 gs1)) (env_of ZO (GColl ct2 gs2)).
Proof. exact env_of_coll_app_lemma. Qed.
Print Assumptions env_of_collection_concat.

(* ================= 6. the enumerating statements of the correspondence run =================== *)
(* On well-formed envelopes the point-enumerating statements evaluated on the implementation's
   outputs (common lattice point; every lattice point of b is one of a; least squared distance
   over all pairs of lattice points) coincide with the modelled methods. *)
Theorem enumerating_specs_agree : forall a b : zenv, wf_env a -> wf_env b ->
  intersects_spec a b = intersects ZO a b /\ covers_spec a b = covers ZO a b /\ dist2_spec a b = dist2 a b.
Proof. exact enumerating_specs_lemma. Qed.
Print Assumptions enumerating_specs_agree.

(* ================= 7. from the lattice to float64 ============================================ *)
(* The same transcription instantiated with the float64 comparison primitives on sign-magnitude
   keys ([KO]; NaN = None, see key_of_bits) computes, on every geometry without NaN, the image of
   what the integer instance computes on the keys. The key of a non-NaN double IS an integer, so
   every NaN-free float64 geometry has the form [map_geom Some g] and the theorems of section 5
   (which only select and compare ordinates) apply to it, modulo the key's identification of -0
   with +0. NaN inputs are covered by the correspondence run only. *)
Theorem env_of_float_keys_agree : forall g : geomT Z,
  env_of KO (map_geom Some g) = lift_env (env_of ZO g).
Proof. exact env_of_lift_lemma. Qed.
Print Assumptions env_of_float_keys_agree.

(* ================= Examples: hypotheses are satisfiable; they are needed ===================== *)
Definition v (x y : Z) : vtx Z := Build_vtx x y 0 0.
(* a valid polygon with a hole, inside a nested collection with empty members *)
Definition ex_shell := MkLine XY [v 0 0; v 10 0; v 10 8; v 0 8; v 0 0].
Definition ex_hole := MkLine XY [v 2 2; v 4 2; v 4 4; v 2 2].
Definition ex_poly := MkPoly XY [ex_shell; ex_hole].
Definition ex_geom : geomT Z :=
  GColl XY [ GPoint (MkPoint XY None); GPoly ex_poly;
             GColl XY [ GMPoint XY [MkPoint XY None; MkPoint XY (Some (v (-3) 5))]; GLine (MkLine XY []) ];
             GMPoly XY [MkPoly XY []; ex_poly] ].
Example ex_hypotheses : holes_in_shell_box ZO ex_geom = true /\ shells_nonempty ex_geom = true.
Proof. vm_compute. split; reflexivity. Qed.
Example ex_envelope : env_of ZO ex_geom = Some (MkBox (-3) 0 10 8).
Proof. vm_compute. reflexivity. Qed.
Example ex_tight : tight_spec ZO (ctrl_xys ex_geom) (env_of ZO ex_geom) = true.
Proof. vm_compute. reflexivity. Qed.

(* the hypothesis of env_of_tight is needed: an (invalid) polygon whose hole sticks out of the
   exterior ring's box has a control point outside its own Envelope() *)
Definition bad_hole := MkLine XY [v 2 2; v 14 2; v 4 4; v 2 2].
Definition bad_poly : geomT Z := GPoly (MkPoly XY [ex_shell; bad_hole]).
Theorem env_tight_needs_hole_hypothesis_refuted :
  exists g : geomT Z, holes_in_shell_box ZO g = false /\
    exists p, In p (ctrl_xys g) /\ contains ZO (env_of ZO g) p = false.
Proof.
  exists bad_poly. split; [vm_compute; reflexivity|].
  exists (14, 2). split; [vm_compute; tauto|vm_compute; reflexivity].
Qed.
Print Assumptions env_tight_needs_hole_hypothesis_refuted.

(* the hypothesis of env_of_empty_iff is needed: an (invalid) polygon with an empty exterior ring
   and a non-empty hole is not empty, has control points, and has the empty envelope *)
Theorem env_empty_needs_shell_hypothesis_refuted :
  exists g : geomT Z, shells_nonempty g = false /\ is_empty g = false /\ geom_vs g <> [] /\ env_of ZO g = None.
Proof.
  exists (GPoly (MkPoly XY [MkLine XY []; ex_hole])).
  repeat split; try (vm_compute; reflexivity). vm_compute. discriminate.
Qed.
Print Assumptions env_empty_needs_shell_hypothesis_refuted.

(* well-formedness is needed for the point-set reading of Intersects: an ill-formed box (min > max,
   not constructible through the exported API) has no point but "intersects" *)
Example intersects_needs_wf :
  intersects ZO (Some (MkBox 3 0 1 5)) (Some (MkBox 0 0 4 4)) = true /\
  forall p, ~ inside (MkBox 3 0 1 5) p.
Proof. split; [reflexivity|]. intros p [H _]. cbn in H. lia. Qed.

(* non-trivial instances of the other statements *)
Example ex_dist2 : dist2 (Some (MkBox 0 0 2 2)) (Some (MkBox 5 6 7 9)) = Some 25.
Proof. reflexivity. Qed.
Example ex_classes :
  map (fun e => (env_is_empty e, env_is_point ZO e, env_is_line ZO e, env_is_rectangle ZO e))
      [None; Some (MkBox 1 2 1 2); Some (MkBox 1 2 1 7); Some (MkBox 1 2 4 2); Some (MkBox 1 2 4 7)]
  = [(true, false, false, false); (false, true, false, false); (false, false, true, false);
     (false, false, true, false); (false, false, false, true)].
Proof. reflexivity. Qed.
Example ex_rotation :
  rotate_closed 2 [v 0 0; v 10 0; v 10 8; v 0 8; v 0 0] = [v 10 8; v 0 8; v 0 0; v 10 0; v 10 8].
Proof. reflexivity. Qed.
Example ex_center : center (Some (MkBox 0 1 3 5)) = Some (3 # 2, 6 # 2)%Q.
Proof. reflexivity. Qed.
