(* Property C12 - envelopes are the tightest boxes; envelope algebra matches interval arithmetic.
   Statements only; proofs are in Proofs/Envelope_proofs.v. *)
From Coq Require Import ZArith QArith List Bool Permutation.
From SF Require Import Base.GeomAST Model.Envelope Proofs.Envelope_proofs.
Import ListNotations.
Open Scope Z_scope.

Theorem join_comm : forall a b : zenv, join ZO a b = join ZO b a.
Proof. exact join_comm_lemma. Qed.
Print Assumptions join_comm.
