(* C12 - the translator tie as statements (nothing else in this file): geom/type_point.go:Envelope and
   geom/type_multi_point.go:Envelope, re-read from the Go source on every run into Gen/FuncsLoop.v, ARE
   Model/Envelope.v:point_env and env_of (GMPoint ..) - for every instance of the comparison primitives (the Z
   lattice and the float keys incl. NaN) and MultiPoints of any size. *)
From Coq Require Import List ZArith.
From SF Require Import Base.FOps Base.GeomAST Gen.FuncsLoop Model.Envelope Proofs.Funcs_tie_Loop_Envelope.

Theorem go_Point_Envelope_is_model : forall (F : Type) (O : Envelope.ops F) (A : fops F) (p : pointT F),
  geom_Point_Envelope (eops F O A) (gpoint F O p) = genv F O (point_env O p).
Proof. exact tie_Point_Envelope. Qed.
Print Assumptions go_Point_Envelope_is_model.

Theorem go_MultiPoint_Envelope_is_model : forall (F : Type) (O : Envelope.ops F) (A : fops F)
    (ct : ctype) (ps : list (pointT F)) (z : Z),
  geom_MultiPoint_Envelope (eops F O A) (Mk_geom_MultiPoint (map (gpoint F O) ps) z)
  = Known (genv F O (env_of O (GMPoint ct ps))).
Proof. exact tie_MultiPoint_Envelope. Qed.
Print Assumptions go_MultiPoint_Envelope_is_model.
