(* Property C13 - ConvexHull is the minimal convex cover; rotated bounding rectangles enclose it.
   Statements only; proofs are in Proofs/Hull_proofs.v, Hull_chain.v (scan invariant), Hull_ring.v
   (assembly of the two chains), Hull_idem.v (set-dependence, uniqueness of strict chains,
   idempotence), Hull_main.v (corollaries, geometry level), Calipers_proofs.v, Calipers_walk.v and
   Hull_scale.v (scale-equivariance).
   Models: Model/Hull.v (carrier Z, the lattice on which the implementation's float arithmetic is
   exact) and Model/Calipers.v (carrier Q). *)
From Coq Require Import ZArith QArith List Bool Permutation Sorting.Sorted.
From SF Require Import Base.GeomAST Model.Hull Model.Calipers Proofs.Hull_proofs Proofs.Hull_chain
  Proofs.Hull_ring Proofs.Hull_idem Proofs.Hull_main Proofs.Calipers_proofs Proofs.Calipers_walk Proofs.Hull_scale.
Import ListNotations.
Open Scope Z_scope.

(* ---- the property itself: for EVERY point list the model's result satisfies the executable
   statement hull_ok (the same boolean the driver evaluates on the implementation's output):
   no points -> nothing; one distinct point -> that Point; otherwise either a two-point line
   between two different input points with every input point on the segment, or a closed ring of
   at least 3 pairwise different input points, every cyclic consecutive triple a strict left turn,
   and every input point on or to the left of every ring edge.  In particular it never panics. *)
Theorem hull_correct : forall ps : list pt, hull_ok ps (hull_pts ps) = true.
Proof. exact hull_correct_lemma. Qed.
Print Assumptions hull_correct.

(* every vertex of the hull is one of the input points *)
Theorem hull_subset : forall (ps : list pt) (v : pt),
  In v (result_pts (hull_pts ps)) -> In v ps.
Proof. exact hull_subset_lemma. Qed.
Print Assumptions hull_subset.

(* the hull covers every input point: on or left of every directed ring edge (i.e. inside the
   counter-clockwise convex polygon) ... *)
Theorem hull_covers : forall (ps ring : list pt) (p a b : pt),
  hull_pts ps = HPoly ring -> In p ps -> In (a, b) (ring_edges ring) -> 0 <= cross a b p.
Proof. exact hull_covers_lemma. Qed.
Print Assumptions hull_covers.
(* ... and in the collinear case on the segment between the two extremes *)
Theorem hull_covers_line : forall (ps : list pt) (a b p : pt),
  hull_pts ps = HLine a b -> In p ps -> on_segment a b p = true.
Proof. exact hull_covers_line_lemma. Qed.
Print Assumptions hull_covers_line.

(* no three consecutive vertices collinear, no repeated vertex: the ring is closed, has at least
   three different vertices, and every consecutive triple (the wrap-around ones included: the ring
   is extended by its second vertex) is a strict left turn *)
Theorem hull_strict : forall (ps ring : list pt), hull_pts ps = HPoly ring ->
  exists v0 v1 rest,
    ring = v0 :: v1 :: rest /\ last ring v0 = v0 /\ (4 <= length ring)%nat /\
    NoDup (removelast ring) /\
    (forall i a b c, nth_error (ring ++ [v1]) i = Some a -> nth_error (ring ++ [v1]) (S i) = Some b ->
                     nth_error (ring ++ [v1]) (S (S i)) = Some c -> 0 < cross a b c).
Proof. exact hull_strict_lemma. Qed.
Print Assumptions hull_strict.

(* the result cases *)
Theorem hull_cases : forall ps : list pt,
  match hull_pts ps with
  | HNoPoints => ps = []
  | HPoint a => In a ps /\ forall q, In q ps -> q = a
  | HLine a b => a <> b /\ In a ps /\ In b ps /\ forall q, In q ps -> on_segment a b q = true
  | HPoly ring => strictly_convex_ring ring = true /\ incl ring ps
  | HPanic => False
  end.
Proof. exact hull_cases_lemma. Qed.
Print Assumptions hull_cases.
Theorem hull_point_case : forall (ps : list pt) (a : pt),
  hull_pts ps = HPoint a <-> (ps <> [] /\ forall q, In q ps -> q = a).
Proof. exact hull_point_iff. Qed.
Print Assumptions hull_point_case.

(* which case occurs is decided by the geometry of the point set: a two-point LineString exactly
   when there are two different points and all points are collinear, a Polygon exactly when the
   points are not all collinear *)
Theorem hull_line_case : forall ps : list pt,
  (exists a b, hull_pts ps = HLine a b) <-> ((exists x y, In x ps /\ In y ps /\ x <> y) /\ all_collinear ps).
Proof. exact hull_line_iff. Qed.
Print Assumptions hull_line_case.
Theorem hull_polygon_case : forall ps : list pt,
  (exists ring, hull_pts ps = HPoly ring) <-> ~ all_collinear ps.
Proof. exact hull_polygon_iff. Qed.
Print Assumptions hull_polygon_case.

(* the result does not depend on the order of the points ... *)
Theorem hull_perm : forall ps ps' : list pt, Permutation ps ps' -> hull_pts ps = hull_pts ps'.
Proof. exact hull_perm_lemma. Qed.
Print Assumptions hull_perm.
(* ... nor on their multiplicity: it is a function of the SET of points *)
Theorem hull_set_ext : forall ps ps' : list pt,
  (forall x, In x ps <-> In x ps') -> hull_pts ps = hull_pts ps'.
Proof. exact hull_set_ext_lemma. Qed.
Print Assumptions hull_set_ext.

(* taking the hull of the hull's vertices changes nothing *)
Theorem hull_idem : forall ps : list pt, hull_pts (result_pts (hull_pts ps)) = hull_pts ps.
Proof. exact hull_idem_lemma. Qed.
Print Assumptions hull_idem.

(* minimality: every half plane A x + B y <= C containing the points contains the hull's
   vertices (and with them, half planes being convex, the hull) *)
Theorem hull_minimal : forall (ps : list pt) (A B C : Z),
  (forall p, In p ps -> A * fst p + B * snd p <= C) ->
  forall v, In v (result_pts (hull_pts ps)) -> A * fst v + B * snd v <= C.
Proof. exact hull_minimal_lemma. Qed.
Print Assumptions hull_minimal.

(* the model's insertion sort stands for sort.Slice: whatever sorted permutation the library
   sort returns, it is this list *)
Theorem sort_slice_determined : forall l l' : list pt,
  Permutation l l' -> StronglySorted (dle 1) l' -> l' = sort l.
Proof. exact sort_unique. Qed.
Print Assumptions sort_slice_determined.

(* ---- geometry level (all seven types, nested collections, empty members) ---- *)
(* ConvexHull never panics; for an empty geometry the result is empty, otherwise it satisfies
   hull_ok for the control points the hull reads *)
Theorem convex_hull_correct : forall g : geomZ,
  exists out, convex_hull g = Some out /\ hull_geom_ok g out = true.
Proof. exact convex_hull_correct_lemma. Qed.
Print Assumptions convex_hull_correct.
Theorem convex_hull_idem : forall g out : geomZ, convex_hull g = Some out -> convex_hull out = Some out.
Proof. exact convex_hull_idem_lemma. Qed.
Print Assumptions convex_hull_idem.
Theorem convex_hull_set_ext : forall g g' : geomZ,
  is_empty g = false -> is_empty g' = false ->
  (forall x, In x (point_set g) <-> In x (point_set g')) -> convex_hull g = convex_hull g'.
Proof. exact convex_hull_set_ext_lemma. Qed.
Print Assumptions convex_hull_set_ext.

(* ---- rotated rectangles (exact, over Q) ---- *)
(* each edge-aligned candidate rectangle of the hull ring contains every hull vertex *)
Theorem cand_rect_covers : forall (ps ring : list pt) (c : cand) (v : pt),
  hull_pts ps = HPoly ring -> In c (candidates ring) -> In v ring ->
  rect_contains (rect_corners (cand_rect c)) (q_of_pt v) = true.
Proof. exact cand_rect_covers_lemma. Qed.
Print Assumptions cand_rect_covers.
(* ... and is tight: each of its three extents is attained by a ring vertex (every side of the
   rectangle touches the ring), so it is the smallest enclosing rectangle with these directions *)
Theorem cand_rect_tight : forall (ring : list pt) (a b : pt), In (a, b) (ring_edges ring) ->
  let c := candidate ring (a, b) in
  exists v1 v2 v3, In v1 ring /\ In v2 ring /\ In v3 ring /\
    dot (sub v1 a) (c_d c) = c_tmin c /\ dot (sub v2 a) (c_d c) = c_tmax c /\
    dot (sub v3 a) (rot90 (c_d c)) = c_hmax c.
Proof. exact cand_rect_tight_lemma. Qed.
Print Assumptions cand_rect_tight.
(* the chosen rectangle is a candidate and minimises the metric (area / squared width) *)
Theorem mbr_is_min_candidate : forall (k : metric_kind) (ring : list pt) (c : cand),
  find_mbr k ring = Some c ->
  In c (candidates ring) /\ forall c', In c' (candidates ring) -> (cand_metric k c <= cand_metric k c')%Q.
Proof. exact mbr_is_min_candidate_lemma. Qed.
Print Assumptions mbr_is_min_candidate.
(* the side origin -> origin+span1 of every candidate lies on the line of its ring edge *)
Theorem mbr_side_collinear : forall (ring : list pt) (a b : pt), a <> b ->
  match rect_corners (cand_rect (candidate ring (a, b))) with
  | c0 :: c1 :: _ => (qcross c0 c1 (q_of_pt a) == 0)%Q /\ (qcross c0 c1 (q_of_pt b) == 0)%Q
  | _ => False
  end.
Proof. exact mbr_side_collinear_lemma. Qed.
Print Assumptions mbr_side_collinear.

(* ---- the rotating-calipers walk itself (findMBR / caliper.update as written: three indices
   advanced while the next vertex is not nearer, fuel 2n+2 per update) ---- *)
(* on every strictly convex counter-clockwise ring whose vertices lie on or left of all its edges
   (what hull_correct gives) the walk terminates, never indexes out of range, and reaches for
   every base edge exactly the extreme projections of the reference candidates *)
Theorem caliper_walk_is_reference : forall ring : list pt,
  ring_convex ring -> walk_candidates ring = Some (candidates ring).
Proof. exact walk_candidates_correct. Qed.
Print Assumptions caliper_walk_is_reference.
Theorem hull_ring_is_convex : forall ps ring : list pt, hull_pts ps = HPoly ring -> ring_convex ring.
Proof. exact hull_ring_convex. Qed.
Print Assumptions hull_ring_is_convex.
(* one caliper on its own: from a start index that is not strictly inside a descent of the
   projection, caliper.update ends at a vertex attaining the maximum over the whole ring *)
Theorem caliper_update_reaches_max : forall (ring : list pt) (off u : pt) (s : nat),
  ring_convex ring -> u <> (0, 0) -> Good ring u s ->
  exists k, caliper_update ring (length ring) off u s = Some (k, dot (sub (P ring k) off) u) /\
            In (P ring k) ring /\ forall v, In v ring -> dot (sub v off) u <= dot (sub (P ring k) off) u.
Proof. exact caliper_update_reaches_max_lemma. Qed.
Print Assumptions caliper_update_reaches_max.
(* findMBR as written (walk, then first strictly smaller metric) returns the reference result,
   and it always returns one on a hull ring *)
Theorem walked_mbr_is_find_mbr : forall (k : metric_kind) (ps ring : list pt),
  hull_pts ps = HPoly ring -> walked_mbr k ring = find_mbr k ring /\ exists c, find_mbr k ring = Some c.
Proof. exact walked_mbr_is_find_mbr_lemma. Qed.
Print Assumptions walked_mbr_is_find_mbr.
(* so minimality and enclosure hold for the WALKED candidates *)
Theorem walked_mbr_is_min : forall (k : metric_kind) (ps ring : list pt) (c : cand),
  hull_pts ps = HPoly ring -> walked_mbr k ring = Some c ->
  exists cs, walk_candidates ring = Some cs /\ In c cs /\
             (forall c', In c' cs -> (cand_metric k c <= cand_metric k c')%Q) /\
             (forall c' v, In c' cs -> In v ring -> rect_contains (rect_corners (cand_rect c')) (q_of_pt v) = true).
Proof. exact walked_mbr_is_min_lemma. Qed.
Print Assumptions walked_mbr_is_min.

(* ---- scale-equivariance (Proofs/Hull_scale.v): the models have no intrinsic scale ---- *)
(* Multiplying every point by a positive integer c multiplies the hull by c (same case, same
   vertices in the same order) ... *)
Theorem hull_scale_equivariant : forall (c : Z) (ps : list pt), 0 < c ->
  hull_pts (map (scl c) ps) = scl_result c (hull_pts ps).
Proof. exact hull_pts_scale_lemma. Qed.
Print Assumptions hull_scale_equivariant.
(* ... the candidates of the scaled ring are the scaled candidates (base vertex and direction times
   c, the three extreme projections times c^2), edge by edge in the same order ... *)
Theorem candidates_scale_equivariant : forall (c : Z) (ring : list pt), 0 < c ->
  candidates (map (scl c) ring) = map (scl_cand c) (candidates ring).
Proof. exact candidates_scale_lemma. Qed.
Print Assumptions candidates_scale_equivariant.
(* ... the rectangle of a scaled candidate is the rectangle of the candidate times c, corner by
   corner (over Q) ... *)
Theorem cand_rect_scale_equivariant : forall (c : Z) (x : cand), 0 < c ->
  Forall2 qpt_eq (rect_corners (cand_rect (scl_cand c x))) (map (qscl c) (rect_corners (cand_rect x))).
Proof. exact scl_rect_corners. Qed.
Print Assumptions cand_rect_scale_equivariant.
(* ... both metrics (area, squared width) are multiplied by c^2 ... *)
Theorem cand_metric_scale : forall (k : metric_kind) (c : Z) (x : cand), 0 < c ->
  (cand_metric k (scl_cand c x) == inject_Z (c * c) * cand_metric k x)%Q.
Proof. exact cand_metric_scale_lemma. Qed.
Print Assumptions cand_metric_scale.
(* ... so the first strict minimum is found at the same edge: findMBR of the scaled ring is the
   scaled findMBR of the ring, and the whole function commutes with scaling.  A case that the
   implementation saw multiplied by 2^k may therefore be judged on its pre-image (classes scaled
   and rescaled of the correspondence); for k < 0 read the statement with the roles exchanged
   (the lattice case is 2^-k times the implementation's input). *)
Theorem find_mbr_scale_equivariant : forall (k : metric_kind) (c : Z) (ring : list pt), 0 < c ->
  find_mbr k (map (scl c) ring) = option_map (scl_cand c) (find_mbr k ring).
Proof. exact find_mbr_scale_lemma. Qed.
Print Assumptions find_mbr_scale_equivariant.
Theorem mbr_scale_equivariant : forall (k : metric_kind) (c : Z) (ps : list pt), 0 < c ->
  mbr_pts k (map (scl c) ps) = scl_mbr c (mbr_pts k ps).
Proof. exact mbr_pts_scale_lemma. Qed.
Print Assumptions mbr_scale_equivariant.

(* ---- non-vacuity ---- *)
(* duplicates of both extremes, collinear points on three hull edges, an interior point *)
Definition ex_pts : list pt :=
  [(1,1); (2,0); (0,0); (2,2); (0,0); (1,0); (0,2); (2,1); (2,2); (1,2); (2,0)].
Example ex_polygon : hull_pts ex_pts = HPoly [(0,0); (2,0); (2,2); (0,2); (0,0)].
Proof. vm_compute. reflexivity. Qed.
Example ex_line : hull_pts [(3,3); (1,1); (2,2); (1,1); (3,3)] = HLine (1,1) (3,3).
Proof. vm_compute. reflexivity. Qed.
Example ex_point : hull_pts [(5,-7); (5,-7)] = HPoint (5,-7).
Proof. vm_compute. reflexivity. Qed.
(* a right triangle: all three edge-aligned rectangles have area 3 - an exact tie; which one the
   implementation returns depends on float rounding of the projections, which is why the
   correspondence compares tied candidates by metric value and not by corner identity *)
Example ex_mbr : match find_mbr MArea [(0,0); (3,0); (3,1); (0,0)] with
                 | Some c => (cand_metric MArea c == 3)%Q
                 | None => False
                 end.
Proof. vm_compute. reflexivity. Qed.
Example ex_geom : convex_hull (GColl XYZ [GPoint (MkPoint XYZ None);
                                           GMPoint XYZ [MkPoint XYZ (Some (Build_vtx 0 0 5 0)); MkPoint XYZ (Some (Build_vtx 4 0 5 0))];
                                           GPoly (MkPoly XYZ [MkLine XYZ [Build_vtx 0 0 1 0; Build_vtx 0 3 1 0; Build_vtx 1 1 1 0; Build_vtx 0 0 1 0]])])
  = Some (GPoly (MkPoly XY [MkLine XY [Build_vtx 0 0 0 0; Build_vtx 4 0 0 0; Build_vtx 0 3 0 0; Build_vtx 0 0 0 0]])).
Proof. vm_compute. reflexivity. Qed.
Example ex_walk : walk_candidates [(0,0); (2,-1); (5,0); (6,3); (3,5); (-1,2); (0,0)]
                  = Some (candidates [(0,0); (2,-1); (5,0); (6,3); (3,5); (-1,2); (0,0)]).
Proof. vm_compute. reflexivity. Qed.
(* a long slab with a slanted tip: the ring starts at the tip (-2,1); its first edge (-2,1)->(0,0)
   gives a rectangle of area 748 and squared width 1936/5, the minima 84 and 4 are on the long
   edge (0,0)->(40,0).  Multiplied by 2^300 the same edge wins (Z and Q: nothing overflows) *)
Definition ex_slab : list pt := [(0,0); (40,0); (40,2); (0,2); (-2,1); (17,1); (40,0); (5,2)].
Example ex_slab_first_edge_not_optimal :
  hull_pts ex_slab = HPoly [(-2,1); (0,0); (40,0); (40,2); (0,2); (-2,1)] /\
  match candidates [(-2,1); (0,0); (40,0); (40,2); (0,2); (-2,1)], mbr_pts MArea ex_slab, mbr_pts MWidth ex_slab with
  | c0 :: _, MRect ca, MRect cw =>
      c_a c0 = (-2,1) /\ (cand_metric MArea c0 == 748)%Q /\ (cand_metric MWidth c0 == 1936 # 5)%Q /\
      c_a ca = (0,0) /\ c_d ca = (40,0) /\ (cand_metric MArea ca == 84)%Q /\
      c_a cw = (0,0) /\ c_d cw = (40,0) /\ (cand_metric MWidth cw == 4)%Q
  | _, _, _ => False
  end.
Proof. vm_compute. repeat split; reflexivity. Qed.
Example ex_slab_scaled :
  match mbr_pts MArea (map (scl (2 ^ 300)) ex_slab) with
  | MRect ca => c_a ca = (0,0) /\ c_d ca = (40 * 2 ^ 300, 0) /\ (cand_metric MArea ca == 84 * inject_Z (2 ^ 600))%Q
  | _ => False
  end.
Proof. vm_compute. repeat split; reflexivity. Qed.
(* no edge optimal for both metrics: areas 6, 21/5, 4, 4 and squared widths 4, 9/5, 2, 2 - the
   minimum-area rectangle stands on (3,1)->(2,2), the minimum-width one on (1,0)->(3,1), and the
   first edge (0,0)->(1,0) is optimal for neither *)
Example ex_area_and_width_optima_differ :
  match mbr_pts MArea [(2,2); (0,0); (3,1); (1,0)], mbr_pts MWidth [(2,2); (0,0); (3,1); (1,0)] with
  | MRect ca, MRect cw =>
      c_a ca = (3,1) /\ (cand_metric MArea ca == 4)%Q /\ (cand_metric MWidth ca == 2)%Q /\
      c_a cw = (1,0) /\ (cand_metric MWidth cw == 9 # 5)%Q /\ (cand_metric MArea cw == 21 # 5)%Q
  | _, _ => False
  end.
Proof. vm_compute. repeat split; reflexivity. Qed.
