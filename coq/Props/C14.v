(* Property C14 - Area, Length and Centroid equal the exact measures of the point set.
   Statements only; proofs are in Proofs/Measure_proofs.v; the model (a transcription of the Go
   code over exact rationals, the square root a function variable [sq]) and the vocabulary of the
   statements ([close], [rot], [geom_rev], [geom_tr], [geom_force], [geom_2d], [rings_related],
   [rings_are_cycles], [geom_closed], [centroid_defined], [shifted], [oxy_eq], [qsum], ...) are in
   Model/Measure.v.

   Shoelace sum = area of the POINT SET (section "the point set" below, Proofs/Measure_slab.v): the
   area of the point set is the exact slab functional [SetOpSpec.area_of] of C01 (sum of the
   trapezoids of the slab decomposition whose witness is a member of the set under the definitional
   membership [Planar.inG]).  Proved for every closed ring: - signed shoelace area = sum of
   (winding number) * (trapezoid area) ([shoelace_is_winding_area]); hence |shoelace| = area_of
   (inG polygon) for every ring whose winding number takes the values 0 / sigma only at the
   trapezoid witnesses ([shoelace_is_slab_area]), and Area() = area_of (inG polygon) for polygons
   with holes under pointwise nesting ([shoelace_is_slab_area_holes]); the hypotheses are
   booleans ([slab_hypotheses], evaluated by the kernel in the Examples and by the extracted code
   on every generated polygon of the correspondence run).  NOT proved: that every simple ring
   satisfies the winding condition (alternation of edge directions in height order - the
   Jordan-curve content); the convex case of the sign is [signed_area_ccw_nonneg].
   The analogous statement for the centroid is not proved (unit-cell oracle in the run).
   Float rounding is not modelled: the theorems are about exact rational arithmetic. *)
From Coq Require Import QArith Qabs ZArith List Bool Permutation.
From SF Require Import Base.GeomAST Model.Measure Proofs.Measure_proofs.
From SF Require Import Model.MeasureScale Proofs.Measure_scale.
From SF Require Base.QKernel Base.Planar Model.SetOpSpec.
From SF Require Import Proofs.Measure_slab.
Import ListNotations.
Open Scope Q_scope.

(* ------------------------------------------------------------------ Area: rings *)

(* the signed area of a closed ring does not depend on the start vertex *)
Theorem area_rotate : forall (k : nat) (l : list xy),
  ring_area_xy (close (rot k l)) == ring_area_xy (close l).
Proof. exact area_rotate_lemma. Qed.
Print Assumptions area_rotate.

(* reversal negates the signed area (every vertex list, closed or not) *)
Theorem area_reverse_neg_ring : forall L : list xy, ring_area_xy (rev L) == - ring_area_xy L.
Proof. exact area_reverse_lemma. Qed.
Print Assumptions area_reverse_neg_ring.

(* the implementation's form sum (x1+x0)(y1-y0)/2 equals the cross-product form
   sum (x0*y1 - x1*y0)/2 on closed rings *)
Theorem shoelace_forms_agree : forall L : list xy,
  ring_closedb L = true -> ring_area_xy L == cross_area_xy L.
Proof. exact shoelace_eq_cross_lemma. Qed.
Print Assumptions shoelace_forms_agree.

(* translation: in general the area changes by a boundary term, which vanishes on closed rings *)
Theorem area_translate_ring_general : forall (t p : xy) (r : list xy),
  ring_area_xy (map (translate t) (p :: r)) ==
  ring_area_xy (p :: r) + fst t * (snd (last r p) - snd p).
Proof. exact area_translate_general. Qed.
Print Assumptions area_translate_ring_general.

(* the fan of Centroid sums twice the shoelace area: the weights of Centroid are those of Area *)
Theorem fan_eq_shoelace : forall (b : xy) (m : list xy),
  fst (fan b (m ++ [b])) == 2 * ring_area_xy (close (b :: m)).
Proof. exact fan_eq_shoelace_lemma. Qed.
Print Assumptions fan_eq_shoelace.

(* sanity anchors *)
Theorem triangle_area : forall a b : Q,
  ring_area_xy [(0, 0); (a, 0); (0, b); (0, 0)] == a * b / 2.
Proof. exact triangle_area_lemma. Qed.
Print Assumptions triangle_area.

Theorem rectangle_area : forall x y w h : Q,
  ring_area_xy [(x, y); (x + w, y); (x + w, y + h); (x, y + h); (x, y)] == w * h.
Proof. exact rectangle_area_lemma. Qed.
Print Assumptions rectangle_area.

(* geometric anchoring: for a convex counter-clockwise vertex cycle the signed area is the sum
   of the areas of the fan triangles (b, p_i, p_i+1), each of them non-negative *)
Theorem signed_area_ccw_nonneg : forall l : list xy, convex_ccw l ->
  ring_area_xy (close l) == qsum (fan_tris l) /\
  Forall (fun a => 0 <= a) (fan_tris l) /\
  0 <= ring_area_xy (close l).
Proof. exact signed_area_ccw_nonneg_lemma. Qed.
Print Assumptions signed_area_ccw_nonneg.

Theorem signed_area_ccw_pos : forall l : list xy,
  strictly_convex_ccw l -> (3 <= length l)%nat -> 0 < ring_area_xy (close l).
Proof. exact signed_area_ccw_pos_lemma. Qed.
Print Assumptions signed_area_ccw_pos.

(* ------------------------------------------------------------------ Area: geometries *)

(* Reverse: unsigned area unchanged, signed area negated; any transform option *)
Theorem area_reverse_neg : forall (tr : option (xy -> xy)) (g : geomT Q),
  geom_area false tr (geom_rev g) == geom_area false tr g /\
  geom_area true tr (geom_rev g) == - geom_area true tr g.
Proof. intros; split; [apply area_reverse_unsigned_lemma|apply area_reverse_signed_lemma]. Qed.
Print Assumptions area_reverse_neg.

(* translation invariance for geometries whose rings are closed *)
Theorem area_translate : forall (s : bool) (t : xy) (g : geomT Q),
  geom_closed g = true -> geom_area s None (geom_tr (translate t) g) == geom_area s None g.
Proof. exact area_translate_lemma. Qed.
Print Assumptions area_translate.

(* Area with a transform option = Area of the transformed geometry *)
Theorem area_transform_option : forall (s : bool) (f : xy -> xy) (g : geomT Q),
  geom_area s (Some f) g == geom_area s None (geom_tr f g).
Proof. exact area_transform_option_lemma. Qed.
Print Assumptions area_transform_option.

(* additivity over members and independence of member / hole order *)
Theorem area_members_additive : forall (s : bool) (tr : option (xy -> xy)) (ct : ctype),
  (forall ps, geom_area s tr (GMPoly ct ps) == qsum (map (fun p => geom_area s tr (GPoly p)) ps)) /\
  (forall gs, geom_area s tr (GColl ct gs) == qsum (map (geom_area s tr) gs)) /\
  (forall a b, geom_area s tr (GColl ct (a ++ b)) ==
               geom_area s tr (GColl ct a) + geom_area s tr (GColl ct b)) /\
  (forall sh hs, poly_area s tr (MkPoly ct (sh :: hs)) ==
                 (if s then ring_area tr sh else Qabs (ring_area tr sh)) +
                 qsum (map (fun h => if s then ring_area tr h else - Qabs (ring_area tr h)) hs)).
Proof.
  intros s tr ct. split; [intros; apply area_members_mpoly|].
  split; [intros; apply coll_area_spec|]. split; [intros; apply area_coll_app|].
  intros; apply poly_area_spec.
Qed.
Print Assumptions area_members_additive.

Theorem area_member_order : forall (s : bool) (tr : option (xy -> xy)) (ct ct' : ctype),
  (forall gs gs', Permutation gs gs' -> geom_area s tr (GColl ct gs) == geom_area s tr (GColl ct' gs')) /\
  (forall ps ps', Permutation ps ps' -> geom_area s tr (GMPoly ct ps) == geom_area s tr (GMPoly ct' ps')) /\
  (forall sh hs hs', Permutation hs hs' ->
     poly_area s tr (MkPoly ct (sh :: hs)) == poly_area s tr (MkPoly ct' (sh :: hs'))).
Proof.
  intros. split; [intros; apply area_coll_perm; assumption|].
  split; [intros; apply area_mpoly_perm; assumption|intros; apply area_holes_perm; assumption].
Qed.
Print Assumptions area_member_order.

(* ------------------------------------------------------------------ invariances of all three measures *)

(* every polygon ring started at another vertex of its cycle: signed and unsigned Area, Length
   and Centroid are unchanged *)
Theorem measures_ring_rotation_invariant : forall (sq : Q -> Q) (g g' : geomT Q),
  rings_related ring_rotated g g' ->
  (forall s, geom_area s None g == geom_area s None g') /\
  geom_length sq g == geom_length sq g' /\
  oxy_eq (geom_centroid sq g) (geom_centroid sq g').
Proof.
  intros sq g g' H. split; [intros s; apply (area_rings_related ring_rotated s None ring_rotated_area g g' H)|].
  apply (geom_sim_measures sq).
  apply (rings_related_sim sq ring_rotated ring_sim_rotated g g' H).
Qed.
Print Assumptions measures_ring_rotation_invariant.

Theorem centroid_rotate_invariant : forall (k : nat) (l : list xy),
  xy_eq (centroid_of_ring_xy (close (rot k l))) (centroid_of_ring_xy (close l)).
Proof. exact centroid_ring_rotate_lemma. Qed.
Print Assumptions centroid_rotate_invariant.

(* Reverse: Length and Centroid unchanged (Area: area_reverse_neg) *)
Theorem centroid_reverse_invariant : forall (sq : Q -> Q) (g : geomT Q),
  (forall a b, a == b -> sq a == sq b) -> rings_are_cycles g ->
  oxy_eq (geom_centroid sq g) (geom_centroid sq (geom_rev g)).
Proof. intros sq g Hsq H. apply (geom_sim_measures sq), (geom_sim_rev sq Hsq), H. Qed.
Print Assumptions centroid_reverse_invariant.

Theorem length_reverse : forall (sq : Q -> Q) (g : geomT Q),
  (forall a b, a == b -> sq a == sq b) -> geom_length sq (geom_rev g) == geom_length sq g.
Proof. intros sq g Hsq. apply (length_rev_lemma sq Hsq g). Qed.
Print Assumptions length_reverse.

(* ForceCW (cw = true) / ForceCCW (cw = false) *)
Theorem centroid_force_cw_invariant : forall (sq : Q -> Q) (cw : bool) (g : geomT Q),
  rings_are_cycles g ->
  geom_area false None g == geom_area false None (geom_force cw g) /\
  geom_length sq g == geom_length sq (geom_force cw g) /\
  oxy_eq (geom_centroid sq g) (geom_centroid sq (geom_force cw g)).
Proof. intros sq cw g H. apply (geom_sim_measures sq), (geom_sim_force sq), H. Qed.
Print Assumptions centroid_force_cw_invariant.

(* Z and M never influence a measure *)
Theorem zm_irrelevant : forall (sq : Q -> Q) (g : geomT Q),
  (forall s tr, geom_area s tr g == geom_area s tr (geom_2d g)) /\
  geom_length sq g == geom_length sq (geom_2d g) /\
  oxy_eq (geom_centroid sq g) (geom_centroid sq (geom_2d g)).
Proof.
  intros sq g. split; [intros; apply area_2d|].
  destruct (geom_sim_measures sq g (geom_2d g) (geom_sim_2d sq g)) as [_ H]. exact H.
Qed.
Print Assumptions zm_irrelevant.

(* member reordering: Centroid (Area: area_member_order, Length: length_additive) *)
Theorem centroid_member_order : forall (sq : Q -> Q) (ct ct' : ctype),
  (forall gs gs', Permutation gs gs' ->
     oxy_eq (geom_centroid sq (GColl ct gs)) (geom_centroid sq (GColl ct' gs'))) /\
  (forall ps ps', Permutation ps ps' ->
     oxy_eq (geom_centroid sq (GMPoly ct ps)) (geom_centroid sq (GMPoly ct' ps'))) /\
  (forall sh hs hs', Permutation hs hs' ->
     oxy_eq (geom_centroid sq (GPoly (MkPoly ct (sh :: hs)))) (geom_centroid sq (GPoly (MkPoly ct' (sh :: hs'))))).
Proof.
  intros sq ct ct'. split; [intros; apply coll_centroid_perm; assumption|].
  split; [intros; apply mpoly_centroid_perm; assumption|intros; apply poly_centroid_holes_perm; assumption].
Qed.
Print Assumptions centroid_member_order.

(* ------------------------------------------------------------------ Centroid *)

(* translation equivariance, for every geometry whose centroid computation divides by
   non-zero numbers only *)
Theorem centroid_translate_equivariant : forall (sq : Q -> Q) (t : xy) (g : geomT Q),
  (forall a b, a == b -> sq a == sq b) -> centroid_defined sq g ->
  shifted t (geom_centroid sq g) (geom_centroid sq (geom_tr (translate t) g)).
Proof. intros sq t g Hsq H. apply (centroid_translate_lemma sq Hsq t g H). Qed.
Print Assumptions centroid_translate_equivariant.

(* the centroid of a multipolygon is the area-weighted mean of the member centroids
   (empty members have area 0 and centroid "none": they contribute nothing) *)
Theorem centroid_members_weighted : forall ps : list (polyT Q),
  forallb (@poly_empty Q) ps = false ->
  exists c, mpoly_centroid ps = Some c /\
    fst c == qsum (map (fun p => poly_area false None p * ocx (poly_centroid p)) ps)
             / qsum (map (poly_area false None) ps) /\
    snd c == qsum (map (fun p => poly_area false None p * ocy (poly_centroid p)) ps)
             / qsum (map (poly_area false None) ps).
Proof. exact mpoly_centroid_spec. Qed.
Print Assumptions centroid_members_weighted.

(* the centroid of a polygon is the mean of the ring centroids weighted by +|shell|, -|hole| *)
Theorem centroid_rings_weighted : forall (ct : ctype) (sh : lineT Q) (hs : list (lineT Q)),
  let S := ring_w true sh + qsum (map (ring_w false) hs) in
  exists c, poly_centroid (MkPoly ct (sh :: hs)) = Some c /\
    fst c == (ring_w true sh * fst (centroid_of_ring sh)
              + qsum (map (fun h => ring_w false h * fst (centroid_of_ring h)) hs)) / S /\
    snd c == (ring_w true sh * snd (centroid_of_ring sh)
              + qsum (map (fun h => ring_w false h * snd (centroid_of_ring h)) hs)) / S /\
    poly_area false None (MkPoly ct (sh :: hs)) == S.
Proof. exact poly_centroid_spec. Qed.
Print Assumptions centroid_rings_weighted.

(* the dimension rule of collections: empty -> empty Point; otherwise the rule is selected by
   the largest dimension of a non-empty leaf; with an areal leaf only non-empty areal leaves
   count (area-weighted), else only lineal leaves (length-weighted), else only points *)
Theorem centroid_dimension_rule : forall (sq : Q -> Q) (ct : ctype) (gs : list (geomT Q)),
  let g := GColl ct gs in
  let lv := leaves g in
  hdim g = list_max (map leaf_dim lv) /\
  (is_empty g = true -> geom_centroid sq g = None) /\
  (is_empty g = false ->
     geom_centroid sq g = Some (match hdim g with
                                | 0%nat => coll_point_centroid lv
                                | 1%nat => coll_linear_centroid sq lv
                                | _ => coll_areal_centroid sq lv
                                end)) /\
  xy_eq (coll_areal_centroid sq lv)
        (coll_areal_centroid sq (filter (fun x => is_areal x && negb (is_empty x))%bool lv)) /\
  coll_linear_centroid sq lv = coll_linear_centroid sq (filter is_lineal lv) /\
  coll_point_centroid lv = coll_point_centroid (filter is_puntal lv).
Proof.
  intros sq ct gs g lv. split; [apply hdim_leaves|].
  split; [intros H; unfold g in *; cbn [is_empty] in H; cbn [geom_centroid]; unfold coll_centroid; rewrite H; reflexivity|].
  split; [intros H; unfold g in *; cbn [is_empty] in H; cbn [geom_centroid]; unfold coll_centroid; rewrite H;
          destruct (hdim (GColl ct gs)) as [|[|k]]; reflexivity|].
  split; [apply areal_dominates_lemma, leaves_are_leaves|].
  split; [apply lineal_only_lemma|apply puntal_only_lemma].
Qed.
Print Assumptions centroid_dimension_rule.

(* ------------------------------------------------------------------ Length *)

Theorem length_additive : forall (sq : Q -> Q) (ct : ctype),
  (forall gs, geom_length sq (GColl ct gs) == qsum (map (geom_length sq) gs)) /\
  (forall ls, geom_length sq (GMLine ct ls) == qsum (map (fun l => geom_length sq (GLine l)) ls)) /\
  (forall a b, geom_length sq (GColl ct (a ++ b)) == geom_length sq (GColl ct a) + geom_length sq (GColl ct b)) /\
  (forall gs gs', Permutation gs gs' -> geom_length sq (GColl ct gs) == geom_length sq (GColl ct gs')) /\
  (* a line string split at a vertex *)
  (forall a b x, length_xy sq (a ++ x :: b) == length_xy sq (a ++ [x]) + length_xy sq (x :: b)).
Proof.
  intros sq ct. split; [intros; apply geom_length_coll|].
  split; [intros; rewrite geom_length_mline; apply qsum_map_ext_all; intros; symmetry; apply geom_length_line|].
  split; [intros; apply length_coll_app|]. split; [intros; apply length_coll_perm; assumption|].
  intros; apply length_xy_app.
Qed.
Print Assumptions length_additive.

Theorem length_translate : forall (sq : Q -> Q) (t : xy) (g : geomT Q),
  (forall a b, a == b -> sq a == sq b) ->
  geom_length sq (geom_tr (translate t) g) == geom_length sq g.
Proof. intros sq t g Hsq. apply (length_translate_lemma sq Hsq t g). Qed.
Print Assumptions length_translate.

(* multiplying the square root by a non-zero constant multiplies Length and leaves Centroid
   unchanged (this is what lets the correspondence driver evaluate the lineal formulas with
   the integer-valued 2^80 * sqrt bracket) *)
Theorem sqrt_scale_invariant : forall (sq : Q -> Q) (k : Q) (g : geomT Q),
  ~ k == 0 ->
  geom_length (fun q => k * sq q) g == k * geom_length sq g /\
  oxy_eq (geom_centroid (fun q => k * sq q) g) (geom_centroid sq g).
Proof.
  intros sq k g Hk. split; [apply (geom_length_sqk sq k g)|apply (geom_centroid_sqk sq k Hk g)].
Qed.
Print Assumptions sqrt_scale_invariant.

(* ------------------------------------------------------------------ scale equivariance *)

(* multiplying every X and Y by c ([scale c], Z/M kept) multiplies Area by c^2 (any c, signed or
   not, every type) ... *)
Theorem area_scale_equivariant : forall (c : Q) (s : bool) (g : geomT Q),
  geom_area s None (geom_tr (scale c) g) == c * c * geom_area s None g.
Proof. exact geom_area_scale. Qed.
Print Assumptions area_scale_equivariant.

(* ... Length by c, when the root used on the scaled geometry is homogeneous with the one used on
   the original, root' (c^2 x) = c root x (math.Sqrt with root' = root, c >= 0) ... *)
Theorem length_scale_equivariant : forall (c : Q) (sq sq' : Q -> Q),
  respects_eq sq' -> sqrt_homogeneous c sq sq' ->
  forall g : geomT Q, geom_length sq' (geom_tr (scale c) g) == c * geom_length sq g.
Proof. exact geom_length_scale. Qed.
Print Assumptions length_scale_equivariant.

(* ... and Centroid by c, for c <> 0, whatever the size of the geometry: there is no hypothesis on
   areas, lengths or ordinate magnitudes (areal, lineal and puntal geometries, collections; an
   empty centroid stays empty).  A centroid that changes its rule below some absolute area or
   length contradicts this. *)
Theorem centroid_scale_equivariant : forall (c : Q) (sq sq' : Q -> Q),
  respects_eq sq' -> sqrt_homogeneous c sq sq' -> ~ c == 0 ->
  forall g : geomT Q, oxy_eq (geom_centroid sq' (geom_tr (scale c) g)) (oscale c (geom_centroid sq g)).
Proof. exact geom_centroid_scale. Qed.
Print Assumptions centroid_scale_equivariant.

(* the hypotheses on the root are satisfiable for every root function and every factor c <> 0 *)
Theorem sqrt_homogeneous_satisfiable : forall (c : Q) (sq : Q -> Q), respects_eq sq -> ~ c == 0 ->
  let sq' := fun y => c * sq (y / (c * c)) in respects_eq sq' /\ sqrt_homogeneous c sq sq'.
Proof. exact sqrt_homogeneous_witness. Qed.
Print Assumptions sqrt_homogeneous_satisfiable.

(* ------------------------------------------------------------------ the point set *)

(* for EVERY closed ring (simple or not), in any arrangement (L, P) that contains its edges:
   minus the signed shoelace area is the sum over the trapezoids of the slab decomposition of
   (winding number of the ring at the trapezoid's witness) * (area of the trapezoid) *)
Theorem shoelace_is_winding_area : forall (L : list QKernel.seg) (P ps : list QKernel.pt),
  incl (QKernel.ring_edges ps) L -> Planar.pts_closed ps = true ->
  - ring_area_xy ps ==
  cells_wsum (SetOpSpec.slab_cells L (Planar.events (Planar.vertex_set L P)))
             (fun p => inject_Z (zwind (QKernel.ring_edges ps) p)).
Proof. exact shoelace_is_winding_area_lemma. Qed.
Print Assumptions shoelace_is_winding_area.

(* a ring whose winding number is 0 or sigma at every trapezoid witness (sigma = -1:
   counter-clockwise, +1: clockwise; true of simple rings, decidable): the absolute shoelace area
   is the slab area of the point set of the polygon bounded by the ring *)
Theorem shoelace_is_slab_area : forall (L : list QKernel.seg) (P : list QKernel.pt) ct (l : lineT Q) (sigma : Z),
  incl (Planar.line_segs l) L -> Planar.pts_closed (Planar.line_pts l) = true -> (sigma = 1 \/ sigma = -1)%Z ->
  winding_simple sigma (QKernel.ring_edges (Planar.line_pts l))
                 (SetOpSpec.slab_cells L (Planar.events (Planar.vertex_set L P))) = true ->
  Qabs (ring_area_xy (Planar.line_pts l)) == SetOpSpec.area_of L P (Planar.inG (GPoly (MkPoly ct [l]))).
Proof. exact shoelace_is_slab_area_lemma. Qed.
Print Assumptions shoelace_is_slab_area.

(* polygon with holes: Area() of the model (|shell| - sum |holes|) is the slab area of the point
   set, when every ring satisfies the winding condition and the nesting is valid at the witnesses
   (a witness lies in at most one hole, and then in the shell) *)
Theorem shoelace_is_slab_area_holes :
  forall (L : list QKernel.seg) (P : list QKernel.pt) ct (sh : lineT Q) (hs : list (lineT Q)),
  let cells := SetOpSpec.slab_cells L (Planar.events (Planar.vertex_set L P)) in
  (forall r, In r (sh :: hs) ->
     incl (Planar.line_segs r) L /\ Planar.pts_closed (Planar.line_pts r) = true /\
     exists sigma, (sigma = 1 \/ sigma = -1)%Z /\ winding_simple sigma (QKernel.ring_edges (Planar.line_pts r)) cells = true) ->
  nesting_ok sh hs cells = true ->
  poly_area false None (MkPoly ct (sh :: hs)) == SetOpSpec.area_of L P (Planar.inG (GPoly (MkPoly ct (sh :: hs)))).
Proof. exact shoelace_is_slab_area_holes_lemma. Qed.
Print Assumptions shoelace_is_slab_area_holes.

(* executable form: one boolean per polygon (in the arrangement of its own rings) *)
Theorem slab_hypotheses_imply_area : forall ct (rings : list (lineT Q)),
  slab_hypotheses (MkPoly ct rings) = true ->
  poly_area false None (MkPoly ct rings) == slab_area (MkPoly ct rings).
Proof. exact slab_hypotheses_sound. Qed.
Print Assumptions slab_hypotheses_imply_area.

(* ------------------------------------------------------------------ Examples (non-vacuity, tightness) *)

Definition v (x y : Z) : vtx Q := Build_vtx (inject_Z x) (inject_Z y) 7 (-3).
Definition ln (l : list (Z * Z)) : lineT Q := MkLine XYZM (map (fun p => v (fst p) (snd p)) l).
(* 6x4 rectangle with a 2x2 hole; shell counter-clockwise, hole clockwise *)
Definition ex_poly : polyT Q :=
  MkPoly XYZM [ln [(0,0);(6,0);(6,4);(0,4);(0,0)]; ln [(1,1);(1,3);(3,3);(3,1);(1,1)]]%Z.
Definition ex_tri : polyT Q := MkPoly XYZM [ln [(10,0);(13,0);(10,3);(10,0)]]%Z.
Definition ex_coll : geomT Q :=
  GColl XYZM [GPoint (MkPoint XYZM None); GLine (ln [(0,0);(3,4)]%Z);
              GMPoly XYZM [ex_poly; MkPoly XYZM []; ex_tri];
              GColl XYZM [GPoint (MkPoint XYZM (Some (v 100 100))); GPoly (MkPoly XYZM [])]].

Example ex_area : geom_area false None (GPoly ex_poly) == 20 /\ geom_area true None (GPoly ex_poly) == 20
                  /\ geom_area true None (geom_rev (GPoly ex_poly)) == -20.
Proof. vm_compute. repeat split; reflexivity. Qed.
(* centroid of the rectangle with a hole: (6*4*(3,2) - 2*2*(2,2)) / 20 = (16/5, 2) *)
Example ex_centroid_poly : oxy_eq (poly_centroid ex_poly) (Some (16 # 5, 2)).
Proof. vm_compute. split; reflexivity. Qed.
Example ex_centroid_triangle : oxy_eq (poly_centroid ex_tri) (Some (11, 1)).
Proof. vm_compute. split; reflexivity. Qed.
Example ex_centroid_rectangle :
  oxy_eq (poly_centroid (MkPoly XY [ln [(2,1);(8,1);(8,5);(2,5);(2,1)]%Z])) (Some (5, 3)).
Proof. vm_compute. split; reflexivity. Qed.
(* the collection: areal members dominate; the far-away point and the line do not matter *)
Definition ex_sq (q : Q) : Q := if Qeq_bool q 25 then 5 else 0.   (* a square root that is right on the one radicand used *)
Example ex_centroid_coll :
  oxy_eq (geom_centroid ex_sq ex_coll) (Some ((20 * (16 # 5) + (9 # 2) * 11) / (49 # 2), (20 * 2 + (9 # 2) * 1) / (49 # 2))).
Proof. vm_compute. split; reflexivity. Qed.
(* without the areal member the line decides: midpoint of (0,0)-(3,4), length 5 *)
Example ex_centroid_coll_lineal :
  oxy_eq (geom_centroid ex_sq (GColl XY [GPoint (MkPoint XY (Some (v 100 100))); GLine (ln [(0,0);(3,4)]%Z); GPoly (MkPoly XY [])]))
         (Some (3 # 2, 2)) /\
  geom_length ex_sq ex_coll == 5.
Proof. vm_compute. repeat split; reflexivity. Qed.
(* hypotheses are satisfiable by these values *)
Example ex_hyps : geom_closed ex_coll = true /\ hdim ex_coll = 2%nat /\ is_empty ex_coll = false.
Proof. vm_compute. repeat split; reflexivity. Qed.
Example ex_cycles : rings_are_cycles (GPoly ex_poly).
Proof.
  unfold rings_are_cycles. cbn [geom_rings ex_poly poly_rings]. repeat constructor.
  - exists [(0, 0); (6, 0); (6, 4); (0, 4)]. vm_compute. reflexivity.
  - exists [(1, 1); (1, 3); (3, 3); (3, 1)]. vm_compute. reflexivity.
Qed.
Example ex_convex : strictly_convex_ccw [(0, 0); (6, 0); (6, 4); (0, 4)] /\ convex_ccw [(0, 0); (6, 0); (6, 4); (0, 4)].
Proof.
  assert (H : strictly_convex_ccw [(0, 0); (6, 0); (6, 4); (0, 4)]).
  { intros i j k Hij Hjk Hk. cbn [length] in Hk.
    destruct i as [|[|[|[|i]]]], j as [|[|[|[|j]]]], k as [|[|[|[|k]]]];
      try (exfalso; Lia.lia); vm_compute; reflexivity. }
  split; [exact H|]. intros i j k A B C. apply Qlt_le_weak, H; assumption.
Qed.
(* scale equivariance on the right triangle (0 0, 4 0, 0 3) shrunk by 2^-22 (area 6 * 2^-44, below
   1e-12): the centroid is still the areal one, (4/3, 1) * 2^-22, not the boundary's (3/2, 1) * 2^-22;
   and in a collection next to a point and a line (root: the witness of sqrt_homogeneous_satisfiable) *)
Definition ex_rtri : polyT Q := MkPoly XYZM [ln [(0,0);(4,0);(0,3);(0,0)]]%Z.
Definition ex_c : Q := 1 # 4194304.
Definition ex_sq' (y : Q) : Q := ex_c * ex_sq (y / (ex_c * ex_c)).
Example ex_scale_hyps : respects_eq ex_sq' /\ sqrt_homogeneous ex_c ex_sq ex_sq' /\ ~ ex_c == 0.
Proof.
  assert (P : respects_eq ex_sq).
  { intros a b Hab. unfold ex_sq. rewrite (Qeq_bool_eq a b 25 25 Hab (Qeq_refl _)). reflexivity. }
  assert (N : ~ ex_c == 0) by (vm_compute; discriminate).
  destruct (sqrt_homogeneous_satisfiable ex_c ex_sq P N) as [H1 H2]. repeat split; assumption.
Qed.
Example ex_scale_centroid :
  oxy_eq (geom_centroid ex_sq' (geom_tr (scale ex_c) (GPoly ex_rtri))) (Some ((4 # 3) * ex_c, 1 * ex_c)) /\
  geom_area false None (geom_tr (scale ex_c) (GPoly ex_rtri)) == 6 * ex_c * ex_c /\
  oxy_eq (geom_centroid ex_sq' (geom_tr (scale ex_c)
            (GColl XY [GPoint (MkPoint XY (Some (v 17 5))); GLine (ln [(0,0);(3,4)]%Z); GPoly ex_rtri])))
         (Some ((4 # 3) * ex_c, 1 * ex_c)) /\
  geom_length ex_sq' (geom_tr (scale ex_c) (GLine (ln [(0,0);(3,4)]%Z))) == 5 * ex_c /\
  oxy_eq (geom_centroid ex_sq' (geom_tr (scale ex_c) (GLine (ln [(0,0);(3,4)]%Z)))) (Some ((3 # 2) * ex_c, 2 * ex_c)).
Proof. vm_compute. repeat split; reflexivity. Qed.
(* c <> 0 is needed: scaled by 0 a line has no length and its centroid is empty *)
Example ex_scale_needs_nonzero :
  geom_centroid ex_sq (geom_tr (scale 0) (GLine (ln [(0,0);(3,4)]%Z))) = None /\
  geom_centroid ex_sq (GLine (ln [(0,0);(3,4)]%Z)) <> None.
Proof. vm_compute. split; [reflexivity|discriminate]. Qed.
(* the closedness hypothesis of the translation theorems is needed: an open vertex list *)
Example ex_translate_needs_closed :
  ring_closedb [(0, 0); (1, 0); (1, 1)] = false /\
  ~ ring_area_xy (map (translate (5, 0)) [(0, 0); (1, 0); (1, 1)]) == ring_area_xy [(0, 0); (1, 0); (1, 1)].
Proof. split; [reflexivity|]. vm_compute. discriminate. Qed.
(* the non-degeneracy hypothesis of centroid_translate_equivariant is needed: a ring of zero
   area (Go: NaN; here x/0 = 0) *)
Example ex_translate_needs_nondegenerate :
  let p := MkPoly XY [ln [(0,0);(1,1);(2,2);(0,0)]%Z] in
  poly_area false None p == 0 /\
  ~ shifted (1, 0) (poly_centroid p) (poly_centroid (poly_tr (translate (1, 0)) p)).
Proof. split; [vm_compute; reflexivity|]. vm_compute. intros [H _]. discriminate. Qed.
(* rotation and reversal act as expected on a concrete ring *)
Example ex_rot : rot 1 [(0, 0); (6, 0); (6, 4); (0, 4)] = [(6, 0); (6, 4); (0, 4); (0, 0)].
Proof. reflexivity. Qed.
Example ex_centroid_defined : forall sq, centroid_defined sq (GPoly ex_poly).
Proof.
  intros sq. cbn [centroid_defined leaf_nondegenerate]. unfold poly_nondegenerate. split; [reflexivity|]. split.
  - cbn [ex_poly poly_rings]. repeat constructor; vm_compute; discriminate.
  - right. vm_compute. discriminate.
Qed.

(* the point-set theorems on concrete non-convex polygons: the kernel evaluates the hypotheses *)
Definition ex_L : polyT Q := MkPoly XY [ln [(0,0);(4,0);(4,2);(2,2);(2,5);(0,5);(0,0)]%Z].
Definition ex_star : polyT Q := MkPoly XY [ln [(0,0);(5,2);(10,0);(7,4);(10,9);(5,6);(0,9);(3,4);(0,0)]%Z].
Example ex_slab_L : slab_hypotheses ex_L = true /\ poly_area false None ex_L == slab_area ex_L /\ slab_area ex_L == 14.
Proof.
  assert (H : slab_hypotheses ex_L = true) by (vm_compute; reflexivity).
  split; [exact H|]. split; [apply slab_hypotheses_sound, H|vm_compute; reflexivity].
Qed.
Example ex_slab_star : slab_hypotheses ex_star = true /\ poly_area false None ex_star == slab_area ex_star /\ slab_area ex_star == 38.
Proof.
  assert (H : slab_hypotheses ex_star = true) by (vm_compute; reflexivity).
  split; [exact H|]. split; [apply slab_hypotheses_sound, H|vm_compute; reflexivity].
Qed.
Example ex_slab_hole : slab_hypotheses ex_poly = true /\ poly_area false None ex_poly == slab_area ex_poly /\ slab_area ex_poly == 20.
Proof.
  assert (H : slab_hypotheses ex_poly = true) by (vm_compute; reflexivity).
  split; [exact H|]. split; [apply slab_hypotheses_sound, H|vm_compute; reflexivity].
Qed.
(* the winding condition is needed: for the bow-tie (0 0,4 4,4 0,0 4,0 0) the shoelace sum is 0 while
   the point set (two triangles) has area 8 *)
Example ex_slab_bowtie :
  let bow := MkPoly XY [ln [(0,0);(4,4);(4,0);(0,4);(0,0)]%Z] in
  slab_hypotheses bow = false /\ poly_area false None bow == 0 /\ slab_area bow == 8.
Proof. vm_compute. repeat split; reflexivity. Qed.
