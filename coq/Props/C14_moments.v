(* Property C14 - Centroid equals the exact centre of mass of the point set.
   Statements only; proofs are in Proofs/Measure_moments.v, definitions in Model/MeasureMoments.v.

   This file supersedes the sentence "The analogous statement for the centroid is not proved
   (unit-cell oracle in the run)" of the header of Props/C14.v: the analogous statement IS proved.

   The area of the point set is measured in Props/C14.v by C01's slab functional [SetOpSpec.area_of]
   (sum of the trapezoids of the slab decomposition whose witness is a member of the set).  Here the
   first moments (integral of x, integral of y) of the point set are measured on the SAME cells
   ([moment_cells]: same witnesses in the same order, [moment_cells_area]: same areas), each recorded
   with its shape [tcell] (vertical sides at two consecutive event abscissae x0 < x1, lower edge
   from (x0,l0) to (x1,l1), upper edge from (x0,u0) to (x1,u1)) and measured by the closed forms
   [tz_area], [tz_mx], [tz_my].  The closed forms are pinned down independently of any ring code
   (section "the closed forms": a finitely additive functional on trapezoids - cut by a vertical
   line, cut by a segment joining the vertical sides - with the right behaviour under translation
   and scaling and the right value on rectangles and triangles).
   Proved for EVERY closed ring: the numerators centroidOfRing accumulates over its triangle fan
   (areaSum2, cent6) are -2, -6, -6 times the sums over the cells of (winding number at the
   witness) x (area, integral of x, integral of y) of the cell ([ring_moment_is_winding_moment]);
   hence centroidOfRing = (integral of x, integral of y) / area of the point set for every ring
   whose winding number takes the values 0 / sigma only at the witnesses
   ([centroid_is_slab_centroid]), Polygon.Centroid = centre of mass of the point set for polygons
   with holes under pointwise nesting and rings of non-zero area ([centroid_is_slab_centroid_holes],
   executable hypotheses: [slab_hypotheses_imply_centroid]) and MultiPolygon.Centroid = centre of
   mass of the union for members that are pointwise disjoint at the witnesses
   ([mpoly_centroid_is_slab_centroid], executable: [mpoly_hypotheses_imply_centroid]).
   As for the area, NOT proved: that every simple ring satisfies the winding condition (the
   Jordan-curve content); it is a boolean, evaluated by the kernel in the Examples and by the
   extracted code on every generated lattice polygon of the correspondence run, where the exact
   moment quotient is compared with the implementation's Centroid (SPEC centroid_moments).
   Float rounding is not modelled: the theorems are about exact rational arithmetic. *)
From Coq Require Import QArith Qabs ZArith List Bool.
From SF Require Import Base.GeomAST Model.Measure Model.MeasureMoments.
From SF Require Base.QKernel Base.Planar Model.SetOpSpec.
From SF Require Import Proofs.Measure_slab Proofs.Measure_moments.
Import ListNotations.
Open Scope Q_scope.

(* ------------------------------------------------------------------ the closed forms *)

(* cut by the vertical line at any abscissa x: area and both first moments add up *)
Theorem trapezoid_moments_additive_vertical : forall (c : tcell) (x : Q), ~ tx0 c == tx1 c ->
  tz_area (tz_left c x) + tz_area (tz_right c x) == tz_area c /\
  tz_mx (tz_left c x) + tz_mx (tz_right c x) == tz_mx c /\
  tz_my (tz_left c x) + tz_my (tz_right c x) == tz_my c.
Proof. exact tz_split_vertical. Qed.
Print Assumptions trapezoid_moments_additive_vertical.

(* cut by the segment from (x0,m0) to (x1,m1) *)
Theorem trapezoid_moments_additive_segment : forall (c : tcell) (m0 m1 : Q),
  tz_area (tz_below c m0 m1) + tz_area (tz_above c m0 m1) == tz_area c /\
  tz_mx (tz_below c m0 m1) + tz_mx (tz_above c m0 m1) == tz_mx c /\
  tz_my (tz_below c m0 m1) + tz_my (tz_above c m0 m1) == tz_my c.
Proof. exact tz_split_segment. Qed.
Print Assumptions trapezoid_moments_additive_segment.

(* translation by t: the first moments change by t * area *)
Theorem trapezoid_moments_translate : forall (t : xy) (c : tcell),
  tz_area (tz_translate t c) == tz_area c /\
  tz_mx (tz_translate t c) == tz_mx c + fst t * tz_area c /\
  tz_my (tz_translate t c) == tz_my c + snd t * tz_area c.
Proof. exact tz_translate_moments. Qed.
Print Assumptions trapezoid_moments_translate.

(* scaling: area is homogeneous of degree 2, first moments of degree 3; and per axis *)
Theorem trapezoid_moments_scale : forall (k : Q) (c : tcell),
  tz_area (tz_scale k c) == k * k * tz_area c /\
  tz_mx (tz_scale k c) == k * k * k * tz_mx c /\
  tz_my (tz_scale k c) == k * k * k * tz_my c.
Proof. exact tz_scale_moments. Qed.
Print Assumptions trapezoid_moments_scale.

Theorem trapezoid_moments_scale_axes : forall (kx ky : Q) (c : tcell),
  tz_area (tz_scale_xy kx ky c) == kx * ky * tz_area c /\
  tz_mx (tz_scale_xy kx ky c) == kx * kx * ky * tz_mx c /\
  tz_my (tz_scale_xy kx ky c) == kx * ky * ky * tz_my c.
Proof. exact tz_scale_xy_moments. Qed.
Print Assumptions trapezoid_moments_scale_axes.

(* anchors: the axis-parallel rectangle and the triangle (x0,a) (x1,b) (x1,c) *)
Theorem rectangle_moments : forall x0 x1 y0 y1 : Q,
  tz_area (tz_rect x0 x1 y0 y1) == (x1 - x0) * (y1 - y0) /\
  tz_mx (tz_rect x0 x1 y0 y1) == (x0 + x1) / 2 * tz_area (tz_rect x0 x1 y0 y1) /\
  tz_my (tz_rect x0 x1 y0 y1) == (y0 + y1) / 2 * tz_area (tz_rect x0 x1 y0 y1).
Proof. exact tz_rect_moments. Qed.
Print Assumptions rectangle_moments.

Theorem triangle_moments : forall x0 x1 a b c : Q,
  tz_area (tz_tri x0 x1 a b c) == (x1 - x0) * (c - b) / 2 /\
  tz_mx (tz_tri x0 x1 a b c) == (x0 + x1 + x1) / 3 * tz_area (tz_tri x0 x1 a b c) /\
  tz_my (tz_tri x0 x1 a b c) == (a + b + c) / 3 * tz_area (tz_tri x0 x1 a b c).
Proof. exact tz_tri_moments. Qed.
Print Assumptions triangle_moments.

(* ------------------------------------------------------------------ the cells *)

(* the cells with shape are the cells of C01's slab functional: same witnesses in the same order ... *)
Theorem moment_cells_witnesses : forall (L : list QKernel.seg) (P : list QKernel.pt),
  map fst (moment_cells L P) = map fst (SetOpSpec.slab_cells L (Planar.events (Planar.vertex_set L P))).
Proof. intros L P. apply tcells_witnesses. Qed.
Print Assumptions moment_cells_witnesses.

(* ... and same areas: the area of any point set f measured on them is SetOpSpec.area_of *)
Theorem moment_cells_area : forall (L : list QKernel.seg) (P : list QKernel.pt) (f : QKernel.pt -> bool),
  set_area L P f == SetOpSpec.area_of L P f.
Proof. exact set_area_is_area_of. Qed.
Print Assumptions moment_cells_area.

(* ------------------------------------------------------------------ the ring theorem *)

(* for EVERY closed ring (simple or not), in any arrangement (L, P) that contains its edges: the
   sums centroidOfRing accumulates over the fan from the first vertex - areaSum2 ([ring_fan2]) and
   cent6 ([ring_fan6]: sum of centroid3 * area2) - are -2, -6, -6 times the sums over the cells of
   the slab decomposition of (winding number of the ring at the cell's witness) * (area, integral
   of x, integral of y over the cell) *)
Theorem ring_moment_is_winding_moment : forall (L : list QKernel.seg) (P ps : list QKernel.pt),
  incl (QKernel.ring_edges ps) L -> Planar.pts_closed ps = true ->
  let cells := moment_cells L P in
  let w := fun p => inject_Z (zwind (QKernel.ring_edges ps) p) in
  ring_fan2 ps == -2 * cells_wsum (tproj tz_area cells) w /\
  fst (ring_fan6 ps) == -6 * cells_wsum (tproj tz_mx cells) w /\
  snd (ring_fan6 ps) == -6 * cells_wsum (tproj tz_my cells) w.
Proof. exact ring_moment_is_winding_moment_lemma. Qed.
Print Assumptions ring_moment_is_winding_moment.

(* the general form behind it: any additive functional of pieces of non-vertical lines *)
Theorem ring_functional_is_winding_functional :
  forall G : Q -> Q -> Q -> Q -> Q,
  Morphisms.Proper (Qeq ==> Qeq ==> Qeq ==> Qeq ==> Qeq)%signature G ->
  (forall x0 x1 a b : Q, x0 == x1 -> G x0 x1 a b == 0) ->
  (forall e : QKernel.seg, Planar_slab_base.nonvertical e -> forall x0 x1 x2 : Q,
     G x0 x1 (Planar_slab_base.y_at e x0) (Planar_slab_base.y_at e x1) +
     G x1 x2 (Planar_slab_base.y_at e x1) (Planar_slab_base.y_at e x2) ==
     G x0 x2 (Planar_slab_base.y_at e x0) (Planar_slab_base.y_at e x2)) ->
  forall (L : list QKernel.seg) (P ps : list QKernel.pt),
  incl (QKernel.ring_edges ps) L -> Planar.pts_closed ps = true ->
  qsum (map (edge_term G) (QKernel.ring_edges ps)) ==
  cells_wsum (tproj (cell_term G) (moment_cells L P)) (fun p => inject_Z (zwind (QKernel.ring_edges ps) p)).
Proof. exact ring_functional_is_winding_sum. Qed.
Print Assumptions ring_functional_is_winding_functional.

(* ------------------------------------------------------------------ the point set *)

(* a ring whose winding number is 0 or sigma at every witness (the hypotheses of
   shoelace_is_slab_area; no hypothesis on the area: x/0 = 0 on both sides): centroidOfRing is
   (integral of x, integral of y) / area of the point set of the polygon bounded by the ring *)
Theorem centroid_is_slab_centroid : forall (L : list QKernel.seg) (P : list QKernel.pt) ct (l : lineT Q) (sigma : Z),
  incl (Planar.line_segs l) L -> Planar.pts_closed (Planar.line_pts l) = true -> (sigma = 1 \/ sigma = -1)%Z ->
  winding_simple sigma (QKernel.ring_edges (Planar.line_pts l))
                 (SetOpSpec.slab_cells L (Planar.events (Planar.vertex_set L P))) = true ->
  xy_eq (centroid_of_ring l) (set_centroid L P (Planar.inG (GPoly (MkPoly ct [l])))).
Proof. exact centroid_is_slab_centroid_lemma. Qed.
Print Assumptions centroid_is_slab_centroid.

(* polygon with holes, hypotheses of shoelace_is_slab_area_holes and no ring of zero area:
   Polygon.Centroid (the sum of the ring centroids weighted by +|shell|, -|hole| over the total)
   is the centre of mass of the point set *)
Theorem centroid_is_slab_centroid_holes :
  forall (L : list QKernel.seg) (P : list QKernel.pt) ct (sh : lineT Q) (hs : list (lineT Q)),
  let cells := SetOpSpec.slab_cells L (Planar.events (Planar.vertex_set L P)) in
  (forall r, In r (sh :: hs) ->
     incl (Planar.line_segs r) L /\ Planar.pts_closed (Planar.line_pts r) = true /\
     (exists sigma, (sigma = 1 \/ sigma = -1)%Z /\ winding_simple sigma (QKernel.ring_edges (Planar.line_pts r)) cells = true) /\
     ~ ring_area_xy (Planar.line_pts r) == 0) ->
  nesting_ok sh hs cells = true ->
  exists c, poly_centroid (MkPoly ct (sh :: hs)) = Some c /\
            xy_eq c (set_centroid L P (Planar.inG (GPoly (MkPoly ct (sh :: hs))))).
Proof. exact centroid_is_slab_centroid_holes_lemma. Qed.
Print Assumptions centroid_is_slab_centroid_holes.

(* executable form: two booleans per polygon (in the arrangement of its own rings) *)
Theorem slab_hypotheses_imply_centroid : forall ct (rings : list (lineT Q)),
  slab_hypotheses (MkPoly ct rings) = true -> rings_nonzero (MkPoly ct rings) = true ->
  match rings with
  | [] => poly_centroid (MkPoly ct rings) = None
  | _ => exists c, poly_centroid (MkPoly ct rings) = Some c /\ xy_eq c (slab_centroid (MkPoly ct rings))
  end.
Proof. exact slab_hypotheses_centroid. Qed.
Print Assumptions slab_hypotheses_imply_centroid.

(* the one-pass evaluation the correspondence run uses computes these three sums *)
Theorem poly_moments_are_set_moments : forall y : polyT Q,
  let L := mpoly_segs y in
  fst (fst (poly_moments y)) == set_area L [] (Planar.inG (GPoly y)) /\
  snd (fst (poly_moments y)) == set_mx L [] (Planar.inG (GPoly y)) /\
  snd (poly_moments y) == set_my L [] (Planar.inG (GPoly y)).
Proof. exact poly_moments_spec. Qed.
Print Assumptions poly_moments_are_set_moments.

(* multipolygon, all members in one arrangement: every non-empty member satisfies the hypotheses
   above and has non-zero area ([member_ok]), and no witness lies in two members: MultiPolygon.Centroid
   is the centre of mass of the union *)
Theorem mpoly_centroid_is_slab_centroid : forall (L : list QKernel.seg) (P : list QKernel.pt) ct (ps : list (polyT Q)),
  (forall y, In y ps -> member_ok L P y) ->
  members_disjoint ps (map fst (SetOpSpec.slab_cells L (Planar.events (Planar.vertex_set L P)))) = true ->
  forallb (@poly_empty Q) ps = false ->
  exists c, mpoly_centroid ps = Some c /\ xy_eq c (set_centroid L P (Planar.inG (GMPoly ct ps))).
Proof. exact mpoly_centroid_is_slab_centroid_lemma. Qed.
Print Assumptions mpoly_centroid_is_slab_centroid.

Theorem mpoly_hypotheses_imply_centroid : forall ps : list (polyT Q),
  mpoly_hypotheses ps = true -> forallb (@poly_empty Q) ps = false ->
  exists c, mpoly_centroid ps = Some c /\ xy_eq c (mslab_centroid ps).
Proof. exact mpoly_hypotheses_centroid. Qed.
Print Assumptions mpoly_hypotheses_imply_centroid.

Theorem mpoly_moments_are_set_moments : forall ps : list (polyT Q),
  let '(a, mx, my) := mpoly_moments ps in xy_eq (mx / a, my / a) (mslab_centroid ps).
Proof. exact mpoly_moments_spec. Qed.
Print Assumptions mpoly_moments_are_set_moments.

(* ------------------------------------------------------------------ Examples (non-vacuity) *)

Definition v (x y : Z) : vtx Q := Build_vtx (inject_Z x) (inject_Z y) 7 (-3).
Definition ln (l : list (Z * Z)) : lineT Q := MkLine XYZM (map (fun p => v (fst p) (snd p)) l).
(* L shape: 4x2 foot + 2x3 leg; area 14, centre of mass ((8*2 + 6*1)/14, (8*1 + 6*7/2)/14) = (11/7, 29/14) *)
Definition ex_L : polyT Q := MkPoly XY [ln [(0,0);(4,0);(4,2);(2,2);(2,5);(0,5);(0,0)]%Z].
(* 6x6 square with an off-centre 2x2 square hole: (36*(3,3) - 4*(2,4)) / 32 = (25/8, 23/8) *)
Definition ex_hole : polyT Q :=
  MkPoly XYZM [ln [(0,0);(6,0);(6,6);(0,6);(0,0)]; ln [(1,3);(1,5);(3,5);(3,3);(1,3)]]%Z.
(* a non-convex star: slanted edges, the cells are genuine trapezoids and triangles *)
Definition ex_star : polyT Q := MkPoly XY [ln [(0,0);(5,2);(10,0);(7,4);(10,9);(5,6);(0,9);(3,4);(0,0)]%Z].
(* a triangle with a triangular hole, clockwise shell *)
Definition ex_tri_hole : polyT Q :=
  MkPoly XY [ln [(0,0);(0,9);(12,0);(0,0)]; ln [(1,1);(4,1);(1,4);(1,1)]]%Z.

Definition centroid_check (y : polyT Q) (c : xy) : Prop :=
  slab_hypotheses y = true /\ rings_nonzero y = true /\
  (exists c', poly_centroid y = Some c' /\ xy_eq c' (slab_centroid y)) /\
  xy_eq (slab_centroid y) c /\
  (let '(a, mx, my) := poly_moments y in xy_eq (mx / a, my / a) c).

Ltac centroid_example :=
  match goal with |- centroid_check ?y ?c =>
    let H := fresh "H" in let Z := fresh "Z" in
    assert (H : slab_hypotheses y = true) by (vm_compute; reflexivity);
    assert (Z : rings_nonzero y = true) by (vm_compute; reflexivity);
    split; [exact H|]; split; [exact Z|]; split;
    [ exact (slab_hypotheses_imply_centroid _ _ H Z)
    | split; vm_compute; split; reflexivity ]
  end.

Example ex_centroid_L : centroid_check ex_L (11 # 7, 29 # 14).
Proof. centroid_example. Qed.
Example ex_centroid_hole : centroid_check ex_hole (25 # 8, 23 # 8).
Proof. centroid_example. Qed.
(* star: area 38; the value is the one the fan formula gives (theorem), here computed from the cells *)
Example ex_centroid_star : centroid_check ex_star (5, 242 # 57).
Proof. centroid_example. Qed.
Example ex_centroid_tri_hole : centroid_check ex_tri_hole ((4 * 54 - 2 * (9 # 2)) / (54 - (9 # 2)), (3 * 54 - 2 * (9 # 2)) / (54 - (9 # 2))).
Proof. centroid_example. Qed.

(* the ring theorem on a ring that is NOT simple (bow-tie, winding numbers +1 and -1): no hypothesis
   beyond closedness; both sides evaluated by the kernel *)
Example ex_bowtie_winding_moments :
  let ps := [(0, 0); (4, 4); (4, 0); (0, 4); (0, 0)] : list QKernel.pt in
  let L := QKernel.ring_edges ps in
  let w := fun p => inject_Z (zwind L p) in
  Planar.pts_closed ps = true /\
  ring_fan2 ps == 0 /\ cells_wsum (tproj tz_area (moment_cells L [])) w == 0 /\
  fst (ring_fan6 ps) == -6 * cells_wsum (tproj tz_mx (moment_cells L [])) w /\
  ~ fst (ring_fan6 ps) == 0 /\
  snd (ring_fan6 ps) == -6 * cells_wsum (tproj tz_my (moment_cells L [])) w.
Proof. vm_compute. repeat split; try reflexivity. discriminate. Qed.

(* the winding condition is needed: for the bow-tie the fan quotient is 0/0 while the point set (two
   triangles) has its centre of mass at (2, 2) *)
Example ex_bowtie_needs_winding :
  let bow := MkPoly XY [ln [(0,0);(4,4);(4,0);(0,4);(0,0)]%Z] in
  slab_hypotheses bow = false /\ xy_eq (slab_centroid bow) (2, 2) /\
  oxy_eq (poly_centroid bow) (Some (0, 0)).
Proof. vm_compute. repeat split; reflexivity. Qed.

(* multipolygon: the L shape and a triangle beside it, in one arrangement *)
Definition ex_mp : list (polyT Q) :=
  [ex_L; MkPoly XY []; MkPoly XY [ln [(5,0);(9,0);(5,3);(5,0)]%Z]].
Example ex_centroid_mpoly :
  mpoly_hypotheses ex_mp = true /\
  (exists c, mpoly_centroid ex_mp = Some c /\ xy_eq c (mslab_centroid ex_mp)) /\
  xy_eq (mslab_centroid ex_mp) ((14 * (11 # 7) + 6 * (19 # 3)) / 20, (14 * (29 # 14) + 6 * 1) / 20).
Proof.
  assert (H : mpoly_hypotheses ex_mp = true) by (vm_compute; reflexivity).
  split; [exact H|]. split; [apply (mpoly_hypotheses_imply_centroid ex_mp H); reflexivity|].
  vm_compute. split; reflexivity.
Qed.
(* disjointness is needed: two overlapping squares *)
Example ex_mpoly_needs_disjoint :
  let mp := [MkPoly XY [ln [(0,0);(4,0);(4,4);(0,4);(0,0)]%Z]; MkPoly XY [ln [(2,0);(8,0);(8,4);(2,4);(2,0)]%Z]] in
  mpoly_hypotheses mp = false /\
  oxy_eq (mpoly_centroid mp) (Some ((16 * 2 + 24 * 5) / 40, 2)) /\ xy_eq (mslab_centroid mp) (4, 2).
Proof. vm_compute. repeat split; reflexivity. Qed.
