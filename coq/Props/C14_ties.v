(* C14 - the translator tie as statements (nothing else in this file): geom/type_multi_line_string.go:Length,
   geom/type_line_string.go:Centroid and geom/type_multi_point.go:Centroid, re-read from the Go source on every
   run into Gen/FuncsLoop.v, ARE the model functions of Model/Measure.v (mline_length, line_centroid,
   mpoint_centroid) the C14 theorems are about - for every root function and collections of any size. *)
From Coq Require Import QArith List ZArith.
From SF Require Import Base.FOps Base.GeomAST Gen.FuncsLoop Model.Measure Proofs.Funcs_tie_Loop_lib
  Proofs.Funcs_tie_Loop_Measure Proofs.Funcs_tie_Loop_Measure2.

Theorem go_MultiLineString_Length_is_model : forall (sq : Q -> Q) (hy : Q -> Q -> Q),
  (forall x y, hy x y = sq (x * x + y * y)) -> forall (ls : list (lineT Q)) (ct : Z),
  geom_MultiLineString_Length (qops_with sq hy) (Mk_geom_MultiLineString (map gls (map gline ls)) ct)
  = Known (mline_length sq ls).
Proof. exact go_mls_length. Qed.
Print Assumptions go_MultiLineString_Length_is_model.

Theorem go_LineString_Centroid_is_model : forall (sq : Q -> Q) (hy : Q -> Q -> Q),
  (forall x y, hy x y = sq (x * x + y * y)) -> forall l : lineT Q,
  known_map point_xy_opt (geom_LineString_Centroid (qops_with sq hy) (gls (gline l))) = Known (line_centroid sq l).
Proof. exact go_ls_centroid. Qed.
Print Assumptions go_LineString_Centroid_is_model.

Theorem go_MultiPoint_Centroid_is_model : forall (sq : Q -> Q) (hy : Q -> Q -> Q) (ps : list (pointT Q)) (ct : Z),
  known_map point_xy_opt (geom_MultiPoint_Centroid (qops_with sq hy) (Mk_geom_MultiPoint (map (gpoint sq hy) ps) ct))
  = Known (mpoint_centroid ps).
Proof. exact go_mp_centroid. Qed.
Print Assumptions go_MultiPoint_Centroid_is_model.
