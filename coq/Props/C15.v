(* Property C15 - Boundary and PointOnSurface are consistent with the interior/boundary model.
   Statements only; proofs are in Proofs/Boundary_proofs.v and Proofs/PointOnSurface_proofs.v. *)
From Coq Require Import QArith List Bool.
From SF Require Import Base.GeomAST Base.QKernel Base.Planar Model.Boundary Model.PointOnSurface
  Proofs.Boundary_proofs.
Import ListNotations.

Theorem boundary_puntal_empty : forall g,
  dimension g = 0%nat -> (forall ct gs, g <> GColl ct gs) -> is_empty (boundary g) = true.
Proof. exact boundary_puntal_empty_lemma. Qed.
Print Assumptions boundary_puntal_empty.
