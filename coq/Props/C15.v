(* Property C15 - Boundary and PointOnSurface are consistent with the interior/boundary model.
   Statements only; proofs are in Proofs/Boundary_proofs.v and Proofs/PointOnSurface_proofs.v.
   Models: Model/Boundary.v, Model/PointOnSurface.v (transcriptions of the Go code over Q).
   Interior / Boundary / Exterior and point-set membership are the DEFINITIONS of Base/Planar.v
   (locate, inG: OGC mod-2 rule for lines, crossing parity for rings). *)
From Coq Require Import QArith List Bool ZArith.
From SF Require Import Base.GeomAST Base.QKernel Base.Planar Model.Boundary Model.PointOnSurface
  Proofs.Boundary_proofs Proofs.PointOnSurface_proofs
  Model.ValidateSpec Model.PosNesting Proofs.PosNesting_proofs
  Model.BoundaryExact Proofs.BoundaryExact_proofs
  Model.PosNesting2 Proofs.PosNesting2_proofs
  Model.BoundaryMod2 Proofs.BoundaryMod2_proofs.
Import ListNotations.
Open Scope Q_scope.

(* ---- concrete values for the non-vacuity examples ---- *)
Definition zv (p : Z * Z) : vtx Q := Build_vtx (inject_Z (fst p)) (inject_Z (snd p)) 0 0.
Definition zline (l : list (Z * Z)) : lineT Q := MkLine XY (map zv l).
Definition zpt (p : Z * Z) : pt := (inject_Z (fst p), inject_Z (snd p)).
(* three open lines sharing the end point (1,1), one closed line through it *)
Definition ex_star : list (lineT Q) :=
  [zline [(0,0);(1,1)]; zline [(1,1);(2,2)]; zline [(1,1);(3,0)]; zline [(1,1);(5,1);(5,5);(1,1)]]%Z.
(* square with a triangular hole whose apex is on the centre row of the envelope *)
Definition ex_holed : polyT Q :=
  MkPoly XY [zline [(0,0);(4,0);(4,4);(0,4);(0,0)]; zline [(1,1);(3,1);(2,2);(1,1)]]%Z.
(* U shape: the centre of the envelope is outside the polygon and its row hits two vertices *)
Definition ex_u : polyT Q :=
  MkPoly XY [zline [(0,0);(6,0);(6,4);(4,4);(4,2);(2,2);(2,4);(0,4);(0,0)]]%Z.
Definition ex_coll : geom :=
  GColl XY [GPoly (MkPoly XY []); GLine (zline [(0,0);(2,0);(2,2)]%Z); GPoint (MkPoint XY (Some (zv (7,7)%Z)))].

(* ================================================================ Boundary *)

(* dimension: the boundary is empty or exactly one dimension lower (dimension of the point set,
   empty parts not counted) - every type, nested collections included *)
Theorem boundary_dim : forall g : geom,
  geom_wf g = true -> is_empty (boundary g) = true \/ S (dim_ie (boundary g)) = dim_ie g.
Proof. exact boundary_dim_lemma. Qed.
Print Assumptions boundary_dim.
Example boundary_dim_ex :
  geom_wf (GPoly ex_holed) = true /\ dim_ie (boundary (GPoly ex_holed)) = 1%nat /\
  geom_wf ex_coll = true /\ dim_ie ex_coll = 1%nat /\ dim_ie (boundary ex_coll) = 0%nat /\
  dimension ex_coll = 2%nat.
Proof. vm_compute. repeat split. Qed.

(* the same with Go's Dimension() (empty members count) for the six non-collection types *)
Theorem boundary_dim_go : forall g : geom,
  (forall ct gs, g <> GColl ct gs) ->
  match dimension g with
  | O => is_empty (boundary g) = true
  | S d => dimension (boundary g) = d
  end.
Proof. exact boundary_dim_go_lemma. Qed.
Print Assumptions boundary_dim_go.

(* nothing for points; closed lines have none *)
Theorem boundary_puntal_empty : forall g : geom,
  (forall ct gs, g <> GColl ct gs) -> dimension g = 0%nat -> is_empty (boundary g) = true.
Proof. exact boundary_puntal_empty_lemma. Qed.
Print Assumptions boundary_puntal_empty.
Theorem boundary_closed_line_empty : forall l : lineT Q,
  line_is_closed l = true -> is_empty (boundary (GLine l)) = true.
Proof. exact boundary_closed_line_empty_lemma. Qed.
Print Assumptions boundary_closed_line_empty.
Example boundary_closed_line_ex : line_is_closed (zline [(1,1);(5,1);(5,5);(1,1)]%Z) = true.
Proof. reflexivity. Qed.

(* the boundary of a boundary is empty *)
Theorem boundary_of_boundary_empty : forall g : geom,
  geom_wf g = true -> is_empty (boundary (boundary g)) = true.
Proof. exact boundary_of_boundary_empty_lemma. Qed.
Print Assumptions boundary_of_boundary_empty.
Example boundary_of_boundary_ex :
  is_empty (boundary (GPoly ex_holed)) = false /\ is_empty (boundary (GMLine XY ex_star)) = false.
Proof. vm_compute. split; reflexivity. Qed.

(* mod-2 rule: a point belongs to the boundary of a MultiLineString iff it is an end point of an
   odd number of non-closed members - all inputs, no hypothesis *)
Theorem boundary_mod2_spec : forall (ls : list (lineT Q)) (p : pt),
  inG (mline_boundary ls) p = odd_open_ends ls p.
Proof. exact boundary_mod2_spec_lemma. Qed.
Print Assumptions boundary_mod2_spec.
Example boundary_mod2_ex :
  odd_open_ends ex_star (zpt (1,1)%Z) = true /\ odd_open_ends ex_star (zpt (5,5)%Z) = false /\
  odd_open_ends (tl ex_star) (zpt (1,1)%Z) = false /\ odd_open_ends ex_star (zpt (3,0)%Z) = true.
Proof. vm_compute. repeat split. Qed.

(* The SPEC check the driver evaluates on the implementation's Boundary(g) = b for a LineString or
   MultiLineString g of ANY size (agreement of "p in b" with "p is an end point of an odd number
   of non-closed members" at every end point of a member and at every point of b, b made of
   points only) decides that agreement for EVERY point of Q^2; and the model passes both checks. *)
Theorem mod2_exact_everywhere : forall g b : geom,
  (exists l, g = GLine l) \/ (exists ct ls, g = GMLine ct ls) ->
  puntalb b = true -> mod2_exact g b = true ->
  forall p, inG b p = odd_open_ends (lineal_members g) p.
Proof. exact mod2_exact_everywhere_lemma. Qed.
Print Assumptions mod2_exact_everywhere.
Theorem mod2_exact_model : forall g : geom, mod2_exact g (boundary g) = true.
Proof. exact mod2_exact_model_lemma. Qed.
Print Assumptions mod2_exact_model.
(* collections: every odd end point of every lineal leaf is a point of the boundary *)
Theorem mod2_complete_model : forall g : geom, mod2_complete g (boundary g) = true.
Proof. exact mod2_complete_model_lemma. Qed.
Print Assumptions mod2_complete_model.
Example mod2_exact_ex :
  puntalb (boundary (GMLine XY ex_star)) = true /\ mod2_exact (GMLine XY ex_star) (boundary (GMLine XY ex_star)) = true /\
  mod2_exact (GMLine XY ex_star) (GMPoint XY []) = false /\
  mod2_exact (GMLine XY ex_star) (boundary (GMLine XY (tl ex_star))) = false /\
  mod2_complete (GColl XY [GColl XY [GMLine XY ex_star]]) (GColl XY []) = false /\
  mod2_complete (GColl XY [GColl XY [GMLine XY ex_star]]) (boundary (GMLine XY ex_star)) = true.
Proof. vm_compute. repeat split. Qed.

(* every point of Boundary(g) relates to g as boundary, and nothing else does: lineal *)
Theorem boundary_locate_lineal : forall (g : geom) (p : pt),
  (exists l, g = GLine l) \/ (exists ct ls, g = GMLine ct ls) ->
  (inG (boundary g) p = true <-> locate g p = Boundary).
Proof. exact boundary_locate_lineal_lemma. Qed.
Print Assumptions boundary_locate_lineal.

(* ... Polygon (the rings, as LineString or MultiLineString) *)
Theorem boundary_locate_polygon : forall (y : polyT Q) (p : pt),
  inG (boundary (GPoly y)) p = true <-> locate (GPoly y) p = Boundary.
Proof. exact boundary_locate_polygon_lemma. Qed.
Print Assumptions boundary_locate_polygon.
Example boundary_locate_polygon_ex :
  locate (GPoly ex_holed) (zpt (2,2)%Z) = Boundary /\ locate (GPoly ex_holed) (zpt (2,3)%Z) = Interior /\
  inG (boundary (GPoly ex_holed)) (zpt (2,2)%Z) = true.
Proof. vm_compute. repeat split. Qed.

(* ... MultiPolygon: Boundary iff on a ring of a member and strictly inside no member (the second
   conjunct is automatic for valid input, whose members have disjoint interiors) *)
Theorem boundary_locate_multipolygon : forall ct (ys : list (polyT Q)) (p : pt),
  locate (GMPoly ct ys) p = Boundary <->
  inG (boundary (GMPoly ct ys)) p = true /\ existsb (fun y => poly_interior y p) ys = false.
Proof. exact boundary_locate_multipolygon_lemma. Qed.
Print Assumptions boundary_locate_multipolygon.

(* a collection's boundary is the collection of its members' non-empty boundaries *)
Theorem boundary_collection_structure : forall ct (gs : list geom),
  boundary (GColl ct gs) =
  if forallb (@is_empty Q) gs then GColl ct gs
  else GColl XY (filter (fun b => negb (is_empty b)) (map (fun g' => force2d (boundary g')) gs)).
Proof. exact boundary_collection_structure_lemma. Qed.
Print Assumptions boundary_collection_structure.
(* as point sets: the union of the members' boundaries *)
Theorem boundary_collection : forall ct (gs : list geom) (p : pt),
  inG (boundary (GColl ct gs)) p = existsb (fun g' => inG (boundary g') p) gs.
Proof. exact boundary_collection_lemma. Qed.
Print Assumptions boundary_collection.
Example boundary_collection_ex :
  inG (boundary ex_coll) (zpt (2,2)%Z) = true /\ inG (boundary ex_coll) (zpt (2,0)%Z) = false.
Proof. vm_compute. split; reflexivity. Qed.

(* ================================================================ PointOnSurface *)
(* every statement holds for EVERY centroid oracle cen (Centroid() is an argument of the model) *)

(* empty iff the input is empty, for every well-formed geometry of every type (cen defined on
   non-empty geometries). For MultiPolygons this needs fix F151 (before it, a MultiPolygon whose
   members all take the fall-back gave the empty Point). *)
Theorem pos_empty_iff : forall (cen : geom -> option pt),
  (forall x, is_empty x = false -> cen x <> None) ->
  forall g : geom, geom_wf g = true -> point_empty (pos cen g) = is_empty g.
Proof. exact pos_empty_iff_lemma. Qed.
Print Assumptions pos_empty_iff.
Example pos_empty_iff_ex :
  geom_wf (GMPoly XY [ex_holed; ex_u]) = true /\ geom_wf ex_coll = true /\ is_empty ex_coll = false /\
  point_empty (pos (fun _ => Some (0, 0)) ex_coll) = false.
Proof. vm_compute. repeat split. Qed.

(* lineal: the point is on the line string (it is one of its control points) *)
Theorem pos_lineal_on_line : forall (cen : geom -> option pt) (l : lineT Q) (p : pt),
  point_xy (pos cen (GLine l)) = Some p -> on_line l p = true.
Proof. exact pos_line_on_line_lemma. Qed.
Print Assumptions pos_lineal_on_line.
Theorem pos_multilineal_on_line : forall (cen : geom -> option pt) ct (ls : list (lineT Q)) (p : pt),
  point_xy (pos cen (GMLine ct ls)) = Some p -> inG (GMLine ct ls) p = true.
Proof. exact pos_mline_on_line_lemma. Qed.
Print Assumptions pos_multilineal_on_line.
Example pos_lineal_ex :
  point_xy (pos (fun _ => Some (zpt (2,1)%Z)) (GLine (zline [(0,0);(2,0);(2,2)]%Z))) = Some (zpt (2,0)%Z) /\
  point_xy (pos (fun _ => Some (zpt (2,1)%Z)) (GMLine XY ex_star)) = Some (zpt (5,1)%Z).
Proof. vm_compute. split; reflexivity. Qed.

(* puntal: one of the member points *)
Theorem pos_multipoint_member : forall (cen : geom -> option pt) ct (ps : list (pointT Q)) (p : pt),
  point_xy (pos cen (GMPoint ct ps)) = Some p -> exists q, In q ps /\ point_xy q = Some p.
Proof. exact pos_mpoint_member_lemma. Qed.
Print Assumptions pos_multipoint_member.
Theorem pos_point : forall (cen : geom -> option pt) (q : pointT Q),
  point_xy (pos cen (GPoint q)) = point_xy q.
Proof. exact pos_point_lemma. Qed.
Print Assumptions pos_point.

(* collections: the result is the point-on-surface of a non-empty leaf of the highest dimension *)
Theorem pos_collection_highest_dim : forall (cen : geom -> option pt) ct (gs : list geom) (p : pt),
  point_xy (pos cen (GColl ct gs)) = Some p ->
  exists l, In l (leaves (GColl ct gs)) /\ is_empty l = false /\
            dim_ie l = dim_ie (GColl ct gs) /\ pos cen (GColl ct gs) = leaf_pos cen l.
Proof. exact pos_collection_lemma. Qed.
Print Assumptions pos_collection_highest_dim.
Example pos_collection_ex :
  point_xy (pos (fun _ => Some (zpt (7,7)%Z)) ex_coll) = Some (zpt (2,0)%Z).
Proof. vm_compute. reflexivity. Qed.

(* areal, step 1 (all polygons, no hypothesis): the bisector passes through no control point of
   any ring - the adjustment "mean with the next higher control point" does what it is meant to *)
Theorem pos_row_avoids_vertices : forall (y : polyT Q) (ri : row_info),
  poly_row y = Some ri ->
  forall r q, In r (poly_rings y) -> In q (line_pts r) -> ~ snd q == r_y ri.
Proof. exact row_avoids_vertices_lemma. Qed.
Print Assumptions pos_row_avoids_vertices.
Example pos_row_ex :
  option_map r_y (poly_row ex_holed) = Some (12 # 4) /\ option_map r_y (poly_row ex_u) = Some (12 # 4) /\
  option_map r_xs (poly_row ex_u) = Some [0; 2 # 1; 4 # 1; 6 # 1].
Proof. vm_compute. repeat split. Qed.

(* the bisector is horizontal at that ordinate; the intercepts are the abscissae where ring edges
   meet it, sorted (not de-duplicated: fix F150), strictly increasing when they are distinct *)
Theorem pos_row_shape : forall (y : polyT Q) (ri : row_info),
  poly_row y = Some ri ->
  snd (fst (r_bis ri)) = r_y ri /\ snd (snd (r_bis ri)) = r_y ri /\
  r_xs ri = isort (raw_intercepts (r_bis ri) (poly_rings y)) /\
  (nodupq (raw_intercepts (r_bis ri) (poly_rings y)) = true -> ssorted (r_xs ri)).
Proof. exact row_shape_lemma. Qed.
Print Assumptions pos_row_shape.

(* areal, step 2: the returned point is STRICTLY INTERIOR. Parity argument on the one horizontal
   line: no control point on the row => every ring edge either misses the row or crosses it
   properly at one point; the crossings to the right of the midpoint of the (2k+1)-th .. (2k+2)-th
   sorted intercept are odd in number, so the crossing parities of the rings at the point XOR to
   odd, and the point is on no ring. Hypotheses = what polygon validity provides, stated with the
   model's quantities: the bisector reaches every crossing (row_spans: holes do not leave the
   shell's envelope), distinct edges meet the row in distinct points (nodupq), holes lie inside the
   shell and are not nested in one another, in the crossing-parity sense (valid_nesting). *)
Theorem pos_areal_interior : forall (y : polyT Q) (ri : row_info) (p : pt),
  poly_row y = Some ri ->
  xs_regular (r_xs ri) = true ->
  row_spans (fst (fst (r_bis ri))) (fst (snd (r_bis ri))) (r_y ri) (poly_rings y) = true ->
  nodupq (raw_intercepts (r_bis ri) (poly_rings y)) = true ->
  valid_nesting y ->
  point_xy (fst (point_on_area y)) = Some p ->
  poly_interior y p = true /\ locate (GPoly y) p = Interior.
Proof. exact pos_areal_interior_lemma. Qed.
Print Assumptions pos_areal_interior.
(* the hypotheses hold for the U shape (holeless: the nesting condition is immediate), whose
   envelope centre (3,2) is outside the polygon and on a vertex row; the result is (1,3),
   printed unreduced as (2/2, 12/4) *)
Example pos_areal_interior_ex :
  row_hyps ex_u = true /\ valid_nesting ex_u /\ point_xy (fst (point_on_area ex_u)) = Some (2 # 2, 12 # 4).
Proof.
  split; [vm_compute; reflexivity|]. split; [|vm_compute; reflexivity].
  intros p _. unfold nesting_at. cbn. split; [apply le_S, le_n|intros H; discriminate H].
Qed.
(* with a hole: decidable hypotheses, and the nesting condition at the returned point (2,3) *)
Example pos_areal_interior_ex2 :
  row_hyps ex_holed = true /\ point_xy (fst (point_on_area ex_holed)) = Some (4 # 2, 12 # 4) /\
  nesting_atb ex_holed (4 # 2, 12 # 4) = true /\ locate (GPoly ex_holed) (4 # 2, 12 # 4) = Interior.
Proof. vm_compute. repeat split. Qed.

(* MultiPolygon: the point is the point of a member, strictly interior *)
Theorem pos_multipolygon_interior : forall ct (ys : list (polyT Q)) (p : pt),
  (forall y, In y ys -> poly_empty y = false -> row_hyps y = true /\ valid_nesting y) ->
  point_xy (mpoly_pos ys) = Some p ->
  locate (GMPoly ct ys) p = Interior.
Proof. exact pos_mpoly_interior_lemma. Qed.
Print Assumptions pos_multipolygon_interior.

(* ================================================================ the interior theorem with EXECUTABLE hypotheses only *)
(* valid_nesting is no longer assumed: it is derived, at the returned point, from the executable
   predicate nest_okb (Model/PosNesting.v): rings closed, every hole in the closed exterior ring and
   no hole entering another (clauses hole_inside / not_nested of the verified reference ogc_valid,
   Model/ValidateSpec.v), the exterior ring entering no hole (shell_outside) - each evaluated at the
   witnesses of the exact arrangement, which decides it for ALL points of Q^2 (Proofs/Planar_slab.v
   via Validate_ogc.everywhere_spec).  row_hyps (Model/PointOnSurface.v) is the decidable rest:
   even number >= 2 of intercepts, the bisector reaches every crossing, crossings pairwise distinct.
   The driver evaluates interior_hyps = row_hyps && nest_okb on every valid generated polygon. *)
Theorem pos_areal_interior_exec : forall (y : polyT Q) (p : pt),
  row_hyps y = true -> nest_okb y = true ->
  point_xy (fst (point_on_area y)) = Some p ->
  locate (GPoly y) p = Interior.
Proof. exact pos_areal_interior_exec_lemma. Qed.
Print Assumptions pos_areal_interior_exec.
Example pos_areal_interior_exec_ex :
  interior_hyps ex_holed = true /\ interior_hyps ex_u = true /\
  point_xy (fst (point_on_area ex_holed)) = Some (4 # 2, 12 # 4).
Proof. vm_compute. repeat split. Qed.

Theorem pos_multipolygon_interior_exec : forall ct (ys : list (polyT Q)) (p : pt),
  (forall y, In y ys -> poly_empty y = false -> interior_hyps y = true) ->
  point_xy (mpoly_pos ys) = Some p ->
  locate (GMPoly ct ys) p = Interior.
Proof. exact pos_mpoly_interior_exec_lemma. Qed.
Print Assumptions pos_multipolygon_interior_exec.

(* the third clause means what it says, for all points *)
Theorem shell_outside_meaning : forall sh h : list pt, pts_closed h = true ->
  (shell_outside sh h = true <->
   forall p, on_edges (segs sh) p = true -> on_edges (segs h) p = false -> edges_parity (segs h) p = false).
Proof. exact shell_outside_spec. Qed.
Print Assumptions shell_outside_meaning.

(* link to ogc_valid: its polygon clause gives all of nest_okb except shell_outside *)
Theorem nest_ok_from_ogc_polygon_clause : forall (y : polyT Q) shell holes,
  rings_of y = shell :: holes ->
  poly_def (shell :: holes) = true -> forallb (shell_outside shell) holes = true -> nest_okb y = true.
Proof. exact nest_okb_from_ogc. Qed.
Print Assumptions nest_ok_from_ogc_polygon_clause.

(* ================================================================ "exactly the set", for ALL points *)
(* The SPEC check the driver evaluates on the implementation's Boundary(g) = b (agreement of
   "p in b" with "p is Boundary of a leaf of g" at the witnesses of the exact arrangement of g and
   b, rings closed) decides that agreement for EVERY point of Q^2 - nothing is left to sampling. *)
Theorem boundary_exact_everywhere : forall g b : geom,
  boundary_exact_ok g b = true ->
  forall p, inG b p = on_leaf_boundary (leaf_preps g) p.
Proof. exact boundary_exact_everywhere_lemma. Qed.
Print Assumptions boundary_exact_everywhere.
Example boundary_exact_everywhere_ex :
  boundary_exact_ok (GPoly ex_holed) (boundary (GPoly ex_holed)) = true /\
  boundary_exact_ok ex_coll (boundary ex_coll) = true /\
  boundary_exact_ok (GPoly ex_holed) (GLine (zline [(0,0);(4,0);(4,4);(0,4);(0,0)]%Z)) = false.
Proof. vm_compute. repeat split. Qed.

(* ================================================================ from ogc_valid's polygon clause *)
(* For a hole whose boundary does not meet the exterior ring (rings_apart, exact seg_seg on all
   segment pairs) the clause shell_outside is DERIVED from ogc_valid's hole_inside: closed rings
   that avoid each other look uniform from one another, and two rings cannot each lie inside the
   other.  shell_outside remains an executable hypothesis only for holes that touch the exterior
   ring.  ogc_nest_okb y = poly_def (rings of y) && forall holes h, rings_apart || shell_outside. *)
Theorem nest_ok_from_apart_holes : forall y : polyT Q, nest_okb2 y = true -> nest_okb y = true.
Proof. exact nest_okb2_sound. Qed.
Print Assumptions nest_ok_from_apart_holes.

Theorem pos_areal_interior_ogc : forall (y : polyT Q) (p : pt),
  row_hyps y = true -> ogc_nest_okb y = true ->
  point_xy (fst (point_on_area y)) = Some p ->
  locate (GPoly y) p = Interior.
Proof. exact pos_areal_interior_ogc_lemma. Qed.
Print Assumptions pos_areal_interior_ogc.
(* a hole apart from the exterior ring: poly_def alone (ex_holed); U shape: no hole at all *)
Example pos_areal_interior_ogc_ex :
  ogc_nest_okb ex_holed = true /\ ogc_nest_okb ex_u = true /\
  forallb (fun h => rings_apart (hd [] (rings_of ex_holed)) h) (tl (rings_of ex_holed)) = true.
Proof. vm_compute. repeat split. Qed.
