(* Property C16 - Coordinate type and Z/M payload are carried consistently through every operation.
   Statements only; proofs are in Proofs/CType_proofs.v.  The model is Model/CType.v.

   Every theorem is generic in the ordinate carrier F with a zero and a zero test
   (hypotheses Z1, Z2 below; the extraction instantiates F := N, raw IEEE-754 bit patterns, see
   carrier_N).  `consistent g` = every node of g reports the coordinates type of the root and
   every ordinate outside that type is zero.  Operations that involve floating-point XY arithmetic
   carry that arithmetic as an argument (TransformXY's callback, the orientation sign used by
   ForceCW/CCW, the interpolated vertices of Densify, the value of an XY-only result): the
   theorems quantify over all such arguments. *)
From Coq Require Import NArith List Bool.
From SF Require Import Base.Outcome Base.Bytes Base.GeomAST Model.WKB Model.CType Proofs.CType_proofs.
Import ListNotations.

(* ------------------------------------------------------------------ constructors *)
(* Each New* yields a value all of whose nodes report one type: XY for an empty member list,
   otherwise the AND (common subset) of the members' types - for ANY members, also members of
   different types, empty members, members that are themselves inconsistent. *)
Theorem ctor_consistent : forall (F : Type) (zero : F) (is_zero : F -> bool),
  is_zero zero = true ->
  (forall rings, consistent is_zero (GPoly (new_polygon zero rings)) = true /\
                 poly_ct (new_polygon zero rings) = match rings with [] => XY | _ => and_all line_ct rings end) /\
  (forall ps, consistent is_zero (new_multipoint zero ps) = true /\
              geom_ct (new_multipoint zero ps) = match ps with [] => XY | _ => and_all point_ct ps end) /\
  (forall ls, consistent is_zero (new_multiline zero ls) = true /\
              geom_ct (new_multiline zero ls) = match ls with [] => XY | _ => and_all line_ct ls end) /\
  (forall ps, consistent is_zero (new_multipoly zero ps) = true /\
              geom_ct (new_multipoly zero ps) = match ps with [] => XY | _ => and_all poly_ct ps end) /\
  (forall gs, consistent is_zero (new_collection zero gs) = true /\
              geom_ct (new_collection zero gs) = match gs with [] => XY | _ => and_all geom_ct gs end).
Proof.
  intros F zero is_zero Z1. repeat split.
  - apply (new_polygon_ok F zero is_zero Z1).
  - apply (new_multipoint_consistent F zero is_zero Z1).
  - apply new_multipoint_ct.
  - apply (new_multiline_consistent F zero is_zero Z1).
  - apply new_multiline_ct.
  - apply (new_multipoly_consistent F zero is_zero Z1).
  - apply new_multipoly_ct.
  - apply (new_collection_consistent F zero is_zero Z1).
  - apply new_collection_ct.
Qed.
Print Assumptions ctor_consistent.

(* NewPoint(Coordinates{...}) (with fix F61): whatever the caller left in the Z/M fields, the point
   meets the representation invariant (fields the type does not have are zero, so nothing can leak
   through Point.Coordinates() or come back on a later ForceCoordinatesType); X, Y and the fields
   the type has are stored as given; a struct that already meets the invariant is stored unchanged *)
Theorem new_point_consistent : forall (F : Type) (zero : F) (is_zero : F -> bool),
  is_zero zero = true -> (forall x, is_zero x = true -> x = zero) ->
  forall (ct : ctype) (v : vtx F),
  consistent is_zero (GPoint (new_point zero ct v)) = true /\
  (match point_c (new_point zero ct v) with
   | Some w => vx w = vx v /\ vy w = vy v /\ vz w = (if has_z ct then vz v else zero) /\
               vm w = (if has_m ct then vm v else zero)
   | None => False
   end) /\
  (vtx_ok is_zero ct v = true -> new_point zero ct v = MkPoint ct (Some v)).
Proof.
  intros F zero is_zero Z1 Z2 ct v. split; [|split].
  - apply new_point_ok_lemma; assumption.
  - eapply new_point_fields_lemma; eassumption.
  - apply new_point_id_lemma; assumption.
Qed.
Print Assumptions new_point_consistent.

(* the AND has exactly the dimensions every member has; members that agree are kept unchanged *)
Theorem ctor_common_subset : forall (A : Type) (f : A -> ctype) (l : list A),
  has_z (and_all f l) = forallb (fun a => has_z (f a)) l /\
  has_m (and_all f l) = forallb (fun a => has_m (f a)) l.
Proof. intros. split. apply has_z_and_all. apply has_m_and_all. Qed.
Print Assumptions ctor_common_subset.

(* ------------------------------------------------------------------ the invariant, all histories *)
Theorem apply_consistent : forall (F : Type) (zero : F) (is_zero : F -> bool),
  is_zero zero = true -> (forall x, is_zero x = true -> x = zero) ->
  forall (g : geomT F) (o : op F) (r : geomT F),
  consistent is_zero g = true -> apply zero g o = Some r -> consistent is_zero r = true.
Proof. exact apply_consistent_lemma. Qed.
Print Assumptions apply_consistent.

Theorem history_consistent : forall (F : Type) (zero : F) (is_zero : F -> bool),
  is_zero zero = true -> (forall x, is_zero x = true -> x = zero) ->
  forall (ops : list (op F)) (g : geomT F),
  consistent is_zero g = true -> consistent is_zero (fold_left (apply_t zero) ops g) = true.
Proof. exact run_consistent_lemma. Qed.
Print Assumptions history_consistent.

(* ------------------------------------------------------------------ the statement, all histories *)
(* CType.spec is the executable statement of the property, operation by operation (same tree,
   node types as the table says, every vertex keeps its own Z and M with its XY, forced
   dimensions zero/dropped, members hold their part of the parent's vertices ...).  The model
   meets it on every consistent value; feqb is any reflexive comparison of ordinates. *)
Theorem apply_meets_spec : forall (F : Type) (zero : F) (is_zero : F -> bool) (feqb : F -> F -> bool),
  is_zero zero = true -> (forall x, is_zero x = true -> x = zero) -> (forall a, feqb a a = true) ->
  forall (g : geomT F) (o : op F) (r : geomT F),
  consistent is_zero g = true -> apply zero g o = Some r -> spec zero feqb is_zero g o r = true.
Proof. exact spec_sound_lemma. Qed.
Print Assumptions apply_meets_spec.

Theorem history_meets_spec : forall (F : Type) (zero : F) (is_zero : F -> bool) (feqb : F -> F -> bool),
  is_zero zero = true -> (forall x, is_zero x = true -> x = zero) -> (forall a, feqb a a = true) ->
  forall (ops : list (op F)) (g : geomT F),
  consistent is_zero g = true -> history_ok zero feqb is_zero g ops = true.
Proof. exact history_ok_lemma. Qed.
Print Assumptions history_meets_spec.

(* the coordinates type of the result is the function of (type of g, operation) given by
   CType.ctype_rule: c for Force c, XY for Force2D and the XY-only operations, unchanged for
   Reverse/TransformXY/ForceCW/CCW/AsMulti/members/DumpCoordinates/Densify, XY-or-unchanged for
   the constructors on an empty/non-empty member list, a subset for re-assembled Coordinates() *)
Theorem ctype_table : forall (F : Type) (zero : F) (is_zero : F -> bool),
  is_zero zero = true -> (forall x, is_zero x = true -> x = zero) ->
  forall (g : geomT F) (o : op F) (r : geomT F),
  consistent is_zero g = true -> apply zero g o = Some r -> ctype_rule g o r.
Proof. exact ctype_rule_lemma. Qed.
Print Assumptions ctype_table.

(* ------------------------------------------------------------------ ForceCoordinatesType *)
(* for EVERY input (empty ones, inconsistent ones): the result is typed c at every node *)
Theorem force_types_every_node : forall (F : Type) (zero : F) (is_zero : F -> bool),
  is_zero zero = true -> forall (c : ctype) (g : geomT F),
  geom_ct (force_geom zero c g) = c /\ consistent is_zero (force_geom zero c g) = true.
Proof. intros F zero is_zero Z1 c g. split; [apply force_geom_ct | now apply force_consistent]. Qed.
Print Assumptions force_types_every_node.

(* on a consistent value of type old: the same tree (map_vertices keeps every member, ring and
   sequence length, also empty ones), every vertex forced, so its vertex list is the image *)
Theorem force_spec : forall (F : Type) (zero : F) (is_zero : F -> bool)
  (c : ctype) (g : geomT F), consistent is_zero g = true ->
  force_geom zero c g = map_vertices c (force_vtx zero (geom_ct g) c) g /\
  geom_vs (force_geom zero c g) = map (force_vtx zero (geom_ct g) c) (geom_vs g).
Proof.
  intros F zero is_zero c g H. split.
  - exact (force_geom_char F zero is_zero (geom_ct g) c g H).
  - exact (force_geom_vs F zero is_zero (geom_ct g) c g H).
Qed.
Print Assumptions force_spec.

(* per vertex: X and Y never change; a dimension is kept iff both types have it; a dimension
   that is dropped disappears (zero in the unused field), one that is added is zero *)
Theorem force_vtx_spec : forall (F : Type) (zero : F) (old new : ctype) (v : vtx F),
  vx (force_vtx zero old new v) = vx v /\ vy (force_vtx zero old new v) = vy v /\
  vz (force_vtx zero old new v) = (if has_z new && has_z old then vz v else zero) /\
  vm (force_vtx zero old new v) = (if has_m new && has_m old then vm v else zero).
Proof. intros. unfold force_vtx; simpl. destruct (has_z new), (has_z old), (has_m new), (has_m old); auto. Qed.
Print Assumptions force_vtx_spec.

Theorem force_idempotent : forall (F : Type) (zero : F) (is_zero : F -> bool),
  is_zero zero = true -> (forall x, is_zero x = true -> x = zero) ->
  forall (c : ctype) (g : geomT F), force_geom zero c (force_geom zero c g) = force_geom zero c g.
Proof. exact force_idempotent_lemma. Qed.
Print Assumptions force_idempotent.

(* two forcings: what survives is what both target types have - for every value *)
Theorem force_force : forall (F : Type) (zero : F) (c1 c2 : ctype) (g : geomT F),
  force_geom zero c2 (force_geom zero c1 g) = force_geom zero c2 (force_geom zero (ct_and c1 c2) g).
Proof. exact force_force_lemma. Qed.
Print Assumptions force_force.

(* the intermediate type is invisible when it keeps every dimension that the value has and the
   final type asks for (in particular when c2's dimensions are a subset of c1's) *)
Theorem force_force_absorb : forall (F : Type) (zero : F) (is_zero : F -> bool) (c1 c2 : ctype) (g : geomT F),
  consistent is_zero g = true -> ct_sub (ct_and c2 (geom_ct g)) c1 = true ->
  force_geom zero c2 (force_geom zero c1 g) = force_geom zero c2 g.
Proof. exact force_force_absorb_lemma. Qed.
Print Assumptions force_force_absorb.

(* the Go-literal shortcuts (Point: "zero Z iff Is3D changes"; Sequence: "same type: return s",
   "no floats: return empty") agree with the plain per-vertex rule on every value satisfying the
   representation invariant *)
Theorem go_force_refines : forall (F : Type) (zero : F) (is_zero : F -> bool),
  is_zero zero = true -> (forall x, is_zero x = true -> x = zero) ->
  (forall new p, point_ok is_zero (point_ct p) p = true -> go_force_point zero new p = force_point zero new p) /\
  (forall new l, line_ok is_zero (line_ct l) l = true -> go_force_line zero new l = force_line zero new l).
Proof.
  intros F zero is_zero Z1 Z2. split.
  - exact (go_force_point_refines F zero is_zero Z1 Z2).
  - exact (go_force_line_refines F zero is_zero Z1 Z2).
Qed.
Print Assumptions go_force_refines.

(* ------------------------------------------------------------------ payload follows XY *)
(* Reverse: every sequence (point, line, ring) is reversed as a list of whole vertices *)
Theorem reverse_payload : forall (F : Type) (is_zero : F -> bool) (g : geomT F),
  consistent is_zero g = true -> geom_seqs (reverse_geom g) = map (@rev (vtx F)) (geom_seqs g).
Proof. intros F is_zero g H. exact (geom_seqs_reverse F is_zero (geom_ct g) g H). Qed.
Print Assumptions reverse_payload.

Theorem reverse_involutive : forall (F : Type) (g : geomT F), reverse_geom (reverse_geom g) = g.
Proof. intros. apply reverse_involutive_lemma. Qed.
Print Assumptions reverse_involutive.

(* TransformXY with any callback f: the vertices are the images, each keeps its own Z and M *)
Theorem transform_payload : forall (F : Type) (zero : F) (is_zero : F -> bool),
  is_zero zero = true -> (forall x, is_zero x = true -> x = zero) ->
  forall (f : xyfun F) (g : geomT F), consistent is_zero g = true ->
  geom_vs (tx_geom zero f g) = map (tx_vtx f) (geom_vs g) /\
  forall v, vz (tx_vtx f v) = vz v /\ vm (tx_vtx f v) = vm v /\ (vx (tx_vtx f v), vy (tx_vtx f v)) = f (vx v) (vy v).
Proof.
  intros F zero is_zero Z1 Z2 f g H. split.
  - exact (geom_vs_tx F zero is_zero Z1 Z2 f (geom_ct g) g H).
  - intros v. unfold tx_vtx. destruct (f (vx v) (vy v)); auto.
Qed.
Print Assumptions transform_payload.

(* ------------------------------------------------------------------ XY-only operations *)
Theorem xy_only_ops_are_xy : forall (F : Type) (zero : F) (is_zero : F -> bool),
  is_zero zero = true -> forall (k : xyop) (res g : geomT F),
  geom_ct (apply_xy zero k res g) = XY /\ consistent is_zero (apply_xy zero k res g) = true.
Proof.
  intros F zero is_zero Z1 k res g. pose proof (apply_xy_xy F zero is_zero Z1 k res g) as H. split.
  - exact (geom_ok_ct F is_zero XY _ H).
  - exact (ok_consistent F is_zero XY _ H).
Qed.
Print Assumptions xy_only_ops_are_xy.

(* ------------------------------------------------------------------ WKB round trip (from C04) *)
Theorem wkb_roundtrip_identity : forall g : geomT N, wf_wkb g = true -> dec (enc g) = Ok (g, []).
Proof. exact wkb_roundtrip_identity_lemma. Qed.
Print Assumptions wkb_roundtrip_identity.

(* ------------------------------------------------------------------ non-vacuity *)
(* the carrier of the extraction meets the hypotheses *)
Example carrier_N : N.eqb 0 0 = true /\ (forall x : N, N.eqb 0 x = true -> x = 0%N) /\ (forall a : N, N.eqb a a = true).
Proof. split; [reflexivity|]. split; [intros x H; symmetry; now apply N.eqb_eq | apply N.eqb_refl]. Qed.

(* a consistent XYZM collection with an empty point, an empty line, a polygon with two rings and a
   nested collection; and a history over it that forces, reverses, transforms, re-orients,
   rebuilds with mixed member types (M is lost to the AND, Z survives with its own vertex),
   extracts a member and dumps *)
Definition ex_v (x y z m : N) : vtx N := Build_vtx x y z m.
Definition ex_g : geomT N :=
  GColl XYZM [ GPoint (MkPoint XYZM None);
               GMPoint XYZM [MkPoint XYZM (Some (ex_v 1 2 3 4)); MkPoint XYZM None];
               GLine (MkLine XYZM []);
               GPoly (MkPoly XYZM [MkLine XYZM [ex_v 0 0 7 8; ex_v 4 0 9 10; ex_v 4 4 11 12; ex_v 0 0 7 8];
                                   MkLine XYZM [ex_v 1 1 13 14; ex_v 2 1 15 16; ex_v 1 1 13 14]]);
               GColl XYZM [GLine (MkLine XYZM [ex_v 5 5 17 18; ex_v 6 6 19 20])] ].
Definition ex_ops : list (op N) :=
  [ OReverse; OTransform (xyfam_fun FSwap); OForceCW (fun _ => Gt); ORebuild [XYZM; XYZ; XYZM; XYZ; XYZM];
    OForce XYZM; OMember 3; ODumpColl ].
Example ex_consistent : consistent_n ex_g = true.
Proof. vm_compute. reflexivity. Qed.
Example ex_history_applies :
  geom_vs (fold_left (apply_t 0%N) ex_ops ex_g) =
  [ex_v 0 0 7 0; ex_v 0 4 9 0; ex_v 4 4 11 0; ex_v 0 0 7 0; ex_v 1 1 13 0; ex_v 1 2 15 0; ex_v 1 1 13 0].
Proof. vm_compute. reflexivity. Qed.
Example ex_history_ok : history_ok 0%N N.eqb (N.eqb 0) ex_g ex_ops = true.
Proof. vm_compute. reflexivity. Qed.
(* the statement discriminates: a "reverse" that swaps the Z values of two vertices, one that
   leaves a node with the old type, and a force that keeps a dropped Z are all rejected *)
Example spec_rejects_swapped_z :
  spec_n (GLine (MkLine XYZ [ex_v 1 2 3 0; ex_v 4 5 6 0])) OReverse
         (GLine (MkLine XYZ [ex_v 4 5 3 0; ex_v 1 2 6 0])) = false.
Proof. vm_compute. reflexivity. Qed.
Example spec_rejects_stale_node_type :
  spec_n (GMPoint XYZ [MkPoint XYZ None]) (OForce XY) (GMPoint XY [MkPoint XYZ None]) = false.
Proof. vm_compute. reflexivity. Qed.
Example spec_rejects_kept_z :
  spec_n (GPoint (MkPoint XYZ (Some (ex_v 1 2 3 0)))) (OForce XYM) (GPoint (MkPoint XYM (Some (ex_v 1 2 0 3)))) = false.
Proof. vm_compute. reflexivity. Qed.
(* constructors on mixed members: XYZ and XYM reduce to XY (both payloads go), XYZM and XYZ to XYZ *)
Example ctor_mixed_and :
  new_collection 0%N [GPoint (MkPoint XYZ (Some (ex_v 1 2 3 0))); GPoint (MkPoint XYM (Some (ex_v 4 5 0 6)))]
  = GColl XY [GPoint (MkPoint XY (Some (ex_v 1 2 0 0))); GPoint (MkPoint XY (Some (ex_v 4 5 0 0)))] /\
  new_multipoint 0%N [MkPoint XYZM (Some (ex_v 1 2 3 4)); MkPoint XYZ None]
  = GMPoint XYZ [MkPoint XYZ (Some (ex_v 1 2 3 0)); MkPoint XYZ None].
Proof. split; vm_compute; reflexivity. Qed.
(* force_force_absorb: the hypothesis is satisfiable and cannot be dropped *)
Example absorb_applies : ct_sub (ct_and XYZ (geom_ct ex_g)) XYZM = true.
Proof. reflexivity. Qed.
Example absorb_hypothesis_needed :
  force_geom 0%N XYZ (force_geom 0%N XY ex_g) <> force_geom 0%N XYZ ex_g.
Proof. vm_compute. discriminate. Qed.
(* an empty geometry keeps / gets the requested type at every node *)
Example force_on_empties :
  force_geom 0%N XYM (GColl XYZ [GPoint (MkPoint XYZ None); GMLine XYZ [MkLine XYZ []]; GPoly (MkPoly XYZ [])])
  = GColl XYM [GPoint (MkPoint XYM None); GMLine XYM [MkLine XYM []]; GPoly (MkPoly XYM [])].
Proof. reflexivity. Qed.
(* the struct stored as given (NewPoint before fix F61) is not consistent: Type XY with Z = 7, M = 9 *)
Example raw_struct_leaks : consistent_n (GPoint (new_point_raw XY (ex_v 1 2 7 9))) = false /\
                           consistent_n (GPoint (new_point 0%N XY (ex_v 1 2 7 9))) = true.
Proof. split; reflexivity. Qed.
