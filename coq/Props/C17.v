(* Property C17 - Densify, Simplify, Interpolate, SnapToGrid, Reverse, ForceCW/CCW keep contracts.
   Statements only; proofs are in Proofs/Tr*_proofs.v and Proofs/Transforms_proofs.v, the models
   (transcriptions of the Go code over exact rationals) in Model/Tr*.v.
   Carriers: Reverse - any ordinate type F; all other operations - Q (exact); the float
   implementation is tied to these models by the correspondence run (tolerances stated there). *)
From Coq Require Import ZArith NArith QArith Qabs List Bool Permutation.
From SF Require Import Base.Outcome Base.GeomAST Model.TrCommon Model.TrReverse Model.TrSnap Model.TrForce
  Model.TrSimplify Model.TrDensify Model.TrInterp
  Proofs.TrReverse_proofs Proofs.TrSnap_proofs Proofs.TrForce_proofs Proofs.TrSimplify_proofs
  Proofs.TrDensify_proofs Proofs.TrInterp_proofs Proofs.Transforms_proofs
  Model.TrSnapFloat Proofs.TrSnapFloat_proofs Model.TrJudge Proofs.TrDensifyGeom_proofs.
Import ListNotations.

(* ===================== Reverse (every geometry type, every ordinate carrier F) ===================== *)
Theorem reverse_involutive : forall (F : Type) (g : geomT F), rev_geom (rev_geom g) = g.
Proof. exact rev_geom_invol. Qed.
Print Assumptions reverse_involutive.

(* the reversed geometry has exactly the segments of the original, each one flipped: the same
   multiset of undirected segments, hence the same point set *)
Theorem reverse_same_segments : forall (F : Type) (g : geomT F),
  Permutation (geom_segs (rev_geom g)) (map swap_seg (geom_segs g)).
Proof. exact geom_segs_rev_perm. Qed.
Print Assumptions reverse_same_segments.

(* for one vertex list even: the flipped segments in reverse order *)
Theorem reverse_line_segments : forall (F : Type) (vs : list (vtx F)),
  line_segs (rev vs) = rev (map swap_seg (line_segs vs)).
Proof. exact line_segs_rev. Qed.
Print Assumptions reverse_line_segments.

(* every vertex keeps its whole payload (X, Y, Z, M travel together); type, coordinates type and
   emptiness are untouched *)
Theorem reverse_keeps_vertices : forall (F : Type) (g : geomT F),
  Permutation (geom_vs (rev_geom g)) (geom_vs g)
  /\ geom_ct (rev_geom g) = geom_ct g /\ geom_type (rev_geom g) = geom_type g
  /\ is_empty (rev_geom g) = is_empty g.
Proof. exact reverse_keeps_vertices_lemma. Qed.
Print Assumptions reverse_keeps_vertices.

(* ===================== ForceCW / ForceCCW ===================== *)
(* IsCW(ForceCW(g)) holds exactly when no exterior ring has zero signed area (true of every valid
   polygon); interior rings always end up acceptable (a zero-area hole counts as "not CW"). *)
Theorem force_cw_is_cw : forall g : geomT Q, geom_is_cw (geom_force_cw g) = geom_ext_nonzero g.
Proof. exact geom_force_cw_is_cw. Qed.
Print Assumptions force_cw_is_cw.
Theorem force_ccw_is_ccw : forall g : geomT Q, geom_is_ccw (geom_force_ccw g) = geom_ext_nonzero g.
Proof. exact geom_force_ccw_is_ccw. Qed.
Print Assumptions force_ccw_is_ccw.

Theorem force_idempotent : forall g : geomT Q, geom_ext_nonzero g = true ->
  geom_force_cw (geom_force_cw g) = geom_force_cw g /\ geom_force_ccw (geom_force_ccw g) = geom_force_ccw g.
Proof. exact force_idempotent_lemma. Qed.
Print Assumptions force_idempotent.

(* the point-set description never changes: same vertices, same segments up to direction, same
   type and coordinates type - for every input, zero-area rings included *)
Theorem force_same_pointset : forall g : geomT Q,
  undirected_perm (geom_segs (geom_force_cw g)) (geom_segs g)
  /\ undirected_perm (geom_segs (geom_force_ccw g)) (geom_segs g)
  /\ Permutation (geom_vs (geom_force_cw g)) (geom_vs g)
  /\ Permutation (geom_vs (geom_force_ccw g)) (geom_vs g)
  /\ geom_ct (geom_force_cw g) = geom_ct g /\ geom_type (geom_force_cw g) = geom_type g
  /\ geom_ct (geom_force_ccw g) = geom_ct g /\ geom_type (geom_force_ccw g) = geom_type g.
Proof. exact force_same_pointset_lemma. Qed.
Print Assumptions force_same_pointset.

(* what the code does with a zero-area exterior ring (outside the contract): the ring is reversed
   on every call and IsCW stays false *)
Theorem force_zero_area_exterior : forall (ct : ctype) (r : lineT Q) (holes : list (lineT Q)),
  signed_area r == 0 ->
  exists holes', poly_force_cw (MkPoly ct (r :: holes)) = MkPoly ct (rev_line r :: holes')
                 /\ poly_is_cw (poly_force_cw (MkPoly ct (r :: holes))) = false.
Proof. exact poly_force_cw_zero_area. Qed.
Print Assumptions force_zero_area_exterior.

Theorem area_reverse_neg : forall l : lineT Q, signed_area (rev_line l) == - signed_area l.
Proof. exact signed_area_rev. Qed.
Print Assumptions area_reverse_neg.

(* ===================== Densify ===================== *)
(* for every subdivision-count function kf (the float code's ceil(|ab|/d) included) *)
Theorem densify_keeps_originals : forall (kf : qv -> qv -> Z) (vs : list qv),
  Subseq vs (densify_seq kf vs).
Proof. exact densify_keeps_originals_lemma. Qed.
Print Assumptions densify_keeps_originals.

(* DensRel: between consecutive originals a, b there are exactly kf a b - 1 new points, the j-th
   (0 < j < kf a b) being a + (j / kf a b)(b - a) in X, Y, Z and M; nothing else is added *)
Theorem densify_on_segment : forall (kf : qv -> qv -> Z) (vs : list qv),
  DensRel kf vs (densify_seq kf vs).
Proof. exact densify_on_segment_lemma. Qed.
Print Assumptions densify_on_segment.

(* no gap longer than d, provided the count satisfies kf a b * d >= |ab| (on squares) ... *)
Theorem densify_gap : forall (kf : qv -> qv -> Z) (d : Q),
  (forall a b, (0 <= kf a b)%Z /\ d2 a b <= inject_Z (kf a b) * inject_Z (kf a b) * (d * d)) ->
  forall vs, Forall (fun s => d2 (fst s) (snd s) <= d * d) (line_segs (densify_seq kf vs)).
Proof. exact densify_gap_lemma'. Qed.
Print Assumptions densify_gap.

(* ... which the exact value of ceil(|ab| / d) does, and it is the least such count *)
Theorem densify_count_exact : forall (d : Q) (a b : qv), 0 < d ->
  (0 <= k_exact d a b)%Z /\ d2 a b <= inject_Z (k_exact d a b) * inject_Z (k_exact d a b) * (d * d).
Proof. exact k_exact_ok. Qed.
Print Assumptions densify_count_exact.
Theorem densify_count_minimal : forall (d : Q) (a b : qv), 0 < d -> (1 <= k_exact d a b)%Z ->
  inject_Z (k_exact d a b - 1) * inject_Z (k_exact d a b - 1) * (d * d) < d2 a b.
Proof. exact k_exact_minimal. Qed.
Print Assumptions densify_count_minimal.

(* empty and single-point sequences are returned as they are; a zero-length segment is not subdivided *)
Theorem densify_degenerate : forall (kf : qv -> qv -> Z) (d : Q) (a b : qv),
  densify_seq kf [] = [] /\ densify_seq kf [a] = [a]
  /\ (d2 a b == 0 -> k_exact d a b = 0%Z /\ densify_seq (k_exact d) [a; b] = [a; b]).
Proof. exact densify_degenerate_lemma. Qed.
Print Assumptions densify_degenerate.

(* a LineString: d > 0 gives the densified sequence with the coordinates type kept; d <= 0 panics *)
Theorem densify_line : forall (kf : qv -> qv -> Z) (d : Q) (l : lineT Q),
  (0 < d -> exists l', dens_line kf d l = Ok l' /\ line_ct l' = line_ct l
                       /\ line_vs l' = densify_seq kf (line_vs l))
  /\ (d <= 0 -> dens_line kf d l = Panic POther).
Proof. exact densify_line_lemma. Qed.
Print Assumptions densify_line.

(* whole geometries (every type, nested collections): for d > 0 Densify does not panic, keeps type
   and coordinates type, and every line / ring of the result is the densified line / ring of the
   input, in storage order (geom_lines lists them) *)
Theorem densify_geometry : forall (kf : qv -> qv -> Z) (d : Q), 0 < d -> forall g : geomT Q,
  exists g', dens_geom kf d g = Ok g' /\ geom_type g' = geom_type g /\ geom_ct g' = geom_ct g
             /\ Forall2 (line_dens kf) (geom_lines g) (geom_lines g').
Proof. exact dens_geom_rel. Qed.
Print Assumptions densify_geometry.

(* the float code's lerp, branch by branch, is a + t(b-a) in exact arithmetic *)
Theorem lerp_exact : forall a b t : Q, lerpQ a b t == a + t * (b - a).
Proof. exact lerpQ_exact. Qed.
Print Assumptions lerp_exact.

(* ===================== Simplify: Ramer-Douglas-Peucker as written ===================== *)
(* RdpRel t input output: first and last vertex kept, output a subsequence, and every dropped vertex
   within t of the line through the two retained vertices that bracket it (of the point, when they
   coincide) - for every threshold t >= 0 and every non-empty vertex list *)
Theorem rdp_contract : forall t : Q, 0 <= t -> forall vs : list qv, vs <> [] -> RdpRel t vs (rdp t vs).
Proof. exact rdp_rel. Qed.
Print Assumptions rdp_contract.

Theorem rdp_subsequence : forall (t : Q) (vs : list qv), 0 <= t -> Subseq (rdp t vs) vs.
Proof. exact rdp_subsequence_lemma. Qed.
Print Assumptions rdp_subsequence.

Theorem rdp_endpoints : forall (t : Q) (vs : list qv) (d : qv), 0 <= t -> vs <> [] ->
  hd_error (rdp t vs) = hd_error vs /\ last (rdp t vs) d = last vs d.
Proof. exact rdp_endpoints_lemma. Qed.
Print Assumptions rdp_endpoints.

Theorem rdp_dropped_within_t : forall (t : Q) (vs : list qv) (p : qv), 0 <= t -> In p vs ->
  In p (rdp t vs) \/ exists a b, In (a, b) (line_segs (rdp t vs)) /\ pd2 a b p <= t * t.
Proof. exact rdp_dropped_within_t_lemma. Qed.
Print Assumptions rdp_dropped_within_t.

Theorem rdp_short_input : forall (t : Q) (vs : list qv), (length vs <= 2)%nat -> rdp t vs = vs.
Proof. exact rdp_short. Qed.
Print Assumptions rdp_short_input.

(* the total function rdp is today's code for every non-negative threshold ... *)
Theorem rdp_is_todays_code : forall t : Q, 0 <= t -> forall vs : list qv, rdp_unfixed t vs = Some (rdp t vs).
Proof. exact rdp_unfixed_agrees. Qed.
Print Assumptions rdp_is_todays_code.
(* ... and today's code does not terminate for a negative threshold (finding F130; outside the
   property's quantifier, which takes t from 0): None stands for "the loop never ends" *)
Theorem rdp_negative_threshold_refuted : exists (t : Q) (vs : list qv), rdp_unfixed t vs = None.
Proof. exact rdp_negative_threshold_refuted_lemma. Qed.
Print Assumptions rdp_negative_threshold_refuted.

(* the executable relation evaluated on the implementation's outputs accepts everything the contract allows *)
Theorem rdp_checker_complete : forall (t : Q) (i o : list qv), RdpRel t i o -> rdp_rel_b t i o = true.
Proof. exact rdp_rel_b_complete. Qed.
Print Assumptions rdp_checker_complete.
(* ... and nothing else: what it accepts is related by RdpRelV (RdpRel with "the same vertex" read as
   "equal ordinates", distances taken to the retained vertices) *)
Theorem rdp_checker_sound : forall (t : Q) (i o : list qv), rdp_rel_b t i o = true -> RdpRelV t i o.
Proof. exact rdp_rel_b_sound. Qed.
Print Assumptions rdp_checker_sound.

(* LineString.Simplify: the RDP result or, when that has fewer than two distinct points, the empty
   LineString; coordinates type kept; the result always passes LineString validation *)
Theorem simplify_line_contract : forall (t : Q) (l : lineT Q),
  line_ct (simplify_line t l) = line_ct l
  /\ (line_vs (simplify_line t l) = rdp t (line_vs l) \/ line_vs (simplify_line t l) = [])
  /\ line_valid_vs (line_vs (simplify_line t l)) = true.
Proof. exact simplify_line_lemma. Qed.
Print Assumptions simplify_line_contract.

(* Polygon.Simplify, for every validity predicate standing for the code's Validate call:
   exterior ring with fewer than 4 points left => the empty polygon of the same coordinates type *)
Theorem simplify_polygon_collapse : forall (t : Q) (poly_valid : polyT Q -> bool) (validate : bool)
  (ct : ctype) (rs : list (lineT Q)),
  collapsed (match rs with [] => MkLine ct [] | r :: _ => simplify_line t r end) = true ->
  simplify_poly t poly_valid validate (MkPoly ct rs) = Ok (MkPoly ct []).
Proof. exact simplify_poly_collapse. Qed.
Print Assumptions simplify_polygon_collapse.

(* collapsed interior rings are omitted: every ring of a result has at least 4 points; the
   coordinates type is kept *)
Theorem simplify_polygon_rings : forall (t : Q) (poly_valid : polyT Q -> bool) (validate : bool)
  (p p' : polyT Q),
  simplify_poly t poly_valid validate p = Ok p' ->
  Forall (fun r => (4 <= length (line_vs r))%nat) (poly_rings p').
Proof. exact simplify_poly_rings. Qed.
Print Assumptions simplify_polygon_rings.
Theorem simplify_polygon_ctype : forall (t : Q) (poly_valid : polyT Q -> bool) (validate : bool)
  (ct : ctype) (rs : list (lineT Q)) (p' : polyT Q),
  Forall (fun r => line_ct r = ct) rs ->
  simplify_poly t poly_valid validate (MkPoly ct rs) = Ok p' -> poly_ct p' = ct.
Proof. exact simplify_poly_ct. Qed.
Print Assumptions simplify_polygon_ctype.

(* the gate: with validation on, a returned polygon is empty or passed Validate - otherwise an
   error was returned; same for MultiPolygon; and Simplify never panics *)
Theorem simplify_valid_or_error : forall (t : Q) (poly_valid : polyT Q -> bool) (validate : bool)
  (p p' : polyT Q),
  simplify_poly t poly_valid validate p = Ok p' -> validate = true ->
  poly_rings p' = [] \/ poly_valid p' = true.
Proof. exact simplify_poly_gate. Qed.
Print Assumptions simplify_valid_or_error.
Theorem simplify_multipolygon_valid_or_error : forall (t : Q) (poly_valid : polyT Q -> bool)
  (mpoly_valid : list (polyT Q) -> bool) (validate : bool) (ct : ctype) (ps : list (polyT Q)) (g : geomT Q),
  simplify_mpoly t poly_valid mpoly_valid validate ct ps = Ok g -> validate = true ->
  exists c qs, g = force_geom 0 ct (GMPoly c qs) /\ mpoly_valid qs = true.
Proof. exact simplify_mpoly_gate. Qed.
Print Assumptions simplify_multipolygon_valid_or_error.
Theorem simplify_never_panics : forall (t : Q) (poly_valid : polyT Q -> bool)
  (mpoly_valid : list (polyT Q) -> bool) (validate : bool) (g : geomT Q),
  is_panic (simplify_geom t poly_valid mpoly_valid validate g) = false.
Proof. exact simplify_geom_no_panic. Qed.
Print Assumptions simplify_never_panics.

(* ===================== InterpolatePoint / InterpolateEvenlySpacedPoints ===================== *)
(* for every non-negative square-root function sq (lengths are sq of the squared lengths) and every
   line with at least two points - repeated points anywhere, zero total length included - the
   repaired code (fixes/F9.patch) returns a point p that lies on a segment a->b of the line at a
   parameter s in [0,1] (X, Y, Z, M all at s) such that the length of the line up to p is
   clamp(f) * total *)
Theorem interp_on_line_at_fraction : forall (sq : Q -> Q), (forall x, 0 <= sq x) ->
  forall (vs : list qv) (f : Q), (2 <= length vs)%nat ->
  exists p pre a b post s,
    interpolate sq true vs f = IPoint p
    /\ vs = pre ++ a :: b :: post
    /\ 0 <= s <= 1 /\ param_pt a b s p
    /\ path_len sq (pre ++ [a]) + s * dist sq a b == clamp01 f * path_len sq vs.
Proof. exact interpolate_spec. Qed.
Print Assumptions interp_on_line_at_fraction.

Theorem interp_clamp : forall f : Q,
  0 <= clamp01 f <= 1 /\ (f <= 0 -> clamp01 f == 0) /\ (1 <= f -> clamp01 f == 1)
  /\ (0 <= f <= 1 -> clamp01 f == f).
Proof. exact clamp_lemma. Qed.
Print Assumptions interp_clamp.

(* n <= 0: no point; empty line: n empty points; n = 1: the midpoint; n >= 2: the points at i/(n-1) *)
Theorem evenly_spaced_contract : forall (sq : Q -> Q) (vs : list qv) (n : Z),
  (n <= 0)%Z /\ evenly_spaced sq true vs n = []
  \/ (0 < n)%Z /\ vs = [] /\ evenly_spaced sq true vs n = repeat None (Z.to_nat n)
  \/ n = 1%Z /\ vs <> [] /\ evenly_spaced sq true vs n = [Some (interpolate sq true vs (1 # 2))]
  \/ (2 <= n)%Z /\ vs <> [] /\ length (evenly_spaced sq true vs n) = Z.to_nat n
     /\ forall i r, nth_error (evenly_spaced sq true vs n) i = Some r ->
          r = Some (interpolate sq true vs (inject_Z (Z.of_nat i) / inject_Z (n - 1))).
Proof. exact evenly_spaced_spec. Qed.
Print Assumptions evenly_spaced_contract.

(* the executable square root is non-negative and exact on squares of rationals: on lines whose
   segment lengths are rational, [dist qsqrt] is the Euclidean length *)
Theorem qsqrt_exact_on_squares : forall r : Q, 0 <= qsqrt r /\ (0 <= r -> qsqrt (r * r) == r).
Proof. exact qsqrt_lemma. Qed.
Print Assumptions qsqrt_exact_on_squares.

(* F9: today's code (fixed = false) yields an undefined point - NaN ordinates - on a valid line *)
Theorem interp_finite_refuted :
  exists (vs : list qv) (f : Q), line_valid_vs vs = true /\ (2 <= length vs)%nat
                                 /\ interpolate qsqrt false vs f = IUndef.
Proof. exact interp_finite_refuted_lemma. Qed.
Print Assumptions interp_finite_refuted.

(* ===================== SnapToGrid, exact model: the contracts for all x and all places ===================== *)
Theorem snap_on_grid : forall (x : Q) (dp : Z), exists k : Z, snapQ x dp == inject_Z k * grid_step dp.
Proof. exact snapQ_on_grid. Qed.
Print Assumptions snap_on_grid.
Theorem snap_half_step : forall (x : Q) (dp : Z), Qabs (snapQ x dp - x) <= (1 # 2) * grid_step dp.
Proof. exact snapQ_half_step. Qed.
Print Assumptions snap_half_step.
Theorem snap_odd : forall (x : Q) (dp : Z), snapQ (- x) dp == - snapQ x dp.
Proof. exact snapQ_odd. Qed.
Print Assumptions snap_odd.
Theorem snap_idempotent : forall (x : Q) (dp : Z), snapQ (snapQ x dp) dp == snapQ x dp.
Proof. exact snapQ_idempotent. Qed.
Print Assumptions snap_idempotent.
Theorem snap_nearest : forall (x : Q) (dp : Z) (j : Z),
  Qabs (snapQ x dp - x) <= Qabs (inject_Z j * grid_step dp - x).
Proof. exact snapQ_nearest. Qed.
Print Assumptions snap_nearest.
Theorem snap_grid_points_fixed : forall (k : Z) (dp : Z),
  snapQ (inject_Z k * grid_step dp) dp == inject_Z k * grid_step dp.
Proof. exact snapQ_grid_fixed. Qed.
Print Assumptions snap_grid_points_fixed.


(* ===================== SnapToGrid on binary64 itself (primitive floats, by evaluation) ===================== *)
(* The transcription snap_f of snapToGridFloat64 over IEEE-754 binary64 (Model/TrSnapFloat.v) is
   compared bit for bit with the implementation on every run (float path of the correspondence).
   F10: before fixes/F10.patch a finite ordinate becomes infinite or NaN. These statements depend on
   the kernel's primitive float operations (listed by Print Assumptions; not axioms of this
   development). *)
Theorem snap_float_finite_refuted :
  exists (x : PrimFloat.float) (dp : Z), f_is_finite x = true /\ f_is_finite (snap_f false x dp) = false.
Proof. exact snap_float_finite_refuted_lemma. Qed.
Print Assumptions snap_float_finite_refuted.

(* the repaired code on the boundary values of the quantifier (+-1e300, +-0, smallest subnormal and
   normal, +-2.5) x places {-320,-309,-308,-1,0,1,10,22,23,307,308,309,320}: finite, and odd as numbers *)
Theorem snap_float_fixed_boundary :
  forallb (fun x => forallb (fun dp => f_is_finite (snap_f true x dp)) f10_places) f10_inputs = true
  /\ forallb (fun x => forallb (fun dp => PrimFloat.eqb (snap_f true (PrimFloat.opp x) dp)
                                                        (PrimFloat.opp (snap_f true x dp))) f10_places)
             f10_inputs = true.
Proof. exact (conj snap_float_fixed_finite_on_boundary snap_float_fixed_odd_on_boundary). Qed.
Print Assumptions snap_float_fixed_boundary.

(* ===================== non-vacuity: the hypotheses are met by non-trivial values ===================== *)
Definition v (x y : Z) : qv := Build_vtx (inject_Z x) (inject_Z y) 0 0.
Definition vz4 (x y z m : Z) : qv := Build_vtx (inject_Z x) (inject_Z y) (inject_Z z) (inject_Z m).
(* a clockwise square with a clockwise hole inside a collection next to a line: ForceCCW changes it *)
Definition ex_poly : geomT Q :=
  GColl XY [GPoly (MkPoly XY [MkLine XY [v 0 0; v 0 9; v 9 9; v 9 0; v 0 0];
                             MkLine XY [v 2 2; v 2 4; v 4 4; v 4 2; v 2 2]]);
            GLine (MkLine XY [v 0 0; v 1 1])].
Example ex_force_hyp : geom_ext_nonzero ex_poly = true /\ geom_is_ccw ex_poly = false
                       /\ geom_is_ccw (geom_force_ccw ex_poly) = true.
Proof. vm_compute. auto. Qed.
(* RDP with repeated vertices, threshold 1 (one vertex at distance exactly 1 is dropped) *)
Example ex_rdp :
  rdp 1 [v 0 0; v 0 0; v 1 1; v 2 0; v 3 3; v 4 0; v 4 0] = [v 0 0; v 2 0; v 3 3; v 4 0].
Proof. vm_compute. reflexivity. Qed.
(* Densify: a 3-4-5 segment at d = 2 gets ceil(5/2) = 3 subdivisions, Z and M interpolated;
   the repeated point after it none *)
Example ex_densify :
  map (fun p => (Qred (vx p), Qred (vy p), Qred (vz p), Qred (vm p)))
      (densify_seq (k_exact 2) [vz4 0 0 0 9; vz4 3 4 6 0; vz4 3 4 7 0])
  = [(0, 0, 0, 9); (1, 4 # 3, 2, 6); (2, 8 # 3, 4, 3); (3, 4, 6, 0); (3, 4, 7, 0)].
Proof. vm_compute. reflexivity. Qed.
(* Interpolate on a line with rational lengths (5 + 0 + 5), leading repeated point, f = 3/4 *)
Example ex_interp :
  match interpolate qsqrt true [v 0 0; v 0 0; v 3 4; v 3 4; v 6 8] (3 # 4) with
  | IPoint p => Qeq_bool (vx p) (9 # 2) && Qeq_bool (vy p) 6
  | _ => false
  end = true
  /\ interpolate qsqrt true [v 0 0; v 0 0; v 3 4] 0 = IPoint (v 0 0).
Proof. vm_compute. auto. Qed.
Example ex_snap : snapQ (-(5 # 2)) 0 == -(3) /\ snapQ (1 # 8) 2 == 13 # 100 /\ snapQ 25 (-1) == 30.
Proof. vm_compute. auto. Qed.
