(* C17 - the translator tie as statements (nothing else in this file): the bodies of geom/type_polygon.go:IsCW,
   IsCCW and geom/alg_simplify.go:perpendicularDistance, re-read from the Go source on every run into
   Gen/FuncsLoop.v, ARE the model functions the ForceCW/ForceCCW and Simplify theorems of Props/C17.v are about. *)
From Coq Require Import QArith List.
From SF Require Import Base.FOps Base.GeomAST Gen.FuncsLoop Model.TrCommon Model.TrForce Model.TrSimplify
  Proofs.Funcs_tie_Loop_Force Proofs.Funcs_tie_Loop_Simplify.

Theorem go_IsCW_is_model : forall p : polyT Q, geom_Polygon_IsCW qops (gpoly p) = Known (poly_is_cw p).
Proof. exact tie_Polygon_IsCW. Qed.
Print Assumptions go_IsCW_is_model.

Theorem go_IsCCW_is_model : forall p : polyT Q, geom_Polygon_IsCCW qops (gpoly p) = Known (poly_is_ccw p).
Proof. exact tie_Polygon_IsCCW. Qed.
Print Assumptions go_IsCCW_is_model.

(* for every root function: the square of Go's perpendicular distance is the model's squared distance *)
Theorem go_perpendicularDistance_is_model : forall (sq : Q -> Q) (hy : Q -> Q -> Q),
  (forall x y, hy x y = sq (x * x + y * y)) -> (forall x, 0 <= x -> sq x * sq x == x) ->
  forall p a b : qv,
  geom_perpendicularDistance (qops_with sq hy) (gq p) (gq a) (gq b)
  * geom_perpendicularDistance (qops_with sq hy) (gq p) (gq a) (gq b) == pd2 a b p.
Proof. exact tie_perpendicularDistance. Qed.
Print Assumptions go_perpendicularDistance_is_model.
