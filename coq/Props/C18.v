(* Property C18 - ExactEquals is structural identity; IgnoreOrder ignores only member/vertex
   order.  Statements only; proofs are in Proofs/ExactEq_proofs.v.
   Model: Model/ExactEq.v (transcription of geom/alg_exact_equals.go after the repairs F11, F50
   and F52).  [exact_equals simple tol io g h] is ExactEquals(g, h, ToleranceXY(tol), IgnoreOrder?)
   on IEEE-754 bit patterns; [simple] is LineString.IsSimple (an oracle: it belongs to C03). *)
From Coq Require Import NArith List Bool Permutation.
From SF Require Import Base.GeomAST Model.WKB Model.ExactEq Proofs.ExactEq_proofs Proofs.ExactEq_complete.
Import ListNotations.

(* ---- 1. no options: structural identity ------------------------------------------------ *)

(* Generic in the ordinate carrier: whenever == on ordinates is characterised by a normal form nz
   on the ok (= non-NaN) ordinates, ExactEquals without options holds exactly when the normal
   forms of the two values are identical: same type, same coordinate type at every node, same
   nesting, same member and vertex counts, same vertex sequences. *)
Theorem ee_iff_norm : forall (F : Type) (feq : F -> F -> bool) (simple : lineT F -> bool)
    (nz : F -> F) (zero : F) (ok : F -> bool),
  (forall a b, ok a = true -> ok b = true -> (feq a b = true <-> nz a = nz b)) ->
  forall g h : geomT F,
  cts_agree g = true -> cts_agree h = true -> geom_nf ok g = true -> geom_nf ok h = true ->
  (geom_eq feq (xy_exact feq) simple false g h = true <-> norm_geom nz zero g = norm_geom nz zero h).
Proof. exact ee_iff_norm_lemma. Qed.
Print Assumptions ee_iff_norm.

(* On bit patterns with IEEE equality (-0 == +0, NaN differs from everything): ExactEquals
   without options holds exactly when the WKB encodings are equal once -0 is written as +0. *)
Theorem ee_iff_wkb : forall (simple : lineT N -> bool) (g h : geom),
  wf_wkb g = true -> wf_wkb h = true -> nan_free g = true -> nan_free h = true ->
  (exact_equals simple 0 false g h = true <-> enc (nzg g) = enc (nzg h)).
Proof. exact ee_iff_wkb_lemma. Qed.
Print Assumptions ee_iff_wkb.

(* the executable statement used by the correspondence run is the same thing *)
Theorem ee_is_wkb_equal : forall (simple : lineT N -> bool) (g h : geom),
  wf_wkb g = true -> wf_wkb h = true -> nan_free g = true -> nan_free h = true ->
  exact_equals simple 0 false g h = wkb_equal g h.
Proof. exact ee_iff_wkb_equal_lemma. Qed.
Print Assumptions ee_is_wkb_equal.

Theorem ee_equivalence : forall simple : lineT N -> bool,
  (forall g, cts_agree g = true -> nan_free g = true -> exact_equals simple 0 false g g = true) /\
  (forall g h, cts_agree g = true -> cts_agree h = true -> nan_free g = true -> nan_free h = true ->
               exact_equals simple 0 false g h = true -> exact_equals simple 0 false h g = true) /\
  (forall g h k, cts_agree g = true -> cts_agree h = true -> cts_agree k = true ->
                 nan_free g = true -> nan_free h = true -> nan_free k = true ->
                 exact_equals simple 0 false g h = true -> exact_equals simple 0 false h k = true ->
                 exact_equals simple 0 false g k = true).
Proof. exact ee_equivalence_lemma. Qed.
Print Assumptions ee_equivalence.

(* Stale fields.  geom.NewPoint stores the Coordinates struct as given, so the Z / M field of a
   point whose coordinate type does not use it may hold anything (also NaN); no encoding shows it.
   Under every option subset the comparison gives the answer it gives on the values with those
   fields zeroed - equality is determined by the USED ordinates.  (ee_iff_norm above already says
   so for the case without options: its normal form zeroes the unused fields and its NaN
   hypothesis only concerns used ordinates.)  The accessor dump of the correspondence run shows
   used ordinates only, so the model is evaluated on strip_points of the stored value. *)
Theorem ee_ignores_unused_fields : forall (simple : lineT N -> bool) (tol : N) (io : bool) (g h : geom),
  exact_equals simple tol io (strip_points N 0%N g) (strip_points N 0%N h) = exact_equals simple tol io g h.
Proof. exact ee_ignores_unused_lemma. Qed.
Print Assumptions ee_ignores_unused_fields.

(* ---- 2. the member matching ------------------------------------------------------------- *)

(* validPermutation (backtracking over the shrinking slice of unmatched members) answers true
   exactly when the members of the second list can be rearranged so that corresponding members
   are equal - for any member comparison, equivalence relation or not. *)
Theorem valid_permutation_spec : forall (A B : Type) (eqm : A -> B -> bool) (l1 : list A) (l2 : list B),
  length l1 = length l2 ->
  (valid_permutation eqm l1 l2 = true <->
   exists p, Permutation l2 p /\ Forall2 (fun a b => eqm a b = true) l1 p).
Proof. exact @vp_spec. Qed.
Print Assumptions valid_permutation_spec.

(* ---- 3. IgnoreOrder ---------------------------------------------------------------------- *)

(* "and nothing else": whatever ExactEquals(IgnoreOrder) identifies is related by the listed
   moves (OrderEquiv, Model/ExactEq.v) - for every ordinate comparison and every IsSimple. *)
Theorem ee_ignore_order_sound : forall (F : Type) (feq : F -> F -> bool) (simple : lineT F -> bool)
    (g h : geomT F),
  cts_agree g = true -> cts_agree h = true ->
  geom_eq feq (xy_exact feq) simple true g h = true -> OrderEquiv feq simple g h.
Proof. exact ee_io_sound_lemma. Qed.
Print Assumptions ee_ignore_order_sound.

(* ExactEquals without IgnoreOrder implies ExactEquals with it (same other options) *)
Theorem ee_plain_implies_ignore_order : forall (F : Type) feq xy simple (g h : geomT F),
  geom_eq feq xy simple false g h = true -> geom_eq feq xy simple true g h = true.
Proof. exact ee_plain_implies_io_lemma. Qed.
Print Assumptions ee_plain_implies_ignore_order.

(* Every generator of OrderEquiv is accepted, with NO assumption on the IsSimple oracle:
   reversal of any LineString, rotation by any k and/or reversal of a ring, every permutation of
   the members of a MultiPoint / MultiLineString / MultiPolygon / GeometryCollection and of the
   holes of a Polygon, and acceptance is preserved when members are replaced by accepted members
   at any level.  (The closure under symmetry and transitivity is ee_ignore_order_complete below,
   which needs the oracle to be invariant under the moves.) *)
Theorem ee_ignore_order_accepts_generators : forall (F : Type) (feq : F -> F -> bool) (simple : lineT F -> bool)
    (ok : F -> bool),
  (forall a, ok a = true -> feq a a = true) ->
  let ee_io := geom_eq feq (xy_exact feq) simple true in
  (forall ct vs, line_nf ok (MkLine ct vs) = true ->
                 ee_io (GLine (MkLine ct vs)) (GLine (MkLine ct (rev vs))) = true) /\
  (forall ct vs ws k (flip : bool),
     ring feq simple (MkLine ct vs) -> ring feq simple (MkLine ct ws) ->
     Forall2 (veq feq ct) (if flip then rev ws else ws) (rotk k vs) ->
     ee_io (GLine (MkLine ct ws)) (GLine (MkLine ct vs)) = true) /\
  ((forall ct ps qs, forallb (point_nf ok) ps = true -> Permutation ps qs -> ee_io (GMPoint ct ps) (GMPoint ct qs) = true) /\
   (forall ct ls ks, forallb (line_nf ok) ls = true -> Permutation ls ks -> ee_io (GMLine ct ls) (GMLine ct ks) = true) /\
   (forall ct ps qs, forallb (poly_nf ok) ps = true -> Permutation ps qs -> ee_io (GMPoly ct ps) (GMPoly ct qs) = true) /\
   (forall ct gs hs, forallb (geom_nf ok) gs = true -> Permutation gs hs -> ee_io (GColl ct gs) (GColl ct hs) = true) /\
   (forall ct e hs ks, poly_nf ok (MkPoly ct (e :: hs)) = true -> Permutation hs ks ->
                       ee_io (GPoly (MkPoly ct (e :: hs))) (GPoly (MkPoly ct (e :: ks))) = true)) /\
  ((forall ct rs ss, Forall2 (fun l k => ee_io (GLine l) (GLine k) = true) rs ss ->
                     ee_io (GPoly (MkPoly ct rs)) (GPoly (MkPoly ct ss)) = true) /\
   (forall ct ls ks, Forall2 (fun l k => ee_io (GLine l) (GLine k) = true) ls ks ->
                     ee_io (GMLine ct ls) (GMLine ct ks) = true) /\
   (forall ct ps qs, Forall2 (fun p q => ee_io (GPoly p) (GPoly q) = true) ps qs ->
                     ee_io (GMPoly ct ps) (GMPoly ct qs) = true) /\
   (forall ct gs hs, Forall2 (fun g h => ee_io g h = true) gs hs -> ee_io (GColl ct gs) (GColl ct hs) = true)).
Proof. exact ee_io_accepts_generators_lemma. Qed.
Print Assumptions ee_ignore_order_accepts_generators.

(* ExactEquals(IgnoreOrder) is symmetric, for every IsSimple oracle, whenever == on ordinates is
   symmetric and transitive (this is what the repair F50 establishes: before it, a ring whose
   closing vertex differs in Z or M from its first vertex was matched in one argument order only) *)
Theorem ee_ignore_order_sym : forall (F : Type) (feq : F -> F -> bool) (simple : lineT F -> bool),
  (forall a b, feq a b = true -> feq b a = true) ->
  (forall a b c, feq a b = true -> feq b c = true -> feq a c = true) ->
  forall g h : geomT F,
  geom_eq feq (xy_exact feq) simple true g h = true -> geom_eq feq (xy_exact feq) simple true h g = true.
Proof. exact geom_io_sym. Qed.
Print Assumptions ee_ignore_order_sym.

Theorem ee_ignore_order_sym_bits : forall (simple : lineT N -> bool) (g h : geom),
  exact_equals simple 0 true g h = exact_equals simple 0 true h g.
Proof. exact ee_io_sym_bits. Qed.
Print Assumptions ee_ignore_order_sym_bits.

(* Completeness.  Hypotheses on the oracle, explicit: IsSimple does not distinguish lines whose
   ordinates are pairwise ==, nor a closed line from its reversal.  Exact simplicity satisfies
   both; the floating-point IsSimple of the implementation violates them on the inputs of finding
   F51 (ordinates below about 1e-162 or above about 1e150), which is exactly where the
   correspondence run sees IgnoreOrder refuse a listed move. *)
Theorem ee_ignore_order_trans : forall (F : Type) (feq : F -> F -> bool) (simple : lineT F -> bool),
  (forall a b, feq a b = true -> feq b a = true) ->
  (forall a b c, feq a b = true -> feq b c = true -> feq a c = true) ->
  (forall ct vs ws, Forall2 (veq feq ct) vs ws -> simple (MkLine ct vs) = simple (MkLine ct ws)) ->
  (forall ct vs, ends_eq feq (xy_exact feq) (MkLine ct vs) = true ->
                 simple (MkLine ct (rev vs)) = simple (MkLine ct vs)) ->
  forall g h k : geomT F,
  geom_eq feq (xy_exact feq) simple true g h = true -> geom_eq feq (xy_exact feq) simple true h k = true ->
  geom_eq feq (xy_exact feq) simple true g k = true.
Proof. exact geom_io_trans. Qed.
Print Assumptions ee_ignore_order_trans.

(* "identifies geometries that differ only by ...": whatever is related by the listed moves is
   accepted, provided one side is self-equal (= has no NaN in a used ordinate) *)
Theorem ee_ignore_order_complete : forall (F : Type) (feq : F -> F -> bool) (simple : lineT F -> bool),
  (forall a b, feq a b = true -> feq b a = true) ->
  (forall a b c, feq a b = true -> feq b c = true -> feq a c = true) ->
  (forall ct vs ws, Forall2 (veq feq ct) vs ws -> simple (MkLine ct vs) = simple (MkLine ct ws)) ->
  (forall ct vs, ends_eq feq (xy_exact feq) (MkLine ct vs) = true ->
                 simple (MkLine ct (rev vs)) = simple (MkLine ct vs)) ->
  forall g h : geomT F,
  OrderEquiv feq simple g h -> geom_eq feq (xy_exact feq) simple true g g = true ->
  geom_eq feq (xy_exact feq) simple true g h = true.
Proof. exact ee_io_complete_lemma. Qed.
Print Assumptions ee_ignore_order_complete.

(* ... "and nothing else": the full equivalence, on bit patterns with IEEE equality *)
Theorem ee_ignore_order_spec : forall (simple : lineT N -> bool) (g h : geom),
  (forall ct vs ws, Forall2 (veq feq_bits ct) vs ws -> simple (MkLine ct vs) = simple (MkLine ct ws)) ->
  (forall ct vs, ends_eq feq_bits (xy_exact feq_bits) (MkLine ct vs) = true ->
                 simple (MkLine ct (rev vs)) = simple (MkLine ct vs)) ->
  cts_agree g = true -> cts_agree h = true -> nan_free g = true ->
  (exact_equals simple 0 true g h = true <-> OrderEquiv feq_bits simple g h).
Proof. exact ee_io_iff_bits. Qed.
Print Assumptions ee_ignore_order_spec.

(* ---- 4. ToleranceXY ---------------------------------------------------------------------- *)
(* [tol] is the bit pattern of the argument of ToleranceXY; squared distances are compared
   exactly (rationals), see Model/ExactEq.v:xy_eq_bits *)

Theorem ee_tol_refl : forall (simple : lineT N -> bool) (tol : N) (io : bool) (g : geom),
  nan_free g = true -> exact_equals simple tol io g g = true.
Proof. exact ee_tol_refl_lemma. Qed.
Print Assumptions ee_tol_refl.

Theorem ee_tol_sym : forall (simple : lineT N -> bool) (tol : N) (g h : geom),
  exact_equals simple tol false g h = exact_equals simple tol false h g.
Proof. exact ee_tol_sym_lemma. Qed.
Print Assumptions ee_tol_sym.

(* a larger tolerance accepts more, with and without IgnoreOrder *)
Theorem ee_tol_mono : forall (simple : lineT N -> bool) (tol1 tol2 : N) (t1 t2 : QArith_base.Q) (io : bool) (g h : geom),
  is_zero_bits tol1 = false -> is_zero_bits tol2 = false ->
  ext_of_bits tol1 = EFin t1 -> ext_of_bits tol2 = EFin t2 ->
  QArith_base.Qle (QArith_base.Qmult t1 t1) (QArith_base.Qmult t2 t2) ->
  exact_equals simple tol1 io g h = true -> exact_equals simple tol2 io g h = true.
Proof. exact ee_tol_mono_lemma. Qed.
Print Assumptions ee_tol_mono.

(* "relates vertex lists that correspond within distance e": ExactEquals(ToleranceXY(e)) holds
   exactly when the two values have the same structure (type, coordinate types, member, ring and
   vertex counts, emptiness at every node: same_structure) and their control points, in storage
   order, are pairwise within e in XY and == in Z and M (tol_spec, Model/ExactEq.v) *)
Theorem ee_tol_spec : forall (simple : lineT N -> bool) (tol : N) (g h : geom),
  exact_equals simple tol false g h = tol_spec tol g h.
Proof. exact ee_tol_spec_lemma. Qed.
Print Assumptions ee_tol_spec.

(* ---- non-vacuity ------------------------------------------------------------------------ *)
Local Open Scope N_scope.
Definition one : N := 4607182418800017408.   (* 1.0 *)
Definition two : N := 4611686018427387904.   (* 2.0 *)
Definition mzero : N := 9223372036854775808. (* -0.0 *)
Definition v (x y z : N) : vtx N := Build_vtx x y z 0.
Definition tri : lineT N := MkLine XYZ [v 0 0 one; v one 0 two; v 0 one 0; v mzero 0 one].
Definition tri_rot : lineT N := MkLine XYZ [v one 0 two; v 0 one 0; v 0 0 one; v one 0 two].
Definition ex_g : geom := GColl XYZ [GPoly (MkPoly XYZ [tri]); GMPoint XYZ [MkPoint XYZ None; MkPoint XYZ (Some (v one two 0))]].
Definition ex_h : geom := GColl XYZ [GMPoint XYZ [MkPoint XYZ (Some (v one two mzero)); MkPoint XYZ None]; GPoly (MkPoly XYZ [tri_rot])].
Example ex_hyps : wf_wkb ex_g = true /\ nan_free ex_g = true /\ wf_wkb ex_h = true /\ nan_free ex_h = true.
Proof. vm_compute. auto. Qed.
Example ex_plain_differs : exact_equals (fun _ => true) 0 false ex_g ex_h = false /\ wkb_equal ex_g ex_h = false.
Proof. vm_compute. auto. Qed.
Example ex_io_equal : exact_equals (fun _ => true) 0 true ex_g ex_h = true.
Proof. vm_compute. auto. Qed.
(* -0 and +0 are identified, one ulp is not *)
Example ex_negzero : exact_equals (fun _ => true) 0 false (GLine tri) (GLine (MkLine XYZ [v 0 0 one; v one 0 two; v 0 one 0; v 0 mzero one])) = true.
Proof. vm_compute. auto. Qed.
Example ex_ulp : exact_equals (fun _ => true) 0 true (GLine tri) (GLine (MkLine XYZ [v 0 0 one; v one 0 two; v 0 one 0; v 0 1 one])) = false.
Proof. vm_compute. auto. Qed.
(* F11: the smallest subnormal and zero differ (the squared distance of today's code is 0) *)
Example ex_f11 : exact_equals (fun _ => true) 0 false (GPoint (MkPoint XY (Some (Build_vtx 1 0 0 0)))) (GPoint (MkPoint XY (Some (Build_vtx 0 0 0 0)))) = false.
Proof. vm_compute. auto. Qed.
(* F50: a ring whose closing vertex differs from its first vertex in Z is not matched under rotation, in either argument order *)
Definition tri_open_z : lineT N := MkLine XYZ [v 0 0 one; v one 0 two; v 0 one 0; v 0 0 two].
Example ex_f50 : exact_equals (fun _ => true) 0 true (GLine tri_rot) (GLine tri_open_z) = false
              /\ exact_equals (fun _ => true) 0 true (GLine tri_open_z) (GLine tri_rot) = false.
Proof. vm_compute. auto. Qed.
(* the hypothesis "rings are not empty" of ee_iff_wkb is tight: the code cannot tell a polygon
   with one empty ring from the empty polygon (type_polygon.go:IsEmpty documents the invariant) *)
Example ex_empty_ring : exact_equals (fun _ => true) 0 false (GPoly (MkPoly XY [MkLine XY []])) (GPoly (MkPoly XY [])) = true
                     /\ wkb_equal (GPoly (MkPoly XY [MkLine XY []])) (GPoly (MkPoly XY [])) = false.
Proof. vm_compute. auto. Qed.

(* tolerance: (0,0) and (0.75,0) are within 1 but not within 0.5; hypotheses of ee_tol_mono hold *)
Definition half : N := 4602678819172646912.          (* 0.5 *)
Definition three_quarters : N := 4604930618986332160. (* 0.75 *)
Definition p00 : geom := GPoint (MkPoint XY (Some (Build_vtx 0 0 0 0))).
Definition p34 : geom := GPoint (MkPoint XY (Some (Build_vtx three_quarters 0 0 0))).
Example ex_tol : exact_equals (fun _ => true) one false p00 p34 = true
              /\ exact_equals (fun _ => true) half false p00 p34 = false
              /\ is_zero_bits half = false /\ is_zero_bits one = false.
Proof. vm_compute. auto. Qed.
Example ex_tol_decoded : exists t1 t2, ext_of_bits half = EFin t1 /\ ext_of_bits one = EFin t2
                                      /\ QArith_base.Qle (QArith_base.Qmult t1 t1) (QArith_base.Qmult t2 t2).
Proof. eexists; eexists; split; [vm_compute; reflexivity | split; [vm_compute; reflexivity | vm_compute; discriminate]]. Qed.
(* F52: the tolerance test is about the distances themselves, also where their squares are not
   representable in float64 (the model's arithmetic is exact): points 1e200 apart are not within
   1e160 (before the repair both squares overflowed and the code answered true); points 1e-200 apart
   are within 1e-180 (the squared tolerance underflowed to 0 and the code compared exactly), and
   points 1e-180 apart are not within 1e-200 *)
Definition f_1e200 : N := 7598952565167317594.
Definition f_1e160 : N := 7000496887210966211.
Definition f_1em200 : N := 1614679632300144556.
Definition f_1em180 : N := 1914198181197535432.
Definition px (x : N) : geom := GPoint (MkPoint XY (Some (Build_vtx x 0 0 0))).
Example ex_tol_extreme :
     exact_equals (fun _ => true) f_1e160 false p00 (px f_1e200) = false
  /\ exact_equals (fun _ => true) f_1e200 false p00 (px f_1e160) = true
  /\ exact_equals (fun _ => true) f_1em180 false p00 (px f_1em200) = true
  /\ exact_equals (fun _ => true) f_1em200 false p00 (px f_1em180) = false.
Proof. vm_compute. auto. Qed.
(* a member comparison that is not transitive: the matcher has to backtrack (a greedy one fails) *)
Example ex_backtrack :
  valid_permutation (fun a b : nat => Nat.leb (a - b) 1 && Nat.leb (b - a) 1) [1; 3]%nat [2; 0]%nat = true.
Proof. vm_compute. reflexivity. Qed.

(* the oracle hypotheses of ee_ignore_order_spec are satisfiable (any constant oracle), and the
   theorem then yields a derivation of OrderEquiv for the example pair above *)
Example ex_order_equiv : OrderEquiv feq_bits (fun _ => true) ex_g ex_h.
Proof.
  apply (ee_ignore_order_spec (fun _ => true) ex_g ex_h);
    [exact (proj1 (const_oracle_invariant feq_bits true)) | exact (proj2 (const_oracle_invariant feq_bits true))
    | vm_compute; reflexivity | vm_compute; reflexivity | vm_compute; reflexivity | vm_compute; reflexivity].
Qed.

(* a point with stale Z and M (7 and NaN) in an XY value equals the clean point, also inside a MultiPoint under IgnoreOrder *)
Definition stale_pt : pointT N := MkPoint XY (Some (Build_vtx one two 4619567317775286272 go_nan)).
Definition clean_pt : pointT N := MkPoint XY (Some (Build_vtx one two 0 0)).
Example ex_stale : exact_equals (fun _ => true) 0 false (GPoint stale_pt) (GPoint clean_pt) = true
                /\ exact_equals (fun _ => true) 0 true (GMPoint XY [MkPoint XY None; stale_pt]) (GMPoint XY [clean_pt; MkPoint XY None]) = true
                /\ strip_points N 0 (GPoint stale_pt) = GPoint clean_pt.
Proof. vm_compute. auto. Qed.
