(* Property C19 - map projections invert exactly and have the geometric character they claim.
   Statements only; proofs are in Proofs/Carto_proofs.v (helpers in Proofs/Carto_base.v); the model
   over the real numbers is Model/Carto.v (the code after the repairs F12, F13, F14, F80, F81; the
   formulas of the pinned tree are kept there as [..._orig] for the [_refuted] theorems).
   Longitudes and latitudes are in degrees as in the Go API.  Domains:
     er_dom    c          := 0 < R /\ -90 < lat1 < 90
     sn_dom    c lon lat  := 0 < R /\ -90 < lat < 90
     lc_dom    c lon lat  := 0 < R /\ -90 <= lat <= 90
     wm_dom    c lon lat  := zoom <= 62 /\ -90 < lat < 90
     cn_parallels_ok c    := 0 < R /\ lat1, lat2, lat0 strictly between -90 and 90
     lcc_dom   c lon lat  := cn_parallels_ok c /\ n <> 0 /\ -90 < lat < 90 /\ |n (lam - lam0)| < pi/2
     alb_dom   c lon lat  := cn_parallels_ok c /\ n <> 0 /\ -90 <= lat <= 90 /\ |n (lam - lam0)| < pi/2
     eqdc_dom  c lon lat  := 0 < R /\ n <> 0 /\ 0 < n rho(lat) /\ |n (lam - lam0)| < pi/2
     azeq_dom  c lon lat  := 0 < R /\ -90 <= lat0 <= 90 /\ (the centre itself \/ az_off_centre c lon lat)
     or_dom    c lon lat  := same, and off the centre additionally 0 <= cos(angular distance)
     az_off_centre c lon lat := -90 < lat < 90 /\ -pi < lam - lam0 <= pi /\ 0 < A^2 + B^2
   (n = 0, and for lcc/eqdc lat1 = lat2, are the singular configurations: n is 0 or 0/0 there). *)
From Coq Require Import Reals.
From Coquelicot Require Import Coquelicot.
From SF Require Import Model.Carto Proofs.Carto_base Proofs.Carto_proofs.
Local Open Scope R_scope.

(* ================================================================ inverses: Reverse (Forward p) = p *)

Theorem equirectangular_inverse : forall c lon lat,
  er_dom c -> er_rev c (er_fwd c (lon, lat)) = (lon, lat).
Proof. exact er_inverse_lemma. Qed.
Print Assumptions equirectangular_inverse.
Example equirectangular_domain_inhabited : er_dom (Build_er_cfg WGS84MeanRadius (-105) 35).
Proof. exact er_dom_example. Qed.

Theorem sinusoidal_inverse : forall c lon lat,
  sn_dom c lon lat -> sn_rev c (sn_fwd c (lon, lat)) = (lon, lat).
Proof. exact sn_inverse_lemma. Qed.
Print Assumptions sinusoidal_inverse.
Example sinusoidal_domain_inhabited : sn_dom (Build_sn_cfg WGS84MeanRadius 151) (-78.5) 9.4.
Proof. exact sn_dom_example. Qed.

Theorem lcea_inverse : forall c lon lat,
  lc_dom c lon lat -> lc_rev c (lc_fwd c (lon, lat)) = (lon, lat).
Proof. exact lc_inverse_lemma. Qed.
Print Assumptions lcea_inverse.
Example lcea_domain_inhabited : lc_dom (Build_lc_cfg 1 37.5) (-74.3) (-90).
Proof. exact lc_dom_example. Qed.

Theorem webmercator_inverse : forall c lon lat,
  wm_dom c lon lat -> wm_rev c (wm_fwd c (lon, lat)) = (lon, lat).
Proof. exact wm_inverse_lemma. Qed.
Print Assumptions webmercator_inverse.
Example webmercator_domain_inhabited : wm_dom (Build_wm_cfg 17) 151.2 (-33.9).
Proof. exact wm_dom_example. Qed.

Theorem lcc_inverse : forall c lon lat,
  lcc_dom c lon lat -> lcc_rev c (lcc_fwd c (lon, lat)) = (lon, lat).
Proof. exact lcc_inverse_lemma. Qed.
Print Assumptions lcc_inverse.
(* parallels -10/40 (n > 0) and -30/-60 (n < 0: the sign(n) branch of Reverse) *)
Example lcc_domain_inhabited : lcc_dom conic_example (-50.5) 56.25.
Proof. exact lcc_dom_example. Qed.
Example lcc_domain_inhabited_south : lcc_dom conic_example_south 100 (-56.25) /\ lcc_n conic_example_south < 0.
Proof. exact lcc_dom_example_south. Qed.

(* Albers, after F12, for every radius *)
Theorem albers_inverse : forall c lon lat,
  alb_dom c lon lat -> alb_rev c (alb_fwd c (lon, lat)) = (lon, lat).
Proof. exact alb_inverse_lemma. Qed.
Print Assumptions albers_inverse.
Example albers_domain_inhabited : alb_dom conic_example (-50.5) 56.25.
Proof. exact alb_dom_example. Qed.

Theorem eqdc_inverse : forall c lon lat,
  eqdc_dom c lon lat -> eqdc_rev c (eqdc_fwd c (lon, lat)) = (lon, lat).
Proof. exact eqdc_inverse_lemma. Qed.
Print Assumptions eqdc_inverse.
Example eqdc_domain_inhabited : eqdc_dom conic_example (-50.5) 56.25.
Proof. exact eqdc_dom_example. Qed.

(* azimuthal equidistant, after F13/F81: every point except poles and the antipode, and the centre
   itself as the explicit first branch of the domain *)
Theorem azeq_inverse : forall c lon lat,
  azeq_dom c lon lat -> azeq_rev c (azeq_fwd c (lon, lat)) = (lon, lat).
Proof. exact azeq_inverse_lemma. Qed.
Print Assumptions azeq_inverse.
Example azeq_domain_inhabited : azeq_dom az_example (-0.1) 51.5 /\ az_C az_example (-0.1) 51.5 < 0.
Proof. exact azeq_dom_example. Qed.
Example azeq_domain_inhabited_centre : azeq_dom az_example 151 (-34).
Proof. exact azeq_dom_example_centre. Qed.

(* orthographic, after F14/F80: the visible hemisphere (also across the pole), and the centre itself *)
Theorem orthographic_inverse : forall c lon lat,
  or_dom c lon lat -> or_rev c (or_fwd c (lon, lat)) = (lon, lat).
Proof. exact or_inverse_lemma. Qed.
Print Assumptions orthographic_inverse.
Example orthographic_domain_inhabited : or_dom (Build_az_cfg 1 0 90) 123 45.
Proof. exact or_dom_example. Qed.
Example orthographic_domain_inhabited_across_pole : or_dom f80_cfg (-160) 70.
Proof. exact f80_in_domain. Qed.

(* ================================================================ the pinned tree (before the repairs) *)

(* F12: with radius 2 the argument of asin in Albers' Reverse leaves [-1, 1] (Go: NaN) and the
   latitude is wrong.  Witness: parallels 30/30, origin (0, 30), the origin itself (exact values;
   Proofs/Carto_proofs.v also has the witness parallels 30/60, point (0, 45) by interval arithmetic) *)
Theorem albers_inverse_refuted : exists c lon lat,
  alb_dom c lon lat /\
  alb_rev_arg_orig c (alb_fwd_x c lon lat) (alb_fwd_y c lon lat) < -1 /\
  alb_rev_lat_orig c (alb_fwd_x c lon lat) (alb_fwd_y c lon lat) <> lat.
Proof. exact alb_orig_refuted_exact. Qed.
Print Assumptions albers_inverse_refuted.

(* F13: at Forward(centre), for every configuration, the latitude of the pinned Reverse contains the
   quotient 0/0 (Go: NaN; over R the total division hides it, hence the statement about the
   numerator and the denominator) *)
Theorem azeq_centre_refuted : forall c,
  let x := azeq_fwd_x c (az_lon0 c) (az_lat0 c) in
  let y := azeq_fwd_y c (az_lon0 c) (az_lat0 c) in
  azeq_rev_lat_orig_num c x y = 0 /\ azeq_rev_lat_orig_den x y = 0.
Proof. exact azeq_orig_centre_refuted_lemma. Qed.
Print Assumptions azeq_centre_refuted.

(* F14: the same for both coordinates of the orthographic Reverse *)
Theorem orthographic_centre_refuted : forall c,
  let x := or_fwd_x c (az_lon0 c) (az_lat0 c) in
  let y := or_fwd_y c (az_lon0 c) (az_lat0 c) in
  x = 0 /\ y = 0 /\ or_rev_lat_orig_den x y = 0 /\
  or_rev_lon_orig_num c x y = 0 /\ or_rev_lon_orig_den c x y = 0.
Proof. exact or_orig_centre_refuted_lemma. Qed.
Print Assumptions orthographic_centre_refuted.

(* F80: atan instead of atan2 loses the longitude of in-domain points across the pole.  Witness:
   centre (0, 60), point (180, 60), which comes back as longitude 0 (exact values; the proofs file
   also has centre (10, 80), point (-160, 70) -> 20 by interval arithmetic) *)
Theorem orthographic_atan_refuted : exists c lon lat,
  or_dom c lon lat /\ or_rev_lon_orig c (or_fwd_x c lon lat) (or_fwd_y c lon lat) <> lon.
Proof. exact or_atan_refuted_exact. Qed.
Print Assumptions orthographic_atan_refuted.

(* F81 changes nothing over the reals: R atan2(sin c, cos c) = R acos(cos c) *)
Theorem azeq_forward_repair_equivalent : forall c lon lat, azeq_rho c lon lat = azeq_rho_orig c lon lat.
Proof. exact azeq_rho_acos. Qed.
Print Assumptions azeq_forward_repair_equivalent.

(* ================================================================ geometric character *)
(* jacobian fx fy lon lat a b c d: the partial derivatives of (x, y) with respect to (lon, lat) in
   degrees are a = dx/dlon, b = dx/dlat, c = dy/dlon, d = dy/dlat (Coquelicot is_derive);
   deg1 = pi/180, so (R deg1)^2 cos(lat) is R^2 cos(phi) per square radian. *)

Theorem lcea_equal_area : forall c lon lat,
  exists a b c' d, jacobian (lc_fwd_x c) (lc_fwd_y c) lon lat a b c' d /\
                   a * d - b * c' = (lc_R c * deg1) * (lc_R c * deg1) * cos (dtor lat).
Proof. exact lc_equal_area_lemma. Qed.
Print Assumptions lcea_equal_area.

Theorem sinusoidal_equal_area : forall c lon lat,
  exists a b c' d, jacobian (sn_fwd_x c) (sn_fwd_y c) lon lat a b c' d /\
                   a * d - b * c' = (sn_R c * deg1) * (sn_R c * deg1) * cos (dtor lat).
Proof. exact sn_equal_area_lemma. Qed.
Print Assumptions sinusoidal_equal_area.

Theorem albers_equal_area : forall c lon lat, cn_parallels_ok c -> alb_n c <> 0 ->
  exists a b c' d, jacobian (alb_fwd_x c) (alb_fwd_y c) lon lat a b c' d /\
                   a * d - b * c' = (cn_R c * deg1) * (cn_R c * deg1) * cos (dtor lat).
Proof. exact alb_equal_area_lemma. Qed.
Print Assumptions albers_equal_area.
Example albers_equal_area_hypotheses : cn_parallels_ok conic_example /\ alb_n conic_example <> 0.
Proof. exact (conj cn_ok_example alb_n_example). Qed.

(* conformal_at a b c d h: the columns of J diag(1/h, 1) have equal length and are orthogonal *)
Theorem webmercator_conformal : forall c lon lat, -90 < lat < 90 ->
  exists a d, jacobian (wm_fwd_x c) (wm_fwd_y c) lon lat a 0 0 d /\
              0 < a /\ d < 0 /\ conformal_at a 0 0 d (cos (dtor lat)).
Proof. exact wm_conformal_lemma. Qed.
Print Assumptions webmercator_conformal.

Theorem lcc_conformal : forall c lon lat, -90 < lat < 90 ->
  exists a b c' d, jacobian (lcc_fwd_x c) (lcc_fwd_y c) lon lat a b c' d /\
                   conformal_at a b c' d (cos (dtor lat)).
Proof. exact lcc_conformal_lemma. Qed.
Print Assumptions lcc_conformal.

(* |Forward p| = R * (angular distance from the centre), az_dist = acos of the spherical cosine *)
Theorem azeq_radial_isometry : forall c lon lat, 0 < az_R c ->
  sqrt (sq (azeq_fwd_x c lon lat) + sq (azeq_fwd_y c lon lat)) = az_R c * az_dist c lon lat.
Proof. exact azeq_radial_isometry_lemma. Qed.
Print Assumptions azeq_radial_isometry.

(* two points of one meridian are R |dphi| apart on the map *)
Theorem eqdc_meridian_isometry : forall c lon la lb, 0 < cn_R c ->
  sqrt (sq (eqdc_fwd_x c lon la - eqdc_fwd_x c lon lb) + sq (eqdc_fwd_y c lon la - eqdc_fwd_y c lon lb))
  = cn_R c * Rabs (dtor la - dtor lb).
Proof. exact eqdc_meridian_isometry_lemma. Qed.
Print Assumptions eqdc_meridian_isometry.

(* parallel_true_scale fx fy R lon lat: |d(x,y)/dlon| = R deg1 cos(lat) *)
Theorem standard_parallel_true_scale :
  (forall c lon lat, lat = er_lat1 c \/ lat = - er_lat1 c ->
     parallel_true_scale (er_fwd_x c) (er_fwd_y c) (er_R c) lon lat) /\
  (forall c lon lat, cn_parallels_ok c -> alb_n c <> 0 -> lat = cn_lat1 c \/ lat = cn_lat2 c ->
     parallel_true_scale (alb_fwd_x c) (alb_fwd_y c) (cn_R c) lon lat) /\
  (forall c lon lat, eqdc_n c <> 0 -> cn_phi1 c <> cn_phi2 c -> lat = cn_lat1 c \/ lat = cn_lat2 c ->
     parallel_true_scale (eqdc_fwd_x c) (eqdc_fwd_y c) (cn_R c) lon lat) /\
  (forall c lon lat, cn_parallels_ok c -> lcc_n c <> 0 ->
     ln (tan (PI / 4 + cn_phi2 c / 2) * cot (PI / 4 + cn_phi1 c / 2)) <> 0 ->
     lat = cn_lat1 c \/ lat = cn_lat2 c ->
     parallel_true_scale (lcc_fwd_x c) (lcc_fwd_y c) (cn_R c) lon lat).
Proof. exact (conj er_parallel_lemma (conj alb_parallel_lemma (conj eqdc_parallel_lemma lcc_parallel_lemma))). Qed.
Print Assumptions standard_parallel_true_scale.
Example standard_parallel_hypotheses :
  (eqdc_n conic_example <> 0 /\ cn_phi1 conic_example <> cn_phi2 conic_example) /\
  (lcc_n conic_example <> 0 /\
   ln (tan (PI / 4 + cn_phi2 conic_example / 2) * cot (PI / 4 + cn_phi1 conic_example / 2)) <> 0).
Proof. exact (conj eqdc_parallel_example lcc_parallel_example). Qed.

(* the world maps into the square [0, 2^zoom]^2 (wm_latmax = atan(sinh pi) in degrees), the corners
   are attained, and y decreases northward *)
Theorem webmercator_range : forall c lon lat,
  -180 <= lon <= 180 -> - wm_latmax <= lat <= wm_latmax ->
  0 <= wm_fwd_x c lon lat <= wm_P c /\ 0 <= wm_fwd_y c lon lat <= wm_P c.
Proof. exact wm_range_lemma. Qed.
Print Assumptions webmercator_range.
Example webmercator_latmax_value : Rabs (wm_latmax - 85.0511287798066) <= 1e-12.
Proof. exact wm_latmax_value. Qed.

Theorem webmercator_corners : forall c,
  wm_fwd_x c (-180) 0 = 0 /\ wm_fwd_x c 180 0 = wm_P c /\
  wm_fwd_y c 0 wm_latmax = 0 /\ wm_fwd_y c 0 (- wm_latmax) = wm_P c.
Proof. exact wm_corners_lemma. Qed.
Print Assumptions webmercator_corners.

Theorem webmercator_north_up : forall c lon l1 l2, -90 < l1 -> l1 < l2 -> l2 < 90 ->
  wm_fwd_y c lon l2 < wm_fwd_y c lon l1.
Proof. exact wm_north_up_lemma. Qed.
Print Assumptions webmercator_north_up.

(* ================================================================ configurations reached by setter sequences *)
(* Forward/Reverse of the model are functions of the configuration record alone, and the setters
   are field overwrites: a later call of a setter erases an earlier one, different setters commute,
   and every configuration of the same radius is reached by one call of each.  Hence the theorems
   above hold for a projection value after ANY sequence of setter (and Forward/Reverse) calls, with
   c = the last value given to each setter.  That the Go values have no other state is checked by
   the history class of the harness (bit-identical to a new value configured directly). *)
Theorem configuration_is_history_free :
  (forall c l l', er_set_meridian (er_set_meridian c l) l' = er_set_meridian c l') /\
  (forall c p p', er_set_parallels (er_set_parallels c p) p' = er_set_parallels c p') /\
  (forall c l p, er_set_meridian (er_set_parallels c p) l = er_set_parallels (er_set_meridian c l) p) /\
  (forall c l l', sn_set_meridian (sn_set_meridian c l) l' = sn_set_meridian c l') /\
  (forall c l l', lc_set_meridian (lc_set_meridian c l) l' = lc_set_meridian c l') /\
  (forall c l p l' p', cn_set_origin (cn_set_origin c l p) l' p' = cn_set_origin c l' p') /\
  (forall c a b a' b', cn_set_parallels (cn_set_parallels c a b) a' b' = cn_set_parallels c a' b') /\
  (forall c l p a b, cn_set_origin (cn_set_parallels c a b) l p = cn_set_parallels (cn_set_origin c l p) a b) /\
  (forall c l p l' p', az_set_center (az_set_center c l p) l' p' = az_set_center c l' p').
Proof. exact setters_lemma. Qed.
Print Assumptions configuration_is_history_free.

Theorem configuration_reachable :
  (forall c c', er_R c = er_R c' -> er_set_parallels (er_set_meridian c (er_lon0 c')) (er_lat1 c') = c') /\
  (forall c c', cn_R c = cn_R c' ->
     cn_set_parallels (cn_set_origin c (cn_lon0 c') (cn_lat0 c')) (cn_lat1 c') (cn_lat2 c') = c') /\
  (forall c c', az_R c = az_R c' -> az_set_center c (az_lon0 c') (az_lat0 c') = c').
Proof. exact setters_reach_lemma. Qed.
Print Assumptions configuration_reachable.
