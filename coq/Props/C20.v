(* Property C20 - every operation is total on empty, zero-value and mixed-empty geometries; empty
   members are transparent; the zero Geometry is the empty GeometryCollection.
   Statements only; proofs in Proofs/Empty_proofs.v (carrier-generic part) and
   Proofs/Empty_obs_proofs.v (the observables of the other properties' models).
   Model: Model/Empty.v (insert_empties, strip_empties, gvalue, neutral). *)
From Coq Require Import List Bool Arith QArith ZArith.
From SF Require Import Base.GeomAST Base.QKernel Base.Planar Model.Empty Proofs.Empty_proofs
  Proofs.Empty_obs_proofs Proofs.Empty_ix_proofs Proofs.Empty_centroid_proofs Proofs.Empty_boundary_proofs Proofs.Empty_codec_proofs
  Proofs.Empty_refresh_proofs Proofs.Empty_transform_proofs Proofs.Empty_ee_proofs Proofs.Empty_pos_proofs Proofs.Empty_twkb_proofs.
From SF Require Model.Envelope Model.Measure Model.Hull Model.Relate Model.SetOpSpec Model.Intersects Model.Distance
  Model.Boundary Proofs.Boundary_proofs Proofs.Relate_proofs Proofs.Intersects_proofs
  Base.Outcome Model.WKB Model.WKT Model.GeoJSON Base.Varint Model.TWKB Model.EmptyObs
  Proofs.Intersects_areal Proofs.Planar_slab_base Model.TrReverse Model.TrForce Model.ExactEq Model.PointOnSurface Model.Calipers.
Import ListNotations.
Local Close Scope Q_scope.
Local Open Scope nat_scope.
Local Open Scope list_scope.

(* ---------------------------------------------------------------- the factoring, proved once *)
(* An observable that cannot tell g from g without its empty members (strip_empties g) cannot see
   inserted empty members either - for every geometry, every plan (every position of every
   Multi*/collection node at every depth, every shape of empty member), every carrier F and every
   notion of equality R of the observable's values. *)
Theorem obs_factors_through_parts :
  forall (F A : Type) (R : A -> A -> Prop) (obs : geomT F -> A),
    (forall x y, R x y -> R y x) -> (forall x y z, R x y -> R y z -> R x z) ->
    (forall g, R (obs (strip_empties g)) (obs g)) ->
    forall g p, R (obs (insert_empties g p)) (obs g).
Proof. exact obs_factors_through_parts_lemma. Qed.
Print Assumptions obs_factors_through_parts.

Theorem obs2_factors_through_parts :
  forall (F A : Type) (R : A -> A -> Prop) (obs : geomT F -> geomT F -> A),
    (forall x y, R x y -> R y x) -> (forall x y z, R x y -> R y z -> R x z) ->
    (forall g h, R (obs (strip_empties g) h) (obs g h)) -> (forall g h, R (obs g (strip_empties h)) (obs g h)) ->
    forall g h p q, R (obs (insert_empties g p) (insert_empties h q)) (obs g h).
Proof. exact obs2_factors_through_parts_lemma. Qed.
Print Assumptions obs2_factors_through_parts.

(* stripping undoes insertion; stripped geometries have no empty members and are fixed points *)
Theorem strip_insert : forall F (g : geomT F) p, strip_empties (insert_empties g p) = strip_empties g.
Proof. exact strip_ins. Qed.
Print Assumptions strip_insert.

Theorem strip_spec : forall F (g : geomT F),
  no_empty_members (strip_empties g) = true /\
  (no_empty_members g = true -> strip_empties g = g) /\
  strip_empties (strip_empties g) = strip_empties g.
Proof. intros F g. split; [apply strip_no_empty_members | split; [apply strip_fixpoint | apply strip_idem]]. Qed.
Print Assumptions strip_spec.

(* the inserted members are empty geometries of the node's coordinates type at every node *)
Theorem typed_empties : forall F (isz : F -> bool) ct e,
  is_empty (@emp_geom F ct e) = true /\ geom_vs (@emp_geom F ct e) = [] /\
  geom_ct (@emp_geom F ct e) = ct /\ geom_ok isz ct (@emp_geom F ct e) = true.
Proof. intros. repeat split; [apply emp_geom_empty | apply emp_geom_vs | apply emp_geom_ct | apply emp_geom_ok]. Qed.
Print Assumptions typed_empties.

(* ---------------------------------------------------------------- transparency, generic carrier *)
Theorem insert_is_empty : forall F (g : geomT F) p, is_empty (insert_empties g p) = is_empty g.
Proof. exact ins_is_empty. Qed.
Print Assumptions insert_is_empty.

Theorem insert_dimension_ignoring_empties : forall F (g : geomT F) p,
  dimension_ie (insert_empties g p) = dimension_ie g.
Proof.
  intros F g p. apply (obs_factors_through_parts_lemma F eq (@dimension_ie F)); try congruence.
  apply strip_dimension_ie.
Qed.
Print Assumptions insert_dimension_ignoring_empties.

(* Dimension() as documented counts empty members: it is NOT transparent (this is why Relate,
   Crosses and Overlaps must not use it - F8) *)
Theorem dimension_counts_empties_refuted : forall F (v : vtx F),
  exists g p, @dimension F (insert_empties g p) <> dimension g.
Proof.
  intros F v. exists (GColl XY [GPoint (MkPoint XY (Some v))]), (EP [(1, EPg)] []).
  exact (ins_dimension_not_transparent F v).
Qed.
Print Assumptions dimension_counts_empties_refuted.

Theorem insert_control_points : forall F (g : geomT F) p, geom_vs (insert_empties g p) = geom_vs g.
Proof.
  intros F g p. apply (obs_factors_through_parts_lemma F eq (@geom_vs F)); try congruence.
  apply strip_vs.
Qed.
Print Assumptions insert_control_points.

(* type, coordinates type and the all-nodes-agree invariant (C16) are kept *)
Theorem insert_keeps_types : forall F (isz : F -> bool) (g : geomT F) p,
  geom_type (insert_empties g p) = geom_type g /\ geom_ct (insert_empties g p) = geom_ct g /\
  consistent isz (insert_empties g p) = consistent isz g.
Proof. intros. repeat split; [apply ins_geom_type | apply ins_geom_ct | apply ins_consistent]. Qed.
Print Assumptions insert_keeps_types.

(* ================================================================ transparency of the cited models *)
(* Each statement: for ALL geometries, ALL plans (every position of every Multi*/collection node at
   every depth, every shape of typed empty member). *)

(* Envelope (Model/Envelope.v, C12), for every carrier and every float-primitive structure O
   (NaN/Inf behaviour included: an empty member contributes the neutral element of join) *)
Theorem insert_envelope : forall F (O : Envelope.ops F) (g : geomT F) p,
  Envelope.env_of O (insert_empties g p) = Envelope.env_of O g.
Proof.
  intros F O g p. apply (obs_factors_through_parts_lemma F eq (Envelope.env_of O)); try congruence.
  apply strip_env.
Qed.
Print Assumptions insert_envelope.

(* Area and Length (Model/Measure.v, C14); equality of rationals is Qeq *)
Theorem insert_area : forall s tr (g : geomT Q) p,
  (Measure.geom_area s tr (insert_empties g p) == Measure.geom_area s tr g)%Q.
Proof.
  intros s tr g p. apply (obs_factors_through_parts_lemma Q Qeq (Measure.geom_area s tr)).
  - intros x y. apply Qeq_sym.
  - intros x y z. apply Qeq_trans.
  - apply strip_area.
Qed.
Print Assumptions insert_area.

Theorem insert_length : forall (sq : Q -> Q) (g : geomT Q) p,
  (Measure.geom_length sq (insert_empties g p) == Measure.geom_length sq g)%Q.
Proof.
  intros sq g p. apply (obs_factors_through_parts_lemma Q Qeq (Measure.geom_length sq)).
  - intros x y. apply Qeq_sym.
  - intros x y z. apply Qeq_trans.
  - apply strip_length.
Qed.
Print Assumptions insert_length.

(* ConvexHull (Model/Hull.v, C13): the same input point list, hence the same hull, for non-empty g;
   an empty g is returned as it is (forced to XY) - empty either way *)
Theorem insert_hull : forall (g : Hull.geomZ) p,
  Hull.point_set (insert_empties g p) = Hull.point_set g /\
  (is_empty g = false -> Hull.convex_hull (insert_empties g p) = Hull.convex_hull g) /\
  (is_empty g = true -> exists h, Hull.convex_hull (insert_empties g p) = Some h /\ is_empty h = true).
Proof.
  intros g p. split; [|split].
  - apply (obs_factors_through_parts_lemma Z eq Hull.point_set); try congruence. apply strip_point_set.
  - intros E. rewrite <- (strip_convex_hull g E).
    rewrite <- (strip_convex_hull (insert_empties g p)) by (rewrite ins_is_empty; exact E).
    rewrite strip_ins. reflexivity.
  - intros E. destruct (empty_convex_hull (insert_empties g p)) as [h [H1 [_ H3]]].
    + rewrite ins_is_empty. exact E.
    + exists h. auto.
Qed.
Print Assumptions insert_hull.

(* the definitional point set and location (Base/Planar.v): what "the point set of a set-operation
   result", "a predicate" and "a DE-9IM matrix" are judged against *)
Theorem insert_point_set : forall (g : geomT Q) p x,
  inG (insert_empties g p) x = inG g x /\ locate (insert_empties g p) x = locate g x.
Proof.
  intros g p x. split.
  - apply ins_inG.
  - apply (obs_factors_through_parts_lemma Q eq (fun g => locate g x)); try congruence.
    intros g0. apply strip_locate.
Qed.
Print Assumptions insert_point_set.

(* Relate and the nine named predicates (Model/Relate.v, C02; the repaired code, F8), both operands *)
Theorem insert_relate : forall (a b : geomT Q) p q,
  Relate.relate (insert_empties a p) (insert_empties b q) = Relate.relate a b /\
  Relate.preds (insert_empties a p) (insert_empties b q) = Relate.preds a b.
Proof. exact ins_relate. Qed.
Print Assumptions insert_relate.

(* F8: the pinned code (Dimension() counts empty members) is refuted, for the matrix and for a predicate *)
Theorem insert_relate_unfixed_refuted :
  exists (a b : geomT Q) p,
    Relate.relate_unfixed (insert_empties a p) b <> Relate.relate_unfixed a b /\
  exists (a' b' : geomT Q) p',
    Relate.preds_unfixed (insert_empties a' p') b' <> Relate.preds_unfixed a' b'.
Proof. exact ins_relate_unfixed_refuted. Qed.
Print Assumptions insert_relate_unfixed_refuted.

(* set operations (Model/SetOpSpec.v, C01): the empty-operand dispatch and the set-theoretic
   result every overlay output is judged against, at every witness *)
Theorem insert_set_operations : forall o (a b : geomT Q) p q w,
  SetOpSpec.dispatch o (SetOpSpec.g_empty (insert_empties a p)) (SetOpSpec.g_empty (insert_empties b q))
    = SetOpSpec.dispatch o (SetOpSpec.g_empty a) (SetOpSpec.g_empty b) /\
  SetOpSpec.expected o (insert_empties a p) (insert_empties b q) w = SetOpSpec.expected o a b w.
Proof. intros. split; [apply ins_dispatch | apply ins_expected]. Qed.
Print Assumptions insert_set_operations.

(* UnionMany / UnaryUnion: an empty operand or member adds no point *)
Theorem union_many_ignores_empty : forall ct (gs1 gs2 : list (geomT Q)) e x,
  is_empty e = true -> inG (GColl ct (gs1 ++ e :: gs2)) x = inG (GColl ct (gs1 ++ gs2)) x.
Proof. exact union_many_empty_operand. Qed.
Print Assumptions union_many_ignores_empty.

(* Intersects and Distance (Model/Intersects.v, Model/Distance.v, C09): the transcription of the
   Go dispatch, both operands; Distance is Leibniz-equal (same parts lists, same search) *)
Theorem insert_intersects : forall (a b : geomT Q) p q,
  Intersects.intersects (insert_empties a p) (insert_empties b q) = Intersects.intersects a b.
Proof. exact ins_intersects. Qed.
Print Assumptions insert_intersects.

Theorem insert_distance : forall (a b : geomT Q) p q,
  Distance.dist2 (insert_empties a p) (insert_empties b q) = Distance.dist2 a b.
Proof. exact ins_dist2. Qed.
Print Assumptions insert_distance.

(* Centroid (Model/Measure.v, C14: Centroid of all seven types and the point / linear / areal
   centroid of collections, chosen by the highest dimension ignoring empties); results are equal as
   optional rational points (both POINT EMPTY, or Qeq ordinates) *)
Theorem insert_centroid : forall (sq : Q -> Q) (g : geomT Q) p,
  Measure.oxy_eq (Measure.geom_centroid sq (insert_empties g p)) (Measure.geom_centroid sq g).
Proof. exact ins_centroid. Qed.
Print Assumptions insert_centroid.

(* Boundary (Model/Boundary.v, C15): for a non-empty g the very same value; for an empty g an empty
   geometry either way (neutral_boundary below) *)
Theorem insert_boundary : forall (g : geomT Q) p,
  is_empty g = false -> Boundary.boundary (insert_empties g p) = Boundary.boundary g.
Proof. exact ins_boundary. Qed.
Print Assumptions insert_boundary.

(* ================================================================ the neutral answer table *)
(* Each theorem pairs a row of Model/Empty.v:neutral with the fact about the cited model, for ALL
   empty geometries (any type, any nesting of empty members, any coordinates type). *)
Theorem neutral_envelope : forall F (O : Envelope.ops F) (g : geomT F),
  neutral OEnvelope WBoth = AEmptyEnvelope /\ (is_empty g = true -> Envelope.env_of O g = None).
Proof. intros. split; [reflexivity | apply empty_env]. Qed.
Print Assumptions neutral_envelope.

Theorem neutral_measures : forall (sq : Q -> Q) s tr (g : geomT Q), is_empty g = true ->
  neutral OArea WBoth = AZero /\ neutral OLength WBoth = AZero /\ neutral OCentroid WBoth = AEmptyPoint /\
  (Measure.geom_area s tr g == 0)%Q /\ Measure.geom_length sq g = 0%Q /\ Measure.geom_centroid sq g = None.
Proof.
  intros sq s tr g E. repeat split; [apply empty_area | apply empty_length | apply empty_centroid]; exact E.
Qed.
Print Assumptions neutral_measures.

Theorem neutral_hull : forall g : Hull.geomZ, is_empty g = true ->
  neutral OConvexHull WBoth = ASameForce2D /\
  exists h, Hull.convex_hull g = Some h /\ h = force_geom 0%Z XY g /\ is_empty h = true.
Proof. intros g E. split; [reflexivity | apply empty_convex_hull; exact E]. Qed.
Print Assumptions neutral_hull.

Theorem neutral_boundary : forall g : geomT Q, is_empty g = true ->
  neutral OBoundary WBoth = AEmptyGeometry /\ is_empty (Boundary.boundary g) = true.
Proof. intros g E. split; [reflexivity | apply Boundary_proofs.boundary_of_empty; exact E]. Qed.
Print Assumptions neutral_boundary.

Theorem neutral_intersects_distance : forall (a b : geomT Q) w,
  is_empty a = true \/ is_empty b = true ->
  neutral OIntersects w = ABool false /\ neutral ODistance w = AUndefined /\
  Intersects.intersects a b = false /\ Distance.dist2 a b = None.
Proof.
  intros a b w H. repeat split; try (destruct w; reflexivity).
  - apply Intersects_proofs.intersects_empty. exact H.
  - apply empty_dist2. exact H.
Qed.
Print Assumptions neutral_intersects_distance.

(* Relate: FFFFFFFF2 when both are empty, else the closed form of the other operand (rows ORelate);
   the predicates: Equals iff both empty, Disjoint always, the other seven never *)
Theorem neutral_relate : forall a b : geomT Q, is_empty a || is_empty b = true ->
  neutral ORelate WBoth = AMatrix [0; 0; 0; 0; 0; 0; 0; 0; 3] /\ neutral ORelate WLeft = AMatrixOfOther /\
  (is_empty a = true -> is_empty b = true -> Relate.relate a b = Relate.m_all_F_but_EE) /\
  Relate.relate a b = Relate.relate_empty_branch Relate.dimension_ie a b /\
  Relate.preds a b = [Relate.RM (is_empty a && is_empty b); Relate.RM true; Relate.RM false; Relate.RM false;
                      Relate.RM false; Relate.RM false; Relate.RM false; Relate.RM false; Relate.RM false].
Proof.
  intros a b H. split; [reflexivity|]. split; [reflexivity|]. split; [|split].
  - intros Ea Eb. apply Relate_proofs.relate_both_empty; assumption.
  - unfold Relate.relate, Relate.relate_with. rewrite H. reflexivity.
  - apply preds_empty. exact H.
Qed.
Print Assumptions neutral_relate.

Theorem neutral_predicates_table :
  (forall w, neutral ODisjoint w = ABool true) /\
  neutral OEquals WBoth = ABool true /\ neutral OEquals WLeft = ABool false /\ neutral OEquals WRight = ABool false /\
  (forall w, neutral OTouches w = ABool false /\ neutral OContains w = ABool false /\ neutral OCovers w = ABool false /\
             neutral OWithin w = ABool false /\ neutral OCoveredBy w = ABool false /\
             neutral OCrosses w = ABool false /\ neutral OOverlaps w = ABool false).
Proof. repeat split; destruct w; reflexivity. Qed.
Print Assumptions neutral_predicates_table.

(* set operations: the rows of the table are the dispatch of Model/SetOpSpec.v *)
Theorem neutral_set_operations : forall o ea eb,
  let w := if ea && eb then WBoth else if ea then WLeft else WRight in
  let op := match o with SetOpSpec.OpUnion => OUnion | SetOpSpec.OpInter => OIntersection
                       | SetOpSpec.OpDiff => ODifference | SetOpSpec.OpSym => OSymDiff end in
  ea || eb = true ->
  match SetOpSpec.dispatch o ea eb with
  | SetOpSpec.DEmpty => neutral op w = AEmptyCollection
  | SetOpSpec.DUnaryA | SetOpSpec.DUnaryB => neutral op w = AUnaryUnionOfOther
  | SetOpSpec.DEngine => False
  end.
Proof. intros o ea eb. destruct o, ea, eb; simpl; intros H; try reflexivity; discriminate. Qed.
Print Assumptions neutral_set_operations.

(* ================================================================ against the point sets of the plane *)
(* The sibling properties have since proved their models exact against ALL points of Q^2 (C09:
   intersects_exact, distance_is_min; C02: slab sufficiency, de9im_ref_sufficient,
   disjoint_iff_no_common_point; C01: judge_everywhere).  Combined with the transparency above: *)

(* Intersects of operands with inserted empties <-> the point sets share a point (taken with or
   without the empty members); hypotheses on the operands WITHOUT the inserted members only *)
Theorem insert_intersects_pointset : forall (a b : geomT Q) p q,
  Intersects_areal.operand_ok a -> Intersects_areal.operand_ok b ->
  (Intersects.intersects (insert_empties a p) (insert_empties b q) = true <->
   exists x, inG (insert_empties a p) x = true /\ inG (insert_empties b q) x = true) /\
  (Intersects.intersects (insert_empties a p) (insert_empties b q) = true <->
   exists x, inG a x = true /\ inG b x = true).
Proof. exact ins_intersects_pointset. Qed.
Print Assumptions insert_intersects_pointset.

(* Distance (squared) of operands with inserted empties is attained by, and is a lower bound for,
   the pairs of points of the two point sets; it is zero exactly when they share a point *)
Theorem insert_distance_pointset : forall (a b : geomT Q) p q d,
  Intersects_areal.operand_ok a -> Intersects_areal.operand_ok b ->
  Distance.dist2 (insert_empties a p) (insert_empties b q) = Some d ->
  (exists x y, inG (insert_empties a p) x = true /\ inG (insert_empties b q) y = true /\ (d == Distance.d2_xy x y)%Q) /\
  (forall x y, inG (insert_empties a p) x = true -> inG (insert_empties b q) y = true -> (d <= Distance.d2_xy x y)%Q).
Proof. exact ins_distance_pointset. Qed.
Print Assumptions insert_distance_pointset.

Theorem insert_distance_zero_iff_common_point : forall (a b : geomT Q) p q,
  Intersects_areal.operand_ok a -> Intersects_areal.operand_ok b ->
  ((exists d, Distance.dist2 (insert_empties a p) (insert_empties b q) = Some d /\ (d == 0)%Q) <->
   exists x, inG (insert_empties a p) x = true /\ inG (insert_empties b q) x = true).
Proof. exact ins_distance_zero. Qed.
Print Assumptions insert_distance_zero_iff_common_point.

(* Relate of non-empty operands with inserted empties IS the reference matrix of the operands, and an
   entry is set iff some point of the plane has that pair of locations in the operands as given *)
Theorem insert_relate_all_points : forall (a b : geomT Q) p q la lb,
  is_empty a = false -> is_empty b = false -> Planar_slab_base.rings_closed a -> Planar_slab_base.rings_closed b ->
  (mget (Relate.relate (insert_empties a p) (insert_empties b q)) la lb <> DF <->
   exists x, locate (insert_empties a p) x = la /\ locate (insert_empties b q) x = lb) /\
  Relate.relate (insert_empties a p) (insert_empties b q) = de9im_ref a b.
Proof. exact ins_relate_all_points. Qed.
Print Assumptions insert_relate_all_points.

(* Disjoint, every pair of operands (empty ones included) *)
Theorem insert_disjoint_all_points : forall (a b : geomT Q) p q,
  Planar_slab_base.rings_closed a -> Planar_slab_base.rings_closed b ->
  (Relate.go_disjoint (Relate.enc_matrix (Relate.relate (insert_empties a p) (insert_empties b q))) = Relate.RM true <->
   forall x, ~ (inG (insert_empties a p) x = true /\ inG (insert_empties b q) x = true)).
Proof. exact ins_disjoint_all_points. Qed.
Print Assumptions insert_disjoint_all_points.

(* Union / Intersection: a result that passes C01's judgement against operands WITH inserted empties
   is the Boolean combination of the point sets of the operands WITHOUT them at EVERY point of the
   plane, and the other way round *)
Theorem insert_set_operation_all_points : forall o (a b r : geomT Q) p q,
  (o = SetOpSpec.OpUnion \/ o = SetOpSpec.OpInter) ->
  forallb SetOpSpec.rings_closed_b [a; b; r] = true ->
  (SetOpSpec.v_agree (SetOpSpec.judge o (insert_empties a p) (insert_empties b q) r) = true ->
   forall x, inG r x = SetOpSpec.op_bool o (inG a x) (inG b x)) /\
  (SetOpSpec.v_agree (SetOpSpec.judge o a b r) = true ->
   forall x, inG r x = SetOpSpec.op_bool o (inG (insert_empties a p) x) (inG (insert_empties b q) x)).
Proof. intros o a b r p q Ho Hc. split; [apply ins_judge_everywhere | apply ins_judge_everywhere']; assumption. Qed.
Print Assumptions insert_set_operation_all_points.

(* ================================================================ transformations (C17) and the rest of the API *)
(* A transformation that commutes with the removal of empty members gives, on a geometry with
   inserted empties, its result on the geometry itself up to empty members - which is what the
   correspondence compares.  Reverse, ForceCoordinatesType / Force2D, ForceCW / ForceCCW: *)
Theorem insert_reverse : forall F (g : geomT F) p,
  strip_empties (TrReverse.rev_geom (insert_empties g p)) = strip_empties (TrReverse.rev_geom g).
Proof. intros F g p. apply commuting_transform_transparent. intros g0. apply rev_geom_strip. Qed.
Print Assumptions insert_reverse.

Theorem insert_force_coordinates_type : forall F (zero : F) ct (g : geomT F) p,
  strip_empties (force_geom zero ct (insert_empties g p)) = strip_empties (force_geom zero ct g).
Proof. intros F zero ct g p. apply commuting_transform_transparent. intros g0. apply force_geom_strip. Qed.
Print Assumptions insert_force_coordinates_type.

Theorem insert_force_orientation : forall (g : geomT Q) p,
  strip_empties (TrForce.geom_force_cw (insert_empties g p)) = strip_empties (TrForce.geom_force_cw g) /\
  strip_empties (TrForce.geom_force_ccw (insert_empties g p)) = strip_empties (TrForce.geom_force_ccw g) /\
  TrForce.geom_is_cw (insert_empties g p) = TrForce.geom_is_cw g /\
  TrForce.geom_is_ccw (insert_empties g p) = TrForce.geom_is_ccw g.
Proof.
  intros g p. repeat split.
  - apply commuting_transform_transparent. intros g0. apply force_cw_strip.
  - apply commuting_transform_transparent. intros g0. apply force_cw_strip.
  - apply (obs_factors_through_parts_lemma Q eq TrForce.geom_is_cw); try congruence.
    intros g0. apply geom_is_strip. intros y Hy. apply (is_cw_empty_poly y Hy).
  - apply (obs_factors_through_parts_lemma Q eq TrForce.geom_is_ccw); try congruence.
    intros g0. apply geom_is_strip. intros y Hy. apply (is_cw_empty_poly y Hy).
Qed.
Print Assumptions insert_force_orientation.

(* rotated minimum bounding rectangles (Model/Calipers.v, C13): a function of the hull input *)
Theorem insert_rotated_rectangles : forall k (g : Hull.geomZ) p,
  Calipers.mbr_pts k (Hull.point_set (insert_empties g p)) = Calipers.mbr_pts k (Hull.point_set g).
Proof.
  intros k g p. f_equal. apply (obs_factors_through_parts_lemma Z eq Hull.point_set); try congruence.
  apply strip_point_set.
Qed.
Print Assumptions insert_rotated_rectangles.

(* ExactEquals (Model/ExactEq.v, C18) is structural: NOT transparent by design (row OExactEquals of the
   table promises nothing), but total and reflexive on geometries with inserted typed empties *)
Theorem exact_equals_on_inserted : forall (simple : lineT N -> bool),
  neutral OExactEquals WBoth = ANotApplicable /\
  (forall tol io (g : geomT N) p, ExactEq.nan_free g = true ->
     ExactEq.exact_equals simple tol io (insert_empties g p) (insert_empties g p) = true) /\
  (exists (g : geomT N) p, ExactEq.nan_free g = true /\
     ExactEq.exact_equals simple 0 false (insert_empties g p) g = false).
Proof.
  intros simple. split; [reflexivity|]. split; [intros; apply ins_ee_refl; assumption | apply ee_sees_empty_members].
Qed.
Print Assumptions exact_equals_on_inserted.

(* PointOnSurface (Model/PointOnSurface.v, C15): C15's domain is closed under insertion and the result
   is POINT EMPTY exactly when the geometry is empty (row OPointOnSurface) *)
Theorem point_on_surface_on_inserted : forall (cen : geomT Q -> option pt) (g : geomT Q) p,
  (forall x, is_empty x = false -> cen x <> None) -> Boundary.geom_wf g = true ->
  neutral OPointOnSurface WBoth = AEmptyPoint /\
  Boundary.geom_wf (insert_empties g p) = true /\
  point_empty (PointOnSurface.pos cen (insert_empties g p)) = is_empty g.
Proof.
  intros cen g p Hc W. split; [reflexivity|]. split; [rewrite ins_geom_bwf; exact W | apply ins_pos_empty_iff; assumption].
Qed.
Print Assumptions point_on_surface_on_inserted.

(* rows OReverse, OForceCW, OForceCCW, OIsCW, OIsCCW of the neutral answer table *)
Theorem neutral_transformations : forall (g : geomT Q), is_empty g = true ->
  neutral OReverse WBoth = ASame /\ neutral OForceCW WBoth = ASame /\ neutral OForceCCW WBoth = ASame /\
  neutral OIsCW WBoth = ABool true /\ neutral OIsCCW WBoth = ABool true /\
  TrReverse.rev_geom g = g /\ TrForce.geom_force_cw g = g /\ TrForce.geom_force_ccw g = g /\
  TrForce.geom_is_cw g = true /\ TrForce.geom_is_ccw g = true.
Proof.
  intros g E. destruct (force_cw_of_empty g E) as [A B]. destruct (geom_is_cw_of_empty g E) as [C D].
  repeat split; try assumption. apply rev_geom_of_empty. exact E.
Qed.
Print Assumptions neutral_transformations.

(* ================================================================ codecs accept them *)
(* The domains of the round-trip theorems of C04, C05, C06 are closed under insertion of typed empty
   members (the members carry the node's coordinates type, so "all nodes agree" is kept): *)
Theorem insert_wkt_roundtrip : forall (g : geomT N) p,
  WKT.wkt_dom g = true ->
  WKT.wkt_dom (insert_empties g p) = true /\
  WKT.unmarshal_wkt (WKT.as_text (insert_empties g p)) = Outcome.Ok (insert_empties g p).
Proof. intros g p H. split; [rewrite ins_wkt_dom; exact H | apply ins_wkt_roundtrip; exact H]. Qed.
Print Assumptions insert_wkt_roundtrip.

(* WKB: besides consistency the domain bounds member counts by 2^32 - the only hypothesis left *)
Theorem insert_wkb_roundtrip : forall bo (g : geomT N) p rest,
  WKB.wf_wkb g = true -> WKB.geom_wf (insert_empties g p) = true ->
  WKB.dec (WKB.enc_bo bo (insert_empties g p) ++ rest) = Outcome.Ok (insert_empties g p, rest).
Proof. exact ins_wkb_roundtrip. Qed.
Print Assumptions insert_wkb_roundtrip.

(* GeoJSON: decodes to the value up to the format's documented losses (gj_lossy: among them, empty
   Points inside MultiPoints cannot be written) *)
Theorem insert_geojson_roundtrip : forall (g : geomT N) p,
  GeoJSON.same_ct g = true ->
  GeoJSON.gj_unmarshal (GeoJSON.to_json (insert_empties g p)) = Outcome.Ok (GeoJSON.gj_lossy (insert_empties g p)).
Proof. exact ins_gj_roundtrip. Qed.
Print Assumptions insert_geojson_roundtrip.

(* TWKB (Model/TWKB.v, C07), the bounding-box header: the box the encoder must announce (per wire
   dimension X Y [Z] [M] the minimum and maximum over all vertices: EmptyObs.twkb_bbox_z, which is
   TWKB.expected_info's box) cannot see inserted empty members ... *)
Theorem insert_twkb_bbox : forall (g : geomT Z) p,
  EmptyObs.twkb_bbox_z (insert_empties g p) = EmptyObs.twkb_bbox_z g /\
  EmptyObs.twkb_bbox_z (strip_empties g) = EmptyObs.twkb_bbox_z g.
Proof. intros g p. split; [apply twkb_bbox_z_insert | apply twkb_bbox_z_strip]. Qed.
Print Assumptions insert_twkb_bbox.

(* ... and, with C07's header theorem, UnmarshalTWKBEnvelope answers the same box (the one above, with
   the same coordinates type) on the document written for the geometry with inserted members and on
   the one written for the geometry itself - for ANY two admissible option sets with the bounding-box
   header on (they may differ in precisions, size header, ring closing, and must differ in the ID
   list when one is given: one ID per member, empty members included).  Hypotheses: the domain of
   C07's round trip for both (it excludes an empty Point inside a non-empty MultiPoint, which the
   encoder refuses: F5) and documents shorter than 2^63 bytes. *)
Theorem insert_twkb_bbox_header : forall (o o' : TWKB.topts) (g : geomT Z) p (b b' : list N),
  TWKB.wf_twkb o (insert_empties g p) = true -> TWKB.wf_twkb o' g = true ->
  TWKB.tmarshal o (insert_empties g p) = Outcome.Ok b -> TWKB.tmarshal o' g = Outcome.Ok b' ->
  (Z.of_nat (length b) < Varint.two63)%Z -> (Z.of_nat (length b') < Varint.two63)%Z ->
  TWKB.o_bbox o = true -> TWKB.o_bbox o' = true -> is_empty g = false ->
  exists mm, EmptyObs.twkb_bbox_z g = Some mm /\
             TWKB.tread_env b = Outcome.Ok (Some (geom_ct g, mm)) /\
             TWKB.tread_env b' = Outcome.Ok (Some (geom_ct g, mm)).
Proof. exact insert_twkb_bbox_header_lemma. Qed.
Print Assumptions insert_twkb_bbox_header.

(* ---------------------------------------------------------------- the zero Geometry *)
(* every method of geom.Geometry reaches the payload through MustAsGeometryCollection, which maps
   the nil payload to GeometryCollection{}: every observable of the zero value is that of the
   explicit empty collection *)
Theorem gnil_as_empty_collection : forall F A (obs : geomT F -> A),
  lift obs GZero = lift obs (GVal (GColl XY [])).
Proof. exact gnil_lemma. Qed.
Print Assumptions gnil_as_empty_collection.

(* F4 (repaired in /repo): AppendWKT cast the nil payload *)
Theorem gnil_append_wkt_unfixed_refuted : forall F A (wkt : geomT F -> A),
  append_wkt_unfixed wkt GZero <> append_wkt_unfixed wkt (GVal (GColl XY [])).
Proof. exact gnil_unfixed_refuted_lemma. Qed.
Print Assumptions gnil_append_wkt_unfixed_refuted.

(* ---------------------------------------------------------------- non-vacuity *)
Definition ex_v (x y : nat) : vtx nat := Build_vtx x y 0 0.
Definition ex_g : geomT nat :=
  GColl XYZ [ GMPoint XYZ [MkPoint XYZ (Some (ex_v 1 2))];
              GColl XYZ [GLine (MkLine XYZ [ex_v 0 0; ex_v 3 3]); GMPoly XYZ [MkPoly XYZ [MkLine XYZ [ex_v 0 0; ex_v 1 0; ex_v 0 1; ex_v 0 0]]]] ].
Definition ex_p : eplan :=
  EP [(0, EPg); (3, EGC [EPt; EGC [EMLn 2]]); (1, EMPt 0)]
     [EP [(1, EPt); (0, EPt)] []; EP [(2, ELn)] [EP [] []; EP [(0, EPg)] []]].
Example ex_insert :
  insert_empties ex_g ex_p =
  GColl XYZ [ GPoly (MkPoly XYZ []); GMPoint XYZ [];
              GMPoint XYZ [MkPoint XYZ None; MkPoint XYZ (Some (ex_v 1 2)); MkPoint XYZ None];
              GColl XYZ [GLine (MkLine XYZ [ex_v 0 0; ex_v 3 3]);
                         GMPoly XYZ [MkPoly XYZ []; MkPoly XYZ [MkLine XYZ [ex_v 0 0; ex_v 1 0; ex_v 0 1; ex_v 0 0]]];
                         GLine (MkLine XYZ [])];
              GColl XYZ [GPoint (MkPoint XYZ None); GColl XYZ [GMLine XYZ [MkLine XYZ []; MkLine XYZ []]]] ].
Proof. vm_compute. reflexivity. Qed.
Example ex_strip : strip_empties (insert_empties ex_g ex_p) = ex_g.
Proof. vm_compute. reflexivity. Qed.
Example ex_dims : dimension (insert_empties ex_g ex_p) = 2 /\ dimension_ie ex_g = 2 /\
                  dimension (insert_empties (GColl XY [GPoint (MkPoint XY (Some (ex_v 1 1)))]) (EP [(1, EPg)] [])) = 2.
Proof. vm_compute. auto. Qed.

(* the codec hypotheses are satisfiable by a geometry with inserted members of every shape *)
Definition ex_n (x y : N) : vtx N := Build_vtx x y 0%N 0%N.
Definition ex_gn : geomT N :=
  GColl XY [GMPoint XY [MkPoint XY (Some (ex_n 4607182418800017408 4611686018427387904))];
            GColl XY [GLine (MkLine XY [ex_n 0 0; ex_n 4607182418800017408 4607182418800017408])]].
Example ex_codecs :
  WKB.wf_wkb ex_gn = true /\ WKB.geom_wf (insert_empties ex_gn ex_p) = true /\
  WKT.wkt_dom ex_gn = true /\ GeoJSON.same_ct ex_gn = true /\ is_empty (insert_empties ex_gn ex_p) = false.
Proof. vm_compute. auto. Qed.

(* the hypotheses of the point-set level theorems are satisfiable by a collection holding a polygon
   with a hole, a line string and a point (and decidable: C09 operand_ok_decidable) *)
Definition ex_q (x y : Z) : vtx Q := Build_vtx (inject_Z x) (inject_Z y) 0%Q 0%Q.
Definition ex_gq : geomT Q :=
  GColl XY [GPoly (MkPoly XY [MkLine XY [ex_q 0 0; ex_q 6 0; ex_q 6 6; ex_q 0 6; ex_q 0 0];
                               MkLine XY [ex_q 2 2; ex_q 2 4; ex_q 4 4; ex_q 4 2; ex_q 2 2]]);
            GMLine XY [MkLine XY [ex_q 7 0; ex_q 9 3]]; GPoint (MkPoint XY (Some (ex_q 3 3)))].
Example ex_pointset_hyps :
  Intersects_polypoly.operand_okb ex_gq = true /\ SetOpSpec.rings_closed_b ex_gq = true /\
  Boundary.geom_wf ex_gq = true /\ is_empty (insert_empties ex_gq ex_p) = false.
Proof. vm_compute. auto. Qed.

(* the hypotheses of insert_twkb_bbox_header are satisfiable: MULTILINESTRING ZM ((5 5 3 2,6 7 4 1),(8 6 5 2,9 9 3 3))
   with an empty line string in front, between and behind, an ID list of five resp. two entries; the
   box excludes 0 in every dimension *)
Definition ex_zv (x y z m : Z) : vtx Z := Build_vtx x y z m.
Definition ex_gz : geomT Z :=
  GMLine XYZM [MkLine XYZM [ex_zv 5 5 3 2; ex_zv 6 7 4 1]; MkLine XYZM [ex_zv 8 6 5 2; ex_zv 9 9 3 3]].
Definition ex_pz : eplan := EP [(0, ELn); (2, ELn); (4, ELn)] [].
Definition ex_o (ids : list Z) : TWKB.topts :=
  {| TWKB.o_pxy := 0; TWKB.o_pz := Some 1%Z; TWKB.o_pm := None; TWKB.o_size := true; TWKB.o_bbox := true;
     TWKB.o_close := false; TWKB.o_ids := ids |}.
Example ex_twkb_bbox :
  insert_empties ex_gz ex_pz =
    GMLine XYZM [MkLine XYZM []; MkLine XYZM [ex_zv 5 5 3 2; ex_zv 6 7 4 1]; MkLine XYZM [];
                 MkLine XYZM [ex_zv 8 6 5 2; ex_zv 9 9 3 3]; MkLine XYZM []] /\
  TWKB.wf_twkb (ex_o [1; 2; 3; 4; 5]%Z) (insert_empties ex_gz ex_pz) = true /\
  TWKB.wf_twkb (ex_o [7; 8]%Z) ex_gz = true /\
  EmptyObs.twkb_bbox_z ex_gz = Some [(5, 9); (5, 9); (3, 5); (1, 3)]%Z /\
  (exists b, TWKB.tmarshal (ex_o [1; 2; 3; 4; 5]%Z) (insert_empties ex_gz ex_pz) = Outcome.Ok b /\
             TWKB.tread_env b = Outcome.Ok (Some (XYZM, [(5, 9); (5, 9); (3, 5); (1, 3)]%Z))).
Proof.
  split; [vm_compute; reflexivity|]. split; [vm_compute; reflexivity|]. split; [vm_compute; reflexivity|].
  split; [vm_compute; reflexivity|].
  exists (match TWKB.tmarshal (ex_o [1; 2; 3; 4; 5]%Z) (insert_empties ex_gz ex_pz) with Outcome.Ok b => b | _ => [] end).
  split; vm_compute; reflexivity.
Qed.
