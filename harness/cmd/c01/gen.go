package main

// Generators of property C01: valid geometries of all seven types on a small dense lattice.
//
// Ordinates are integers; the default classes use an EVEN lattice with axis-parallel and 45-degree
// edges only, so that every intersection point of two edges is an integer point (exactly
// representable): shared vertices, collinear overlaps, T-junctions, touching rings are the common
// case. The class "general" uses arbitrary lattice directions (intersection points are rationals
// that float64 rounds: the judgement then snaps the result's vertices onto the exact arrangement
// within 2^-30 x magnitude). Every generated value passes the implementation's own Validate
// (rejection sampling; the property quantifies over valid inputs).

import (
	"github.com/peterstace/simplefeatures/geom"
	"verifharness/lib"
)

type ipt struct{ x, y int }

// grid describes the lattice window of one case: both operands live on it.
type grid struct {
	side    int  // cells per side (3..6)
	step    int  // lattice step (2 = even lattice)
	ox, oy  int  // offset
	general bool // arbitrary directions allowed
}

func (g grid) pt(i, j int) ipt { return ipt{g.ox + g.step*i, g.oy + g.step*j} }

func xyz(p ipt) [4]float64 { return [4]float64{float64(p.x), float64(p.y), 0, 0} }

func lineNode(ps []ipt) *lib.Node {
	n := &lib.Node{Kind: lib.KLine, CT: geom.DimXY}
	for _, p := range ps {
		n.C = append(n.C, xyz(p))
	}
	return n
}

func pointNode(p ipt) *lib.Node {
	return &lib.Node{Kind: lib.KPoint, CT: geom.DimXY, Full: true, C: [][4]float64{xyz(p)}}
}

func emptyPoint() *lib.Node { return &lib.Node{Kind: lib.KPoint, CT: geom.DimXY} }

func polyNode(rings [][]ipt) *lib.Node {
	n := &lib.Node{Kind: lib.KPoly, CT: geom.DimXY}
	for _, r := range rings {
		n.Kids = append(n.Kids, lineNode(r))
	}
	return n
}

func closed(ps ...ipt) []ipt { return append(ps, ps[0]) }

func valid(n *lib.Node) bool { return n.Build().Validate() == nil }

// ---------------------------------------------------------------- rings

// rect in cell coordinates
func (g grid) rect(i0, j0, i1, j1 int) []ipt {
	return closed(g.pt(i0, j0), g.pt(i1, j0), g.pt(i1, j1), g.pt(i0, j1))
}

func (g grid) diamond(ci, cj, r int) []ipt {
	return closed(g.pt(ci-r, cj), g.pt(ci, cj-r), g.pt(ci+r, cj), g.pt(ci, cj+r))
}

// right triangle with equal legs (hypotenuse at 45 degrees), four orientations
func (g grid) tri45(i, j, k, o int) []ipt {
	switch o & 3 {
	case 0:
		return closed(g.pt(i, j), g.pt(i+k, j), g.pt(i, j+k))
	case 1:
		return closed(g.pt(i, j), g.pt(i+k, j), g.pt(i+k, j+k))
	case 2:
		return closed(g.pt(i+k, j), g.pt(i+k, j+k), g.pt(i, j+k))
	default:
		return closed(g.pt(i, j), g.pt(i+k, j+k), g.pt(i, j+k))
	}
}

// L shape: rectangle minus one corner rectangle
func (g grid) lshape(i0, j0, i1, j1, ci, cj, o int) []ipt {
	switch o & 3 {
	case 0: // cut top-right
		return closed(g.pt(i0, j0), g.pt(i1, j0), g.pt(i1, cj), g.pt(ci, cj), g.pt(ci, j1), g.pt(i0, j1))
	case 1: // cut top-left
		return closed(g.pt(i0, j0), g.pt(i1, j0), g.pt(i1, j1), g.pt(ci, j1), g.pt(ci, cj), g.pt(i0, cj))
	case 2: // cut bottom-left
		return closed(g.pt(ci, j0), g.pt(i1, j0), g.pt(i1, j1), g.pt(i0, j1), g.pt(i0, cj), g.pt(ci, cj))
	default: // cut bottom-right
		return closed(g.pt(i0, j0), g.pt(ci, j0), g.pt(ci, cj), g.pt(i1, cj), g.pt(i1, j1), g.pt(i0, j1))
	}
}

// rectangle with 45-degree cut corners
func (g grid) octagon(i0, j0, i1, j1, c int) []ipt {
	return closed(g.pt(i0+c, j0), g.pt(i1-c, j0), g.pt(i1, j0+c), g.pt(i1, j1-c),
		g.pt(i1-c, j1), g.pt(i0+c, j1), g.pt(i0, j1-c), g.pt(i0, j0+c))
}

func span(r *lib.Rng, side, minLen int) (int, int) {
	if minLen > side {
		minLen = side
	}
	a := r.Range(0, side-minLen)
	b := r.Range(a+minLen, side)
	return a, b
}

// one candidate shell (not necessarily valid: validated by the caller)
func (g grid) shell(r *lib.Rng) []ipt {
	s := g.side
	if g.general && r.Chance(2, 3) {
		// arbitrary lattice triangle or quadrilateral
		n := r.Range(3, 4)
		ps := make([]ipt, n)
		for i := range ps {
			ps[i] = g.pt(r.Range(0, s), r.Range(0, s))
		}
		return closed(ps...)
	}
	switch r.Intn(6) {
	case 0, 1:
		i0, i1 := span(r, s, 1)
		j0, j1 := span(r, s, 1)
		return g.rect(i0, j0, i1, j1)
	case 2:
		rad := r.Range(1, s/2)
		ci := r.Range(rad, s-rad)
		cj := r.Range(rad, s-rad)
		return g.diamond(ci, cj, rad)
	case 3:
		k := r.Range(1, s)
		i := r.Range(0, s-k)
		j := r.Range(0, s-k)
		return g.tri45(i, j, k, r.Intn(4))
	case 4:
		i0, i1 := span(r, s, 2)
		j0, j1 := span(r, s, 2)
		ci := r.Range(i0+1, i1-1)
		cj := r.Range(j0+1, j1-1)
		return g.lshape(i0, j0, i1, j1, ci, cj, r.Intn(4))
	default:
		i0, i1 := span(r, s, 3)
		j0, j1 := span(r, s, 3)
		return g.octagon(i0, j0, i1, j1, 1)
	}
}

// a candidate hole inside the bounding box [i0,i1]x[j0,j1] (cell coordinates)
func (g grid) hole(r *lib.Rng, i0, j0, i1, j1 int) []ipt {
	if i1-i0 < 2 || j1-j0 < 2 {
		return nil
	}
	if r.Chance(1, 3) && i1-i0 >= 2 && j1-j0 >= 2 {
		rad := 1
		ci := r.Range(i0+rad, i1-rad)
		cj := r.Range(j0+rad, j1-rad)
		return g.diamond(ci, cj, rad)
	}
	a0 := r.Range(i0, i1-1)
	a1 := r.Range(a0+1, i1)
	b0 := r.Range(j0, j1-1)
	b1 := r.Range(b0+1, j1)
	return g.rect(a0, b0, a1, b1)
}

func cellBox(g grid, ring []ipt) (int, int, int, int) {
	i0, j0, i1, j1 := 1<<30, 1<<30, -(1 << 30), -(1 << 30)
	for _, p := range ring {
		i := (p.x - g.ox) / g.step
		j := (p.y - g.oy) / g.step
		if i < i0 {
			i0 = i
		}
		if i > i1 {
			i1 = i
		}
		if j < j0 {
			j0 = j
		}
		if j > j1 {
			j1 = j
		}
	}
	return i0, j0, i1, j1
}

// genPoly returns a valid polygon (possibly with holes).
func (g grid) genPoly(r *lib.Rng, st *genStats) *lib.Node {
	holed := r.Chance(1, 3)
	for try := 0; try < 30; try++ {
		var rings [][]ipt
		if holed {
			// a shell spanning at least three cells, holes strictly inside it or touching it at a vertex
			i0, i1 := span(r, g.side, 3)
			j0, j1 := span(r, g.side, 3)
			if r.Chance(1, 4) {
				rings = append(rings, g.octagon(i0, j0, i1, j1, 1))
			} else {
				rings = append(rings, g.rect(i0, j0, i1, j1))
			}
			nh := r.Range(1, 2)
			for h := 0; h < nh; h++ {
				if r.Chance(1, 3) {
					rings = append(rings, g.diamond(r.Range(i0+1, i1-1), r.Range(j0+1, j1-1), 1))
				} else {
					a0 := r.Range(i0+1, i1-2)
					a1 := r.Range(a0+1, i1-1)
					b0 := r.Range(j0+1, j1-2)
					b1 := r.Range(b0+1, j1-1)
					rings = append(rings, g.rect(a0, b0, a1, b1))
				}
			}
		} else {
			sh := g.shell(r)
			rings = [][]ipt{sh}
			if r.Chance(1, 6) {
				i0, j0, i1, j1 := cellBox(g, sh)
				if hr := g.hole(r, i0, j0, i1, j1); hr != nil {
					rings = append(rings, hr)
				}
			}
		}
		n := polyNode(rings)
		if valid(n) {
			if len(rings) > 1 {
				st.count("poly_with_hole")
			}
			return n
		}
		st.count("poly_rejected")
	}
	return polyNode([][]ipt{g.rect(0, 0, 1, 1)})
}

var dirs8 = [8]ipt{{1, 0}, {1, 1}, {0, 1}, {-1, 1}, {-1, 0}, {-1, -1}, {0, -1}, {1, -1}}

func (g grid) genLine(r *lib.Rng, st *genStats) *lib.Node {
	s := g.side
	for try := 0; try < 30; try++ {
		nv := r.Range(2, 5)
		var ps []ipt
		if g.general && r.Chance(2, 3) {
			for i := 0; i < nv; i++ {
				ps = append(ps, g.pt(r.Range(0, s), r.Range(0, s)))
			}
		} else {
			i, j := r.Range(0, s), r.Range(0, s)
			ps = append(ps, g.pt(i, j))
			for k := 1; k < nv; k++ {
				d := dirs8[r.Intn(8)]
				l := r.Range(1, 3)
				ni, nj := i+d.x*l, j+d.y*l
				if ni < 0 || ni > s || nj < 0 || nj > s {
					continue
				}
				i, j = ni, nj
				ps = append(ps, g.pt(i, j))
			}
			if r.Chance(1, 8) && len(ps) >= 3 {
				ps = append(ps, ps[0]) // closed line string
			}
		}
		n := lineNode(ps)
		if len(ps) >= 2 && valid(n) {
			return n
		}
		st.count("line_rejected")
	}
	return lineNode([]ipt{g.pt(0, 0), g.pt(1, 1)})
}

func (g grid) genPoint(r *lib.Rng) *lib.Node {
	return pointNode(g.pt(r.Range(0, g.side), r.Range(0, g.side)))
}

func bboxOf(n *lib.Node) (x0, y0, x1, y1 float64, ok bool) {
	first := true
	var walk func(m *lib.Node)
	walk = func(m *lib.Node) {
		for _, c := range m.C {
			if m.Kind == lib.KPoint && !m.Full {
				continue
			}
			if first {
				x0, y0, x1, y1 = c[0], c[1], c[0], c[1]
				first = false
				continue
			}
			if c[0] < x0 {
				x0 = c[0]
			}
			if c[0] > x1 {
				x1 = c[0]
			}
			if c[1] < y0 {
				y0 = c[1]
			}
			if c[1] > y1 {
				y1 = c[1]
			}
		}
		for _, k := range m.Kids {
			walk(k)
		}
	}
	walk(n)
	return x0, y0, x1, y1, !first
}

func boxesOverlap(a, b *lib.Node) bool {
	ax0, ay0, ax1, ay1, oka := bboxOf(a)
	bx0, by0, bx1, by1, okb := bboxOf(b)
	if !oka || !okb {
		return false
	}
	return ax0 < bx1 && bx0 < ax1 && ay0 < by1 && by0 < ay1
}

func isAreal(n *lib.Node) bool {
	switch n.Kind {
	case lib.KPoly, lib.KMPoly:
		return true
	case lib.KColl:
		for _, k := range n.Kids {
			if isAreal(k) {
				return true
			}
		}
	}
	return false
}

func (g grid) genMultiPoly(r *lib.Rng, st *genStats) *lib.Node {
	for try := 0; try < 40; try++ {
		k := r.Range(1, 3)
		n := &lib.Node{Kind: lib.KMPoly, CT: geom.DimXY}
		for i := 0; i < k; i++ {
			n.Kids = append(n.Kids, g.genPoly(r, st))
		}
		if r.Chance(1, 10) {
			n.Kids = append(n.Kids, polyNode(nil)) // empty member
		}
		if valid(n) {
			return n
		}
		st.count("mpoly_rejected")
	}
	n := &lib.Node{Kind: lib.KMPoly, CT: geom.DimXY}
	n.Kids = append(n.Kids, polyNode([][]ipt{g.rect(0, 0, 1, 1)}), polyNode([][]ipt{g.rect(2, 2, 3, 3)}))
	return n
}

func (g grid) genMultiLine(r *lib.Rng, st *genStats) *lib.Node {
	n := &lib.Node{Kind: lib.KMLine, CT: geom.DimXY}
	k := r.Range(1, 3)
	for i := 0; i < k; i++ {
		n.Kids = append(n.Kids, g.genLine(r, st))
	}
	if r.Chance(1, 10) {
		n.Kids = append(n.Kids, lineNode(nil))
	}
	return n
}

func (g grid) genMultiPoint(r *lib.Rng) *lib.Node {
	n := &lib.Node{Kind: lib.KMPoint, CT: geom.DimXY}
	k := r.Range(1, 4)
	for i := 0; i < k; i++ {
		n.Kids = append(n.Kids, g.genPoint(r))
	}
	if r.Chance(1, 6) {
		n.Kids = append(n.Kids, n.Kids[0]) // repeated point
	}
	if r.Chance(1, 10) {
		n.Kids = append(n.Kids, emptyPoint())
	}
	return n
}

// genF20 builds the pattern of finding F20: a polygon with a hole and a sibling areal member
// that covers (part of) the hole.
func (g grid) genF20(r *lib.Rng) []*lib.Node {
	s := g.side
	h0 := r.Range(1, s-2)
	h1 := r.Range(h0+1, s-1)
	k0 := r.Range(1, s-2)
	k1 := r.Range(k0+1, s-1)
	p1 := polyNode([][]ipt{g.rect(0, 0, s, s), g.rect(h0, k0, h1, k1)})
	var p2 *lib.Node
	switch r.Intn(4) {
	case 0: // the same square without the hole
		p2 = polyNode([][]ipt{g.rect(0, 0, s, s)})
	case 1: // strictly larger than the hole
		p2 = polyNode([][]ipt{g.rect(h0-1, k0-1, h1+1, k1+1)})
	case 2: // exactly the hole
		p2 = polyNode([][]ipt{g.rect(h0, k0, h1, k1)})
	default: // overlapping part of the hole and crossing its ring
		p2 = polyNode([][]ipt{g.rect(h0, k0, s, s)})
	}
	if !valid(p1) || !valid(p2) {
		return nil
	}
	if r.Bool() {
		return []*lib.Node{p1, p2}
	}
	return []*lib.Node{p2, p1}
}

// genColl: mode 0 = areal members with pairwise non-overlapping boxes; 1 = free (overlap likely);
// 2 = F20 pattern among the members.
func (g grid) genColl(r *lib.Rng, depth int, st *genStats) (*lib.Node, string) {
	n := &lib.Node{Kind: lib.KColl, CT: geom.DimXY}
	mode := "disjoint"
	if r.Chance(1, 4) {
		mode = "overlap"
		if r.Chance(1, 3) {
			mode = "f20"
		}
	}
	k := r.Range(0, 4)
	if mode == "f20" {
		if ms := g.genF20(r); ms != nil {
			n.Kids = append(n.Kids, ms...)
		}
		k = r.Range(0, 2)
	}
	for i := 0; i < k; i++ {
		var m *lib.Node
		for try := 0; try < 20; try++ {
			kind := r.Intn(7)
			if depth >= 2 && kind == 6 {
				kind = r.Intn(6)
			}
			m = g.genKind(r, kind, depth+1, st)
			if mode != "disjoint" || !isAreal(m) {
				break
			}
			clash := false
			for _, o := range n.Kids {
				if isAreal(o) && boxesOverlap(o, m) {
					clash = true
				}
			}
			if !clash {
				break
			}
			m = g.genPoint(r)
		}
		n.Kids = append(n.Kids, m)
	}
	if r.Chance(1, 8) {
		// an empty member at a random position
		em := []*lib.Node{emptyPoint(), lineNode(nil), polyNode(nil),
			{Kind: lib.KMPoint, CT: geom.DimXY}, {Kind: lib.KColl, CT: geom.DimXY}}[r.Intn(5)]
		pos := r.Intn(len(n.Kids) + 1)
		n.Kids = append(n.Kids[:pos], append([]*lib.Node{em}, n.Kids[pos:]...)...)
	}
	return n, mode
}

func (g grid) genKind(r *lib.Rng, kind, depth int, st *genStats) *lib.Node {
	switch kind {
	case 0:
		return g.genPoint(r)
	case 1:
		return g.genLine(r, st)
	case 2:
		return g.genPoly(r, st)
	case 3:
		return g.genMultiPoint(r)
	case 4:
		return g.genMultiLine(r, st)
	case 5:
		return g.genMultiPoly(r, st)
	default:
		n, mode := g.genColl(r, depth, st)
		st.count("coll_" + mode)
		return n
	}
}

func genEmpty(r *lib.Rng) *lib.Node {
	switch r.Intn(9) {
	case 0:
		return emptyPoint()
	case 1:
		return lineNode(nil)
	case 2:
		return polyNode(nil)
	case 3:
		return &lib.Node{Kind: lib.KMPoint, CT: geom.DimXY}
	case 4:
		return &lib.Node{Kind: lib.KMLine, CT: geom.DimXY}
	case 5:
		return &lib.Node{Kind: lib.KMPoly, CT: geom.DimXY}
	case 6:
		return &lib.Node{Kind: lib.KColl, CT: geom.DimXY}
	case 7:
		return &lib.Node{Kind: lib.KMPoint, CT: geom.DimXY, Kids: []*lib.Node{emptyPoint(), emptyPoint()}}
	default:
		return &lib.Node{Kind: lib.KColl, CT: geom.DimXY, Kids: []*lib.Node{emptyPoint(), polyNode(nil),
			{Kind: lib.KColl, CT: geom.DimXY, Kids: []*lib.Node{lineNode(nil)}}}}
	}
}

// genOperand returns a valid operand of the given kind (7 = an empty value of any type).
func (g grid) genOperand(r *lib.Rng, kind int, st *genStats) *lib.Node {
	if kind == 7 {
		return genEmpty(r)
	}
	for try := 0; try < 20; try++ {
		n := g.genKind(r, kind, 1, st)
		if valid(n) {
			return n
		}
		st.count("operand_rejected")
	}
	return g.genPoint(r)
}

func newGrid(r *lib.Rng, general bool) grid {
	g := grid{side: r.Range(3, 6), step: 2, general: general}
	if general {
		g.step = 1
		g.side = r.Range(3, 8)
	}
	switch r.Intn(6) {
	case 0:
		g.ox, g.oy = 0, 0
	case 1:
		g.ox, g.oy = -2*r.Range(0, 6), -2*r.Range(0, 6)
	case 2: // near the bound 2^10 of the quantifier
		g.ox, g.oy = 1024-g.step*g.side, 1024-g.step*g.side
	case 3:
		g.ox, g.oy = -1024, -1024
	default:
		g.ox, g.oy = 2*r.Range(-100, 100), 2*r.Range(-100, 100)
	}
	return g
}

type genStats struct {
	m map[string]int
}

func (s *genStats) count(k string) {
	if s.m == nil {
		s.m = map[string]int{}
	}
	s.m[k]++
}
