package main

// Concurrent-edges class of property C01: three to six segments of the two operands (or of the
// members of a UnionMany list) pass through one point c that is a vertex of no operand. c is a lattice
// or dyadic point; the segments have large-ish coprime lattice directions and end points up to a
// few hundred, so every pairwise crossing is computed inexactly by the float re-noding and the
// computed crossings land on different ulp-neighbours of c: the node merging of
// geom/dcel_node_set.go must identify them. The exact oracle has the true concurrent point.
//
// c is a multiple of the bucket width of the node set (512 ulps of the largest ordinate), i.e. it lies
// on a bucket boundary in x and in y: a crossing computed slightly left of / below c falls into the
// neighbouring bucket. Which of the eight neighbour relations two computed crossings have is rare to
// hit by chance (the anti-diagonal ones about once in a thousand configurations), so the generator
// SEARCHES: it replays the crossing computation of geom/line.go:intersectLine (the model of the float
// re-noding step the generator is derived from) on candidate triples of segments through c until two
// computed crossings have the wanted relation; the eight relations are taken in turn.

import (
	"github.com/peterstace/simplefeatures/geom"
	"verifharness/lib"
)

type fpt struct{ x, y float64 }

func gcd(a, b int) int {
	if a < 0 {
		a = -a
	}
	if b < 0 {
		b = -b
	}
	for b != 0 {
		a, b = b, a%b
	}
	return a
}

// a coprime lattice direction with components up to m, never axis-parallel
func concDir(r *lib.Rng, m int) (int, int) {
	for {
		dx, dy := r.Range(-m, m), r.Range(-m, m)
		if dx != 0 && dy != 0 && gcd(dx, dy) == 1 {
			return dx, dy
		}
	}
}

func fline(ps ...fpt) *lib.Node {
	n := &lib.Node{Kind: lib.KLine, CT: geom.DimXY}
	for _, p := range ps {
		n.C = append(n.C, [4]float64{p.x, p.y, 0, 0})
	}
	return n
}

type concGen struct {
	r    *lib.Rng
	c    fpt
	dirs [][2]int // directions already used (up to sign)
	pre  [][2]fpt // segments found by the search, handed out first
	preD [][2]int // their directions
}

// ---- replay of geom/line.go: symmetricLineIntersection / intersectLine (proper crossing branch)
func fless(a, b fpt) bool { return a.x < b.x || (a.x == b.x && a.y < b.y) }

func computedCrossing(s1, s2 [2]fpt) fpt {
	can := func(s [2]fpt) [2]fpt {
		if fless(s[1], s[0]) {
			return [2]fpt{s[1], s[0]}
		}
		return s
	}
	l1, l2 := can(s1), can(s2)
	if !(fless(l1[0], l2[0]) || (l1[0] == l2[0] && fless(l1[1], l2[1]))) {
		l1, l2 = l2, l1
	}
	a, b, c, d := l1[0], l1[1], l2[0], l2[1]
	e := (c.y-d.y)*(a.x-c.x) + (d.x-c.x)*(a.y-c.y)
	f := (d.x-c.x)*(a.y-b.y) - (a.x-b.x)*(d.y-c.y)
	p := e / f
	return fpt{(b.x-a.x)*p + a.x, (b.y-a.y)*p + a.y}
}

// bucket offset of a computed crossing relative to the bucket of c (c lies on the bucket boundary)
func bucketOff(c, q fpt) [2]int {
	o := [2]int{0, 0}
	if q.x < c.x {
		o[0] = -1
	}
	if q.y < c.y {
		o[1] = -1
	}
	return o
}

var neighbourRelations = [8][2]int{{1, -1}, {-1, 1}, {-1, -1}, {1, 1}, {-1, 0}, {1, 0}, {0, -1}, {0, 1}}

// search looks for three segments through c two of whose computed pairwise crossings lie in buckets
// with the wanted relation; it reports whether it found them (otherwise any triple is kept)
func (g *concGen) search(want [2]int, tries int) bool {
	for t := 0; t < tries; t++ {
		g.dirs = g.dirs[:0]
		var segs [][2]fpt
		for len(segs) < 3 {
			a, b := g.through()
			segs = append(segs, [2]fpt{a, b})
		}
		var offs [][2]int
		for i := 0; i < 3; i++ {
			for j := i + 1; j < 3; j++ {
				offs = append(offs, bucketOff(g.c, computedCrossing(segs[i], segs[j])))
			}
		}
		for _, p := range offs {
			for _, q := range offs {
				if q[0]-p[0] == want[0] && q[1]-p[1] == want[1] {
					g.pre = segs
					g.preD = append([][2]int(nil), g.dirs...)
					return true
				}
			}
		}
	}
	g.pre = nil
	return false
}

func (g *concGen) newDir() (int, int) {
	for {
		dx, dy := concDir(g.r, 7)
		ok := true
		for _, d := range g.dirs {
			if d[0]*dy-d[1]*dx == 0 { // parallel
				ok = false
			}
		}
		if ok {
			g.dirs = append(g.dirs, [2]int{dx, dy})
			return dx, dy
		}
	}
}

// the next segment through c: one found by the search, else a fresh one
func (g *concGen) next() (fpt, fpt) {
	if len(g.pre) > 0 {
		s := g.pre[0]
		g.dirs = append(g.dirs, g.preD[0])
		g.pre, g.preD = g.pre[1:], g.preD[1:]
		return s[0], s[1]
	}
	return g.through()
}

// a segment through c, c strictly inside it
func (g *concGen) through() (fpt, fpt) {
	dx, dy := g.newDir()
	s, t := g.r.Range(5, 40), g.r.Range(5, 40)
	return fpt{g.c.x - float64(s*dx), g.c.y - float64(s*dy)}, fpt{g.c.x + float64(t*dx), g.c.y + float64(t*dy)}
}

// a line string with one segment through c (sometimes continued by a bend away from c)
func (g *concGen) line() *lib.Node {
	a, b := g.next()
	if g.r.Chance(1, 3) {
		return fline(a, b, fpt{b.x + float64(g.r.Range(-20, 20)), b.y + float64(g.r.Range(1, 20))})
	}
	return fline(a, b)
}

// a triangle (or quadrilateral) with one edge through c
func (g *concGen) poly() *lib.Node {
	for try := 0; try < 50; try++ {
		a, b := g.next()
		d := g.dirs[len(g.dirs)-1]
		// apex on one side of the edge: c + u * normal + v * direction
		nx, ny := -d[1], d[0]
		if g.r.Bool() {
			nx, ny = -nx, -ny
		}
		u, v := g.r.Range(2, 12), g.r.Range(-6, 6)
		apex := fpt{g.c.x + float64(u*nx+v*d[0]), g.c.y + float64(u*ny+v*d[1])}
		n := &lib.Node{Kind: lib.KPoly, CT: geom.DimXY}
		if g.r.Chance(1, 3) {
			apex2 := fpt{apex.x + float64(d[0]), apex.y + float64(d[1])}
			n.Kids = []*lib.Node{fline(a, b, apex2, apex, a)}
		} else {
			n.Kids = []*lib.Node{fline(a, b, apex, a)}
		}
		if valid(n) {
			return n
		}
		g.dirs = g.dirs[:len(g.dirs)-1]
	}
	return g.line()
}

// an operand with k segments through c: a line bundle, a polygon, or a polygon with lines
func (g *concGen) operand(k int) (*lib.Node, string) {
	switch {
	case k == 1 && g.r.Bool():
		return g.poly(), "poly"
	case k == 1:
		return g.line(), "line"
	case g.r.Chance(1, 2):
		n := &lib.Node{Kind: lib.KMLine, CT: geom.DimXY}
		for i := 0; i < k; i++ {
			n.Kids = append(n.Kids, g.line())
		}
		return n, "bundle"
	default:
		n := &lib.Node{Kind: lib.KColl, CT: geom.DimXY}
		n.Kids = append(n.Kids, g.poly())
		for i := 1; i < k; i++ {
			n.Kids = append(n.Kids, g.line())
		}
		return n, "poly+lines"
	}
}

func newConcGen(r *lib.Rng, want int) (*concGen, bool) {
	g := &concGen{r: r}
	g.c = fpt{float64(r.Range(-8, 8)), float64(r.Range(-8, 8))}
	switch r.Intn(4) {
	case 0: // half-integer point
		g.c.x += 0.5
		g.c.y += 0.5
	case 1: // dyadic point
		g.c.x += float64(r.Range(1, 7)) / 8
		g.c.y += float64(r.Range(1, 7)) / 8
	}
	found := g.search(neighbourRelations[want%8], 6000)
	g.dirs = g.dirs[:0]
	return g, found
}

// concPair: the operands share the concurrent point: 3..6 segments through it in total
func concPair(r *lib.Rng, want int) (*lib.Node, *lib.Node, string, bool) {
	g, found := newConcGen(r, want)
	total := r.Range(3, 6)
	ka := r.Range(1, total-1)
	na, sa := g.operand(ka)
	nb, sb := g.operand(total - ka)
	return na, nb, sa + "x" + sb, found
}

// concList: a UnionMany list whose members each have one segment through c (at most one polygon,
// so that no two areal members of the collection overlap)
func concList(r *lib.Rng, want int) ([]*lib.Node, bool) {
	g, found := newConcGen(r, want)
	k := r.Range(3, 6)
	out := make([]*lib.Node, 0, k)
	polyAt := -1
	if r.Bool() {
		polyAt = r.Intn(k)
	}
	for i := 0; i < k; i++ {
		if i == polyAt {
			out = append(out, g.poly())
		} else {
			out = append(out, g.line())
		}
	}
	return out, found
}
