package main

// Replay of the crossing computation of the float re-noding step (geom/line.go:
// symmetricLineIntersection / intersectLine, proper crossing branch) and of the bucket assignment of
// geom/dcel_node_set.go, used by the pencil class (genpencil.go) to SEARCH for and to COUNT the
// rounding patterns of the computed crossings of concurrent segments.

type fpt struct{ x, y float64 }

func gcd(a, b int) int {
	if a < 0 {
		a = -a
	}
	if b < 0 {
		b = -b
	}
	for b != 0 {
		a, b = b, a%b
	}
	return a
}

func fless(a, b fpt) bool { return a.x < b.x || (a.x == b.x && a.y < b.y) }

// computedCrossing: what geom/line.go computes for two properly crossing segments (the pair is
// canonicalised first: end points of each segment in XY order, then the two segments in order)
func computedCrossing(s1, s2 [2]fpt) fpt {
	can := func(s [2]fpt) [2]fpt {
		if fless(s[1], s[0]) {
			return [2]fpt{s[1], s[0]}
		}
		return s
	}
	l1, l2 := can(s1), can(s2)
	if !(fless(l1[0], l2[0]) || (l1[0] == l2[0] && fless(l1[1], l2[1]))) {
		l1, l2 = l2, l1
	}
	a, b, c, d := l1[0], l1[1], l2[0], l2[1]
	e := (c.y-d.y)*(a.x-c.x) + (d.x-c.x)*(a.y-c.y)
	f := (d.x-c.x)*(a.y-b.y) - (a.x-b.x)*(d.y-c.y)
	p := e / f
	return fpt{(b.x-a.x)*p + a.x, (b.y-a.y)*p + a.y}
}

// bucket offset of a computed crossing relative to the bucket of c (c is a multiple of the bucket
// width in both ordinates, i.e. it is the lower left corner of its own bucket)
func bucketOff(c, q fpt) [2]int {
	o := [2]int{0, 0}
	if q.x < c.x {
		o[0] = -1
	}
	if q.y < c.y {
		o[1] = -1
	}
	return o
}
