package main

// General-position class of property C01: geometries whose ordinates are float64 values that are
// not lattice points (multiples of 2^-6 in a window), in general position by
// randomness. The exact oracle admits a case only if the clearance of the operands' arrangement
// (distinct vertices; vertex against non-incident segment) is at least 1e-6 x magnitude; the
// excluded ones are counted (one case in five re-uses vertices with an offset of 2^-28 to exercise the
// exclusion). Some vertices are shared exactly between the operands on purpose.

import (
	"math"
	"sort"

	"github.com/peterstace/simplefeatures/geom"
	"verifharness/lib"
)

type fgen struct {
	r      *lib.Rng
	lo, hi float64
	near   bool         // re-use some vertices with an offset of 2^-28: below the clearance of the quantifier
	pool   [][2]float64 // vertices already used in this case (for exact sharing)
}

func (f *fgen) coord() float64 {
	// multiples of 2^-6 in the window: exact dyadic values with few bits, so that the exact oracle
	// (inductive big numbers) stays affordable; intersection points are still non-representable
	k := f.r.Intn(int((f.hi-f.lo)*64) + 1)
	return f.lo + float64(k)/64
}

func (f *fgen) pt() [2]float64 {
	if len(f.pool) > 0 && f.r.Chance(1, 5) {
		p := f.pool[f.r.Intn(len(f.pool))]
		if f.near && f.r.Bool() {
			p[0] += 1.0 / (1 << 28)
		}
		return p
	}
	p := [2]float64{f.coord(), f.coord()}
	f.pool = append(f.pool, p)
	return p
}

func fnodeLine(ps [][2]float64) *lib.Node {
	n := &lib.Node{Kind: lib.KLine, CT: geom.DimXY}
	for _, p := range ps {
		n.C = append(n.C, [4]float64{p[0], p[1], 0, 0})
	}
	return n
}

// star-shaped polygon: k points sorted by angle around their mean
func (f *fgen) ring(k int) [][2]float64 {
	ps := make([][2]float64, k)
	var cx, cy float64
	for i := range ps {
		ps[i] = f.pt()
		cx += ps[i][0]
		cy += ps[i][1]
	}
	cx /= float64(k)
	cy /= float64(k)
	sort.Slice(ps, func(i, j int) bool {
		return math.Atan2(ps[i][1]-cy, ps[i][0]-cx) < math.Atan2(ps[j][1]-cy, ps[j][0]-cx)
	})
	return append(ps, ps[0])
}

func (f *fgen) poly() *lib.Node {
	for try := 0; try < 30; try++ {
		n := &lib.Node{Kind: lib.KPoly, CT: geom.DimXY}
		sh := f.ring(f.r.Range(3, 5))
		n.Kids = append(n.Kids, fnodeLine(sh))
		if f.r.Chance(1, 4) {
			// a hole: the shell shrunk towards its mean
			var cx, cy float64
			for _, p := range sh[:len(sh)-1] {
				cx += p[0]
				cy += p[1]
			}
			cx /= float64(len(sh) - 1)
			cy /= float64(len(sh) - 1)
			var h [][2]float64
			for _, p := range sh {
				h = append(h, [2]float64{math.Round((cx+(p[0]-cx)*0.3)*64) / 64, math.Round((cy+(p[1]-cy)*0.3)*64) / 64})
			}
			h[len(h)-1] = h[0]
			n.Kids = append(n.Kids, fnodeLine(h))
		}
		if valid(n) {
			return n
		}
	}
	n := &lib.Node{Kind: lib.KPoly, CT: geom.DimXY}
	n.Kids = append(n.Kids, fnodeLine([][2]float64{{f.lo, f.lo}, {f.hi, f.lo}, {f.lo, f.hi}, {f.lo, f.lo}}))
	return n
}

func (f *fgen) line() *lib.Node {
	for {
		k := f.r.Range(2, 4)
		ps := make([][2]float64, k)
		for i := range ps {
			ps[i] = f.pt()
		}
		n := fnodeLine(ps)
		if valid(n) {
			return n
		}
	}
}

func (f *fgen) point() *lib.Node {
	p := f.pt()
	return &lib.Node{Kind: lib.KPoint, CT: geom.DimXY, Full: true, C: [][4]float64{{p[0], p[1], 0, 0}}}
}

func (f *fgen) operand(kind int) *lib.Node {
	for try := 0; try < 30; try++ {
		var n *lib.Node
		switch kind {
		case 0:
			n = f.point()
		case 1:
			n = f.line()
		case 2:
			n = f.poly()
		case 3:
			n = &lib.Node{Kind: lib.KMPoint, CT: geom.DimXY}
			for i, k := 0, f.r.Range(1, 3); i < k; i++ {
				n.Kids = append(n.Kids, f.point())
			}
		case 4:
			n = &lib.Node{Kind: lib.KMLine, CT: geom.DimXY}
			for i, k := 0, f.r.Range(1, 2); i < k; i++ {
				n.Kids = append(n.Kids, f.line())
			}
		case 5:
			n = &lib.Node{Kind: lib.KMPoly, CT: geom.DimXY}
			for i, k := 0, f.r.Range(1, 2); i < k; i++ {
				n.Kids = append(n.Kids, f.poly())
			}
		default:
			// a collection of one member per dimension at most (areal members of one operand do
			// not overlap here: the F20 family is exercised by the lattice classes)
			n = &lib.Node{Kind: lib.KColl, CT: geom.DimXY}
			if f.r.Bool() {
				n.Kids = append(n.Kids, f.poly())
			}
			if f.r.Bool() {
				n.Kids = append(n.Kids, f.line())
			}
			n.Kids = append(n.Kids, f.point())
		}
		if valid(n) {
			return n
		}
	}
	return f.point()
}

func newFgen(r *lib.Rng) *fgen {
	f := &fgen{r: r, near: r.Chance(1, 5)}
	switch r.Intn(3) {
	case 0:
		f.lo, f.hi = 0, 10
	case 1:
		f.lo, f.hi = -100, 100
	default:
		f.lo, f.hi = 1000, 1004
	}
	return f
}
