package main

// Pencil class of property C01 ("concurrent edges" of the quantifier): m = 3..6 segments of the two
// operands (or of the members of a UnionMany list) pass through one point P that is a vertex of no
// operand. All ordinates are INTEGERS with |c| <= 2^10, i.e. the cases lie in the integer domain of
// the property and get the full exact judgement of the driver.
//
//   P = (p1/q, p2/q), q in {1, 2, 4, 8}: lattice, half-lattice and dyadic points, small / medium /
//       large / mixed-binade / near-the-bound positions. P is exactly representable and is a multiple
//       of the bucket width of the node set of geom/dcel_node_set.go (512 ulps of the largest
//       ordinate), i.e. it lies on a bucket boundary in x and in y.
//   segments: primitive direction (dx, dy), |dx|, |dy| <= 60 (tame <= 7, medium <= 20, wild <= 60,
//       axis-parallel ones included), end points P + (s/q)(dx, dy) for the integers s that make both
//       ordinates integers, one on each side of P. The exact crossing of any two of them is P; the
//       crossing COMPUTED by geom/line.go:intersectLine is P plus a rounding error of a few ulps in
//       each ordinate, so the computed crossings of one pencil fall into up to four different buckets
//       around P and must be merged by the probe of the eight neighbouring buckets.
//   operands: every pair of the 8 operand kinds (seven types + empty) in which the segments can be
//       placed: Polygon / MultiPolygon carry one segment (an edge of a triangle or quadrilateral, now
//       and then with a hole / a second disjoint polygon), LineString (a self-crossing path),
//       MultiLineString and GeometryCollection (polygon + lines + points + nested collection) carry any
//       number, Point / MultiPoint / empty carry none (points sit on lattice points of the other
//       operand's segments or beside them). 39 of the 64 pairs are meaningful (some operand must be
//       able to carry two segments); the case counter walks through them.
//   rounding patterns: the harness replays the crossing computation of geom/line.go on the m segments
//       and classifies the relative bucket positions of the computed crossings: H (left/right
//       neighbour), V (below/above), D (diagonal), A (anti-diagonal). The wanted relation is taken in
//       turn (A, H, V, D, A, none) and direction sets are drawn until the replay shows it (SEARCH, at
//       most pencilTries draws); the relations present in every case are counted in the #GEN line, so
//       that a run reports how many cases exercise each of the neighbour probes.

import (
	"fmt"
	"math"
	"sort"

	"github.com/peterstace/simplefeatures/geom"
	"verifharness/lib"
)

const pencilBound = 1024
const pencilTries = 3000

type pseg struct {
	a, b ipt    // integer end points, P strictly between them
	d    [2]int // primitive direction a -> b
	s0   int    // the integer points of the line are P + ((s0 + k q)/q) d
}

type pencilGen struct {
	r      *lib.Rng
	q      int // denominator of P
	p1, p2 int // P = (p1/q, p2/q)
	segs   []pseg
	rel    map[string]bool // relations between the replayed crossings
	found  bool
	lean   bool // few crossings besides P: the exact arrangement stays small
	cross  int  // number of abscissae of crossings (P included)
}

func (g *pencilGen) px() float64 { return float64(g.p1) / float64(g.q) }
func (g *pencilGen) py() float64 { return float64(g.p2) / float64(g.q) }

func (g *pencilGen) isP(p ipt) bool { return p.x*g.q == g.p1 && p.y*g.q == g.p2 }

func floorDiv(a, b int) int {
	d := a / b
	if a%b != 0 && (a < 0) != (b < 0) {
		d--
	}
	return d
}

func mod(a, b int) int { return a - b*floorDiv(a, b) }

// choosePoint picks q and P
func (g *pencilGen) choosePoint() {
	r := g.r
	switch r.Intn(8) {
	case 0, 1, 2, 3:
		g.q = 1
	case 4, 5:
		g.q = 2
	case 6:
		g.q = 4
	default:
		g.q = 8
	}
	var x, y int
	switch r.Intn(6) {
	case 0:
		x, y = r.Range(-8, 8), r.Range(-8, 8)
	case 1:
		x, y = r.Range(-100, 100), r.Range(-100, 100)
	case 2:
		x, y = r.Range(-700, 700), r.Range(-700, 700)
	case 3: // ordinates in different binades
		x, y = r.Range(-3, 3), r.Range(-600, 600)
		if r.Bool() {
			x, y = y, x
		}
	case 4: // near the bound of the quantifier
		x, y = 1024-r.Range(2, 90), r.Range(-900, 900)
		if r.Bool() {
			x = -x
		}
		if r.Bool() {
			x, y = y, x
		}
	default:
		x, y = r.Range(-300, 300), r.Range(-300, 300)
	}
	g.p1, g.p2 = x*g.q, y*g.q
	if g.q > 1 {
		for {
			a, b := r.Intn(g.q), r.Intn(g.q)
			if a%2 == 1 || b%2 == 1 { // P has denominator exactly q in some ordinate
				g.p1 += a
				g.p2 += b
				break
			}
		}
	}
}

// a primitive direction; level 0 tame, 1 medium, 2 wild
func pencilDir(r *lib.Rng, level int) [2]int {
	m := [3]int{7, 20, 60}[level]
	for {
		dx, dy := r.Range(-m, m), r.Range(-m, m)
		if (dx != 0 || dy != 0) && gcd(dx, dy) == 1 {
			return [2]int{dx, dy}
		}
	}
}

func inBound(v int) bool { return v >= -pencilBound && v <= pencilBound }

// at returns the point P + (s/q) d (s must make it a lattice point)
func (g *pencilGen) at(d [2]int, s int) ipt {
	return ipt{(g.p1 + s*d[0]) / g.q, (g.p2 + s*d[1]) / g.q}
}

// newSeg draws a segment through P with a direction not parallel to those already used
func (g *pencilGen) newSeg(level int) (pseg, bool) {
	r := g.r
	d := pencilDir(r, level)
	for _, s := range g.segs {
		if s.d[0]*d[1]-s.d[1]*d[0] == 0 {
			return pseg{}, false
		}
	}
	s0 := -1
	for s := 0; s < g.q; s++ {
		if mod(g.p1+s*d[0], g.q) == 0 && mod(g.p2+s*d[1], g.q) == 0 {
			s0 = s
			break
		}
	}
	if s0 < 0 {
		return pseg{}, false
	}
	// admissible multiples on both sides
	room := func(sign int) int {
		k := 0
		for k < 400 {
			s := s0 + sign*(k+1)*g.q
			if sign > 0 && s0 > 0 {
				s = s0 + k*g.q
			}
			p := g.at(d, s)
			if !inBound(p.x) || !inBound(p.y) {
				break
			}
			k++
		}
		return k
	}
	ra, rb := room(-1), room(1)
	if ra < 1 || rb < 1 {
		return pseg{}, false
	}
	pick := func(room int) int {
		switch r.Intn(6) {
		case 0, 1:
			return r.Range(1, minInt(room, 3))
		case 2:
			return room
		case 3:
			return r.Range(1, minInt(room, 12))
		default:
			return r.Range(1, minInt(room, 40))
		}
	}
	ka, kb := pick(ra), pick(rb)
	sa := s0 - ka*g.q
	sb := s0 + kb*g.q
	if s0 > 0 {
		sb = s0 + (kb-1)*g.q
	}
	sg := pseg{a: g.at(d, sa), b: g.at(d, sb), d: d, s0: s0}
	if r.Bool() {
		sg.a, sg.b = sg.b, sg.a
		sg.d = [2]int{-d[0], -d[1]}
		sg.s0 = mod(-s0, g.q)
	}
	return sg, true
}

func minInt(a, b int) int {
	if a < b {
		return a
	}
	return b
}

// relations between the crossings that geom/line.go computes for the segments (replay)
func (g *pencilGen) relations() map[string]bool {
	c := fpt{g.px(), g.py()}
	var offs [][2]int
	exact := true
	for i := range g.segs {
		for j := i + 1; j < len(g.segs); j++ {
			si, sj := g.segs[i], g.segs[j]
			q := computedCrossing(
				[2]fpt{{float64(si.a.x), float64(si.a.y)}, {float64(si.b.x), float64(si.b.y)}},
				[2]fpt{{float64(sj.a.x), float64(sj.a.y)}, {float64(sj.b.x), float64(sj.b.y)}})
			if q != c {
				exact = false
			}
			offs = append(offs, bucketOff(c, q))
		}
	}
	rel := map[string]bool{}
	if exact {
		rel["exact"] = true
	}
	for i, p := range offs {
		for _, q := range offs[i+1:] {
			dx, dy := q[0]-p[0], q[1]-p[1]
			switch {
			case dx != 0 && dy == 0:
				rel["H"] = true
			case dx == 0 && dy != 0:
				rel["V"] = true
			case dx != 0 && dx == dy:
				rel["D"] = true
			case dx != 0 && dx == -dy:
				rel["A"] = true
			}
		}
	}
	return rel
}

var pencilWanted = [...]string{"A", "H", "V", "D", "A", ""}

// draw chooses P and m segments; want is the relation searched for ("" = none)
func newPencil(r *lib.Rng, m int, want string, lean bool) *pencilGen {
	g := &pencilGen{r: r, lean: lean}
	for t := 0; t < pencilTries; t++ {
		if t%40 == 0 {
			g.choosePoint()
		}
		g.segs = g.segs[:0]
		mix := r.Intn(4) // 0 tame, 1 medium, 2 wild, 3 mixed
		for tries := 0; len(g.segs) < m && tries < 200; tries++ {
			level := mix
			if mix == 3 {
				level = r.Intn(3)
			}
			if s, ok := g.newSeg(level); ok {
				g.segs = append(g.segs, s)
			}
		}
		if len(g.segs) < m {
			g.choosePoint()
			continue
		}
		g.rel = g.relations()
		if want == "" || g.rel[want] {
			g.found = want != ""
			return g
		}
	}
	return g
}

// ---------------------------------------------------------------- operands

func (g *pencilGen) nearPoint(away int) ipt {
	for {
		p := ipt{floorDiv(g.p1, g.q) + g.r.Range(-away, away), floorDiv(g.p2, g.q) + g.r.Range(-away, away)}
		if !g.isP(p) && inBound(p.x) && inBound(p.y) {
			return p
		}
	}
}

// a path through the given segments (a self-crossing line string when there are several). Lean: the
// segments are taken in the order of their angle and the connector from one to the next runs inside
// the wedge between two neighbouring rays, so that it crosses no line of the path; otherwise in any
// order with connectors across the pencil, and now and then a tail
func (g *pencilGen) path(segs []pseg) *lib.Node {
	var ps []ipt
	if g.lean {
		ss := append([]pseg(nil), segs...)
		for i := range ss { // direction into the upper half plane (or along +x)
			if ss[i].d[1] < 0 || (ss[i].d[1] == 0 && ss[i].d[0] < 0) {
				ss[i].a, ss[i].b = ss[i].b, ss[i].a
				ss[i].d = [2]int{-ss[i].d[0], -ss[i].d[1]}
			}
		}
		sort.Slice(ss, func(i, j int) bool { return ss[i].d[0]*ss[j].d[1]-ss[i].d[1]*ss[j].d[0] > 0 })
		for i, s := range ss {
			if i%2 == 0 {
				ps = append(ps, s.a, s.b)
			} else {
				ps = append(ps, s.b, s.a)
			}
		}
		if g.r.Bool() {
			for i, j := 0, len(ps)-1; i < j; i, j = i+1, j-1 {
				ps[i], ps[j] = ps[j], ps[i]
			}
		}
		return lineNode(ps)
	}
	for _, s := range segs {
		if g.r.Bool() {
			ps = append(ps, s.a, s.b)
		} else {
			ps = append(ps, s.b, s.a)
		}
	}
	if g.r.Chance(1, 4) { // a tail bending away
		last := ps[len(ps)-1]
		for try := 0; try < 10; try++ {
			t := ipt{last.x + g.r.Range(-20, 20), last.y + g.r.Range(-20, 20)}
			if t != last && !g.isP(t) && inBound(t.x) && inBound(t.y) {
				ps = append(ps, t)
				break
			}
		}
	}
	return lineNode(ps)
}

func (g *pencilGen) mline(segs []pseg) *lib.Node {
	n := &lib.Node{Kind: lib.KMLine, CT: geom.DimXY}
	for i := 0; i < len(segs); {
		j := i + 1
		for j < len(segs) && g.r.Chance(1, 3) && !(g.lean && g.r.Bool()) {
			j++
		}
		n.Kids = append(n.Kids, g.path(segs[i:j]))
		i = j
	}
	if g.r.Chance(1, 8) {
		n.Kids = append(n.Kids, lineNode(nil))
	}
	if g.lean && len(n.Kids) > 1 { // members in any order
		i, j := g.r.Intn(len(n.Kids)), g.r.Intn(len(n.Kids))
		n.Kids[i], n.Kids[j] = n.Kids[j], n.Kids[i]
	}
	return n
}

// a triangle or quadrilateral (now and then with a hole) one edge of which is the segment
func (g *pencilGen) poly(s pseg) *lib.Node {
	r := g.r
	side := func(p ipt) int { return s.d[0]*(p.y-s.a.y) - s.d[1]*(p.x-s.a.x) }
	for try := 0; try < 60; try++ {
		away := [4]int{6, 30, 150, 500}[r.Intn(4)]
		if g.lean {
			away = [3]int{40, 200, 600}[r.Intn(3)]
		}
		c := g.nearPoint(away)
		if g.lean && r.Bool() { // a right triangle with axis-parallel legs: crossings with small denominators
			c = ipt{s.a.x, s.b.y}
			if r.Bool() {
				c = ipt{s.b.x, s.a.y}
			}
		}
		sc := side(c)
		if sc == 0 || g.isP(c) {
			continue
		}
		ring := closed(s.a, s.b, c)
		if !g.lean && r.Chance(1, 3) {
			c2 := g.nearPoint(away)
			if side(c2)*sc > 0 && c2 != c {
				ring = closed(s.a, s.b, c, c2)
			}
		}
		n := polyNode([][]ipt{ring})
		if !valid(n) {
			continue
		}
		if !g.lean && r.Chance(1, 5) { // a small hole somewhere inside
			for h := 0; h < 10; h++ {
				o := ipt{(s.a.x + s.b.x + c.x) / 3, (s.a.y + s.b.y + c.y) / 3}
				o.x += r.Range(-3, 3)
				o.y += r.Range(-3, 3)
				hole := closed(o, ipt{o.x + r.Range(1, 3), o.y}, ipt{o.x, o.y + r.Range(1, 3)})
				nh := polyNode([][]ipt{ring, hole})
				if valid(nh) && !g.isP(hole[0]) && !g.isP(hole[1]) && !g.isP(hole[2]) {
					return nh
				}
			}
		}
		return n
	}
	return nil
}

func (g *pencilGen) mpoly(s pseg) *lib.Node {
	p := g.poly(s)
	if p == nil {
		return nil
	}
	n := &lib.Node{Kind: lib.KMPoly, CT: geom.DimXY, Kids: []*lib.Node{p}}
	if g.r.Chance(2, 3) && !(g.lean && g.r.Bool()) {
		for try := 0; try < 25; try++ {
			o := g.nearPoint([3]int{20, 100, 400}[g.r.Intn(3)])
			w, h := g.r.Range(1, 30), g.r.Range(1, 30)
			var ring []ipt
			if g.r.Bool() {
				ring = closed(o, ipt{o.x + w, o.y}, ipt{o.x + w, o.y + h}, ipt{o.x, o.y + h})
			} else {
				ring = closed(o, ipt{o.x + w, o.y + g.r.Range(-5, 5)}, ipt{o.x + g.r.Range(-5, 5), o.y + h})
			}
			m := &lib.Node{Kind: lib.KMPoly, CT: geom.DimXY, Kids: []*lib.Node{p, polyNode([][]ipt{ring})}}
			if g.r.Bool() {
				m.Kids[0], m.Kids[1] = m.Kids[1], m.Kids[0]
			}
			if g.clean(m) && valid(m) {
				return m
			}
		}
	}
	return n
}

// a point of the lattice on one of the segments (not P), or beside P, or far away
func (g *pencilGen) pointFor(others []pseg) ipt {
	r := g.r
	if len(others) > 0 && (g.lean || r.Chance(2, 3)) {
		s := others[r.Intn(len(others))]
		switch r.Intn(3) {
		case 0:
			return s.a
		case 1:
			return s.b
		default: // a lattice point of the segment next to P
			k := g.q
			if s.s0 > 0 {
				k = s.s0
			}
			if r.Bool() {
				k = s.s0 - g.q
			}
			p := g.at(s.d, k)
			if !g.isP(p) {
				return p
			}
			return s.a
		}
	}
	if r.Bool() {
		return g.nearPoint(3)
	}
	return g.nearPoint(200)
}

func (g *pencilGen) mpoint(others []pseg) *lib.Node {
	n := &lib.Node{Kind: lib.KMPoint, CT: geom.DimXY}
	k := g.r.Range(1, 4)
	for i := 0; i < k; i++ {
		n.Kids = append(n.Kids, pointNode(g.pointFor(others)))
	}
	if g.r.Chance(1, 6) {
		n.Kids = append(n.Kids, emptyPoint())
	}
	return n
}

// a collection carrying the segments: at most one areal member (overlapping areal members of one
// operand are the class of the known findings F20 / F20b), lines, points, a nested collection
func (g *pencilGen) coll(segs, others []pseg, depth int) *lib.Node {
	r := g.r
	n := &lib.Node{Kind: lib.KColl, CT: geom.DimXY}
	rest := segs
	if len(rest) > 0 && r.Bool() {
		var p *lib.Node
		if r.Chance(1, 4) {
			p = g.mpoly(rest[0])
		} else {
			p = g.poly(rest[0])
		}
		if p != nil {
			n.Kids = append(n.Kids, p)
			rest = rest[1:]
		}
	}
	if depth > 0 && len(rest) > 1 && r.Chance(1, 3) && !g.lean {
		k := r.Range(1, len(rest)-1)
		// the nested collection gets no areal member: it would be free to overlap the one above
		inner := &lib.Node{Kind: lib.KColl, CT: geom.DimXY, Kids: []*lib.Node{g.mline(rest[:k])}}
		n.Kids = append(n.Kids, inner)
		rest = rest[k:]
	}
	for len(rest) > 0 {
		k := 1
		if r.Chance(1, 3) {
			k = r.Range(1, len(rest))
		}
		if k > 1 || r.Chance(1, 3) {
			n.Kids = append(n.Kids, g.mline(rest[:k]))
		} else {
			n.Kids = append(n.Kids, g.path(rest[:k]))
		}
		rest = rest[k:]
	}
	if r.Chance(1, 3) {
		n.Kids = append(n.Kids, pointNode(g.pointFor(append(append([]pseg(nil), segs...), others...))))
	}
	if r.Chance(1, 8) && !g.lean {
		n.Kids = append(n.Kids, genEmpty(r))
	}
	// members in any order
	for i := len(n.Kids) - 1; i > 0; i-- {
		j := r.Intn(i + 1)
		n.Kids[i], n.Kids[j] = n.Kids[j], n.Kids[i]
	}
	return n
}

// clean: integer ordinates within the bound, P is no vertex
func (g *pencilGen) clean(n *lib.Node) bool {
	ok := true
	var walk func(n *lib.Node)
	walk = func(n *lib.Node) {
		for _, c := range n.C {
			if n.Kind == lib.KPoint && !n.Full {
				continue
			}
			if c[0] != math.Trunc(c[0]) || c[1] != math.Trunc(c[1]) || math.Abs(c[0]) > pencilBound || math.Abs(c[1]) > pencilBound {
				ok = false
			}
			if c[0] == g.px() && c[1] == g.py() {
				ok = false
			}
		}
		for _, k := range n.Kids {
			walk(k)
		}
	}
	walk(n)
	return ok
}

// capacity of an operand kind: how many segments through P it can carry (9 = any number)
var pencilCap = [8]int{0, 9, 1, 0, 9, 1, 9, 0}

// the 39 kind pairs in which three segments can be placed
var pencilPairs = func() [][2]int {
	var ps [][2]int
	for a := 0; a < 8; a++ {
		for b := 0; b < 8; b++ {
			if pencilCap[a]+pencilCap[b] >= 9 {
				ps = append(ps, [2]int{a, b})
			}
		}
	}
	return ps
}()

func (g *pencilGen) operand(kind int, segs, others []pseg) *lib.Node {
	switch kind {
	case 0:
		return pointNode(g.pointFor(others))
	case 1:
		return g.path(segs)
	case 2:
		return g.poly(segs[0])
	case 3:
		return g.mpoint(others)
	case 4:
		return g.mline(segs)
	case 5:
		return g.mpoly(segs[0])
	case 6:
		return g.coll(segs, others, 1)
	default:
		return genEmpty(g.r)
	}
}

// Size classes of the pencil cases. The exact oracle's work grows faster than quadratically with the
// size of the arrangement (every witness is tested against every segment of every result in exact
// rational arithmetic, and the ghost edges of the engine leave collinear nodes with large rational
// ordinates in the results: 0.03 .. 0.5 s for a pair with m = 3, 4 and 1 s and more for m = 6, against
// 0.02 s for an ordinary lattice case), so the full exact judgement (class "pencil") goes to
//   small cases: two pairs in five and every second list; lean, m = 3 (two in three) or 4, redrawn
//                until pencilSize <= pencilSmall;
//   big cases:   one in 25 (pairs) / 12 (lists), thorough tier only; lean, m in 3..6, redrawn until
//                pencilSize <= pencilBig;
// and the light judgement (class "pencilx": no error, valid results, structural laws, every check on
// the real DCEL incl. 'no two overlay vertices closer than 2^-30 x magnitude') to
//   rich cases:  the others; connectors across the pencil, tails, quadrilaterals, holes, nested
//                collections, m in 3..6, any size (full judgement when they happen to be small).
const pencilSmall = 60
const pencilBig = 100

func pencilIsSmall(cnt int, list bool) bool {
	if list {
		return cnt%2 == 0
	}
	return cnt%5 == 0 || cnt%5 == 2
}

func pencilIsBig(cnt int, list, thorough bool) bool {
	if list {
		return thorough && cnt%12 == 7
	}
	return thorough && cnt%25 == 8
}

// pencilMode: lean, the admissible m, the size bound of the redraws
func pencilMode(r *lib.Rng, cnt int, thorough, list bool) (lean bool, mlo, mhi, bound int) {
	switch {
	case pencilIsSmall(cnt, list):
		if r.Chance(2, 3) {
			return true, 3, 3, pencilSmall
		}
		return true, 4, 4, pencilSmall
	case pencilIsBig(cnt, list, thorough):
		return true, 3, 6, pencilBig
	default:
		return false, 3, 6, 1 << 30
	}
}

// pencilFull: does the cnt-th case, of the given size, get the full exact judgement
func pencilFull(cnt, size int, thorough, list bool) bool {
	return size <= pencilSmall || (pencilIsBig(cnt, list, thorough) && size <= pencilBig)
}

// pencilPair: the cnt-th pencil case: kinds, operands, the relations of the replayed crossings.
func pencilPair(r *lib.Rng, cnt int, thorough bool) (na, nb *lib.Node, ka, kb int, g *pencilGen, size int) {
	if cnt == 0 {
		// a fixed first case: a triangle edge and two lines through the lattice point (26 25), whose
		// three computed crossings are (26, 25-ulp), (26-ulp, 25), ... (relation A)
		g = &pencilGen{r: r, q: 1, p1: 26, p2: 25, lean: true}
		g.segs = []pseg{{a: ipt{17, 16}, b: ipt{47, 46}, d: [2]int{1, 1}}, {a: ipt{-4, 19}, b: ipt{51, 30}, d: [2]int{5, 1}}, {a: ipt{66, 75}, b: ipt{-22, -35}, d: [2]int{-4, -5}}}
		g.rel = g.relations()
		na = polyNode([][]ipt{closed(ipt{17, 16}, ipt{47, 46}, ipt{2, 61})})
		nb = &lib.Node{Kind: lib.KMLine, CT: geom.DimXY, Kids: []*lib.Node{lineNode([]ipt{g.segs[1].a, g.segs[1].b}), lineNode([]ipt{g.segs[2].a, g.segs[2].b})}}
		size, g.cross = pencilSize(na, nb)
		return na, nb, 2, 4, g, size
	}
	pr := pencilPairs[cnt%len(pencilPairs)]
	if r.Chance(1, 5) {
		pr = pencilPairs[r.Intn(len(pencilPairs))]
	}
	ka, kb = pr[0], pr[1]
	want := pencilWanted[(cnt/2)%len(pencilWanted)]
	lean, mlo, mhi, bound := pencilMode(r, cnt, thorough, false)
	for try := 0; ; try++ {
		m := r.Range(mlo, mhi)
		if try > 30 {
			m = 3
		}
		ca, cb := pencilCap[ka], pencilCap[kb]
		var sa int
		switch {
		case ca == 0:
			sa = 0
		case cb == 0:
			sa = m
		case ca == 1:
			sa = 1
		case cb == 1:
			sa = m - 1
		default:
			sa = r.Range(1, m-1)
		}
		g = newPencil(r, m, want, lean)
		if len(g.segs) < m {
			continue
		}
		// which segments go to which operand: any subset
		for i := m - 1; i > 0; i-- {
			j := r.Intn(i + 1)
			g.segs[i], g.segs[j] = g.segs[j], g.segs[i]
		}
		na = g.operand(ka, g.segs[:sa], g.segs[sa:])
		nb = g.operand(kb, g.segs[sa:], g.segs[:sa])
		if na == nil || nb == nil || !g.clean(na) || !g.clean(nb) || !valid(na) || !valid(nb) {
			continue
		}
		size, g.cross = pencilSize(na, nb)
		if size > bound && try < 100 {
			continue
		}
		return na, nb, ka, kb, g, size
	}
}

// pencilList: a UnionMany list whose members carry one or two segments each (at most one areal
// member in the whole list)
func pencilList(r *lib.Rng, cnt int, thorough bool) ([]*lib.Node, *pencilGen, int) {
	want := pencilWanted[(cnt/2)%len(pencilWanted)]
	lean, mlo, mhi, bound := pencilMode(r, cnt, thorough, true)
	for try := 0; ; try++ {
		m := r.Range(mlo, mhi)
		if try > 30 {
			m = 3
		}
		g := newPencil(r, m, want, lean)
		if len(g.segs) < m {
			continue
		}
		var out []*lib.Node
		areal := r.Bool()
		ok := true
		for i := 0; i < m; {
			k := 1
			if i+1 < m && r.Chance(1, 4) {
				k = 2
			}
			var n *lib.Node
			switch {
			case areal && k == 1:
				areal = false
				if r.Chance(1, 4) {
					n = g.mpoly(g.segs[i])
				} else {
					n = g.poly(g.segs[i])
				}
			case k == 2 || r.Chance(1, 4):
				n = g.mline(g.segs[i : i+k])
			default:
				n = g.path(g.segs[i : i+k])
			}
			if n == nil || !g.clean(n) || !valid(n) {
				ok = false
				break
			}
			out = append(out, n)
			i += k
		}
		if !ok {
			continue
		}
		if r.Chance(1, 5) {
			out = append(out, pointNode(g.pointFor(g.segs)))
		}
		size, cr := pencilSize(out...)
		g.cross = cr
		if size > bound && try < 100 {
			continue
		}
		return out, g, size
	}
}

func (g *pencilGen) describe() string {
	md, mc := 0, 0
	for _, s := range g.segs {
		for _, v := range []int{s.d[0], s.d[1]} {
			if v < 0 {
				v = -v
			}
			if v > md {
				md = v
			}
		}
		for _, v := range []int{s.a.x, s.a.y, s.b.x, s.b.y} {
			if v < 0 {
				v = -v
			}
			if v > mc {
				mc = v
			}
		}
	}
	return fmt.Sprintf("q=%d,m=%d,maxdir=%d,maxc=%d,cross=%d", g.q, len(g.segs), md, mc, g.cross)
}

// ---------------------------------------------------------------- size of the exact arrangement

// pencilSize estimates the work of the exact oracle on a case: (number of event abscissae: vertices
// and crossing points) x (number of segments). The oracle's slab decomposition has about that many
// cells, and its exact rational arithmetic makes every one of them expensive, so the quick tier
// rejects cases above a bound (the thorough tier admits larger ones).
func pencilSize(ns ...*lib.Node) (size, crossings int) {
	var segs [][2]ipt
	xs := map[float64]bool{}
	var walk func(n *lib.Node)
	walk = func(n *lib.Node) {
		if n.Kind == lib.KPoint && n.Full {
			xs[n.C[0][0]] = true
		}
		if n.Kind == lib.KLine {
			for i, c := range n.C {
				xs[c[0]] = true
				if i > 0 {
					segs = append(segs, [2]ipt{{int(n.C[i-1][0]), int(n.C[i-1][1])}, {int(c[0]), int(c[1])}})
				}
			}
		}
		for _, k := range n.Kids {
			walk(k)
		}
	}
	for _, n := range ns {
		walk(n)
	}
	orient := func(a, b, c ipt) int {
		v := (b.x-a.x)*(c.y-a.y) - (b.y-a.y)*(c.x-a.x)
		switch {
		case v > 0:
			return 1
		case v < 0:
			return -1
		}
		return 0
	}
	for i := range segs {
		for j := i + 1; j < len(segs); j++ {
			a, b, c, d := segs[i][0], segs[i][1], segs[j][0], segs[j][1]
			if orient(a, b, c)*orient(a, b, d) < 0 && orient(c, d, a)*orient(c, d, b) < 0 {
				den := float64((b.x-a.x)*(d.y-c.y) - (b.y-a.y)*(d.x-c.x))
				t := float64((c.x-a.x)*(d.y-c.y)-(c.y-a.y)*(d.x-c.x)) / den
				x := float64(a.x) + t*float64(b.x-a.x)
				x = math.Round(x*1e6) / 1e6
				if !xs[x] {
					crossings++
				}
				xs[x] = true
			}
		}
	}
	return len(xs) * len(segs), crossings
}
