// Command c01 runs the overlay set operations of the implementation (Union, Intersection,
// Difference, SymmetricDifference, UnaryUnion, UnionMany) on generated pairs and lists of valid
// geometries and prints one case per line (property C01).
//
// A class written "name@k" means: the lattice case was rescaled exactly by 2^k (all operands).
// Classes "pencil" / "pencilx": concurrent edges (genpencil.go); for a pair the kinds field carries
// "#size,q=..,m=..,maxdir=..,maxc=..,cross=.." (estimated size of the exact arrangement, denominator
// of the concurrency point, number of segments through it, largest direction component, largest
// ordinate of those segments, number of crossing abscissae).
//
// Line formats (tab separated); a result is "name|dump|v" (v = 1 when result.Validate() == nil)
// or "name|ERR|message":
//
//	id  P  class  kinds  dumpA  dumpB  envjoin  U|..  I|..  D|..  S|..  UA|..  UB|..  Ur|..  Ir|..  Sr|..  Uaa|..  Iaa|..  Daa|..  Saa|..  PT|..
//	id  N  class  k      dump1 ... dumpk  M|..  [UU|..  when k = 1]
//
// U I D S = Union / Intersection / Difference / SymmetricDifference of (a, b); UA, UB = UnaryUnion
// of a, b; Ur Ir Sr = the commutative operations on (b, a); Uaa .. Saa = the four operations on
// (a, a); PT = Union(Difference(a,b), Intersection(a,b)); fields "@OV=dump", "@OVA=dump", "@OVB=dump",
// "@OVM=dump": the labelled DCEL of the overlays (a,b), (a,{}), (b,{}), (collection of the list,{})
// exported by the optional hook geom.Geometry.VerifOverlay (absent without the hook); envjoin = eq | ne: Envelope of U against
// the join of the operands' envelopes. M = UnionMany(list), UU = UnaryUnion(list[0]).
package main

import (
	"encoding/json"
	"fmt"
	"math"
	"strings"
	"time"

	"github.com/peterstace/simplefeatures/geom"
	"verifharness/lib"
)

var kindNames = []string{"Point", "LineString", "Polygon", "MultiPoint", "MultiLineString", "MultiPolygon", "GeometryCollection", "Empty"}

func res(name string, g geom.Geometry, err error) string {
	if err != nil {
		msg := strings.ReplaceAll(strings.ReplaceAll(err.Error(), "\t", " "), "|", "/")
		return name + "|ERR|" + msg
	}
	v := 0
	if g.Validate() == nil {
		v = 1
	}
	return fmt.Sprintf("%s|%s|%d", name, lib.Dump(g), v)
}

// call guards a set operation: a panic is reported as an error return of the operation, and so is
// a call that does not come back within callTimeout (the looping goroutine cannot be stopped; after
// maxTimeouts such calls the run ends early with the cases produced so far).
const callTimeout = 10 * time.Second
const maxTimeouts = 3

var timeouts int

func call(f func() (geom.Geometry, error)) (geom.Geometry, error) {
	type out struct {
		g   geom.Geometry
		err error
	}
	ch := make(chan out, 1)
	go func() {
		defer func() {
			if p := recover(); p != nil {
				ch <- out{geom.Geometry{}, fmt.Errorf("PANIC: %v", p)}
			}
		}()
		g, err := f()
		ch <- out{g, err}
	}()
	select {
	case o := <-ch:
		return o.g, o.err
	case <-time.After(callTimeout):
		timeouts++
		return geom.Geometry{}, fmt.Errorf("TIMEOUT: no result within %v", callTimeout)
	}
}

// overlayDump exports the labelled DCEL of the overlay of (a, b) through the optional hook
// geom/verif_hooks.go (build tag verif); ok is false when the hook is not compiled in.
var overlaysDumped int

func overlayDump(name string, a, b geom.Geometry) (field string, ok bool) {
	h, has := interface{}(a).(interface {
		VerifOverlay(geom.Geometry) string
	})
	if !has {
		return "", false
	}
	type out struct{ s string }
	ch := make(chan out, 1)
	go func() {
		defer func() {
			if p := recover(); p != nil {
				ch <- out{fmt.Sprintf("PANIC %v", p)}
			}
		}()
		ch <- out{h.VerifOverlay(b)}
	}()
	select {
	case o := <-ch:
		overlaysDumped++
		return "@" + name + "=" + strings.ReplaceAll(o.s, "\t", " "), true
	case <-time.After(callTimeout):
		timeouts++
		return "@" + name + "=TIMEOUT", true
	}
}

func op2(name string, f func(a, b geom.Geometry) (geom.Geometry, error), a, b geom.Geometry) (string, geom.Geometry, bool) {
	g, err := call(func() (geom.Geometry, error) { return f(a, b) })
	return res(name, g, err), g, err == nil
}

// scaleNode returns a copy of n with every X and Y multiplied by 2^k (exact in float64).
func scaleNode(n *lib.Node, k int) *lib.Node {
	m := &lib.Node{Kind: n.Kind, CT: n.CT, Full: n.Full}
	for _, c := range n.C {
		m.C = append(m.C, [4]float64{math.Ldexp(c[0], k), math.Ldexp(c[1], k), c[2], c[3]})
	}
	for _, kid := range n.Kids {
		m.Kids = append(m.Kids, scaleNode(kid, k))
	}
	return m
}

// scaleExp picks the exponent of the exact rescaling class: 2^-k for k in 10..60, 2^+k for k in 1..40.
func scaleExp(r *lib.Rng) int {
	if r.Chance(2, 3) {
		return -r.Range(10, 60)
	}
	return r.Range(1, 40)
}

func envEq(e, f geom.Envelope) bool {
	emin, emax, eok := e.MinMaxXYs()
	fmin, fmax, fok := f.MinMaxXYs()
	if !eok || !fok {
		return eok == fok
	}
	return emin == fmin && emax == fmax
}

// pairFields runs every observed call on the pair (a, b).
func pairFields(i int, class, kinds string, ga, gb geom.Geometry) []string {
	fields := []string{fmt.Sprintf("%d", i), "P", class, kinds, lib.Dump(ga), lib.Dump(gb)}
	sU, gU, okU := op2("U", geom.Union, ga, gb)
	sI, gI, okI := op2("I", geom.Intersection, ga, gb)
	sD, gD, okD := op2("D", geom.Difference, ga, gb)
	sS, _, _ := op2("S", geom.SymmetricDifference, ga, gb)
	env := "na"
	if okU {
		if envEq(gU.Envelope(), ga.Envelope().ExpandToIncludeEnvelope(gb.Envelope())) {
			env = "eq"
		} else {
			env = "ne"
		}
	}
	fields = append(fields, env, sU, sI, sD, sS)
	ua, err := call(func() (geom.Geometry, error) { return geom.UnaryUnion(ga) })
	fields = append(fields, res("UA", ua, err))
	ub, err := call(func() (geom.Geometry, error) { return geom.UnaryUnion(gb) })
	fields = append(fields, res("UB", ub, err))
	s, _, _ := op2("Ur", geom.Union, gb, ga)
	fields = append(fields, s)
	s, _, _ = op2("Ir", geom.Intersection, gb, ga)
	fields = append(fields, s)
	s, _, _ = op2("Sr", geom.SymmetricDifference, gb, ga)
	fields = append(fields, s)
	s, _, _ = op2("Uaa", geom.Union, ga, ga)
	fields = append(fields, s)
	s, _, _ = op2("Iaa", geom.Intersection, ga, ga)
	fields = append(fields, s)
	s, _, _ = op2("Daa", geom.Difference, ga, ga)
	fields = append(fields, s)
	s, _, _ = op2("Saa", geom.SymmetricDifference, ga, ga)
	fields = append(fields, s)
	if okD && okI {
		s, _, _ = op2("PT", geom.Union, gD, gI)
		fields = append(fields, s)
	}
	for _, o := range []struct {
		n    string
		x, y geom.Geometry
	}{{"OV", ga, gb}, {"OVA", ga, geom.Geometry{}}, {"OVB", gb, geom.Geometry{}}} {
		if f, ok := overlayDump(o.n, o.x, o.y); ok {
			fields = append(fields, f)
		}
	}
	return fields
}

func main() {
	a := lib.ParseArgs()
	w, done := a.Output()
	defer done()
	root := lib.NewRng(a.Seed)
	var st genStats
	classes := map[string]int{}
	pairKinds := map[string]int{}
	listLens := map[int]int{}
	scaleHist := map[int]int{}
	pencilCount, pencilLists := 0, 0
	pencilSizes := map[int]int{}
	for i := 0; i < a.N && timeouts < maxTimeouts; i++ {
		r := root.Fork()
		general := i%10 == 7 || i%20 == 19
		class := "even45"
		if general {
			class = "general"
		}
		g := newGrid(r, general)
		if i%100 == 13 || (a.Tier == "thorough" && i%20 == 13) {
			// ---------------- general-position float64 pair
			fg := newFgen(r)
			ka, kb := r.Intn(7), r.Intn(7)
			ga, gb := fg.operand(ka).Build(), fg.operand(kb).Build()
			classes["pair_float"]++
			pairKinds["float:"+kindNames[ka]+"x"+kindNames[kb]]++
			fmt.Fprintln(w, strings.Join(pairFields(i, "float", kindNames[ka]+"x"+kindNames[kb], ga, gb), "\t"))
			continue
		}
		if i%10 == 5 || i%30 == 9 {
			// ---------------- pencil: 3..6 segments of integer operands through one non-vertex point
			sc := 0
			if r.Chance(1, 5) {
				sc = scaleExp(r)
			}
			cclass := ""
			note := func(g *pencilGen, cnt, size int) {
				cclass = "pencil"
				if !pencilFull(cnt, size, a.Tier == "thorough", i%30 == 9) {
					cclass = "pencilx"
				}
				classes[cclass+"_cases"]++
				if sc != 0 {
					cclass = fmt.Sprintf("%s@%d", cclass, sc)
				}
				pencilSizes[size/50]++
				classes["pencil_q"+fmt.Sprint(g.q)]++
				classes[fmt.Sprintf("pencil_m%d", len(g.segs))]++
				if g.found {
					classes["pencil_relation_found_by_search"]++
				}
				for k := range g.rel {
					classes["pencil_rel_"+k]++
				}
				if len(g.rel) == 0 {
					classes["pencil_rel_one_bucket"]++
				}
			}
			if i%30 == 9 {
				ms, g, size := pencilList(r, pencilLists, a.Tier == "thorough")
				note(g, pencilLists, size)
				pencilLists++
				gs := make([]geom.Geometry, len(ms))
				fields := []string{fmt.Sprintf("%d", i), "N", cclass, fmt.Sprintf("%d", len(ms))}
				for j, m := range ms {
					if sc != 0 {
						m = scaleNode(m, sc)
					}
					gs[j] = m.Build()
					fields = append(fields, lib.Dump(gs[j]))
				}
				m, err := call(func() (geom.Geometry, error) { return geom.UnionMany(gs) })
				fields = append(fields, res("M", m, err))
				if f, ok := overlayDump("OVM", geom.NewGeometryCollection(gs).AsGeometry(), geom.Geometry{}); ok {
					fields = append(fields, f)
				}
				classes["many_pencil"]++
				fmt.Fprintln(w, strings.Join(fields, "\t"))
				continue
			}
			na, nb, ka, kb, g, size := pencilPair(r, pencilCount, a.Tier == "thorough")
			note(g, pencilCount, size)
			pencilCount++
			if sc != 0 {
				na, nb = scaleNode(na, sc), scaleNode(nb, sc)
			}
			classes["pair_pencil"]++
			pairKinds["pencil:"+kindNames[ka]+"x"+kindNames[kb]]++
			fmt.Fprintln(w, strings.Join(pairFields(i, cclass, kindNames[ka]+"x"+kindNames[kb]+fmt.Sprintf("#%d,%s", size, g.describe()), na.Build(), nb.Build()), "\t"))
			continue
		}
		if i%5 == 4 {
			// ---------------- UnionMany / UnaryUnion
			k := r.Range(0, 6)
			listLens[k]++
			// one list in three is rescaled exactly by a power of two (the same for all members)
			sc := 0
			if i%15 == 4 {
				sc = scaleExp(r)
				class = fmt.Sprintf("%s@%d", class, sc)
				classes["many_scaled"]++
			}
			classes["many_"+strings.SplitN(class, "@", 2)[0]]++
			fields := []string{fmt.Sprintf("%d", i), "N", class, fmt.Sprintf("%d", k)}
			gs := make([]geom.Geometry, k)
			for j := 0; j < k; j++ {
				kind := r.Intn(8)
				if kind == 7 && !r.Chance(1, 3) {
					kind = r.Intn(7)
				}
				n := g.genOperand(r, kind, &st)
				if sc != 0 {
					n = scaleNode(n, sc)
				}
				gs[j] = n.Build()
				fields = append(fields, lib.Dump(gs[j]))
			}
			m, err := call(func() (geom.Geometry, error) { return geom.UnionMany(gs) })
			fields = append(fields, res("M", m, err))
			if f, ok := overlayDump("OVM", geom.NewGeometryCollection(gs).AsGeometry(), geom.Geometry{}); ok {
				fields = append(fields, f)
			}
			if k == 1 {
				u, err := call(func() (geom.Geometry, error) { return geom.UnaryUnion(gs[0]) })
				fields = append(fields, res("UU", u, err))
			}
			fmt.Fprintln(w, strings.Join(fields, "\t"))
			continue
		}
		// ---------------- pairs: the kind pair walks through all 8 x 8 combinations
		pi := i - i/5 - 1
		if pi < 0 {
			pi = 0
		}
		ka, kb := (pi/8)%8, pi%8
		if r.Chance(1, 4) {
			ka, kb = r.Intn(8), r.Intn(8)
		}
		// empties are one class in eight: thin them out a little, keep every combination
		if ka == 7 && kb == 7 && !r.Chance(1, 2) {
			ka = r.Intn(7)
		}
		na := g.genOperand(r, ka, &st)
		nb := g.genOperand(r, kb, &st)
		if r.Chance(1, 12) {
			nb = na // identical operands
		}
		// one pair in five is rescaled exactly by a power of two (the same for both operands): the
		// driver divides it out and judges the result against the lattice operands
		if pi%5 == 1 {
			sc := scaleExp(r)
			na, nb = scaleNode(na, sc), scaleNode(nb, sc)
			classes["pair_scaled"]++
			scaleHist[sc/10]++
			class = fmt.Sprintf("%s@%d", class, sc)
		}
		ga, gb := na.Build(), nb.Build()
		classes["pair_"+strings.SplitN(class, "@", 2)[0]]++
		pairKinds[kindNames[ka]+"x"+kindNames[kb]]++
		fields := pairFields(i, class, kindNames[ka]+"x"+kindNames[kb], ga, gb)
		fmt.Fprintln(w, strings.Join(fields, "\t"))
	}
	stats := map[string]interface{}{"classes": classes, "pair_kinds": pairKinds, "list_lengths": listLens, "generator": st.m, "overlays_dumped_through_hook": overlaysDumped, "scale_exponent_decades": scaleHist, "pencil_size_estimate_div50": pencilSizes}
	js, _ := json.Marshal(stats)
	fmt.Fprintf(w, "#GEN\t%s\n", js)
}
