// Command c02 exercises Relate, RelateMatches and the nine named DE-9IM predicates of the
// implementation (property C02) and prints the observations the Gallina model is compared against.
//
// Line kinds (tab separated, id first):
//
//	<id> MX <pattern> <4^9 chars>           RelateMatches(matrix_k, pattern) for ALL 4^9 matrices, k in
//	                                         base-4 order (digit 0..3 = F,0,1,2; first entry most significant)
//	<id> MS <hex mat> <hex pat> <r>         RelateMatches on arbitrary byte strings (r = 1 | 0 | e)
//	<id> PR <class> <A> <B> <relAB> <relBA> <predsAB> <predsBA> <validA><validB> <rel0> <preds0> <overlay> <scaleExp> <Intersects(a,b)Intersects(b,a)>
//	                                         a generated ordered pair: geometries in the exact rational dump
//	                                         (see dumpGeom), Relate both ways, the nine predicates both ways
//	                                         in the order Equals Disjoint Touches Contains Covers Within
//	                                         CoveredBy Crosses Overlaps (1 | 0 | e error | p panic); rel0/preds0: the
//	                                         same for the pair without the added empty collection member ("-" if none);
//	                                         then the labelled overlay behind Relate(a,b) ("-" without the hook) and the
//	                                         exponent s: the implementation was run on A*2^s, B*2^s (exactly), the dump is A, B
package main

import (
	"encoding/hex"
	"encoding/json"
	"fmt"
	"math"
	"math/big"
	"sort"
	"strings"

	"github.com/peterstace/simplefeatures/geom"
	"verifharness/lib"
)

// ---------------------------------------------------------------------------- exact dump

func rat(f float64) string {
	if f == math.Trunc(f) && math.Abs(f) < 1e15 {
		return fmt.Sprintf("%d", int64(f))
	}
	r := new(big.Rat).SetFloat64(f)
	if r == nil {
		return "nan"
	}
	return r.Num().String() + "/" + r.Denom().String()
}

func dumpSeq(sb *strings.Builder, s geom.Sequence) {
	fmt.Fprintf(sb, "%d", s.Length())
	for i := 0; i < s.Length(); i++ {
		xy := s.GetXY(i)
		sb.WriteString(" " + rat(xy.X) + " " + rat(xy.Y))
	}
}

func dumpPointBody(sb *strings.Builder, p geom.Point) {
	xy, ok := p.XY()
	if !ok {
		sb.WriteString("E")
		return
	}
	sb.WriteString(rat(xy.X) + " " + rat(xy.Y))
}

func dumpPolyBody(sb *strings.Builder, p geom.Polygon) {
	rings := p.DumpRings()
	fmt.Fprintf(sb, "%d", len(rings))
	for _, r := range rings {
		sb.WriteString(" ")
		dumpSeq(sb, r.Coordinates())
	}
}

func dumpGeom(sb *strings.Builder, g geom.Geometry) {
	switch g.Type() {
	case geom.TypePoint:
		sb.WriteString("P ")
		dumpPointBody(sb, g.MustAsPoint())
	case geom.TypeLineString:
		sb.WriteString("L ")
		dumpSeq(sb, g.MustAsLineString().Coordinates())
	case geom.TypePolygon:
		sb.WriteString("Y ")
		dumpPolyBody(sb, g.MustAsPolygon())
	case geom.TypeMultiPoint:
		mp := g.MustAsMultiPoint()
		fmt.Fprintf(sb, "MP %d", mp.NumPoints())
		for i := 0; i < mp.NumPoints(); i++ {
			sb.WriteString(" ")
			dumpPointBody(sb, mp.PointN(i))
		}
	case geom.TypeMultiLineString:
		ml := g.MustAsMultiLineString()
		fmt.Fprintf(sb, "ML %d", ml.NumLineStrings())
		for i := 0; i < ml.NumLineStrings(); i++ {
			sb.WriteString(" ")
			dumpSeq(sb, ml.LineStringN(i).Coordinates())
		}
	case geom.TypeMultiPolygon:
		my := g.MustAsMultiPolygon()
		fmt.Fprintf(sb, "MY %d", my.NumPolygons())
		for i := 0; i < my.NumPolygons(); i++ {
			sb.WriteString(" ")
			dumpPolyBody(sb, my.PolygonN(i))
		}
	case geom.TypeGeometryCollection:
		gc := g.MustAsGeometryCollection()
		fmt.Fprintf(sb, "GC %d", gc.NumGeometries())
		for i := 0; i < gc.NumGeometries(); i++ {
			sb.WriteString(" ")
			dumpGeom(sb, gc.GeometryN(i))
		}
	}
}

func dump(g geom.Geometry) string {
	var sb strings.Builder
	dumpGeom(&sb, g)
	return sb.String()
}

// ---------------------------------------------------------------------------- generator

type gen struct {
	r    *lib.Rng
	g    int          // grid side: ordinates in 0..g
	pool [][2]float64 // vertices of the other operand (and midpoints) to be re-used
	x0   int          // x band [x0,x1] for members of band-separated collections
	x1   int
}

func (c *gen) xy() (float64, float64) {
	if len(c.pool) > 0 && c.r.Chance(2, 5) {
		p := c.pool[c.r.Intn(len(c.pool))]
		if p[0] >= float64(c.x0) && p[0] <= float64(c.x1) {
			return p[0], p[1]
		}
	}
	return float64(c.r.Range(c.x0, c.x1)), float64(c.r.Range(0, c.g))
}

func (c *gen) point() geom.Point {
	x, y := c.xy()
	return geom.NewPointXY(x, y)
}

func lineOf(xys []float64) geom.LineString {
	return geom.NewLineString(geom.NewSequence(xys, geom.DimXY))
}

func (c *gen) line() geom.LineString {
	for try := 0; try < 20; try++ {
		n := c.r.Range(2, 5)
		var xys []float64
		for len(xys) < 2*n {
			x, y := c.xy()
			if k := len(xys); k >= 2 && xys[k-2] == x && xys[k-1] == y {
				continue
			}
			if c.r.Chance(1, 3) && len(xys) >= 2 {
				// axis-aligned or diagonal continuation: raises the chance of collinear overlaps
				k := len(xys)
				switch c.r.Intn(3) {
				case 0:
					x = xys[k-2]
				case 1:
					y = xys[k-1]
				default:
					d := x - xys[k-2]
					y = xys[k-1] + d
				}
				if y < 0 || y > float64(c.g) || (x == xys[k-2] && y == xys[k-1]) {
					continue
				}
			}
			xys = append(xys, x, y)
		}
		if c.r.Chance(1, 5) && n >= 3 {
			xys = append(xys, xys[0], xys[1]) // closed line string
		}
		ls := lineOf(xys)
		if ls.Validate() == nil {
			return ls
		}
	}
	return lineOf([]float64{float64(c.x0), 0, float64(c.x1), float64(c.g)})
}

func ringPoly(rings ...[]float64) geom.Polygon {
	var ls []geom.LineString
	for _, r := range rings {
		ls = append(ls, lineOf(r))
	}
	return geom.NewPolygon(ls)
}

func (c *gen) rect() []float64 {
	for {
		xa, xb := c.r.Range(c.x0, c.x1), c.r.Range(c.x0, c.x1)
		ya, yb := c.r.Range(0, c.g), c.r.Range(0, c.g)
		if xa == xb || ya == yb {
			continue
		}
		if xa > xb {
			xa, xb = xb, xa
		}
		if ya > yb {
			ya, yb = yb, ya
		}
		a, b, d, e := float64(xa), float64(ya), float64(xb), float64(yb)
		return []float64{a, b, d, b, d, e, a, e, a, b}
	}
}

func (c *gen) polygon() geom.Polygon {
	for try := 0; try < 30; try++ {
		var p geom.Polygon
		switch c.r.Intn(6) {
		case 0:
			p = ringPoly(c.rect())
		case 1: // triangle
			x1, y1 := c.xy()
			x2, y2 := c.xy()
			x3, y3 := c.xy()
			p = ringPoly([]float64{x1, y1, x2, y2, x3, y3, x1, y1})
		case 2: // staircase (histogram) polygon
			w := c.x1 - c.x0
			if w < 2 {
				continue
			}
			n := c.r.Range(2, w)
			off := c.r.Range(c.x0, c.x1-n)
			base := c.r.Range(0, c.g-1)
			hs := make([]int, n)
			for i := range hs {
				hs[i] = c.r.Range(base+1, c.g)
			}
			xys := []float64{float64(off), float64(base), float64(off + n), float64(base)}
			for i := n - 1; i >= 0; i-- {
				xys = append(xys, float64(off+i+1), float64(hs[i]), float64(off+i), float64(hs[i]))
			}
			xys = append(xys, float64(off), float64(base))
			// drop consecutive duplicates
			out := xys[:2]
			for i := 2; i < len(xys); i += 2 {
				if xys[i] != out[len(out)-2] || xys[i+1] != out[len(out)-1] {
					out = append(out, xys[i], xys[i+1])
				}
			}
			p = ringPoly(out)
		case 3: // quadrilateral ordered around its centroid
			pts := make([][2]float64, 4)
			var cx, cy float64
			for i := range pts {
				x, y := c.xy()
				pts[i] = [2]float64{x, y}
				cx += x / 4
				cy += y / 4
			}
			sort.Slice(pts, func(i, j int) bool {
				return math.Atan2(pts[i][1]-cy, pts[i][0]-cx) < math.Atan2(pts[j][1]-cy, pts[j][0]-cx)
			})
			xys := []float64{}
			for _, q := range pts {
				xys = append(xys, q[0], q[1])
			}
			xys = append(xys, pts[0][0], pts[0][1])
			p = ringPoly(xys)
		default: // rectangle with a hole (rectangle or triangle; may touch the shell in a point)
			if c.x1-c.x0 < 3 || c.g < 3 {
				continue
			}
			xa := c.r.Range(c.x0, c.x1-3)
			xb := c.r.Range(xa+3, c.x1)
			ya := c.r.Range(0, c.g-3)
			yb := c.r.Range(ya+3, c.g)
			shell := []float64{float64(xa), float64(ya), float64(xb), float64(ya), float64(xb), float64(yb), float64(xa), float64(yb), float64(xa), float64(ya)}
			sub := gen{r: c.r, g: c.g, x0: xa, x1: xb}
			var hole []float64
			if c.r.Bool() {
				hx0, hx1 := c.r.Range(xa+1, xb-2), 0
				hx1 = c.r.Range(hx0+1, xb-1)
				hy0 := c.r.Range(ya+1, yb-2)
				hy1 := c.r.Range(hy0+1, yb-1)
				hole = []float64{float64(hx0), float64(hy0), float64(hx0), float64(hy1), float64(hx1), float64(hy1), float64(hx1), float64(hy0), float64(hx0), float64(hy0)}
			} else {
				x1, y1 := float64(sub.r.Range(xa, xb)), float64(sub.r.Range(ya, yb)) // may lie on the shell
				x2, y2 := float64(sub.r.Range(xa+1, xb-1)), float64(sub.r.Range(ya+1, yb-1))
				x3, y3 := float64(sub.r.Range(xa+1, xb-1)), float64(sub.r.Range(ya+1, yb-1))
				hole = []float64{x1, y1, x2, y2, x3, y3, x1, y1}
			}
			p = ringPoly(shell, hole)
		}
		if p.Validate() == nil && !p.IsEmpty() {
			if c.r.Chance(1, 3) {
				p = p.ForceCW()
			}
			return p
		}
	}
	return ringPoly([]float64{float64(c.x0), 0, float64(c.x1), 0, float64(c.x1), float64(c.g), float64(c.x0), float64(c.g), float64(c.x0), 0})
}

func (c *gen) multiPoint() geom.MultiPoint {
	n := c.r.Range(1, 4)
	var pts []geom.Point
	for i := 0; i < n; i++ {
		if c.r.Chance(1, 8) {
			pts = append(pts, geom.NewEmptyPoint(geom.DimXY))
		} else {
			pts = append(pts, c.point())
		}
	}
	return geom.NewMultiPoint(pts)
}

func (c *gen) multiLine() geom.MultiLineString {
	n := c.r.Range(1, 3)
	var ls []geom.LineString
	for i := 0; i < n; i++ {
		if c.r.Chance(1, 10) {
			ls = append(ls, geom.LineString{})
			continue
		}
		l := c.line()
		ls = append(ls, l)
		// later members like to start at an end point of an earlier one (mod-2 rule)
		c.pool = append(c.pool, [2]float64{l.Coordinates().GetXY(0).X, l.Coordinates().GetXY(0).Y})
		e := l.Coordinates().GetXY(l.Coordinates().Length() - 1)
		c.pool = append(c.pool, [2]float64{e.X, e.Y})
	}
	return geom.NewMultiLineString(ls)
}

func (c *gen) multiPolygon() geom.MultiPolygon {
	for try := 0; try < 12; try++ {
		n := c.r.Range(1, 3)
		var ps []geom.Polygon
		for i := 0; i < n; i++ {
			if c.r.Chance(1, 10) {
				ps = append(ps, geom.Polygon{})
				continue
			}
			p := c.polygon()
			ps = append(ps, p)
			seq := p.ExteriorRing().Coordinates()
			for j := 0; j < seq.Length(); j++ {
				c.pool = append(c.pool, [2]float64{seq.GetXY(j).X, seq.GetXY(j).Y})
			}
		}
		mp := geom.NewMultiPolygon(ps)
		if mp.Validate() == nil {
			return mp
		}
	}
	return geom.NewMultiPolygon([]geom.Polygon{c.polygon()})
}

func emptyOf(k int) geom.Geometry {
	switch k {
	case 0:
		return geom.NewEmptyPoint(geom.DimXY).AsGeometry()
	case 1:
		return geom.LineString{}.AsGeometry()
	case 2:
		return geom.Polygon{}.AsGeometry()
	case 3:
		return geom.MultiPoint{}.AsGeometry()
	case 4:
		return geom.MultiLineString{}.AsGeometry()
	case 5:
		return geom.MultiPolygon{}.AsGeometry()
	default:
		return geom.GeometryCollection{}.AsGeometry()
	}
}

// kind: 0 Point 1 LineString 2 Polygon 3 MultiPoint 4 MultiLineString 5 MultiPolygon 6 GeometryCollection
func (c *gen) geometry(kind int, depth int) geom.Geometry {
	switch kind {
	case 0:
		return c.point().AsGeometry()
	case 1:
		return c.line().AsGeometry()
	case 2:
		return c.polygon().AsGeometry()
	case 3:
		return c.multiPoint().AsGeometry()
	case 4:
		return c.multiLine().AsGeometry()
	case 5:
		return c.multiPolygon().AsGeometry()
	}
	// collection: members in separate x bands (pairwise disjoint by construction) or anywhere
	n := c.r.Range(1, 3)
	banded := c.r.Chance(2, 3)
	var gs []geom.Geometry
	w := c.x1 - c.x0 + 1
	for i := 0; i < n; i++ {
		if c.r.Chance(1, 6) {
			gs = append(gs, emptyOf(c.r.Intn(7)))
			continue
		}
		sub := gen{r: c.r, g: c.g, pool: c.pool, x0: c.x0, x1: c.x1}
		if banded && n > 1 && w >= 3*n-1 {
			bw := (w + 1) / n // band i occupies [x0 + i*bw, x0 + (i+1)*bw - 2]: a gap of one column between bands
			sub.x0 = c.x0 + i*bw
			sub.x1 = sub.x0 + bw - 2
			if sub.x1 > c.x1 {
				sub.x1 = c.x1
			}
		}
		k := c.r.Intn(6)
		if depth < 2 && c.r.Chance(1, 8) {
			k = 6
		}
		if sub.x1-sub.x0 < 1 && (k == 2 || k == 5) {
			k = 1
		}
		if sub.x1 <= sub.x0 {
			k = c.r.Intn(2) * 3 // a band of width 0: points only
			sub.x1 = sub.x0
		}
		gs = append(gs, sub.geometry(k, depth+1))
	}
	return geom.NewGeometryCollection(gs).AsGeometry()
}

func poolOf(g geom.Geometry) [][2]float64 {
	var out [][2]float64
	var prev geom.XY
	first := true
	var walk func(g geom.Geometry)
	addSeq := func(s geom.Sequence) {
		first = true
		for i := 0; i < s.Length(); i++ {
			xy := s.GetXY(i)
			out = append(out, [2]float64{xy.X, xy.Y})
			if !first {
				out = append(out, [2]float64{(xy.X + prev.X) / 2, (xy.Y + prev.Y) / 2})
			}
			prev, first = xy, false
		}
	}
	walk = func(g geom.Geometry) {
		switch g.Type() {
		case geom.TypePoint:
			if xy, ok := g.MustAsPoint().XY(); ok {
				out = append(out, [2]float64{xy.X, xy.Y})
			}
		case geom.TypeLineString:
			addSeq(g.MustAsLineString().Coordinates())
		case geom.TypePolygon:
			for _, r := range g.MustAsPolygon().DumpRings() {
				addSeq(r.Coordinates())
			}
		case geom.TypeMultiPoint:
			mp := g.MustAsMultiPoint()
			for i := 0; i < mp.NumPoints(); i++ {
				walk(mp.PointN(i).AsGeometry())
			}
		case geom.TypeMultiLineString:
			ml := g.MustAsMultiLineString()
			for i := 0; i < ml.NumLineStrings(); i++ {
				walk(ml.LineStringN(i).AsGeometry())
			}
		case geom.TypeMultiPolygon:
			my := g.MustAsMultiPolygon()
			for i := 0; i < my.NumPolygons(); i++ {
				walk(my.PolygonN(i).AsGeometry())
			}
		case geom.TypeGeometryCollection:
			gc := g.MustAsGeometryCollection()
			for i := 0; i < gc.NumGeometries(); i++ {
				walk(gc.GeometryN(i))
			}
		}
	}
	walk(g)
	return out
}

// derived: a geometry made from pieces of a (sub-line of a ring or line, a vertex, a midpoint, a itself reversed)
func (c *gen) derived(a geom.Geometry, kind int) (geom.Geometry, bool) {
	pool := poolOf(a)
	if len(pool) == 0 {
		return geom.Geometry{}, false
	}
	switch kind {
	case 0:
		p := pool[c.r.Intn(len(pool))]
		return geom.NewPointXY(p[0], p[1]).AsGeometry(), true
	case 3:
		n := c.r.Range(1, 3)
		var pts []geom.Point
		for i := 0; i < n; i++ {
			p := pool[c.r.Intn(len(pool))]
			pts = append(pts, geom.NewPointXY(p[0], p[1]))
		}
		return geom.NewMultiPoint(pts).AsGeometry(), true
	case 1, 4:
		// consecutive pool entries are consecutive vertices/midpoints of a ring or line of a
		i := c.r.Intn(len(pool))
		n := c.r.Range(2, 5)
		var xys []float64
		for j := i; j < len(pool) && len(xys) < 2*n; j++ {
			if k := len(xys); k >= 2 && xys[k-2] == pool[j][0] && xys[k-1] == pool[j][1] {
				continue
			}
			xys = append(xys, pool[j][0], pool[j][1])
		}
		if len(xys) < 4 {
			return geom.Geometry{}, false
		}
		ls := lineOf(xys)
		if ls.Validate() != nil {
			return geom.Geometry{}, false
		}
		if kind == 4 {
			return geom.NewMultiLineString([]geom.LineString{ls}).AsGeometry(), true
		}
		return ls.AsGeometry(), true
	}
	if a.Type() == geom.GeometryType(kindToType(kind)) || c.r.Bool() {
		if c.r.Bool() {
			return a.Reverse(), true
		}
		return a, true
	}
	return geom.Geometry{}, false
}

func kindToType(k int) geom.GeometryType {
	return []geom.GeometryType{geom.TypePoint, geom.TypeLineString, geom.TypePolygon, geom.TypeMultiPoint,
		geom.TypeMultiLineString, geom.TypeMultiPolygon, geom.TypeGeometryCollection}[k]
}

// ---------------------------------------------------------------------------- observations

// overlayDump exports the labelled overlay behind Relate(a,b) through the optional hook
// geom/verif_hooks_relate.go (build tag verif); "-" without the hook, for an empty operand or on panic.
var overlaysDumped int

func overlayDump(a, b geom.Geometry) (s string) {
	s = "-"
	if a.IsEmpty() || b.IsEmpty() {
		return
	}
	h, ok := interface{}(a).(interface {
		VerifRelateOverlay(geom.Geometry) string
	})
	if !ok {
		return
	}
	defer func() {
		if recover() != nil {
			s = "-"
		}
	}()
	s = h.VerifRelateOverlay(b)
	overlaysDumped++
	return
}

func relate(a, b geom.Geometry) (s string) {
	defer func() {
		if recover() != nil {
			s = "PANIC"
		}
	}()
	m, err := geom.Relate(a, b)
	if err != nil {
		return "ERR"
	}
	return m
}

var predFns = []func(a, b geom.Geometry) (bool, error){
	geom.Equals, geom.Disjoint, geom.Touches, geom.Contains, geom.Covers, geom.Within, geom.CoveredBy, geom.Crosses, geom.Overlaps,
}

func preds(a, b geom.Geometry) string {
	out := make([]byte, len(predFns))
	for i, f := range predFns {
		func() {
			defer func() {
				if recover() != nil {
					out[i] = 'p'
				}
			}()
			v, err := f(a, b)
			switch {
			case err != nil:
				out[i] = 'e'
			case v:
				out[i] = '1'
			default:
				out[i] = '0'
			}
		}()
	}
	return string(out)
}

func matches(m, p string) byte {
	v, err := geom.RelateMatches(m, p)
	switch {
	case err != nil:
		return 'e'
	case v:
		return '1'
	}
	return '0'
}

// the patterns used by the named predicates (alg_relate.go) plus a few that use every pattern letter
var patterns = []string{
	"T*F**FFF*", "FF*FF****", "FT*******", "F**T*****", "F***T****", "T*****FF*", "*T****FF*", "***T**FF*",
	"****T*FF*", "T*F**F***", "*TF**F***", "**FT*F***", "**F*TF***", "T*T******", "T*****T**", "0********",
	"T*T***T**", "1*T***T**", "*********", "FFFFFFFFF", "012F*T012", "2T1*0F2T1", "TTTTTTTTT", "21F0T*12F",
}

func main() {
	a := lib.ParseArgs()
	w, done := a.Output()
	defer done()
	root := lib.NewRng(a.Seed)
	id := 0
	next := func() int { id++; return id }

	// ---- matcher, exhaustively over all 4^9 matrices
	chars := []byte{'F', '0', '1', '2'}
	const total = 262144
	mats := make([]string, total)
	for k := 0; k < total; k++ {
		var m [9]byte
		v := k
		for i := 8; i >= 0; i-- {
			m[i] = chars[v&3]
			v >>= 2
		}
		mats[k] = string(m[:])
	}
	for _, p := range patterns {
		buf := make([]byte, total)
		for k := 0; k < total; k++ {
			buf[k] = matches(mats[k], p)
		}
		fmt.Fprintf(w, "%d\tMX\t%s\t%s\n", next(), p, buf)
	}
	// ---- matcher on arbitrary strings (length and character-set errors, first offending position)
	alpha := []byte("F012T*F012T*xf3 \x00\xc3\xa9")
	rs := root.Fork()
	nStr := 600
	for i := 0; i < nStr; i++ {
		mk := func(valid []byte) string {
			n := 9
			if rs.Chance(1, 5) {
				n = rs.Range(0, 12)
			}
			b := make([]byte, n)
			for j := range b {
				if rs.Chance(1, 9) {
					b[j] = alpha[rs.Intn(len(alpha))]
				} else {
					b[j] = valid[rs.Intn(len(valid))]
				}
			}
			return string(b)
		}
		m := mk([]byte("F012"))
		p := mk([]byte("F012T**T"))
		if rs.Chance(1, 2) && len(m) == 9 && len(p) == 9 {
			// make the pattern match up to a random position
			pb := []byte(p)
			for j := 0; j < rs.Range(0, 9); j++ {
				if m[j] == 'F' || m[j] == '0' || m[j] == '1' || m[j] == '2' {
					pb[j] = '*'
				}
			}
			p = string(pb)
		}
		fmt.Fprintf(w, "%d\tMS\t%s\t%s\t%c\n", next(), hex.EncodeToString([]byte(m)), hex.EncodeToString([]byte(p)), matches(m, p))
	}

	// ---- generated ordered pairs
	classes := map[string]int{}
	kinds := map[string]int{}
	grids := map[int]int{}
	xformed := 0
	pow2Scaled := 0
	names := []string{"P", "L", "Y", "MP", "ML", "MY", "GC"}
	for i := 0; i < a.N; i++ {
		r := root.Fork()
		ka, kb := i%7, (i/7)%7
		g := r.Range(3, 5)
		if ka == 6 || kb == 6 {
			g = r.Range(5, 8)
		}
		ga := gen{r: r, g: g, x0: 0, x1: g}
		var A, B, A0, B0 geom.Geometry
		hasBase := false
		class := "indep"
		mode := r.Intn(10)
		switch {
		case mode == 0:
			A = emptyOf(ka)
			class = "emptyA"
		default:
			A = ga.geometry(ka, 0)
		}
		gb := gen{r: r, g: g, x0: 0, x1: g, pool: poolOf(A)}
		switch {
		case mode == 1:
			B = emptyOf(kb)
			class = "emptyB"
		case mode == 2 || mode == 3:
			var ok bool
			B, ok = gb.derived(A, kb)
			class = "derived"
			if !ok {
				B = gb.geometry(kb, 0)
				class = "shared"
			}
		case mode == 4:
			// empty member of higher dimension next to A (F8): B plain
			A0 = A
			A = geom.NewGeometryCollection([]geom.Geometry{A, emptyOf(r.Intn(7))}).AsGeometry()
			if r.Chance(1, 3) {
				A = geom.NewGeometryCollection([]geom.Geometry{emptyOf(r.Intn(7)), A0}).AsGeometry()
			}
			B = gb.geometry(kb, 0)
			B0 = B
			hasBase = true
			class = "emptymember"
		case mode <= 7:
			B = gb.geometry(kb, 0)
			if mode != 0 {
				class = "shared"
			}
		default:
			gb.pool = nil
			B = gb.geometry(kb, 0)
		}
		if i%16 == 15 {
			A, B = multiNested(r)
			A0, B0, hasBase = geom.Geometry{}, geom.Geometry{}, false
			class = "multi_nested"
		}
		if r.Chance(1, 2) {
			A, B = B, A
			A0, B0 = B0, A0
		}

		// a quarter of the pairs is moved to another place and scale of the lattice |c| <= 2^10 (both
		// operands by the same positive affine map: validity and the DE-9IM matrix are unchanged,
		// intersection points become non-representable thirds, sevenths, ...)
		if r.Chance(1, 4) {
			sxs := []float64{1, 2, 3, 7, 50, 113}
			sx, sy := sxs[r.Intn(len(sxs))], sxs[r.Intn(len(sxs))]
			tx, ty := float64(r.Range(-100, 100)), float64(r.Range(-100, 100))
			if r.Bool() {
				sx, tx = -sx, -tx // reflection in x together with ...
				sy, ty = -sy, -ty // ... reflection in y: a rotation by 180 degrees (orientation preserved)
			}
			f := func(xy geom.XY) geom.XY { return geom.XY{X: sx*xy.X + tx, Y: sy*xy.Y + ty} }
			A, B = A.TransformXY(f), B.TransformXY(f)
			if hasBase {
				A0, B0 = A0.TransformXY(f), B0.TransformXY(f)
			}
			xformed++
		}
		// a fifth of the pairs is rescaled EXACTLY by a power of two (2^-60..2^-10 or 2^1..2^40, both operands
		// alike): every float operation of the engine commutes with it, so the matrix must be that of the
		// lattice pair. The lattice pair is what gets dumped (AL, BL); the implementation sees the scaled one.
		AL, BL := A, B
		scaleExp := 0
		if r.Chance(1, 5) {
			e := r.Range(1, 40)
			if r.Chance(2, 3) {
				e = -r.Range(10, 60)
			}
			f := math.Ldexp(1, e)
			sc := func(xy geom.XY) geom.XY { return geom.XY{X: xy.X * f, Y: xy.Y * f} }
			back := func(xy geom.XY) geom.XY { return geom.XY{X: xy.X / f, Y: xy.Y / f} }
			SA, SB := A.TransformXY(sc), B.TransformXY(sc)
			if dump(SA.TransformXY(back)) == dump(A) && dump(SB.TransformXY(back)) == dump(B) { // exact both ways
				A, B = SA, SB
				if hasBase {
					A0, B0 = A0.TransformXY(sc), B0.TransformXY(sc)
				}
				scaleExp = e
				pow2Scaled++
			}
		}
		va, vb := 0, 0
		if A.Validate() == nil {
			va = 1
		}
		if B.Validate() == nil {
			vb = 1
		}
		base := "-\t-"
		if hasBase {
			base = relate(A0, B0) + "\t" + preds(A0, B0)
		}
		classes[class]++
		kinds[names[ka]+"x"+names[kb]]++
		grids[g]++
		ov := "-"
		if va == 1 && vb == 1 {
			ov = overlayDump(A, B)
		}
		fmt.Fprintf(w, "%d\tPR\t%s\t%s\t%s\t%s\t%s\t%s\t%s\t%d%d\t%s\t%s\t%d\t%s\n", next(), class, dump(AL), dump(BL),
			relate(A, B), relate(B, A), preds(A, B), preds(B, A), va, vb, base, ov, scaleExp, intersectsObs(A, B))
	}
	js, _ := json.Marshal(map[string]interface{}{"classes": classes, "type_pairs": kinds, "grid_side": grids,
		"affine_moved_pairs": xformed, "pow2_rescaled_pairs": pow2Scaled, "overlays_dumped_through_hook": overlaysDumped, "matcher_patterns": len(patterns), "matcher_matrices": total, "matcher_strings": nStr})
	fmt.Fprintf(w, "#GEN\t%s\n", js)
}
