package main

import (
	"github.com/peterstace/simplefeatures/geom"

	"verifharness/lib"
)

// multi_nested: both operands are areal with SEVERAL members laid out in disjoint cells of a strip;
// no boundary of A meets a boundary of B.  In each cell there is a polygon of A alone, one of B
// alone, both side by side, or (in at most one cell) a polygon of one operand strictly inside a
// polygon of the other (II = 2) or strictly inside a HOLE of a polygon of the other (disjoint).
// The member taking part in the containment is placed at a random position of its operand, biased
// towards the END: a predicate that decides pairs with disjoint boundaries by probing one
// representative point of an operand is wrong exactly when the probed member is not the nested one.
// Operands are Polygons (one member), MultiPolygons or collections of polygons (pairwise disjoint).
func multiNested(r *lib.Rng) (geom.Geometry, geom.Geometry) {
	const W = 12
	rect := func(x0, y0, x1, y1 int) []float64 {
		a, b, d, e := float64(x0), float64(y0), float64(x1), float64(y1)
		if r.Bool() {
			return []float64{a, b, d, b, d, e, a, e, a, b}
		}
		return []float64{d, e, d, b, a, b, a, e, d, e} // other start vertex and direction
	}
	ncell := r.Range(2, 5)
	special := -1
	if !r.Chance(1, 6) {
		special = r.Intn(ncell)
	}
	var as, bs []geom.Polygon
	var aSpec, bSpec *geom.Polygon
	for c := 0; c < ncell; c++ {
		x0 := c * W
		if c != special {
			switch r.Intn(3) {
			case 0:
				as = append(as, ringPoly(rect(x0, 0, x0+r.Range(3, 9), r.Range(3, 9))))
			case 1:
				bs = append(bs, ringPoly(rect(x0, 0, x0+r.Range(3, 9), r.Range(3, 9))))
			default:
				as = append(as, ringPoly(rect(x0, 0, x0+4, r.Range(3, 9))))
				bs = append(bs, ringPoly(rect(x0+6, 0, x0+10, r.Range(3, 9))))
			}
			continue
		}
		var outer, inner geom.Polygon
		if r.Chance(2, 5) { // inner inside a hole of outer: disjoint
			outer = ringPoly(rect(x0, 0, x0+10, 10), rect(x0+2, 2, x0+8, 8))
			inner = ringPoly(rect(x0+3, 3, x0+r.Range(5, 7), r.Range(5, 7)))
		} else {
			outer = ringPoly(rect(x0, 0, x0+r.Range(7, 10), r.Range(7, 10)))
			inner = ringPoly(rect(x0+1, 1, x0+r.Range(3, 5), r.Range(3, 5)))
		}
		if r.Bool() {
			aSpec, bSpec = &outer, &inner
		} else {
			aSpec, bSpec = &inner, &outer
		}
	}
	place := func(ms []geom.Polygon, sp *geom.Polygon) []geom.Polygon {
		for i := len(ms) - 1; i > 0; i-- {
			j := r.Intn(i + 1)
			ms[i], ms[j] = ms[j], ms[i]
		}
		if sp == nil {
			return ms
		}
		pos := len(ms)
		if r.Chance(1, 3) {
			pos = r.Intn(len(ms) + 1)
		}
		out := append([]geom.Polygon{}, ms[:pos]...)
		out = append(out, *sp)
		return append(out, ms[pos:]...)
	}
	as, bs = place(as, aSpec), place(bs, bSpec)
	fx := ncell*W + 2
	if len(as) == 0 {
		as = append(as, ringPoly(rect(fx, 0, fx+2, 2)))
	}
	if len(bs) == 0 {
		bs = append(bs, ringPoly(rect(fx+4, 0, fx+6, 2)))
	}
	pack := func(ms []geom.Polygon) geom.Geometry {
		if len(ms) == 1 && r.Chance(1, 3) {
			return ms[0].AsGeometry()
		}
		switch r.Intn(5) {
		case 0: // a collection of polygons
			var kids []geom.Geometry
			if r.Chance(1, 3) {
				kids = append(kids, emptyOf(r.Intn(7)))
			}
			for _, m := range ms {
				kids = append(kids, m.AsGeometry())
			}
			return geom.NewGeometryCollection(kids).AsGeometry()
		case 1: // a collection around the MultiPolygon
			return geom.NewGeometryCollection([]geom.Geometry{geom.NewMultiPolygon(ms).AsGeometry()}).AsGeometry()
		default:
			if r.Chance(1, 4) {
				ms = append([]geom.Polygon{{}}, ms...)
			}
			return geom.NewMultiPolygon(ms).AsGeometry()
		}
	}
	return pack(as), pack(bs)
}

// intersectsObs: geom.Intersects in both argument orders ('1', '0', 'p' = panic).
func intersectsObs(a, b geom.Geometry) string {
	one := func(x, y geom.Geometry) (c byte) {
		defer func() {
			if recover() != nil {
				c = 'p'
			}
		}()
		if geom.Intersects(x, y) {
			return '1'
		}
		return '0'
	}
	return string([]byte{one(a, b), one(b, a)})
}
