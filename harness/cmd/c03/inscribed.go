package main

// Class "inscribed" (property C03, MultiPolygon clause "members have disjoint interiors; the
// verdict does not depend on the order of the members").
//
// A group is one configuration of 2..3 members taken from a catalogue (or drawn at random) in
// which one member is INSCRIBED in another one - its boundary meets the other boundary in
// isolated points only: diamond / triangle / sliver in a square with IDENTICAL envelopes, the
// same with a smaller or a strictly nested envelope, a member inscribed in (touching, filling,
// free in) a HOLE of another member (valid) against a member in the band between shell and hole
// (invalid), a hole covered by / lying inside another member, chains of three nested members,
// two members in one, members meeting from outside with envelopes of equal area (valid),
// crossing members with identical envelopes.  The configuration is mapped by a random integer
// affine map (the 8 symmetries of the square x axis scalings x an optional shear x translation):
// incidences are preserved, envelope ties are preserved by everything but the shear.
//
// The group then lists, systematically: EVERY order of the members; every ring started at every
// vertex in both directions (for pairs in both member orders, for triples cycling through all
// six orders); extra members before / between / after (EMPTY polygons, a far member, a member
// touching from outside) for every member order; and finally the standard representation
// changes of main.go.  All lines of a group are the same point set, so the driver demands one
// verdict for the whole group (repr_invariant), equal to the model's and to ogc_valid's.

import (
	"sort"

	"verifharness/lib"
)

type insTpl struct {
	name string
	g    int       // grid size: the "outside" member sits at (g,g), the far one at (3g,3g)
	mem  [][][]int // members -> rings -> x0,y0,x1,y1,... (open; closed when built)
}

func ibx(a, b, c, d int) []int { return []int{a, b, c, b, c, d, a, d} }
func idm(cx, cy, r int) []int  { return []int{cx, cy - r, cx + r, cy, cx, cy + r, cx - r, cy} }

type im = [][]int // one member

var insHoled8 = im{ibx(0, 0, 8, 8), ibx(2, 2, 6, 6)}
var insA16 = im{ibx(0, 0, 16, 16), ibx(4, 4, 12, 12)}
var insB16 = im{idm(8, 8, 4), idm(8, 8, 2)}

var insCatalog = []insTpl{
	// identical envelopes, inscribed member first
	{"diamond_in_square_eqenv", 8, []im{{idm(4, 4, 4)}, {ibx(0, 0, 8, 8)}}},
	{"tri3_in_square_eqenv", 8, []im{{{4, 0, 8, 8, 0, 4}}, {ibx(0, 0, 8, 8)}}},
	{"tri_corner_in_square_eqenv", 8, []im{{{0, 0, 8, 4, 4, 8}}, {ibx(0, 0, 8, 8)}}},
	{"sliver_two_corners_eqenv", 8, []im{{{0, 0, 8, 8, 2, 6}}, {ibx(0, 0, 8, 8)}}},
	{"eqenv_outer_hole_inside_inner", 8, []im{{idm(4, 4, 4)}, {ibx(0, 0, 8, 8), ibx(3, 3, 5, 5)}}},
	{"eqenv_inner_has_hole", 8, []im{{idm(4, 4, 4), ibx(3, 3, 5, 5)}, {ibx(0, 0, 8, 8)}}},
	// smaller / strictly nested envelopes
	{"quad_two_touch_smaller_env", 8, []im{{{4, 0, 6, 4, 4, 6, 0, 4}}, {ibx(0, 0, 8, 8)}}},
	{"tri_one_touch", 8, []im{{{4, 0, 6, 3, 3, 5}}, {ibx(0, 0, 8, 8)}}},
	{"square_in_diamond_strict_env", 8, []im{{ibx(2, 2, 6, 6)}, {idm(4, 4, 4)}}},
	{"tri_in_diamond_strict_env", 8, []im{{{2, 2, 6, 2, 4, 5}}, {idm(4, 4, 4)}}},
	{"medial_tri_in_tri", 8, []im{{{4, 0, 4, 4, 0, 4}}, {{0, 0, 8, 0, 0, 8}}}},
	// meeting from outside, envelopes of equal area (valid); crossing with identical envelopes
	{"diamonds_side_by_side_valid", 16, []im{{idm(4, 4, 4)}, {idm(12, 4, 4)}}},
	{"squares_corner_touch_valid", 8, []im{{ibx(0, 0, 4, 4)}, {ibx(4, 4, 8, 8)}}},
	{"outside_touch_vertex_on_edge_valid", 8, []im{{ibx(0, 0, 8, 8)}, {{8, 4, 12, 0, 12, 8}}}},
	{"diamond_in_notch_valid", 8, []im{{{0, 0, 8, 0, 8, 4, 4, 4, 4, 8, 0, 8}}, {idm(6, 6, 2)}}},
	{"eqenv_two_touch_outside_valid", 8, []im{{{0, 0, 8, 0, 3, 3, 0, 8}}, {{8, 8, 8, 0, 4, 4, 0, 8}}}},
	{"tris_crossing_eqenv", 8, []im{{{0, 0, 8, 0, 4, 8}}, {{0, 8, 8, 8, 4, 0}}}},
	{"big_diamond_crossing_square", 8, []im{{ibx(0, 0, 8, 8)}, {{4, 0, 12, 4, 4, 8, -4, 4}}}},
	// a member in a hole (valid) against a member in the band between shell and hole (invalid)
	{"in_hole_inscribed_valid", 8, []im{insHoled8, {idm(4, 4, 2)}}},
	{"in_hole_one_touch_valid", 8, []im{insHoled8, {{4, 2, 5, 4, 3, 4}}}},
	{"in_hole_free_valid", 8, []im{insHoled8, {{3, 3, 5, 3, 4, 5}}}},
	{"in_hole_fills_overlap", 8, []im{insHoled8, {ibx(2, 2, 6, 6)}}},
	{"in_band_touch_shell", 8, []im{insHoled8, {{0, 4, 1, 3, 1, 5}}}},
	{"in_band_touch_hole", 8, []im{insHoled8, {{2, 4, 1, 3, 1, 5}}}},
	{"in_band_free", 8, []im{insHoled8, {{1, 1, 1, 2, 2, 1}}}},
	{"covers_diamond_hole", 8, []im{{ibx(0, 0, 8, 8), idm(4, 4, 2)}, {ibx(2, 2, 6, 6)}}},
	{"eqenv_outer_hole_touches_inner", 8, []im{{idm(4, 4, 4)}, {ibx(0, 0, 8, 8), {6, 2, 5, 5, 4, 4}}}},
	// three members
	{"triple_nest_valid", 16, []im{insA16, insB16, {ibx(7, 7, 9, 9)}}},
	{"triple_nest_in_body", 16, []im{insA16, insB16, {{8, 4, 9, 6, 7, 6}}}},
	{"chain3", 8, []im{{ibx(2, 2, 6, 6)}, {idm(4, 4, 4)}, {ibx(0, 0, 8, 8)}}},
	{"two_in_one", 16, []im{{idm(4, 4, 4)}, {ibx(0, 0, 16, 8)}, {idm(12, 4, 4)}}},
	{"three_at_point_valid", 16, []im{{idm(4, 4, 4)}, {idm(12, 4, 4)}, {{8, 4, 10, 8, 6, 8}}}},
	{"bystander_plus_inscribed", 16, []im{{ibx(2, 2, 6, 6)}, {idm(12, 4, 4)}, {idm(4, 4, 4)}}},
	{"in_inner_hole_and_outer", 8, []im{{ibx(3, 3, 5, 5)}, {idm(4, 4, 4), idm(4, 4, 2)}, {ibx(0, 0, 8, 8)}}},
}

var insTemplatesHist = map[string]int{}

// the order in which the groups of the class take their configuration: -1 = random
var insCycle = func() []int {
	var c []int
	for i := range insCatalog {
		c = append(c, i)
		if i%3 == 2 {
			c = append(c, -1)
		}
	}
	return c
}()

// a member inscribed in a box / right triangle / diamond: 3..5 lattice points of the outer
// boundary in boundary order (a convex polygon whose vertices all touch), one of them moved to an
// interior lattice point now and then; a box outer gives identical envelopes whenever the inner
// member reaches all four sides
func insRandom(r *lib.Rng) insTpl {
	var outer []int
	name := "random_in_box"
	switch r.Intn(4) {
	case 0:
		outer, name = []int{0, 0, 8, 0, 0, 8}, "random_in_tri"
	case 1:
		outer, name = idm(4, 4, 4), "random_in_diamond"
	default:
		outer = ibx(0, 0, 8, 8)
	}
	ring := make([]xy, 0, len(outer)/2+1)
	for i := 0; i+1 < len(outer); i += 2 {
		ring = append(ring, xy{float64(outer[i]), float64(outer[i+1])})
	}
	ring = closeRing(ring)
	lat := boundaryLattice(ring)
	for tries := 0; tries < 40; tries++ {
		k := r.Range(3, 5)
		pos := map[int]bool{}
		for len(pos) < k {
			pos[r.Intn(len(lat))] = true
		}
		var idx []int
		for p := range pos {
			idx = append(idx, p)
		}
		sort.Ints(idx)
		var in []int
		var pts []xy
		for _, p := range idx {
			pts = append(pts, lat[p])
		}
		if r.Chance(1, 4) {
			pts[r.Intn(len(pts))] = xy{float64(r.Range(2, 5)), float64(r.Range(2, 5))}
			name += "_dent"
		}
		area := 0.0
		for i := range pts {
			q := pts[(i+1)%len(pts)]
			area += pts[i].x*q.y - pts[i].y*q.x
		}
		if area == 0 {
			continue
		}
		for _, p := range pts {
			in = append(in, int(p.x), int(p.y))
		}
		return insTpl{name, 8, []im{{in}, {outer}}}
	}
	return insCatalog[0]
}

type insMap struct{ a, b, c, d, tx, ty int }

func (m insMap) at(x, y int) xy {
	return xy{float64(m.a*x + m.b*y + m.tx), float64(m.c*x + m.d*y + m.ty)}
}

var insD4 = [][4]int{{1, 0, 0, 1}, {0, -1, 1, 0}, {-1, 0, 0, -1}, {0, 1, -1, 0}, {-1, 0, 0, 1}, {1, 0, 0, -1}, {0, 1, 1, 0}, {0, -1, -1, 0}}

func insMul(p, q [4]int) [4]int {
	return [4]int{p[0]*q[0] + p[1]*q[2], p[0]*q[1] + p[1]*q[3], p[2]*q[0] + p[3]*q[2], p[2]*q[1] + p[3]*q[3]}
}

func insRandomMap(r *lib.Rng) insMap {
	m := [4]int{r.Range(1, 3), 0, 0, r.Range(1, 3)} // axis scaling
	if r.Chance(1, 2) {
		m = [4]int{1, 0, 0, 1}
	}
	if r.Chance(1, 4) { // shear: keeps incidences, breaks envelope ties
		h := []int{1, -1, 2}[r.Intn(3)]
		if r.Bool() {
			m = insMul([4]int{1, h, 0, 1}, m)
		} else {
			m = insMul([4]int{1, 0, h, 1}, m)
		}
	}
	m = insMul(insD4[r.Intn(8)], m)
	return insMap{m[0], m[1], m[2], m[3], r.Range(-16, 16), r.Range(-16, 16)}
}

func insMember(m insMap, rings [][]int) *node {
	n := &node{kind: "Y"}
	for _, fl := range rings {
		var ps []xy
		for i := 0; i+1 < len(fl); i += 2 {
			ps = append(ps, m.at(fl[i], fl[i+1]))
		}
		n.rings = append(n.rings, closeRing(ps))
	}
	return n
}

func insPerms(k int) [][]int {
	if k == 1 {
		return [][]int{{0}}
	}
	var out [][]int
	for _, p := range insPerms(k - 1) {
		for pos := k - 1; pos >= 0; pos-- {
			q := append(append(append([]int(nil), p[:pos]...), k-1), p[pos:]...)
			out = append(out, q)
		}
	}
	return out
}

func insMulti(members []*node) *node {
	n := &node{kind: "MY"}
	for _, m := range members {
		n.kids = append(n.kids, m.clone())
	}
	return n
}

func insOrder(core []*node, p []int) []*node {
	out := make([]*node, len(p))
	for i, j := range p {
		out[i] = core[j]
	}
	return out
}

// genInscribed returns the base MultiPolygon of the idx-th group of the class and its systematic
// variants (member orders, ring starts and directions, extra members)
func genInscribed(r *lib.Rng, idx int) (*node, []variant) {
	// catalogue entries in turn, a random configuration after every third one
	var t insTpl
	if c := insCycle[idx%len(insCycle)]; c < 0 {
		t = insRandom(r)
	} else {
		t = insCatalog[c]
	}
	insTemplatesHist[t.name]++
	m := insRandomMap(r)
	core := make([]*node, len(t.mem))
	for i, rings := range t.mem {
		core[i] = insMember(m, rings)
		for j := range core[i].rings { // arbitrary start and direction in the base
			core[i].rings[j] = rotateRing(core[i].rings[j], r.Intn(len(core[i].rings[j])-1))
			if r.Bool() {
				core[i].rings[j] = reversed(core[i].rings[j])
			}
		}
	}
	g := t.g
	empty := &node{kind: "Y"}
	far := insMember(m, [][]int{{3 * g, 3 * g, 3*g + 2, 3 * g, 3 * g, 3*g + 1}})
	out := insMember(m, [][]int{{g, g, g + 2, g + 1, g + 1, g + 2}}) // touches a box (0,0,g,g) at its corner from outside
	base := insMulti(core)
	var vs []variant
	perms := insPerms(len(core))
	// (a) every order of the members
	for _, p := range perms[1:] {
		vs = append(vs, variant{"mperm", insMulti(insOrder(core, p))})
	}
	// (b) every ring started at every vertex, in both directions: pairs in both member orders,
	// triples cycling through the six orders
	cnt := 0
	for mi := range core {
		for ri := range core[mi].rings {
			ring := core[mi].rings[ri]
			for k := 0; k < len(ring)-1; k++ {
				for dir := 0; dir < 2; dir++ {
					if k == 0 && dir == 0 {
						continue
					}
					c2 := make([]*node, len(core))
					for i := range core {
						c2[i] = core[i].clone()
					}
					nr := rotateRing(ring, k)
					name := "mrot"
					if dir == 1 {
						nr, name = reversed(nr), "mrotrev"
					}
					c2[mi].rings[ri] = nr
					if len(core) == 2 {
						for _, p := range perms {
							vs = append(vs, variant{name, insMulti(insOrder(c2, p))})
						}
					} else {
						vs = append(vs, variant{name, insMulti(insOrder(c2, perms[cnt%len(perms)]))})
						cnt++
					}
				}
			}
		}
	}
	// (c) extra members: EMPTY polygons, a far member, a member touching from outside - before,
	// between and after; all patterns for the base order, three patterns for every other order
	extras := []func(p []*node) []*node{
		func(p []*node) []*node { return append([]*node{empty}, p...) },
		func(p []*node) []*node { return append(append([]*node(nil), p...), empty) },
		func(p []*node) []*node { return append([]*node{p[0], empty}, p[1:]...) },
		func(p []*node) []*node { return append([]*node{far}, p...) },
		func(p []*node) []*node { return append(append([]*node(nil), p...), far) },
		func(p []*node) []*node { return append(append([]*node{empty, far}, p...), out, empty) },
		func(p []*node) []*node { return append([]*node{out}, p...) },
		func(p []*node) []*node { return append(append([]*node{p[0], out}, p[1:]...), far) },
	}
	for pi, p := range perms {
		o := insOrder(core, p)
		for j, f := range extras {
			if pi == 0 || (j+3*pi)%len(extras) < 3 {
				vs = append(vs, variant{"mextra", insMulti(f(o))})
			}
		}
	}
	return base, vs
}
