// Command c03 builds unvalidated geometries on dense integer grids (property C03), runs the
// implementation's validation entry points on each and prints one case per line:
//
//	id <TAB> class <TAB> group <TAB> variant <TAB> geometry <TAB> observations <TAB> base geometry of the group
//
// A group is one generated geometry followed by other representations of the same point set /
// structure (every ring started at another vertex, rings reversed, holes and members permuted,
// integer translation, axis reflections).  geometry is a prefix token text with decimal
// ordinates (nan / inf / -inf for the non-finite classes); observations are key=value tokens:
// val (Validate on the concrete type), gval (Geometry.Validate), wkt / wkb / json (decoding the
// geometry's own encoding WITHOUT NoValidate), simple / ring / closed (LineString predicates);
// 1 = nil error / true, 0 = error / false, p = panic, - = not observed.
package main

import (
	"encoding/json"
	"fmt"
	"math"
	"math/big"
	"sort"
	"strconv"
	"strings"

	"github.com/peterstace/simplefeatures/geom"
	"verifharness/lib"
)

type xy struct{ x, y float64 }

// node is an unvalidated geometry: P (pts has 0 or 1 element), L (pts), Y (rings), MP/ML/MY/GC (kids).
type node struct {
	kind  string
	pts   []xy
	rings [][]xy
	kids  []*node
	// coordinates type of the whole tree when built (0 XY, 1 XYZ, 2 XYM, 3 XYZM; read at the root
	// only) and the seed of the Z/M values; validity is a property of the XY point set
	ct    int
	zseed uint64
}

// build context: coordinates type and the generator of Z/M values of the geometry being built
var (
	curCT geom.CoordinatesType
	curZ  *lib.Rng
	curI  int
)

// zm returns Z and M for the next vertex: different for every vertex of the geometry, so that
// vertices with equal XY never have equal Z or M
func zm() (float64, float64) {
	curI++
	return float64(3*curI + curZ.Intn(3)), float64(-2*curI - curZ.Intn(2))
}

func (n *node) clone() *node {
	c := &node{kind: n.kind, pts: append([]xy(nil), n.pts...), ct: n.ct, zseed: n.zseed}
	for _, r := range n.rings {
		c.rings = append(c.rings, append([]xy(nil), r...))
	}
	for _, k := range n.kids {
		c.kids = append(c.kids, k.clone())
	}
	return c
}

func seqOf(ps []xy) geom.Sequence {
	fs := make([]float64, 0, 4*len(ps))
	for _, p := range ps {
		fs = append(fs, p.x, p.y)
		if curCT != geom.DimXY {
			z, m := zm()
			if curCT.Is3D() {
				fs = append(fs, z)
			}
			if curCT.IsMeasured() {
				fs = append(fs, m)
			}
		}
	}
	return geom.NewSequence(fs, curCT)
}

func (n *node) point() geom.Point {
	if len(n.pts) == 0 {
		return geom.NewEmptyPoint(curCT)
	}
	c := geom.Coordinates{XY: geom.XY{X: n.pts[0].x, Y: n.pts[0].y}, Type: curCT}
	if curCT != geom.DimXY {
		z, m := zm()
		if curCT.Is3D() {
			c.Z = z
		}
		if curCT.IsMeasured() {
			c.M = m
		}
	}
	return geom.NewPoint(c)
}
func (n *node) line() geom.LineString { return geom.NewLineString(seqOf(n.pts)) }
func (n *node) poly() geom.Polygon {
	rs := make([]geom.LineString, len(n.rings))
	for i, r := range n.rings {
		rs[i] = geom.NewLineString(seqOf(r))
	}
	return geom.NewPolygon(rs)
}

func (n *node) build() geom.Geometry {
	curCT = []geom.CoordinatesType{geom.DimXY, geom.DimXYZ, geom.DimXYM, geom.DimXYZM}[n.ct&3]
	curZ, curI = lib.NewRng(n.zseed), 0
	return n.build0()
}

func (n *node) build0() geom.Geometry {
	switch n.kind {
	case "P":
		return n.point().AsGeometry()
	case "L":
		return n.line().AsGeometry()
	case "Y":
		return n.poly().AsGeometry()
	case "MP":
		ps := make([]geom.Point, len(n.kids))
		for i, k := range n.kids {
			ps[i] = k.point()
		}
		return geom.NewMultiPoint(ps).AsGeometry()
	case "ML":
		ls := make([]geom.LineString, len(n.kids))
		for i, k := range n.kids {
			ls[i] = k.line()
		}
		return geom.NewMultiLineString(ls).AsGeometry()
	case "MY":
		ys := make([]geom.Polygon, len(n.kids))
		for i, k := range n.kids {
			ys[i] = k.poly()
		}
		return geom.NewMultiPolygon(ys).AsGeometry()
	default:
		gs := make([]geom.Geometry, len(n.kids))
		for i, k := range n.kids {
			gs[i] = k.build0()
		}
		return geom.NewGeometryCollection(gs).AsGeometry()
	}
}

func ford(f float64) string {
	switch {
	case math.IsNaN(f):
		return "nan"
	case math.IsInf(f, 1):
		return "inf"
	case math.IsInf(f, -1):
		return "-inf"
	}
	if math.Abs(f) >= 1<<53 {
		return new(big.Float).SetFloat64(f).Text('f', 0) // the exact integer value of the double
	}
	return strconv.FormatFloat(f, 'f', -1, 64)
}

func writePts(sb *strings.Builder, ps []xy) {
	fmt.Fprintf(sb, "%d ", len(ps))
	for _, p := range ps {
		sb.WriteString(ford(p.x) + " " + ford(p.y) + " ")
	}
}

func (n *node) text(sb *strings.Builder) {
	switch n.kind {
	case "P":
		if len(n.pts) == 0 {
			sb.WriteString("P - ")
		} else {
			sb.WriteString("P " + ford(n.pts[0].x) + " " + ford(n.pts[0].y) + " ")
		}
	case "L":
		sb.WriteString("L ")
		writePts(sb, n.pts)
	case "Y":
		fmt.Fprintf(sb, "Y %d ", len(n.rings))
		for _, r := range n.rings {
			writePts(sb, r)
		}
	default:
		fmt.Fprintf(sb, "%s %d ", n.kind, len(n.kids))
		for _, k := range n.kids {
			k.text(sb)
		}
	}
}

func (n *node) String() string {
	var sb strings.Builder
	n.text(&sb)
	return strings.TrimSpace(sb.String())
}

// walk visits every coordinate list (point, line, ring) of the tree
func (n *node) walk(f func(ps *[]xy, isRing bool)) {
	switch n.kind {
	case "P", "L":
		f(&n.pts, false)
	case "Y":
		for i := range n.rings {
			f(&n.rings[i], true)
		}
	default:
		for _, k := range n.kids {
			k.walk(f)
		}
	}
}

func (n *node) hasEmpty() bool {
	switch n.kind {
	case "P", "L":
		return len(n.pts) == 0
	case "Y":
		return len(n.rings) == 0
	default:
		if len(n.kids) == 0 {
			return true
		}
		for _, k := range n.kids {
			if k.hasEmpty() {
				return true
			}
		}
		return false
	}
}

func (n *node) finite() bool {
	ok := true
	n.walk(func(ps *[]xy, _ bool) {
		for _, p := range *ps {
			if math.IsNaN(p.x) || math.IsInf(p.x, 0) || math.IsNaN(p.y) || math.IsInf(p.y, 0) {
				ok = false
			}
		}
	})
	return ok
}

// a Point whose X and Y are both NaN is the WKB encoding of POINT EMPTY
func (n *node) hasNaNNaNPoint() bool {
	if n.kind == "P" {
		return len(n.pts) == 1 && math.IsNaN(n.pts[0].x) && math.IsNaN(n.pts[0].y)
	}
	for _, k := range n.kids {
		if k.hasNaNNaNPoint() {
			return true
		}
	}
	return false
}

// ---------------------------------------------------------------- observations

func verdict(f func() error) (out string) {
	defer func() {
		if r := recover(); r != nil {
			out = "p"
		}
	}()
	if f() == nil {
		return "1"
	}
	return "0"
}

func flag(f func() bool) (out string) {
	defer func() {
		if r := recover(); r != nil {
			out = "p"
		}
	}()
	if f() {
		return "1"
	}
	return "0"
}

func observe(n *node) string {
	g := n.build()
	var val string
	switch n.kind {
	case "P":
		val = verdict(func() error { return g.MustAsPoint().Validate() })
	case "L":
		val = verdict(func() error { return g.MustAsLineString().Validate() })
	case "Y":
		val = verdict(func() error { return g.MustAsPolygon().Validate() })
	case "MP":
		val = verdict(func() error { return g.MustAsMultiPoint().Validate() })
	case "ML":
		val = verdict(func() error { return g.MustAsMultiLineString().Validate() })
	case "MY":
		val = verdict(func() error { return g.MustAsMultiPolygon().Validate() })
	default:
		val = verdict(func() error { return g.MustAsGeometryCollection().Validate() })
	}
	gval := verdict(func() error { return g.Validate() })
	f2d := "-"
	if n.ct != 0 {
		f2d = verdict(func() error { return g.Force2D().Validate() })
	}
	wkt, wkb, js := "-", "-", "-"
	fin := n.finite()
	if fin {
		wkt = verdict(func() error { _, err := geom.UnmarshalWKT(g.AsText()); return err })
	}
	if !n.hasNaNNaNPoint() {
		wkb = verdict(func() error { _, err := geom.UnmarshalWKB(g.AsBinary()); return err })
	}
	if fin && !n.hasEmpty() {
		js = verdict(func() error {
			b, err := g.MarshalJSON()
			if err != nil {
				return nil // not encodable: nothing to observe
			}
			_, err = geom.UnmarshalGeoJSON(b)
			return err
		})
	}
	out := "val=" + val + " gval=" + gval + " wkt=" + wkt + " wkb=" + wkb + " json=" + js + " f2d=" + f2d
	if n.kind == "L" && fin && maxAbs(n) <= 1<<20 { // the predicates multiply ordinates: lattice domain only
		ls := g.MustAsLineString()
		out += " simple=" + flag(ls.IsSimple) + " ring=" + flag(ls.IsRing) + " closed=" + flag(ls.IsClosed)
	}
	return out
}

// ---------------------------------------------------------------- generators

func gp(r *lib.Rng, lo, hi int) xy { return xy{float64(r.Range(lo, hi)), float64(r.Range(lo, hi))} }

func cross(o, a, b xy) float64 { return (a.x-o.x)*(b.y-o.y) - (a.y-o.y)*(b.x-o.x) }

func closeRing(ps []xy) []xy { return append(ps, ps[0]) }

// unconstrained vertex list; closed with probability 4/5; duplicates and spikes now and then
func genLoose(r *lib.Rng, lo, hi int, closed bool) []xy {
	k := r.Range(2, 7)
	ps := make([]xy, 0, k+3)
	for i := 0; i < k; i++ {
		p := gp(r, lo, hi)
		ps = append(ps, p)
		if r.Chance(1, 8) {
			ps = append(ps, p) // repeated vertex
		}
		if r.Chance(1, 10) && len(ps) >= 2 {
			ps = append(ps, ps[len(ps)-2]) // spike: go back
		}
	}
	if closed {
		ps = closeRing(ps)
	}
	return ps
}

// k distinct grid points sorted by angle around their centroid: simple most of the time
func genStar(r *lib.Rng, lo, hi int) []xy {
	k := r.Range(3, 6)
	seen := map[xy]bool{}
	var ps []xy
	for tries := 0; len(ps) < k && tries < 50; tries++ {
		p := gp(r, lo, hi)
		if !seen[p] {
			seen[p] = true
			ps = append(ps, p)
		}
	}
	var cx, cy float64
	for _, p := range ps {
		cx += p.x
		cy += p.y
	}
	cx /= float64(len(ps))
	cy /= float64(len(ps))
	sort.Slice(ps, func(i, j int) bool {
		return math.Atan2(ps[i].y-cy, ps[i].x-cx) < math.Atan2(ps[j].y-cy, ps[j].x-cx)
	})
	return closeRing(ps)
}

func genBox(x0, y0, x1, y1 int) []xy {
	a, b, c, d := float64(x0), float64(y0), float64(x1), float64(y1)
	return []xy{{a, b}, {c, b}, {c, d}, {a, d}, {a, b}}
}

func genTri(r *lib.Rng, lo, hi int) []xy {
	for tries := 0; tries < 50; tries++ {
		a, b, c := gp(r, lo, hi), gp(r, lo, hi), gp(r, lo, hi)
		if cross(a, b, c) != 0 {
			return []xy{a, b, c, a}
		}
	}
	return genBox(lo, lo, hi, hi)
}

func genRingAny(r *lib.Rng, lo, hi int) []xy {
	switch r.Intn(6) {
	case 0:
		return genLoose(r, lo, hi, r.Chance(4, 5))
	case 1, 2:
		return genStar(r, lo, hi)
	case 3:
		x0, y0 := r.Range(lo, hi-1), r.Range(lo, hi-1)
		return genBox(x0, y0, r.Range(x0+1, hi), r.Range(y0+1, hi))
	default:
		return genTri(r, lo, hi)
	}
}

func genLine(r *lib.Rng) *node {
	side := r.Range(3, 6)
	switch r.Intn(5) {
	case 0:
		return &node{kind: "L"} // empty
	case 1:
		return &node{kind: "L", pts: genLoose(r, 0, side, false)}
	case 2:
		return &node{kind: "L", pts: genLoose(r, 0, side, true)}
	case 3:
		return &node{kind: "L", pts: genStar(r, 0, side)}
	default:
		// a walk with small steps: many touches and overlaps
		k := r.Range(2, 8)
		p := gp(r, 0, side)
		ps := []xy{p}
		for i := 0; i < k; i++ {
			p = xy{p.x + float64(r.Range(-2, 2)), p.y + float64(r.Range(-2, 2))}
			ps = append(ps, p)
		}
		if r.Chance(1, 3) {
			ps = closeRing(ps)
		}
		return &node{kind: "L", pts: ps}
	}
}

// polygon with 0..3 holes on a dense grid; holes touch the shell / each other, nest, cross, lie outside
func genPoly(r *lib.Rng) *node {
	side := r.Range(4, 8)
	n := &node{kind: "Y"}
	switch r.Intn(8) {
	case 0:
		return n // empty polygon
	case 1:
		n.rings = append(n.rings, genRingAny(r, 0, side))
	case 2:
		n.rings = append(n.rings, genStar(r, 0, side))
	default:
		n.rings = append(n.rings, genBox(0, 0, side, side))
	}
	holes := r.Intn(4)
	for h := 0; h < holes; h++ {
		lo, hi := 1, side-1
		if r.Chance(1, 3) {
			lo, hi = 0, side // may touch the shell
		}
		if r.Chance(1, 12) {
			lo, hi = -1, side+1 // may leave the shell
		}
		var ring []xy
		switch r.Intn(5) {
		case 0:
			ring = genStar(r, lo, hi)
		case 1:
			ring = genLoose(r, lo, hi, r.Chance(9, 10))
		case 2:
			if hi-lo >= 1 {
				x0, y0 := r.Range(lo, hi-1), r.Range(lo, hi-1)
				ring = genBox(x0, y0, r.Range(x0+1, hi), r.Range(y0+1, hi))
			} else {
				ring = genTri(r, lo, hi)
			}
		default:
			ring = genTri(r, lo, hi)
		}
		if r.Chance(1, 8) {
			// a hole entirely outside the shell (any position among the holes)
			ring = shift(ring, float64(side+1+r.Intn(2)), float64(r.Range(-1, 1)))
		}
		if r.Chance(1, 10) && len(n.rings) > 1 {
			// share a vertex with an earlier hole
			prev := n.rings[r.Range(1, len(n.rings)-1)]
			ring[0] = prev[r.Intn(len(prev))]
			ring[len(ring)-1] = ring[0]
		}
		n.rings = append(n.rings, ring)
	}
	return n
}

func strictlyInsideConvex(ring []xy, p xy) bool {
	pos, neg := false, false
	for i := 0; i+1 < len(ring); i++ {
		c := cross(ring[i], ring[i+1], p)
		if c == 0 {
			return false
		}
		if c > 0 {
			pos = true
		} else {
			neg = true
		}
	}
	return pos != neg
}

// targeted class: two hole rings sharing exactly one vertex, one nested in the other (or side by
// side / reversed roles), each started at or away from the shared vertex
func genSharedVertex(r *lib.Rng) *node {
	side := r.Range(5, 8)
	var a []xy
	for tries := 0; tries < 100; tries++ {
		a = genTri(r, 1, side-1)
		if r.Bool() {
			x0, y0 := r.Range(1, side-3), r.Range(1, side-3)
			a = genBox(x0, y0, r.Range(x0+2, side-1), r.Range(y0+2, side-1))
		}
		if math.Abs(cross(a[0], a[1], a[2])) >= 6 {
			break
		}
	}
	v := a[r.Intn(len(a)-1)]
	var b []xy
	mode := r.Intn(4)
	for tries := 0; tries < 200; tries++ {
		p, q := gp(r, 1, side-1), gp(r, 1, side-1)
		if cross(v, p, q) == 0 {
			continue
		}
		inP, inQ := strictlyInsideConvex(a, p), strictlyInsideConvex(a, q)
		if mode <= 1 && inP && inQ { // nested, touching at v
			b = []xy{v, p, q, v}
			break
		}
		if mode == 2 && !inP && !inQ { // outside candidates (may still cross: the oracle decides)
			b = []xy{v, p, q, v}
			break
		}
		if mode == 3 { // anything through v
			b = []xy{v, p, q, v}
			break
		}
	}
	if b == nil {
		b = genTri(r, 1, side-1)
	}
	if r.Chance(1, 5) {
		// fan: three holes through one vertex, in disjoint sectors most of the time
		c := xy{float64(side / 2), float64(side / 2)}
		n := &node{kind: "Y", rings: [][]xy{genBox(0, 0, side, side)}}
		dirs := [][2]xy{{{1, 0}, {1, 1}}, {{0, 1}, {-1, 1}}, {{-1, 0}, {-1, -1}}, {{0, -1}, {1, -1}}, {{1, 1}, {0, 1}}}
		start := r.Intn(len(dirs))
		for k := 0; k < 3; k++ {
			d := dirs[(start+k*r.Range(1, 2))%len(dirs)]
			m := float64(r.Range(1, side/2-1))
			t := []xy{c, {c.x + m*d[0].x, c.y + m*d[0].y}, {c.x + m*d[1].x, c.y + m*d[1].y}, c}
			n.rings = append(n.rings, rotateRing(t, r.Intn(3)))
		}
		return n
	}
	n := &node{kind: "Y"}
	n.rings = append(n.rings, genBox(0, 0, side, side))
	ra := rotateRing(a, r.Intn(len(a)-1))
	rb := rotateRing(b, r.Intn(len(b)-1))
	if r.Bool() {
		n.rings = append(n.rings, ra, rb)
	} else {
		n.rings = append(n.rings, rb, ra)
	}
	if r.Chance(1, 4) {
		n.rings = append(n.rings, genTri(r, 1, side-1))
	}
	return n
}

func shift(ps []xy, dx, dy float64) []xy {
	out := make([]xy, len(ps))
	for i, p := range ps {
		out[i] = xy{p.x + dx, p.y + dy}
	}
	return out
}

// 2..3 polygons placed so that they touch at points / along edges, overlap, nest, sit in holes
func genMultiPoly(r *lib.Rng) *node {
	n := &node{kind: "MY"}
	k := r.Range(1, 3)
	for i := 0; i < k; i++ {
		if r.Chance(1, 12) {
			n.kids = append(n.kids, &node{kind: "Y"})
			continue
		}
		var p *node
		switch r.Intn(4) {
		case 0:
			p = genPoly(r)
		case 1:
			p = &node{kind: "Y", rings: [][]xy{genTri(r, 0, 4)}}
		case 2:
			p = &node{kind: "Y", rings: [][]xy{genStar(r, 0, 4)}}
		default:
			w, h := r.Range(1, 4), r.Range(1, 4)
			p = &node{kind: "Y", rings: [][]xy{genBox(0, 0, w, h)}}
			if w >= 3 && h >= 3 && r.Chance(1, 2) {
				p.rings = append(p.rings, genBox(1, 1, w-1, h-1))
			}
		}
		dx, dy := float64(r.Range(0, 4)), float64(r.Range(0, 4))
		for j := range p.rings {
			p.rings[j] = shift(p.rings[j], dx, dy)
		}
		n.kids = append(n.kids, p)
	}
	return n
}

// holes are unit diamonds centred on the odd lattice inside a box shell: diamonds whose centres are
// two apart touch in exactly one vertex, diamonds next to the shell touch it in one vertex. The
// touch graph is an induced grid graph plus the shell: chains from shell to shell and 2x2 blocks
// disconnect the interior; everything else is valid.
func genTouchGraph(r *lib.Rng) *node {
	side := 2 * r.Range(2, 5)
	wide := r.Bool() // a shell the diamonds cannot reach
	shell := genBox(0, 0, side, side)
	if wide {
		shell = genBox(-1, -1, side+1, side+1)
	}
	n := &node{kind: "Y", rings: [][]xy{rotateRing(shell, r.Intn(4))}}
	m := side / 2
	den := r.Range(2, 4)
	// forced clusters (several connected components of the touch graph): a 2x2 block (a cycle),
	// a touching pair (no cycle), at random places
	forced := map[[2]int]bool{}
	if m >= 3 && r.Chance(1, 2) {
		bi, bj := r.Intn(m-1), r.Intn(m-1)
		if r.Chance(2, 3) {
			for _, d := range [][2]int{{0, 0}, {1, 0}, {0, 1}, {1, 1}} {
				forced[[2]int{bi + d[0], bj + d[1]}] = true
			}
		}
		pi, pj := r.Intn(m-1), r.Intn(m)
		forced[[2]int{pi, pj}] = true
		forced[[2]int{pi + 1, pj}] = true
		den = 6
	}
	for i := 0; i < m; i++ {
		for j := 0; j < m; j++ {
			corner := (i == 0 || i == m-1) && (j == 0 || j == m-1)
			if corner && !wide && r.Chance(9, 10) {
				continue // a corner diamond touches the tight shell twice
			}
			if len(n.rings) < 9 && (forced[[2]int{i, j}] || r.Chance(1, den)) {
				cx, cy := float64(2*i+1), float64(2*j+1)
				d := []xy{{cx - 1, cy}, {cx, cy - 1}, {cx + 1, cy}, {cx, cy + 1}, {cx - 1, cy}}
				if r.Chance(1, 10) { // a kite that does not reach its left neighbour
					d = []xy{{cx, cy}, {cx, cy - 1}, {cx + 1, cy}, {cx, cy + 1}, {cx, cy}}
				}
				d = rotateRing(d, r.Intn(4))
				if r.Bool() {
					d = reversed(d)
				}
				n.rings = append(n.rings, d)
			}
		}
	}
	// random hole order
	h := n.rings[1:]
	for i := len(h) - 1; i > 0; i-- {
		j := r.Intn(i + 1)
		h[i], h[j] = h[j], h[i]
	}
	return n
}

// degenerate pieces: empty rings, one-point lines and rings, two-point closed rings, unclosed rings
func genDegenerate(r *lib.Rng) *node {
	p, q := gp(r, 0, 4), gp(r, 0, 4)
	box := genBox(0, 0, 5, 5)
	switch r.Intn(9) {
	case 0:
		return &node{kind: "L", pts: []xy{p}}
	case 1:
		return &node{kind: "L", pts: []xy{p, p, p}}
	case 2:
		return &node{kind: "Y", rings: [][]xy{{p, p, p, p}}}
	case 3:
		return &node{kind: "Y", rings: [][]xy{{p, q, p}}}
	case 4:
		return &node{kind: "Y", rings: [][]xy{box, {}}}
	case 5:
		return &node{kind: "Y", rings: [][]xy{{}}}
	case 6:
		return &node{kind: "Y", rings: [][]xy{box, {p, p, p, p}}}
	case 7:
		return &node{kind: "MY", kids: []*node{{kind: "Y", rings: [][]xy{box}}, {kind: "Y", rings: [][]xy{{p, q, p}}}}}
	default:
		return &node{kind: "ML", kids: []*node{{kind: "L", pts: []xy{p, q}}, {kind: "L", pts: []xy{q}}, {kind: "L"}}}
	}
}

func gcd(a, b int) int {
	if a < 0 {
		a = -a
	}
	if b < 0 {
		b = -b
	}
	for b != 0 {
		a, b = b, a%b
	}
	return a
}

// lattice points of a closed ring's boundary, edge by edge (each vertex once)
func boundaryLattice(ring []xy) []xy {
	var out []xy
	for i := 0; i+1 < len(ring); i++ {
		u, v := ring[i], ring[i+1]
		dx, dy := int(v.x-u.x), int(v.y-u.y)
		g := gcd(dx, dy)
		if g == 0 {
			continue
		}
		for t := 0; t < g; t++ {
			out = append(out, xy{u.x + float64(t*dx/g), u.y + float64(t*dy/g)})
		}
	}
	return out
}

// targeted class: a member nested in (or next to) another member and touching its boundary in
// exactly one point (or two, or none); the inner member has fewer / as many / more segments than
// the outer one (the outer may carry extra collinear vertices); both member orders
func genNestedTouch(r *lib.Rng) *node {
	s := r.Range(6, 10)
	var outer []xy
	switch r.Intn(4) {
	case 0:
		outer = []xy{{0, 0}, {float64(s), 0}, {0, float64(s)}, {0, 0}}
	case 1:
		outer = genBox(0, 0, s, r.Range(5, s))
	case 2:
		outer = []xy{{0, 0}, {float64(s), 0}, {float64(s), float64(s)}, {0, 0}}
	default:
		for tries := 0; tries < 50; tries++ {
			outer = genTri(r, 0, s)
			if math.Abs(cross(outer[0], outer[1], outer[2])) >= 30 {
				break
			}
		}
	}
	lat := boundaryLattice(outer)
	if r.Chance(1, 2) {
		// extra collinear vertices on the outer ring: more segments, same point set
		outer = append(append([]xy(nil), lat...), lat[0])
	}
	var inside []xy
	for x := 0; x <= s; x++ {
		for y := 0; y <= s; y++ {
			if p := (xy{float64(x), float64(y)}); strictlyInsideConvex(outer, p) || insideByCross(outer, p) {
				inside = append(inside, p)
			}
		}
	}
	mode := r.Intn(8) // 0..4 one touch point, 5 two touch points, 6 none (fast case), 7 outside touching
	k := r.Range(2, 5)
	var pts []xy
	seen := map[xy]bool{}
	add := func(p xy) {
		if !seen[p] {
			seen[p] = true
			pts = append(pts, p)
		}
	}
	if len(inside) < 3 {
		return genMultiPoly(r)
	}
	touch := lat[r.Intn(len(lat))]
	switch {
	case mode <= 4:
		add(touch)
	case mode == 5:
		add(touch)
		add(lat[r.Intn(len(lat))])
	case mode == 7:
		add(touch)
	}
	for tries := 0; len(pts) < k+1 && tries < 60; tries++ {
		if mode == 7 {
			p := xy{float64(r.Range(-4, s+4)), float64(r.Range(-4, s+4))}
			if !insideByCross(outer, p) && !onRing(outer, p) {
				add(p)
			}
		} else {
			add(inside[r.Intn(len(inside))])
		}
	}
	if len(pts) < 3 {
		return genMultiPoly(r)
	}
	// order around the centroid: a simple ring most of the time
	var cx, cy float64
	for _, p := range pts {
		cx += p.x
		cy += p.y
	}
	cx /= float64(len(pts))
	cy /= float64(len(pts))
	sort.Slice(pts, func(i, j int) bool {
		return math.Atan2(pts[i].y-cy, pts[i].x-cx) < math.Atan2(pts[j].y-cy, pts[j].x-cx)
	})
	inner := closeRing(pts)
	a := &node{kind: "Y", rings: [][]xy{rotateRing(outer, r.Intn(len(outer)-1))}}
	b := &node{kind: "Y", rings: [][]xy{rotateRing(inner, r.Intn(len(inner)-1))}}
	n := &node{kind: "MY"}
	if r.Bool() {
		n.kids = []*node{a, b}
	} else {
		n.kids = []*node{b, a}
	}
	if r.Chance(1, 6) {
		n.kids = append(n.kids, &node{kind: "Y", rings: [][]xy{shift(genTri(r, 0, 3), float64(s+2), 0)}})
	}
	return n
}

// strictly inside a convex ring of either orientation, tolerating collinear extra vertices
func insideByCross(ring []xy, p xy) bool {
	pos, neg := false, false
	for i := 0; i+1 < len(ring); i++ {
		if ring[i] == ring[i+1] {
			continue
		}
		c := cross(ring[i], ring[i+1], p)
		if c == 0 {
			return false
		}
		if c > 0 {
			pos = true
		} else {
			neg = true
		}
	}
	return pos != neg
}

func onRing(ring []xy, p xy) bool {
	for i := 0; i+1 < len(ring); i++ {
		u, v := ring[i], ring[i+1]
		if cross(u, v, p) == 0 && math.Min(u.x, v.x) <= p.x && p.x <= math.Max(u.x, v.x) &&
			math.Min(u.y, v.y) <= p.y && p.y <= math.Max(u.y, v.y) {
			return true
		}
	}
	return false
}

// vertices to be moved onto the origin: touch points first
func originCandidates(base *node, r *lib.Rng) []xy {
	var lists [][]xy
	base.walk(func(ps *[]xy, _ bool) { lists = append(lists, *ps) })
	seen := map[xy]bool{}
	var touch, rest []xy
	for i, l := range lists {
		for _, v := range l {
			if seen[v] {
				continue
			}
			seen[v] = true
			isTouch := false
			for j, m := range lists {
				if j != i && onRing(m, v) {
					isTouch = true
				}
			}
			if isTouch {
				touch = append(touch, v)
			} else {
				rest = append(rest, v)
			}
		}
	}
	for len(touch) > 5 {
		i := r.Intn(len(touch))
		touch = append(touch[:i], touch[i+1:]...)
	}
	for k := 0; k < 2 && len(rest) > 0; k++ {
		i := r.Intn(len(rest))
		touch = append(touch, rest[i])
		rest = append(rest[:i], rest[i+1:]...)
	}
	return touch
}

// targeted class: a hole that touches the shell (or another hole) in exactly two points, or in
// one; one of the touch points is the origin half of the time; all starts and orders come from
// the group variants
func genTwoTouch(r *lib.Rng) *node {
	s := r.Range(4, 8)
	shell := genBox(0, 0, s, s)
	lat := boundaryLattice(shell)
	t1 := lat[r.Intn(len(lat))]
	if r.Bool() {
		t1 = xy{0, 0}
	}
	t2 := lat[r.Intn(len(lat))]
	var in []xy
	for x := 1; x < s; x++ {
		for y := 1; y < s; y++ {
			in = append(in, xy{float64(x), float64(y)})
		}
	}
	n := &node{kind: "Y", rings: [][]xy{rotateRing(shell, r.Intn(4))}}
	if r.Chance(1, 3) {
		// a hole OUTSIDE the shell touching it in exactly one point, which is the hole's start
		// vertex; the start vertex once, twice or three times
		out := func() xy {
			for {
				p := xy{float64(r.Range(-3, s+3)), float64(r.Range(-3, s+3))}
				if p.x < 0 || p.x > float64(s) || p.y < 0 || p.y > float64(s) {
					return p
				}
			}
		}
		h := []xy{t1}
		for k := r.Intn(3); k > 0; k-- {
			h = append(h, t1)
		}
		h = append(h, out(), out(), t1)
		n.rings = append(n.rings, h)
		if r.Chance(1, 3) {
			p, q := in[r.Intn(len(in))], in[r.Intn(len(in))]
			n.rings = append(n.rings, []xy{in[r.Intn(len(in))], p, q, in[0]})
			n.rings[2][3] = n.rings[2][0]
		}
		return n
	}
	switch r.Intn(4) {
	case 0: // the diagonal diamond of the example: touches two corners / boundary points
		p, q := in[r.Intn(len(in))], in[r.Intn(len(in))]
		n.rings = append(n.rings, []xy{t1, p, t2, q, t1})
	case 1: // one touch point only
		p, q := in[r.Intn(len(in))], in[r.Intn(len(in))]
		n.rings = append(n.rings, []xy{t1, p, q, t1})
	case 2: // two holes sharing two vertices, one of them possibly touching the shell at t1
		a, b := in[r.Intn(len(in))], in[r.Intn(len(in))]
		p, q := in[r.Intn(len(in))], in[r.Intn(len(in))]
		if r.Bool() {
			a = t1
		}
		n.rings = append(n.rings, []xy{a, p, b, a}, []xy{a, q, b, a})
	default: // two holes, each touching the shell once, the first at t1
		p, q := in[r.Intn(len(in))], in[r.Intn(len(in))]
		u, v := in[r.Intn(len(in))], in[r.Intn(len(in))]
		n.rings = append(n.rings, []xy{t1, p, q, t1}, []xy{t2, u, v, t2})
	}
	for i := 1; i < len(n.rings); i++ {
		n.rings[i] = rotateRing(n.rings[i], r.Intn(len(n.rings[i])-1))
	}
	return n
}

// geometries without polygons (no arithmetic on ordinates in their validation)
func genNoPoly(r *lib.Rng, depth int) *node {
	switch r.Intn(5) {
	case 0:
		return &node{kind: "P", pts: []xy{gp(r, 0, 5)}}
	case 1:
		return &node{kind: "L", pts: genLoose(r, 0, 5, false)}
	case 2:
		n := &node{kind: "MP"}
		for i, k := 0, r.Range(1, 3); i < k; i++ {
			n.kids = append(n.kids, &node{kind: "P", pts: []xy{gp(r, 0, 5)}})
		}
		return n
	case 3:
		n := &node{kind: "ML"}
		for i, k := 0, r.Range(1, 3); i < k; i++ {
			n.kids = append(n.kids, &node{kind: "L", pts: genLoose(r, 0, 5, false)})
		}
		return n
	default:
		n := &node{kind: "GC"}
		for i, k := 0, r.Range(1, 3); i < k; i++ {
			if depth > 0 {
				n.kids = append(n.kids, genNoPoly(r, depth-1))
			} else {
				n.kids = append(n.kids, &node{kind: "P", pts: []xy{gp(r, 0, 5)}})
			}
		}
		return n
	}
}

var specialValues = []float64{math.NaN(), math.Inf(1), math.Inf(-1), math.MaxFloat64, -math.MaxFloat64, 1e308, -1e308}

// one vertex (any position, any type) gets the idx-th pair of special values as its X and Y.
// Pairs of two large finite values go into geometries without polygons only: the finite-XY rule
// must accept them, and no product of ordinates is formed there.
func specialPair(r *lib.Rng, idx int) *node {
	k := len(specialValues)
	x, y := specialValues[(idx/k)%k], specialValues[idx%k]
	bothFinite := !math.IsNaN(x) && !math.IsInf(x, 0) && !math.IsNaN(y) && !math.IsInf(y, 0)
	var base *node
	for tries := 0; ; tries++ {
		if bothFinite {
			base = genNoPoly(r, 2)
		} else {
			base = genAny(r, 2)
		}
		total := 0
		base.walk(func(ps *[]xy, _ bool) { total += len(*ps) })
		if total > 0 || tries > 20 {
			break
		}
	}
	total := 0
	base.walk(func(ps *[]xy, _ bool) { total += len(*ps) })
	if total == 0 {
		return &node{kind: "P", pts: []xy{{x, y}}}
	}
	pos, i := r.Intn(total), 0
	base.walk(func(ps *[]xy, _ bool) {
		for j := range *ps {
			if i == pos {
				(*ps)[j] = xy{x, y}
			}
			i++
		}
	})
	return base
}

var hugeValues = []float64{1e300, -1e300, 3e300, -3e300, 1e308, -1e308, 1e154, -1e154, 1e155, -1e155, 1e160, -1e160, math.MaxFloat64, -math.MaxFloat64}

// a polygon / multipolygon (touching, overlapping, nested members; holes) in which one or two
// ordinates are huge; a replaced start vertex keeps its ring closed
func hugePoly(r *lib.Rng) *node {
	var base *node
	switch r.Intn(8) {
	case 0:
		base = genPoly(r)
	case 6, 7:
		// two or three triangles on a tiny grid: members share vertices and edges all the time
		base = &node{kind: "MY"}
		for i, k := 0, r.Range(2, 3); i < k; i++ {
			base.kids = append(base.kids, &node{kind: "Y", rings: [][]xy{genTri(r, -3, 3)}})
		}
	case 1, 2:
		base = genMultiPoly(r)
	case 3:
		base = genNestedTouch(r)
	case 4:
		base = genTwoTouch(r)
	default:
		base = &node{kind: "GC", kids: []*node{genMultiPoly(r), genPoly(r)}}
	}
	for n := r.Range(1, 2); n > 0; n-- {
		total := 0
		base.walk(func(ps *[]xy, _ bool) { total += len(*ps) })
		if total == 0 {
			break
		}
		pos, i := r.Intn(total), 0
		v := hugeValues[r.Intn(len(hugeValues))]
		isX := r.Bool()
		base.walk(func(ps *[]xy, _ bool) {
			for j := range *ps {
				if i == pos {
					closed := isClosed(*ps)
					set := func(k int) {
						if isX {
							(*ps)[k].x = v
						} else {
							(*ps)[k].y = v
						}
					}
					set(j)
					if closed && j == 0 {
						set(len(*ps) - 1)
					}
					if closed && j == len(*ps)-1 {
						set(0)
					}
				}
				i++
			}
		})
	}
	return base
}

func genPointNode(r *lib.Rng) *node {
	if r.Chance(1, 5) {
		return &node{kind: "P"}
	}
	return &node{kind: "P", pts: []xy{gp(r, 0, 5)}}
}

func genAny(r *lib.Rng, depth int) *node {
	switch r.Intn(9) {
	case 0:
		return genPointNode(r)
	case 1:
		return genLine(r)
	case 2, 3:
		return genPoly(r)
	case 4:
		n := &node{kind: "MP"}
		for i, k := 0, r.Intn(4); i < k; i++ {
			n.kids = append(n.kids, genPointNode(r))
		}
		return n
	case 5:
		n := &node{kind: "ML"}
		for i, k := 0, r.Intn(4); i < k; i++ {
			n.kids = append(n.kids, genLine(r))
		}
		return n
	case 6:
		return genMultiPoly(r)
	default:
		n := &node{kind: "GC"}
		if depth > 0 {
			for i, k := 0, r.Intn(4); i < k; i++ {
				n.kids = append(n.kids, genAny(r, depth-1))
			}
		}
		return n
	}
}

// ---------------------------------------------------------------- representation changes

func isClosed(ps []xy) bool { return len(ps) >= 2 && ps[0] == ps[len(ps)-1] }

// rotateRing starts a closed vertex list at its k-th vertex
func rotateRing(ps []xy, k int) []xy {
	if !isClosed(ps) {
		return append([]xy(nil), ps...)
	}
	o := ps[:len(ps)-1]
	k %= len(o)
	out := append(append([]xy(nil), o[k:]...), o[:k]...)
	return append(out, out[0])
}

func reversed(ps []xy) []xy {
	out := make([]xy, len(ps))
	for i, p := range ps {
		out[len(ps)-1-i] = p
	}
	return out
}

func mapXY(n *node, f func(xy) xy) *node {
	c := n.clone()
	c.walk(func(ps *[]xy, _ bool) {
		for i := range *ps {
			(*ps)[i] = f((*ps)[i])
		}
	})
	return c
}

func maxAbs(n *node) float64 {
	m := 0.0
	n.walk(func(ps *[]xy, _ bool) {
		for _, p := range *ps {
			for _, v := range []float64{p.x, p.y} {
				if !math.IsNaN(v) && !math.IsInf(v, 0) && math.Abs(v) > m {
					m = math.Abs(v)
				}
			}
		}
	})
	return m
}

func permuteKids(n *node, r *lib.Rng) {
	switch n.kind {
	case "Y":
		if len(n.rings) > 2 {
			h := n.rings[1:]
			i, j := r.Intn(len(h)), r.Intn(len(h))
			h[i], h[j] = h[j], h[i]
			if i == j {
				// reverse the hole order instead
				for a, b := 0, len(h)-1; a < b; a, b = a+1, b-1 {
					h[a], h[b] = h[b], h[a]
				}
			}
		}
	case "MP", "ML", "MY", "GC":
		if len(n.kids) > 1 {
			i := r.Intn(len(n.kids))
			j := (i + 1 + r.Intn(len(n.kids)-1)) % len(n.kids)
			n.kids[i], n.kids[j] = n.kids[j], n.kids[i]
		}
		for _, k := range n.kids {
			permuteKids(k, r)
		}
	}
}

type variant struct {
	name string
	n    *node
}

func variants(base *node, r *lib.Rng, maxRot int) []variant {
	var out []variant
	// every closed coordinate list started at every other vertex, one list at a time
	type slot struct{ idx, k int }
	var slots []slot
	idx := 0
	base.walk(func(ps *[]xy, _ bool) {
		if isClosed(*ps) {
			for k := 1; k < len(*ps)-1; k++ {
				slots = append(slots, slot{idx, k})
			}
		}
		idx++
	})
	for len(slots) > maxRot {
		i := r.Intn(len(slots))
		slots = append(slots[:i], slots[i+1:]...)
	}
	for _, s := range slots {
		c := base.clone()
		i := 0
		c.walk(func(ps *[]xy, _ bool) {
			if i == s.idx {
				*ps = rotateRing(*ps, s.k)
			}
			i++
		})
		out = append(out, variant{"rot", c})
	}
	// all lists rotated at once by random amounts
	{
		c := base.clone()
		c.walk(func(ps *[]xy, _ bool) {
			if isClosed(*ps) && len(*ps) > 2 {
				*ps = rotateRing(*ps, r.Intn(len(*ps)-1))
			}
		})
		out = append(out, variant{"rotall", c})
	}
	// one list reversed; all lists reversed
	nlists := idx
	if nlists > 0 {
		which := r.Intn(nlists)
		c := base.clone()
		i := 0
		c.walk(func(ps *[]xy, _ bool) {
			if i == which {
				*ps = reversed(*ps)
			}
			i++
		})
		out = append(out, variant{"rev", c})
		c2 := base.clone()
		c2.walk(func(ps *[]xy, _ bool) { *ps = reversed(*ps) })
		out = append(out, variant{"revall", c2})
	}
	// repeated vertices: the first vertex of every list twice; one random vertex of one list
	// three times (consecutive repeats do not change the curve)
	if nlists > 0 {
		c := base.clone()
		c.walk(func(ps *[]xy, isRing bool) {
			if len(*ps) >= 2 {
				*ps = append([]xy{(*ps)[0]}, *ps...)
			}
		})
		out = append(out, variant{"dupstart", c})
		which := r.Intn(nlists)
		c2 := base.clone()
		i := 0
		c2.walk(func(ps *[]xy, isRing bool) {
			if i == which && len(*ps) >= 2 {
				k := r.Intn(len(*ps))
				q := append([]xy(nil), (*ps)[:k+1]...)
				q = append(q, (*ps)[k], (*ps)[k])
				*ps = append(q, (*ps)[k+1:]...)
			}
			i++
		})
		out = append(out, variant{"dup", c2})
	}
	// the same XY geometry with Z / M / ZM ordinates that differ from vertex to vertex
	for k := 0; k < 2; k++ {
		c := base.clone()
		c.ct = r.Range(1, 3)
		c.zseed = r.U64()
		out = append(out, variant{"zm", c})
	}
	// a MultiPolygon inside collections of depth 1..3 with valid siblings: the bare verdict
	if base.kind == "MY" {
		for k := 0; k < 2; k++ {
			c := base.clone()
			for d := r.Range(1, 3); d > 0; d-- {
				w := &node{kind: "GC"}
				if r.Bool() {
					w.kids = append(w.kids, &node{kind: "P", pts: []xy{gp(r, 0, 5)}})
				}
				w.kids = append(w.kids, c)
				if r.Chance(1, 3) {
					w.kids = append(w.kids, &node{kind: "L", pts: []xy{{0, 0}, {1, 2}}})
				}
				c = w
			}
			out = append(out, variant{"wrap", c})
		}
	}
	// holes / members permuted
	{
		c := base.clone()
		permuteKids(c, r)
		out = append(out, variant{"perm", c})
	}
	// translations that move a vertex of the configuration onto the origin: every vertex that
	// occurs in two coordinate lists or lies on another list's segment (the touch points), up to
	// five of them, and two more vertices at random
	if base.finite() {
		for _, o := range originCandidates(base, r) {
			ox, oy := o.x, o.y
			out = append(out, variant{"trans0", mapXY(base, func(p xy) xy { return xy{p.x - ox, p.y - oy} })})
		}
	}
	// integer translation inside |c| <= 2^10, axis reflections
	room := int(1024 - maxAbs(base))
	dx, dy := float64(r.Range(-room, room)), float64(r.Range(-room, room))
	out = append(out, variant{"trans", mapXY(base, func(p xy) xy { return xy{p.x + dx, p.y + dy} })})
	out = append(out, variant{"reflx", mapXY(base, func(p xy) xy { return xy{-p.x, p.y} })})
	out = append(out, variant{"refly", mapXY(base, func(p xy) xy { return xy{p.x, -p.y} })})
	// everything at once
	{
		c := mapXY(base, func(p xy) xy { return xy{-p.x - dx, p.y + dy} })
		c.walk(func(ps *[]xy, _ bool) {
			if isClosed(*ps) && len(*ps) > 2 {
				*ps = rotateRing(*ps, r.Intn(len(*ps)-1))
			}
			if r.Bool() {
				*ps = reversed(*ps)
			}
		})
		permuteKids(c, r)
		out = append(out, variant{"mixed", c})
	}
	return out
}

// nonFinite replaces one ordinate (every position is reachable) by NaN / +Inf / -Inf
func nonFinite(base *node, r *lib.Rng) *node {
	c := base.clone()
	total := 0
	c.walk(func(ps *[]xy, _ bool) { total += 2 * len(*ps) })
	if total == 0 {
		return c
	}
	pos := r.Intn(total)
	v := []float64{math.NaN(), math.Inf(1), math.Inf(-1)}[r.Intn(3)]
	i := 0
	c.walk(func(ps *[]xy, _ bool) {
		for j := range *ps {
			if i == pos {
				(*ps)[j].x = v
			}
			if i+1 == pos {
				(*ps)[j].y = v
			}
			i += 2
		}
	})
	if r.Chance(1, 6) { // a second one somewhere
		return nonFiniteAgain(c, r)
	}
	return c
}

func nonFiniteAgain(c *node, r *lib.Rng) *node {
	c.walk(func(ps *[]xy, _ bool) {
		if len(*ps) > 0 && r.Chance(1, 3) {
			(*ps)[r.Intn(len(*ps))].y = math.NaN()
		}
	})
	return c
}

func main() {
	a := lib.ParseArgs()
	w, done := a.Output()
	defer done()
	root := lib.NewRng(a.Seed)
	classes := map[string]int{}
	variantsHist := map[string]int{}
	kinds := map[string]int{}
	verdicts := map[string]int{}
	lines := 0
	maxRot := 10
	insGroups := 0
	if a.Tier == "thorough" {
		maxRot = 40
	}
	// every line carries the base geometry of its group and the base verdicts (bval, bsimple,
	// bring), so that a single line is a complete replay of a representation-independence failure
	baseObs, baseText := map[string]string{}, ""
	emit := func(group string, k int, class, vname string, n *node) {
		obs := observe(n)
		if k == 0 {
			baseText = n.String()
			baseObs = map[string]string{}
			for _, kv := range strings.Fields(obs) {
				if i := strings.IndexByte(kv, '='); i > 0 {
					baseObs[kv[:i]] = kv[i+1:]
				}
			}
		}
		obs += " bval=" + baseObs["val"]
		if v, ok := baseObs["simple"]; ok {
			obs += " bsimple=" + v + " bring=" + baseObs["ring"]
		}
		fmt.Fprintf(w, "%s.%d\t%s\t%s\t%s\t%s\t%s\t%s\n", group, k, class, group, vname, n.String(), obs, baseText)
		lines++
		variantsHist[vname]++
		kinds[n.kind]++
		verdicts[class+":"+obs[:5]]++
	}
	for group := 0; lines < a.N; group++ {
		r := root.Fork()
		var base *node
		class := ""
		switch group % 20 {
		case 19:
			class, base = "inscribed", nil
		case 18:
			class, base = "huge_polys", nil
		case 16:
			class, base = "two_touch", genTwoTouch(r)
		case 17:
			class, base = "special_pairs", nil
		case 15:
			class, base = "nested_touch", genNestedTouch(r)
		case 12, 13:
			class, base = "touch_graph", genTouchGraph(r)
		case 14:
			class, base = "degenerate", genDegenerate(r)
		case 0, 1:
			class, base = "line", genLine(r)
		case 2, 3, 4:
			class, base = "polygon", genPoly(r)
		case 5, 6:
			class, base = "shared_vertex", genSharedVertex(r)
		case 7, 8:
			class, base = "multipolygon", genMultiPoly(r)
		case 9:
			class, base = "any", genAny(r, 2)
		case 10:
			class, base = "ring_polygon", &node{kind: "Y", rings: [][]xy{genRingAny(r, 0, r.Range(3, 6))}}
		default:
			class, base = "nonfinite", nonFinite(genAny(r, 2), r)
		}
		classes[class]++
		gid := strconv.Itoa(group)
		if class == "huge_polys" {
			// areal geometries with one or two huge finite ordinates: products of ordinates overflow.
			// Observed: no panic anywhere (the model's exact arithmetic is not comparable here)
			for k := 0; k < 12; k++ {
				emit(gid+"_"+strconv.Itoa(k), 0, class, "base", hugePoly(r))
			}
			continue
		}
		if class == "inscribed" {
			// systematic member orders / ring starts / extra members, then the standard changes
			b, vs := genInscribed(r, insGroups)
			insGroups++
			emit(gid, 0, class, "base", b)
			k := 1
			for _, v := range vs {
				emit(gid, k, class, v.name, v.n)
				k++
			}
			for _, v := range variants(b, r, 4) {
				emit(gid, k, class, v.name, v.n)
				k++
			}
			continue
		}
		if class == "special_pairs" {
			// one case per (pair of special values, vertex position); no representation changes
			for k := 0; k < 14; k++ {
				emit(gid+"_"+strconv.Itoa(k), 0, class, "base", specialPair(r, group*14+k))
			}
			continue
		}
		emit(gid, 0, class, "base", base)
		for k, v := range variants(base, r, maxRot) {
			emit(gid, k+1, class, v.name, v.n)
		}
	}
	stats := map[string]interface{}{"classes_groups": classes, "variants": variantsHist, "kinds": kinds,
		"class_verdicts": verdicts, "lines": lines, "inscribed_templates": insTemplatesHist}
	js, _ := json.Marshal(stats)
	fmt.Fprintf(w, "#GEN\t%s\n", js)
}
