// Command c04 runs the WKB codec of the implementation on generated geometries and prints, per
// case, the observations the model is compared against (property C04).
package main

import (
	"database/sql"
	"database/sql/driver"
	"encoding/json"
	"fmt"
	"strings"

	"github.com/peterstace/simplefeatures/geom"
	"verifharness/lib"
)

func decDump(b []byte) (string, geom.Geometry, bool) {
	g, err := geom.UnmarshalWKB(b, geom.NoValidate{})
	if err != nil {
		return "ERR", geom.Geometry{}, false
	}
	return lib.Dump(g), g, true
}

func valueBytes(v driver.Valuer) []byte {
	x, err := v.Value()
	if err != nil {
		return nil
	}
	b, _ := x.([]byte)
	return b
}

func scanCode(dst sql.Scanner, src interface{}, get func() geom.Geometry, want string) (code byte) {
	defer func() {
		if r := recover(); r != nil {
			code = 'p' // a panic inside Scan
		}
	}()
	if err := dst.Scan(src); err != nil {
		return 'e'
	}
	if lib.Dump(get()) != want {
		return 'd'
	}
	return 'o'
}

// bn2geom builds a small unrelated geometry whose Value() is requested while another Value() result is alive.
func bn2geom(r *lib.Rng) geom.Geometry {
	var st lib.GenStats
	cfg := lib.StructCfg{MaxDepth: 2, MaxKids: 3, MaxVerts: 4}
	return cfg.Gen(r, &st).Build()
}

func main() {
	a := lib.ParseArgs()
	w, done := a.Output()
	defer done()
	root := lib.NewRng(a.Seed)
	var st lib.GenStats
	classes := map[string]int{}
	var prevVal, prevWKB []byte
	for i := 0; i < a.N; i++ {
		r := root.Fork()
		cfg := lib.StructCfg{MaxDepth: 4, NonFinZM: true, MaxKids: 4, MaxVerts: 5}
		class := "wf"
		switch i % 10 {
		case 7:
			cfg.MixedCT = true
			class = "mixedct"
		case 8:
			cfg.NonFinXY = true
			class = "nanxy"
		case 9:
			cfg.SmallInts = true
			class = "smallint"
		case 6:
			if i%40 != 6 {
				break
			}
			// wide: many members per Multi*/collection node (33..70), shallow nesting
			cfg.MaxKids = 33 + r.Intn(38)
			cfg.MaxDepth = 2
			cfg.MaxVerts = 3
			class = "wide"
		}
		classes[class]++
		n := cfg.Gen(r, &st)
		g := n.Build()
		wkb := g.AsBinary()
		d1, g1, ok1 := decDump(wkb)
		re := "ERR"
		if ok1 {
			re = lib.Hex(g1.AsBinary())
		}
		bn := lib.NodeOf(g)
		mixed := bn.WKBMixed(func() bool { return r.Bool() })
		d2, _, _ := decDump(mixed)
		big := bn.WKBMixed(func() bool { return false })
		d4, _, _ := decDump(big)
		junk := make([]byte, r.Range(1, 9))
		for j := range junk {
			junk[j] = byte(r.Intn(256))
		}
		d3, _, _ := decDump(append(append([]byte(nil), wkb...), junk...))
		trail := "ne"
		if d3 == d1 {
			trail = "eq"
		}
		prefix := []byte{0xde, 0xad, byte(i)}
		app := "ne"
		if string(g.AppendWKB(append([]byte(nil), prefix...))) == string(prefix)+string(wkb) {
			app = "eq"
		}
		val := "ne"
		v1 := valueBytes(g)
		if string(v1) == string(wkb) {
			val = "eq"
		}
		// Value() results must stay intact while other Value() calls are made (database/sql keeps
		// all arguments of one statement alive): a second geometry's Value must not clobber the first
		v2 := valueBytes(bn2geom(r))
		_ = v2
		if string(v1) != string(wkb) || (prevVal != nil && string(prevVal) != string(prevWKB)) {
			val = "ne"
		}
		prevVal, prevWKB = v1, wkb
		valid := 0
		if g.Validate() == nil {
			valid = 1
		}
		// Scan into every concrete type, Geometry and NullGeometry
		gd := lib.Dump(g)
		var pt geom.Point
		var ls geom.LineString
		var py geom.Polygon
		var mp geom.MultiPoint
		var ml geom.MultiLineString
		var my geom.MultiPolygon
		var gc geom.GeometryCollection
		var gg geom.Geometry
		var ng geom.NullGeometry
		scan := []byte{
			scanCode(&pt, wkb, func() geom.Geometry { return pt.AsGeometry() }, gd),
			scanCode(&ls, wkb, func() geom.Geometry { return ls.AsGeometry() }, gd),
			scanCode(&py, wkb, func() geom.Geometry { return py.AsGeometry() }, gd),
			scanCode(&mp, wkb, func() geom.Geometry { return mp.AsGeometry() }, gd),
			scanCode(&ml, wkb, func() geom.Geometry { return ml.AsGeometry() }, gd),
			scanCode(&my, wkb, func() geom.Geometry { return my.AsGeometry() }, gd),
			scanCode(&gc, wkb, func() geom.Geometry { return gc.AsGeometry() }, gd),
			scanCode(&gg, wkb, func() geom.Geometry { return gg }, gd),
			scanCode(&ng, wkb, func() geom.Geometry { return ng.Geometry }, gd),
		}
		// the same Scan matrix on the big-endian and on the mixed-endian document of the same value
		scanOn := func(doc interface{}) string {
			var pt geom.Point
			var ls geom.LineString
			var py geom.Polygon
			var mp geom.MultiPoint
			var ml geom.MultiLineString
			var my geom.MultiPolygon
			var gc geom.GeometryCollection
			var gg geom.Geometry
			var ng geom.NullGeometry
			return string([]byte{
				scanCode(&pt, doc, func() geom.Geometry { return pt.AsGeometry() }, gd),
				scanCode(&ls, doc, func() geom.Geometry { return ls.AsGeometry() }, gd),
				scanCode(&py, doc, func() geom.Geometry { return py.AsGeometry() }, gd),
				scanCode(&mp, doc, func() geom.Geometry { return mp.AsGeometry() }, gd),
				scanCode(&ml, doc, func() geom.Geometry { return ml.AsGeometry() }, gd),
				scanCode(&my, doc, func() geom.Geometry { return my.AsGeometry() }, gd),
				scanCode(&gc, doc, func() geom.Geometry { return gc.AsGeometry() }, gd),
				scanCode(&gg, doc, func() geom.Geometry { return gg }, gd),
				scanCode(&ng, doc, func() geom.Geometry { return ng.Geometry }, gd),
			})
		}
		scanBE := scanOn(big)
		scanMixed := scanOn(mixed)
		// database drivers hand WKB over as []byte or as string: the same matrix from string sources
		scanStr := scanOn(string(wkb)) + scanOn(string(big))
		fields := []string{
			fmt.Sprintf("%d", i), class, n.Dump(), gd, lib.Hex(wkb), d1, re,
			lib.Hex(mixed), d2, lib.Hex(big), d4, trail, app, val, fmt.Sprintf("%d", valid), string(scan), scanBE, scanMixed, scanStr,
		}
		fmt.Fprintln(w, strings.Join(fields, "\t"))
	}
	stats := map[string]interface{}{"classes": classes, "kinds": st.Kinds, "ctypes": st.CTs,
		"float_classes": st.FloatCls, "float_class_names": lib.FloatClassNames,
		"empty_nodes": st.EmptyNodes, "empty_members": st.EmptyKids, "depth_hist": st.Depth, "vertices": st.Verts}
	js, _ := json.Marshal(stats)
	fmt.Fprintf(w, "#GEN\t%s\n", js)
}
