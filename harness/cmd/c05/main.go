// Command c05 runs the WKT writer and parser of the implementation on generated geometries, on
// re-spellings of the produced text and on token-mutated text, and prints the observations the
// model (coq/Model/WKT.v) is compared against (property C05).
package main

import (
	"encoding/json"
	"fmt"
	"math"
	"strconv"
	"strings"

	"github.com/peterstace/simplefeatures/geom"
	"verifharness/lib"
)

func parseDump(s string) (out string) {
	defer func() {
		if recover() != nil {
			out = "PANIC"
		}
	}()
	g, err := geom.UnmarshalWKT(s, geom.NoValidate{})
	if err != nil {
		return "ERR"
	}
	return lib.Dump(g)
}

func appendUnderRecover(g geom.Geometry, prefix []byte) (out string, ok bool) {
	defer func() {
		if recover() != nil {
			out, ok = "", false
		}
	}()
	return string(g.AppendWKT(append([]byte(nil), prefix...))), true
}

var prefixes = []string{"x(", "a,", "b ", "POINT", "v1"}

// concrete calls AsText/AppendWKT on the concrete type (not through Geometry's dispatch).
func concrete(g geom.Geometry, prefix []byte) (string, string) {
	p := append([]byte(nil), prefix...)
	switch g.Type() {
	case geom.TypePoint:
		x := g.MustAsPoint()
		return x.AsText(), string(x.AppendWKT(p))
	case geom.TypeLineString:
		x := g.MustAsLineString()
		return x.AsText(), string(x.AppendWKT(p))
	case geom.TypePolygon:
		x := g.MustAsPolygon()
		return x.AsText(), string(x.AppendWKT(p))
	case geom.TypeMultiPoint:
		x := g.MustAsMultiPoint()
		return x.AsText(), string(x.AppendWKT(p))
	case geom.TypeMultiLineString:
		x := g.MustAsMultiLineString()
		return x.AsText(), string(x.AppendWKT(p))
	case geom.TypeMultiPolygon:
		x := g.MustAsMultiPolygon()
		return x.AsText(), string(x.AppendWKT(p))
	default:
		x := g.MustAsGeometryCollection()
		return x.AsText(), string(x.AppendWKT(p))
	}
}

type emitter struct {
	w        interface{ WriteString(string) (int, error) }
	unrep    int
	fallback int
	nResp    int
	nNeg     int
	nGarbage int
	// the exhaustive trailing stream: combinations parsed, texts it was put behind, texts still allowed
	nStream      int
	nStreamTexts int
	streamBudget int
	floatSeen    map[uint64]bool
}

// caseOpts: how much is derived from one generated geometry.
type caseOpts struct {
	nResp, nNeg int  // re-spellings and token mutations
	trailing    bool // one trailing token (T), random members of the malformed trailing stream (TG)
	stream      bool // the whole malformed trailing stream behind this text if it is short (TS)
}

func (e *emitter) line(fields ...string) { e.w.WriteString(strings.Join(fields, "\t") + "\n") }

// geomCase emits the G line and its R/N/T lines.
func (e *emitter) geomCase(id, class string, zero bool, g geom.Geometry, r *lib.Rng, o caseOpts) {
	nResp, nNeg := o.nResp, o.nNeg
	gd := lib.Dump(g)
	text := g.AsText()
	mt, ok := toModel(text)
	if !ok {
		mt = "UNREP"
	}
	pi := r.Intn(len(prefixes))
	flags := make([]byte, 0, 8)
	appM := ""
	for i, p := range prefixes {
		got, fine := appendUnderRecover(g, []byte(p))
		switch {
		case !fine:
			flags = append(flags, 'p')
		case got == p+text:
			flags = append(flags, 'e')
		default:
			flags = append(flags, 'n')
		}
		if i == pi {
			if !fine {
				appM = "PANIC"
			} else if strings.HasPrefix(got, p) {
				var sb strings.Builder
				hexChars(&sb, p)
				m2, ok2 := toModel(got[len(p):])
				if ok2 {
					appM = sb.String() + m2
				} else {
					appM = "UNREP"
				}
			} else {
				appM = "LOSTPREFIX"
			}
		}
	}
	// nil prefix and the concrete type's own methods
	if got, fine := appendUnderRecover(g, nil); !fine {
		flags = append(flags, 'p')
	} else if got == text {
		flags = append(flags, 'e')
	} else {
		flags = append(flags, 'n')
	}
	ct, ca := concrete(g, []byte(prefixes[pi]))
	if ct == text && ca == prefixes[pi]+text {
		flags = append(flags, 'e')
	} else {
		flags = append(flags, 'n')
	}
	back := parseDump(text)
	node := lib.NodeOf(g)
	indep := render(printTokens(node, canonOpts), canonWS, noGap)
	grammar := "eq"
	if indep != text {
		grammar = "ne:" + indep
	}
	viaWKB := "ERR"
	if h, err := geom.UnmarshalWKB(g.AsBinary(), geom.NoValidate{}); err == nil {
		viaWKB = lib.Dump(h)
	}
	z := "0"
	if zero {
		z = "1"
	}
	var ph strings.Builder
	hexChars(&ph, prefixes[pi])
	e.line(id, "G", class, z, gd, mt, ph.String(), appM, string(flags), back, grammar, viaWKB)

	for k := 0; k < nResp; k++ {
		s := respell(r, node, &e.fallback)
		m, ok := toModel(s)
		if !ok {
			e.unrep++
			continue
		}
		e.nResp++
		e.line(fmt.Sprintf("%s.r%d", id, k), "R", gd, m, parseDump(s))
	}
	for k := 0; k < nNeg; k++ {
		kind, s := mutate(r, node)
		m, ok := toModel(s)
		if !ok {
			e.unrep++
			continue
		}
		e.nNeg++
		e.line(fmt.Sprintf("%s.n%d", id, k), "N", kind, m, parseDump(s))
	}
	if o.trailing {
		trail := text + []string{" x", ")", " POINT EMPTY", ",", " 1", " EMPTY", "("}[r.Intn(7)]
		if m, ok := toModel(trail); ok {
			e.line(id+".t", "T", m, parseDump(trail))
		}
		// members of the malformed trailing stream (trailing.go), fully recorded and compared with the
		// model where the text is expressible in its alphabet
		e.trailingRandom(id, text, r, 3)
	}
	// the whole stream behind short texts (every zero value; generated texts while the budget lasts)
	if o.stream && len(text) <= streamMaxText && (zero || strings.HasPrefix(class, "zero") || e.streamBudget > 0) {
		e.streamBudget--
		e.trailingExhaustive(id, text)
	}
}

const streamMaxText = 120

func clip(s string, n int) string {
	if len(s) > n {
		return s[:n/2] + "..." + s[len(s)-n/2:]
	}
	return s
}

func parseValidated(s string) (out string) {
	defer func() {
		if recover() != nil {
			out = "PANIC"
		}
	}()
	g, err := geom.UnmarshalWKT(s)
	if err != nil {
		return "ERR"
	}
	return lib.Dump(g)
}

// deepColl builds a tree in which every inner node is a GeometryCollection with 2..4 children, the
// children mixing small leaves and further collections in random order, depth 3..5; all leaves are
// distinct (ordinates from a counter), so that a replaced or duplicated member shows in the dump.
func deepColl(r *lib.Rng, st *lib.GenStats) *lib.Node {
	ct := geom.DimXY
	if r.Chance(1, 4) {
		ct = geom.CoordinatesType(r.Intn(4))
	}
	counter := 0.0
	vertex := func() [4]float64 {
		counter++
		var v [4]float64
		v[0], v[1] = counter, -counter
		if ct.Is3D() {
			v[2] = counter + 0.5
		}
		if ct.IsMeasured() {
			v[3] = counter + 0.25
		}
		st.Verts++
		st.FloatCls[0] += ct.Dimension()
		return v
	}
	leaf := func() *lib.Node {
		st.CTs[ct]++
		switch r.Intn(6) {
		case 0:
			st.Kinds[lib.KLine]++
			return &lib.Node{Kind: lib.KLine, CT: ct, C: [][4]float64{vertex(), vertex()}}
		case 1:
			st.Kinds[lib.KMPoint]++
			return &lib.Node{Kind: lib.KMPoint, CT: ct, Kids: []*lib.Node{{Kind: lib.KPoint, CT: ct, Full: true, C: [][4]float64{vertex()}}}}
		default:
			st.Kinds[lib.KPoint]++
			return &lib.Node{Kind: lib.KPoint, CT: ct, Full: true, C: [][4]float64{vertex()}}
		}
	}
	var build func(depth int) *lib.Node
	build = func(depth int) *lib.Node {
		st.Kinds[lib.KColl]++
		st.CTs[ct]++
		n := &lib.Node{Kind: lib.KColl, CT: ct}
		k := r.Range(2, 4)
		forced := -1
		if depth > 1 {
			forced = r.Intn(k) // at least one child continues to the target depth
		}
		for i := 0; i < k; i++ {
			if depth > 1 && (i == forced || r.Chance(2, 5)) {
				n.Kids = append(n.Kids, build(depth-1))
			} else {
				n.Kids = append(n.Kids, leaf())
			}
		}
		return n
	}
	n := build(r.Range(3, 5))
	d := n.Depth()
	if d > 7 {
		d = 7
	}
	st.Depth[d]++
	return n
}

// floatCase validates the number oracle on one double: shortest 'f' spelling reads back to the
// same bits, has no exponent, is one scanner token, and the sign is a leading '-'.
func (e *emitter) floatCase(id string, f float64) {
	b := math.Float64bits(f)
	if e.floatSeen[b] {
		return
	}
	e.floatSeen[b] = true
	s := strconv.FormatFloat(f, 'f', -1, 64)
	status := "ok"
	g, err := strconv.ParseFloat(s, 64)
	mag := s
	if math.Signbit(f) {
		if !strings.HasPrefix(s, "-") {
			status = "bad:no_sign"
		}
		mag = strings.TrimPrefix(s, "-")
	}
	switch {
	case status != "ok":
	case err != nil || math.Float64bits(g) != b:
		status = "bad:roundtrip"
	case strings.ContainsAny(s, "eEpPxX+"):
		status = "bad:exponent_form"
	case mag != strconv.FormatFloat(math.Abs(f), 'f', -1, 64):
		status = "bad:sign_not_prefix"
	case !oneScannerToken(mag):
		status = "bad:scanner_token"
	}
	if len(s) > 40 {
		s = s[:40] + "..."
	}
	e.line(id, "F", pad16(b), s, status)
}

func main() {
	a := lib.ParseArgs()
	w, done := a.Output()
	defer done()
	root := lib.NewRng(a.Seed)
	e := &emitter{w: w, floatSeen: map[uint64]bool{}, streamBudget: 100}
	if a.Tier == "thorough" {
		e.streamBudget = 4000
	}
	var st lib.GenStats
	classes := map[string]int{}
	nResp, nNeg := 8, 5
	full := caseOpts{nResp: nResp, nNeg: nNeg, trailing: true, stream: true}

	// zero values of every Go type
	zr := root.Fork()
	zeros := []struct {
		name string
		g    geom.Geometry
		zero bool
	}{
		{"Geometry", geom.Geometry{}, true},
		{"Point", geom.Point{}.AsGeometry(), false},
		{"LineString", geom.LineString{}.AsGeometry(), false},
		{"Polygon", geom.Polygon{}.AsGeometry(), false},
		{"MultiPoint", geom.MultiPoint{}.AsGeometry(), false},
		{"MultiLineString", geom.MultiLineString{}.AsGeometry(), false},
		{"MultiPolygon", geom.MultiPolygon{}.AsGeometry(), false},
		{"GeometryCollection", geom.GeometryCollection{}.AsGeometry(), false},
	}
	for i, z := range zeros {
		classes["zero"]++
		e.geomCase(fmt.Sprintf("z%d", i), "zero:"+z.name, z.zero, z.g, zr, full)
	}

	// systematic nested-collection shapes (shapes.go): the document itself, for every 4th a
	// re-spelling, for every 40th the malformed trailing stream
	sr := root.Fork()
	for i, sc := range shapeCases(a.Tier == "thorough", &st) {
		classes[sc.class]++
		o := caseOpts{}
		if i%4 == 0 {
			o.nResp = 1
		}
		if i%40 == 0 {
			o.stream = true
		}
		e.geomCase(fmt.Sprintf("s%d", i), sc.class, false, sc.node.Build(), sr, o)
	}

	for i := 0; i < a.N; i++ {
		r := root.Fork()
		cfg := lib.StructCfg{MaxDepth: 4, MaxKids: 4, MaxVerts: 5}
		class := "wf"
		var n *lib.Node
		switch i % 10 {
		case 5:
			cfg.MixedCT = true
			class = "mixedct"
			n = cfg.Gen(r, &st)
		case 6:
			cfg.SmallInts = true
			class = "smallint"
			n = cfg.Gen(r, &st)
		case 7, 8:
			class = "kind" + lib.KindTag[(i/10)%7]
			n = cfg.GenKind(r, lib.Kind((i/10)%7), &st)
		case 4:
			class = "deepcoll"
			n = deepColl(r, &st)
		case 9:
			class = "emptyring"
			n = cfg.GenKind(r, []lib.Kind{lib.KPoly, lib.KMPoly, lib.KColl}[(i/10)%3], &st)
			emptySomeRing(r, n)
		default:
			n = cfg.Gen(r, &st)
		}
		classes[class]++
		g := n.Build()
		e.geomCase(strconv.Itoa(i), class, false, g, r, full)
		// fresh draws from every float class through the number oracle (the ordinates of the case itself
		// are checked by the print comparison: their spelling is read back to bits by ParseFloat)
		for j := 0; j < 3; j++ {
			f, _ := lib.GenFloat(r, false)
			e.floatCase(fmt.Sprintf("f%d.%d", i, j), f)
		}
	}
	// fixed boundary doubles
	for i, f := range []float64{0, math.Copysign(0, -1), math.SmallestNonzeroFloat64, -math.SmallestNonzeroFloat64,
		math.MaxFloat64, -math.MaxFloat64, 1e308, 1e21, 1e20, 123456789012345678, 0.1, 1.0 / 3, 5e-324, 2.2250738585072014e-308,
		9007199254740993, 1e-7, 123456.7890123456} {
		e.floatCase(fmt.Sprintf("fb%d", i), f)
	}
	nLexErr := 0
	groups := map[string]int{}
	for _, f := range frags {
		if f.lexErr {
			nLexErr++
		}
		groups[f.name[:strings.Index(f.name, ":")]]++
	}
	stats := map[string]interface{}{"classes": classes, "kinds": st.Kinds, "ctypes": st.CTs,
		"float_classes": st.FloatCls, "float_class_names": lib.FloatClassNames,
		"empty_nodes": st.EmptyNodes, "empty_members": st.EmptyKids, "depth_hist": st.Depth, "vertices": st.Verts,
		"respellings": e.nResp, "negatives": e.nNeg, "trailing_recorded": e.nGarbage, "trailing_fragments": len(frags), "trailing_fragments_lexically_invalid": nLexErr,
		"trailing_fragment_groups": groups, "trailing_variants_per_fragment": len(trailVariants),
		"trailing_stream_texts": e.nStreamTexts, "trailing_stream_parses": e.nStream, "unrepresentable_skipped": e.unrep,
		"number_respell_fallbacks": e.fallback, "floats_checked": len(e.floatSeen),
		"respellings_per_text": nResp, "mutations_per_text": nNeg}
	js, _ := json.Marshal(stats)
	fmt.Fprintf(w, "#GEN\t%s\n", js)
}

// emptySomeRing empties one ring of some polygon in the tree (outside what Validate accepts, but
// constructible with NoValidate and printable).
func emptySomeRing(r *lib.Rng, n *lib.Node) {
	var polys []*lib.Node
	var walk func(*lib.Node)
	walk = func(x *lib.Node) {
		if x.Kind == lib.KPoly && len(x.Kids) > 0 {
			polys = append(polys, x)
		}
		if x.Kind == lib.KMPoly || x.Kind == lib.KColl {
			for _, k := range x.Kids {
				walk(k)
			}
		}
	}
	walk(n)
	if len(polys) == 0 {
		return
	}
	p := polys[r.Intn(len(polys))]
	p.Kids[r.Intn(len(p.Kids))].C = nil
}
