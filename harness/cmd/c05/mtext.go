package main

import (
	"math"
	"strconv"
	"strings"
	"text/scanner"
	"unicode/utf8"
)

// The model's text alphabet on the wire: every character as two hex digits, every number literal
// as 'N' followed by the 16 hex digits of the double it denotes (sign included), and 'X' for a
// stretch of text on which text/scanner reports a lexical error (the model's symbol Bad: a malformed
// numeric literal, an invalid UTF-8 byte).  The wire text ends at the first lexical error (NUL
// included): wkt_lexer.go returns the scanner's error there and nothing behind it is ever read.

func isLetter(c byte) bool { return c == '_' || 'A' <= c && c <= 'Z' || 'a' <= c && c <= 'z' }
func isDigit(c byte) bool  { return '0' <= c && c <= '9' }

const hexd = "0123456789abcdef"

func hexChars(sb *strings.Builder, s string) {
	for i := 0; i < len(s); i++ {
		sb.WriteByte(hexd[s[i]>>4])
		sb.WriteByte(hexd[s[i]&15])
	}
}

func numStart(s string, k int) bool {
	if k >= len(s) {
		return false
	}
	return isDigit(s[k]) || s[k] == '.' && k+1 < len(s) && isDigit(s[k+1])
}

// scanLiteral returns the end of the decimal literal starting at k (digits [. digits] [e[+-]digits]).
func scanLiteral(s string, k int) (int, bool) {
	j := k
	for j < len(s) && isDigit(s[j]) {
		j++
	}
	if j-k >= 2 && s[k] == '0' {
		return 0, false // text/scanner reads a leading 0 as an octal prefix: outside the alphabet
	}
	if j < len(s) && s[j] == '.' {
		j++
		for j < len(s) && isDigit(s[j]) {
			j++
		}
	}
	if j < len(s) && (s[j] == 'e' || s[j] == 'E') {
		j++
		if j < len(s) && (s[j] == '+' || s[j] == '-') {
			j++
		}
		d := j
		for j < len(s) && isDigit(s[j]) {
			j++
		}
		if j == d {
			return 0, false
		}
	}
	if j < len(s) && (isLetter(s[j]) || isDigit(s[j]) || s[j] == '.') {
		return 0, false
	}
	return j, true
}

// oneScannerToken reports whether text/scanner (in the mode wkt_lexer.go uses) reads lit as exactly
// one number token without complaint.
func oneScannerToken(lit string) bool {
	var scn scanner.Scanner
	scn.Init(strings.NewReader(lit))
	scn.Mode = scanner.ScanInts | scanner.ScanFloats | scanner.ScanIdents
	bad := false
	scn.Error = func(*scanner.Scanner, string) { bad = true }
	t := scn.Scan()
	if bad || (t != scanner.Int && t != scanner.Float) || scn.TokenText() != lit {
		return false
	}
	return scn.Scan() == scanner.EOF && !bad
}

// firstTokenLexError asks text/scanner itself (the oracle, in the mode wkt_lexer.go uses) whether
// scanning the first token of s makes it report an error.
func firstTokenLexError(s string) bool {
	var scn scanner.Scanner
	scn.Init(strings.NewReader(s))
	scn.Mode = scanner.ScanInts | scanner.ScanFloats | scanner.ScanIdents
	bad := false
	scn.Error = func(*scanner.Scanner, string) { bad = true }
	scn.Scan()
	return bad
}

// anyLexError: does text/scanner report an error anywhere in s?
func anyLexError(s string) bool {
	var scn scanner.Scanner
	scn.Init(strings.NewReader(s))
	scn.Mode = scanner.ScanInts | scanner.ScanFloats | scanner.ScanIdents
	bad := false
	scn.Error = func(*scanner.Scanner, string) { bad = true }
	for i := 0; i < len(s)+2 && scn.Scan() != scanner.EOF; i++ {
	}
	return bad
}

// toModel converts real text into the model alphabet; ok=false when the text cannot be expressed
// (a number glued to letters, literals text/scanner reads without complaint but strconv does not
// read as decimal floats - octal-looking, hexadecimal, with digit separators -, valid non-ASCII).
func toModel(s string) (string, bool) {
	var sb strings.Builder
	inIdent := false
	i := 0
	for i < len(s) {
		c := s[i]
		if c >= 0x80 {
			if r, size := utf8.DecodeRuneInString(s[i:]); r == utf8.RuneError && size == 1 {
				sb.WriteByte('X') // "invalid UTF-8 encoding"
				return sb.String(), true
			}
			return "", false
		}
		if c == 0 {
			sb.WriteString("00") // "invalid character NUL"
			return sb.String(), true
		}
		if isLetter(c) || inIdent && isDigit(c) {
			hexChars(&sb, s[i:i+1])
			inIdent = true
			i++
			continue
		}
		neg := false
		k := i
		if c == '-' && numStart(s, i+1) {
			neg = true
			k = i + 1
		}
		if numStart(s, k) {
			if inIdent && !neg {
				return "", false
			}
			end, ok := scanLiteral(s, k)
			if !ok || !oneScannerToken(s[k:end]) {
				if firstTokenLexError(s[k:]) {
					// a malformed literal (09, 1e, 0x, 1__0, ...): the lexer's error
					if neg {
						hexChars(&sb, "-")
					}
					sb.WriteByte('X')
					return sb.String(), true
				}
				return "", false
			}
			lit := s[k:end]
			f, err := strconv.ParseFloat(lit, 64)
			if err != nil {
				ne, isNum := err.(*strconv.NumError)
				if !isNum || ne.Err != strconv.ErrRange {
					return "", false
				}
				// out of range: ParseFloat returns an infinity (rejected by the parser)
			}
			b := math.Float64bits(f)
			if neg {
				b |= 1 << 63
			}
			sb.WriteByte('N')
			sb.WriteString(pad16(b))
			inIdent = false
			i = end
			continue
		}
		inIdent = false
		hexChars(&sb, s[i:i+1])
		i++
	}
	return sb.String(), true
}

func pad16(b uint64) string {
	s := strconv.FormatUint(b, 16)
	return strings.Repeat("0", 16-len(s)) + s
}
