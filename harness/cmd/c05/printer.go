package main

import (
	"math"
	"strconv"
	"strings"

	"verifharness/lib"
)

// A grammar-directed printer that is independent of the library's writer: it walks the harness's
// own description (lib.Node, read back through public accessors) and emits the OGC token sequence.

type tkind int

const (
	tkKeyword tkind = iota // geometry type keyword
	tkTag                  // Z M ZM
	tkEmpty
	tkPunct
	tkNum
	tkOther // injected by mutations
)

type ptok struct {
	kind tkind
	text string  // spelling (for numbers: of the magnitude)
	neg  bool    // numbers: sign
	f    float64 // numbers: value
}

var kwNames = [...]string{"POINT", "LINESTRING", "POLYGON", "MULTIPOINT", "MULTILINESTRING", "MULTIPOLYGON", "GEOMETRYCOLLECTION"}
var tagNames = [...]string{"", "Z", "M", "ZM"}

type spellOpts struct {
	kw   func(string) string  // case of a type keyword
	bare func() bool          // drop the parentheses of a non-empty MultiPoint member
	num  func(float64) string // spelling of a non-negative finite double
}

func canonNum(f float64) string { return strconv.FormatFloat(f, 'f', -1, 64) }

var canonOpts = spellOpts{kw: func(s string) string { return s }, bare: func() bool { return false }, num: canonNum}

type printer struct {
	o   spellOpts
	out []ptok
}

func (p *printer) punct(s string) { p.out = append(p.out, ptok{kind: tkPunct, text: s}) }
func (p *printer) empty()         { p.out = append(p.out, ptok{kind: tkEmpty, text: "EMPTY"}) }

func (p *printer) number(f float64) {
	neg := math.Signbit(f)
	p.out = append(p.out, ptok{kind: tkNum, text: p.o.num(math.Abs(f)), neg: neg, f: f})
}

func (p *printer) vertex(v [4]float64, ct int) {
	p.number(v[0])
	p.number(v[1])
	if ct == 1 || ct == 3 {
		p.number(v[2])
	}
	if ct >= 2 {
		p.number(v[3])
	}
}

func (p *printer) header(k lib.Kind, ct int) {
	p.out = append(p.out, ptok{kind: tkKeyword, text: p.o.kw(kwNames[k])})
	if ct != 0 {
		p.out = append(p.out, ptok{kind: tkTag, text: tagNames[ct]})
	}
}

func (p *printer) pointBody(n *lib.Node, mayBare bool) {
	if !n.Full {
		p.empty()
		return
	}
	bare := mayBare && p.o.bare()
	if !bare {
		p.punct("(")
	}
	p.vertex(n.C[0], int(n.CT))
	if !bare {
		p.punct(")")
	}
}

func (p *printer) lineBody(n *lib.Node) {
	if len(n.C) == 0 {
		p.empty()
		return
	}
	p.punct("(")
	for i, v := range n.C {
		if i > 0 {
			p.punct(",")
		}
		p.vertex(v, int(n.CT))
	}
	p.punct(")")
}

func (p *printer) polyBody(n *lib.Node) {
	if len(n.Kids) == 0 {
		p.empty()
		return
	}
	p.punct("(")
	for i, r := range n.Kids {
		if i > 0 {
			p.punct(",")
		}
		p.lineBody(r)
	}
	p.punct(")")
}

func (p *printer) geom(n *lib.Node) {
	p.header(n.Kind, int(n.CT))
	switch n.Kind {
	case lib.KPoint:
		p.pointBody(n, false)
	case lib.KLine:
		p.lineBody(n)
	case lib.KPoly:
		p.polyBody(n)
	default:
		if len(n.Kids) == 0 {
			p.empty()
			return
		}
		p.punct("(")
		for i, k := range n.Kids {
			if i > 0 {
				p.punct(",")
			}
			switch n.Kind {
			case lib.KMPoint:
				p.pointBody(k, true)
			case lib.KMLine:
				p.lineBody(k)
			case lib.KMPoly:
				p.polyBody(k)
			default:
				p.geom(k)
			}
		}
		p.punct(")")
	}
}

func printTokens(n *lib.Node, o spellOpts) []ptok {
	p := &printer{o: o}
	p.geom(n)
	return p.out
}

func alnumish(t ptok) bool {
	return t.kind == tkKeyword || t.kind == tkTag || t.kind == tkEmpty || t.kind == tkNum ||
		t.kind == tkOther && len(t.text) > 0 && (isLetter(t.text[0]) || isDigit(t.text[0]) || t.text[0] == '.' ||
			isLetter(t.text[len(t.text)-1]) || isDigit(t.text[len(t.text)-1]))
}

// render joins tokens; ws(need, afterTag) supplies the blanks between two tokens, minus the blanks
// between a sign and its magnitude.
func render(ts []ptok, ws func(need, afterTag bool) string, signGap func() string) string {
	var sb strings.Builder
	for i, t := range ts {
		if i > 0 {
			prev := ts[i-1]
			need := alnumish(prev) && alnumish(t)
			sb.WriteString(ws(need, prev.kind == tkTag))
		}
		if t.kind == tkNum && t.neg {
			sb.WriteByte('-')
			sb.WriteString(signGap())
		}
		sb.WriteString(t.text)
	}
	return sb.String()
}

// canonical spacing of the library: one blank where two words meet, and after a Z/M/ZM tag
func canonWS(need, afterTag bool) string {
	if need || afterTag {
		return " "
	}
	return ""
}

func noGap() string { return "" }

// ---- re-spellings ----

var blanks = []string{" ", "\t", "\n", "\r", "  ", " \n\t", "\r\n"}

func randCase(r *lib.Rng, s string) string {
	switch r.Intn(4) {
	case 0:
		return strings.ToLower(s)
	case 1:
		return s[:1] + strings.ToLower(s[1:])
	case 2:
		return s
	}
	b := []byte(s)
	for i := range b {
		if r.Bool() {
			b[i] = b[i] | 0x20
		}
	}
	return string(b)
}

// respellNum writes a non-negative finite double in one of the forms the quantifier names; the
// result is validated (same bits, one scanner token), otherwise the canonical form is used.
func respellNum(r *lib.Rng, f float64, fallback *int) string {
	c := canonNum(f)
	var s string
	switch r.Intn(9) {
	case 0:
		s = c
	case 1:
		s = strconv.FormatFloat(f, 'e', -1, 64)
	case 2:
		s = strconv.FormatFloat(f, 'E', -1, 64)
	case 3:
		s = strconv.FormatFloat(f, 'g', -1, 64)
	case 4:
		if strings.Contains(c, ".") {
			s = c + strings.Repeat("0", r.Range(1, 3))
		} else if r.Bool() {
			s = c + ".0"
		} else {
			s = c + "."
		}
	case 5:
		s = strconv.FormatFloat(f, 'e', 17, 64)
	case 6:
		if strings.HasPrefix(c, "0.") {
			s = c[1:]
		} else {
			s = c
		}
	case 7:
		s = strings.Replace(strconv.FormatFloat(f, 'e', -1, 64), "e+", "e", 1)
	default:
		s = strconv.FormatFloat(f, 'e', 20, 64)
	}
	g, err := strconv.ParseFloat(s, 64)
	if err != nil || math.Float64bits(g) != math.Float64bits(f) || !oneScannerToken(s) ||
		len(s) >= 2 && s[0] == '0' && isDigit(s[1]) {
		*fallback++
		return c
	}
	return s
}

func respell(r *lib.Rng, n *lib.Node, fallback *int) string {
	o := spellOpts{
		kw:   func(s string) string { return randCase(r, s) },
		bare: func() bool { return r.Bool() },
		num:  func(f float64) string { return respellNum(r, f, fallback) },
	}
	ts := printTokens(n, o)
	ws := func(need, afterTag bool) string {
		if !need && r.Bool() {
			return ""
		}
		return blanks[r.Intn(len(blanks))]
	}
	gap := func() string {
		if r.Chance(1, 4) {
			return blanks[r.Intn(len(blanks))]
		}
		return ""
	}
	s := render(ts, ws, gap)
	if r.Bool() {
		s = blanks[r.Intn(len(blanks))] + s
	}
	if r.Bool() {
		s += blanks[r.Intn(len(blanks))]
	}
	return s
}

// ---- negative stream: token-level mutations of the canonical token sequence ----

var pool = []string{"(", ")", ",", "EMPTY", "Z", "M", "ZM", "POINT", "LINESTRING", "POLYGON", "MULTIPOINT",
	"GEOMETRYCOLLECTION", "1", "2.5", "-", "+", "x", "NaN", "inf", "Infinity", "empty", "z", "zm", ".", "1e999", ";", "_a1", "point"}

func splitSigns(ts []ptok) []ptok {
	var out []ptok
	for _, t := range ts {
		if t.kind == tkNum && t.neg {
			out = append(out, ptok{kind: tkOther, text: "-"})
			t.neg = false
		}
		out = append(out, t)
	}
	return out
}

func mutate(r *lib.Rng, n *lib.Node) (string, string) {
	ts := splitSigns(printTokens(n, canonOpts))
	other := func() ptok { return ptok{kind: tkOther, text: pool[r.Intn(len(pool))]} }
	kind := ""
	switch r.Intn(8) {
	case 6, 7:
		kind = "retag"
		ts = retag(r, ts)
	case 0:
		kind = "delete"
		i := r.Intn(len(ts))
		ts = append(append([]ptok(nil), ts[:i]...), ts[i+1:]...)
	case 1:
		kind = "insert"
		i := r.Intn(len(ts) + 1)
		ts = append(append(append([]ptok(nil), ts[:i]...), other()), ts[i:]...)
	case 2:
		kind = "swap"
		if len(ts) >= 2 {
			i := r.Intn(len(ts) - 1)
			ts[i], ts[i+1] = ts[i+1], ts[i]
		}
	case 3:
		kind = "replace"
		ts[r.Intn(len(ts))] = other()
	case 4:
		kind = "lowercase_reserved"
		var idx []int
		for i, t := range ts {
			if t.kind == tkTag || t.kind == tkEmpty {
				idx = append(idx, i)
			}
		}
		if len(idx) > 0 {
			i := idx[r.Intn(len(idx))]
			ts[i] = ptok{kind: tkOther, text: strings.ToLower(ts[i].text)}
		} else {
			kind = "duplicate"
			i := r.Intn(len(ts))
			ts = append(append(append([]ptok(nil), ts[:i+1]...), ts[i]), ts[i+1:]...)
		}
	default:
		kind = "truncate"
		ts = ts[:r.Intn(len(ts))]
	}
	parts := make([]string, len(ts))
	for i, t := range ts {
		parts[i] = t.text
	}
	return kind, strings.Join(parts, " ")
}

// retag changes the Z/M/ZM tag of one header (preferring headers of EMPTY bodies, which stay
// syntactically valid): the collection coordinate-type rules decide such documents.
func retag(r *lib.Rng, ts []ptok) []ptok {
	var kws, emptyKws []int
	for i, t := range ts {
		if t.kind != tkKeyword {
			continue
		}
		kws = append(kws, i)
		j := i + 1
		if j < len(ts) && ts[j].kind == tkTag {
			j++
		}
		if j < len(ts) && ts[j].kind == tkEmpty {
			emptyKws = append(emptyKws, i)
		}
	}
	pick := kws
	if len(emptyKws) > 0 && r.Chance(2, 3) {
		pick = emptyKws
	}
	i := pick[r.Intn(len(pick))]
	tag := ptok{kind: tkTag, text: tagNames[r.Range(1, 3)]}
	out := append([]ptok(nil), ts[:i+1]...)
	rest := ts[i+1:]
	if len(rest) > 0 && rest[0].kind == tkTag {
		rest = rest[1:]
		if r.Bool() {
			out = append(out, tag) // replace (possibly by the same tag)
		}
	} else {
		out = append(out, tag)
	}
	return append(out, rest...)
}
