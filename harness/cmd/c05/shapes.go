package main

import (
	"github.com/peterstace/simplefeatures/geom"
	"verifharness/lib"
)

// Systematic nested-collection shapes (property C05, round trip "arbitrary nesting"; theorem
// wkt_roundtrip quantifies over all nested geometries).
//
// collshape: EVERY ordered tree with at most maxPlain nodes (quick 8, thorough 11) whose inner
// nodes are GeometryCollections and whose leaves are either an ordinary member or an empty
// collection (both leaf colours up to maxColour nodes - quick 6, thorough 9 -, ordinary leaves
// only above); collshape_multi: the same trees up to maxCycle nodes with the leaves cycling
// through MultiPoint, Polygon, MultiLineString, MultiPolygon, LineString, Point.  Depth ranges from 1 to
// the node count.  All leaves are pairwise distinguishable (ordinates from a counter), so that a
// member that is dropped, duplicated, moved or replaced by another member of the same document
// shows in the structural dump.
//
// collwide: the width patterns GC(GC(a), GC(b, GC(c)), tail) and GC(GC(a), b, GC(c, GC(a))) for
// member counts around the growth steps of a Go slice (0,1,2,3,4,5,8,9).
//
// ringpat: one document holding several Polygons / MultiLineStrings / MultiPolygons / MultiPoints
// with ring/member counts (1,2,4)^4 next to each other.

type shape struct {
	leaf bool // an ordinary (non-collection) member
	kids []*shape
}

type shapeEnum struct {
	colour  bool // empty collections allowed as leaves
	trees   map[int][]*shape
	forests map[int][][]*shape
}

func (e *shapeEnum) treesOf(n int) []*shape {
	if t, ok := e.trees[n]; ok {
		return t
	}
	var out []*shape
	if n == 1 {
		out = append(out, &shape{leaf: true})
		if e.colour {
			out = append(out, &shape{})
		}
	} else {
		for _, f := range e.forestsOf(n - 1) {
			out = append(out, &shape{kids: f})
		}
	}
	e.trees[n] = out
	return out
}

func (e *shapeEnum) forestsOf(m int) [][]*shape {
	if f, ok := e.forests[m]; ok {
		return f
	}
	var out [][]*shape
	if m == 0 {
		out = [][]*shape{nil}
	}
	for k := 1; k <= m; k++ {
		for _, t := range e.treesOf(k) {
			for _, rest := range e.forestsOf(m - k) {
				f := make([]*shape, 0, 1+len(rest))
				f = append(f, t)
				f = append(f, rest...)
				out = append(out, f)
			}
		}
	}
	e.forests[m] = out
	return out
}

// collectionShapes: all trees with a collection at the root and 1..maxNodes nodes.
func collectionShapes(maxNodes int, colour bool) []*shape {
	e := &shapeEnum{colour: colour, trees: map[int][]*shape{}, forests: map[int][][]*shape{}}
	var out []*shape
	out = append(out, &shape{}) // GEOMETRYCOLLECTION EMPTY
	for n := 2; n <= maxNodes; n++ {
		out = append(out, e.treesOf(n)...)
	}
	return out
}

func (s *shape) hasEmptyLeaf() bool {
	if s.leaf {
		return false
	}
	if len(s.kids) == 0 {
		return true
	}
	for _, k := range s.kids {
		if k.hasEmptyLeaf() {
			return true
		}
	}
	return false
}

// leafMaker hands out pairwise distinct members.
type leafMaker struct {
	ct      geom.CoordinatesType
	counter float64
	cycle   bool // false: every leaf is a Point; true: kinds cycle through the multi-part types
	n       int
	st      *lib.GenStats
}

func (m *leafMaker) vertex() [4]float64 {
	m.counter++
	var v [4]float64
	v[0], v[1] = m.counter, -m.counter
	if m.ct.Is3D() {
		v[2] = m.counter + 0.5
	}
	if m.ct.IsMeasured() {
		v[3] = m.counter + 0.25
	}
	m.st.Verts++
	m.st.FloatCls[0] += m.ct.Dimension()
	return v
}

func (m *leafMaker) point() *lib.Node {
	return &lib.Node{Kind: lib.KPoint, CT: m.ct, Full: true, C: [][4]float64{m.vertex()}}
}

func (m *leafMaker) line(k int) *lib.Node {
	n := &lib.Node{Kind: lib.KLine, CT: m.ct}
	for i := 0; i < k; i++ {
		n.C = append(n.C, m.vertex())
	}
	return n
}

func (m *leafMaker) ring() *lib.Node {
	n := m.line(3)
	n.C = append(n.C, n.C[0])
	return n
}

func (m *leafMaker) poly(rings int) *lib.Node {
	n := &lib.Node{Kind: lib.KPoly, CT: m.ct}
	for i := 0; i < rings; i++ {
		n.Kids = append(n.Kids, m.ring())
	}
	return n
}

func (m *leafMaker) multi(kind lib.Kind, k int, member func() *lib.Node) *lib.Node {
	n := &lib.Node{Kind: kind, CT: m.ct}
	for i := 0; i < k; i++ {
		n.Kids = append(n.Kids, member())
	}
	return n
}

func (m *leafMaker) leaf() *lib.Node {
	var n *lib.Node
	if !m.cycle {
		n = m.point()
	} else {
		switch m.n % 6 {
		case 0:
			n = m.multi(lib.KMPoint, 2, m.point)
		case 1:
			n = m.poly(1)
		case 2:
			n = m.multi(lib.KMLine, 2, func() *lib.Node { return m.line(2) })
		case 3:
			n = m.multi(lib.KMPoly, 2, func() *lib.Node { return m.poly(1) })
		case 4:
			n = m.line(3)
		default:
			n = m.point()
		}
	}
	m.n++
	m.st.Kinds[n.Kind]++
	m.st.CTs[m.ct]++
	return n
}

func (m *leafMaker) points(k int) []*lib.Node {
	var out []*lib.Node
	for i := 0; i < k; i++ {
		out = append(out, m.leaf())
	}
	return out
}

func (m *leafMaker) coll(kids ...*lib.Node) *lib.Node {
	m.st.Kinds[lib.KColl]++
	m.st.CTs[m.ct]++
	return &lib.Node{Kind: lib.KColl, CT: m.ct, Kids: kids}
}

func (m *leafMaker) build(s *shape) *lib.Node {
	if s.leaf {
		return m.leaf()
	}
	var kids []*lib.Node
	for _, k := range s.kids {
		kids = append(kids, m.build(k))
	}
	return m.coll(kids...)
}

func noteDepth(st *lib.GenStats, n *lib.Node) {
	d := n.Depth()
	if d > 7 {
		d = 7
	}
	st.Depth[d]++
}

type shapeCase struct {
	class string
	node  *lib.Node
}

// shapeCases builds the three systematic families.  i-th case: coordinates type XY except every
// 8th (XYZM) and every 8th+4 (XYZ).
func shapeCases(thorough bool, st *lib.GenStats) []shapeCase {
	maxColour, maxPlain, maxCycle := 6, 8, 6
	sizes := []int{0, 1, 2, 3, 4, 5, 8, 9}
	sizes2 := []int{1, 2, 3, 5}
	if thorough {
		maxColour, maxPlain, maxCycle = 9, 11, 8
		sizes = []int{0, 1, 2, 3, 4, 5, 7, 8, 9, 15, 16, 17, 33}
		sizes2 = sizes
	}
	var out []shapeCase
	idx := 0
	maker := func(cycle bool) *leafMaker {
		ct := geom.DimXY
		switch idx % 8 {
		case 7:
			ct = geom.DimXYZM
		case 3:
			ct = geom.DimXYZ
		}
		idx++
		return &leafMaker{ct: ct, cycle: cycle, st: st}
	}
	add := func(class string, n *lib.Node) {
		noteDepth(st, n)
		out = append(out, shapeCase{class, n})
	}
	for _, s := range collectionShapes(maxColour, true) {
		add("collshape", maker(false).build(s))
	}
	for n := maxColour + 1; n <= maxPlain; n++ {
		e := &shapeEnum{trees: map[int][]*shape{}, forests: map[int][][]*shape{}}
		for _, s := range e.treesOf(n) {
			add("collshape", maker(false).build(s))
		}
	}
	for _, s := range collectionShapes(maxCycle, false) {
		add("collshape_multi", maker(true).build(s))
	}
	for _, a := range sizes {
		for _, b := range sizes {
			for _, c := range sizes {
				m := maker(false)
				add("collwide", m.coll(append([]*lib.Node{m.coll(m.points(a)...),
					m.coll(append(m.points(b), m.coll(m.points(c)...))...)}, m.points(1)...)...))
			}
		}
	}
	for _, a := range sizes2 {
		for _, b := range sizes2 {
			for _, c := range sizes2 {
				m := maker(false)
				add("collwide", m.coll(append(append([]*lib.Node{m.coll(m.points(a)...)}, m.points(b)...),
					m.coll(append(m.points(c), m.coll(m.points(a)...))...))...))
			}
		}
	}
	rs := []int{1, 2, 4}
	for _, r1 := range rs {
		for _, r2 := range rs {
			for _, r3 := range rs {
				for _, r4 := range rs {
					m := maker(false)
					st.Kinds[lib.KPoly] += 2
					st.Kinds[lib.KMLine]++
					st.Kinds[lib.KMPoly]++
					st.Kinds[lib.KMPoint]++
					add("ringpat", m.coll(
						m.poly(r1),
						m.multi(lib.KMLine, r2, func() *lib.Node { return m.line(2) }),
						&lib.Node{Kind: lib.KMPoly, CT: m.ct, Kids: []*lib.Node{m.poly(r3), m.poly(r4)}},
						m.multi(lib.KMPoint, r4, m.point),
						m.poly(r2),
						m.multi(lib.KMPoly, r1, func() *lib.Node { return m.poly(r3) })))
				}
			}
		}
	}
	// seqlen: one sequence with exactly L-d, L or L+d ordinates (L a power of two, d the dimension) that
	// is NOT the last sequence of the document: followed by a hole, a sibling member or a later child of a
	// collection.  A parser that accumulates ordinates in a buffer of fixed initial capacity behaves
	// differently exactly when a sequence fills the buffer to the last slot and another sequence follows.
	pows := []int{8, 16, 32, 64, 128, 256}
	if thorough {
		pows = append(pows, 512, 1024, 2048, 4096)
	}
	for _, ct := range []geom.CoordinatesType{geom.DimXY, geom.DimXYZ, geom.DimXYM, geom.DimXYZM} {
		for _, L := range pows {
			for dk := -1; dk <= 1; dk++ {
				k := L/ct.Dimension() + dk
				if k < 4 {
					continue
				}
				for layout := 0; layout < 4; layout++ {
					m := &leafMaker{ct: ct, st: st}
					ringK := func() *lib.Node { n := m.line(k - 1); n.C = append(n.C, n.C[0]); return n }
					var n *lib.Node
					switch layout {
					case 0:
						st.Kinds[lib.KMLine]++
						n = &lib.Node{Kind: lib.KMLine, CT: ct, Kids: []*lib.Node{m.line(2), m.line(k), m.line(3)}}
					case 1:
						st.Kinds[lib.KPoly]++
						n = &lib.Node{Kind: lib.KPoly, CT: ct, Kids: []*lib.Node{ringK(), m.ring()}}
					case 2:
						st.Kinds[lib.KMPoly]++
						n = &lib.Node{Kind: lib.KMPoly, CT: ct, Kids: []*lib.Node{
							{Kind: lib.KPoly, CT: ct, Kids: []*lib.Node{m.ring(), ringK()}}, m.poly(1)}}
					default:
						n = m.coll(m.line(k), m.point(), m.coll(m.line(k), m.line(2)))
					}
					add("seqlen", n)
				}
			}
		}
	}
	return out
}
